#!/bin/sh
# Builds the runner and the instrumenter offline and warms the harness cache for the current tree.
set -e
cd "$(dirname "$0")"
export GOFLAGS=-mod=mod GOPROXY=off GOSUMDB=off GOTOOLCHAIN=local
export PATH=/opt/veriftools/go1.26.8/bin:$PATH
mkdir -p bin .work
(cd tools && go build -o ../bin/fsim ./cmd/fsim && go build -o ../bin/fsim-instrument ./cmd/fsim-instrument)
if [ "$1" != "--no-warm" ]; then
  ./bin/fsim build >/dev/null
fi
echo "setup ok"

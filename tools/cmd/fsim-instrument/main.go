// fsim-instrument rewrites the fabio sources found in the current working tree
// of a repository into instrumented copies and emits a `go build -overlay`
// JSON file. Nothing inside the repository is modified.
//
// Rewrites (all purely additive in behaviour when no simulation is live):
//
//	simhook.Yield(site) before every statement
//	go f(x)                      -> simhook.Go(func(){ f(x) }) with arguments evaluated at the go statement
//	for k, v := range <map>      -> iteration over simhook.MapKeys(m) (ordered key types only)
//	mu.Lock()/Unlock()/RLock()/RUnlock() on sync.Mutex/RWMutex (also embedded ones locked through the promoted
//	method) -> simhook.MutexLock(&mu) ...
//	pool.Get()/Put(x) on sync.Pool -> simhook.PoolGet(&pool)/PoolPut(&pool, x)
//	once.Do(f) on sync.Once -> simhook.OnceDo(&once, f)
//	net.Dial, net.DialTimeout, tls.Dial, (*net.Dialer).Dial, http.Get,
//	filepath.Walk, os.ReadFile, os.Stat -> simhook shims that fall through when no simulation is live
//	grpc.DialContext / NewClient / Dial in package proxy -> zzGrpcDialContext / zzGrpcNewClient / zzGrpcDial (injected, tag verif)
package main

import (
	"bytes"
	"encoding/json"
	"flag"
	"fmt"
	"go/ast"
	"go/format"
	"go/token"
	"go/types"
	"os"
	"path/filepath"
	"sort"
	"strconv"
	"strings"

	"golang.org/x/tools/go/ast/astutil"
	"golang.org/x/tools/go/packages"
)

const modPath = "github.com/fabiolb/fabio"
const hookPath = modPath + "/internal/zzverif/simhook"

type site struct {
	ID   int    `json:"id"`
	Pkg  string `json:"pkg"`
	Func string `json:"func"`
	Pos  string `json:"pos"`
}

var sites []site

var defaultPkgs = []string{
	".", "./route", "./proxy", "./proxy/tcp", "./proxy/gzip", "./cert",
	"./registry/consul", "./registry/custom", "./transport", "./logger",
	"./noroute", "./auth",
}

func fatal(code int, f string, a ...any) {
	fmt.Fprintf(os.Stderr, "fsim-instrument: "+f+"\n", a...)
	os.Exit(code)
}

func main() {
	repo := flag.String("repo", "/repo", "repository root")
	out := flag.String("out", "", "output directory")
	lib := flag.String("lib", "", "directory whose sub-directories become packages under internal/zzverif/")
	inject := flag.String("inject", "", "directory tree mirrored into the repository (files named zz_verif_*)")
	flag.Parse()
	if *out == "" {
		fatal(2, "-out required")
	}
	pats := flag.Args()
	if len(pats) == 0 {
		pats = defaultPkgs
	}
	cfg := &packages.Config{
		Mode: packages.NeedName | packages.NeedFiles | packages.NeedSyntax | packages.NeedTypes |
			packages.NeedTypesInfo | packages.NeedImports | packages.NeedDeps,
		Dir: *repo,
	}
	pkgs, err := packages.Load(cfg, pats...)
	if err != nil {
		fatal(2, "load: %v", err)
	}
	overlay := map[string]string{}
	nerr := 0
	for _, p := range pkgs {
		for _, e := range p.Errors {
			fmt.Fprintln(os.Stderr, "fsim-instrument:", p.PkgPath, e)
			nerr++
		}
	}
	if nerr > 0 {
		fatal(2, "the repository does not type-check")
	}
	sort.Slice(pkgs, func(i, j int) bool { return pkgs[i].PkgPath < pkgs[j].PkgPath })
	for _, p := range pkgs {
		files := append([]*ast.File(nil), p.Syntax...)
		sort.Slice(files, func(i, j int) bool {
			return p.Fset.Position(files[i].Pos()).Filename < p.Fset.Position(files[j].Pos()).Filename
		})
		for _, f := range files {
			fn := p.Fset.Position(f.Pos()).Filename
			if strings.HasSuffix(fn, "_test.go") {
				continue
			}
			if instrumentFile(p, f) {
				astutil.AddNamedImport(p.Fset, f, "zzsimhook", hookPath)
			}
			// imports whose only uses were rewritten away
			for _, im := range append([]*ast.ImportSpec(nil), f.Imports...) {
				path, _ := strconv.Unquote(im.Path.Value)
				if im.Name != nil && (im.Name.Name == "_" || im.Name.Name == ".") {
					continue
				}
				local := ""
				if im.Name != nil {
					local = im.Name.Name
				} else if ip := p.Imports[path]; ip != nil {
					local = ip.Name
				}
				if local == "" {
					continue
				}
				used := false
				ast.Inspect(f, func(n ast.Node) bool {
					if sel, ok := n.(*ast.SelectorExpr); ok {
						if id, ok := sel.X.(*ast.Ident); ok && id.Name == local {
							used = true
						}
					}
					return !used
				})
				if !used {
					if im.Name != nil {
						astutil.DeleteNamedImport(p.Fset, f, im.Name.Name, path)
					} else {
						astutil.DeleteImport(p.Fset, f, path)
					}
				}
			}
			var keep []*ast.CommentGroup
			for _, cg := range f.Comments {
				if cg.End() < f.Package {
					keep = append(keep, cg)
				}
			}
			f.Comments = keep
			var buf bytes.Buffer
			if err := format.Node(&buf, p.Fset, f); err != nil {
				fatal(2, "print %s: %v", fn, err)
			}
			rel, _ := filepath.Rel(*repo, fn)
			dst := filepath.Join(*out, "src", rel)
			os.MkdirAll(filepath.Dir(dst), 0o755)
			if err := os.WriteFile(dst, buf.Bytes(), 0o644); err != nil {
				fatal(2, "%v", err)
			}
			overlay[fn] = dst
		}
	}

	// library packages
	if *lib != "" {
		ents, err := os.ReadDir(*lib)
		if err != nil {
			fatal(2, "%v", err)
		}
		for _, e := range ents {
			if !e.IsDir() {
				continue
			}
			files, _ := filepath.Glob(filepath.Join(*lib, e.Name(), "*.go"))
			for _, f := range files {
				abs, _ := filepath.Abs(f)
				overlay[filepath.Join(*repo, "internal", "zzverif", e.Name(), filepath.Base(f))] = abs
			}
		}
		// generated site table
		var b bytes.Buffer
		b.WriteString("package simhook\n\nfunc init() {\n\tSites = []SiteInfo{\n")
		for _, s := range sites {
			fmt.Fprintf(&b, "\t\t{%q, %q, %q},\n", s.Pkg, s.Func, s.Pos)
		}
		b.WriteString("\t}\n}\n")
		dst := filepath.Join(*out, "zz_sites.go")
		os.WriteFile(dst, b.Bytes(), 0o644)
		overlay[filepath.Join(*repo, "internal", "zzverif", "simhook", "zz_sites.go")] = dst
	}
	if *inject != "" {
		root, _ := filepath.Abs(*inject)
		filepath.Walk(root, func(path string, info os.FileInfo, err error) error {
			if err != nil || info.IsDir() {
				return nil
			}
			if !strings.HasPrefix(filepath.Base(path), "zz_verif_") {
				return nil
			}
			rel, _ := filepath.Rel(root, path)
			overlay[filepath.Join(*repo, rel)] = path
			return nil
		})
	}
	b, _ := json.MarshalIndent(map[string]any{"Replace": overlay}, "", " ")
	if err := os.WriteFile(filepath.Join(*out, "overlay.json"), b, 0o644); err != nil {
		fatal(2, "%v", err)
	}
	sb, _ := json.Marshal(sites)
	os.WriteFile(filepath.Join(*out, "sites.json"), sb, 0o644)
	fmt.Printf("sites=%d files=%d\n", len(sites), len(overlay))
}

func hook(name string, args ...ast.Expr) *ast.CallExpr {
	return &ast.CallExpr{Fun: hookSel(name), Args: args}
}

func hookSel(name string) ast.Expr {
	return &ast.SelectorExpr{X: ast.NewIdent("zzsimhook"), Sel: ast.NewIdent(name)}
}

func instrumentFile(p *packages.Package, f *ast.File) bool {
	changed := false
	for _, d := range f.Decls {
		switch d := d.(type) {
		case *ast.FuncDecl:
			if d.Body == nil || d.Name.Name == "init" {
				continue
			}
			name := d.Name.Name
			if d.Recv != nil && len(d.Recv.List) > 0 {
				name = types.ExprString(d.Recv.List[0].Type) + "." + name
			}
			in := &instr{p: p, fn: name, fnPos: d.Pos(), fnEnd: d.End()}
			in.block(d.Body)
			changed = true
		case *ast.GenDecl:
			// package-level initialisers: only expression rewrites (shims), no yields
			if d.Tok == token.VAR {
				in := &instr{p: p, fn: "<pkgvar>", noYield: true}
				for _, sp := range d.Specs {
					vs := sp.(*ast.ValueSpec)
					for i, v := range vs.Values {
						vs.Values[i] = in.exprs(v).(ast.Expr)
					}
				}
				changed = changed || in.used
			}
		}
	}
	return changed
}

type instr struct {
	p       *packages.Package
	fn      string
	noYield bool
	used    bool
	tmp     int

	keepRange bool

	fnPos, fnEnd token.Pos // extent of the function (declaration or literal) being instrumented
}

func (in *instr) yield(pos token.Pos) ast.Stmt {
	id := len(sites)
	sites = append(sites, site{ID: id, Pkg: in.p.PkgPath, Func: in.fn, Pos: in.p.Fset.Position(pos).String()})
	return &ast.ExprStmt{X: hook("Yield", &ast.BasicLit{Kind: token.INT, Value: strconv.Itoa(id)})}
}

func (in *instr) block(b *ast.BlockStmt) {
	if b == nil {
		return
	}
	b.List = in.list(b.List)
}

func (in *instr) list(l []ast.Stmt) []ast.Stmt {
	var out []ast.Stmt
	for _, s := range l {
		s = in.stmt(s)
		if !in.noYield {
			switch x := s.(type) {
			case *ast.EmptyStmt:
			case *ast.DeclStmt:
				// a var declaration with initialisers executes code
				if gd, ok := x.Decl.(*ast.GenDecl); ok && gd.Tok == token.VAR && hasValues(gd) {
					out = append(out, in.yield(s.Pos()))
				}
			default:
				out = append(out, in.yield(s.Pos()))
			}
		}
		out = append(out, s)
	}
	return out
}

func hasValues(gd *ast.GenDecl) bool {
	for _, sp := range gd.Specs {
		if vs, ok := sp.(*ast.ValueSpec); ok && len(vs.Values) > 0 {
			return true
		}
	}
	return false
}

func (in *instr) typeOf(e ast.Expr) types.Type { return in.p.TypesInfo.TypeOf(e) }

func (in *instr) isOrderedMap(e ast.Expr) bool {
	t := in.typeOf(e)
	if t == nil {
		return false
	}
	m, ok := t.Underlying().(*types.Map)
	if !ok {
		return false
	}
	b, ok := m.Key().Underlying().(*types.Basic)
	return ok && b.Info()&(types.IsOrdered) != 0
}

// namedIn reports whether t (or *t) is the named type pkg.name; ptr tells whether t was a pointer.
func namedIn(t types.Type, pkg string, names ...string) (name string, ptr, ok bool) {
	if t == nil {
		return "", false, false
	}
	if pt, isPtr := t.(*types.Pointer); isPtr {
		t = pt.Elem()
		ptr = true
	}
	n, isNamed := t.(*types.Named)
	if !isNamed || n.Obj().Pkg() == nil || n.Obj().Pkg().Path() != pkg {
		return "", false, false
	}
	for _, nm := range names {
		if n.Obj().Name() == nm {
			return nm, ptr, true
		}
	}
	return "", false, false
}

// embeddedMutex reports whether sel is a method of sync.Mutex / sync.RWMutex promoted through embedded fields, and
// returns the field names that lead from sel.X to the embedded mutex, its type name, and whether that field is a pointer.
func (in *instr) embeddedMutex(sel *ast.SelectorExpr) (path []string, name string, ptr, ok bool) {
	s := in.p.TypesInfo.Selections[sel]
	if s == nil || s.Kind() != types.MethodVal || len(s.Index()) < 2 {
		return nil, "", false, false
	}
	fn, isFn := s.Obj().(*types.Func)
	if !isFn || fn.Pkg() == nil || fn.Pkg().Path() != "sync" {
		return nil, "", false, false
	}
	t := s.Recv()
	idx := s.Index()
	for _, i := range idx[:len(idx)-1] {
		if p, isPtr := t.(*types.Pointer); isPtr {
			t = p.Elem()
		}
		st, isStruct := t.Underlying().(*types.Struct)
		if !isStruct || i >= st.NumFields() {
			return nil, "", false, false
		}
		f := st.Field(i)
		path = append(path, f.Name())
		t = f.Type()
	}
	nm, isPtr, isMutex := namedIn(t, "sync", "Mutex", "RWMutex")
	if !isMutex {
		return nil, "", false, false
	}
	return path, nm, isPtr, true
}

func addr(x ast.Expr, ptr bool) ast.Expr {
	if ptr {
		return x
	}
	return &ast.UnaryExpr{Op: token.AND, X: x}
}

// pkgFunc reports whether sel denotes the package-level function path.name.
func (in *instr) pkgFunc(sel *ast.SelectorExpr) (path, name string, ok bool) {
	id, isID := sel.X.(*ast.Ident)
	if !isID {
		return "", "", false
	}
	pn, isPkg := in.p.TypesInfo.Uses[id].(*types.PkgName)
	if !isPkg {
		return "", "", false
	}
	return pn.Imported().Path(), sel.Sel.Name, true
}

var pkgFuncShims = map[string]string{
	"net.Dial":                  "NetDial",
	"net.DialTimeout":           "NetDialTimeout",
	"crypto/tls.Dial":           "TLSDial",
	"crypto/tls.DialWithDialer": "TLSDialWithDialer",
	"net/http.Get":              "HTTPGet",
	"path/filepath.Walk":        "FilepathWalk",
	"os.ReadFile":               "OSReadFile",
	"os.Stat":                   "OSStat",
	"net.Listen":                "NetListen",
	"math/rand.Intn":            "RandIntn",
	"math/rand.Seed":            "RandSeed",
}

// observeCtors are constructor calls whose result is recorded in the live simulation
// so that a harness can inspect objects that fabio keeps in closures.
var observeCtors = map[string]string{
	modPath + "/route.NewGlobCache": "globcache",
}

// exprs rewrites function literals, lock/pool calls and shimmed selectors inside an expression or simple statement.
func (in *instr) exprs(n ast.Node) ast.Node {
	return astutil.Apply(n, func(c *astutil.Cursor) bool {
		switch x := c.Node().(type) {
		case *ast.FuncLit:
			if call, ok := c.Parent().(*ast.CallExpr); ok {
				if sel, ok := call.Fun.(*ast.SelectorExpr); ok && sel.Sel.Name == "Do" {
					if _, _, isOnce := namedIn(in.typeOf(sel.X), "sync", "Once"); isOnce {
						sub := &instr{p: in.p, fn: in.fn + ".once", noYield: true}
						sub.block(x.Body)
						in.used = in.used || sub.used
						return false
					}
				}
			}
			sub := &instr{p: in.p, fn: in.fn + ".func", noYield: in.noYield, fnPos: x.Pos(), fnEnd: x.End()}
			sub.block(x.Body)
			in.used = in.used || sub.used || !in.noYield
			return false
		case *ast.CallExpr:
			if sel, ok := x.Fun.(*ast.SelectorExpr); ok {
				if path, name, isPkg := in.pkgFunc(sel); isPkg {
					if kind, watch := observeCtors[path+"."+name]; watch {
						for i, a := range x.Args {
							x.Args[i] = in.exprs(a).(ast.Expr)
						}
						c.Replace(hook("Observe", &ast.BasicLit{Kind: token.STRING, Value: strconv.Quote(kind)}, x))
						in.used = true
						return false
					}
				}
				switch sel.Sel.Name {
				case "Lock", "Unlock", "RLock", "RUnlock":
					if len(x.Args) == 0 {
						if nm, ptr, ok := namedIn(in.typeOf(sel.X), "sync", "Mutex", "RWMutex"); ok {
							recv := in.exprs(sel.X).(ast.Expr)
							c.Replace(hook(nm+sel.Sel.Name, addr(recv, ptr)))
							in.used = true
							return false
						}
						// a mutex embedded in a struct and locked through the promoted method: x.Lock() -> hook(&x.<path>.Mutex)
						if path, nm, ptr, ok := in.embeddedMutex(sel); ok {
							recv := in.exprs(sel.X).(ast.Expr)
							for _, f := range path {
								recv = &ast.SelectorExpr{X: recv, Sel: ast.NewIdent(f)}
							}
							c.Replace(hook(nm+sel.Sel.Name, addr(recv, ptr)))
							in.used = true
							return false
						}
					}
				case "Do":
					if len(x.Args) == 1 {
						if _, ptr, ok := namedIn(in.typeOf(sel.X), "sync", "Once"); ok {
							recv := in.exprs(sel.X).(ast.Expr)
							// x.Fun is replaced below, so the FuncLit case above no longer sees the Once: same treatment here
							var arg ast.Expr
							if fl, isLit := x.Args[0].(*ast.FuncLit); isLit {
								sub := &instr{p: in.p, fn: in.fn + ".once", noYield: true}
								sub.block(fl.Body)
								in.used = in.used || sub.used
								arg = fl
							} else {
								arg = in.exprs(x.Args[0]).(ast.Expr)
							}
							c.Replace(hook("OnceDo", addr(recv, ptr), arg))
							in.used = true
							return false
						}
					}
				case "Get", "Put":
					if _, ptr, ok := namedIn(in.typeOf(sel.X), "sync", "Pool"); ok {
						recv := in.exprs(sel.X).(ast.Expr)
						args := []ast.Expr{addr(recv, ptr)}
						for _, a := range x.Args {
							args = append(args, in.exprs(a).(ast.Expr))
						}
						c.Replace(hook("Pool"+sel.Sel.Name, args...))
						in.used = true
						return false
					}
				}
			}
		case *ast.UnaryExpr:
			// &http.Transport{...} -> zzsimhook.HTTPTransport(&http.Transport{...}): transports fabio builds
			// without a dialer of their own reach the simulated network
			if x.Op == token.AND {
				if cl, ok := x.X.(*ast.CompositeLit); ok {
					if _, _, isTr := namedIn(in.typeOf(cl), "net/http", "Transport"); isTr {
						for i, e := range cl.Elts {
							cl.Elts[i] = in.exprs(e).(ast.Expr)
						}
						c.Replace(hook("HTTPTransport", x))
						in.used = true
						return false
					}
				}
			}
		case *ast.SelectorExpr:
			if path, name, ok := in.pkgFunc(x); ok {
				if path == "google.golang.org/grpc" && in.p.PkgPath == modPath+"/proxy" {
					switch name {
					case "DialContext":
						c.Replace(ast.NewIdent("zzGrpcDialContext"))
						return false
					case "NewClient":
						c.Replace(ast.NewIdent("zzGrpcNewClient"))
						return false
					case "Dial":
						c.Replace(ast.NewIdent("zzGrpcDial"))
						return false
					}
				}
				if repl, ok := pkgFuncShims[path+"."+name]; ok && repl != "" {
					c.Replace(hookSel(repl))
					in.used = true
					return false
				}
			}
			if x.Sel.Name == "Dial" || x.Sel.Name == "DialContext" {
				if _, ptr, ok := namedIn(in.typeOf(x.X), "net", "Dialer"); ok {
					recv := in.exprs(x.X).(ast.Expr)
					c.Replace(hook("Dialer"+x.Sel.Name, addr(recv, ptr)))
					in.used = true
					return false
				}
			}
		}
		return true
	}, nil)
}

func (in *instr) stmt(s ast.Stmt) ast.Stmt {
	switch x := s.(type) {
	case *ast.BlockStmt:
		in.block(x)
	case *ast.IfStmt:
		if x.Init != nil {
			x.Init = in.exprs(x.Init).(ast.Stmt)
		}
		x.Cond = in.exprs(x.Cond).(ast.Expr)
		in.block(x.Body)
		if x.Else != nil {
			x.Else = in.stmt(x.Else)
		}
	case *ast.ForStmt:
		if x.Init != nil {
			x.Init = in.exprs(x.Init).(ast.Stmt)
		}
		if x.Cond != nil {
			x.Cond = in.exprs(x.Cond).(ast.Expr)
		}
		if x.Post != nil {
			x.Post = in.exprs(x.Post).(ast.Stmt)
		}
		in.block(x.Body)
	case *ast.RangeStmt:
		x.X = in.exprs(x.X).(ast.Expr)
		isMap := in.isOrderedMap(x.X) && !in.keepRange
		in.keepRange = false
		in.block(x.Body)
		if isMap && x.Tok != token.ASSIGN && !in.noYield {
			return in.mapRange(x)
		}
	case *ast.SwitchStmt:
		if x.Init != nil {
			x.Init = in.exprs(x.Init).(ast.Stmt)
		}
		if x.Tag != nil {
			x.Tag = in.exprs(x.Tag).(ast.Expr)
		}
		for _, c := range x.Body.List {
			cc := c.(*ast.CaseClause)
			for i, e := range cc.List {
				cc.List[i] = in.exprs(e).(ast.Expr)
			}
			cc.Body = in.list(cc.Body)
		}
	case *ast.TypeSwitchStmt:
		if x.Init != nil {
			x.Init = in.exprs(x.Init).(ast.Stmt)
		}
		x.Assign = in.exprs(x.Assign).(ast.Stmt)
		for _, c := range x.Body.List {
			cc := c.(*ast.CaseClause)
			cc.Body = in.list(cc.Body)
		}
	case *ast.SelectStmt:
		for _, c := range x.Body.List {
			cc := c.(*ast.CommClause)
			if cc.Comm != nil {
				cc.Comm = in.exprs(cc.Comm).(ast.Stmt)
			}
			cc.Body = in.list(cc.Body)
		}
	case *ast.LabeledStmt:
		// a labelled loop must stay the labelled statement itself (continue/break L)
		if _, isRange := x.Stmt.(*ast.RangeStmt); isRange {
			in.keepRange = true
		}
		x.Stmt = in.stmt(x.Stmt)
		in.keepRange = false
	case *ast.GoStmt:
		x.Call = in.exprs(x.Call).(*ast.CallExpr)
		if in.noYield {
			return s
		}
		return in.goStmt(x)
	case *ast.DeferStmt:
		x.Call = in.exprs(x.Call).(*ast.CallExpr)
	case *ast.AssignStmt:
		s2 := in.exprs(s).(ast.Stmt)
		if !in.noYield {
			if a, ok := s2.(*ast.AssignStmt); ok {
				if split := in.splitRMW(a); split != nil {
					return split
				}
			}
		}
		return s2
	case *ast.IncDecStmt:
		s2 := in.exprs(s).(ast.Stmt)
		if !in.noYield {
			if a, ok := s2.(*ast.IncDecStmt); ok && in.shared(a.X) && !hasCall(a.X) {
				op := token.ADD
				if a.Tok == token.DEC {
					op = token.SUB
				}
				return in.rmw(a.X, &ast.BinaryExpr{X: a.X, Op: op, Y: &ast.BasicLit{Kind: token.INT, Value: "1"}}, a.Pos())
			}
		}
		return s2
	default:
		return in.exprs(s).(ast.Stmt)
	}
	return s
}

// shared reports whether e denotes a location other goroutines may reach: a field, an element or pointee of
// something shared, a package-level variable, or a variable captured from an enclosing function.
func (in *instr) shared(e ast.Expr) bool {
	switch x := e.(type) {
	case *ast.ParenExpr:
		return in.shared(x.X)
	case *ast.SelectorExpr:
		if _, _, isPkg := in.pkgFunc(x); isPkg {
			return true // pkg.Var
		}
		return true
	case *ast.StarExpr:
		return true
	case *ast.IndexExpr:
		return in.shared(x.X)
	case *ast.Ident:
		obj, ok := in.p.TypesInfo.Uses[x].(*types.Var)
		if !ok {
			return false
		}
		if obj.Parent() == in.p.Types.Scope() {
			return true
		}
		return obj.Pos() < in.fnPos || obj.Pos() > in.fnEnd
	}
	return false
}

func hasCall(e ast.Expr) bool {
	found := false
	ast.Inspect(e, func(n ast.Node) bool {
		if _, ok := n.(*ast.CallExpr); ok {
			found = true
		}
		return !found
	})
	return found
}

// mentions reports whether expression e contains the expression target (compared by printed form).
func mentions(e ast.Expr, target string) bool {
	found := false
	ast.Inspect(e, func(n ast.Node) bool {
		if x, ok := n.(ast.Expr); ok && types.ExprString(x) == target {
			found = true
		}
		return !found
	})
	return found
}

// splitRMW: `x = f(x)` and `x op= y` on a shared location become
//
//	{ zzt := f(x); zzsimhook.Yield(site); x = zzt }
//
// so that a lost update between the read and the write of one statement is a reachable schedule.
func (in *instr) splitRMW(a *ast.AssignStmt) ast.Stmt {
	if len(a.Lhs) != 1 || len(a.Rhs) != 1 || a.Tok == token.DEFINE {
		return nil
	}
	lhs := a.Lhs[0]
	if isBlank(lhs) || !in.shared(lhs) || hasCall(lhs) {
		return nil
	}
	if tv, ok := in.p.TypesInfo.Types[a.Rhs[0]]; ok {
		if _, isTuple := tv.Type.(*types.Tuple); isTuple {
			return nil
		}
		if tv.IsNil() || tv.Value != nil {
			return nil // a constant store reads nothing
		}
	}
	var rhs ast.Expr
	switch a.Tok {
	case token.ASSIGN:
		if !mentions(a.Rhs[0], types.ExprString(lhs)) {
			return nil
		}
		rhs = a.Rhs[0]
	case token.ADD_ASSIGN, token.SUB_ASSIGN, token.MUL_ASSIGN, token.QUO_ASSIGN, token.REM_ASSIGN,
		token.AND_ASSIGN, token.OR_ASSIGN, token.XOR_ASSIGN, token.SHL_ASSIGN, token.SHR_ASSIGN, token.AND_NOT_ASSIGN:
		op := map[token.Token]token.Token{token.ADD_ASSIGN: token.ADD, token.SUB_ASSIGN: token.SUB, token.MUL_ASSIGN: token.MUL,
			token.QUO_ASSIGN: token.QUO, token.REM_ASSIGN: token.REM, token.AND_ASSIGN: token.AND, token.OR_ASSIGN: token.OR,
			token.XOR_ASSIGN: token.XOR, token.SHL_ASSIGN: token.SHL, token.SHR_ASSIGN: token.SHR, token.AND_NOT_ASSIGN: token.AND_NOT}[a.Tok]
		rhs = &ast.BinaryExpr{X: lhs, Op: op, Y: &ast.ParenExpr{X: a.Rhs[0]}}
	default:
		return nil
	}
	return in.rmw(lhs, rhs, a.Pos())
}

func (in *instr) rmw(lhs, rhs ast.Expr, pos token.Pos) ast.Stmt {
	in.used = true
	in.tmp++
	t := ast.NewIdent("zzt" + strconv.Itoa(in.tmp))
	return &ast.BlockStmt{List: []ast.Stmt{
		&ast.AssignStmt{Lhs: []ast.Expr{t}, Tok: token.DEFINE, Rhs: []ast.Expr{rhs}},
		in.yield(pos),
		&ast.AssignStmt{Lhs: []ast.Expr{lhs}, Tok: token.ASSIGN, Rhs: []ast.Expr{t}},
	}}
}

// goStmt: go f(a, b) -> { zzf, zza0, zza1 := f, a, b; zzsimhook.Go(func() { zzf(zza0, zza1) }) }
// Function value and arguments are evaluated at the go statement, as the language requires.
func (in *instr) goStmt(g *ast.GoStmt) ast.Stmt {
	in.used = true
	call := g.Call
	if lit, ok := call.Fun.(*ast.FuncLit); ok && len(call.Args) == 0 {
		return &ast.ExprStmt{X: hook("Go", lit)}
	}
	in.tmp++
	pfx := "zzg" + strconv.Itoa(in.tmp)
	var lhs, rhs []ast.Expr
	fn := call.Fun
	// builtin or conversion: leave alone
	if id, ok := fn.(*ast.Ident); ok {
		if _, isBuiltin := in.p.TypesInfo.Uses[id].(*types.Builtin); isBuiltin {
			return g
		}
	}
	if tv, ok := in.p.TypesInfo.Types[fn]; ok && tv.IsType() {
		return g
	}
	fid := ast.NewIdent(pfx + "f")
	lhs = append(lhs, fid)
	rhs = append(rhs, fn)
	var args []ast.Expr
	for i, a := range call.Args {
		tv, ok := in.p.TypesInfo.Types[a]
		if ok && (tv.Value != nil || tv.IsNil()) {
			args = append(args, a)
			continue
		}
		// a call returning multiple values as the only argument: f(g())
		if ok {
			if _, isTuple := tv.Type.(*types.Tuple); isTuple {
				return g
			}
		}
		id := ast.NewIdent(pfx + "a" + strconv.Itoa(i))
		lhs = append(lhs, id)
		rhs = append(rhs, a)
		args = append(args, id)
	}
	newCall := &ast.CallExpr{Fun: fid, Args: args}
	if call.Ellipsis.IsValid() {
		newCall.Ellipsis = 1
	}
	lit := &ast.FuncLit{Type: &ast.FuncType{Params: &ast.FieldList{}}, Body: &ast.BlockStmt{List: []ast.Stmt{&ast.ExprStmt{X: newCall}}}}
	return &ast.BlockStmt{List: []ast.Stmt{
		&ast.AssignStmt{Lhs: lhs, Tok: token.DEFINE, Rhs: rhs},
		&ast.ExprStmt{X: hook("Go", lit)},
	}}
}

// mapRange: for k, v := range m {B} -> for _, k := range zzsimhook.MapKeys(m) { v, zzok := m[k]; if !zzok {continue}; B }
func (in *instr) mapRange(x *ast.RangeStmt) ast.Stmt {
	in.used = true
	// the map expression is evaluated once
	in.tmp++
	mid := ast.NewIdent("zzm" + strconv.Itoa(in.tmp))
	key := x.Key
	if key == nil || isBlank(key) {
		key = ast.NewIdent("zzk" + strconv.Itoa(in.tmp))
	}
	okid := ast.NewIdent("zzok" + strconv.Itoa(in.tmp))
	var val ast.Expr = ast.NewIdent("_")
	if x.Value != nil && !isBlank(x.Value) {
		val = x.Value
	}
	pre := []ast.Stmt{
		&ast.AssignStmt{Lhs: []ast.Expr{val, okid}, Tok: token.DEFINE, Rhs: []ast.Expr{&ast.IndexExpr{X: mid, Index: key}}},
		&ast.IfStmt{Cond: &ast.UnaryExpr{Op: token.NOT, X: okid}, Body: &ast.BlockStmt{List: []ast.Stmt{&ast.BranchStmt{Tok: token.CONTINUE}}}},
	}
	body := &ast.BlockStmt{List: append(pre, x.Body.List...)}
	loop := &ast.RangeStmt{Key: ast.NewIdent("_"), Value: key, Tok: token.DEFINE, X: hook("MapKeys", mid), Body: body}
	return &ast.BlockStmt{List: []ast.Stmt{
		&ast.AssignStmt{Lhs: []ast.Expr{mid}, Tok: token.DEFINE, Rhs: []ast.Expr{x.X}},
		loop,
	}}
}

func isBlank(e ast.Expr) bool {
	id, ok := e.(*ast.Ident)
	return ok && id.Name == "_"
}

// fsim is the runner of the fabio deterministic-simulation checks.
//
//	fsim build                          instrument /repo and compile the harness binaries (cached by tree hash)
//	fsim check <ID> --tier quick|thorough
//	fsim replay <file>
//	fsim selftest [ID...]               determinism self-test (many seeds x GOMAXPROCS 1/4/16)
//
// Exit codes: 0 property held (known findings are printed), 1 violation
// (VIOLATION line printed), 2 build / harness / determinism trouble.
package main

import (
	"bufio"
	"bytes"
	"crypto/sha256"
	"encoding/hex"
	"encoding/json"
	"flag"
	"fmt"
	"io"
	"io/fs"
	"os"
	"os/exec"
	"path/filepath"
	"regexp"
	"runtime"
	"sort"
	"strconv"
	"strings"
	"sync"
	"time"
)

// defaultVerifDir is the directory the runner lives in (<dir>/bin/fsim), so that a snapshot of /verif works on its own files.
func defaultVerifDir() string {
	if exe, err := os.Executable(); err == nil {
		if d := filepath.Dir(filepath.Dir(exe)); d != "" {
			if _, err := os.Stat(filepath.Join(d, "sim", "props.d")); err == nil {
				return d
			}
		}
	}
	return "/verif"
}

var (
	verifDir = envOr("VERIF_DIR", defaultVerifDir())
	repoDir  = envOr("VERIF_REPO", "/repo")
	goBin    = envOr("VERIF_GO", "/opt/veriftools/go1.26.8/bin/go")
)

func envOr(k, d string) string {
	if v := os.Getenv(k); v != "" {
		return v
	}
	return d
}

type TierCfg struct {
	BudgetS   float64 `json:"budget_s"`   // wall seconds of exploration (excluding build)
	ChunkRuns int     `json:"chunk_runs"` // runs per worker process
	Recheck   int     `json:"recheck"`    // seeds re-executed at another GOMAXPROCS
	MaxRuns   int     `json:"max_runs"`   // optional cap on total runs
}

type PropCfg struct {
	ID          string            `json:"id"`
	Pkg         string            `json:"pkg"`     // package directory relative to the repository ("." for main)
	Harness     string            `json:"harness"` // harness name inside the package's worker
	Quick       TierCfg           `json:"quick"`
	Thorough    TierCfg           `json:"thorough"`
	Rule        string            `json:"rule"`
	Real        []string          `json:"components_real"`
	Stub        []string          `json:"components_stub"`
	Assumptions []string          `json:"assumptions"`
	Params      map[string]string `json:"params"`
	// Parts are additional (package, harness) pairs that serve the same property; the budget is shared.
	Parts []Part `json:"parts"`
}

type Part struct {
	Pkg     string  `json:"pkg"`
	Harness string  `json:"harness"`
	Share   float64 `json:"share"` // fraction of the exploration budget (default: equal shares)
}

// parts returns all (pkg, harness) pairs of a property, the primary one first.
func (pc *PropCfg) parts() []Part {
	out := []Part{{Pkg: pc.Pkg, Harness: pc.Harness}}
	out = append(out, pc.Parts...)
	tot := 0.0
	for i := range out {
		if out[i].Share <= 0 {
			out[i].Share = 1
		}
		tot += out[i].Share
	}
	for i := range out {
		out[i].Share /= tot
	}
	return out
}

func (pc *PropCfg) pkgs() []string {
	var l []string
	seen := map[string]bool{}
	for _, p := range pc.parts() {
		if !seen[p.Pkg] {
			seen[p.Pkg] = true
			l = append(l, p.Pkg)
		}
	}
	return l
}

func (pc *PropCfg) pkgOf(harness string) string {
	for _, p := range pc.parts() {
		if p.Harness == harness {
			return p.Pkg
		}
	}
	return pc.Pkg
}

type Violation struct {
	Class string `json:"class"`
	Sig   string `json:"sig"`
	Msg   string `json:"msg"`
	Step  int    `json:"step"`
}

type Known struct {
	Property string `json:"property"`
	Class    string `json:"class"`
	Sig      string `json:"sig"`
	What     string `json:"what"`
}

type KnownFile struct {
	Findings []Known  `json:"findings"`
	Fixed    []string `json:"fixed"`
}

type resultLine struct {
	Spec struct {
		Seed int64 `json:"seed"`
	} `json:"spec"`
	Violations []Violation    `json:"violations"`
	TraceHash  string         `json:"trace_hash"`
	Nontrivial bool           `json:"nontrivial"`
	StateHash  []string       `json:"state_hashes"`
	Steps      int            `json:"steps"`
	SimNanos   int64          `json:"sim_ns"`
	WallNanos  int64          `json:"wall_ns"`
	Faults     map[string]int `json:"faults"`
	Probes     map[string]int `json:"probes"`
	Sample     any            `json:"sample"`
	Leaked     bool           `json:"leaked"`
	Trouble    string         `json:"trouble"`
	ReplayPath string         `json:"replay_path"`
	Done       bool           `json:"done"`
	Runs       int            `json:"runs"`
	Log        []string       `json:"log"`
}

func die(code int, f string, a ...any) {
	fmt.Fprintf(os.Stderr, "fsim: "+f+"\n", a...)
	os.Exit(code)
}

func loadProps() map[string]*PropCfg {
	files, err := filepath.Glob(filepath.Join(verifDir, "sim", "props.d", "*.json"))
	if err != nil || len(files) == 0 {
		die(2, "no property configuration under sim/props.d")
	}
	m := map[string]*PropCfg{}
	for _, f := range files {
		b, err := os.ReadFile(f)
		if err != nil {
			die(2, "%v", err)
		}
		var p PropCfg
		if err := json.Unmarshal(b, &p); err != nil {
			die(2, "%s: %v", f, err)
		}
		m[p.ID] = &p
	}
	return m
}

func loadKnown() KnownFile {
	var k KnownFile
	b, err := os.ReadFile(filepath.Join(verifDir, "known_findings.json"))
	if err == nil {
		if err := json.Unmarshal(b, &k); err != nil {
			die(2, "known_findings.json: %v", err)
		}
	}
	return k
}

func goEnv() []string {
	env := os.Environ()
	env = append(env, "GOFLAGS=-mod=mod", "GOPROXY=off", "GOSUMDB=off", "GOTOOLCHAIN=local",
		"PATH="+filepath.Dir(goBin)+":"+os.Getenv("PATH"))
	return env
}

// ---------------------------------------------------------------- build

func hashTree() string {
	h := sha256.New()
	add := func(root string, pred func(string) bool) {
		var files []string
		filepath.WalkDir(root, func(p string, d fs.DirEntry, err error) error {
			if err != nil {
				return nil
			}
			if d.IsDir() {
				n := d.Name()
				if n == ".git" || n == "node_modules" || n == ".work" || n == "bin" || n == "evidence" || n == "replays" || n == "seeded" {
					return filepath.SkipDir
				}
				return nil
			}
			if pred(p) {
				files = append(files, p)
			}
			return nil
		})
		sort.Strings(files)
		for _, f := range files {
			b, err := os.ReadFile(f)
			if err != nil {
				continue
			}
			fmt.Fprintf(h, "%s %d\n", f, len(b))
			h.Write(b)
		}
	}
	add(repoDir, func(p string) bool {
		return strings.HasSuffix(p, ".go") || strings.HasSuffix(p, "go.mod") || strings.HasSuffix(p, "go.sum")
	})
	add(filepath.Join(verifDir, "sim"), func(p string) bool { return strings.HasSuffix(p, ".go") })
	add(filepath.Join(verifDir, "tools"), func(p string) bool { return strings.HasSuffix(p, ".go") })
	return hex.EncodeToString(h.Sum(nil))[:24]
}

func pkgBinName(pkg string) string {
	if pkg == "." {
		return "main.test"
	}
	return strings.ReplaceAll(strings.TrimPrefix(pkg, "./"), "/", "_") + ".test"
}

var buildMu sync.Mutex

// build returns the cache directory holding the harness binaries for the current tree.
func build(pkgs []string, verbose bool) string {
	buildMu.Lock()
	defer buildMu.Unlock()
	hash := hashTree()
	cacheRoot := filepath.Join(verifDir, ".work", "cache")
	dir := filepath.Join(cacheRoot, hash)
	os.MkdirAll(dir, 0o755)
	// mark the cache directory as in use by this process (pruning skips it), then lock it for building
	os.WriteFile(filepath.Join(dir, fmt.Sprintf(".inuse-%d", os.Getpid())), nil, 0o644)
	unlock := lockDir(dir)
	defer unlock()

	if _, err := os.Stat(filepath.Join(dir, "overlay.json")); err != nil {
		// drop older caches to bound disk use (keep the 3 most recent)
		pruneCaches(cacheRoot, dir, 10)
		t0 := time.Now()
		cmd := exec.Command(filepath.Join(verifDir, "bin", "fsim-instrument"),
			"-repo", repoDir, "-out", dir, "-lib", filepath.Join(verifDir, "sim", "lib"),
			"-inject", filepath.Join(verifDir, "sim", "inject"))
		cmd.Env = goEnv()
		cmd.Dir = repoDir
		out, err := cmd.CombinedOutput()
		if err != nil {
			os.Remove(filepath.Join(dir, "overlay.json"))
			fmt.Fprintf(os.Stderr, "%s", out)
			die(2, "instrumentation failed: %v", err)
		}
		if verbose {
			fmt.Fprintf(os.Stderr, "fsim: instrumented in %.1fs: %s", time.Since(t0).Seconds(), out)
		}
		// modfile = repo go.mod + extra requirements
		mod, err := os.ReadFile(filepath.Join(repoDir, "go.mod"))
		if err != nil {
			die(2, "%v", err)
		}
		mod = append(mod, []byte("\nrequire github.com/anishathalye/porcupine v1.3.0\n")...)
		os.WriteFile(filepath.Join(dir, "go.mod"), mod, 0o644)
		sum, _ := os.ReadFile(filepath.Join(repoDir, "go.sum"))
		extra, _ := os.ReadFile(filepath.Join(verifDir, "sim", "extra.go.sum"))
		os.WriteFile(filepath.Join(dir, "go.sum"), append(sum, extra...), 0o644)
	}
	for _, pkg := range pkgs {
		bin := filepath.Join(dir, pkgBinName(pkg))
		if _, err := os.Stat(bin); err == nil {
			continue
		}
		t0 := time.Now()
		cmd := exec.Command(goBin, "test", "-c", "-tags", "verif", "-vet=off",
			"-overlay", filepath.Join(dir, "overlay.json"), "-modfile", filepath.Join(dir, "go.mod"),
			"-o", bin+".tmp", pkg)
		cmd.Env = goEnv()
		cmd.Dir = repoDir
		out, err := cmd.CombinedOutput()
		if err != nil {
			fmt.Fprintf(os.Stderr, "%s", out)
			die(2, "building harness for %s failed: %v", pkg, err)
		}
		os.Rename(bin+".tmp", bin)
		if verbose {
			fmt.Fprintf(os.Stderr, "fsim: built %s in %.1fs\n", pkgBinName(pkg), time.Since(t0).Seconds())
		}
	}
	return dir
}

func lockDir(dir string) func() {
	lock := filepath.Join(dir, ".lock")
	for i := 0; ; i++ {
		f, err := os.OpenFile(lock, os.O_CREATE|os.O_EXCL|os.O_WRONLY, 0o644)
		if err == nil {
			fmt.Fprintf(f, "%d\n", os.Getpid())
			f.Close()
			return func() { os.Remove(lock) }
		}
		// stale lock?
		if b, err := os.ReadFile(lock); err == nil {
			pid, _ := strconv.Atoi(strings.TrimSpace(string(b)))
			if pid > 0 {
				if err := exec.Command("kill", "-0", strconv.Itoa(pid)).Run(); err != nil {
					os.Remove(lock)
					continue
				}
			}
		}
		if i > 1800 {
			die(2, "timed out waiting for build lock %s", lock)
		}
		time.Sleep(500 * time.Millisecond)
	}
}

// inUse reports whether a live fsim process has marked the cache directory.
func inUse(dir string) bool {
	marks, _ := filepath.Glob(filepath.Join(dir, ".inuse-*"))
	live := false
	for _, m := range marks {
		pid, _ := strconv.Atoi(strings.TrimPrefix(filepath.Base(m), ".inuse-"))
		if pid > 0 && exec.Command("kill", "-0", strconv.Itoa(pid)).Run() == nil {
			live = true
		} else {
			os.Remove(m)
		}
	}
	return live
}

func pruneCaches(root, keep string, n int) {
	ents, err := os.ReadDir(root)
	if err != nil {
		return
	}
	type e struct {
		p string
		t time.Time
	}
	var l []e
	for _, d := range ents {
		p := filepath.Join(root, d.Name())
		if p == keep {
			continue
		}
		if _, err := os.Stat(filepath.Join(p, ".lock")); err == nil {
			continue
		}
		if inUse(p) {
			continue
		}
		fi, err := d.Info()
		if err != nil {
			continue
		}
		l = append(l, e{p, fi.ModTime()})
	}
	sort.Slice(l, func(i, j int) bool { return l[i].t.After(l[j].t) })
	for i := n - 1; i >= 0 && i < len(l); i++ {
		os.RemoveAll(l[i].p)
	}
}

// ---------------------------------------------------------------- running workers

type job struct {
	Harness   string            `json:"harness"`
	Prop      string            `json:"prop"`
	Tier      string            `json:"tier"`
	SeedStart int64             `json:"seed_start"`
	SeedCount int64             `json:"seed_count"`
	BudgetS   float64           `json:"budget_s"`
	MaxRuns   int               `json:"max_runs"`
	Out       string            `json:"out"`
	Known     []Known           `json:"known"`
	ReplayDir string            `json:"replay_dir"`
	Replay    string            `json:"replay"`
	Params    map[string]string `json:"params"`
	Verbose   bool              `json:"verbose"`
	Samples   int               `json:"samples"`
	Seeds     []int64           `json:"seeds"`
}

type workerOut struct {
	lines   []resultLine
	done    bool
	stderr  string
	exitErr error
}

func runWorker(bin string, j job, scratch string, gomaxprocs int, timeout time.Duration) workerOut {
	id := fmt.Sprintf("%d-%d", os.Getpid(), time.Now().UnixNano())
	jobPath := filepath.Join(scratch, "job-"+id+".json")
	j.Out = filepath.Join(scratch, "out-"+id+".jsonl")
	b, _ := json.Marshal(j)
	os.WriteFile(jobPath, b, 0o644)
	defer os.Remove(jobPath)
	defer os.Remove(j.Out)
	cmd := exec.Command(bin, "-test.run", "^TestZZVerifWorker$", "-test.timeout", "0", "-test.count", "1")
	cmd.Env = append(os.Environ(), "VERIF_JOB="+jobPath)
	if gomaxprocs > 0 {
		cmd.Env = append(cmd.Env, "GOMAXPROCS="+strconv.Itoa(gomaxprocs))
	}
	cmd.Dir = scratch
	var stderr bytes.Buffer
	cmd.Stdout = &stderr
	cmd.Stderr = &stderr
	var wo workerOut
	if err := cmd.Start(); err != nil {
		wo.exitErr = err
		return wo
	}
	donec := make(chan error, 1)
	go func() { donec <- cmd.Wait() }()
	select {
	case err := <-donec:
		wo.exitErr = err
	case <-time.After(timeout):
		cmd.Process.Kill()
		<-donec
		wo.exitErr = fmt.Errorf("watchdog: worker exceeded %s", timeout)
	}
	wo.stderr = stderr.String()
	f, err := os.Open(j.Out)
	if err == nil {
		defer f.Close()
		sc := bufio.NewScanner(f)
		sc.Buffer(make([]byte, 1<<20), 1<<28)
		for sc.Scan() {
			var l resultLine
			if err := json.Unmarshal(sc.Bytes(), &l); err != nil {
				continue
			}
			if l.Done {
				wo.done = true
				continue
			}
			wo.lines = append(wo.lines, l)
		}
	}
	return wo
}

var frameRe = regexp.MustCompile(`(?m)^github\.com/fabiolb/fabio[^\s(]*`)

// classifyCrash extracts the top fabio frame from a crashed worker's stderr.
func classifyCrash(stderr string) (sig string, isFabio bool) {
	i := strings.Index(stderr, "panic:")
	j := strings.Index(stderr, "fatal error:")
	if i < 0 || (j >= 0 && j < i) {
		i = j
	}
	if i < 0 {
		return "", false
	}
	rest := stderr[i:]
	lines := strings.Split(rest, "\n")
	for k := 0; k+1 < len(lines); k++ {
		fn := strings.TrimSpace(lines[k])
		if !strings.HasPrefix(fn, "github.com/fabiolb/fabio") {
			continue
		}
		if strings.Contains(fn, "/internal/zzverif/") || strings.Contains(lines[k+1], "zz_verif_") {
			return "", false // the simulator itself is on top: harness trouble
		}
		if p := strings.LastIndex(fn, "("); p > 0 {
			fn = fn[:p]
		}
		return strings.TrimPrefix(strings.TrimPrefix(fn, "github.com/fabiolb/fabio"), "/"), true
	}
	return "", false
}

// ---------------------------------------------------------------- check

type agg struct {
	runs             int
	nontrivial       int
	distinct         map[string]bool
	schedules        map[string]bool
	states           map[string]bool
	steps            int64
	simNs            int64
	faults           map[string]int
	probes           map[string]int
	leaked           int
	troubles         []string
	historyDependent int
	samples          []any
	hashes           map[int64]string
	violations       map[string]*foundViolation // key class|sig
	knownSeen        map[string]int
	seedsDone        []int64
	workerProcs      int
}

type foundViolation struct {
	alts   []int64 // further seeds that showed the same class and signature
	v      Violation
	seed   int64
	replay string
	count  int
}

func newAgg() *agg {
	return &agg{distinct: map[string]bool{}, schedules: map[string]bool{}, states: map[string]bool{},
		faults: map[string]int{}, probes: map[string]int{}, hashes: map[int64]string{},
		violations: map[string]*foundViolation{}, knownSeen: map[string]int{}}
}

func matchKnown(k Known, prop string, v Violation) bool {
	if k.Property != prop || k.Class != v.Class {
		return false
	}
	re, err := regexp.Compile("^(?:" + k.Sig + ")$")
	if err != nil {
		return false
	}
	return re.MatchString(v.Sig)
}

func (a *agg) add(prop string, known []Known, l resultLine, maxSamples int) {
	a.runs++
	a.steps += int64(l.Steps)
	a.simNs += l.SimNanos
	a.schedules[l.TraceHash] = true
	if l.Nontrivial {
		a.nontrivial++
		a.distinct[l.TraceHash] = true
	}
	for _, s := range l.StateHash {
		a.states[s] = true
	}
	for k, v := range l.Faults {
		a.faults[k] += v
	}
	for k, v := range l.Probes {
		a.probes[k] += v
	}
	if l.Leaked {
		a.leaked++
	}
	if l.Trouble != "" && len(a.troubles) < 20 {
		a.troubles = append(a.troubles, fmt.Sprintf("seed %d: %s", l.Spec.Seed, l.Trouble))
	}
	if l.Sample != nil && len(a.samples) < maxSamples {
		a.samples = append(a.samples, map[string]any{"seed": l.Spec.Seed, "steps": l.Steps, "scenario": l.Sample})
	}
	a.hashes[l.Spec.Seed] = l.TraceHash
	a.seedsDone = append(a.seedsDone, l.Spec.Seed)
	for _, v := range l.Violations {
		isKnown := false
		for _, k := range known {
			if matchKnown(k, prop, v) {
				isKnown = true
				a.knownSeen[k.What]++
			}
		}
		if isKnown {
			continue
		}
		key := v.Class + "|" + v.Sig
		fv := a.violations[key]
		if fv == nil {
			fv = &foundViolation{v: v, seed: l.Spec.Seed}
			a.violations[key] = fv
		}
		fv.count++
		if len(fv.alts) < 4 && l.Spec.Seed != fv.seed {
			fv.alts = append(fv.alts, l.Spec.Seed)
		}
		if fv.replay == "" && l.ReplayPath != "" {
			fv.replay = l.ReplayPath
			fv.seed = l.Spec.Seed
		}
	}
}

func baseSeed() int64 {
	if s := os.Getenv("VERIF_SEED"); s != "" {
		if v, err := strconv.ParseInt(s, 10, 64); err == nil {
			return v
		}
	}
	return 1
}

func check(id, tier string, verbose bool) int {
	props := loadProps()
	pc := props[id]
	if pc == nil {
		die(2, "unknown property %s", id)
	}
	t0 := time.Now()
	known := loadKnown()
	var kn []Known
	for _, k := range known.Findings {
		if k.Property == id {
			kn = append(kn, k)
		}
	}
	dir := build(pc.pkgs(), verbose)
	parts := pc.parts()
	binOf := func(harness string) string { return filepath.Join(dir, pkgBinName(pc.pkgOf(harness))) }
	// seeds of part i start at seed*1e6 + i*250000
	partOfSeed := func(sd int64) Part {
		i := int((sd % 1_000_000) / 250_000)
		if i < 0 || i >= len(parts) {
			i = 0
		}
		return parts[i]
	}
	buildS := time.Since(t0).Seconds()

	tc := pc.Quick
	if tier == "thorough" {
		tc = pc.Thorough
	}
	if v := os.Getenv("VERIF_BUDGET_S"); v != "" {
		if f, err := strconv.ParseFloat(v, 64); err == nil {
			tc.BudgetS = f
		}
	}
	if tc.ChunkRuns == 0 {
		tc.ChunkRuns = 200
	}
	scratch, err := os.MkdirTemp(filepath.Join(verifDir, ".work"), "run-")
	if err != nil {
		die(2, "%v", err)
	}
	defer os.RemoveAll(scratch)
	replayDir := filepath.Join(verifDir, "replays")

	seed := baseSeed()
	nworkers := runtime.NumCPU()
	if v := os.Getenv("VERIF_WORKERS"); v != "" {
		if n, err := strconv.Atoi(v); err == nil && n > 0 {
			nworkers = n
		}
	}
	a := newAgg()
	var mu sync.Mutex
	var crashes []foundViolation
	var troubles []string
	stop := false
	for pi, part := range parts {
		part := part
		bin := binOf(part.Harness)
		base := seed*1_000_000 + int64(pi)*250_000
		next := int64(0)
		deadline := time.Now().Add(time.Duration(tc.BudgetS * part.Share * float64(time.Second)))
		var wg sync.WaitGroup
		for w := 0; w < nworkers; w++ {
			wg.Add(1)
			go func() {
				defer wg.Done()
				for {
					mu.Lock()
					if stop || time.Now().After(deadline) || (tc.MaxRuns > 0 && int(next) >= tc.MaxRuns) {
						mu.Unlock()
						return
					}
					start := base + next
					next += int64(tc.ChunkRuns)
					a.workerProcs++
					mu.Unlock()
					remaining := time.Until(deadline).Seconds()
					j := job{Harness: part.Harness, Prop: id, Tier: tier, SeedStart: start, SeedCount: int64(tc.ChunkRuns),
						BudgetS: remaining, Known: kn, ReplayDir: replayDir, Params: pc.Params, Samples: 1}
					wo := runWorker(bin, j, scratch, 0, time.Duration(remaining+180)*time.Second)
					mu.Lock()
					for _, l := range wo.lines {
						a.add(id, kn, l, 3)
					}
					if !wo.done && strings.Contains(wo.stderr, "SHRINK-WATCHDOG") {
						// an execution hung in real time while a reported violation was being shrunk: the violation and
						// its un-shrunk replay file were written before; nothing else is lost
					} else if !wo.done {
						// the worker died: the run after the last reported one is the culprit
						culprit := start + int64(len(wo.lines))
						sig, isFabio := classifyCrash(wo.stderr)
						if isFabio {
							crashes = append(crashes, foundViolation{v: Violation{Class: "crash", Sig: sig, Msg: tail(wo.stderr, 4000)}, seed: culprit})
						} else {
							troubles = append(troubles, fmt.Sprintf("worker died at seed %d: %v\n%s", culprit, wo.exitErr, tail(wo.stderr, 3000)))
						}
						if len(crashes)+len(troubles) > 3 {
							stop = true
						}
					}
					if len(a.violations) > 0 {
						// stop early once an unknown violation has a replay file
						for _, fv := range a.violations {
							if fv.replay != "" {
								stop = true
							}
						}
					}
					mu.Unlock()
				}
			}()
		}
		wg.Wait()
	}

	// process crashes -> replay-by-seed files
	for _, c := range crashes {
		isKnown := false
		for _, k := range kn {
			if matchKnown(k, id, c.v) {
				isKnown = true
				a.knownSeen[k.What]++
			}
		}
		if isKnown {
			continue
		}
		key := c.v.Class + "|" + c.v.Sig
		if a.violations[key] == nil {
			hn := partOfSeed(c.seed).Harness
			p := filepath.Join(replayDir, fmt.Sprintf("%s-%s-%d.json", id, hn, c.seed))
			rf := map[string]any{"property": id, "spec": map[string]any{"prop": id, "harness": hn, "tier": tier, "seed": c.seed, "params": pc.Params},
				"expect": c.v, "shrunk": false, "note": "the process crashed; replay by seed"}
			b, _ := json.MarshalIndent(rf, "", " ")
			os.MkdirAll(replayDir, 0o755)
			os.WriteFile(p, b, 0o644)
			cc := c
			cc.replay = p
			cc.count = 1
			a.violations[key] = &cc
		}
	}

	// determinism recheck
	mismatches, rechecked, historyDependent := 0, 0, 0
	type differing struct {
		seed    int64
		harness string
		hash    string
		gmp     int
	}
	var differ []differing
	if len(troubles) == 0 && tc.Recheck > 0 && len(a.seedsDone) > 0 {
		sort.Slice(a.seedsDone, func(i, j int) bool { return a.seedsDone[i] < a.seedsDone[j] })
		var pick []int64
		stride := len(a.seedsDone) / tc.Recheck
		if stride == 0 {
			stride = 1
		}
		for i := 0; i < len(a.seedsDone) && len(pick) < tc.Recheck; i += stride {
			pick = append(pick, a.seedsDone[i])
		}
		var rmu sync.Mutex
		var rwg sync.WaitGroup
		type grp struct {
			harness string
			slot    int
		}
		groups := map[grp][]int64{}
		for i, sd := range pick {
			g := grp{partOfSeed(sd).Harness, i % 4}
			groups[g] = append(groups[g], sd)
		}
		for g, seeds := range groups {
			g, seeds := g, seeds
			rwg.Add(1)
			gmp := []int{1, 4, 2, 1}[g.slot]
			go func() {
				defer rwg.Done()
				j := job{Harness: g.harness, Prop: id, Tier: tier, Seeds: seeds, Known: kn, Params: pc.Params}
				wo := runWorker(binOf(g.harness), j, scratch, gmp, 10*time.Minute)
				rmu.Lock()
				defer rmu.Unlock()
				for _, l := range wo.lines {
					rechecked++
					if a.hashes[l.Spec.Seed] != l.TraceHash {
						differ = append(differ, differing{l.Spec.Seed, g.harness, l.TraceHash, gmp})
					}
				}
			}()
		}
		rwg.Wait()
		// A trace that differs from the first execution has one of two causes. Either the execution is not a
		// function of the seed (a source of nondeterminism escaped the simulator): trouble. Or fabio itself keeps
		// process-wide state (a package-level cache, free list, counter) that the runs executed earlier in the same
		// worker process left behind, so the run continued a longer history of one process: legitimate behaviour,
		// and harmless to the verdict because every violation is confirmed by replay in a fresh process. The two are
		// told apart by executing the seed alone in four fresh processes at GOMAXPROCS 1, 4, 2 and 16: if those agree with
		// each other the difference is history, otherwise it is nondeterminism.
		for _, df := range differ {
			var h []string
			same := true
			for _, gmp := range []int{1, 4, 2, 16} {
				j := job{Harness: df.harness, Prop: id, Tier: tier, Seeds: []int64{df.seed}, Known: kn, Params: pc.Params}
				wo := runWorker(binOf(df.harness), j, scratch, gmp, 10*time.Minute)
				x := ""
				if len(wo.lines) == 1 {
					x = wo.lines[0].TraceHash
				}
				h = append(h, x)
				same = same && x != "" && x == h[0]
			}
			if same {
				historyDependent++
				continue
			}
			mismatches++
			troubles = append(troubles, fmt.Sprintf("determinism: seed %d trace %s at GOMAXPROCS=%d, %s before; alone in fresh processes %q", df.seed, df.hash, df.gmp, a.hashes[df.seed], h))
		}
	}

	// confirm violations by replaying in a fresh process
	type confirmed struct {
		fv   *foundViolation
		path string
	}
	var conf []confirmed
	var keys []string
	for k := range a.violations {
		keys = append(keys, k)
	}
	sort.Strings(keys)
	for _, k := range keys {
		fv := a.violations[k]
		if fv.replay == "" {
			// no replay file was produced (limit per worker): replay by seed
			hn := partOfSeed(fv.seed).Harness
			p := filepath.Join(replayDir, fmt.Sprintf("%s-%s-%d.json", id, hn, fv.seed))
			rf := map[string]any{"property": id, "spec": map[string]any{"prop": id, "harness": hn, "tier": tier, "seed": fv.seed, "params": pc.Params},
				"expect": fv.v, "shrunk": false}
			b, _ := json.MarshalIndent(rf, "", " ")
			os.MkdirAll(replayDir, 0o755)
			os.WriteFile(p, b, 0o644)
			fv.replay = p
		}
		ok, why := replayOnce(dir, pc, fv.replay, scratch)
		// a run may have been influenced by state an earlier run left in the worker process (only possible when
		// fabio itself keeps process-wide state): try the other seeds that showed the same violation by themselves
		for _, alt := range fv.alts {
			if ok {
				break
			}
			if alt == fv.seed {
				continue
			}
			hn := partOfSeed(alt).Harness
			p := filepath.Join(replayDir, fmt.Sprintf("%s-%s-%d.json", id, hn, alt))
			rf := map[string]any{"property": id, "spec": map[string]any{"prop": id, "harness": hn, "tier": tier, "seed": alt, "params": pc.Params},
				"expect": fv.v, "shrunk": false}
			b, _ := json.MarshalIndent(rf, "", " ")
			os.WriteFile(p, b, 0o644)
			if ok2, _ := replayOnce(dir, pc, p, scratch); ok2 {
				ok = true
				fv.replay, fv.seed = p, alt
			} else {
				os.Remove(p)
			}
		}
		if ok {
			conf = append(conf, confirmed{fv, fv.replay})
		} else {
			troubles = append(troubles, fmt.Sprintf("violation %s/%s (seed %d) did not reproduce on replay: %s", fv.v.Class, fv.v.Sig, fv.seed, why))
		}
		if len(conf) >= 5 {
			break
		}
	}

	wall := time.Since(t0).Seconds()
	a.historyDependent = historyDependent
	writeEvidence(pc, tier, seed, a, wall, buildS, len(conf), rechecked, mismatches, troubles)

	var knownWhat []string
	for w := range a.knownSeen {
		knownWhat = append(knownWhat, w)
	}
	sort.Strings(knownWhat)
	for _, w := range knownWhat {
		fmt.Printf("KNOWN-FINDING: property=%s %s\n", id, w)
	}
	fmt.Printf("fsim: %s %s: runs=%d nontrivial=%d distinct=%d steps=%d sim=%.0fs wall=%.1fs (build %.1fs) leaked=%d recheck=%d/%d\n",
		id, tier, a.runs, a.nontrivial, len(a.distinct), a.steps, float64(a.simNs)/1e9, wall, buildS, a.leaked, rechecked-mismatches, rechecked)
	if historyDependent > 0 {
		fmt.Printf("fsim: note: %d rechecked runs depend on state that earlier runs left in the worker process (fabio keeps process-wide state); alone in fresh processes they are reproducible\n", historyDependent)
	}
	for _, p := range sortedKeys(a.probes) {
		if a.probes[p] == 0 {
			fmt.Printf("fsim: warning: probe %s stayed at 0\n", p)
		}
	}
	if len(conf) > 0 {
		for _, c := range conf {
			fmt.Printf("fsim: %s/%s: %s\n", c.fv.v.Class, c.fv.v.Sig, firstLine(c.fv.v.Msg))
			fmt.Printf("VIOLATION property=%s replay=%s\n", id, c.path)
		}
		return 1
	}
	if len(troubles) > 0 || len(a.troubles) > 0 {
		for _, t := range troubles {
			fmt.Fprintf(os.Stderr, "fsim: trouble: %s\n", t)
		}
		for _, t := range a.troubles {
			fmt.Fprintf(os.Stderr, "fsim: trouble: %s\n", t)
		}
		return 2
	}
	if a.runs == 0 {
		fmt.Fprintf(os.Stderr, "fsim: no runs completed\n")
		return 2
	}
	return 0
}

func firstLine(s string) string {
	if i := strings.IndexByte(s, '\n'); i >= 0 {
		s = s[:i]
	}
	if len(s) > 300 {
		s = s[:300]
	}
	return s
}

func tail(s string, n int) string {
	if len(s) > n {
		return s[len(s)-n:]
	}
	return s
}

func sortedKeys(m map[string]int) []string {
	var k []string
	for x := range m {
		k = append(k, x)
	}
	sort.Strings(k)
	return k
}

// replayOnce executes a replay file in a fresh process and reports whether the expected violation recurred.
func replayOnce(dir string, pc *PropCfg, path, scratch string) (bool, string) {
	b, err := os.ReadFile(path)
	if err != nil {
		return false, err.Error()
	}
	var rf struct {
		Property string `json:"property"`
		Spec     struct {
			Seed    int64    `json:"seed"`
			Replay  bool     `json:"replay"`
			Tier    string   `json:"tier"`
			Harness string   `json:"harness"`
			Gen     []uint32 `json:"gen"`
		} `json:"spec"`
		Expect Violation `json:"expect"`
	}
	if err := json.Unmarshal(b, &rf); err != nil {
		return false, err.Error()
	}
	harness := rf.Spec.Harness
	if harness == "" {
		harness = pc.Harness
	}
	bin := filepath.Join(dir, pkgBinName(pc.pkgOf(harness)))
	j := job{Harness: harness, Prop: pc.ID, Tier: rf.Spec.Tier, Replay: path, Params: pc.Params}
	if !rf.Spec.Replay {
		// replay by seed
		j.Replay = ""
		j.Seeds = []int64{rf.Spec.Seed}
		j.Verbose = true
	}
	wo := runWorker(bin, j, scratch, 0, 10*time.Minute)
	if rf.Expect.Class == "crash" {
		if !wo.done {
			sig, isFabio := classifyCrash(wo.stderr)
			if isFabio && sig == rf.Expect.Sig {
				return true, ""
			}
			return false, "crashed differently: " + sig
		}
		return false, "did not crash"
	}
	if os.Getenv("VERIF_TRACE") != "" {
		// the event trace of the replayed execution (fsim replay <file> with VERIF_TRACE=1)
		for _, l := range wo.lines {
			for _, t := range l.Log {
				fmt.Println("  " + t)
			}
			for _, v := range l.Violations {
				fmt.Printf("  => %s/%s: %s\n", v.Class, v.Sig, v.Msg)
			}
		}
	}
	for _, l := range wo.lines {
		for _, v := range l.Violations {
			if v.Class == rf.Expect.Class && v.Sig == rf.Expect.Sig {
				return true, ""
			}
		}
	}
	if !wo.done {
		return false, "worker died: " + tail(wo.stderr, 1000)
	}
	return false, "no matching violation"
}

func writeEvidence(pc *PropCfg, tier string, seed int64, a *agg, wall, buildS float64, violations, rechecked, mismatches int, troubles []string) {
	explore := wall - buildS
	if explore <= 0 {
		explore = wall
	}
	samples := a.samples
	if len(samples) == 0 {
		samples = []any{"no run completed"}
	}
	cov := map[string]any{
		"evaluations":         a.runs,
		"distinct_nontrivial": len(a.distinct),
		"rule":                pc.Rule,
		"samples":             samples,
		"nontrivial_runs":     a.nontrivial,
		"distinct_schedules":  len(a.schedules),
		"distinct_states":     len(a.states),
		"steps":               a.steps,
		"sim_time_s":          float64(a.simNs) / 1e9,
		"runs_per_hour":       float64(a.runs) / explore * 3600,
		"faults_fired":        a.faults,
		"probes":              a.probes,
		"leaked_bubbles":      a.leaked,
		"worker_processes":    a.workerProcs,
		"components_real":     pc.Real,
		"components_stub":     pc.Stub,
		"determinism_recheck": map[string]int{"sampled": rechecked, "mismatches": mismatches, "history_dependent": a.historyDependent},
		"known_findings_seen": a.knownSeen,
		"build_s":             buildS,
		"troubles":            troubles,
		"seed_range":          fmt.Sprintf("%d..%d", seed*1_000_000, seed*1_000_000+int64(a.runs)),
	}
	ev := map[string]any{
		"property_id": pc.ID,
		"tier":        tier,
		"seed":        seed,
		"level":       "exploration",
		"coverage":    cov,
		"assumptions": append([]string{"standard library of go1.26.8 (testing/synctest fake clock and quiescence)", "statement-granularity interleaving of instrumented fabio code; library goroutines run to quiescence between steps"}, pc.Assumptions...),
		"wall_s":      wall,
		"violations":  violations,
	}
	b, _ := json.MarshalIndent(ev, "", " ")
	os.MkdirAll(filepath.Join(verifDir, "evidence"), 0o755)
	os.WriteFile(filepath.Join(verifDir, "evidence", pc.ID+".json"), b, 0o644)
}

// ---------------------------------------------------------------- commands

func cmdReplay(path string) int {
	b, err := os.ReadFile(path)
	if err != nil {
		die(2, "%v", err)
	}
	var rf struct {
		Property string `json:"property"`
	}
	if err := json.Unmarshal(b, &rf); err != nil {
		die(2, "%v", err)
	}
	props := loadProps()
	pc := props[rf.Property]
	if pc == nil {
		die(2, "replay file names unknown property %q", rf.Property)
	}
	dir := build(pc.pkgs(), false)
	scratch, _ := os.MkdirTemp(filepath.Join(verifDir, ".work"), "replay-")
	defer os.RemoveAll(scratch)
	abs, _ := filepath.Abs(path)
	ok, why := replayOnce(dir, pc, abs, scratch)
	if ok {
		fmt.Printf("VIOLATION property=%s replay=%s\n", rf.Property, abs)
		return 1
	}
	fmt.Printf("fsim: replay did not reproduce the violation (%s)\n", why)
	return 0
}

func cmdSelftest(ids []string) int {
	props := loadProps()
	if len(ids) == 0 {
		for id := range props {
			ids = append(ids, id)
		}
		sort.Strings(ids)
	}
	rc := 0
	for _, id := range ids {
		pc := props[id]
		if pc == nil {
			die(2, "unknown property %s", id)
		}
		dir := build(pc.pkgs(), false)
		for _, part := range pc.parts() {
			part := part
			bin := filepath.Join(dir, pkgBinName(part.Pkg))
			scratch, _ := os.MkdirTemp(filepath.Join(verifDir, ".work"), "self-")
			var seeds []int64
			for i := int64(0); i < 32; i++ {
				seeds = append(seeds, 7_000_000+i)
			}
			ref := map[int64]string{}
			bad := 0
			execs := 0
			for round, gmp := range []int{1, 4, 16, 1, 16} {
				var mu sync.Mutex
				var wg sync.WaitGroup
				for p := 0; p < 4; p++ {
					var seedPart []int64
					for i := p; i < len(seeds); i += 4 {
						seedPart = append(seedPart, seeds[i])
					}
					wg.Add(1)
					go func() {
						defer wg.Done()
						wo := runWorker(bin, job{Harness: part.Harness, Prop: id, Tier: "quick", Seeds: seedPart, Params: pc.Params}, scratch, gmp, 10*time.Minute)
						mu.Lock()
						defer mu.Unlock()
						for _, l := range wo.lines {
							execs++
							if round == 0 {
								ref[l.Spec.Seed] = l.TraceHash
							} else if ref[l.Spec.Seed] != l.TraceHash {
								bad++
								fmt.Printf("selftest %s: seed %d differs at GOMAXPROCS=%d (%s vs %s)\n", id, l.Spec.Seed, gmp, l.TraceHash, ref[l.Spec.Seed])
							}
						}
						if !wo.done {
							bad++
							fmt.Printf("selftest %s: worker died: %s\n", id, tail(wo.stderr, 2000))
						}
					}()
				}
				wg.Wait()
			}
			os.RemoveAll(scratch)
			fmt.Printf("selftest %s/%s: %d executions of %d seeds, %d mismatches\n", id, part.Harness, execs, len(seeds), bad)
			if bad > 0 {
				rc = 2
			}
		}
	}
	return rc
}

func main() {
	if len(os.Args) < 2 {
		die(2, "usage: fsim build|check|replay|selftest ...")
	}
	switch os.Args[1] {
	case "build":
		props := loadProps()
		seen := map[string]bool{}
		var pkgs []string
		for _, p := range props {
			for _, pk := range p.pkgs() {
				if !seen[pk] {
					seen[pk] = true
					pkgs = append(pkgs, pk)
				}
			}
		}
		sort.Strings(pkgs)
		dir := build(pkgs, true)
		fmt.Println(dir)
	case "check":
		fs := flag.NewFlagSet("check", flag.ExitOnError)
		tier := fs.String("tier", envOr("VERIF_TIER", "quick"), "quick|thorough")
		verbose := fs.Bool("v", false, "verbose")
		if len(os.Args) < 3 {
			die(2, "usage: fsim check <ID> [--tier quick|thorough]")
		}
		id := os.Args[2]
		fs.Parse(os.Args[3:])
		if *tier != "quick" && *tier != "thorough" {
			*tier = "quick"
		}
		os.Exit(check(id, *tier, *verbose))
	case "replay":
		if len(os.Args) < 3 {
			die(2, "usage: fsim replay <file>")
		}
		os.Exit(cmdReplay(os.Args[2]))
	case "selftest":
		os.Exit(cmdSelftest(os.Args[2:]))
	default:
		die(2, "unknown command %s", os.Args[1])
	}
	_ = io.Discard
}

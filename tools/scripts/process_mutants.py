#!/usr/bin/env python3
"""process_mutants.py <ID> [src_dir]: confirm each sub-agent mutant for property ID, store it under /verif/seeded/<ID>-mK/,
run the property's check against it and record whether it was detected."""
import json, os, shutil, subprocess, sys, glob, re
ID = sys.argv[1]
src = sys.argv[2] if len(sys.argv) > 2 else '/tmp/wt/%s/out' % ID
budget = sys.argv[3] if len(sys.argv) > 3 else '20'
for d in sorted(glob.glob(os.path.join(src, 'm*'))):
    if not os.path.isdir(d):
        continue
    name = '%s-%s%s' % (ID, os.environ.get('MUT_PREFIX', ''), os.path.basename(d))
    dst = os.path.join('/verif/seeded', name)
    adapted = os.path.join(dst, 'patch.diff')
    os.makedirs(dst, exist_ok=True)
    if not os.path.exists(adapted) or os.path.getmtime(adapted) < os.path.getmtime(os.path.join(d, 'patch.diff')):
        if not os.path.exists(os.path.join(dst, '.adapted')):
            shutil.copy(os.path.join(d, 'patch.diff'), adapted)
    for f in os.listdir(d):
        if f not in ('patch.diff', 'meta.json') and os.path.isfile(os.path.join(d, f)):
            shutil.copy(os.path.join(d, f), os.path.join(dst, f))
    meta = json.load(open(os.path.join(d, 'meta.json')))
    shutil.copy(os.path.join(d, 'meta.json'), os.path.join(dst, 'meta.json'))
    conf = subprocess.run(['/verif/tools/scripts/confirm_mutant.sh', dst], capture_output=True, text=True).stdout.strip().splitlines()
    conf = json.loads(conf[-1]) if conf else {}
    out = subprocess.run(['/verif/tools/scripts/try_mutant.sh', adapted, ID, budget], capture_output=True, text=True).stdout
    rc = re.search(r'exit=(\d+)', out)
    viol = re.findall(r'^fsim: ([\w-]+/[^:]+):', out, re.M)
    meta['confirmed'] = {k: conf.get(k) for k in ('applies', 'builds', 'suite_ok', 'suite_failures', 'demo_fails_with', 'demo_passes_without')}
    meta['confirmed']['how'] = 'tools/scripts/confirm_mutant.sh in a scratch worktree of /repo HEAD: git apply, go build ./..., go test ./... (baseline noise ignored), demo with and without the patch'
    meta['check'] = {'cmd': 'tools/scripts/try_mutant.sh patch.diff %s %s (VERIF_REPO=<scratch worktree> ./bin/fsim check %s)' % (ID, budget, ID),
                     'exit': int(rc.group(1)) if rc else None, 'violations': sorted(set(viol)), 'detected': bool(rc and rc.group(1) == '1')}
    json.dump(meta, open(os.path.join(dst, 'meta.json'), 'w'), indent=1)
    print(name, 'confirmed=%s' % all(conf.get(k) for k in ('applies', 'builds', 'suite_ok', 'demo_fails_with', 'demo_passes_without')), 'detected=%s' % meta['check']['detected'], meta['check']['violations'], '|', meta.get('title', '')[:80])

#!/usr/bin/env python3
"""Regenerates /verif/MANIFEST.json from sim/props.json (one check per harness entry)."""
import json, os
V = os.path.dirname(os.path.dirname(os.path.dirname(os.path.abspath(__file__))))
props = [json.loads(l) for l in open(os.path.join(V, 'properties.jsonl'))]
import glob
cfg = [json.load(open(f)) for f in sorted(glob.glob(os.path.join(V, 'sim', 'props.d', '*.json')))]
ok = set(open(os.path.join(V, 'sim', 'claimed.txt')).read().split())
claimed = {c['id']: c for c in cfg if c['id'] in ok}
NA = {
 'C03': 'pure function of (table, request, matcher, glob flag): no schedule, clock, fault or interleaving to simulate (DESIGN.md section 7); its concurrent aspect is checked under C06',
 'C04': 'pure arithmetic over a weight vector and a single-caller fold over the ring; the under-interleaving share is checked under C06 (DESIGN.md section 7)',
 'C05': 'sequential interpreter from command list to table plus a print/parse round trip: a pure function of its input (DESIGN.md section 7)',
 'C15': 'config.Load is a pure function of argv, environment and a properties text evaluated once before anything runs (DESIGN.md section 7)',
}
TECH = {}
checks = []
for p in props:
    c = claimed.get(p['id'])
    if not c:
        continue
    checks.append({
        'property_id': p['id'],
        'quick_cmd': './bin/fsim check %s --tier quick' % p['id'],
        'thorough_cmd': './bin/fsim check %s --tier thorough' % p['id'],
        'evidence_file': 'evidence/%s.json' % p['id'],
        'replay_cmd_template': './bin/fsim replay {path}',
        'engine': 'fsim',
        'level_claimed': {
            'category': 'exploration',
            'text': c.get('level_text', 'seeded search over simulated executions of the real fabio code (schedules, segmentations, faults, histories drawn from one PRNG value per run); a clean batch is evidence, not proof'),
            'design_ref': 'DESIGN.md section 6, ' + p['id'],
        },
        'level_note': c.get('level_note', 'trusted: go1.26.8 standard library incl. testing/synctest, the additive AST instrumenter, the simulated peers (simnet/simconsul/simfs) as models of TCP/Consul/disk; statement-granularity interleaving'),
        'technique': c.get('technique', 'deterministic simulation with fault injection: synctest bubble, seeded driver over simulated network/clock/tasks, reference-model oracle, shrinking replay'),
    })
na = []
for p in props:
    if p['id'] in claimed:
        continue
    na.append({'property_id': p['id'], 'reason': NA.get(p['id'], 'check not built yet (planned in DESIGN.md section 6); nothing is claimed for it')})
m = {
 'version': 1,
 'setup_cmd': './setup.sh',
 'hooks': {
  'guard': 'verif',
  'enable': 'no hook is committed in /repo: every check instruments the current working tree at build time (./bin/fsim-instrument -> go test -c -overlay -tags verif)',
  'baseline_off_cmd': 'cd /repo && go test -mod=mod -vet=off -count=1 ./...',
  'source_commits': [],
  'add_only': True,
 },
 'engines': [{'name': 'fsim', 'path': 'bin/fsim', 'serves_properties': sorted(claimed), 'kind_free_text': 'deterministic simulator: synctest bubble + seeded driver + AST-inserted yields + simulated network/consul/disk; per-property harnesses injected by overlay'}],
 'checks': checks,
 'not_applicable': na,
 'notes': 'exit 0 held (KNOWN-FINDING lines for listed findings) / 1 VIOLATION property=<id> replay=<path> / 2 build, harness or determinism trouble. VERIF_SEED and VERIF_TIER are honoured.',
}
json.dump(m, open(os.path.join(V, 'MANIFEST.json'), 'w'), indent=1)
print('claimed:', sorted(claimed), 'n/a:', [x['property_id'] for x in na])

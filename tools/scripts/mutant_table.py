#!/usr/bin/env python3
"""Writes /verif/seeded/RESULTS.md: one row per seeded mutant (from the meta.json files)."""
import json, glob, os
rows = []
for p in sorted(glob.glob('/verif/seeded/*/meta.json')):
    m = json.load(open(p))
    name = os.path.basename(os.path.dirname(p))
    c = m.get('confirmed', {})
    ok = all(c.get(k) for k in ('applies', 'builds', 'suite_ok', 'demo_fails_with', 'demo_passes_without'))
    ch = m.get('check', {})
    rows.append((name, m.get('title', '').replace('|', '/')[:110], m.get('needs', '').replace('|', '/').replace('\n', ' ')[:160],
                 'by the improver, no demo' if m.get('origin') else 'yes' if ok else 'NO (%s)' % ','.join(k for k in ('applies', 'builds', 'suite_ok', 'demo_fails_with', 'demo_passes_without') if not c.get(k)),
                 'detected' if ch.get('detected') else 'MISSED',
                 ' '.join('%s:%s' % (k, 'detected' if v.get('detected') else 'missed') for k, v in sorted(ch.get('other_seeds', {}).items())) or '-',
                 ', '.join(ch.get('violations', []))[:160], ch.get('note', '') or ''))
with open('/verif/seeded/RESULTS.md', 'w') as f:
    f.write('# Seeded property-breaking changes and what the checks did with them\n\n')
    f.write('Each change was written by an independent sub-agent that saw only the property text and a scratch worktree; every one was re-confirmed by `tools/scripts/confirm_mutant.sh` (applies, builds, existing suite passes, demo fails with / passes without) and run against the check with `tools/scripts/try_mutant.sh`.\n\n')
    f.write('| mutant | change | needs | confirmed | check (seed 1) | other seeds | violation classes | note |\n|---|---|---|---|---|---|---|---|\n')
    for r in rows:
        f.write('| ' + ' | '.join(r) + ' |\n')
    det = sum(1 for r in rows if r[4] == 'detected')
    f.write('\n%d mutants, %d detected, %d missed.\n' % (len(rows), det, len(rows) - det))
    # property-preserving changes
    brows = []
    for p in sorted(glob.glob('/verif/seeded/benign/*/meta.json')):
        m = json.load(open(p))
        ch = m.get('check', {})
        brows.append((os.path.basename(os.path.dirname(p)), m.get('title', '').replace('|', '/')[:140], 'quiet' if ch.get('quiet') else 'NOT QUIET (exit %s) %s' % (ch.get('exit'), ', '.join(ch.get('alarms', []))[:120])))
    f.write('\n# Property-preserving changes (the check must stay quiet)\n\nWritten the same way (sub-agents that saw only the property text); stored under `seeded/benign/`; run with `tools/scripts/recheck_benign.py`.\n\n| change | what it changes | check |\n|---|---|---|\n')
    for r in brows:
        f.write('| ' + ' | '.join(r) + ' |\n')
    f.write('\n%d changes, %d quiet.\n' % (len(brows), sum(1 for r in brows if r[2] == 'quiet')))
print(open('/verif/seeded/RESULTS.md').read()[-120:])

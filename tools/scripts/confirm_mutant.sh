#!/bin/bash
# usage: confirm_mutant.sh <mutant-dir> — confirms in a scratch worktree of /repo HEAD that the mutant (patch.diff, demo, meta.json)
# compiles, passes the existing test suite (modulo baseline noise), and that its demo fails with the patch and passes without.
# Prints one JSON line. Never touches /repo's working tree.
set -u
dir=$(realpath "$1")
export GOFLAGS=-mod=mod GOPROXY=off
wt=/tmp/wt/confirm-$$
git -C /repo worktree add -q --detach "$wt" HEAD || exit 3
cd "$wt"
res() { echo "{\"dir\":\"$dir\",\"applies\":$1,\"builds\":$2,\"suite_ok\":$3,\"suite_failures\":\"$4\",\"demo_fails_with\":$5,\"demo_passes_without\":$6}"; }
cleanup() { cd /; git -C /repo worktree remove --force "$wt" 2>/dev/null; }
if ! git apply "$dir/patch.diff" 2>/dev/null; then
  if ! git apply -3 "$dir/patch.diff" 2>/dev/null; then res false false false "" false false; cleanup; exit 0; fi
fi
if ! go build ./... >/dev/null 2>&1; then res true false false "" false false; cleanup; exit 0; fi
# existing suite; baseline noise: 3 cert tests need external binaries, some proxy tests are flaky
fails=$(go test -mod=mod -vet=off -count=1 ./... 2>&1 | grep -E "^--- FAIL" | grep -vE "TestConsulSource|TestVaultSource|TestVaultPKISource|TestGracefulShutdown|TestProxyWSUpstream|TestTCP|TestCustomRoutes" | tr '\n' ' ' | tr '"' "'")
suite=true; [ -n "$fails" ] && suite=false
pkg=$(python3 -c "import json;print((json.load(open('$dir/meta.json')).get('demo_pkg_dir','.') or '.').split()[0])")
run=$(python3 -c "
import json,re
m=json.load(open('$dir/meta.json'))
c=m.get('demo_cmd','')
r=re.search(r'-run[ =](\S+)',c)
print(r.group(1).strip('\'\"') if r else 'TestDemo')")
demo() { cp "$dir/demo_test.go" "$wt/$pkg/zz_demo_test.go"; go test -mod=mod -vet=off -count=1 -timeout 300s -run "$run" "./$pkg" >/tmp/wt/confirm-$$.log 2>&1; rc=$?; rm -f "$wt/$pkg/zz_demo_test.go"; return $rc; }
with=false; demo || with=true
git reset -q --hard HEAD
without=false; demo && without=true
rm -f /tmp/wt/confirm-$$.log
res true true $suite "$fails" $with $without
cleanup

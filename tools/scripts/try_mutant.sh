#!/bin/bash
# usage: try_mutant.sh <patch.diff> <ID> [budget_s]  — applies a patch to a scratch worktree, runs the check against it, removes the worktree.
# Never touches /repo's working tree.
set -u
patch=$(realpath "$1"); id=$2; budget=${3:-20}
wt=/tmp/wt/try-$$
git -C /repo worktree add -q --detach "$wt" HEAD || exit 3
cd "$wt"
if ! git apply "$patch" 2>/tmp/wt/try-$$.err; then
  if ! git apply -3 "$patch" 2>>/tmp/wt/try-$$.err; then
    echo "PATCH-DOES-NOT-APPLY"; cat /tmp/wt/try-$$.err | tail -5
    cd /; git -C /repo worktree remove --force "$wt"; rm -f /tmp/wt/try-$$.err; exit 4
  fi
fi
rm -f /tmp/wt/try-$$.err
cd /verif
VERIF_REPO="$wt" VERIF_BUDGET_S=$budget ./bin/fsim check "$id" 2>&1 | grep -E "^(VIOLATION|KNOWN|fsim:)" | cut -c1-400 | tail -8
rc=${PIPESTATUS[0]}
git -C /repo worktree remove --force "$wt"
echo "exit=$rc"

#!/usr/bin/env python3
"""recheck_benign.py [name ...]: run the property's check again against the property-PRESERVING changes stored under
/verif/seeded/benign/<ID>-bK/ (all of them without arguments) and refresh the "check" block of their meta.json.
Every one must be quiet (exit 0). Environment: BUDGET (seconds, default 20)."""
import json, os, subprocess, sys, glob, re
budget = os.environ.get('BUDGET', '20')
names = sys.argv[1:] or sorted(os.path.basename(d) for d in glob.glob('/verif/seeded/benign/C??-*') if os.path.isdir(d))
bad = 0
for name in names:
    dst = os.path.join('/verif/seeded/benign', name)
    ID = name.split('-')[0]
    meta = json.load(open(os.path.join(dst, 'meta.json')))
    out = subprocess.run(['/verif/tools/scripts/try_mutant.sh', os.path.join(dst, 'patch.diff'), ID, budget], capture_output=True, text=True).stdout
    rc = re.search(r'exit=(\d+)', out)
    viol = re.findall(r'^fsim: ([\w-]+/[^:]+):', out, re.M)
    quiet = bool(rc and rc.group(1) == '0')
    meta['check'] = {'cmd': 'tools/scripts/try_mutant.sh patch.diff %s %s' % (ID, budget), 'exit': int(rc.group(1)) if rc else None,
                     'alarms': sorted(set(viol)), 'quiet': quiet, 'output_tail': '' if quiet else out[-600:]}
    json.dump(meta, open(os.path.join(dst, 'meta.json'), 'w'), indent=1)
    bad += 0 if quiet else 1
    print(name, 'exit=%s' % (rc.group(1) if rc else None), sorted(set(viol))[:3], '' if quiet else '  <-- NOT QUIET', flush=True)
print('%d changes, %d not quiet' % (len(names), bad))

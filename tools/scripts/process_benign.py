#!/usr/bin/env python3
"""process_benign.py <ID> [src_dir]: run the property's check against each property-PRESERVING change written by a sub-agent
(stored under /verif/seeded/benign/<ID>-bK/). The check must exit 0; an alarm is a false alarm to be investigated."""
import json, os, shutil, subprocess, sys, glob, re
ID = sys.argv[1]
src = sys.argv[2] if len(sys.argv) > 2 else '/tmp/wt/bn-%s/out' % ID
budget = sys.argv[3] if len(sys.argv) > 3 else '25'
for d in sorted(glob.glob(os.path.join(src, '[bc][0-9]*'))):
    if not os.path.isdir(d) or not os.path.exists(os.path.join(d, 'patch.diff')):
        continue
    name = '%s-%s' % (ID, os.path.basename(d))
    dst = os.path.join('/verif/seeded/benign', name)
    os.makedirs(dst, exist_ok=True)
    shutil.copy(os.path.join(d, 'patch.diff'), os.path.join(dst, 'patch.diff'))
    meta = json.load(open(os.path.join(d, 'meta.json')))
    out = subprocess.run(['/verif/tools/scripts/try_mutant.sh', os.path.join(dst, 'patch.diff'), ID, budget], capture_output=True, text=True).stdout
    rc = re.search(r'exit=(\d+)', out)
    viol = re.findall(r'^fsim: ([\w-]+/[^:]+):', out, re.M)
    meta['check'] = {'cmd': 'tools/scripts/try_mutant.sh patch.diff %s %s' % (ID, budget), 'exit': int(rc.group(1)) if rc else None,
                     'alarms': sorted(set(viol)), 'quiet': bool(rc and rc.group(1) == '0'), 'output_tail': out[-600:] if not (rc and rc.group(1) == '0') else ''}
    json.dump(meta, open(os.path.join(dst, 'meta.json'), 'w'), indent=1)
    print(name, 'exit=%s' % (rc.group(1) if rc else '?'), meta['check']['alarms'], '|', meta.get('title', '')[:90])

#!/usr/bin/env python3
"""recheck_mutants.py [name ...]: run the property's check again against seeded changes already stored under
/verif/seeded/<ID>-*/ (all of them without arguments) and refresh the "check" block of their meta.json.
Environment: BUDGET (seconds, default 20); SEED (VERIF_SEED of the run; with a value other than 1 the verdict is recorded
under check.other_seeds[SEED] and the main verdict is left alone: a change detected by one seed only is a lucky hit)."""
import json, os, subprocess, sys, glob, re
budget = os.environ.get('BUDGET', '20')
seed = os.environ.get('SEED', '1')
os.environ['VERIF_SEED'] = seed
names = sys.argv[1:] or sorted(os.path.basename(d) for d in glob.glob('/verif/seeded/C??-*') if os.path.isdir(d))
for name in names:
    dst = os.path.join('/verif/seeded', name)
    ID = name.split('-')[0]
    mp = os.path.join(dst, 'meta.json')
    if not os.path.exists(mp):
        continue
    meta = json.load(open(mp))
    cid = meta.get('check', {}).get('by', ID)  # a change that belongs to another property's check (e.g. C01-w2m2 -> C14)
    out = subprocess.run(['/verif/tools/scripts/try_mutant.sh', os.path.join(dst, 'patch.diff'), cid, budget], capture_output=True, text=True).stdout
    rc = re.search(r'exit=(\d+)', out)
    viol = re.findall(r'^fsim: ([\w-]+/[^:]+):', out, re.M)
    old = meta.get('check', {})
    if seed != '1':
        old.setdefault('other_seeds', {})[seed] = {'exit': int(rc.group(1)) if rc else None, 'detected': bool(rc and rc.group(1) == '1'), 'budget_s': int(budget)}
        meta['check'] = old
        json.dump(meta, open(mp, 'w'), indent=1)
        print(name, 'seed=%s' % seed, 'exit=%s' % (rc.group(1) if rc else None), sorted(set(viol))[:3], '' if old.get('detected') == old['other_seeds'][seed]['detected'] else '  <-- differs from seed 1 (%s)' % old.get('detected'), flush=True)
        continue
    chk = {'cmd': 'tools/scripts/try_mutant.sh patch.diff %s %s (VERIF_REPO=<scratch worktree> ./bin/fsim check %s)' % (cid, budget, cid),
           'exit': int(rc.group(1)) if rc else None, 'violations': sorted(set(viol)), 'detected': bool(rc and rc.group(1) == '1')}
    for k in ('by', 'note', 'other_seeds'):
        if k in old:
            chk[k] = old[k]
    changed = '' if old.get('detected') == chk['detected'] else '  <-- was %s' % old.get('detected')
    meta['check'] = chk
    json.dump(meta, open(mp, 'w'), indent=1)
    print(name, 'exit=%s' % chk['exit'], 'detected=%s' % chk['detected'], chk['violations'][:3], changed, flush=True)

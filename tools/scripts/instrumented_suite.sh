#!/bin/bash
# Standing validation of the instrumenter: fabio's own test suite must pass on the instrumented build with the simulator inactive.
set -u
export GOFLAGS=-mod=mod GOPROXY=off GOSUMDB=off GOTOOLCHAIN=local PATH=/opt/veriftools/go1.26.8/bin:$PATH
DIR=$(/verif/bin/fsim build 2>/dev/null | tail -1)
cd ${VERIF_REPO:-/repo}
go test -tags verif -overlay "$DIR/overlay.json" -modfile "$DIR/go.mod" -vet=off -count=1 . ./route ./proxy/... ./cert ./registry/... ./transport ./logger ./noroute ./auth 2>&1 | grep -E "^(ok|FAIL|---|panic)" | grep -v "TestConsulSource\|TestVaultSource\|TestVaultPKISource"

// Package simconsul is an in-memory Consul (nodes, service instances, checks,
// KV, indexes, blocking queries) served through an http.RoundTripper, so the
// real hashicorp/consul/api client talks to it without sockets. A request is
// answered only when the driver fires its reply event; the reply is built from
// the state at that moment and every served snapshot is recorded.
package simconsul

import (
	"bytes"
	"encoding/json"
	"fmt"
	"io"
	"math/rand"
	"net/http"
	"net/url"
	"runtime"
	"sort"
	"strconv"
	"strings"
	"sync"
	"time"

	"github.com/fabiolb/fabio/internal/zzverif/simcore"
	"github.com/hashicorp/consul/api"
)

type Check struct {
	ID     string `json:"id"`
	Status string `json:"status"`
}

type Node struct {
	Name   string  `json:"name"`
	Addr   string  `json:"addr"`
	Serf   string  `json:"serf"` // passing | critical
	Maint  bool    `json:"maint,omitempty"`
	Checks []Check `json:"checks,omitempty"` // node-level checks other than serfHealth
}

type Instance struct {
	Node   string   `json:"node"`
	ID     string   `json:"id"`
	Name   string   `json:"name"`
	Addr   string   `json:"addr"` // service address ("" = node address)
	Port   int      `json:"port"`
	Tags   []string `json:"tags"`
	Checks []Check  `json:"checks"`
	Maint  bool     `json:"maint,omitempty"`
}

// Served is one reply as delivered to the client.
type Served struct {
	Seq      int
	Endpoint string // health | catalog | kv | other
	Arg      string // service name / kv path
	Index    uint64
	Err      string // non-empty: the request failed (fault)
	Health   []*api.HealthCheck
	Catalog  []*api.CatalogService
	KV       []KVEntry
	At       time.Time
}

type KVEntry struct{ Key, Value string }

type pending struct {
	id       int
	req      *http.Request
	key      string
	ch       chan result
	arrived  time.Time
	index    uint64
	blocking bool
	endpoint string
	arg      string
	deadline time.Time
}

type result struct {
	resp *http.Response
	err  error
}

type Server struct {
	mu sync.Mutex
	R  *simcore.Run
	// Hint is told when a blocking query will reach its wait limit.
	Hint func(time.Time)

	Nodes     []*Node
	Instances []*Instance
	KV        map[string]string

	index      uint64
	healthIdx  uint64
	catalogIdx uint64
	kvIdx      uint64

	pend    []*pending
	nextID  int
	stopped bool
	Down    bool // agent down: every request fails

	Log []*Served
	seq int

	// FaultsEnabled offers "fail this request" / "return early" events.
	FaultsEnabled bool
	WaitLimit     time.Duration
	// ShuffleHealth permutes the order of checks in every health reply (one schedule draw each).
	ShuffleHealth bool
}

func New(r *simcore.Run) *Server {
	return &Server{R: r, KV: map[string]string{}, index: 1, healthIdx: 1, catalogIdx: 1, kvIdx: 1, WaitLimit: 5 * time.Minute}
}

// ---- state mutation (call with the driver goroutine; each bumps the index) ----

func (s *Server) Mutate(kind string, f func()) {
	s.mu.Lock()
	defer s.mu.Unlock()
	f()
	s.index++
	switch kind {
	case "kv":
		s.kvIdx = s.index
	case "health":
		s.healthIdx = s.index
	default: // registration changes touch both
		s.healthIdx = s.index
		s.catalogIdx = s.index
	}
}

func (s *Server) Index() uint64 {
	s.mu.Lock()
	defer s.mu.Unlock()
	return s.index
}

func (s *Server) node(name string) *Node {
	for _, n := range s.Nodes {
		if n.Name == name {
			return n
		}
	}
	return nil
}

// HealthChecks renders /v1/health/state/any from the current state.
func (s *Server) healthLocked() []*api.HealthCheck {
	var out []*api.HealthCheck
	for _, n := range s.Nodes {
		out = append(out, &api.HealthCheck{Node: n.Name, CheckID: "serfHealth", Name: "Serf Health Status", Status: n.Serf})
		if n.Maint {
			out = append(out, &api.HealthCheck{Node: n.Name, CheckID: "_node_maintenance", Name: "Node Maintenance Mode", Status: "critical"})
		}
		for _, c := range n.Checks {
			out = append(out, &api.HealthCheck{Node: n.Name, CheckID: c.ID, Name: c.ID, Status: c.Status})
		}
	}
	for _, in := range s.Instances {
		for _, c := range in.Checks {
			out = append(out, &api.HealthCheck{Node: in.Node, CheckID: c.ID, Name: c.ID, Status: c.Status,
				ServiceID: in.ID, ServiceName: in.Name, ServiceTags: append([]string(nil), in.Tags...)})
		}
		if in.Maint {
			out = append(out, &api.HealthCheck{Node: in.Node, CheckID: "_service_maintenance:" + in.ID, Name: "Service Maintenance Mode", Status: "critical",
				ServiceID: in.ID, ServiceName: in.Name, ServiceTags: append([]string(nil), in.Tags...)})
		}
	}
	return out
}

func (s *Server) catalogLocked(name string) []*api.CatalogService {
	var out []*api.CatalogService
	for _, in := range s.Instances {
		if in.Name != name {
			continue
		}
		addr := ""
		if n := s.node(in.Node); n != nil {
			addr = n.Addr
		}
		out = append(out, &api.CatalogService{Node: in.Node, Address: addr, Datacenter: "dc1", ServiceID: in.ID, ServiceName: in.Name,
			ServiceAddress: in.Addr, ServicePort: in.Port, ServiceTags: append([]string(nil), in.Tags...)})
	}
	return out
}

func (s *Server) kvLocked(prefix string) []KVEntry {
	var keys []string
	for k := range s.KV {
		if strings.HasPrefix(k, prefix) {
			keys = append(keys, k)
		}
	}
	sort.Strings(keys)
	var out []KVEntry
	for _, k := range keys {
		out = append(out, KVEntry{k, s.KV[k]})
	}
	return out
}

// Snapshot returns deep copies of the registry (for reference models).
func (s *Server) Snapshot() (nodes []Node, instances []Instance, kv []KVEntry) {
	s.mu.Lock()
	defer s.mu.Unlock()
	for _, n := range s.Nodes {
		c := *n
		c.Checks = append([]Check(nil), n.Checks...)
		nodes = append(nodes, c)
	}
	for _, in := range s.Instances {
		c := *in
		c.Tags = append([]string(nil), in.Tags...)
		c.Checks = append([]Check(nil), in.Checks...)
		instances = append(instances, c)
	}
	return nodes, instances, s.kvLocked("")
}

// Views returns the current health view and the catalog view of every service name.
func (s *Server) Views() ([]*api.HealthCheck, map[string][]*api.CatalogService) {
	s.mu.Lock()
	defer s.mu.Unlock()
	cats := map[string][]*api.CatalogService{}
	for _, in := range s.Instances {
		if _, ok := cats[in.Name]; !ok {
			cats[in.Name] = s.catalogLocked(in.Name)
		}
	}
	return s.healthLocked(), cats
}

// ---- transport ----

func (s *Server) RoundTrip(req *http.Request) (*http.Response, error) {
	s.mu.Lock()
	if s.stopped {
		s.mu.Unlock()
		runtime.Goexit()
	}
	p := &pending{id: s.nextID, req: req, ch: make(chan result, 1), arrived: time.Now()}
	s.nextID++
	q := req.URL.Query()
	if v := q.Get("index"); v != "" {
		p.index, _ = strconv.ParseUint(v, 10, 64)
		p.blocking = p.index > 0
	}
	path := req.URL.Path
	switch {
	case path == "/v1/health/state/any":
		p.endpoint = "health"
	case strings.HasPrefix(path, "/v1/catalog/service/"):
		p.endpoint = "catalog"
		p.arg, _ = url.PathUnescape(strings.TrimPrefix(req.URL.EscapedPath(), "/v1/catalog/service/"))
	case strings.HasPrefix(path, "/v1/kv/"):
		p.endpoint = "kv"
		p.arg = strings.TrimPrefix(path, "/v1/kv/")
	default:
		p.endpoint = "other"
		p.arg = path
	}
	p.key = fmt.Sprintf("%s:%s:%s", req.Method, p.endpoint, p.arg)
	if p.blocking {
		wait := s.WaitLimit
		if v := q.Get("wait"); v != "" {
			if d, err := time.ParseDuration(v); err == nil {
				wait = d
			}
		}
		p.deadline = p.arrived.Add(wait)
		if s.Hint != nil {
			s.Hint(p.deadline)
		}
	}
	s.pend = append(s.pend, p)
	s.mu.Unlock()
	select {
	case r := <-p.ch:
		return r.resp, r.err
	case <-req.Context().Done():
		s.mu.Lock()
		s.removeLocked(p)
		s.mu.Unlock()
		return nil, req.Context().Err()
	}
}

func (s *Server) removeLocked(p *pending) {
	for i, q := range s.pend {
		if q == p {
			s.pend = append(s.pend[:i], s.pend[i+1:]...)
			return
		}
	}
}

func (s *Server) endpointIdx(p *pending) uint64 {
	switch p.endpoint {
	case "health":
		return s.healthIdx
	case "catalog":
		return s.catalogIdx
	case "kv":
		return s.kvIdx
	}
	return s.index
}

func jsonResp(req *http.Request, status int, idx uint64, v any) *http.Response {
	var body []byte
	if v != nil {
		body, _ = json.Marshal(v)
	}
	h := http.Header{}
	h.Set("Content-Type", "application/json")
	h.Set("X-Consul-Index", strconv.FormatUint(idx, 10))
	h.Set("X-Consul-Knownleader", "true")
	h.Set("X-Consul-Lastcontact", "0")
	return &http.Response{StatusCode: status, Status: fmt.Sprintf("%d %s", status, http.StatusText(status)), Header: h,
		Body: io.NopCloser(bytes.NewReader(body)), ContentLength: int64(len(body)), Request: req, Proto: "HTTP/1.1", ProtoMajor: 1, ProtoMinor: 1}
}

// reply answers p from the current state.
func (s *Server) reply(p *pending, fail string) {
	s.mu.Lock()
	s.removeLocked(p)
	s.seq++
	sv := &Served{Seq: s.seq, Endpoint: p.endpoint, Arg: p.arg, At: time.Now()}
	var res result
	switch {
	case fail == "transport":
		sv.Err = "transport error"
		res.err = fmt.Errorf("simconsul: connection reset (injected)")
	case fail == "500" || s.Down:
		sv.Err = "500"
		res.resp = jsonResp(p.req, 500, s.index, nil)
		res.resp.Body = io.NopCloser(strings.NewReader("rpc error: No cluster leader (injected)"))
	default:
		idx := s.endpointIdx(p)
		sv.Index = idx
		switch p.endpoint {
		case "health":
			sv.Health = s.healthLocked()
			// Consul promises no particular order of the checks
			if s.R != nil && len(sv.Health) > 1 && s.ShuffleHealth {
				rng := rand.New(rand.NewSource(int64(s.R.Sched.Intn(1 << 20))))
				rng.Shuffle(len(sv.Health), func(i, j int) { sv.Health[i], sv.Health[j] = sv.Health[j], sv.Health[i] })
			}
			res.resp = jsonResp(p.req, 200, idx, sv.Health)
		case "catalog":
			sv.Catalog = s.catalogLocked(p.arg)
			if sv.Catalog == nil {
				sv.Catalog = []*api.CatalogService{}
			}
			res.resp = jsonResp(p.req, 200, idx, sv.Catalog)
		case "kv":
			if _, recurse := p.req.URL.Query()["recurse"]; recurse {
				sv.KV = s.kvLocked(p.arg)
			} else if v, ok := s.KV[p.arg]; ok {
				sv.KV = []KVEntry{{p.arg, v}}
			}
			if len(sv.KV) == 0 {
				res.resp = jsonResp(p.req, 404, idx, nil)
			} else {
				var pairs []*api.KVPair
				for _, e := range sv.KV {
					pairs = append(pairs, &api.KVPair{Key: e.Key, Value: []byte(e.Value), ModifyIndex: idx, CreateIndex: 1})
				}
				res.resp = jsonResp(p.req, 200, idx, pairs)
			}
		default:
			if p.arg == "/v1/agent/self" {
				res.resp = jsonResp(p.req, 200, s.index, map[string]map[string]any{"Config": {"Datacenter": "dc1"}})
			} else {
				// agent service registration, checks, etc.: accepted and ignored
				res.resp = jsonResp(p.req, 200, s.index, nil)
			}
		}
	}
	s.Log = append(s.Log, sv)
	s.mu.Unlock()
	if s.R != nil {
		s.R.Tracef("consul reply #%d %s %s idx=%d err=%q", sv.Seq, p.endpoint, p.arg, sv.Index, sv.Err)
	}
	p.ch <- res
}

// Events offers one reply event per answerable request, plus fault events.
func (s *Server) Events() []simcore.Event {
	s.mu.Lock()
	defer s.mu.Unlock()
	var ev []simcore.Event
	now := time.Now()
	seen := map[string]int{}
	ps := append([]*pending(nil), s.pend...)
	sort.SliceStable(ps, func(i, j int) bool { return ps[i].key < ps[j].key })
	for _, p := range ps {
		p := p
		seen[p.key]++
		key := fmt.Sprintf("consul:%s#%d", p.key, seen[p.key])
		ready := !p.blocking || s.endpointIdx(p) > p.index || !now.Before(p.deadline) || s.Down
		if ready {
			ev = append(ev, simcore.Event{Key: key, Weight: 4, Fire: func() { s.reply(p, "") }})
		}
		if s.FaultsEnabled {
			ev = append(ev, simcore.Event{Key: key + ":fail500", Weight: 1, Fire: func() {
				s.R.Fault("consul_http_500")
				s.reply(p, "500")
			}})
			ev = append(ev, simcore.Event{Key: key + ":failconn", Weight: 1, Fire: func() {
				s.R.Fault("consul_transport_error")
				s.reply(p, "transport")
			}})
			if !ready {
				ev = append(ev, simcore.Event{Key: key + ":spurious", Weight: 1, Fire: func() {
					s.R.Fault("consul_spurious_early_return")
					s.reply(p, "")
				}})
			}
		}
	}
	return ev
}

// Answerable reports whether some request could be answered now without a fault.
func (s *Server) Answerable() bool {
	s.mu.Lock()
	defer s.mu.Unlock()
	now := time.Now()
	for _, p := range s.pend {
		if !p.blocking || s.endpointIdx(p) > p.index || !now.Before(p.deadline) || s.Down {
			return true
		}
	}
	return false
}

// Stop fails everything pending; later requests end their goroutine.
func (s *Server) Stop() {
	s.mu.Lock()
	s.stopped = true
	ps := s.pend
	s.pend = nil
	s.mu.Unlock()
	for _, p := range ps {
		p.ch <- result{err: fmt.Errorf("simconsul: stopped")}
	}
}

// Client returns a real consul api client wired to this server.
func (s *Server) Client() (*api.Client, error) {
	return api.NewClient(&api.Config{Address: "consul.sim:8500", HttpClient: &http.Client{Transport: s}})
}

// Package simnet is the simulated network: in-memory listeners and connections
// with real *net.TCPAddr addresses, half-close, deadlines on the bubble clock,
// bounded windows, and delivery that happens only when the driver says so
// (or immediately for listeners marked Auto). All blocking is on sync.Cond,
// which is durably blocking inside a synctest bubble.
package simnet

import (
	"context"
	"errors"
	"fmt"
	"io"
	"net"
	"os"
	"sort"
	"strconv"
	"strings"
	"sync"
	"syscall"
	"time"

	"github.com/fabiolb/fabio/internal/zzverif/simcore"
)

type Net struct {
	mu   sync.Mutex
	cond *sync.Cond

	listeners map[string]*Listener
	conns     []*Conn // client-side endpoints, in creation order
	dials     []*dialReq
	nextPort  int
	nextIP    int
	hostIP    map[string]net.IP
	blackhole map[string]bool
	closed    bool

	// LocalIP is the source address of connections dialled without an explicit local address (fabio's own dials).
	LocalIP net.IP
	// Window is the per-direction buffer bound (bytes in flight + delivered-unread).
	Window int
	R      *simcore.Run

	Stats map[string]*AddrStats
	// EOFWithData: a Read that takes the last delivered bytes of a stream whose FIN has already been delivered
	// returns them together with io.EOF (legal for an io.Reader, and what crypto/tls does when the last record and
	// close_notify arrive together).
	EOFWithData bool
	// DialLog records the parameters of every dial made through DialFunc (fabio's own dials).
	DialLog []DialRecord
}

type DialRecord struct {
	Key       string
	Timeout   time.Duration
	KeepAlive time.Duration
	At        time.Time
}

// AddrStats accounts for everything that happened at a listening address.
type AddrStats struct {
	Dials       int // connection attempts (including refused / timed out ones)
	Accepted    int // connections established
	Refused     int
	BytesIn     int64 // bytes delivered to the server side
	BytesOut    int64 // bytes written by the server side
	Open        int
	LastCloseAt time.Time
}

type ListenOpts struct {
	// Auto: connections are established and bytes delivered without driver events.
	Auto bool
}

func New(r *simcore.Run) *Net {
	n := &Net{listeners: map[string]*Listener{}, nextPort: 40000, nextIP: 10, hostIP: map[string]net.IP{},
		blackhole: map[string]bool{}, LocalIP: net.IPv4(10, 0, 0, 1), Window: 64 << 10, R: r, Stats: map[string]*AddrStats{}}
	n.cond = sync.NewCond(&n.mu)
	return n
}

func (n *Net) stats(key string) *AddrStats {
	s := n.Stats[key]
	if s == nil {
		s = &AddrStats{}
		n.Stats[key] = s
	}
	return s
}

// StatsFor returns a copy of the accounting of a listening address.
func (n *Net) StatsFor(key string) AddrStats {
	n.mu.Lock()
	defer n.mu.Unlock()
	if s := n.Stats[key]; s != nil {
		return *s
	}
	return AddrStats{}
}

// TotalDials sums the connection attempts to addresses with the given prefix.
func (n *Net) TotalDials(prefix string) int {
	n.mu.Lock()
	defer n.mu.Unlock()
	t := 0
	for k, s := range n.Stats {
		if strings.HasPrefix(k, prefix) {
			t += s.Dials
		}
	}
	return t
}

func (n *Net) resolve(hostport string) *net.TCPAddr {
	host, port, err := net.SplitHostPort(hostport)
	if err != nil {
		host, port = hostport, "0"
	}
	p, _ := strconv.Atoi(port)
	zone := ""
	if i := strings.IndexByte(host, '%'); i >= 0 {
		host, zone = host[:i], host[i+1:]
	}
	if host == "" {
		return &net.TCPAddr{IP: net.IPv4zero, Port: p}
	}
	if ip := net.ParseIP(host); ip != nil {
		return &net.TCPAddr{IP: ip, Port: p, Zone: zone}
	}
	ip := n.hostIP[host]
	if ip == nil {
		ip = net.IPv4(10, 9, byte(n.nextIP>>8), byte(n.nextIP))
		n.nextIP++
		n.hostIP[host] = ip
	}
	return &net.TCPAddr{IP: ip, Port: p}
}

// ---------------------------------------------------------------- listener

type Listener struct {
	n      *Net
	key    string
	addr   *net.TCPAddr
	queue  []*Conn
	closed bool
	opts   ListenOpts
}

// Listen registers a listener under key ("host:port" exactly as dialers will name it).
func (n *Net) Listen(key string, opts ListenOpts) (*Listener, error) {
	n.mu.Lock()
	defer n.mu.Unlock()
	if l := n.listeners[key]; l != nil && !l.closed {
		return nil, &net.OpError{Op: "listen", Net: "tcp", Err: syscall.EADDRINUSE}
	}
	l := &Listener{n: n, key: key, addr: n.resolve(key), opts: opts}
	n.listeners[key] = l
	n.stats(key)
	return l, nil
}

func (l *Listener) Accept() (net.Conn, error) {
	n := l.n
	n.mu.Lock()
	defer n.mu.Unlock()
	for {
		if l.closed || n.closed {
			return nil, &net.OpError{Op: "accept", Net: "tcp", Addr: l.addr, Err: net.ErrClosed}
		}
		if len(l.queue) > 0 {
			c := l.queue[0]
			l.queue = l.queue[1:]
			return c, nil
		}
		n.cond.Wait()
	}
}

func (l *Listener) Close() error {
	n := l.n
	n.mu.Lock()
	defer n.mu.Unlock()
	if l.closed {
		return nil
	}
	l.closed = true
	for _, c := range l.queue {
		c.resetLocked("listener closed")
	}
	l.queue = nil
	n.cond.Broadcast()
	return nil
}

func (l *Listener) Addr() net.Addr { return l.addr }
func (l *Listener) Key() string    { return l.key }

// ---------------------------------------------------------------- connection

type pipe struct {
	inflight     []byte
	ready        []byte
	wclosed      bool // writer closed: FIN follows the in-flight bytes
	finDelivered bool
	reset        bool
	rclosed      bool // reader closed: arriving data is answered with a reset
	auto         bool
	rstAfter     bool // reset the connection once everything written so far has been delivered
	stalled      bool
	sent         int64
	delivered    int64
	read         int64
	eofData      int // Reads of this direction that returned data together with io.EOF (Net.EOFWithData)
}

type Conn struct {
	n      *Net
	id     string
	peer   *Conn
	local  *net.TCPAddr
	remote *net.TCPAddr
	out    *pipe // this end writes here
	in     *pipe // this end reads from here
	closed bool
	server bool
	lkey   string

	rdl, wdl   time.Time
	rdlT, wdlT *time.Timer

	ClosedAt time.Time
}

type timeoutErr struct{}

func (timeoutErr) Error() string   { return "i/o timeout" }
func (timeoutErr) Timeout() bool   { return true }
func (timeoutErr) Temporary() bool { return true }
func (timeoutErr) Is(e error) bool { return e == os.ErrDeadlineExceeded }

func (c *Conn) opErr(op string, err error) error {
	return &net.OpError{Op: op, Net: "tcp", Source: c.local, Addr: c.remote, Err: err}
}

func (c *Conn) Read(b []byte) (int, error) {
	n := c.n
	n.mu.Lock()
	defer n.mu.Unlock()
	for {
		if c.closed {
			return 0, c.opErr("read", net.ErrClosed)
		}
		if len(c.in.ready) > 0 {
			if len(b) == 0 {
				return 0, nil
			}
			k := copy(b, c.in.ready)
			c.in.ready = c.in.ready[k:]
			c.in.read += int64(k)
			n.cond.Broadcast()
			if n.EOFWithData && len(c.in.ready) == 0 && c.in.finDelivered && !c.in.reset {
				c.in.eofData++
				return k, io.EOF
			}
			return k, nil
		}
		if c.in.reset {
			return 0, c.opErr("read", syscall.ECONNRESET)
		}
		if c.in.finDelivered {
			return 0, io.EOF
		}
		if !c.rdl.IsZero() && !time.Now().Before(c.rdl) {
			return 0, c.opErr("read", timeoutErr{})
		}
		if n.closed {
			return 0, c.opErr("read", syscall.ECONNRESET)
		}
		n.cond.Wait()
	}
}

func (c *Conn) Write(b []byte) (int, error) {
	n := c.n
	n.mu.Lock()
	defer n.mu.Unlock()
	total := 0
	for {
		if c.closed {
			return total, c.opErr("write", net.ErrClosed)
		}
		if c.out.wclosed {
			return total, c.opErr("write", syscall.EPIPE)
		}
		if c.out.reset || c.in.reset {
			return total, c.opErr("write", syscall.ECONNRESET)
		}
		if len(b) == 0 {
			return total, nil
		}
		if !c.wdl.IsZero() && !time.Now().Before(c.wdl) {
			return total, c.opErr("write", timeoutErr{})
		}
		if n.closed {
			return total, c.opErr("write", syscall.ECONNRESET)
		}
		space := n.Window - len(c.out.inflight) - len(c.out.ready)
		if space <= 0 {
			n.cond.Wait()
			continue
		}
		k := len(b)
		if k > space {
			k = space
		}
		c.out.sent += int64(k)
		if c.server {
			n.stats(c.lkey).BytesOut += int64(k)
		}
		if c.out.auto {
			n.deliverLocked(c, append([]byte(nil), b[:k]...))
		} else {
			c.out.inflight = append(c.out.inflight, b[:k]...)
		}
		b = b[k:]
		total += k
		n.cond.Broadcast()
	}
}

// deliverLocked hands data written by c to its peer's read buffer.
func (n *Net) deliverLocked(c *Conn, data []byte) {
	p := c.out
	if p.rclosed {
		// the peer has closed: the data is answered with a reset
		p.reset = true
		c.in.reset = true
		return
	}
	p.ready = append(p.ready, data...)
	p.delivered += int64(len(data))
	if !c.server {
		n.stats(c.lkey).BytesIn += int64(len(data))
	}
}

func (c *Conn) closeWriteLocked() {
	if c.out.wclosed {
		return
	}
	c.out.wclosed = true
	if c.out.auto && len(c.out.inflight) == 0 {
		c.out.finDelivered = true
	}
}

// CloseWrite half-closes the connection (FIN after the bytes already written).
func (c *Conn) CloseWrite() error {
	n := c.n
	n.mu.Lock()
	defer n.mu.Unlock()
	if c.closed {
		return c.opErr("close", net.ErrClosed)
	}
	c.closeWriteLocked()
	n.cond.Broadcast()
	return nil
}

func (c *Conn) CloseRead() error {
	n := c.n
	n.mu.Lock()
	defer n.mu.Unlock()
	c.in.rclosed = true
	c.in.ready = nil
	n.cond.Broadcast()
	return nil
}

func (c *Conn) Close() error {
	n := c.n
	n.mu.Lock()
	defer n.mu.Unlock()
	if c.closed {
		return c.opErr("close", net.ErrClosed)
	}
	c.closed = true
	c.ClosedAt = time.Now()
	c.closeWriteLocked()
	// unread data at close time: the peer would see a reset on its next write; we model the common case
	c.in.rclosed = true
	c.in.ready = nil
	if c.rdlT != nil {
		c.rdlT.Stop()
	}
	if c.wdlT != nil {
		c.wdlT.Stop()
	}
	if c.server {
		st := n.stats(c.lkey)
		st.Open--
		st.LastCloseAt = c.ClosedAt
	}
	n.cond.Broadcast()
	return nil
}

func (c *Conn) resetLocked(why string) {
	c.in.reset, c.out.reset = true, true
	c.in.inflight, c.out.inflight = nil, nil
	c.n.cond.Broadcast()
}

// Reset injects a connection reset seen by both ends.
func (c *Conn) Reset() {
	c.n.mu.Lock()
	c.resetLocked("fault")
	c.n.mu.Unlock()
}

// ResetAfterDelivery makes the connection reset (as seen by both ends) as soon as the bytes this end has
// written so far have been delivered: "the peer died after sending n bytes".
func (c *Conn) ResetAfterDelivery() {
	c.n.mu.Lock()
	defer c.n.mu.Unlock()
	if c.out.auto || len(c.out.inflight) == 0 {
		c.resetLocked("fault")
		return
	}
	c.out.rstAfter = true
	c.n.cond.Broadcast()
}

// Stall stops (or resumes) delivery of the bytes this end writes.
func (c *Conn) Stall(on bool) {
	c.n.mu.Lock()
	c.out.stalled = on
	c.n.cond.Broadcast()
	c.n.mu.Unlock()
}

func (c *Conn) LocalAddr() net.Addr  { return c.local }
func (c *Conn) RemoteAddr() net.Addr { return c.remote }
func (c *Conn) ID() string           { return c.id }
func (c *Conn) Peer() *Conn          { return c.peer }

// Counters returns bytes written by this end, delivered to the peer, and read by the peer.
func (c *Conn) Counters() (sent, delivered, read int64) {
	c.n.mu.Lock()
	defer c.n.mu.Unlock()
	return c.out.sent, c.out.delivered, c.out.read
}

// EOFWithDataReads returns the number of Reads of this end that returned data together with io.EOF
// (only with Net.EOFWithData; at most one per connection end).
func (c *Conn) EOFWithDataReads() int {
	c.n.mu.Lock()
	defer c.n.mu.Unlock()
	return c.in.eofData
}

// IsClosed reports whether this end called Close.
func (c *Conn) IsClosed() bool {
	c.n.mu.Lock()
	defer c.n.mu.Unlock()
	return c.closed
}

func (c *Conn) setDeadline(which int, t time.Time) {
	n := c.n
	n.mu.Lock()
	defer n.mu.Unlock()
	arm := func(old *time.Timer) *time.Timer {
		if old != nil {
			old.Stop()
		}
		if t.IsZero() {
			return nil
		}
		d := time.Until(t)
		if d <= 0 {
			return nil
		}
		return time.AfterFunc(d, func() {
			n.mu.Lock()
			n.cond.Broadcast()
			n.mu.Unlock()
		})
	}
	if which&1 != 0 {
		c.rdl = t
		c.rdlT = arm(c.rdlT)
	}
	if which&2 != 0 {
		c.wdl = t
		c.wdlT = arm(c.wdlT)
	}
	n.cond.Broadcast()
}

func (c *Conn) SetDeadline(t time.Time) error      { c.setDeadline(3, t); return nil }
func (c *Conn) SetReadDeadline(t time.Time) error  { c.setDeadline(1, t); return nil }
func (c *Conn) SetWriteDeadline(t time.Time) error { c.setDeadline(2, t); return nil }

// TCP-ish knobs that callers type-assert for; accepted and ignored.
func (c *Conn) SetKeepAlive(bool) error                { return nil }
func (c *Conn) SetKeepAlivePeriod(time.Duration) error { return nil }
func (c *Conn) SetNoDelay(bool) error                  { return nil }

// ---------------------------------------------------------------- dialing

type dialReq struct {
	id       string
	key      string
	from     *net.TCPAddr
	done     bool
	conn     *Conn
	err      error
	canceled bool
}

// Blackhole makes connection attempts to key hang until their timeout.
func (n *Net) Blackhole(key string, on bool) {
	n.mu.Lock()
	n.blackhole[key] = on
	n.cond.Broadcast()
	n.mu.Unlock()
}

func (n *Net) findListener(key string) *Listener {
	if l := n.listeners[key]; l != nil && !l.closed {
		return l
	}
	// ":port" listeners accept any host with that port
	_, port, err := net.SplitHostPort(key)
	if err == nil {
		if l := n.listeners[":"+port]; l != nil && !l.closed {
			return l
		}
	}
	return nil
}

// Dial connects from (nil: fabio's own address with an ephemeral port) to key.
func (n *Net) Dial(ctx context.Context, from *net.TCPAddr, key string, timeout time.Duration) (net.Conn, error) {
	n.mu.Lock()
	defer n.mu.Unlock()
	if from == nil {
		from = &net.TCPAddr{IP: n.LocalIP, Port: n.nextPort}
		n.nextPort++
	}
	st := n.stats(key)
	st.Dials++
	remote := n.resolve(key)
	fail := func(err error) (net.Conn, error) {
		return nil, &net.OpError{Op: "dial", Net: "tcp", Source: from, Addr: remote, Err: err}
	}
	if n.closed {
		return fail(syscall.ECONNREFUSED)
	}
	var deadline time.Time
	if timeout > 0 {
		deadline = time.Now().Add(timeout)
	}
	if dl, ok := ctx.Deadline(); ok && (deadline.IsZero() || dl.Before(deadline)) {
		deadline = dl
	}
	var timer *time.Timer
	if !deadline.IsZero() {
		timer = time.AfterFunc(time.Until(deadline), func() {
			n.mu.Lock()
			n.cond.Broadcast()
			n.mu.Unlock()
		})
		defer timer.Stop()
	}
	stop := context.AfterFunc(ctx, func() {
		n.mu.Lock()
		n.cond.Broadcast()
		n.mu.Unlock()
	})
	defer stop()

	l := n.findListener(key)
	if l == nil && !n.blackhole[key] {
		st.Refused++
		if n.R != nil {
			n.R.Tracef("net dial %s->%s refused", from, key)
		}
		return fail(syscall.ECONNREFUSED)
	}
	req := &dialReq{id: from.String() + ">" + key, key: key, from: from}
	if l != nil && l.opts.Auto && !n.blackhole[key] {
		n.connectLocked(req, l)
	} else {
		n.dials = append(n.dials, req)
	}
	for !req.done {
		if ctx.Err() != nil {
			req.canceled = true
			return fail(ctx.Err())
		}
		if !deadline.IsZero() && !time.Now().Before(deadline) {
			req.canceled = true
			return fail(timeoutErr{})
		}
		if n.closed {
			req.canceled = true
			return fail(syscall.ECONNREFUSED)
		}
		n.cond.Wait()
	}
	if req.err != nil {
		return fail(req.err)
	}
	return req.conn, nil
}

func (n *Net) connectLocked(req *dialReq, l *Listener) {
	remote := *l.addr
	if remote.IP.IsUnspecified() {
		remote.IP = net.IPv4(10, 0, 0, 1)
	}
	a2b := &pipe{auto: l.opts.Auto}
	b2a := &pipe{auto: l.opts.Auto}
	cl := &Conn{n: n, id: req.id, local: req.from, remote: &remote, out: a2b, in: b2a, lkey: l.key}
	sv := &Conn{n: n, id: req.id, local: &remote, remote: req.from, out: b2a, in: a2b, server: true, lkey: l.key}
	cl.peer, sv.peer = sv, cl
	n.conns = append(n.conns, cl)
	l.queue = append(l.queue, sv)
	st := n.stats(l.key)
	st.Accepted++
	st.Open++
	req.conn = cl
	req.done = true
	if n.R != nil {
		n.R.Tracef("net connect %s", req.id)
	}
	n.cond.Broadcast()
}

// ---------------------------------------------------------------- driver events

// Events lists connection establishments and segment deliveries the driver may perform.
func (n *Net) Events() []simcore.Event {
	n.mu.Lock()
	defer n.mu.Unlock()
	var ev []simcore.Event
	// pending dials
	live := n.dials[:0]
	for _, d := range n.dials {
		if d.done || d.canceled {
			continue
		}
		live = append(live, d)
		d := d
		if n.blackhole[d.key] {
			continue
		}
		ev = append(ev, simcore.Event{Key: "net:dial:" + d.id, Fire: func() {
			n.mu.Lock()
			defer n.mu.Unlock()
			if d.done || d.canceled {
				return
			}
			l := n.findListener(d.key)
			if l == nil {
				d.err = syscall.ECONNREFUSED
				d.done = true
				n.stats(d.key).Refused++
				n.cond.Broadcast()
				return
			}
			n.connectLocked(d, l)
		}})
	}
	n.dials = live
	for _, c := range n.conns {
		for _, e := range []*Conn{c, c.peer} {
			e := e
			p := e.out
			if p.auto || p.stalled || p.reset {
				continue
			}
			dir := "c2s"
			if e.server {
				dir = "s2c"
			}
			if len(p.inflight) > 0 {
				ev = append(ev, simcore.Event{Key: "net:data:" + e.id + ":" + dir, Fire: func() { n.deliver(e) }})
			} else if p.wclosed && !p.finDelivered {
				ev = append(ev, simcore.Event{Key: "net:fin:" + e.id + ":" + dir, Fire: func() {
					n.mu.Lock()
					p.finDelivered = true
					if n.R != nil {
						n.R.Tracef("net fin %s %s", e.id, dir)
					}
					n.cond.Broadcast()
					n.mu.Unlock()
				}})
			}
		}
	}
	sort.Slice(ev, func(i, j int) bool { return ev[i].Key < ev[j].Key })
	return ev
}

// deliver moves a driver-chosen number of in-flight bytes written by e to its peer.
func (n *Net) deliver(e *Conn) {
	n.mu.Lock()
	defer n.mu.Unlock()
	p := e.out
	avail := len(p.inflight)
	if avail == 0 {
		return
	}
	k := avail
	if p.rclosed {
		// The receiving end has closed: the bytes are dropped and answered with a reset. What a proxy still writes
		// to a peer that has gone (which error page, how long) often depends on races inside net/http, so neither a
		// schedule draw nor the trace may depend on the amount.
		p.inflight = nil
		n.deliverLocked(e, nil)
		if n.R != nil {
			dir := "c2s"
			if e.server {
				dir = "s2c"
			}
			n.R.Tracef("net deliver %s %s to an end that has closed", e.id, dir)
		}
		n.cond.Broadcast()
		return
	}
	if n.R != nil {
		switch n.R.Sched.Intn(4) {
		case 0:
			k = avail
		case 1:
			k = 1 + n.R.Sched.Intn(avail)
		case 2:
			k = 1
		case 3:
			if k > 1460 {
				k = 1460
			}
		}
		if k > 1 && k < avail {
			n.R.Fault("net_segment_split")
		} else if k == 1 && avail > 1 {
			n.R.Fault("net_dribble_1byte")
		}
	}
	data := append([]byte(nil), p.inflight[:k]...)
	p.inflight = p.inflight[k:]
	n.deliverLocked(e, data)
	if p.rstAfter && len(p.inflight) == 0 {
		p.rstAfter = false
		e.in.reset, e.out.reset = true, true // delivered data stays readable: Read returns buffered bytes before the reset
		e.in.inflight = nil
	}
	if n.R != nil {
		dir := "c2s"
		if e.server {
			dir = "s2c"
		}
		n.R.Tracef("net deliver %s %s %d/%d", e.id, dir, k, avail)
	}
	n.cond.Broadcast()
}

// Pending reports whether any byte, FIN or dial is still in flight.
func (n *Net) Pending() bool {
	n.mu.Lock()
	defer n.mu.Unlock()
	for _, d := range n.dials {
		if !d.done && !d.canceled && !n.blackhole[d.key] {
			return true
		}
	}
	for _, c := range n.conns {
		for _, e := range []*Conn{c, c.peer} {
			p := e.out
			if p.auto || p.stalled || p.reset {
				continue
			}
			if len(p.inflight) > 0 || (p.wclosed && !p.finDelivered) {
				return true
			}
		}
	}
	return false
}

// Conns returns the client-side endpoints of all connections ever established to key ("" for all).
func (n *Net) Conns(key string) []*Conn {
	n.mu.Lock()
	defer n.mu.Unlock()
	var out []*Conn
	for _, c := range n.conns {
		if key == "" || c.lkey == key {
			out = append(out, c)
		}
	}
	return out
}

// Shutdown closes every listener and resets every connection (teardown).
func (n *Net) Shutdown() {
	n.mu.Lock()
	n.closed = true
	for _, l := range n.listeners {
		l.closed = true
	}
	for _, c := range n.conns {
		c.in.reset, c.out.reset = true, true
	}
	n.cond.Broadcast()
	n.mu.Unlock()
}

// DialFunc adapts the network to simhook.Sim.Dial.
func (n *Net) DialFunc() func(ctx context.Context, network, addr string, timeout, keepAlive time.Duration) (net.Conn, error) {
	return func(ctx context.Context, network, addr string, timeout, keepAlive time.Duration) (net.Conn, error) {
		n.mu.Lock()
		n.DialLog = append(n.DialLog, DialRecord{Key: addr, Timeout: timeout, KeepAlive: keepAlive, At: time.Now()})
		n.mu.Unlock()
		return n.Dial(ctx, nil, addr, timeout)
	}
}

var _ net.Conn = (*Conn)(nil)
var _ net.Listener = (*Listener)(nil)
var _ = errors.New
var _ = fmt.Sprintf

// Package simcore is the driver side of the simulator: the choice tapes (one
// PRNG decides everything), the run record (violations, faults, probes, trace
// hash), the event loop, the shrinker and the worker protocol spoken with the
// fsim runner.
package simcore

import (
	"context"
	"encoding/json"
	"fmt"
	"hash/fnv"
	"math/rand"
	"sort"
	"strings"
	"sync"
	"testing/synctest"
	"time"

	"github.com/fabiolb/fabio/internal/zzverif/simhook"
)

// ---------------------------------------------------------------- tape

// Tape is a sequence of choices. In generate mode values come from the PRNG
// and are recorded; in replay mode they come from the recorded values (0 once
// the tape is exhausted). The values actually used are kept in Used so that a
// replayed (possibly shrunk) tape is normalised.
type Tape struct {
	rng    *rand.Rand
	replay bool
	in     []uint32
	pos    int
	Used   []uint32
}

func NewTape(seed int64) *Tape { return &Tape{rng: rand.New(rand.NewSource(seed))} }
func ReplayTape(v []uint32) *Tape {
	return &Tape{replay: true, in: v}
}

// Intn draws a value in [0,n).
func (t *Tape) Intn(n int) int {
	if n <= 1 {
		return 0
	}
	var v uint32
	if t.replay {
		if t.pos < len(t.in) {
			v = t.in[t.pos] % uint32(n)
		}
		t.pos++
	} else {
		v = uint32(t.rng.Intn(n))
	}
	t.Used = append(t.Used, v)
	return int(v)
}

func (t *Tape) Bool() bool          { return t.Intn(2) == 1 }
func (t *Tape) Chance(pct int) bool { return t.Intn(100) >= 100-pct } // value 0 => false: shrinks towards "no"
func (t *Tape) Range(lo, hi int) int { // inclusive
	if hi <= lo {
		return lo
	}
	return lo + t.Intn(hi-lo+1)
}
func Pick[T any](t *Tape, xs []T) T { return xs[t.Intn(len(xs))] }

// Bytes returns n pseudo-random bytes derived from ONE draw (so that payloads do not bloat the tape).
func (t *Tape) Bytes(n int) []byte {
	seed := t.Intn(1 << 30)
	r := rand.New(rand.NewSource(int64(seed)))
	b := make([]byte, n)
	r.Read(b)
	return b
}

// ---------------------------------------------------------------- run record

type Violation struct {
	Class string `json:"class"`
	Sig   string `json:"sig"`
	Msg   string `json:"msg"`
	Step  int    `json:"step"`
}

type Spec struct {
	Prop    string            `json:"prop"`
	Harness string            `json:"harness"`
	Tier    string            `json:"tier"`
	Seed    int64             `json:"seed"`
	Gen     []uint32          `json:"gen,omitempty"`   // replay: scenario tape
	Sched   []uint32          `json:"sched,omitempty"` // replay: schedule tape
	Replay  bool              `json:"replay,omitempty"`
	Params  map[string]string `json:"params,omitempty"`
	Verbose bool              `json:"verbose,omitempty"`
}

type Result struct {
	Spec       Spec           `json:"spec"`
	Violations []Violation    `json:"violations,omitempty"`
	TraceHash  string         `json:"trace_hash"`
	Nontrivial bool           `json:"nontrivial"`
	StateHash  []string       `json:"state_hashes,omitempty"`
	Steps      int            `json:"steps"`
	SimNanos   int64          `json:"sim_ns"`
	WallNanos  int64          `json:"wall_ns"`
	Faults     map[string]int `json:"faults,omitempty"`
	Probes     map[string]int `json:"probes,omitempty"`
	Sample     any            `json:"sample,omitempty"`
	Leaked     bool           `json:"leaked,omitempty"`
	Trouble    string         `json:"trouble,omitempty"` // harness trouble (exit 2), never a violation
	GenUsed    []uint32       `json:"gen_used,omitempty"`
	SchedUsed  []uint32       `json:"sched_used,omitempty"`
	Log        []string       `json:"log,omitempty"`
}

type Run struct {
	Spec  Spec
	Gen   *Tape
	Sched *Tape

	res      *Result
	hash     uint64
	start    time.Time
	states   map[string]bool
	logAll   bool
	lastLog  []string
	MaxSteps int
}

func fnvMix(h uint64, s string) uint64 {
	f := fnv.New64a()
	var b [8]byte
	for i := 0; i < 8; i++ {
		b[i] = byte(h >> (8 * i))
	}
	f.Write(b[:])
	f.Write([]byte(s))
	return f.Sum64()
}

func (r *Run) Thorough() bool { return r.Spec.Tier == "thorough" }
func (r *Run) Param(k string) string {
	return r.Spec.Params[k]
}

// Fail records a violation of the property; the run continues.
func (r *Run) Fail(class, sig, format string, a ...any) {
	msg := fmt.Sprintf(format, a...)
	for _, v := range r.res.Violations {
		if v.Class == class && v.Sig == sig {
			return
		}
	}
	r.res.Violations = append(r.res.Violations, Violation{Class: class, Sig: sig, Msg: msg, Step: r.res.Steps})
	r.Tracef("VIOLATION %s %s", class, sig)
}

func (r *Run) Failed() bool { return len(r.res.Violations) > 0 }

// Trouble records a harness problem (never reported as a violation).
func (r *Run) Trouble(format string, a ...any) {
	if r.res.Trouble == "" {
		r.res.Trouble = fmt.Sprintf(format, a...)
	}
}

func (r *Run) Fault(kind string) {
	if r.res.Faults == nil {
		r.res.Faults = map[string]int{}
	}
	r.res.Faults[kind]++
}

func (r *Run) Probe(name string) {
	if r.res.Probes == nil {
		r.res.Probes = map[string]int{}
	}
	r.res.Probes[name]++
}

func (r *Run) ProbeN(name string, n int) {
	if n == 0 {
		return
	}
	if r.res.Probes == nil {
		r.res.Probes = map[string]int{}
	}
	r.res.Probes[name] += n
}

// Nontrivial marks the run as having reached the property's trigger.
func (r *Run) Nontrivial()     { r.res.Nontrivial = true }
func (r *Run) SetSample(s any) { r.res.Sample = s }

// Tracef appends a line to the semantic trace (hashed; kept verbatim for replays).
func (r *Run) Tracef(format string, a ...any) {
	s := fmt.Sprintf(format, a...)
	r.hash = fnvMix(r.hash, s)
	line := fmt.Sprintf("%4d t=%s %s", r.res.Steps, r.Now().Format("15:04:05.000000"), s)
	if r.logAll {
		r.res.Log = append(r.res.Log, line)
	} else {
		r.lastLog = append(r.lastLog, line)
		if len(r.lastLog) > 400 {
			r.lastLog = r.lastLog[200:]
		}
	}
}

// State records an abstract state hash reached at quiescence.
func (r *Run) State(s string) {
	if r.states == nil {
		r.states = map[string]bool{}
	}
	r.states[fmt.Sprintf("%016x", fnvMix(0, s))] = true
}

func (r *Run) Now() time.Time { return time.Now() }

// Ctx is the context of harness-side operations (never cancelled).
func (r *Run) Ctx() context.Context { return context.Background() }
func (r *Run) SimElapsed() time.Duration {
	return time.Since(r.start)
}

// ---------------------------------------------------------------- driver

type Event struct {
	Key    string
	Weight int // default 1
	Fire   func()
}

type Source func() []Event

type Driver struct {
	R       *Run
	Sim     *simhook.Sim
	Sources []Source
	// Stick is the weight given to continuing the task released last (>=1).
	Stick    int
	lastTask string
	// Invariant, if set, is evaluated at every quiescent state.
	Invariant func()
	// TraceTasks adds task releases to the semantic trace.
	TraceTasks bool

	hmu      sync.Mutex
	hints    []time.Time
	idleStep time.Duration
}

func NewDriver(r *Run) *Driver {
	s := &simhook.Sim{Seed: r.Spec.Seed}
	d := &Driver{R: r, Sim: s, Stick: 1, TraceTasks: true}
	s.OnPanic = func(task string, v any, stack []byte) {
		top := TopFabioFrame(stack)
		r.Fail("panic", top, "task %s panicked: %v\n%s", task, v, trimStack(stack))
	}
	s.DriverG = simhook.Goid()
	s.Quiesce = synctest.Wait
	s.StepTask = func(t *simhook.Task) {
		d.R.Tracef("run %s @%s (holds a lock the driver needs)", t.Name, t.SiteName())
		d.R.res.Steps++
		s.Release(t)
		synctest.Wait()
	}
	simhook.Start(s)
	return d
}

// TopFabioFrame returns the first frame of a stack that lies in fabio code proper
// (not the simulator, not injected harness files).
func TopFabioFrame(stack []byte) string {
	lines := strings.Split(string(stack), "\n")
	for i := 0; i+1 < len(lines); i++ {
		fn := strings.TrimSpace(lines[i])
		if !strings.HasPrefix(fn, "github.com/fabiolb/fabio") {
			continue
		}
		if strings.Contains(fn, "/internal/zzverif/") {
			continue
		}
		loc := strings.TrimSpace(lines[i+1])
		if strings.Contains(loc, "zz_verif_") {
			continue
		}
		if j := strings.Index(fn, "("); j > 0 {
			// strip arguments, keep receiver/function
			if k := strings.LastIndex(fn, "("); k > 0 {
				fn = fn[:k]
			}
		}
		fn = strings.TrimPrefix(fn, "github.com/fabiolb/fabio")
		fn = strings.TrimPrefix(fn, "/")
		return fn
	}
	return "unknown"
}

func trimStack(st []byte) string {
	s := string(st)
	if len(s) > 3000 {
		s = s[:3000] + "..."
	}
	return s
}

func (d *Driver) AddSource(s Source) { d.Sources = append(d.Sources, s) }

// TaskEvents is the source of "release task X" events.
func (d *Driver) taskEvents() []Event {
	var ev []Event
	for _, t := range d.Sim.Enabled() {
		t := t
		w := 1
		if t.Name == d.lastTask {
			w = d.Stick
		}
		ev = append(ev, Event{Key: "task:" + t.Name, Weight: w, Fire: func() {
			if d.TraceTasks {
				d.R.Tracef("run %s @%s", t.Name, t.SiteName())
			}
			d.lastTask = t.Name
			d.Sim.Release(t)
		}})
	}
	return ev
}

// Events gathers the enabled events at the current quiescent state.
func (d *Driver) Events() []Event {
	ev := d.taskEvents()
	for _, s := range d.Sources {
		ev = append(ev, s()...)
	}
	sort.SliceStable(ev, func(i, j int) bool {
		// the task released last sorts first so that choice 0 means "no context switch"
		li, lj := ev[i].Key == "task:"+d.lastTask, ev[j].Key == "task:"+d.lastTask
		if li != lj {
			return li
		}
		return ev[i].Key < ev[j].Key
	})
	return ev
}

// Step waits for quiescence, evaluates the invariant and fires one enabled
// event chosen by the schedule tape. It returns false when nothing is enabled.
func (d *Driver) Step() bool {
	synctest.Wait()
	if d.Invariant != nil {
		d.Invariant()
	}
	ev := d.Events()
	if len(ev) == 0 {
		return false
	}
	total := 0
	for i := range ev {
		if ev[i].Weight <= 0 {
			ev[i].Weight = 1
		}
		total += ev[i].Weight
	}
	x := d.R.Sched.Intn(total)
	for i := range ev {
		if x < ev[i].Weight {
			d.R.res.Steps++
			d.idleStep = 0
			ev[i].Fire()
			return true
		}
		x -= ev[i].Weight
	}
	panic("unreachable")
}

// Run steps until done() holds at a quiescent state, nothing is enabled, or the step budget is exhausted.
// It reports whether done() held.
func (d *Driver) Run(maxSteps int, done func() bool) bool {
	for i := 0; i < maxSteps; i++ {
		synctest.Wait()
		if done != nil && done() {
			return true
		}
		if !d.Step() {
			synctest.Wait()
			return done != nil && done()
		}
	}
	synctest.Wait()
	return done != nil && done()
}

// Advance moves the simulated clock by dt (timers that fall into the interval fire in order).
func (d *Driver) Advance(dt time.Duration) {
	d.R.Tracef("clock +%s", dt)
	time.Sleep(dt)
	synctest.Wait()
}

// RunTasks releases enabled tasks (and nothing else: no other event source is consulted), each chosen by the
// schedule tape, until no task stands at a statement any more or max steps were made.
func (d *Driver) RunTasks(max int) {
	src := d.Sources
	d.Sources = nil
	defer func() { d.Sources = src }()
	for i := 0; i < max && d.Step(); i++ {
	}
	synctest.Wait()
}

// AdvanceRunningTasks moves the simulated clock by dt in slices and lets every task that becomes enabled on the
// way (a timer fired, a sleep ended) run on until it blocks again, so that no simulated time passes while a task
// stands at a statement of fabio code.
func (d *Driver) AdvanceRunningTasks(dt, slice time.Duration) {
	d.R.Tracef("clock +%s (tasks run on)", dt)
	end := time.Now().Add(dt)
	for {
		d.RunTasks(5000)
		rem := time.Until(end)
		if rem <= 0 {
			return
		}
		if rem > slice {
			rem = slice
		}
		time.Sleep(rem)
		synctest.Wait()
	}
}

// Hint tells the driver that something scheduled by the harness (a scripted
// delay, a configured timeout) is due at t, so that an idle driver can move the
// clock to exactly that instant.
func (d *Driver) Hint(t time.Time) {
	d.hmu.Lock()
	d.hints = append(d.hints, t)
	d.hmu.Unlock()
}

// IdleAdvance is called when nothing is enabled: it moves the clock to the
// earliest hinted instant in the future or, without one, by a step that doubles
// from 1ms while the system stays idle. It returns false once the run has
// consumed more than horizon of simulated time.
func (d *Driver) IdleAdvance(horizon time.Duration) bool {
	if d.R.SimElapsed() > horizon {
		return false
	}
	now := time.Now()
	var next time.Time
	d.hmu.Lock()
	keep := d.hints[:0]
	for _, h := range d.hints {
		if h.After(now) {
			keep = append(keep, h)
			if next.IsZero() || h.Before(next) {
				next = h
			}
		}
	}
	d.hints = keep
	d.hmu.Unlock()
	var dt time.Duration
	if !next.IsZero() {
		dt = next.Sub(now)
		d.idleStep = 0
	} else {
		if d.idleStep == 0 {
			d.idleStep = time.Millisecond
		} else if d.idleStep < 10*time.Minute {
			d.idleStep *= 2
		}
		dt = d.idleStep
	}
	d.R.Tracef("idle clock +%s", dt)
	time.Sleep(dt)
	synctest.Wait()
	return true
}

// ResetIdle restarts the doubling of idle steps (call after activity).
func (d *Driver) ResetIdle() { d.idleStep = 0 }

// ClockSource offers "advance the clock by one of the given steps" as an event.
func (d *Driver) ClockSource(weight int, steps ...time.Duration) Source {
	return func() []Event {
		return []Event{{Key: "zclock", Weight: weight, Fire: func() {
			dt := steps[d.R.Sched.Intn(len(steps))]
			d.R.Tracef("clock +%s", dt)
			time.Sleep(dt)
		}}}
	}
}

// Finish tears the task layer down. Harnesses close their networks first.
func (d *Driver) Finish() {
	d.Sim.Stop()
	synctest.Wait()
	// tasks asleep on the simulated clock exit at their first statement after waking up
	for i, dt := 0, time.Second; i < 24 && d.Sim.Pending() > 0; i, dt = i+1, dt*2 {
		time.Sleep(dt)
		synctest.Wait()
	}
	d.R.ProbeN("yields", int(d.Sim.Yields.Load()))
	d.R.ProbeN("lock_blocks", int(d.Sim.LockBlocks.Load()))
	d.R.ProbeN("pool_reuse", int(d.Sim.PoolReuse.Load()))
	simhook.Detach()
}

// ---------------------------------------------------------------- executing one run

type Harness struct {
	Name string
	// Props lists the properties this harness serves.
	Props []string
	Run   func(r *Run)
}

// Exec executes one run of h inside a fresh bubble.
func Exec(t TestingT, h *Harness, spec Spec) *Result {
	res := &Result{Spec: spec}
	r := &Run{Spec: spec, res: res, logAll: spec.Verbose || spec.Replay}
	if spec.Replay {
		r.Gen = ReplayTape(spec.Gen)
		r.Sched = ReplayTape(spec.Sched)
	} else {
		r.Gen = NewTape(spec.Seed*2 + 1)
		r.Sched = NewTape(spec.Seed*2 + 2)
	}
	wall := time.Now()
	runBubble(t, func() {
		r.start = time.Now()
		defer func() {
			if p := recover(); p != nil {
				if ab, ok := p.(abortRun); ok {
					_ = ab
				} else {
					r.Trouble("harness panic: %v", p)
				}
			}
			res.SimNanos = int64(time.Since(r.start))
			if s := simhook.Live(); s != nil {
				s.Stop()
				simhook.Detach()
			}
		}()
		h.Run(r)
	}, res)
	res.WallNanos = int64(time.Since(wall))
	res.TraceHash = fmt.Sprintf("%016x", r.hash)
	for k := range r.states {
		res.StateHash = append(res.StateHash, k)
	}
	sort.Strings(res.StateHash)
	res.GenUsed = r.Gen.Used
	res.SchedUsed = r.Sched.Used
	if len(res.Violations) > 0 && !r.logAll {
		res.Log = r.lastLog
	}
	return res
}

type abortRun struct{}

// Abort ends the run immediately (used after a violation that makes continuing pointless).
func (r *Run) Abort() { panic(abortRun{}) }

// MarshalResult renders one result as a JSON line.
func MarshalResult(res *Result) []byte {
	b, err := json.Marshal(res)
	if err != nil {
		b, _ = json.Marshal(map[string]string{"trouble": "marshal: " + err.Error()})
	}
	return b
}

package simcore

import (
	"bufio"
	"encoding/json"
	"fmt"
	"io"
	"log"
	"os"
	"path/filepath"
	"regexp"
	"runtime"
	"strings"
	"testing"
	"testing/synctest"
	"time"
)

type TestingT = *testing.T

// runBubble runs f as the root goroutine of a fresh synctest bubble. A bubble
// that ends with blocked goroutines is counted (Leaked), not treated as a failure.
func runBubble(t *testing.T, f func(), res *Result) {
	defer func() {
		if p := recover(); p != nil {
			s := fmt.Sprint(p)
			if strings.Contains(s, "deadlock") || strings.Contains(s, "blocked goroutines") {
				res.Leaked = true
				if os.Getenv("VERIF_DEBUG_LEAK") != "" {
					buf := make([]byte, 1<<20)
					buf = buf[:runtime.Stack(buf, true)]
					fmt.Fprintf(os.Stderr, "LEAK seed=%d: %s\n%s\n", res.Spec.Seed, s, buf)
				}
				return
			}
			if res.Trouble == "" {
				res.Trouble = "bubble panic: " + s
			}
		}
	}()
	synctest.Test(t, func(*testing.T) { f() })
}

type Known struct {
	Property string `json:"property"`
	Class    string `json:"class"`
	Sig      string `json:"sig"` // regular expression, anchored
	What     string `json:"what"`
	re       *regexp.Regexp
}

func (k *Known) Match(prop string, v Violation) bool {
	if k.Property != prop || k.Class != v.Class {
		return false
	}
	if k.re == nil {
		k.re = regexp.MustCompile("^(?:" + k.Sig + ")$")
	}
	return k.re.MatchString(v.Sig)
}

type Job struct {
	Harness   string            `json:"harness"`
	Prop      string            `json:"prop"`
	Tier      string            `json:"tier"`
	SeedStart int64             `json:"seed_start"`
	SeedCount int64             `json:"seed_count"`
	SeedStep  int64             `json:"seed_step"`
	BudgetS   float64           `json:"budget_s"`
	MaxRuns   int               `json:"max_runs"` // recycle the process after this many runs
	Out       string            `json:"out"`
	Known     []Known           `json:"known"`
	ReplayDir string            `json:"replay_dir"`
	Replay    string            `json:"replay"` // replay file to execute instead of a seed range
	Params    map[string]string `json:"params"`
	Verbose   bool              `json:"verbose"`
	Samples   int               `json:"samples"`
	Seeds     []int64           `json:"seeds"` // explicit seeds (determinism recheck)
}

type ReplayFile struct {
	Property string    `json:"property"`
	Spec     Spec      `json:"spec"`
	Expect   Violation `json:"expect"`
	Shrunk   bool      `json:"shrunk"`
	Attempts int       `json:"shrink_attempts"`
	Sample   any       `json:"scenario,omitempty"`
	Log      []string  `json:"trace,omitempty"`
	Note     string    `json:"note,omitempty"`
}

type outLine struct {
	*Result
	ReplayPath string `json:"replay_path,omitempty"`
	Done       bool   `json:"done,omitempty"`
	Runs       int    `json:"runs,omitempty"`
}

// WorkerMain is called from the injected test function of each harness package.
func WorkerMain(t *testing.T, harnesses []*Harness) {
	path := os.Getenv("VERIF_JOB")
	if path == "" {
		t.Skip("VERIF_JOB not set")
	}
	b, err := os.ReadFile(path)
	if err != nil {
		t.Fatalf("job: %v", err)
	}
	var job Job
	if err := json.Unmarshal(b, &job); err != nil {
		t.Fatalf("job: %v", err)
	}
	var h *Harness
	for _, x := range harnesses {
		if x.Name == job.Harness {
			h = x
		}
	}
	if h == nil {
		t.Fatalf("unknown harness %q", job.Harness)
	}
	if os.Getenv("VERIF_LOG") == "" {
		log.SetOutput(io.Discard)
	}
	out, err := os.OpenFile(job.Out, os.O_CREATE|os.O_WRONLY|os.O_APPEND, 0o644)
	if err != nil {
		t.Fatalf("out: %v", err)
	}
	defer out.Close()
	w := bufio.NewWriter(out)
	defer w.Flush()
	emit := func(l outLine) {
		b, _ := json.Marshal(l)
		w.Write(b)
		w.WriteByte('\n')
		w.Flush()
	}

	if job.Replay != "" {
		var rf ReplayFile
		rb, err := os.ReadFile(job.Replay)
		if err != nil {
			t.Fatalf("replay: %v", err)
		}
		if err := json.Unmarshal(rb, &rf); err != nil {
			t.Fatalf("replay: %v", err)
		}
		spec := rf.Spec
		spec.Verbose = true
		res := Exec(t, h, spec)
		emit(outLine{Result: res})
		emit(outLine{Done: true, Runs: 1})
		return
	}

	deadline := time.Now().Add(time.Duration(job.BudgetS * float64(time.Second)))
	runs, shrunk := 0, 0
	seen := map[string]bool{}
	step := job.SeedStep
	if step == 0 {
		step = 1
	}
	seeds := job.Seeds
	for i := int64(0); len(job.Seeds) == 0 && i < job.SeedCount; i++ {
		seeds = append(seeds, job.SeedStart+i*step)
	}
	for _, seed := range seeds {
		if job.BudgetS > 0 && time.Now().After(deadline) {
			break
		}
		if job.MaxRuns > 0 && runs >= job.MaxRuns {
			break
		}
		spec := Spec{Prop: job.Prop, Harness: job.Harness, Tier: job.Tier, Seed: seed, Params: job.Params, Verbose: job.Verbose}
		// per-run wall-clock watchdog (a real timer outside the bubble): a run that hangs is harness trouble;
		// the stacks tell where
		wd := time.AfterFunc(90*time.Second, func() {
			buf := make([]byte, 1<<21)
			buf = buf[:runtime.Stack(buf, true)]
			fmt.Fprintf(os.Stderr, "RUN-WATCHDOG harness=%s seed=%d: run exceeded 90s of wall time\n%s\n", job.Harness, seed, buf)
			os.Exit(3)
		})
		res := Exec(t, h, spec)
		wd.Stop()
		runs++
		line := outLine{Result: res}
		var unknown *Violation
		emitted := false
		for i := range res.Violations {
			v := res.Violations[i]
			known := false
			for k := range job.Known {
				if job.Known[k].Match(job.Prop, v) {
					known = true
				}
			}
			if !known && unknown == nil {
				unknown = &res.Violations[i]
			}
		}
		if unknown != nil && job.ReplayDir != "" {
			key := unknown.Class + "|" + unknown.Sig
			if !seen[key] && shrunk < 2 {
				seen[key] = true
				shrunk++
				// the un-shrunk replay file and the result line are written before shrinking: an execution that hangs
				// in real time during shrinking (SHRINK-WATCHDOG) then still leaves a violation with a replay file behind
				os.MkdirAll(job.ReplayDir, 0o755)
				p := filepath.Join(job.ReplayDir, fmt.Sprintf("%s-%s-%d.json", job.Prop, job.Harness, seed))
				pre := &ReplayFile{Property: job.Prop, Spec: res.Spec, Expect: *unknown, Note: "not shrunk; replay by seed"}
				rb, _ := json.MarshalIndent(pre, "", " ")
				os.WriteFile(p, rb, 0o644)
				line.ReplayPath = p
				emit(line)
				emitted = true
				rf := Shrink(t, h, res, *unknown, 40*time.Second, 600)
				rb, _ = json.MarshalIndent(rf, "", " ")
				os.WriteFile(p, rb, 0o644)
			}
		}
		if len(res.Violations) == 0 {
			res.GenUsed, res.SchedUsed = nil, nil
			if runs > job.Samples {
				res.Sample = nil
			}
		}
		if !emitted {
			emit(line)
		}
	}
	emit(outLine{Done: true, Runs: runs})
}

func hasViolation(res *Result, v Violation) bool {
	for _, x := range res.Violations {
		if x.Class == v.Class && x.Sig == v.Sig {
			return true
		}
	}
	return false
}

func trimZeros(v []uint32) []uint32 {
	n := len(v)
	for n > 0 && v[n-1] == 0 {
		n--
	}
	return append([]uint32(nil), v[:n]...)
}

// Shrink minimises the scenario tape, then the schedule tape, of a failing run
// while the same violation (class and signature) recurs.
func Shrink(t *testing.T, h *Harness, failing *Result, target Violation, budget time.Duration, maxAttempts int) *ReplayFile {
	spec := failing.Spec
	spec.Replay = true
	spec.Verbose = false
	spec.Gen = trimZeros(failing.GenUsed)
	spec.Sched = trimZeros(failing.SchedUsed)
	deadline := time.Now().Add(budget)
	attempts := 0
	best := failing
	ok := true

	// confirm that the replayed tapes reproduce at all
	try := func(gen, sched []uint32) bool {
		if attempts >= maxAttempts || time.Now().After(deadline) {
			return false
		}
		attempts++
		s := spec
		s.Gen, s.Sched = gen, sched
		wd := time.AfterFunc(60*time.Second, func() {
			fmt.Fprintf(os.Stderr, "SHRINK-WATCHDOG harness=%s seed=%d: a shrinking execution exceeded 60s of wall time; the un-shrunk replay file stands\n", spec.Harness, spec.Seed)
			os.Exit(3)
		})
		res := Exec(t, h, s)
		wd.Stop()
		if res.Trouble == "" && hasViolation(res, target) {
			spec.Gen = trimZeros(res.GenUsed)
			spec.Sched = trimZeros(res.SchedUsed)
			best = res
			return true
		}
		return false
	}
	if !try(spec.Gen, spec.Sched) {
		ok = false
	}
	if ok {
		// plainest schedule first
		try(spec.Gen, nil)
		shrinkTape := func(get func() []uint32, with func(v []uint32) bool) {
			// delete chunks
			for size := len(get()) / 2; size >= 1; size /= 2 {
				for i := 0; i+size <= len(get()); {
					cur := get()
					cand := append(append([]uint32(nil), cur[:i]...), cur[i+size:]...)
					if !with(cand) {
						i += size
					}
					if attempts >= maxAttempts || time.Now().After(deadline) {
						return
					}
				}
			}
			// zero, then halve, single values
			for i := 0; i < len(get()); i++ {
				cur := get()
				if i >= len(cur) || cur[i] == 0 {
					continue
				}
				cand := append([]uint32(nil), cur...)
				cand[i] = 0
				if with(cand) {
					continue
				}
				for cur = get(); i < len(cur) && cur[i] > 1; cur = get() {
					cand = append([]uint32(nil), cur...)
					cand[i] = cur[i] / 2
					if !with(cand) {
						break
					}
				}
				if attempts >= maxAttempts || time.Now().After(deadline) {
					return
				}
			}
		}
		// scenario: for each candidate try the current schedule and the plain one
		shrinkTape(func() []uint32 { return spec.Gen }, func(v []uint32) bool {
			return try(v, spec.Sched) || (len(spec.Sched) > 0 && try(v, nil))
		})
		// schedule: truncate the tail (binary search), then chunks/values
		for cut := len(spec.Sched) / 2; cut >= 1; cut /= 2 {
			for len(spec.Sched) >= cut && try(spec.Gen, spec.Sched[:len(spec.Sched)-cut]) {
			}
		}
		shrinkTape(func() []uint32 { return spec.Sched }, func(v []uint32) bool { return try(spec.Gen, v) })
	}
	// final verbose execution of the minimal spec for the trace
	fs := spec
	fs.Verbose = true
	fwd := time.AfterFunc(60*time.Second, func() {
		fmt.Fprintf(os.Stderr, "SHRINK-WATCHDOG harness=%s seed=%d: the final execution exceeded 60s of wall time; the un-shrunk replay file stands\n", spec.Harness, spec.Seed)
		os.Exit(3)
	})
	final := Exec(t, h, fs)
	fwd.Stop()
	if !hasViolation(final, target) {
		final = best
	}
	exp := target
	for _, v := range final.Violations {
		if v.Class == target.Class && v.Sig == target.Sig {
			exp = v
		}
	}
	rf := &ReplayFile{Property: spec.Prop, Spec: spec, Expect: exp, Shrunk: ok, Attempts: attempts, Sample: final.Sample, Log: final.Log}
	if !ok {
		rf.Note = "the recorded tapes did not reproduce in-process; replay by seed"
		rf.Spec = failing.Spec
	}
	if len(rf.Log) > 300 {
		rf.Log = rf.Log[len(rf.Log)-300:]
	}
	return rf
}

// Package simhook is the seam between instrumented fabio code and the
// deterministic simulator. Every function here falls through to the real
// behaviour when no simulation is live (cur == nil), so an instrumented
// build behaves like the shipped one outside a simulation.
package simhook

import (
	"bytes"
	"cmp"
	"context"
	"crypto/tls"
	"errors"
	"fmt"
	"hash/fnv"
	"math/rand"
	"net"
	"net/http"
	"os"
	"path/filepath"
	"runtime"
	"runtime/debug"
	"slices"
	"sort"
	"strconv"
	"strings"
	"sync"
	"sync/atomic"
	"time"
)

type SiteInfo struct{ Pkg, Func, Pos string }

// Sites is filled by the generated zz_sites.go.
var Sites []SiteInfo

type taskState int

const (
	stParked taskState = iota // waiting on wake (at start, at a yield, or blocked on a simulated lock)
	stRunning
	stDone
)

type Task struct {
	Name      string
	wake      chan struct{}
	state     taskState
	Site      int // last yield site (-1 at start)
	blockedOn any // simulated lock the task waits for
	wantRead  bool
	afterStop int
	kids      int
	locks     int         // simulated locks held
	tdLocks   map[any]int // locks taken after Stop (not simulated any more, but counted: see Yield)
	rng       *rand.Rand
	Steps     int
	sim       *Sim
}

type lockState struct {
	writer  *Task
	readers map[*Task]int
}

// FS is the simulated disk seen by cert/load.go and auth/basic.go.
type FS interface {
	Walk(root string, fn filepath.WalkFunc) error
	ReadFile(path string) ([]byte, error)
	Stat(path string) (os.FileInfo, error)
}

type Sim struct {
	Seed int64

	// Dial, when set, replaces every outgoing connection attempt of fabio code.
	Dial func(ctx context.Context, network, addr string, timeout, keepAlive time.Duration) (net.Conn, error)
	// Listen, when set, replaces net.Listen in fabio code.
	Listen  func(network, addr string) (net.Listener, error)
	FS      FS
	HTTPGet func(url string) (*http.Response, error)
	// OnPanic receives panics that escape a task.
	OnPanic func(task string, v any, stack []byte)
	// OnSpawn is told about every new task (for traces).
	OnSpawn func(name string)
	// StopBudget, when > 0, replaces the default number of statements (stopBudget) a task may
	// still execute after Stop (harnesses with an endless fabio loop as a task lower it).
	StopBudget int
	// DriverG is the goroutine of the driver and StepTask lets it run one task up to its next yield (both set by
	// the driver): a lock the driver itself needs (a harness observing fabio state through fabio's own accessors)
	// while a parked task holds it is obtained by letting that task run on until it gives the lock up.
	DriverG  uint64
	StepTask func(t *Task)
	Quiesce  func() // waits until every goroutine of the bubble is durably blocked (set by the driver)

	defTr    *http.Transport
	relc     chan struct{} // closed at the next release of a simulated lock (wakes non-task waiters)
	mu       sync.Mutex
	byG      map[uint64]*Task
	tasks    []*Task
	active   []bool
	locks    map[any]*lockState
	pools    map[*sync.Pool][]any
	stopping atomic.Bool
	observed map[string][]any

	// counters
	Yields     atomic.Int64
	LockBlocks atomic.Int64
	PoolReuse  atomic.Int64
}

// stopBudget is the number of statements a task may still execute after Stop.
const stopBudget = 3000

var cur atomic.Pointer[Sim]

// Start makes s the live simulation.
func Start(s *Sim) {
	s.byG = map[uint64]*Task{}
	s.locks = map[any]*lockState{}
	s.pools = map[*sync.Pool][]any{}
	s.active = make([]bool, len(Sites))
	cur.Store(s)
}

// Live returns the live simulation or nil.
func Live() *Sim { return cur.Load() }

// Activate enables the yield sites whose "pkg.Func" matches one of the
// patterns. A pattern is "<pkgpath-suffix>" (all functions of the package),
// or "<pkgpath-suffix>:<FuncPrefix>"; a leading '-' deactivates.
func (s *Sim) Activate(patterns ...string) int {
	n := 0
	for _, p := range patterns {
		on := true
		if strings.HasPrefix(p, "-") {
			on = false
			p = p[1:]
		}
		pkg, fn, _ := strings.Cut(p, ":")
		for i, si := range Sites {
			if !pkgMatch(si.Pkg, pkg) {
				continue
			}
			if fn != "" && !strings.HasPrefix(si.Func, fn) {
				continue
			}
			s.active[i] = on
			if on {
				n++
			}
		}
	}
	return n
}

func pkgMatch(full, suffix string) bool {
	if suffix == "" || suffix == "main" {
		return full == "github.com/fabiolb/fabio"
	}
	return full == suffix || strings.HasSuffix(full, "/"+suffix)
}

func goid() uint64 {
	var b [64]byte
	n := runtime.Stack(b[:], false)
	// "goroutine 123 ["
	f := b[len("goroutine "):n]
	i := bytes.IndexByte(f, ' ')
	id, _ := strconv.ParseUint(string(f[:i]), 10, 64)
	return id
}

func (s *Sim) current() *Task {
	g := goid()
	s.mu.Lock()
	t := s.byG[g]
	s.mu.Unlock()
	return t
}

// CurrentTask returns the name of the calling task ("" if the caller is not a task).
func CurrentTask() string {
	s := cur.Load()
	if s == nil {
		return ""
	}
	if t := s.current(); t != nil {
		return t.Name
	}
	return ""
}

func (s *Sim) newTask(name string) *Task {
	h := fnv.New64a()
	h.Write([]byte(name))
	t := &Task{Name: name, wake: make(chan struct{}), state: stParked, Site: -1, sim: s,
		rng: rand.New(rand.NewSource(s.Seed ^ int64(h.Sum64())))}
	s.tasks = append(s.tasks, t)
	return t
}

// park blocks the calling task until the driver releases it.
func (t *Task) park() {
	<-t.wake
}

func (s *Sim) finish(t *Task) {
	if r := recover(); r != nil {
		st := debug.Stack()
		if s.OnPanic != nil {
			s.OnPanic(t.Name, r, st)
		}
	}
	s.mu.Lock()
	t.state = stDone
	// a task that ends while holding a simulated lock has leaked it: it stays held, exactly as the real lock does
	for g, x := range s.byG {
		if x == t {
			delete(s.byG, g)
		}
	}
	s.mu.Unlock()
}

// Spawn creates a task running f; it starts parked and runs only when released.
func (s *Sim) Spawn(name string, f func()) *Task {
	s.mu.Lock()
	if s.stopping.Load() {
		// nobody would release the task any more: run it as a plain goroutine
		s.mu.Unlock()
		t := &Task{Name: name, wake: make(chan struct{}), state: stDone, Site: -1, sim: s}
		go f()
		return t
	}
	t := s.newTask(name)
	s.mu.Unlock()
	if s.OnSpawn != nil {
		s.OnSpawn(name)
	}
	go func() {
		s.mu.Lock()
		s.byG[goid()] = t
		s.mu.Unlock()
		defer s.finish(t)
		t.park()
		f()
	}()
	return t
}

// Adopt turns the calling goroutine (created by a library) into a task and
// parks it until the driver releases it. The returned function must be
// deferred directly: it records panics and marks the task done.
func Adopt(name string) func() {
	s := cur.Load()
	if s == nil {
		return func() {}
	}
	s.mu.Lock()
	if s.stopping.Load() {
		s.mu.Unlock()
		return func() {}
	}
	t := s.newTask(name)
	s.byG[goid()] = t
	s.mu.Unlock()
	if s.OnSpawn != nil {
		s.OnSpawn(name)
	}
	t.park()
	return func() {
		if r := recover(); r != nil {
			st := debug.Stack()
			if s.OnPanic != nil {
				s.OnPanic(t.Name, r, st)
			}
		}
		s.finish(t)
	}
}

// Enabled returns the tasks the driver may release, sorted by name.
func (s *Sim) Enabled() []*Task {
	s.mu.Lock()
	defer s.mu.Unlock()
	var en []*Task
	for _, t := range s.tasks {
		if t.state != stParked {
			continue
		}
		if t.blockedOn != nil && !s.lockFreeFor(t) {
			continue
		}
		en = append(en, t)
	}
	slices.SortFunc(en, func(a, b *Task) int { return cmp.Compare(a.Name, b.Name) })
	return en
}

// Pending reports how many tasks are not finished (parked, running or blocked in real operations).
func (s *Sim) Pending() int {
	s.mu.Lock()
	defer s.mu.Unlock()
	n := 0
	for _, t := range s.tasks {
		if t.state != stDone {
			n++
		}
	}
	return n
}

// TaskStates describes every unfinished task (for diagnostics).
func (s *Sim) TaskStates() []string {
	s.mu.Lock()
	defer s.mu.Unlock()
	var out []string
	for _, t := range s.tasks {
		if t.state == stDone {
			continue
		}
		st := "running/blocked"
		if t.state == stParked {
			st = "parked"
			if t.blockedOn != nil {
				st = "lock-wait"
			}
		}
		site := ""
		if t.Site >= 0 && t.Site < len(Sites) {
			site = Sites[t.Site].Func + "@" + filepath.Base(Sites[t.Site].Pos)
		}
		out = append(out, t.Name+" "+st+" "+site)
	}
	sort.Strings(out)
	return out
}

// InFunc counts unfinished tasks whose last yield site lies in a function whose
// name starts with funcPrefix in a package matching pkg.
func (s *Sim) InFunc(pkg, funcPrefix string) int {
	s.mu.Lock()
	defer s.mu.Unlock()
	n := 0
	for _, t := range s.tasks {
		if t.state == stDone || t.Site < 0 || t.Site >= len(Sites) {
			continue
		}
		si := Sites[t.Site]
		if pkgMatch(si.Pkg, pkg) && strings.HasPrefix(si.Func, funcPrefix) {
			n++
		}
	}
	return n
}

// Release lets a parked task run until its next yield or blocking operation.
func (s *Sim) Release(t *Task) {
	s.mu.Lock()
	t.state = stRunning
	t.Steps++
	s.mu.Unlock()
	t.wake <- struct{}{}
}

// Parked reports whether the task is waiting for the driver (at a yield, at its start, or for a simulated lock).
func (t *Task) Parked() bool {
	t.sim.mu.Lock()
	defer t.sim.mu.Unlock()
	return t.state == stParked
}

// Done reports whether the task has finished (returned, panicked or was torn down).
func (t *Task) Done() bool {
	t.sim.mu.Lock()
	defer t.sim.mu.Unlock()
	return t.state == stDone
}

// SiteOf returns a printable description of the site a task is parked at.
func (t *Task) SiteName() string {
	if t.Site < 0 || t.Site >= len(Sites) {
		return "start"
	}
	return Sites[t.Site].Func
}

// Stop ends the simulation: parked tasks are released; every task exits at its
// next yield at which it holds no simulated lock.
func (s *Sim) Stop() {
	s.mu.Lock()
	s.stopping.Store(true)
	var parked []*Task
	for _, t := range s.tasks {
		if t.state == stParked {
			t.state = stRunning
			parked = append(parked, t)
		}
	}
	s.mu.Unlock()
	for _, t := range parked {
		t.wake <- struct{}{}
	}
}

// Detach unregisters the simulation (after Stop and the final quiescence).
func Detach() { cur.Store(nil) }

// Yield is called before every statement of instrumented code.
func Yield(site int) {
	s := cur.Load()
	if s == nil {
		return
	}
	if s.stopping.Load() {
		// Teardown: tasks run on freely so that goroutines waiting for them (a handler
		// waiting for its copy loops) can finish; a task that is still executing
		// statements long after the stop is a loop and ends here.
		if t := s.current(); t != nil {
			s.mu.Lock()
			held := t.locks
			t.afterStop++
			n := t.afterStop
			s.mu.Unlock()
			budget := stopBudget
			if s.StopBudget > 0 {
				budget = s.StopBudget
			}
			if held == 0 && n > budget {
				runtime.Goexit()
			}
		}
		return
	}
	if site >= len(s.active) || !s.active[site] {
		return
	}
	t := s.current()
	if t == nil {
		return
	}
	s.mu.Lock()
	if s.stopping.Load() {
		// Stop ran between the check above and here and will not release us any more
		s.mu.Unlock()
		return
	}
	t.state = stParked
	t.Site = site
	s.mu.Unlock()
	s.Yields.Add(1)
	t.park()
}

// Pause is an explicit scheduling point for harness code (e.g. a simulated slow client inside a
// ResponseWriter.Write): the calling task parks until the driver releases it. No-op outside tasks.
func Pause() {
	s := cur.Load()
	if s == nil || s.stopping.Load() {
		return
	}
	t := s.current()
	if t == nil {
		return
	}
	s.mu.Lock()
	if s.stopping.Load() {
		s.mu.Unlock()
		return
	}
	t.state = stParked
	s.mu.Unlock()
	s.Yields.Add(1)
	t.park()
}

// Go starts f as a child task when the caller is a task, otherwise as a plain goroutine.
func Go(f func()) {
	s := cur.Load()
	if s == nil {
		go f()
		return
	}
	p := s.current()
	if p == nil {
		go f()
		return
	}
	s.mu.Lock()
	if s.stopping.Load() {
		s.mu.Unlock()
		go f()
		return
	}
	p.kids++
	name := p.Name + "/" + strconv.Itoa(p.kids)
	s.mu.Unlock()
	s.Spawn(name, f)
}

// MapKeys returns the keys of m sorted and, inside a task, permuted by the task's own PRNG.
func MapKeys[M ~map[K]V, K cmp.Ordered, V any](m M) []K {
	keys := make([]K, 0, len(m))
	for k := range m {
		keys = append(keys, k)
	}
	slices.Sort(keys)
	if s := cur.Load(); s != nil && len(keys) > 1 {
		if t := s.current(); t != nil {
			t.rng.Shuffle(len(keys), func(i, j int) { keys[i], keys[j] = keys[j], keys[i] })
		}
	}
	return keys
}

// RandIntn replaces math/rand.Intn in fabio code.
func RandIntn(n int) int {
	if s := cur.Load(); s != nil {
		if t := s.current(); t != nil {
			return t.rng.Intn(n)
		}
	}
	return rand.Intn(n)
}

func RandSeed(seed int64) { rand.Seed(seed) }

// Observe records v under kind in the live simulation and returns it unchanged.
func Observe[T any](kind string, v T) T {
	if s := cur.Load(); s != nil {
		s.mu.Lock()
		if s.observed == nil {
			s.observed = map[string][]any{}
		}
		s.observed[kind] = append(s.observed[kind], v)
		s.mu.Unlock()
	}
	return v
}

// Observed returns the values recorded under kind, in order of creation.
func (s *Sim) Observed(kind string) []any {
	s.mu.Lock()
	defer s.mu.Unlock()
	return append([]any(nil), s.observed[kind]...)
}

// ---- simulated locks ----

func (s *Sim) lockFreeForLocked(t *Task) bool { return s.lockFreeFor(t) }

func (s *Sim) lockFreeFor(t *Task) bool {
	ls := s.locks[t.blockedOn]
	if ls == nil {
		return true
	}
	if ls.writer != nil {
		return false
	}
	// a reader request is recorded as blockedOn with wantRead
	if t.wantRead {
		return true
	}
	return len(ls.readers) == 0
}

func (s *Sim) acquire(key any, read bool) *Task {
	if s == nil {
		return nil
	}
	t := s.current()
	if t == nil {
		return nil
	}
	for {
		s.mu.Lock()
		if s.stopping.Load() {
			// teardown: locks are real again, but a task that holds one must not be ended at a yield (the lock
			// would stay locked for the rest of the process): count it
			if t.tdLocks == nil {
				t.tdLocks = map[any]int{}
			}
			t.tdLocks[key]++
			t.locks++
			s.mu.Unlock()
			return nil
		}
		ls := s.locks[key]
		if ls == nil {
			ls = &lockState{readers: map[*Task]int{}}
			s.locks[key] = ls
		}
		free := ls.writer == nil && (read || len(ls.readers) == 0)
		if free {
			if read {
				ls.readers[t]++
			} else {
				ls.writer = t
			}
			t.locks++
			t.blockedOn = nil
			s.mu.Unlock()
			return t
		}
		if s.stopping.Load() {
			if t.tdLocks == nil {
				t.tdLocks = map[any]int{}
			}
			t.tdLocks[key]++
			t.locks++
			s.mu.Unlock()
			return nil
		}
		t.blockedOn = key
		t.wantRead = read
		t.state = stParked
		s.mu.Unlock()
		s.LockBlocks.Add(1)
		t.park()
		s.mu.Lock()
		t.blockedOn = nil
		s.mu.Unlock()
	}
}

func (s *Sim) release(key any, read bool) {
	if s == nil {
		return
	}
	t := s.current()
	if t == nil {
		return
	}
	s.mu.Lock()
	if t.tdLocks[key] > 0 {
		t.tdLocks[key]--
		t.locks--
		s.mu.Unlock()
		return
	}
	if ls := s.locks[key]; ls != nil {
		if read {
			if ls.readers[t] > 0 {
				ls.readers[t]--
				if ls.readers[t] == 0 {
					delete(ls.readers, t)
				}
				t.locks--
			}
		} else if ls.writer == t {
			ls.writer = nil
			t.locks--
		}
	}
	if s.relc != nil {
		close(s.relc)
		s.relc = nil
	}
	s.mu.Unlock()
}

// Goid returns the id of the calling goroutine.
func Goid() uint64 { return goid() }

// foreignLock takes a lock for a caller that is not a task (the driver, or a goroutine a library started in an
// event-level run). The real lock may be held by a task that is parked at a yield: blocking on it would not be
// durable (the bubble never gets quiescent) and the holder would never be released. The driver therefore lets
// the holder run on, statement by statement, until the lock is free; any other goroutine waits (durably) for the
// next release of a simulated lock and tries again.
func (s *Sim) foreignLock(key any, try func() bool, lock func()) {
	me := uint64(0)
	stuck := 0
	for i := 0; i < 200000; i++ {
		if try != nil && try() {
			return
		}
		s.mu.Lock()
		if s.stopping.Load() {
			s.mu.Unlock()
			break
		}
		var holder *Task
		if ls := s.locks[key]; ls != nil {
			holder = ls.writer
			for t := range ls.readers {
				if holder == nil || t.Name < holder.Name {
					holder = t
				}
			}
		}
		if holder == nil {
			// held by a goroutine that is not a task: it is running (or blocked in a real operation) and lets go by itself
			s.mu.Unlock()
			break
		}
		if s.relc == nil {
			s.relc = make(chan struct{})
		}
		ch := s.relc
		runnable := holder.state == stParked && (holder.blockedOn == nil || s.lockFreeForLocked(holder))
		s.mu.Unlock()
		if me == 0 {
			me = goid()
		}
		if me == s.DriverG && s.StepTask != nil {
			if !runnable {
				// the holder may simply not have reached its next yield yet (the harness did not wait for quiescence)
				stuck++
				if stuck > 3 || s.Quiesce == nil {
					panic(fmt.Sprintf("simhook: the driver needs a lock held by task %s, which cannot run", holder.Name))
				}
				s.Quiesce()
				continue
			}
			stuck = 0
			s.StepTask(holder)
			continue
		}
		<-ch
	}
	lock()
}

// realLock takes the real lock behind a simulated one. During teardown a lock may have been leaked for good (a
// task returned without unlocking): a task that cannot get it then ends instead of blocking non-durably forever.
func realLock(key any, held *Task, try func() bool, lock func()) {
	s := cur.Load()
	if s != nil && held == nil && !s.stopping.Load() {
		// acquire returns nil only without a simulation, during teardown, or for a caller that is not a task
		s.foreignLock(key, try, lock)
		return
	}
	if s != nil && s.stopping.Load() && s.current() != nil {
		for i := 0; i < 2000; i++ {
			if try() {
				return
			}
			runtime.Gosched()
		}
		runtime.Goexit()
	}
	lock()
}

func MutexLock(m *sync.Mutex)       { realLock(m, cur.Load().acquire(m, false), m.TryLock, m.Lock) }
func MutexUnlock(m *sync.Mutex)     { m.Unlock(); cur.Load().release(m, false) }
func RWMutexLock(m *sync.RWMutex)   { realLock(m, cur.Load().acquire(m, false), m.TryLock, m.Lock) }
func RWMutexUnlock(m *sync.RWMutex) { m.Unlock(); cur.Load().release(m, false) }
func RWMutexRLock(m *sync.RWMutex)  { realLock(m, cur.Load().acquire(m, true), m.TryRLock, m.RLock) }
func RWMutexRUnlock(m *sync.RWMutex) {
	m.RUnlock()
	cur.Load().release(m, true)
}

// OnceDo stands for o.Do(f). The function may reach a yield (in a function it calls) and park while it is inside
// the Once; a second caller would then block on the mutex inside sync.Once, which is not durable. Callers that are
// tasks therefore queue on a simulated lock, and other callers wait until no task is inside.
func OnceDo(o *sync.Once, f func()) {
	s := cur.Load()
	if s == nil {
		o.Do(f)
		return
	}
	if t := s.acquire(o, false); t != nil || s.stopping.Load() {
		// (during teardown acquire only counts the lock for a task caller: release takes the count back)
		defer s.release(o, false)
	} else {
		s.foreignLock(o, nil, func() {})
	}
	o.Do(f)
}

// ---- sync.Pool ----

func PoolGet(p *sync.Pool) any {
	if s := cur.Load(); s != nil {
		if t := s.current(); t != nil {
			s.mu.Lock()
			l := s.pools[p]
			if n := len(l); n > 0 {
				x := l[n-1]
				s.pools[p] = l[:n-1]
				s.mu.Unlock()
				s.PoolReuse.Add(1)
				return x
			}
			s.mu.Unlock()
			if p.New != nil {
				return p.New()
			}
			return nil
		}
	}
	return p.Get()
}

func PoolPut(p *sync.Pool, x any) {
	if s := cur.Load(); s != nil {
		if t := s.current(); t != nil {
			s.mu.Lock()
			s.pools[p] = append(s.pools[p], x)
			s.mu.Unlock()
			return
		}
	}
	p.Put(x)
}

// ---- network and disk shims ----

func NetDial(network, addr string) (net.Conn, error) {
	if s := cur.Load(); s != nil && s.Dial != nil {
		return s.Dial(context.Background(), network, addr, 0, -1)
	}
	return net.Dial(network, addr)
}

func NetDialTimeout(network, addr string, timeout time.Duration) (net.Conn, error) {
	if s := cur.Load(); s != nil && s.Dial != nil {
		return s.Dial(context.Background(), network, addr, timeout, -1)
	}
	return net.DialTimeout(network, addr, timeout)
}

func TLSDial(network, addr string, config *tls.Config) (*tls.Conn, error) {
	return TLSDialWithDialer(nil, network, addr, config)
}

// TLSDialWithDialer stands for tls.DialWithDialer: the connection comes from the simulated network, with the
// dialer's time limit and keep-alive reported to the dial seam; the limit also covers the handshake.
func TLSDialWithDialer(d *net.Dialer, network, addr string, config *tls.Config) (*tls.Conn, error) {
	if s := cur.Load(); s != nil && s.Dial != nil {
		timeout, keepAlive := time.Duration(0), time.Duration(-1)
		if d != nil {
			timeout, keepAlive = effectiveTimeout(context.Background(), d), d.KeepAlive
		}
		start := time.Now()
		raw, err := s.Dial(context.Background(), network, addr, timeout, keepAlive)
		if err != nil {
			return nil, err
		}
		if timeout > 0 {
			raw.SetDeadline(start.Add(timeout))
			defer raw.SetDeadline(time.Time{})
		}
		if config == nil {
			config = &tls.Config{}
		}
		if config.ServerName == "" {
			c := config.Clone()
			host, _, _ := net.SplitHostPort(addr)
			c.ServerName = host
			config = c
		}
		conn := tls.Client(raw, config)
		if err := conn.Handshake(); err != nil {
			raw.Close()
			return nil, err
		}
		return conn, nil
	}
	if d == nil {
		return tls.Dial(network, addr, config)
	}
	return tls.DialWithDialer(d, network, addr, config)
}

// DialerDial replaces the method value (&net.Dialer{...}).Dial.
func DialerDial(d *net.Dialer) func(network, addr string) (net.Conn, error) {
	return func(network, addr string) (net.Conn, error) {
		if s := cur.Load(); s != nil && s.Dial != nil {
			return s.Dial(context.Background(), network, addr, effectiveTimeout(context.Background(), d), d.KeepAlive)
		}
		return d.Dial(network, addr)
	}
}

// effectiveTimeout is the time limit of a dial as net.Dialer defines it: the earliest of Timeout, Deadline and the
// deadline of the context (a dialer that bounds its dials by a context deadline is limited exactly like one that
// sets Timeout). 0 means no limit.
func effectiveTimeout(ctx context.Context, d *net.Dialer) time.Duration {
	limit := d.Timeout
	tighten := func(t time.Time) {
		rem := time.Until(t)
		if rem <= 0 {
			rem = 1
		}
		if limit <= 0 || rem < limit {
			limit = rem
		}
	}
	if !d.Deadline.IsZero() {
		tighten(d.Deadline)
	}
	if dl, ok := ctx.Deadline(); ok {
		tighten(dl)
	}
	return limit
}

// DialerDialContext replaces the method value (&net.Dialer{...}).DialContext.
func DialerDialContext(d *net.Dialer) func(ctx context.Context, network, addr string) (net.Conn, error) {
	return func(ctx context.Context, network, addr string) (net.Conn, error) {
		if s := cur.Load(); s != nil && s.Dial != nil {
			return s.Dial(ctx, network, addr, effectiveTimeout(ctx, d), d.KeepAlive)
		}
		return d.DialContext(ctx, network, addr)
	}
}

// HTTPTransport gives a transport built by fabio code without its own dialer a dialer
// that reaches the simulated network while a simulation is live.
func HTTPTransport(t *http.Transport) *http.Transport {
	if t.DialContext == nil && t.Dial == nil {
		t.DialContext = func(ctx context.Context, network, addr string) (net.Conn, error) {
			if s := cur.Load(); s != nil && s.Dial != nil {
				return s.Dial(ctx, network, addr, 0, -1)
			}
			var d net.Dialer
			return d.DialContext(ctx, network, addr)
		}
	}
	return t
}

// simDefaultTransport stands in for http.DefaultTransport in the worker process: requests that fabio code sends
// through http.DefaultClient, a zero http.Client or http.DefaultTransport itself reach the simulated world (the
// harness's HTTPGet responder for GET requests, the simulated network otherwise) and never a real socket.
type simDefaultTransport struct{ real http.RoundTripper }

func (rt simDefaultTransport) RoundTrip(req *http.Request) (*http.Response, error) {
	s := cur.Load()
	if s == nil {
		return rt.real.RoundTrip(req)
	}
	if s.HTTPGet != nil && req.Method == http.MethodGet {
		if req.Body != nil {
			req.Body.Close()
		}
		resp, err := s.HTTPGet(req.URL.String())
		if resp != nil {
			resp.Request = req
		}
		return resp, err
	}
	if s.Dial != nil {
		s.mu.Lock()
		if s.defTr == nil {
			s.defTr = &http.Transport{DisableKeepAlives: true, DialContext: func(ctx context.Context, network, addr string) (net.Conn, error) {
				return s.Dial(ctx, network, addr, 0, -1)
			}}
		}
		tr := s.defTr
		s.mu.Unlock()
		return tr.RoundTrip(req)
	}
	return nil, errors.New("simhook: this simulation has no network behind http.DefaultTransport")
}

func init() { http.DefaultTransport = simDefaultTransport{real: http.DefaultTransport} }

func NetListen(network, addr string) (net.Listener, error) {
	if s := cur.Load(); s != nil && s.Listen != nil {
		return s.Listen(network, addr)
	}
	return net.Listen(network, addr)
}

func HTTPGet(url string) (*http.Response, error) {
	if s := cur.Load(); s != nil && s.HTTPGet != nil {
		return s.HTTPGet(url)
	}
	return http.Get(url)
}

func FilepathWalk(root string, fn filepath.WalkFunc) error {
	if s := cur.Load(); s != nil && s.FS != nil {
		return s.FS.Walk(root, fn)
	}
	return filepath.Walk(root, fn)
}

func OSReadFile(path string) ([]byte, error) {
	if s := cur.Load(); s != nil && s.FS != nil {
		return s.FS.ReadFile(path)
	}
	return os.ReadFile(path)
}

func OSStat(path string) (os.FileInfo, error) {
	if s := cur.Load(); s != nil && s.FS != nil {
		return s.FS.Stat(path)
	}
	return os.Stat(path)
}

// Describe formats a task list (diagnostics).
func Describe(ts []*Task) string {
	var b strings.Builder
	for _, t := range ts {
		fmt.Fprintf(&b, "%s@%s ", t.Name, t.SiteName())
	}
	return b.String()
}

// Package simpeer provides raw byte-stream peers for the tunnel harnesses (H3
// tcp / tcp+sni / tcp-dynamic, and the websocket path of H2): a client or an
// upstream that plays a script of actions (dial, write n bytes, wait for n
// bytes / for the end of the stream, half-close, close, reset) over simnet.
//
// Every action is a driver event: a peer does nothing unless the driver fires
// its event, so the interleaving of writes in both directions with segment
// deliveries is chosen by the schedule tape. Everything a peer receives is
// recorded. Nothing here writes to the semantic trace except the Fire
// functions, which run on the driver goroutine.
package simpeer

import (
	"bytes"
	"encoding/binary"
	"io"
	"net"
	"sync"

	"github.com/fabiolb/fabio/internal/zzverif/simcore"
	"github.com/fabiolb/fabio/internal/zzverif/simnet"
)

// Action kinds.
const (
	Dial       = "dial"        // clients only, always first
	Write      = "write"       // write the next N bytes of Send
	Await      = "await"       // enabled once N bytes have been received (or the stream ended)
	AwaitEOF   = "await-eof"   // enabled once the incoming stream has ended (EOF or error)
	AwaitHead  = "await-head"  // enabled once the peer's HeadMark has been received (or the stream ended)
	CloseWrite = "close-write" // half-close
	Close      = "close"
	Reset      = "reset" // fault: connection reset seen by both ends
)

type Act struct {
	Kind string `json:"do"`
	N    int    `json:"n,omitempty"`
}

type Peer struct {
	Name string
	Send []byte
	Acts []Act
	// HeadMark, if set (before the first event), makes Await count the bytes received after the first
	// occurrence of the mark (e.g. the blank line that ends an HTTP head of unknown length).
	HeadMark []byte

	g    *Group
	from *net.TCPAddr
	key  string
	gate chan struct{}

	// guarded by g.mu
	conn     *simnet.Conn
	next     int
	idle     bool
	dead     bool // dial failed
	dialErr  error
	recv     []byte
	readDone bool
	readErr  error
	wrote    int
	werr     error
	paused   bool
	resume   chan struct{}
	stalls   int
	extra    int
	fin      bool // this peer half-closed or closed (its whole Send was written before)
}

type Group struct {
	R   *simcore.Run
	Net *simnet.Net

	mu    sync.Mutex
	peers []*Peer
	stop  chan struct{}
}

func NewGroup(r *simcore.Run, n *simnet.Net) *Group {
	return &Group{R: r, Net: n, stop: make(chan struct{})}
}

// Client adds a peer that dials key from the given source address. acts[0] must be Dial.
func (g *Group) Client(name string, from *net.TCPAddr, key string, send []byte, acts []Act) *Peer {
	p := &Peer{Name: name, Send: send, Acts: acts, g: g, from: from, key: key, gate: make(chan struct{})}
	g.mu.Lock()
	g.peers = append(g.peers, p)
	g.mu.Unlock()
	go p.actor()
	return p
}

// Upstream adds a peer that listens on key; the first accepted connection plays
// the script, further connections are counted (Extra) and closed.
func (g *Group) Upstream(name, key string, send []byte, acts []Act) (*Peer, error) {
	ln, err := g.Net.Listen(key, simnet.ListenOpts{})
	if err != nil {
		return nil, err
	}
	p := &Peer{Name: name, Send: send, Acts: acts, g: g, key: key, gate: make(chan struct{})}
	g.mu.Lock()
	g.peers = append(g.peers, p)
	g.mu.Unlock()
	go func() {
		for {
			c, err := ln.Accept()
			if err != nil {
				return
			}
			g.mu.Lock()
			if p.conn == nil {
				p.conn = c.(*simnet.Conn)
				g.mu.Unlock()
				go p.reader()
				go p.actor()
				continue
			}
			p.extra++
			g.mu.Unlock()
			c.Close()
		}
	}()
	return p, nil
}

// SetStalls allows the driver to pause this peer's reader n times (back-pressure); every pause is
// lifted again by a later driver event.
func (p *Peer) SetStalls(n int) {
	p.g.mu.Lock()
	p.stalls = n
	p.g.mu.Unlock()
}

func (p *Peer) actor() {
	g := p.g
	for {
		g.mu.Lock()
		if p.next >= len(p.Acts) || p.dead {
			g.mu.Unlock()
			return
		}
		p.idle = true
		g.mu.Unlock()
		select {
		case <-p.gate:
		case <-g.stop:
			return
		}
		g.mu.Lock()
		a := p.Acts[p.next]
		conn := p.conn
		off := p.wrote
		g.mu.Unlock()
		switch a.Kind {
		case Dial:
			c, err := g.Net.Dial(g.R.Ctx(), p.from, p.key, 0)
			g.mu.Lock()
			if err != nil {
				p.dead, p.dialErr = true, err
				g.mu.Unlock()
				return
			}
			p.conn = c.(*simnet.Conn)
			g.mu.Unlock()
			go p.reader()
		case Write:
			end := off + a.N
			if end > len(p.Send) {
				end = len(p.Send)
			}
			n, err := conn.Write(p.Send[off:end])
			g.mu.Lock()
			p.wrote += n
			if err != nil && p.werr == nil {
				p.werr = err
			}
			g.mu.Unlock()
		case CloseWrite:
			conn.CloseWrite()
			g.mu.Lock()
			p.fin = true
			g.mu.Unlock()
		case Close:
			conn.Close()
			g.mu.Lock()
			p.fin = true
			g.mu.Unlock()
		case Reset:
			conn.Reset()
		}
		g.mu.Lock()
		p.next++
		g.mu.Unlock()
	}
}

func (p *Peer) reader() {
	g := p.g
	buf := make([]byte, 4096)
	for {
		// a paused reader does not read: the window fills and the sender blocks
		for {
			g.mu.Lock()
			if !p.paused {
				g.mu.Unlock()
				break
			}
			ch := p.resume
			g.mu.Unlock()
			select {
			case <-ch:
			case <-g.stop:
				return
			}
		}
		n, err := p.conn.Read(buf)
		g.mu.Lock()
		p.recv = append(p.recv, buf[:n]...)
		if err != nil {
			p.readDone, p.readErr = true, err
		}
		g.mu.Unlock()
		if err != nil {
			return
		}
	}
}

// afterHead returns the number of bytes received after the head mark (-1: mark not seen yet).
func (p *Peer) afterHead() int {
	if len(p.HeadMark) == 0 {
		return len(p.recv)
	}
	i := bytes.Index(p.recv, p.HeadMark)
	if i < 0 {
		return -1
	}
	return len(p.recv) - i - len(p.HeadMark)
}

// Events lists the peer actions the driver may fire at the current quiescent state.
func (g *Group) Events() []simcore.Event {
	g.mu.Lock()
	defer g.mu.Unlock()
	var ev []simcore.Event
	for _, p := range g.peers {
		p := p
		if p.idle && p.next < len(p.Acts) && !p.dead {
			a := p.Acts[p.next]
			ok := true
			switch a.Kind {
			case Dial:
			case Await:
				ok = p.afterHead() >= a.N || p.readDone
			case AwaitHead:
				ok = p.afterHead() >= 0 || p.readDone
			case AwaitEOF:
				ok = p.readDone
			default:
				ok = p.conn != nil
			}
			if ok {
				idx := p.next
				ev = append(ev, simcore.Event{Key: "peer:" + p.Name, Fire: func() {
					g.R.Tracef("peer %s #%d %s %d", p.Name, idx, a.Kind, a.N)
					g.mu.Lock()
					p.idle = false
					g.mu.Unlock()
					p.gate <- struct{}{}
				}})
			}
		}
		if p.conn != nil && !p.readDone {
			if p.paused {
				ev = append(ev, simcore.Event{Key: "peer:" + p.Name + ":resume", Fire: func() {
					g.R.Tracef("peer %s resumes reading", p.Name)
					g.mu.Lock()
					p.paused = false
					close(p.resume)
					g.mu.Unlock()
				}})
			} else if p.stalls > 0 {
				ev = append(ev, simcore.Event{Key: "peer:" + p.Name + ":stall", Fire: func() {
					g.R.Tracef("peer %s stops reading", p.Name)
					g.R.Fault("reader_stall")
					g.mu.Lock()
					p.stalls--
					p.paused = true
					p.resume = make(chan struct{})
					g.mu.Unlock()
				}})
			}
		}
	}
	return ev
}

// Done reports whether every peer has played its whole script (or failed to connect) and every
// connected peer has seen the end of its incoming stream.
func (g *Group) Done() bool {
	g.mu.Lock()
	defer g.mu.Unlock()
	for _, p := range g.peers {
		if p.dead {
			continue
		}
		if p.next < len(p.Acts) {
			return false
		}
		if p.conn != nil && !p.readDone {
			return false
		}
	}
	return true
}

// Stop ends all peer goroutines that wait for the driver (teardown; close the network as well).
func (g *Group) Stop() { close(g.stop) }

// ---- observations (call at quiescence) ----

func (p *Peer) Received() []byte {
	p.g.mu.Lock()
	defer p.g.mu.Unlock()
	return append([]byte(nil), p.recv...)
}

// ReadEnd reports whether the incoming stream has ended and how (io.EOF = orderly).
func (p *Peer) ReadEnd() (bool, error) {
	p.g.mu.Lock()
	defer p.g.mu.Unlock()
	return p.readDone, p.readErr
}

func (p *Peer) SawEOF() bool {
	done, err := p.ReadEnd()
	return done && err == io.EOF
}

func (p *Peer) Connected() bool {
	p.g.mu.Lock()
	defer p.g.mu.Unlock()
	return p.conn != nil
}

func (p *Peer) Conn() *simnet.Conn {
	p.g.mu.Lock()
	defer p.g.mu.Unlock()
	return p.conn
}

// Progress returns the index of the next action and the number of bytes written so far.
func (p *Peer) Progress() (next, wrote int) {
	p.g.mu.Lock()
	defer p.g.mu.Unlock()
	return p.next, p.wrote
}

func (p *Peer) Finished() bool {
	p.g.mu.Lock()
	defer p.g.mu.Unlock()
	return p.next >= len(p.Acts)
}

// Complete reports whether the peer played its whole script and saw the end of its incoming stream.
func (p *Peer) Complete() bool {
	p.g.mu.Lock()
	defer p.g.mu.Unlock()
	return p.next >= len(p.Acts) && p.conn != nil && p.readDone
}

func (p *Peer) WriteErr() error {
	p.g.mu.Lock()
	defer p.g.mu.Unlock()
	return p.werr
}

func (p *Peer) DialErr() error {
	p.g.mu.Lock()
	defer p.g.mu.Unlock()
	return p.dialErr
}

// Extra is the number of connections an upstream received beyond its first.
func (p *Peer) Extra() int {
	p.g.mu.Lock()
	defer p.g.mu.Unlock()
	return p.extra
}

// ---- streams ----

// Stream returns n incompressible bytes (one tape draw) in which every aligned 8-byte block starts
// with its own block number xor key, so that a byte found at the wrong place says where it came from
// and streams of different tunnels / directions never look alike.
func Stream(g *simcore.Tape, n int, key uint32) []byte {
	b := g.Bytes(n)
	for i := 0; i+8 <= n; i += 8 {
		binary.BigEndian.PutUint32(b[i:], uint32(i/8)^key)
	}
	return b
}

// Chunks turns a PRNG write pattern into the sizes of successive writes covering total bytes
// (at most maxWrites writes; value 0 of the first draw is "one write").
func Chunks(g *simcore.Tape, total, maxWrites int) []int {
	if total <= 0 {
		return nil
	}
	var out []int
	left := total
	push := func(n int) {
		if n > left {
			n = left
		}
		if n > 0 {
			out = append(out, n)
			left -= n
		}
	}
	switch g.Intn(5) {
	case 0:
	case 1: // a few single bytes, then the rest
		for i, k := 0, g.Range(1, 12); i < k; i++ {
			push(1)
		}
	case 2: // PRNG fractions
		for i, k := 0, g.Range(1, 6); i < k && left > 0; i++ {
			push(1 + g.Intn(left))
		}
	case 3: // MSS-sized writes
		for i := 0; i < maxWrites-1 && left > 0; i++ {
			push(1460)
		}
	case 4: // small head (splits whatever framing the stream starts with), then halves
		push(1 + g.Intn(16))
		for i := 0; i < 4 && left > 1; i++ {
			push(left / 2)
		}
	}
	for len(out) > maxWrites-1 {
		left += out[len(out)-1]
		out = out[:len(out)-1]
	}
	push(left)
	return out
}

// Diff compares what was received with what was sent. kind is "" (equal), "truncated" (a proper
// prefix arrived), "lost" (a gap), "duplicated" (bytes delivered again / bytes beyond the end that
// repeat earlier ones), "modified" (anything else); at is the offset of the first difference.
func Diff(sent, got []byte) (kind string, at int) {
	n := 0
	for n < len(sent) && n < len(got) && sent[n] == got[n] {
		n++
	}
	switch {
	case n == len(sent) && n == len(got):
		return "", n
	case n == len(got):
		return "truncated", n
	}
	rest := got[n:]
	w := rest
	if len(w) > 24 {
		w = w[:24]
	}
	if len(w) >= 8 {
		if q := bytes.Index(sent, w); q >= 0 {
			if q > n {
				return "lost", n
			}
			return "duplicated", n
		}
	} else if n+len(rest) < len(sent) && bytes.HasSuffix(sent, rest) {
		return "lost", n // only the last few bytes arrived after the gap
	}
	return "modified", n
}

//go:build verif

package consul

import "github.com/hashicorp/consul/api"

// ZZC13RouteCmds runs the real routecmd.build for one catalog entry and
// returns the route commands it generates (used by the C13 harness to define
// redirect routes through the urlprefix- tag form).
func ZZC13RouteCmds(name, addr string, port int, tags []string, prefix string) []string {
	svc := &api.CatalogService{ServiceName: name, ServiceAddress: addr, ServicePort: port, ServiceTags: tags}
	return routecmd{svc: svc, prefix: prefix}.build()
}

//go:build verif

package consul

import (
	"github.com/fabiolb/fabio/config"
	"github.com/fabiolb/fabio/registry"
	"github.com/hashicorp/consul/api"
)

// NewBackendWithClient builds the real consul backend around a given api client
// (the simulated Consul is reached through the client's HttpClient).
func NewBackendWithClient(c *api.Client, cfg *config.Consul, dc string) registry.Backend {
	return &be{c: c, dc: dc, cfg: cfg}
}

//go:build verif

package main

// C20 — access logging is accurate and can never disturb a request.
//
// Rider on H2 with statement-level interleaving: the real http.Server serves the
// proxy built by main.newHTTPProxy; its access logger is logger.New(simWriter,
// format) with a PRNG-composed format over the documented fields; HTTPProxy.Time
// is a recording clock (bubble clock shifted to a PRNG epoch, sometimes handed
// out in a non-UTC location). Handler goroutines are adopted as tasks, so 1-6
// concurrent requests interleave statement by statement inside ServeHTTP and
// Logger.Log (shared buffer pool, writer mutex). The oracle renders every line
// again from what the raw client sent / received, what the raw upstream
// recorded and what the clock handed out, using fmt/strconv/time.Format/net/url
// only, following the field descriptions in the doc comment of package logger.
//
// Routes may carry the host=dst / host=<name> option and clients may send
// X-Forwarded-Proto or Forwarded (one of them, with an explicit proto): every
// $request_* field is judged against the request as the client sent it.
//
// Numbers are generated at the places where a hand-written formatter changes its
// behaviour: body sizes, durations, unix timestamps and statuses at 10^k / 10^k-1,
// years at the padding boundaries, an STS max-age whose int32 truncation is an
// extreme of the int32 range, uuid bytes at the nibble boundaries, TLS version /
// cipher-suite numbers at the hex digit boundaries (real suites selected on the
// listener, and a connection state handed to the handler that names generated
// numbers). The reference is always fmt/strconv on the number fabio formats.
// Upstreams may send 103 Early Hints first: the status of a request is the final one.
//
// Exchanges fabio answers by itself (40% of the proxy runs): routes whose upstream is unreachable (refused / black-holed:
// 502 / 504 from fabio), websocket upgrade requests whose dial or handshake fails or whose upgrade the upstream refuses
// with an ordinary response, requests without route, denied and redirected requests. What the log says about status and
// size has to be what the raw client received; for the kinds of exchange of which the statement does not say whether they
// are "completed requests" no line is demanded, a line that is written is judged. A failed upgrade leaves the client
// without one byte: the logged size has to be 0, the logged status is not judged (no status line to compare with).
//
// A second, statement-level part (chosen per run from the scenario tape): 2-6
// tasks call Logger.Log of one logger.New(recording writer, format) directly on
// generated logger.Event values - every shape the doc comments of Event allow,
// not only those the proxy builds today (absent request / response / URLs, header
// maps with entries that have no values, odd address forms, zero and extreme
// times, durations, statuses and sizes). Same reference renderer, same oracle:
// exactly one intact line per event, no panic.
//
// Faults of the log target (both parts, chosen from the scenario tape): the n-th
// Write call of the target returns an error (nothing or a part of the bytes
// accepted), a short count with io.ErrShortWrite, blocks until a driver event
// (at once, or only when nothing else can happen and after simulated time has
// passed) or panics - once, for a few writes in a row, or from then on. The
// oracle: a line the target refused is not demanded (and whatever else is written
// for that Log call is not judged); every other completed request is logged with
// one intact line, before, during and after the fault; every request is answered
// (exactly as the upstream answered, except the one through whose handler the
// target's own panic travels) and every Log call returns (or passes the target's
// own panic on): a task that waits for a lock nobody releases, or that never
// leaves package logger although the target does not hold it, is a violation.

import (
	"bytes"
	"context"
	"errors"
	"fmt"
	"io"
	"math"
	"net"
	"net/http"
	"net/url"
	"sort"
	"strconv"
	"strings"
	"sync"
	"testing/synctest"
	"time"

	"crypto/tls"

	"github.com/fabiolb/fabio/config"
	"github.com/fabiolb/fabio/internal/zzverif/simcore"
	"github.com/fabiolb/fabio/internal/zzverif/simhook"
	"github.com/fabiolb/fabio/internal/zzverif/simnet"
	"github.com/fabiolb/fabio/logger"
	"github.com/fabiolb/fabio/noroute"
	"github.com/fabiolb/fabio/uuid"
)

func init() {
	zzHarnesses = append(zzHarnesses, &simcore.Harness{Name: "c20", Props: []string{"C20"}, Run: runC20})
}

// ---------------------------------------------------------------- scenario

type c20Part struct {
	Lit   string `json:"lit,omitempty"`
	Field string `json:"field,omitempty"` // "$remote_addr" ... or "$header.<name>"
}

type c20Route struct {
	Prefix  string `json:"prefix"`
	Service string `json:"service"`
	Scheme  string `json:"scheme"`
	Host    string `json:"target_host"` // host part of the target URL exactly as written in the route
	Key     string `json:"dial_key"`    // what a dialer has to name to reach it
	NoPort  bool   `json:"no_port,omitempty"`
	IPv6    bool   `json:"ipv6,omitempty"`
	Strip   string `json:"strip,omitempty"`
	Prepend string `json:"prepend,omitempty"`
	Query   string `json:"target_query,omitempty"`
	HostOpt string `json:"host_option,omitempty"` // "", "dst" or the name to send as Host header to the upstream
	// Down: nothing listens at the target ("refused") or connection attempts to it are never answered ("blackhole")
	Down string `json:"upstream_down,omitempty"`
	// Kind: "" a proxied route, "denied" a route whose allow list admits none of the clients, "redirect" a redirecting route
	Kind string `json:"kind,omitempty"`
}

type c20Scenario struct {
	Format     string     `json:"format"`
	Parts      []c20Part  `json:"-"`
	Epoch      string     `json:"clock_epoch"`
	ZoneName   string     `json:"clock_zone"`
	ZoneOffset int        `json:"clock_zone_offset_s"`
	Routes     []c20Route `json:"routes"`
	TLS        bool       `json:"tls_listener,omitempty"`
	TLS12      bool       `json:"listener_max_tls12,omitempty"`
	TLSSuite   uint16     `json:"listener_only_cipher_suite,omitempty"` // TLS 1.2 listener restricted to this suite (0: Go's choice)
	// what the TLS connection state handed to the handler says instead of the negotiated values (request id -> values; 0: as negotiated)
	TLSReported   map[string]c20TLSRep `json:"tls_state_reported_to_handler,omitempty"`
	STSMaxAge     int                  `json:"sts_max_age,omitempty"`
	STSSub        bool                 `json:"sts_subdomains,omitempty"`
	STSPreload    bool                 `json:"sts_preload,omitempty"`
	RequestID     string               `json:"request_id_header,omitempty"`
	HeaderTimeout time.Duration        `json:"response_header_timeout,omitempty"`
	Clients       []h2Client           `json:"clients,omitempty"`
	Direct        *c20Direct           `json:"direct_logger_calls,omitempty"` // the statement-level part: no proxy, tasks call Logger.Log
	FineYields    bool                 `json:"yields_inside_number_formatter,omitempty"`
	Stick         int                  `json:"stick"`
	Target        []c20WFault          `json:"log_target_faults,omitempty"`
	// requests that are not (or not only) answered with a relayed upstream response: request id -> "websocket" (an upgrade
	// request: fabio dials the upstream itself and relays the handshake), "noroute", "denied", "redirect"
	Self        map[string]string `json:"requests_of_another_kind,omitempty"`
	NoRoutePage int               `json:"no_route_page_bytes,omitempty"`
	DialTimeout time.Duration     `json:"dial_timeout,omitempty"`

	epoch    time.Time
	uuids    [][24]byte
	fwdProto map[string]string // request id -> scheme named by the X-Forwarded-Proto / Forwarded header the client sent
}

// c20TLSRep: version / cipher suite numbers reported by the connection state (any uint16 is a possible report of crypto/tls)
type c20TLSRep struct {
	Version uint16 `json:"version,omitempty"`
	Cipher  uint16 `json:"cipher_suite,omitempty"`
}

// the fields documented in the header comment of logger/logger.go, in that order,
// plus $upstream_service (documented at Event.UpstreamService)
var c20Fields = []string{
	"$remote_addr", "$remote_host", "$remote_port", "$request", "$request_args", "$request_host", "$request_method",
	"$request_scheme", "$request_uri", "$request_url", "$request_proto", "$response_body_size", "$response_status",
	"$response_time_ms", "$response_time_us", "$response_time_ns", "$time_rfc3339", "$time_rfc3339_ms", "$time_rfc3339_us",
	"$time_rfc3339_ns", "$time_unix_ms", "$time_unix_us", "$time_unix_ns", "$time_common", "$upstream_addr", "$upstream_host",
	"$upstream_port", "$upstream_request_scheme", "$upstream_request_uri", "$upstream_request_url", "$upstream_service",
}

// fields that may legitimately render as the empty string
var c20MaybeEmpty = map[string]bool{"$request_args": true, "$upstream_port": true}

// header names used in $header.<name>; none of them is written by fabio itself
var c20LogHeaders = []string{"Referer", "User-Agent", "user-agent", "X-Custom-A", "x-lower-case", "X-LOWER-CASE", "Cookie", "Accept-Language", "Authorization", "X-Absent", "X-Empty", "X-Long"}
var c20SendHeaders = []string{"Referer", "User-Agent", "X-Custom-A", "x-lower-case", "Cookie", "Accept-Language", "Authorization", "X-Empty", "X-Long", "X-Custom-A"}
var c20HdrVals = []string{"v", "Mozilla/5.0 (X11; Linux x86_64) Gecko/20100101", "http://ref.example/p?q=1&r=%2F", "a, b, c", "\"quoted\" 'single'",
	"k=v; k2=v2", "Bearer abc.def.ghi", "caf\u00e9 \u4e16\u754c", "$remote_addr $time_common $header.Cookie", "100%s %d%n %v", "tab\tinside", "  padded  ", "-", "[::1]:80", "\\n\\\\"}

// literal text between fields: never contains '$', never starts with a character of a field name
var c20Seps = []string{" ", " - ", "|", "\" \"", " [", "] ", ":", "/", ",", "=", "\t", " caf\u00e9 \u4e16 ", ".", "", " %s %d%% ", "; ", " # ", "{", "} ", " -- \"", "\" "}

var c20Methods = []string{"GET", "GET", "POST", "HEAD", "PUT", "DELETE", "PATCH", "OPTIONS", "PURGE"}
var c20Suffixes = []string{"", "/", "/a", "/a/b", "/a;v=1", "/a,b", "/~u/-_.", "/A/b", "/index.html", "/a+b", "/" + strings.Repeat("seg/", 60)}
var c20Queries = []string{"", "", "a=1", "a=1&a=2&b", "x=%2F%20&y=+", "q=a%26b", "long=" + strings.Repeat("z", 1200)}
var c20Hosts = []string{"fabio.sim", "www.example.com", "www.example.com:8080", "Mixed.Example.COM", "[2001:db8::f]:9999", "10.1.2.3"}
var c20Statuses = []int{200, 200, 200, 201, 204, 301, 304, 400, 404, 418, 500, 503, 299, 999}
var c20Delays = []time.Duration{0, 0, time.Millisecond, 1234567 * time.Nanosecond, 999999999 * time.Nanosecond, time.Second + 1, 1500 * time.Microsecond, 61*time.Second + 500*time.Microsecond, 999500 * time.Nanosecond, 2*time.Hour + 3*time.Nanosecond,
	// -1: a power of ten of nanoseconds (1 ns .. 1000 s) or the nanosecond before it: every digit position of S.sss rolls over
	-1, -1, -1, time.Minute - 1, time.Minute, time.Hour - 1, time.Hour}

// c20Pow10 returns 10^k.
func c20Pow10(k int) int64 {
	n := int64(1)
	for ; k > 0; k-- {
		n *= 10
	}
	return n
}

// c20GenPow10 picks 10^k or 10^k-1 for a k in lo..hi: the values at which a decimal rendering gains a digit.
func c20GenPow10(g *simcore.Tape, lo, hi int) int64 {
	n := c20Pow10(g.Range(lo, hi))
	if g.Bool() {
		n--
	}
	return n
}

// body sizes at which $response_body_size gains a digit
var c20EdgeSizes = []int{10, 9, 99, 100, 999, 1000, 9999, 10000}

// configured STS max-age values: the number handed to the 32-bit formatter is int32(max-age), so the boundaries of the
// int32 range (and what lies a multiple of 2^32 above them) are the extreme inputs of that formatter
var c20EdgeMaxAges = []int64{1, 9, 10, math.MaxInt32, math.MaxInt32 + 1, math.MaxUint32, math.MaxUint32 + 1, math.MaxUint32 + 2, math.MaxInt32 + 1 + (1 << 32)}

func c20GenMaxAge(g *simcore.Tape) int {
	switch g.Intn(5) {
	case 0:
		return 31536000
	case 1, 2:
		return int(simcore.Pick(g, c20EdgeMaxAges))
	case 3:
		// powers of ten and their predecessors, as a positive and as a negative int32 (2^32 - n truncates to -n)
		n := c20GenPow10(g, 1, 9)
		if g.Bool() {
			return int(1<<32 - n)
		}
		return int(n)
	}
	return 1 + g.Intn(1<<32+5)
}

// cipher suites a TLS 1.2 listener with an Ed25519 certificate can be restricted to and Go's client offers by default
var c20Suites = []uint16{tls.TLS_ECDHE_ECDSA_WITH_AES_128_GCM_SHA256, tls.TLS_ECDHE_ECDSA_WITH_AES_256_GCM_SHA384, tls.TLS_ECDHE_ECDSA_WITH_CHACHA20_POLY1305_SHA256,
	tls.TLS_ECDHE_ECDSA_WITH_AES_128_CBC_SHA, tls.TLS_ECDHE_ECDSA_WITH_AES_256_CBC_SHA}

// 16-bit numbers at the digit boundaries of a four-digit hex rendering (0: a PRNG value)
var c20EdgeU16 = []int{0xffff, 0x0001, 0x0009, 0x000a, 0x000f, 0x0010, 0x009f, 0x00a0, 0x00ff, 0x0100, 0x0fff, 0x1000, 0x7fff, 0x8000, 0x9999, 0xaaaa, 0xfffe, 0x0305, 0x1234, 0xabcd, 0xfedc, 0, 0, 0}

func c20GenU16(g *simcore.Tape) uint16 {
	if v := simcore.Pick(g, c20EdgeU16); v != 0 {
		return uint16(v)
	}
	return uint16(1 + g.Intn(0xffff))
}

// Forwarded header values a client-side proxy sends (RFC 7239 forwarded-pairs, one element, proto named once)
var c20FwdForms = []string{"proto=%s", "for=203.0.113.7;proto=%s", "for=203.0.113.7; proto=%s", "for=203.0.113.7;proto=%s;by=203.0.113.1", "proto=%s; for=\"[2001:db8::77]\"", "for=_hidden; httpproto=http/1.0; proto=%s"}

const c20Common = `$remote_host - - [$time_common] "$request" $response_status $response_body_size`
const c20Combined = c20Common + ` "$header.Referer" "$header.User-Agent"`

func c20IsID(c byte) bool {
	return 'a' <= c && c <= 'z' || 'A' <= c && c <= 'Z' || '0' <= c && c <= '9' || c == '_' || c == '-'
}

// c20Split cuts a format made of documented fields, $header.<name> and '$'-free text into parts (harness-side tokenizer for
// the two named formats; generated formats are built from parts directly).
func c20Split(format string) []c20Part {
	var out []c20Part
	for len(format) > 0 {
		if format[0] != '$' {
			i := strings.IndexByte(format, '$')
			if i < 0 {
				i = len(format)
			}
			out = append(out, c20Part{Lit: format[:i]})
			format = format[i:]
			continue
		}
		i := 1
		for i < len(format) && (c20IsID(format[i]) || (format[i] == '.' && format[:i] == "$header")) {
			i++
		}
		out = append(out, c20Part{Field: format[:i]})
		format = format[i:]
	}
	return out
}

func c20GenFormat(g *simcore.Tape, thorough, direct bool) []c20Part {
	var parts []c20Part
	switch g.Intn(8) {
	case 0:
		if direct {
			return c20Split(c20Combined)
		}
		return c20Split(c20Common)
	case 1:
		return c20Split(c20Combined)
	case 2:
		// every documented field once
		sep := simcore.Pick(g, []string{" ", "|", "\t", "\" \""})
		for i, f := range c20Fields {
			if i > 0 {
				parts = append(parts, c20Part{Lit: sep})
			}
			parts = append(parts, c20Part{Field: f})
		}
		return parts
	}
	max := 10
	if thorough {
		max = 36
	}
	n := g.Range(1, max)
	if g.Chance(30) {
		parts = append(parts, c20Part{Lit: simcore.Pick(g, []string{"access: ", "[", "\"", "fabio ", "#"})})
	}
	for i := 0; i < n; i++ {
		if i > 0 {
			if s := simcore.Pick(g, c20Seps); s != "" {
				parts = append(parts, c20Part{Lit: s})
			}
		}
		hdr := 20
		if direct {
			hdr = 40
		}
		if g.Chance(hdr) {
			parts = append(parts, c20Part{Field: "$header." + simcore.Pick(g, c20LogHeaders)})
		} else {
			parts = append(parts, c20Part{Field: simcore.Pick(g, c20Fields)})
		}
	}
	if g.Chance(30) {
		parts = append(parts, c20Part{Lit: simcore.Pick(g, []string{"]", "\"", " end", " .", "|"})})
	}
	// a line is only defined if something is always printed (an event handed to the logger directly may lack the
	// request, the response and the URLs: only literal text is certain to be printed then)
	solid := false
	for _, p := range parts {
		if p.Lit != "" || (!direct && p.Field != "" && !strings.HasPrefix(p.Field, "$header.") && !c20MaybeEmpty[p.Field]) {
			solid = true
		}
	}
	if !solid {
		parts = append([]c20Part{{Lit: "- "}}, parts...)
	}
	return parts
}

func c20HasField(parts []c20Part, prefix string) bool {
	for _, p := range parts {
		if strings.HasPrefix(p.Field, prefix) {
			return true
		}
	}
	return false
}

func c20GenEpoch(g *simcore.Tape, unixFields bool) time.Time {
	switch g.Intn(15) {
	case 0:
		return time.Date(2000, 1, 1, 0, 0, 0, 0, time.UTC) // the bubble clock itself
	case 1:
		return time.Date(2016, 2, 29, 23, 59, 59, 999999000, time.UTC) // leap day, about to roll over
	case 2:
		return time.Date(2023, 12, 31, 23, 59, 58, 500000000, time.UTC)
	case 3:
		return time.Date(1970, 1, 1, 0, 0, 1, 1, time.UTC)
	case 4:
		return time.Date(2024, 7, 4, 12, 34, 56, 789012345, time.UTC)
	case 5:
		return time.Date(2038, 1, 19, 3, 14, 7, 0, time.UTC)
	case 6:
		return time.Date(2262, 4, 1, 9, 8, 7, 60504, time.UTC) // last weeks of the int64 nanosecond epoch
	case 7:
		return time.Date(2100, 2, 28, 23, 59, 59, 999999999, time.UTC) // 2100 is not a leap year
	case 8:
		if !unixFields {
			// beyond four-digit years (unix-epoch fields are not defined there: excluded by construction)
			return time.Date(10000+g.Intn(20000), time.Month(1+g.Intn(12)), 1+g.Intn(28), g.Intn(24), g.Intn(60), g.Intn(60), g.Intn(1000000000), time.UTC)
		}
	case 9, 10:
		// the unix time in nanoseconds is a power of ten or one less: $time_unix_* gain a digit
		return time.Unix(0, c20GenPow10(g, 1, 18)).UTC()
	case 11:
		if !unixFields {
			// the first and the last instants of the years at which the zero-padded four-digit year gains a digit
			y := simcore.Pick(g, []int{999, 1000, 9999, 99, 100, 9, 10, 1})
			if g.Bool() {
				return time.Date(y, 1, 1, 0, 0, 0, g.Intn(2), time.UTC)
			}
			return time.Date(y, 12, 31, 23, 59, 59, 999999000+g.Intn(1000), time.UTC)
		}
	}
	return time.Date(1970+g.Intn(292), time.Month(1+g.Intn(12)), 1+g.Intn(28), g.Intn(24), g.Intn(60), g.Intn(60), g.Intn(1000000000), time.UTC)
}

type c20Zone struct {
	Name string
	Off  int
}

var c20Zones = []c20Zone{{"UTC", 0}, {"UTC", 0}, {"IST", 5*3600 + 1800}, {"PST", -8 * 3600}, {"NPT", 5*3600 + 2700}, {"LINT", 14 * 3600}, {"BIT", -12 * 3600}}

func c20GenRoute(g *simcore.Tape, j int) c20Route {
	rt := c20Route{Prefix: fmt.Sprintf("/p%d", j), Service: simcore.Pick(g, []string{fmt.Sprintf("svc%d", j), fmt.Sprintf("svc-%d_web", j), fmt.Sprintf("My.Service.%d", j)}), Scheme: "http"}
	switch g.Intn(9) {
	case 0:
		rt.Host = fmt.Sprintf("up%d.sim:8080", j)
	case 1:
		rt.Host, rt.NoPort = fmt.Sprintf("backend%d", j), true
	case 2:
		rt.Host = fmt.Sprintf("198.51.100.%d:9000", 10+j)
	case 3:
		rt.Host, rt.IPv6 = fmt.Sprintf("[2001:db8::%d]:8080", 5+j), true
	case 4:
		rt.Host, rt.IPv6, rt.NoPort = fmt.Sprintf("[2001:db8::a%d]", j), true, true
	case 5:
		rt.Host, rt.NoPort = fmt.Sprintf("198.51.100.%d", 20+j), true
	case 6:
		rt.Host, rt.Scheme = fmt.Sprintf("sec%d.sim:8443", j), "https"
	case 7:
		rt.Host, rt.Scheme, rt.NoPort = fmt.Sprintf("sec%d.sim", j), "https", true
	case 8:
		rt.Host = fmt.Sprintf("up%d.sim:65535", j)
	}
	rt.Key = rt.Host
	if rt.NoPort {
		rt.Key = rt.Host + ":" + c20DefaultPort(rt.Scheme)
	}
	if g.Chance(25) {
		rt.Strip = rt.Prefix
	}
	if g.Chance(25) {
		rt.Prepend = "/pre"
	}
	if g.Chance(25) {
		rt.Query = "tq=1"
	}
	// host option: the Host header sent to the upstream is the target's host or a fixed name instead of the client's
	if g.Chance(35) {
		rt.HostOpt = simcore.Pick(g, []string{"dst", fmt.Sprintf("vhost%d.internal", j), "dst", fmt.Sprintf("Vhost%d.Internal:8081", j)})
	}
	return rt
}

func c20DefaultPort(scheme string) string {
	if scheme == "https" {
		return "443"
	}
	return "80"
}

func c20Gen(g *simcore.Tape, thorough bool) *c20Scenario {
	sc := &c20Scenario{fwdProto: map[string]string{}}
	direct := g.Chance(30)
	sc.Parts = c20GenFormat(g, thorough, direct)
	for _, p := range sc.Parts {
		sc.Format += p.Lit + p.Field
	}
	if direct {
		c20GenDirect(g, sc, thorough)
		return sc
	}
	sc.epoch = c20GenEpoch(g, c20HasField(sc.Parts, "$time_unix"))
	sc.Epoch = sc.epoch.Format("2006-01-02T15:04:05.000000000Z07:00")
	z := simcore.Pick(g, c20Zones)
	sc.ZoneName, sc.ZoneOffset = z.Name, z.Off
	nr := g.Range(1, 3)
	for j := 0; j < nr; j++ {
		sc.Routes = append(sc.Routes, c20GenRoute(g, j))
	}
	// paths on which fabio answers by itself after something failed (or without an upstream at all): upstreams that cannot
	// be reached, websocket upgrades whose dial / handshake fails, no route, access denied, redirects
	selfRun := g.Chance(40)
	denied, redirect := -1, -1
	sc.DialTimeout = 30 * time.Second
	if selfRun {
		sc.Self = map[string]string{}
		for j := range sc.Routes {
			if g.Chance(35) {
				sc.Routes[j].Down = simcore.Pick(g, []string{"refused", "blackhole"})
				if sc.Routes[j].Down == "blackhole" {
					sc.DialTimeout = 7*time.Second + 13 // off every other timer of the scenario
				}
			}
		}
		if g.Chance(50) {
			denied = len(sc.Routes)
			sc.Routes = append(sc.Routes, c20Route{Prefix: "/deny", Service: "svc-deny", Scheme: "http", Host: "denied.sim:8080", Key: "denied.sim:8080", Kind: "denied"})
		}
		if g.Chance(50) {
			redirect = len(sc.Routes)
			sc.Routes = append(sc.Routes, c20Route{Prefix: "/redir", Service: "svc-redir", Scheme: "http", Host: "other.example", Key: "other.example:80", NoPort: true, Kind: "redirect"})
		}
		sc.NoRoutePage = simcore.Pick(g, []int{0, 1, 300, 5000})
	}
	sc.TLS = g.Chance(20)
	tlsReported := false
	if sc.TLS {
		sc.TLS12 = g.Bool()
		if sc.TLS12 && g.Bool() {
			sc.TLSSuite = simcore.Pick(g, c20Suites)
		}
		if g.Chance(75) {
			sc.STSMaxAge = c20GenMaxAge(g)
			sc.STSSub, sc.STSPreload = g.Bool(), g.Bool()
		}
		tlsReported = g.Chance(40)
	}
	if g.Chance(25) {
		sc.RequestID = "X-Request-Id"
	}
	faults := g.Chance(20)
	if faults {
		sc.HeaderTimeout = simcore.Pick(g, []time.Duration{2 * time.Second, 1500 * time.Millisecond, 10*time.Second + 7})
	}
	sc.FineYields = g.Chance(25)
	sc.Stick = []int{1, 1, 3, 8}[g.Intn(4)]
	maxBody, maxClients := 6000, 4
	if thorough {
		maxBody, maxClients = 100000, 6
	}
	nc := g.Range(1, maxClients)
	id := 0
	for c := 0; c < nc; c++ {
		cl := h2Client{TLS: sc.TLS}
		switch g.Intn(4) {
		case 0, 1:
			cl.Addr = fmt.Sprintf("192.0.2.%d:%d", 10+c, 5000+100*c)
		case 2:
			cl.Addr = fmt.Sprintf("[2001:db8::c%d]:%d", c, 6000+100*c)
		case 3:
			cl.Addr = fmt.Sprintf("[fe80::%d%%eth0]:%d", 1+c, 7000+100*c)
		}
		n := g.Range(1, 3)
		for k := 0; k < n; k++ {
			rq := h2Req{ID: fmt.Sprintf("r%d", id), Host: simcore.Pick(g, c20Hosts)}
			id++
			rq.Route = g.Intn(nr)
			kind := ""
			if selfRun {
				switch g.Intn(10) {
				case 4, 5, 6:
					kind = "websocket"
				case 7:
					kind = "noroute"
				case 8:
					if denied >= 0 {
						kind, rq.Route = "denied", denied
					}
				case 9:
					if redirect >= 0 {
						kind, rq.Route = "redirect", redirect
					}
				}
				if kind != "" {
					sc.Self[rq.ID] = kind
				}
			}
			rq.Method = simcore.Pick(g, c20Methods)
			rq.Path = sc.Routes[rq.Route].Prefix + simcore.Pick(g, c20Suffixes)
			switch kind {
			case "websocket":
				rq.Method, rq.CloseAfter = "GET", true
			case "noroute":
				rq.Path = "/none" + simcore.Pick(g, c20Suffixes)
			}
			rq.Query = simcore.Pick(g, c20Queries)
			rq.Headers = []h2Header{{"Accept-Encoding", "identity"}}
			nh := g.Intn(6)
			used := map[string]bool{}
			for i := 0; i < nh; i++ {
				k := simcore.Pick(g, c20SendHeaders)
				if used[k] && k != "X-Custom-A" {
					continue
				}
				used[k] = true
				v := simcore.Pick(g, c20HdrVals)
				switch k {
				case "X-Empty":
					v = ""
				case "X-Long":
					v = strings.Repeat("L", 900+g.Intn(1500)) + "!"
				}
				rq.Headers = append(rq.Headers, h2Header{k, v})
			}
			// the client is itself behind a proxy that names the scheme of the original request: exactly one of the two
			// headers with an explicit proto, the case in which the documented heuristic leaves no choice
			if kind == "websocket" {
				rq.Headers = append(rq.Headers, h2Header{"Upgrade", simcore.Pick(g, []string{"websocket", "Websocket"})}, h2Header{"Connection", "Upgrade"},
					h2Header{"Sec-WebSocket-Key", "dGhlIHNhbXBsZSBub25jZQ=="}, h2Header{"Sec-WebSocket-Version", "13"})
			}
			if kind != "websocket" && g.Chance(25) {
				proto := simcore.Pick(g, []string{"https", "http"})
				if g.Bool() {
					rq.Headers = append(rq.Headers, h2Header{simcore.Pick(g, []string{"X-Forwarded-Proto", "x-forwarded-proto"}), proto})
				} else {
					rq.Headers = append(rq.Headers, h2Header{"Forwarded", fmt.Sprintf(simcore.Pick(g, c20FwdForms), proto)})
				}
				sc.fwdProto[rq.ID] = proto
			}
			if rq.Method == "POST" || rq.Method == "PUT" || rq.Method == "PATCH" {
				if g.Bool() {
					rq.Body = g.Bytes(g.Range(1, 3000))
					rq.Chunked = g.Chance(30)
				}
			}
			rq.BodyLen = len(rq.Body)
			rq.Chunks = c07GenChunks(g, len(rq.Body)+100)
			if tlsReported && g.Chance(70) {
				// the connection state the handler gets names another protocol version / cipher suite than the handshake agreed on
				var rep c20TLSRep
				switch g.Intn(3) {
				case 0:
					rep.Cipher = c20GenU16(g)
				case 1:
					rep.Version = c20GenU16(g)
				case 2:
					rep.Version, rep.Cipher = c20GenU16(g), c20GenU16(g)
				}
				if sc.TLSReported == nil {
					sc.TLSReported = map[string]c20TLSRep{}
				}
				sc.TLSReported[rq.ID] = rep
			}
			rs := h2Resp{Status: simcore.Pick(g, c20Statuses), Delay: simcore.Pick(g, c20Delays)}
			if rs.Delay < 0 {
				rs.Delay = time.Duration(c20GenPow10(g, 0, 12))
			}
			if rq.Method == "HEAD" && (rs.Status == 204 || rs.Status == 304) {
				rs.Status = 200 // a bodiless status answering HEAD would be rendered without Content-Length (see below)
			}
			if g.Chance(50) {
				rs.Headers = append(rs.Headers, h2Header{"Content-Type", simcore.Pick(g, []string{"text/plain; charset=utf-8", "application/json", "application/octet-stream"})})
			}
			if g.Chance(30) {
				rs.Headers = append(rs.Headers, h2Header{"X-Up-A", simcore.Pick(g, c20HdrVals[:7])})
			}
			if !h2NoBody(rq.Method, rs.Status) {
				switch g.Intn(5) {
				case 0:
				case 1:
					rs.Body = g.Bytes(g.Range(1, 300))
				case 2:
					n := simcore.Pick(g, c20EdgeSizes)
					if thorough && g.Bool() {
						n = int(c20GenPow10(g, 1, 5))
					}
					rs.Body = g.Bytes(n)
				default:
					rs.Body = g.Bytes(g.Range(1, maxBody))
				}
				// upstream responses always carry Content-Length: for a response of unknown length httputil.ReverseProxy
				// arms an immediate flush timer whose goroutine races with the copy loop in real time, which no seed controls
			} else if rq.Method == "HEAD" {
				rs.Body = g.Bytes(g.Range(0, 50))
			}
			rs.BodyLen = len(rs.Body)
			rs.Chunks = c07GenChunks(g, len(rs.Body)+100)
			// informational responses (103 Early Hints) before the final one: the status of the request is the final one
			if g.Chance(15) {
				rs.Early = g.Range(1, 2)
			}
			switch {
			case kind == "websocket":
				// the upstream refuses the upgrade with an ordinary response (which fabio relays), stays silent beyond
				// the time fabio waits for the handshake, or resets the connection instead of answering
				rs.Early = 0
				rs.Delay = simcore.Pick(g, []time.Duration{0, 0, time.Millisecond, 1234567 * time.Nanosecond})
				switch g.Intn(4) {
				case 2:
					rs.Hang = true
				case 3:
					rs.ResetAt = -1
				}
			case faults && g.Chance(35):
				if g.Bool() {
					rs.Hang = true
				} else {
					rs.ResetAt = -1
				}
			}
			rq.Resp = rs
			cl.Reqs = append(cl.Reqs, rq)
		}
		sc.Clients = append(sc.Clients, cl)
	}
	if len(sc.Self) > 0 {
		// the paths on which fabio composes the answer are of interest for what the log says about the answer
		if !c20HasField(sc.Parts, "$response_body_size") && g.Chance(60) {
			sc.Parts = append(sc.Parts, c20Part{Lit: " "}, c20Part{Field: "$response_status"}, c20Part{Lit: " "}, c20Part{Field: "$response_body_size"})
			sc.Format += " $response_status $response_body_size"
		}
		for ci := range sc.Clients {
			for qi := range sc.Clients[ci].Reqs {
				// fabio waits a fixed second for a websocket handshake: no scripted timer at exactly that distance
				if rs := &sc.Clients[ci].Reqs[qi].Resp; rs.Delay == time.Second {
					rs.Delay++
				}
			}
		}
	}
	if sc.RequestID != "" {
		for i := 0; i < id; i++ {
			var u [24]byte
			copy(u[:], g.Bytes(24))
			switch {
			case i == 0 && g.Bool():
				u = [24]byte{} // leading zero nibbles must be printed
			case i == 1 && g.Bool():
				for j := range u {
					u[j] = 0xff
				}
			case g.Chance(15):
				// both nibbles at the 9/a and f/0 boundaries of the hex digits
				for j := range u {
					u[j] = []byte{0x09, 0x0a, 0x90, 0xa0, 0x0f, 0xf0, 0x10, 0x01, 0x9a, 0xa9}[(i+j)%10]
				}
			}
			sc.uuids = append(sc.uuids, u)
		}
	}
	sc.Target = c20GenTarget(g, id)
	return sc
}

func c20Table(sc *c20Scenario) string {
	var b strings.Builder
	for _, rt := range sc.Routes {
		target := rt.Scheme + "://" + rt.Host + "/"
		if rt.Query != "" {
			target += "?" + rt.Query
		}
		var opts []string
		if rt.Strip != "" {
			opts = append(opts, "strip="+rt.Strip)
		}
		if rt.Prepend != "" {
			opts = append(opts, "prepend="+rt.Prepend)
		}
		if rt.Scheme == "https" {
			opts = append(opts, "tlsskipverify=true")
		}
		if rt.HostOpt != "" {
			opts = append(opts, "host="+rt.HostOpt)
		}
		switch rt.Kind {
		case "denied":
			opts = append(opts, "allow=ip:203.0.113.99") // none of the clients
		case "redirect":
			target = rt.Scheme + "://" + rt.Host + "/moved"
			opts = append(opts, "redirect=301")
		}
		fmt.Fprintf(&b, "route add %s %s %s", rt.Service, rt.Prefix, target)
		if len(opts) > 0 {
			fmt.Fprintf(&b, " opts \"%s\"", strings.Join(opts, " "))
		}
		b.WriteString("\n")
	}
	return b.String()
}

// ---------------------------------------------------------------- faults of the log target

// c20WFault is one fault of the access log target: it starts at the At-th Write call (counted from 0 over all calls
// of the run) and affects Count calls in a row.
type c20WFault struct {
	At   int    `json:"at_write"`
	Kind string `json:"kind"` // error | short | block | panic
	// error / short / panic: Write calls affected in a row (1000: every call from At on)
	Count int `json:"writes_affected"`
	// error / short: portion of the bytes the target accepts before it reports the error (always fewer than all)
	Accept int `json:"accepted_permille,omitempty"`
	// block: the call goes on at a driver event that is offered once BlockFor of simulated time has passed and, if
	// Late, only when nothing else can happen (every other request has got as far as it can get)
	Late     bool          `json:"unblocked_only_when_nothing_else_can_happen,omitempty"`
	BlockFor time.Duration `json:"blocks_at_least,omitempty"`
}

var c20WKinds = []string{"error", "error", "error", "short", "short", "block", "block", "block", "panic", "panic"}

// c20GenTarget draws the faults of the log target for a scenario that plans total Log calls.
func c20GenTarget(g *simcore.Tape, total int) []c20WFault {
	if !g.Chance(35) {
		return nil
	}
	var out []c20WFault
	// the first fault begins while later Log calls are still to come (if the scenario has more than one)
	at := 0
	if total > 2 {
		at = g.Intn(total - 1)
	}
	n := 1
	if g.Chance(30) {
		n = 2
	}
	for i := 0; i < n; i++ {
		f := c20WFault{At: at, Kind: simcore.Pick(g, c20WKinds), Count: 1}
		switch f.Kind {
		case "error":
			f.Count = simcore.Pick(g, []int{1, 1, 1, 2, 3, 1000})
			f.Accept = simcore.Pick(g, []int{0, 0, 0, 500, 999})
		case "short":
			f.Count = simcore.Pick(g, []int{1, 1, 2, 3, 1000})
			f.Accept = simcore.Pick(g, []int{500, 0, 1, 999})
		case "panic":
			f.Count = simcore.Pick(g, []int{1, 1, 2})
		case "block":
			f.Late = g.Bool()
			f.BlockFor = simcore.Pick(g, []time.Duration{0, 0, time.Millisecond, time.Second, time.Minute, time.Hour})
		}
		out = append(out, f)
		at += f.Count + g.Intn(2)
	}
	return out
}

// ---------------------------------------------------------------- scenario of the direct part

type c20DHeader struct {
	Name string   `json:"name"`             // canonical
	Vals []string `json:"values,omitempty"` // none: the entry has no values
	Nil  bool     `json:"nil_value_list,omitempty"`
}

type c20DURL struct {
	Scheme string `json:"scheme"`
	Host   string `json:"host"`
	Path   string `json:"path"`
	Query  string `json:"query,omitempty"`
}

func (u *c20DURL) url() *url.URL {
	if u == nil {
		return nil
	}
	return &url.URL{Scheme: u.Scheme, Host: u.Host, Path: u.Path, RawQuery: u.Query}
}

// c20DEvent describes one logger.Event handed to Logger.Log.
type c20DEvent struct {
	NoRequest    bool          `json:"no_request,omitempty"`
	Method       string        `json:"method,omitempty"`
	URI          string        `json:"request_uri,omitempty"`
	Proto        string        `json:"proto,omitempty"`
	Host         string        `json:"host,omitempty"`
	Remote       string        `json:"remote_addr,omitempty"`
	NilHeader    bool          `json:"nil_header_map,omitempty"`
	Headers      []c20DHeader  `json:"headers,omitempty"`
	NoResponse   bool          `json:"no_response,omitempty"`
	Status       int           `json:"status"`
	Size         int64         `json:"size"`
	RequestURL   *c20DURL      `json:"request_url,omitempty"`
	UpstreamAddr string        `json:"upstream_addr"`
	Service      string        `json:"upstream_service"`
	UpstreamURL  *c20DURL      `json:"upstream_url,omitempty"`
	End          string        `json:"end"`
	ZeroEnd      bool          `json:"end_is_zero_time,omitempty"`
	Zone         string        `json:"zone,omitempty"`
	ZoneOffset   int           `json:"zone_offset_s,omitempty"`
	Dur          time.Duration `json:"duration"`
	ZeroStart    bool          `json:"start_is_zero_time,omitempty"`

	end time.Time
}

type c20Direct struct {
	Tasks [][]c20DEvent `json:"tasks"`
}

// address forms: host:port, host, IPv4[:port], [IPv6]:port, [IPv6], zoned, empty port, empty host, empty, IPv6 without
// brackets (host / port not judged there), "@" (what net/http reports for a unix socket peer)
var c20DRemotes = []string{"192.0.2.10:5000", "[2001:db8::c1]:6000", "[fe80::1%eth0]:7000", "192.0.2.10", "[2001:db8::c2]", "", "client.sim:1", "2001:db8::c3", "@", ":6000", "192.0.2.11:"}
var c20DUpstreams = []string{"up0.sim:8080", "backend0", "198.51.100.7:9000", "198.51.100.7", "[2001:db8::5]:8080", "[2001:db8::a0]", "[fe80::2%eth1]:80", "", "up0.sim:65535", "up0.sim:", ":8080", "2001:db8::b", "sec0.sim:8443"}
var c20DURLHosts = []string{"up0.sim:8080", "backend0", "198.51.100.7:9000", "[2001:db8::5]:8080", "[2001:db8::a0]", "", "sec0.sim"}
var c20DSchemes = []string{"http", "https", "ws", "wss", ""}
var c20DProtos = []string{"HTTP/1.1", "HTTP/1.0", "HTTP/2.0", ""}
var c20DURIs = []string{"/", "/p0/a?a=1", "*", "", "/p0/a;v=1?x=%2F%20&y=+", "http://www.example.com/absolute?q", "/" + strings.Repeat("seg/", 300)}

// -1: a PRNG value; -2: a power of ten or its predecessor
var c20DStatuses = []int{200, 0, 1, 99, 100, 404, 599, 999, -1, 1000, 9, 10, -2, 65535, 65536, math.MaxInt32}
var c20DSizes = []int64{0, 1, 1023, 1 << 31, 1<<32 + 5, 1 << 40, -1, 1<<40 - 1, -2, -2, -2, math.MaxInt32, math.MaxUint32, math.MaxInt64 - 1, math.MaxInt64}
var c20DDurs = []time.Duration{0, 1, 999, time.Microsecond, 999999 * time.Nanosecond, 1234567 * time.Nanosecond, 999999999 * time.Nanosecond, time.Second, 61*time.Second + 500*time.Microsecond,
	2*time.Hour + 3*time.Nanosecond, 24 * 365 * time.Hour, 100 * 24 * 365 * time.Hour, math.MaxInt64 - 1, math.MaxInt64,
	// -2: a power of ten of nanoseconds (1 ns .. 10^18 ns) or the nanosecond before it
	-2, -2, -2, time.Millisecond - 1, time.Millisecond, time.Minute - 1, time.Minute, time.Hour - 1, time.Hour}

func c20GenDURL(g *simcore.Tape, host string) *c20DURL {
	u := &c20DURL{Scheme: simcore.Pick(g, c20DSchemes), Host: host}
	u.Path = simcore.Pick(g, []string{"/", "/p0" + simcore.Pick(g, c20Suffixes), ""})
	u.Query = simcore.Pick(g, c20Queries)
	return u
}

func c20GenDirect(g *simcore.Tape, sc *c20Scenario, thorough bool) {
	unix := c20HasField(sc.Parts, "$time_unix")
	sc.FineYields = g.Chance(25)
	sc.Stick = []int{1, 1, 3, 8}[g.Intn(4)]
	dd := &c20Direct{}
	sc.Direct = dd
	names := map[string]bool{}
	var hdrNames []string
	for _, n := range c20LogHeaders {
		if c := http.CanonicalHeaderKey(n); !names[c] && c != "X-Absent" {
			names[c] = true
			hdrNames = append(hdrNames, c)
		}
	}
	nt := g.Range(2, 4)
	if thorough {
		nt = g.Range(2, 6)
	}
	for t := 0; t < nt; t++ {
		var evs []c20DEvent
		n := g.Range(1, 4)
		for k := 0; k < n; k++ {
			ev := c20DEvent{}
			host := simcore.Pick(g, c20Hosts)
			if g.Chance(10) {
				host = ""
			}
			ev.NoRequest = g.Chance(12)
			if !ev.NoRequest {
				ev.Method = simcore.Pick(g, c20Methods)
				if g.Chance(5) {
					ev.Method = ""
				}
				ev.URI = simcore.Pick(g, c20DURIs)
				ev.Proto = simcore.Pick(g, c20DProtos)
				ev.Host = host
				ev.Remote = simcore.Pick(g, c20DRemotes)
				switch g.Intn(8) {
				case 0:
					ev.NilHeader = true
				case 1: // empty map
				default:
					nh := g.Range(1, 5)
					used := map[string]bool{}
					for i := 0; i < nh; i++ {
						h := c20DHeader{Name: simcore.Pick(g, hdrNames)}
						if used[h.Name] {
							continue
						}
						used[h.Name] = true
						switch g.Intn(6) {
						case 0, 1:
							h.Vals = []string{simcore.Pick(g, c20HdrVals)}
						case 2:
							h.Nil = true // r.Header[name] = nil: "do not populate this header"
						case 3:
							h.Vals = []string{}
						case 4:
							h.Vals = []string{simcore.Pick(g, c20HdrVals), simcore.Pick(g, c20HdrVals), ""}
						case 5:
							h.Vals = []string{"", simcore.Pick(g, c20HdrVals)}
						}
						if h.Name == "X-Long" && len(h.Vals) > 0 {
							h.Vals[0] = strings.Repeat("L", 900+g.Intn(1500)) + "!"
						}
						ev.Headers = append(ev.Headers, h)
					}
				}
			}
			ev.NoResponse = g.Chance(10)
			if !ev.NoResponse {
				ev.Status = simcore.Pick(g, c20DStatuses)
				switch ev.Status {
				case -1:
					ev.Status = g.Intn(1000)
				case -2:
					ev.Status = int(c20GenPow10(g, 1, 9))
				}
				ev.Size = simcore.Pick(g, c20DSizes)
				switch ev.Size {
				case -1:
					ev.Size = int64(g.Intn(1<<30)) << uint(g.Intn(11))
				case -2:
					ev.Size = c20GenPow10(g, 1, 18)
				}
			}
			if !g.Chance(12) {
				// the URL of the incoming request: its host is the request's host
				ev.RequestURL = c20GenDURL(g, host)
			}
			ev.UpstreamAddr = simcore.Pick(g, c20DUpstreams)
			ev.Service = simcore.Pick(g, []string{"svc0", "svc-0_web", "My.Service.0", "", "caf\u00e9"})
			if !g.Chance(12) {
				ev.UpstreamURL = c20GenDURL(g, simcore.Pick(g, c20DURLHosts))
			}
			// times
			if !unix && g.Chance(10) {
				ev.ZeroEnd = true // the zero time: 1 January of year 1
			} else {
				ev.end = c20GenEpoch(g, unix)
				z := simcore.Pick(g, c20Zones)
				ev.Zone, ev.ZoneOffset = z.Name, z.Off
				ev.Dur = simcore.Pick(g, c20DDurs)
				if ev.Dur == -2 {
					ev.Dur = time.Duration(c20GenPow10(g, 0, 18))
				}
				if !unix && g.Chance(8) {
					ev.ZeroStart = true // the longest time span there is
				}
				// the start stays within the years the formats can print (and, with unix-epoch fields, where they are defined)
				floor := time.Date(1, 1, 1, 0, 0, 0, 0, time.UTC)
				if unix {
					floor = time.Unix(0, 0)
				}
				if max := ev.end.Sub(floor); ev.Dur > max {
					ev.Dur = max
				}
			}
			ev.End = ev.end.Format("2006-01-02T15:04:05.000000000Z07:00")
			evs = append(evs, ev)
		}
		dd.Tasks = append(dd.Tasks, evs)
	}
	total := 0
	for _, evs := range dd.Tasks {
		total += len(evs)
	}
	sc.Target = c20GenTarget(g, total)
}

// ---------------------------------------------------------------- observation

type c20Write struct {
	b   []byte // the bytes the target accepted
	key string // task that wrote + "#" + number of the Logger.Log call it is in (handler tasks: always 0)
	// the target refused this write (error, short count, panic): what it was handed and which fault it was
	failed  bool
	attempt []byte
	fault   string
}

// c20WriterPanic is the value the log target panics with.
type c20WriterPanic struct{}

// c20MaxTries: refused writes of one Log call after which the call counts as never ending
const c20MaxTries = 500

var errC20Target = errors.New("write /var/log/fabio/access.log: no space left on device")

// c20Writer is the access log target: it keeps every Write call apart (the logger issues one per line) and plays the
// faults of the scenario.
type c20Writer struct {
	mu     sync.Mutex
	writes []c20Write
	call   map[string]int // direct part: task -> index of the Logger.Log call in progress

	r        *simcore.Run
	hint     func(time.Time)
	faults   []c20WFault
	ncalls   int
	fired    []string        // kinds of the faults that fired, in order
	panicked map[string]bool // keys of the writes at which the target panicked
	tries    map[string]int  // key -> refused writes of that Log call
	stop     chan struct{}   // closed at teardown
	// a blocked Write call waits for blocked to be closed
	blocked   chan struct{}
	blockedBy c20WFault
	blockedAt time.Time
}

func c20NewWriter(r *simcore.Run, sc *c20Scenario, hint func(time.Time)) *c20Writer {
	return &c20Writer{r: r, hint: hint, faults: sc.Target, panicked: map[string]bool{}, tries: map[string]int{}, stop: make(chan struct{})}
}

func (w *c20Writer) Write(p []byte) (int, error) {
	t := simhook.CurrentTask()
	w.mu.Lock()
	key := fmt.Sprintf("%s#%d", t, w.call[t])
	n := w.ncalls
	w.ncalls++
	var f *c20WFault
	for i := range w.faults {
		if x := &w.faults[i]; x.At <= n && n-x.At < x.Count {
			f = x
			break
		}
	}
	if f != nil && f.Kind != "block" {
		// a Log call that hands its line to a target that keeps refusing it over and over never ends: reported once, and
		// the target gives in so that the run does
		if w.tries[key]++; w.tries[key] > c20MaxTries {
			if w.tries[key] == c20MaxTries+1 {
				w.r.Fail("lockup", "log-call-retries-forever/after-log-target-"+f.Kind, "the Log call %s has handed its line to the log target %d times, the target refuses every write from write %d on (%s): the call does not end while the target is out of order", key, c20MaxTries, f.At, f.Kind)
			}
			f = nil
		}
	}
	if f == nil {
		w.writes = append(w.writes, c20Write{b: append([]byte(nil), p...), key: key})
		w.mu.Unlock()
		return len(p), nil
	}
	w.fired = append(w.fired, f.Kind)
	w.r.Fault("log_target_" + f.Kind)
	switch f.Kind {
	case "error", "short":
		k := len(p) * f.Accept / 1000
		if f.Accept > 0 && k == 0 {
			k = 1
		}
		if k >= len(p) {
			k = len(p) - 1
		}
		if k < 0 {
			k = 0
		}
		err := errC20Target
		if f.Kind == "short" {
			err = io.ErrShortWrite
		}
		w.writes = append(w.writes, c20Write{b: append([]byte(nil), p[:k]...), key: key, failed: true, attempt: append([]byte(nil), p...), fault: f.Kind})
		w.r.Tracef("log target: write %d (%s) accepts %d of %d bytes and returns %q", n, key, k, len(p), err)
		w.mu.Unlock()
		return k, err
	case "panic":
		w.writes = append(w.writes, c20Write{key: key, failed: true, attempt: append([]byte(nil), p...), fault: f.Kind})
		w.panicked[key] = true
		w.r.Tracef("log target: write %d (%s) panics", n, key)
		w.mu.Unlock()
		panic(c20WriterPanic{})
	}
	// block: the bytes are accepted once the driver lets the call go on
	ch := make(chan struct{})
	w.blocked, w.blockedBy, w.blockedAt = ch, *f, time.Now()
	w.r.Tracef("log target: write %d (%s) blocks", n, key)
	w.mu.Unlock()
	if f.BlockFor > 0 && w.hint != nil {
		w.hint(time.Now().Add(f.BlockFor))
	}
	select {
	case <-ch:
	case <-w.stop:
	}
	w.mu.Lock()
	w.writes = append(w.writes, c20Write{b: append([]byte(nil), p...), key: key})
	w.mu.Unlock()
	return len(p), nil
}

func (w *c20Writer) enter(task string, k int) {
	w.mu.Lock()
	if w.call == nil {
		w.call = map[string]int{}
	}
	w.call[task] = k
	w.mu.Unlock()
}

func (w *c20Writer) isBlocked() bool {
	w.mu.Lock()
	defer w.mu.Unlock()
	return w.blocked != nil
}

// raisedPanic reports whether the target panicked in the write of that Log call.
func (w *c20Writer) raisedPanic(key string) bool {
	w.mu.Lock()
	defer w.mu.Unlock()
	return w.panicked[key]
}

// after names the fault of the target that fired last (for signatures).
func (w *c20Writer) after() string {
	w.mu.Lock()
	defer w.mu.Unlock()
	if len(w.fired) == 0 {
		return ""
	}
	return "/after-log-target-" + w.fired[len(w.fired)-1]
}

// source offers the event that lets a blocked Write call go on. others counts what else the driver could do (besides
// releasing tasks).
func (w *c20Writer) source(d *simcore.Driver, others func() int) simcore.Source {
	return func() []simcore.Event {
		w.mu.Lock()
		ch, f, at := w.blocked, w.blockedBy, w.blockedAt
		w.mu.Unlock()
		if ch == nil || time.Now().Before(at.Add(f.BlockFor)) {
			return nil
		}
		if f.Late && (len(d.Sim.Enabled()) > 0 || others() > 0) {
			return nil
		}
		return []simcore.Event{{Key: "zlogtarget:unblock", Fire: func() {
			waiting := 0
			for _, st := range d.Sim.TaskStates() {
				if strings.Contains(st, " lock-wait ") {
					waiting++
				}
			}
			if waiting > 0 {
				w.r.Probe("log_calls_queued_behind_blocked_target")
			}
			w.r.Tracef("log target: the blocked write goes on (%d tasks wait for a lock)", waiting)
			w.mu.Lock()
			w.blocked = nil
			w.mu.Unlock()
			close(ch)
		}}}
	}
}

// c20Drive steps the driver until done holds; while a Write call of the log target is blocked and nothing is enabled
// the clock moves on (the event that unblocks it may be due later).
func c20Drive(d *simcore.Driver, w *c20Writer, maxSteps int, horizon time.Duration, done func() bool) bool {
	for i := 0; i < maxSteps; i++ {
		synctest.Wait()
		if done() {
			return true
		}
		if !d.Step() {
			if !w.isBlocked() || !d.IdleAdvance(horizon) {
				break
			}
		}
	}
	synctest.Wait()
	return done()
}

// c20Stuck decides what it means that the run cannot go on although Log calls are unfinished: nothing is enabled, the
// target holds no call, and tasks wait for a lock nobody will release or have not come back from package logger.
func c20Stuck(r *simcore.Run, d *simcore.Driver, w *c20Writer, what string) bool {
	synctest.Wait()
	if w.isBlocked() || len(d.Events()) > 0 {
		return false
	}
	states := d.Sim.TaskStates()
	lockWait := 0
	for _, st := range states {
		if strings.Contains(st, " lock-wait ") {
			lockWait++
		}
	}
	inLogger := d.Sim.InFunc("logger", "")
	w.mu.Lock()
	fired := append([]string(nil), w.fired...)
	w.mu.Unlock()
	switch {
	case lockWait > 0 && inLogger > 0:
		r.Fail("lockup", "logger-lock-never-released"+w.after(), "%s: %d tasks wait forever for a lock nobody will release, %d of them inside package logger (faults of the log target so far: %v; the target holds no call): %v", what, lockWait, inLogger, fired, states)
	case lockWait > 0:
		r.Fail("lockup", "lock-never-released"+w.after(), "%s: %d tasks wait forever for a lock nobody will release (faults of the log target so far: %v): %v", what, lockWait, fired, states)
	case inLogger > 0:
		r.Fail("lockup", "log-call-never-returns"+w.after(), "%s: %d tasks never come back from package logger although the log target holds no call (faults of the log target so far: %v): %v", what, inLogger, fired, states)
	default:
		return false
	}
	return true
}

// c20Obs is what the harness observes at its own seams (handler wrapper, clock, uuid source).
type c20Obs struct {
	mu      sync.Mutex
	perConn map[string]int
	taskReq map[string]string      // handler task -> request id
	remote  map[string]string      // request id -> RemoteAddr as net/http reports it for the simulated connection
	tlsVer  map[string]uint16      // request id -> negotiated version / suite as crypto/tls reports them
	tlsSuit map[string]uint16      //
	clock   map[string][]time.Time // handler task -> instants handed out by HTTPProxy.Time
	uuidOf  map[string][24]byte    // handler task -> raw uuid handed out
	nuuid   int
	strays  int // clock/uuid calls from something that is not a handler task
}

// ---------------------------------------------------------------- reference rendering

// c20Event is a log event as the reference sees it: plain values taken from what the raw client sent / received, the
// route and the clock (proxy part) or from the generated logger.Event (direct part).
type c20Event struct {
	key  string // c20Write.key of the line that has to describe this event
	what string // for messages

	hasReq  bool // the event has a request
	method  string
	uri     string
	proto   string
	hosts   []string // acceptable $request_host
	header  func(name string) string
	hdrBare bool // the header map has entries without values
	remote  string
	hasURL  bool // the URL of the incoming request is known
	scheme  string
	args    string
	url     string
	hasResp bool
	status  int
	size    int64
	times   []time.Time // start ... end: instants the clock handed to this request's handler, in order
	upAddr  string      // host[:port] of the upstream as written in the route / the event
	upDef   string      // default port of the upstream scheme ("" if unknown)
	hasUp   bool        // the URL sent to the upstream is known
	upSch   string
	upURI   string
	upURL   string
	service string

	ipv6Cli  bool
	hostOpt  bool
	fwdProto bool
	interim  int // informational responses the client received before the final one

	// optional: the statement does not decide whether this exchange has to be logged (see the assumptions): no line is
	// demanded, but a line its handler writes has to describe it
	optional bool
	nothing  bool     // the client received not one byte in answer: no status to compare with, 0 body bytes
	schemes  []string // acceptable $request_scheme if more than one reading exists (websocket upgrades)
	upSchs   []string // acceptable $upstream_request_scheme, likewise
	upAny    bool     // no upstream is involved (no route, denied, redirect): $upstream_* are not judged
	upURIAny bool     // the upstream never saw the request: the request-target sent to it is not known
	path     string   // how the exchange was answered, for signatures
}

// c20Any stands for "not judged": any text is accepted for the field.
var c20Any = []string{"\x00any"}

func c20IsAny(a []string) bool { return len(a) == 1 && a[0] == c20Any[0] }

func c20URI(rq *h2Req) string {
	if rq.Query != "" || rq.HasQ {
		return rq.Path + "?" + rq.Query
	}
	return rq.Path
}

func c20Dedup(xs []string) []string {
	var out []string
	for _, x := range xs {
		dup := false
		for _, y := range out {
			if x == y {
				dup = true
			}
		}
		if !dup {
			out = append(out, x)
		}
	}
	return out
}

// c20Secs renders a duration as seconds with the given number of fractional digits; where the digits beyond are not
// zero both the truncated and the rounded value are accepted (the documentation only says "S.sss format").
func c20Secs(d time.Duration, digits int) []string {
	unit := int64(1)
	for i := digits; i < 9; i++ {
		unit *= 10
	}
	perSec := int64(time.Second) / unit
	n := int64(d)
	render := func(q int64) string { return fmt.Sprintf("%d.%0*d", q/perSec, digits, q%perSec) }
	out := []string{render(n / unit)}
	if n%unit != 0 && n <= math.MaxInt64-unit {
		out = append(out, render((n+unit/2)/unit))
	}
	return c20Dedup(out)
}

// what may stand for a value the event does not have (the documentation does not say; fabio prints nothing)
var c20Absent = []string{"", "-"}
var c20AbsentNum = []string{"", "-", "0"}

// c20SplitAddr is the reference for "host of" / "port of" an address "with or without a port": net.SplitHostPort where
// it applies, a bracketed IPv6 literal or a colon-free host without port otherwise. An IPv6 literal written without
// brackets is ambiguous (Go's own convention requires the brackets): both ways of reading it are accepted.
func c20SplitAddr(s string) (hosts, ports []string, ipv6, noPort bool) {
	if h, p, err := net.SplitHostPort(s); err == nil {
		return []string{h}, []string{p}, strings.Contains(h, ":"), p == ""
	}
	if len(s) >= 2 && s[0] == '[' && s[len(s)-1] == ']' {
		return []string{s[1 : len(s)-1]}, []string{""}, true, true
	}
	if i := strings.LastIndexByte(s, ':'); i >= 0 {
		return []string{s, s[:i]}, []string{"", s[i+1:]}, true, true
	}
	return []string{s}, []string{""}, false, true
}

// c20Render returns the acceptable renderings of one documented field for an event.
func c20Render(field string, ev *c20Event) []string {
	if name, ok := strings.CutPrefix(field, "$header."); ok {
		if !ev.hasReq {
			return c20Absent
		}
		return []string{ev.header(name)}
	}
	eachTime := func(f func(t time.Time) string) []string {
		var out []string
		for _, t := range ev.times {
			out = append(out, f(t.UTC()))
		}
		return c20Dedup(out)
	}
	layout := func(l string) []string { return eachTime(func(t time.Time) string { return t.Format(l) }) }
	opt := func(has bool, v string) []string {
		if !has {
			return c20Absent
		}
		return []string{v}
	}
	if len(ev.times) < 2 && (strings.HasPrefix(field, "$time_") || strings.HasPrefix(field, "$response_time_")) {
		return c20Any // fabio did not read the clock for this exchange
	}
	if ev.upAny && strings.HasPrefix(field, "$upstream_") {
		return c20Any
	}
	switch field {
	case "$remote_addr":
		return opt(ev.hasReq, ev.remote)
	case "$remote_host":
		if !ev.hasReq {
			return c20Absent
		}
		h, _, _, _ := c20SplitAddr(ev.remote)
		return h
	case "$remote_port":
		if !ev.hasReq {
			return c20Absent
		}
		_, p, _, _ := c20SplitAddr(ev.remote)
		return p
	case "$request":
		if !ev.hasReq {
			return []string{"", "-", "  "}
		}
		return []string{ev.method + " " + ev.uri + " " + ev.proto}
	case "$request_args":
		return opt(ev.hasURL, ev.args)
	case "$request_host":
		return ev.hosts
	case "$request_method":
		return opt(ev.hasReq, ev.method)
	case "$request_scheme":
		if len(ev.schemes) > 0 {
			return ev.schemes
		}
		return opt(ev.hasURL, ev.scheme)
	case "$request_uri":
		return opt(ev.hasReq, ev.uri)
	case "$request_url":
		if len(ev.schemes) > 0 {
			var out []string
			for _, sch := range ev.schemes {
				out = append(out, sch+strings.TrimPrefix(ev.url, ev.scheme))
			}
			return out
		}
		return opt(ev.hasURL, ev.url)
	case "$request_proto":
		return opt(ev.hasReq, ev.proto)
	case "$response_body_size":
		if !ev.hasResp {
			return c20AbsentNum
		}
		return []string{strconv.FormatInt(ev.size, 10)}
	case "$response_status":
		if !ev.hasResp {
			return c20AbsentNum
		}
		if ev.nothing {
			return c20Any // the client received no status line: nothing to compare with
		}
		return []string{strconv.Itoa(ev.status)}
	case "$response_time_ms", "$response_time_us", "$response_time_ns":
		d := ev.times[len(ev.times)-1].Sub(ev.times[0])
		return c20Secs(d, map[string]int{"$response_time_ms": 3, "$response_time_us": 6, "$response_time_ns": 9}[field])
	case "$time_rfc3339":
		return layout("2006-01-02T15:04:05Z07:00")
	case "$time_rfc3339_ms":
		return layout("2006-01-02T15:04:05.000Z07:00")
	case "$time_rfc3339_us":
		return layout("2006-01-02T15:04:05.000000Z07:00")
	case "$time_rfc3339_ns":
		return layout("2006-01-02T15:04:05.000000000Z07:00")
	case "$time_unix_ms":
		return eachTime(func(t time.Time) string { return strconv.FormatInt(t.UnixMilli(), 10) })
	case "$time_unix_us":
		return eachTime(func(t time.Time) string { return strconv.FormatInt(t.UnixMicro(), 10) })
	case "$time_unix_ns":
		return eachTime(func(t time.Time) string { return strconv.FormatInt(t.UnixNano(), 10) })
	case "$time_common":
		return layout("02/Jan/2006:15:04:05 -0700")
	case "$upstream_addr":
		// "host:port of upstream server": for a target written without port both the bare host and host:default-port are accepted
		if _, _, _, noPort := c20SplitAddr(ev.upAddr); noPort && ev.upDef != "" && !strings.HasSuffix(ev.upAddr, ":") {
			return []string{ev.upAddr, ev.upAddr + ":" + ev.upDef}
		}
		return []string{ev.upAddr}
	case "$upstream_host":
		h, _, _, _ := c20SplitAddr(ev.upAddr)
		return h
	case "$upstream_port":
		_, p, _, noPort := c20SplitAddr(ev.upAddr)
		if noPort && ev.upDef != "" {
			p = append(p, ev.upDef)
		}
		return p
	case "$upstream_request_scheme":
		if len(ev.upSchs) > 0 {
			return ev.upSchs
		}
		return opt(ev.hasUp, ev.upSch)
	case "$upstream_request_uri":
		if ev.upURIAny {
			return c20Any
		}
		return opt(ev.hasUp, ev.upURI)
	case "$upstream_request_url":
		if ev.upURIAny {
			return c20Any
		}
		if len(ev.upSchs) > 0 {
			var out []string
			for _, sch := range ev.upSchs {
				out = append(out, sch+strings.TrimPrefix(ev.upURL, ev.upSch))
			}
			return out
		}
		return opt(ev.hasUp, ev.upURL)
	case "$upstream_service":
		return []string{ev.service}
	}
	return nil
}

// c20Match reports whether line is a concatenation of one alternative per part (a nil entry matches any text); if not,
// the index of the first part at which no alternative fits any more (len(parts): the parts fit but the line goes on).
func c20Match(line string, parts [][]string) (bool, int) {
	pos := []int{0}
	for i, alts := range parts {
		var next []int
		if alts == nil {
			for q := pos[0]; q <= len(line); q++ {
				next = append(next, q)
			}
			pos = next
			continue
		}
		for _, p := range pos {
			for _, a := range alts {
				if strings.HasPrefix(line[p:], a) {
					q := p + len(a)
					dup := false
					for _, x := range next {
						if x == q {
							dup = true
						}
					}
					if !dup {
						next = append(next, q)
					}
				}
			}
		}
		if len(next) == 0 {
			return false, i
		}
		sort.Ints(next)
		pos = next
	}
	for _, p := range pos {
		if p == len(line) {
			return true, -1
		}
	}
	return false, len(parts)
}

// c20Blame finds the part of a non-matching line that is wrong: the field such that the line matches once that field
// may be any text - if several qualify, the one that has to stand for the fewest bytes; then the first pair of fields
// with that property; failing that, the part where prefix matching stops.
func c20Blame(line string, alts [][]string, isField func(i int) bool) int {
	n := len(alts)
	// fwd[i]: offsets reachable after parts[0:i]; bwd[i]: offsets from which parts[i:] reach the end of the line
	fwd := make([]map[int]bool, n+1)
	bwd := make([]map[int]bool, n+1)
	fwd[0] = map[int]bool{0: true}
	for i := 0; i < n; i++ {
		fwd[i+1] = map[int]bool{}
		for p := range fwd[i] {
			if alts[i] == nil {
				for q := p; q <= len(line); q++ {
					fwd[i+1][q] = true
				}
			}
			for _, a := range alts[i] {
				if strings.HasPrefix(line[p:], a) {
					fwd[i+1][p+len(a)] = true
				}
			}
		}
	}
	bwd[n] = map[int]bool{len(line): true}
	for i := n - 1; i >= 0; i-- {
		bwd[i] = map[int]bool{}
		for q := range bwd[i+1] {
			if alts[i] == nil {
				for p := 0; p <= q; p++ {
					bwd[i][p] = true
				}
			}
			for _, a := range alts[i] {
				if strings.HasSuffix(line[:q], a) {
					bwd[i][q-len(a)] = true
				}
			}
		}
	}
	best, bestSpan := -1, 0
	for k := 0; k < n; k++ {
		if !isField(k) || alts[k] == nil {
			continue
		}
		span := -1
		for p := range fwd[k] {
			for q := range bwd[k+1] {
				if q >= p && (span < 0 || q-p < span) {
					span = q - p
				}
			}
		}
		if span >= 0 && (best < 0 || span < bestSpan) {
			best, bestSpan = k, span
		}
	}
	if best >= 0 {
		return best
	}
	with := func(ks ...int) bool {
		cp := append([][]string(nil), alts...)
		for _, k := range ks {
			cp[k] = nil
		}
		ok, _ := c20Match(line, cp)
		return ok
	}
	for k := range alts {
		for k2 := k + 1; k2 < len(alts); k2++ {
			if isField(k) && isField(k2) && alts[k] != nil && alts[k2] != nil && with(k, k2) {
				return k
			}
		}
	}
	_, at := c20Match(line, alts)
	return at
}

// c20Sig names the kind of a field mismatch without random data.
func c20Sig(ev *c20Event, field string) string {
	var last time.Time
	if len(ev.times) > 0 {
		last = ev.times[len(ev.times)-1]
	}
	_, off := last.Zone()
	switch {
	case field == "":
		return "literal-text"
	case strings.HasPrefix(field, "$header."):
		if ev.hdrBare {
			return "$header/entries-without-values"
		}
		return "$header"
	case strings.HasPrefix(field, "$time_"):
		switch {
		case off != 0:
			return field + "/clock-in-local-zone"
		case last.Year() > 9999:
			return field + "/five-digit-year"
		}
	case strings.HasPrefix(field, "$remote_"):
		if ev.ipv6Cli {
			return field + "/ipv6"
		}
	case field == "$upstream_addr" || field == "$upstream_host" || field == "$upstream_port":
		q := ""
		_, _, v6, noPort := c20SplitAddr(ev.upAddr)
		if v6 {
			q += "/ipv6"
		}
		if noPort {
			q += "/no-port"
		}
		return field + q
	case field == "$request_host" || field == "$request_url" || field == "$request_scheme":
		q := ""
		if ev.hostOpt && field != "$request_scheme" {
			q += "/route-with-host-option"
		}
		if ev.fwdProto && field != "$request_host" {
			q += "/client-sent-forwarded-proto"
		}
		return field + q
	case (field == "$response_status" || field == "$response_body_size") && !ev.hasResp:
		return field + "/no-response"
	case (field == "$response_status" || field == "$response_body_size") && ev.interim > 0:
		return field + "/after-informational-response"
	case (field == "$response_status" || field == "$response_body_size") && ev.path != "":
		return field + "/" + ev.path
	}
	return field
}

func c20Clip(s string) string { return c20ClipN(s, 300) }

func c20ClipN(s string, n int) string {
	if len(s) > n {
		return fmt.Sprintf("%s...(%d bytes)", s[:n], len(s))
	}
	return s
}

// ---------------------------------------------------------------- the run

func runC20(r *simcore.Run) {
	sc := c20Gen(r.Gen, r.Thorough())
	r.SetSample(sc)
	if sc.Direct != nil {
		runC20Direct(r, sc)
		return
	}

	cfg := &config.Config{}
	cfg.Proxy.Strategy = "rnd"
	cfg.Proxy.Matcher = "prefix"
	cfg.Proxy.NoRouteStatus = 404
	cfg.GlobCacheSize = 100
	cfg.Proxy.DialTimeout = sc.DialTimeout
	cfg.Proxy.ResponseHeaderTimeout = sc.HeaderTimeout
	cfg.Proxy.RequestID = sc.RequestID
	cfg.Proxy.STSHeader = config.STSHeader{MaxAge: sc.STSMaxAge, Subdomains: sc.STSSub, Preload: sc.STSPreload}
	e := h2NewEnv(r, cfg, c20Table(sc))
	defer e.finish()
	// the page sent with the no-route status is process-wide state: set in every run
	noroute.SetHTML(strings.Repeat("<html>no route</html>\n", (sc.NoRoutePage+21)/22)[:sc.NoRoutePage])
	// a connection attempt that is never answered ends at its time limit: the clock has to get there
	if dial := e.d.Sim.Dial; dial != nil {
		e.d.Sim.Dial = func(ctx context.Context, network, addr string, timeout, keepAlive time.Duration) (net.Conn, error) {
			if timeout > 0 {
				e.d.Hint(time.Now().Add(timeout))
			}
			return dial(ctx, network, addr, timeout, keepAlive)
		}
	}

	// the access logger under test, writing to the recording (and fault-playing) target
	w := c20NewWriter(r, sc, e.d.Hint)
	defer close(w.stop)
	lg, err := logger.New(w, sc.Format)
	if err != nil {
		r.Fail("format", "rejected", "format %q over documented fields was rejected: %v", sc.Format, err)
		return
	}
	e.proxy.Logger = lg
	e.d.AddSource(w.source(e.d, func() int { return len(e.net.Events()) }))

	obs := &c20Obs{perConn: map[string]int{}, taskReq: map[string]string{}, remote: map[string]string{}, tlsVer: map[string]uint16{},
		tlsSuit: map[string]uint16{}, clock: map[string][]time.Time{}, uuidOf: map[string][24]byte{}}
	t0 := time.Now()
	var loc *time.Location
	if sc.ZoneOffset != 0 {
		loc = time.FixedZone(sc.ZoneName, sc.ZoneOffset)
	}
	e.proxy.Time = func() time.Time {
		t := sc.epoch.Add(time.Since(t0))
		if loc != nil {
			t = t.In(loc)
		}
		task := simhook.CurrentTask()
		obs.mu.Lock()
		if _, ok := obs.taskReq[task]; ok {
			obs.clock[task] = append(obs.clock[task], t)
		} else {
			obs.strays++
		}
		obs.mu.Unlock()
		return t
	}
	if sc.RequestID != "" {
		e.proxy.UUID = func() string {
			task := simhook.CurrentTask()
			obs.mu.Lock()
			u := sc.uuids[obs.nuuid%len(sc.uuids)]
			obs.nuuid++
			obs.uuidOf[task] = u
			obs.mu.Unlock()
			return uuid.ToString(u)
		}
	}

	e.d.Stick = sc.Stick
	e.d.Sim.Activate("logger", "proxy:*HTTPProxy.ServeHTTP")
	if !sc.FineYields {
		e.d.Sim.Activate("-logger:atoi")
	}
	// handler goroutines become tasks; a panic out of fabio's handler is recorded by the task layer as class "panic".
	// http.ErrAbortHandler is net/http's own way of aborting a response (ReverseProxy uses it): it is passed on untouched.
	e.wrap = func(h http.Handler) http.Handler {
		return http.HandlerFunc(func(rw http.ResponseWriter, req *http.Request) {
			id := req.Header.Get("X-Sim-Id")
			obs.mu.Lock()
			n := obs.perConn[req.RemoteAddr]
			obs.perConn[req.RemoteAddr] = n + 1
			name := fmt.Sprintf("h/%s/%d", req.RemoteAddr, n)
			obs.taskReq[name] = id
			obs.remote[id] = req.RemoteAddr
			if req.TLS != nil {
				if rep, ok := sc.TLSReported[id]; ok {
					// the handler is handed a connection state of its own that names other numbers
					cs := *req.TLS
					if rep.Version != 0 {
						cs.Version = rep.Version
					}
					if rep.Cipher != 0 {
						cs.CipherSuite = rep.Cipher
					}
					req.TLS = &cs
				}
				obs.tlsVer[id], obs.tlsSuit[id] = req.TLS.Version, req.TLS.CipherSuite
			}
			obs.mu.Unlock()
			abort := false
			defer func() {
				if abort {
					panic(http.ErrAbortHandler)
				}
			}()
			defer simhook.Adopt(name)()
			defer func() {
				if v := recover(); v != nil {
					if v == http.ErrAbortHandler {
						abort = true
						return
					}
					if _, mine := v.(c20WriterPanic); mine || w.raisedPanic(name+"#0") {
						// the log target's own panic has travelled up through fabio's handler: not a panic of the
						// logging (see the assumptions); it ends here, as it would in net/http's per-connection recover
						return
					}
					panic(v)
				}
			}()
			h.ServeHTTP(rw, req)
		})
	}
	overlap := 0
	e.d.Invariant = func() {
		if e.d.Sim.InFunc("logger", "") >= 2 {
			overlap++
		}
	}

	var front *tls.Config
	if sc.TLS {
		front = &tls.Config{Certificates: []tls.Certificate{zzSelfSigned()}, NextProtos: []string{"http/1.1"}}
		if sc.TLS12 {
			front.MaxVersion = tls.VersionTLS12
		}
		if sc.TLSSuite != 0 {
			front.CipherSuites = []uint16{sc.TLSSuite}
		}
	}
	e.serve(front)
	for i := range sc.Routes {
		rt := &sc.Routes[i]
		var up *tls.Config
		if rt.Scheme == "https" {
			up = &tls.Config{Certificates: []tls.Certificate{zzSelfSigned()}}
		}
		switch {
		case rt.Kind != "" || rt.Down == "refused":
			// nothing listens there
		case rt.Down == "blackhole":
			e.net.Blackhole(rt.Key, true)
		default:
			e.upstream(rt.Key, simnet.ListenOpts{}, up)
		}
	}
	e.onSeen = func(s *h2Seen) {
		if sc.HeaderTimeout > 0 {
			e.d.Hint(s.At.Add(sc.HeaderTimeout))
		}
		if sc.Self[s.Header.Get("X-Sim-Id")] == "websocket" {
			e.d.Hint(s.At.Add(time.Second)) // a clock step only: about when fabio stops waiting for a handshake
		}
	}
	for i := range sc.Clients {
		e.client(&sc.Clients[i])
	}
	if !e.run(600000, 12*time.Hour) {
		if !c20Stuck(r, e.d, w, "requests are never answered") {
			r.Trouble("clients did not finish: %v", e.d.Sim.TaskStates())
		}
		return
	}
	// the log line is written after the response: let every handler return
	if !c20Drive(e.d, w, 200000, 14*time.Hour, func() bool { return e.d.Sim.Pending() == 0 }) {
		if !c20Stuck(r, e.d, w, "request handlers never return") {
			r.Trouble("handlers did not finish: %v", e.d.Sim.TaskStates())
		}
		return
	}
	if overlap > 0 {
		r.Probe("two_handlers_inside_logger")
	}

	// ---- evaluation
	reqTask := map[string]string{}
	var taskNames []string
	for t := range obs.taskReq {
		taskNames = append(taskNames, t)
	}
	sort.Strings(taskNames)
	for _, t := range taskNames {
		reqTask[obs.taskReq[t]] = t
	}

	var events []*c20Event
	for ci := range sc.Clients {
		for qi := range sc.Clients[ci].Reqs {
			rq := &sc.Clients[ci].Reqs[qi]
			rt := &sc.Routes[rq.Route]
			res := e.results[rq.ID]
			seen := e.seen[rq.ID]
			what := fmt.Sprintf("%s %s (id %s, route to %s://%s)", rq.Method, c20ClipN(c20URI(rq), 60), rq.ID, rt.Scheme, rt.Host)
			if res == nil {
				r.Trouble("no result for %s", rq.ID)
				return
			}
			kind := sc.Self[rq.ID]
			ws := kind == "websocket"
			// the answer is (at best) fabio's own: the route's upstream cannot be reached, or no upstream is involved
			own := rt.Down != "" || (kind != "" && !ws)
			faulted := rq.Resp.Hang || rq.Resp.ResetAt != 0 || (sc.HeaderTimeout > 0 && rq.Resp.Delay >= sc.HeaderTimeout && !ws && !own)
			if faulted && !own {
				r.Fault("upstream_silent_or_reset")
			}
			if rt.Down != "" {
				r.Fault("upstream_" + rt.Down)
			}
			// how the exchange was answered (for probes and signatures)
			path := ""
			switch {
			case ws && rt.Down != "":
				path = "websocket-upgrade/upstream-" + rt.Down
			case ws && faulted:
				path = "websocket-upgrade/handshake-fails"
			case ws:
				path = "websocket-upgrade/refused-by-upstream"
			case kind != "":
				path = kind
			case rt.Down != "":
				path = "upstream-" + rt.Down
			}
			if path != "" {
				r.Probe("answered_" + path)
			}
			faulted = faulted || own
			if w.raisedPanic(reqTask[rq.ID] + "#0") {
				// the panic of the log target went up through the handler of this request: what its client sees is not judged
				faulted = true
				r.Probe("log_target_panic_through_handler")
			}
			r.Tracef("exchange %s -> interim=%v status=%d body=%d err=%v", rq.ID, res.Interim, res.Status, len(res.Body), res.Err)
			nothing := false
			if res.Err != nil || res.Status == 0 {
				if !faulted {
					r.Fail("response", "error", "%s: the client got no response: %v", what, res.Err)
				}
				if !ws || !faulted {
					continue
				}
				// a websocket upgrade whose upstream could not be dialled or did not answer the handshake: the client's
				// connection ended without one byte of a response (fabio has taken the connection over by then)
				nothing = true
				path += "/client-received-nothing"
				r.Probe("websocket_upgrade_failed_client_received_nothing")
			}
			// "never alters the response": the client sees what the upstream sent
			if !faulted {
				if res.Status != rq.Resp.Status {
					r.Fail("response", "status", "%s: upstream answered %d, client saw %d", what, rq.Resp.Status, res.Status)
				}
				if !h2NoBody(rq.Method, rq.Resp.Status) && (res.BodyErr != nil || !bytes.Equal(res.Body, rq.Resp.Body)) {
					r.Fail("response", "body", "%s: upstream sent %d body bytes, client read %d (err %v)", what, len(rq.Resp.Body), len(res.Body), res.BodyErr)
				}
				usent := h2EndToEnd(h2HeaderList(rq.Resp.Headers), nil)
				cgot := h2EndToEnd(res.Header, nil)
				var names []string
				for k := range usent {
					names = append(names, k)
				}
				sort.Strings(names)
				for _, k := range names {
					if k == "Content-Type" && res.Status == 304 {
						continue
					}
					if fmt.Sprint(cgot[k]) != fmt.Sprint(usent[k]) {
						r.Fail("response", "header", "%s: upstream sent header %s=%q, client received %q", what, k, usent[k], cgot[k])
					}
				}
			}
			task := reqTask[rq.ID]
			// the request as the client sent it, the route as written, the response as the client received it
			ev := &c20Event{key: task + "#0", hasReq: true, method: rq.Method, uri: c20URI(rq), proto: "HTTP/1.1", hosts: []string{rq.Host},
				remote: obs.remote[rq.ID], hasURL: true, scheme: "http", args: rq.Query, hasResp: true, status: res.Status, size: int64(len(res.Body)),
				times: obs.clock[task], upAddr: rt.Host, upDef: c20DefaultPort(rt.Scheme), hasUp: true, upSch: rt.Scheme, service: rt.Service,
				hostOpt: rt.HostOpt != "", interim: len(res.Interim), path: path}
			ev.what = fmt.Sprintf("request %s %s (id %s) from %s via %s://%s", rq.Method, c20ClipN(c20URI(rq), 60), rq.ID, ev.remote, rt.Scheme, rt.Host)
			if path != "" {
				ev.what += ", answered: " + path
			}
			if nothing {
				ev.nothing, ev.status, ev.size = true, 0, 0
			}
			// whether a websocket upgrade, a request without route, a denied or a redirected request is a "completed
			// request" that has to be logged is not decided; what is logged about it has to be accurate
			ev.optional = kind != ""
			ev.upAny = kind != "" && !ws
			ev.upURIAny = len(seen) == 0
			if ev.interim > 0 {
				// the status of the completed request is the final one the client received, whatever came before it
				ev.what += fmt.Sprintf(", client received the informational responses %v first", res.Interim)
				r.Probe("informational_response_before_final")
			}
			if rt.HostOpt != "" {
				ev.what += " opts host=" + rt.HostOpt
			}
			ev.header = func(name string) string {
				// request http header: the (first) value the client sent under that name, without the optional whitespace around it
				for _, h := range rq.Headers {
					if http.CanonicalHeaderKey(h.K) == http.CanonicalHeaderKey(name) {
						return strings.Trim(h.V, " \t")
					}
				}
				return ""
			}
			if sc.TLS {
				ev.scheme = "https"
			}
			if ws {
				// the documentation does not say whether an upgrade request is described by the scheme of the connection or by
				// the websocket scheme that stands for it
				ev.schemes = []string{ev.scheme, map[string]string{"http": "ws", "https": "wss"}[ev.scheme]}
				ev.upSchs = []string{rt.Scheme, map[string]string{"http": "ws", "https": "wss"}[rt.Scheme]}
			}
			if p := sc.fwdProto[rq.ID]; p != "" {
				// the proxy in front of fabio names the scheme of the original request (exactly one of X-Forwarded-Proto /
				// Forwarded, explicit proto): "derives the request scheme ... first from headers and then from the connection"
				ev.scheme, ev.fwdProto = p, true
				ev.what += ", client-sent forwarding header says " + p
				r.Probe("client_sent_forwarded_proto")
			}
			if rt.HostOpt != "" {
				r.Probe("route_with_host_option")
			}
			ev.url = ev.scheme + "://" + rq.Host + c20URI(rq)
			if h, _, err := net.SplitHostPort(ev.remote); err != nil {
				r.Trouble("request %s never reached the handler wrapper (remote %q)", rq.ID, ev.remote)
				return
			} else {
				ev.ipv6Cli = strings.Contains(h, ":")
			}
			if len(seen) > 0 {
				ev.upURI = seen[0].RequestURI
			}
			ev.upURL = rt.Scheme + "://" + rt.Host + ev.upURI
			if len(ev.times) < 2 && !ev.optional {
				if r.Failed() {
					continue // the handler died before it read the clock again; already recorded
				}
				r.Trouble("the clock seam HTTPProxy.Time was read %d times for request %s (start and end expected)", len(ev.times), rq.ID)
				return
			}
			events = append(events, ev)

			// formatters on the request path, on the values that occurred
			if sc.RequestID != "" && len(seen) > 0 {
				u := obs.uuidOf[task]
				want := fmt.Sprintf("%x-%x-%x-%x-%x", u[0:4], u[4:6], u[6:8], u[8:10], u[10:16])
				if got := seen[0].Header.Get(sc.RequestID); got != want {
					r.Fail("formatter", "uuid", "%s: request id header reached the upstream as %q, the uuid bytes %x format as %q", what, got, u[:16], want)
				}
				r.Probe("uuid_compared")
			}
			if sc.TLS && len(seen) > 0 {
				fwd := seen[0].Header.Get("Forwarded")
				// the parameter values fabio appends: tlscipher is the four-digit hex rendering of the suite number; tlsver is a
				// name or, if it starts with a digit, the hex rendering of the version number
				param := func(name string) string {
					i := strings.LastIndex(fwd, name+"=")
					if i < 0 {
						return ""
					}
					v := fwd[i+len(name)+1:]
					if j := strings.IndexAny(v, "; ,"); j >= 0 {
						v = v[:j]
					}
					return v
				}
				if got, want := param("tlscipher"), fmt.Sprintf("0x%04x", obs.tlsSuit[rq.ID]); got != want {
					r.Fail("formatter", "hex16", "%s: Forwarded header %q names tlscipher=%q, the connection state says suite %d: fmt renders that as %s", what, fwd, got, obs.tlsSuit[rq.ID], want)
				}
				if got, want := param("tlsver"), fmt.Sprintf("0x%04x", obs.tlsVer[rq.ID]); got != "" && got[0] >= '0' && got[0] <= '9' && got != want {
					r.Fail("formatter", "hex16", "%s: Forwarded header %q names tlsver=%q, the connection state says version %d: fmt renders that as %s", what, fwd, got, obs.tlsVer[rq.ID], want)
				}
				if _, ok := sc.TLSReported[rq.ID]; ok {
					r.Probe("hex16_reported_boundary_value")
				}
				r.Probe("hex16_compared")
				if sc.STSMaxAge > 0 && !ws {
					got := res.Header.Get("Strict-Transport-Security")
					// the number fabio formats is int32(max-age): strconv's rendering of that number is the reference; the
					// configured number itself, untruncated, is accepted as well (which of the two belongs there is not judged)
					n32 := int32(sc.STSMaxAge)
					ok := false
					if got == "" {
						// nothing was formatted at all: not a formatter's fault
						ok = true
						sig := "sts-header-missing"
						if len(res.Interim) > 0 {
							sig += "/after-informational-response"
						}
						r.Fail("response", sig, "%s: TLS listener with sts max-age %d: the response (status %d, informational responses before it: %v) has no Strict-Transport-Security header", what, sc.STSMaxAge, res.Status, res.Interim)
					}
					for _, n := range []int64{int64(n32), int64(sc.STSMaxAge)} {
						want := "max-age=" + strconv.FormatInt(n, 10)
						if got == want || strings.HasPrefix(got, want+";") {
							ok = true
						}
					}
					if !ok {
						r.Fail("formatter", "itoa32", "%s: Strict-Transport-Security is %q, configured max-age %d, as int32 %d: strconv renders that as %q", what, got, sc.STSMaxAge, n32, strconv.FormatInt(int64(n32), 10))
					}
					r.Probe("itoa32_compared")
					if n32 == math.MinInt32 || n32 == math.MaxInt32 || n32 == -1 {
						r.Probe("itoa32_extreme_value")
					}
				}
			}
		}
	}

	c20Judge(r, sc, events, w)
	if obs.strays > 0 {
		r.Probe("clock_read_outside_handler")
	}
}

// c20Judge compares what was written to the access log with the reference renderings of the events that have to be
// described: one intact line per event, every line the rendering of its event.
func c20Judge(r *simcore.Run, sc *c20Scenario, events []*c20Event, w *c20Writer) {
	// lines: every Write call hands over complete lines (one; several are cut apart)
	w.mu.Lock()
	writes := w.writes
	w.mu.Unlock()
	// Log calls with a write the target refused (error, short count, panic): the statement cannot demand their line, and
	// what the target holds of that call (the accepted part, a second attempt, the rest) is not judged. A complete line
	// that describes such an event and arrives with another call (a logger that hands a refused line over again) is fine.
	refused := map[string]bool{}
	for _, wr := range writes {
		if wr.failed {
			refused[wr.key] = true
		}
	}
	evByKey := map[string]*c20Event{}
	optional := make([]bool, len(events))
	for j, ev := range events {
		evByKey[ev.key] = ev
		if ev.optional {
			optional[j] = true
			r.Tracef("not demanded: a line for %s (%s)", ev.key, ev.path)
		}
		if refused[ev.key] {
			optional[j] = true
			r.Probe("line_refused_by_log_target")
			r.Tracef("not demanded: the line of %s (refused by the log target)", ev.key)
			delete(refused, ev.key)
		}
	}
	// refused writes issued by something else than the caller of Log excuse the event they render
	var orphans []string
	exempt := map[string]bool{}
	judged := 0
	for _, wr := range writes {
		if wr.failed {
			exempt[wr.key] = true
			if refused[wr.key] {
				orphans = append(orphans, string(wr.attempt))
			}
		}
	}
	var lines []string
	var lineKey []string
	for _, wr := range writes {
		s := string(wr.b)
		if wr.failed {
			r.Tracef("log target refused (%s, %d of %d bytes accepted) %s", wr.fault, len(wr.b), len(wr.attempt), strconv.Quote(c20Clip(string(wr.attempt))))
			continue
		}
		if exempt[wr.key] {
			r.Tracef("log (same Log call as a refused write, not judged) %s", strconv.Quote(c20Clip(s)))
			continue
		}
		r.Tracef("log %s", strconv.Quote(c20Clip(s)))
		if !strings.HasSuffix(s, "\n") {
			judged++
			r.Fail("line", "not-one-line", "a write to the access log does not end with a complete line: %s", strconv.Quote(c20Clip(s)))
			continue
		}
		for _, l := range strings.SplitAfter(s, "\n") {
			if l == "" {
				continue
			}
			judged++
			if len(l) < 2 {
				r.Fail("line", "not-one-line", "a write to the access log contains an empty line: %s", strconv.Quote(c20Clip(s)))
				continue
			}
			lines = append(lines, l)
			lineKey = append(lineKey, wr.key)
		}
	}
	// reference parts per event
	alts := make([][][]string, len(events))
	for j, ev := range events {
		for _, p := range sc.Parts {
			if p.Field == "" {
				alts[j] = append(alts[j], []string{p.Lit})
				continue
			}
			a := c20Render(p.Field, ev)
			if a == nil {
				r.Trouble("no reference for field %s", p.Field)
				return
			}
			if c20IsAny(a) {
				a = nil
			}
			alts[j] = append(alts[j], a)
		}
		alts[j] = append(alts[j], []string{"\n"})
	}
	for j := range events {
		if !optional[j] {
			r.Nontrivial() // at least one line is demanded and compared
			break
		}
	}
	if len(events) >= 2 {
		r.Probe("two_or_more_logged_requests")
	}
	// maximum matching between lines and requests
	adj := make([][]int, len(lines))
	for i, l := range lines {
		for j := range events {
			if ok, _ := c20Match(l, alts[j]); ok {
				adj[i] = append(adj[i], j)
			}
		}
	}
	matchOfEvent := make([]int, len(events))
	for j := range matchOfEvent {
		matchOfEvent[j] = -1
	}
	matchOfLine := make([]int, len(lines))
	var try func(i int, seen []bool) bool
	try = func(i int, seen []bool) bool {
		for _, j := range adj[i] {
			if seen[j] {
				continue
			}
			seen[j] = true
			if matchOfEvent[j] < 0 || try(matchOfEvent[j], seen) {
				matchOfEvent[j] = i
				return true
			}
		}
		return false
	}
	// the events whose line is demanded come first: lines that render several events alike go to them (an augmenting
	// path never takes a line away from an event without giving it another one)
	full := adj
	adj = make([][]int, len(lines))
	for i := range lines {
		for _, j := range full[i] {
			if !optional[j] {
				adj[i] = append(adj[i], j)
			}
		}
	}
	matched := make([]bool, len(lines))
	for i := range lines {
		matchOfLine[i] = -1
		matched[i] = try(i, make([]bool, len(events)))
	}
	adj = full
	for i := range lines {
		if !matched[i] {
			try(i, make([]bool, len(events)))
		}
	}
	for j, i := range matchOfEvent {
		if i >= 0 {
			matchOfLine[i] = j
		}
	}
	blamed := map[int]bool{}
	for i, l := range lines {
		if matchOfLine[i] >= 0 {
			continue
		}
		ev := evByKey[lineKey[i]]
		j := -1
		if ev != nil {
			j = indexOfEvent(events, ev)
		}
		if j >= 0 {
			if ok, _ := c20Match(l, alts[j]); !ok {
				at := c20Blame(l, alts[j], func(i int) bool { return i < len(sc.Parts) && sc.Parts[i].Field != "" })
				// the line written by this request's own handler is not the rendering of this request
				blamed[j] = true
				field, want := "", []string{"<end of line>"}
				if at < len(alts[j]) && alts[j][at] != nil {
					want = alts[j][at]
				}
				if at < len(sc.Parts) {
					field = sc.Parts[at].Field
				}
				sig := c20Sig(ev, field)
				if at > len(sc.Parts) {
					sig = "trailing-bytes"
				}
				r.Fail("field", sig, "%s, status %d, %d body bytes, clock %v: logged line\n  %s\ndiffers from the reference at part %d (%s), acceptable there: %q (format %q)",
					ev.what, ev.status, ev.size, ev.times, strconv.Quote(c20Clip(l)), at, field+sc.partLit(at), want, c20Clip(sc.Format))
				continue
			}
		}
		if len(adj[i]) > 0 {
			r.Fail("lines", "extra", "access log line %s is logged more often than requests it describes were answered (%d lines, %d answered requests)", strconv.Quote(c20Clip(l)), judged, len(events))
			continue
		}
		r.Fail("line", "matches-no-request", "access log line %s is not the rendering of any request of this run (format %q)", strconv.Quote(c20Clip(l)), c20Clip(sc.Format))
	}
	for j, ev := range events {
		if matchOfEvent[j] < 0 && !blamed[j] {
			excused := optional[j]
			for k, o := range orphans {
				if ok, _ := c20Match(o, alts[j]); ok {
					orphans = append(orphans[:k], orphans[k+1:]...)
					excused = true
					break
				}
			}
			if excused {
				if !optional[j] {
					r.Probe("line_refused_by_log_target")
				}
				continue
			}
			r.Fail("lines", "missing", "%s was answered with status %d but no line of the access log describes it (%d lines, %d answered requests, format %q)",
				ev.what, ev.status, judged, len(events), c20Clip(sc.Format))
		}
	}
	if judged > len(events) {
		r.Fail("lines", "extra", "%d requests were answered with a status but the access log has %d lines, not counting what belongs to Log calls with a write the log target refused (format %q)", len(events), judged, c20Clip(sc.Format))
	}
}

// ---------------------------------------------------------------- the direct part

// c20Build turns the description into the logger.Event and the reference's view of it.
func c20Build(de *c20DEvent, key string) (*logger.Event, *c20Event) {
	le := &logger.Event{UpstreamAddr: de.UpstreamAddr, UpstreamService: de.Service, RequestURL: de.RequestURL.url(), UpstreamURL: de.UpstreamURL.url()}
	ev := &c20Event{key: key, upAddr: de.UpstreamAddr, service: de.Service}
	ev.what = "event " + key + " handed to Logger.Log"
	switch {
	case de.ZeroEnd:
		le.Start, le.End = time.Time{}, time.Time{}
	default:
		le.End = de.end
		if de.ZoneOffset != 0 {
			le.End = le.End.In(time.FixedZone(de.Zone, de.ZoneOffset))
		}
		le.Start = le.End.Add(-de.Dur)
		if de.ZeroStart {
			le.Start = time.Time{}
		}
	}
	ev.times = []time.Time{le.Start, le.End}
	if !de.NoRequest {
		rq := &http.Request{Method: de.Method, RequestURI: de.URI, Proto: de.Proto, Host: de.Host, RemoteAddr: de.Remote}
		hm := map[string][]string{}
		if !de.NilHeader {
			rq.Header = http.Header{}
			for _, h := range de.Headers {
				switch {
				case h.Nil:
					rq.Header[h.Name] = nil
					ev.hdrBare = true
				default:
					rq.Header[h.Name] = append([]string{}, h.Vals...)
					if len(h.Vals) == 0 {
						ev.hdrBare = true
					}
				}
				hm[h.Name] = h.Vals
			}
		}
		le.Request = rq
		ev.hasReq, ev.method, ev.uri, ev.proto, ev.remote = true, de.Method, de.URI, de.Proto, de.Remote
		// request http header: the first value under that name (case-insensitive), nothing if there is none
		ev.header = func(name string) string {
			if v := hm[http.CanonicalHeaderKey(name)]; len(v) > 0 {
				return v[0]
			}
			return ""
		}
		if h, _, v6, _ := c20SplitAddr(de.Remote); len(h) > 0 {
			ev.ipv6Cli = v6
		}
		ev.hosts = []string{de.Host}
	}
	if u := le.RequestURL; u != nil {
		ev.hasURL, ev.scheme, ev.args, ev.url = true, u.Scheme, u.RawQuery, u.String()
		if de.NoRequest {
			// no request to take the host header from: the host of the request URL, or nothing
			ev.hosts = append([]string{u.Host}, c20Absent...)
		}
	} else if de.NoRequest {
		ev.hosts = c20Absent
	}
	if !de.NoResponse {
		le.Response = &http.Response{StatusCode: de.Status, ContentLength: de.Size}
		ev.hasResp, ev.status, ev.size = true, de.Status, de.Size
	}
	if u := le.UpstreamURL; u != nil {
		ev.hasUp, ev.upSch, ev.upURI, ev.upURL = true, u.Scheme, u.RequestURI(), u.String()
		if u.Scheme == "http" || u.Scheme == "https" {
			ev.upDef = c20DefaultPort(u.Scheme)
		}
	}
	return le, ev
}

func runC20Direct(r *simcore.Run, sc *c20Scenario) {
	d := simcore.NewDriver(r)
	defer d.Finish()
	d.Stick = sc.Stick
	d.Sim.Activate("logger")
	if !sc.FineYields {
		d.Sim.Activate("-logger:atoi")
	}
	w := c20NewWriter(r, sc, d.Hint)
	defer close(w.stop)
	d.AddSource(w.source(d, func() int { return 0 }))
	lg, err := logger.New(w, sc.Format)
	if err != nil {
		r.Fail("format", "rejected", "format %q over documented fields was rejected: %v", sc.Format, err)
		return
	}
	r.Probe("direct_logger_part")
	r.Tracef("direct part: %d tasks", len(sc.Direct.Tasks))
	type call struct {
		le *logger.Event
		ev *c20Event
	}
	nt := len(sc.Direct.Tasks)
	calls := make([][]call, nt)
	entered := make([]int, nt)
	returned := make([]int, nt)
	for t := range sc.Direct.Tasks {
		t := t
		name := fmt.Sprintf("log%d", t)
		for k := range sc.Direct.Tasks[t] {
			le, ev := c20Build(&sc.Direct.Tasks[t][k], fmt.Sprintf("%s#%d", name, k))
			calls[t] = append(calls[t], call{le, ev})
			if ev.hdrBare {
				r.Probe("header_entry_without_values")
			}
			if !ev.hasReq || !ev.hasResp || !ev.hasURL || !ev.hasUp {
				r.Probe("event_without_request_response_or_url")
			}
		}
		d.Sim.Spawn(name, func() {
			for k, c := range calls[t] {
				w.enter(name, k)
				entered[t] = k + 1
				func() {
					defer func() {
						if v := recover(); v != nil {
							// the log target's own panic came out of Log: not a panic of the logging (see the assumptions)
							if _, mine := v.(c20WriterPanic); mine || w.raisedPanic(c.ev.key) {
								r.Probe("log_target_panic_through_log_call")
								return
							}
							panic(v)
						}
					}()
					lg.Log(c.le)
				}()
				returned[t] = k + 1
			}
		})
	}
	overlap := 0
	d.Invariant = func() {
		if d.Sim.InFunc("logger", "") >= 2 {
			overlap++
		}
	}
	if !c20Drive(d, w, 400000, 3*time.Hour, func() bool { return d.Sim.Pending() == 0 }) {
		if !c20Stuck(r, d, w, "Log calls never return") {
			r.Trouble("logging tasks did not finish: %v", d.Sim.TaskStates())
		}
		return
	}
	if overlap > 0 {
		r.Probe("two_tasks_inside_logger")
	}
	// every call that returned has to have produced its line; a call that did not return has panicked (recorded by the task layer)
	var events []*c20Event
	for t := range calls {
		r.Tracef("task log%d: %d of %d calls returned", t, returned[t], len(calls[t]))
		if returned[t] != len(calls[t]) && !r.Failed() {
			r.Trouble("task log%d stopped after %d of %d calls without a recorded panic", t, returned[t], len(calls[t]))
			return
		}
		for k := 0; k < returned[t]; k++ {
			events = append(events, calls[t][k].ev)
		}
	}
	c20Judge(r, sc, events, w)
}

func (sc *c20Scenario) partLit(i int) string {
	if i < len(sc.Parts) && sc.Parts[i].Field == "" {
		return strconv.Quote(sc.Parts[i].Lit)
	}
	return ""
}

func indexOfEvent(events []*c20Event, ev *c20Event) int {
	for i, x := range events {
		if x == ev {
			return i
		}
	}
	return -1
}

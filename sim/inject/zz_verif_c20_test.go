//go:build verif

package main

// C20 — access logging is accurate and can never disturb a request.
//
// Rider on H2 with statement-level interleaving: the real http.Server serves the
// proxy built by main.newHTTPProxy; its access logger is logger.New(simWriter,
// format) with a PRNG-composed format over the documented fields; HTTPProxy.Time
// is a recording clock (bubble clock shifted to a PRNG epoch, sometimes handed
// out in a non-UTC location). Handler goroutines are adopted as tasks, so 1-6
// concurrent requests interleave statement by statement inside ServeHTTP and
// Logger.Log (shared buffer pool, writer mutex). The oracle renders every line
// again from what the raw client sent / received, what the raw upstream
// recorded and what the clock handed out, using fmt/strconv/time.Format/net/url
// only, following the field descriptions in the doc comment of package logger.

import (
	"bytes"
	"fmt"
	"net"
	"net/http"
	"net/url"
	"sort"
	"strconv"
	"strings"
	"sync"
	"time"

	"crypto/tls"

	"github.com/fabiolb/fabio/config"
	"github.com/fabiolb/fabio/internal/zzverif/simcore"
	"github.com/fabiolb/fabio/internal/zzverif/simhook"
	"github.com/fabiolb/fabio/internal/zzverif/simnet"
	"github.com/fabiolb/fabio/logger"
	"github.com/fabiolb/fabio/uuid"
)

func init() {
	zzHarnesses = append(zzHarnesses, &simcore.Harness{Name: "c20", Props: []string{"C20"}, Run: runC20})
}

// ---------------------------------------------------------------- scenario

type c20Part struct {
	Lit   string `json:"lit,omitempty"`
	Field string `json:"field,omitempty"` // "$remote_addr" ... or "$header.<name>"
}

type c20Route struct {
	Prefix  string `json:"prefix"`
	Service string `json:"service"`
	Scheme  string `json:"scheme"`
	Host    string `json:"target_host"` // host part of the target URL exactly as written in the route
	Key     string `json:"dial_key"`    // what a dialer has to name to reach it
	NoPort  bool   `json:"no_port,omitempty"`
	IPv6    bool   `json:"ipv6,omitempty"`
	Strip   string `json:"strip,omitempty"`
	Prepend string `json:"prepend,omitempty"`
	Query   string `json:"target_query,omitempty"`
}

type c20Scenario struct {
	Format        string        `json:"format"`
	Parts         []c20Part     `json:"-"`
	Epoch         string        `json:"clock_epoch"`
	ZoneName      string        `json:"clock_zone"`
	ZoneOffset    int           `json:"clock_zone_offset_s"`
	Routes        []c20Route    `json:"routes"`
	TLS           bool          `json:"tls_listener,omitempty"`
	TLS12         bool          `json:"listener_max_tls12,omitempty"`
	STSMaxAge     int           `json:"sts_max_age,omitempty"`
	STSSub        bool          `json:"sts_subdomains,omitempty"`
	STSPreload    bool          `json:"sts_preload,omitempty"`
	RequestID     string        `json:"request_id_header,omitempty"`
	HeaderTimeout time.Duration `json:"response_header_timeout,omitempty"`
	Clients       []h2Client    `json:"clients"`
	FineYields    bool          `json:"yields_inside_number_formatter,omitempty"`
	Stick         int           `json:"stick"`

	epoch time.Time
	uuids [][24]byte
}

// the fields documented in the header comment of logger/logger.go, in that order,
// plus $upstream_service (documented at Event.UpstreamService)
var c20Fields = []string{
	"$remote_addr", "$remote_host", "$remote_port", "$request", "$request_args", "$request_host", "$request_method",
	"$request_scheme", "$request_uri", "$request_url", "$request_proto", "$response_body_size", "$response_status",
	"$response_time_ms", "$response_time_us", "$response_time_ns", "$time_rfc3339", "$time_rfc3339_ms", "$time_rfc3339_us",
	"$time_rfc3339_ns", "$time_unix_ms", "$time_unix_us", "$time_unix_ns", "$time_common", "$upstream_addr", "$upstream_host",
	"$upstream_port", "$upstream_request_scheme", "$upstream_request_uri", "$upstream_request_url", "$upstream_service",
}

// fields that may legitimately render as the empty string
var c20MaybeEmpty = map[string]bool{"$request_args": true, "$upstream_port": true}

// header names used in $header.<name>; none of them is written by fabio itself
var c20LogHeaders = []string{"Referer", "User-Agent", "user-agent", "X-Custom-A", "x-lower-case", "X-LOWER-CASE", "Cookie", "Accept-Language", "Authorization", "X-Absent", "X-Empty", "X-Long"}
var c20SendHeaders = []string{"Referer", "User-Agent", "X-Custom-A", "x-lower-case", "Cookie", "Accept-Language", "Authorization", "X-Empty", "X-Long", "X-Custom-A"}
var c20HdrVals = []string{"v", "Mozilla/5.0 (X11; Linux x86_64) Gecko/20100101", "http://ref.example/p?q=1&r=%2F", "a, b, c", "\"quoted\" 'single'",
	"k=v; k2=v2", "Bearer abc.def.ghi", "caf\u00e9 \u4e16\u754c", "$remote_addr $time_common $header.Cookie", "100%s %d%n %v", "tab\tinside", "  padded  ", "-", "[::1]:80", "\\n\\\\"}

// literal text between fields: never contains '$', never starts with a character of a field name
var c20Seps = []string{" ", " - ", "|", "\" \"", " [", "] ", ":", "/", ",", "=", "\t", " caf\u00e9 \u4e16 ", ".", "", " %s %d%% ", "; ", " # ", "{", "} ", " -- \"", "\" "}

var c20Methods = []string{"GET", "GET", "POST", "HEAD", "PUT", "DELETE", "PATCH", "OPTIONS", "PURGE"}
var c20Suffixes = []string{"", "/", "/a", "/a/b", "/a;v=1", "/a,b", "/~u/-_.", "/A/b", "/index.html", "/a+b", "/" + strings.Repeat("seg/", 60)}
var c20Queries = []string{"", "", "a=1", "a=1&a=2&b", "x=%2F%20&y=+", "q=a%26b", "long=" + strings.Repeat("z", 1200)}
var c20Hosts = []string{"fabio.sim", "www.example.com", "www.example.com:8080", "Mixed.Example.COM", "[2001:db8::f]:9999", "10.1.2.3"}
var c20Statuses = []int{200, 200, 200, 201, 204, 301, 304, 400, 404, 418, 500, 503, 299, 999}
var c20Delays = []time.Duration{0, 0, time.Millisecond, 1234567 * time.Nanosecond, 999999999 * time.Nanosecond, time.Second + 1, 1500 * time.Microsecond, 61*time.Second + 500*time.Microsecond, 999500 * time.Nanosecond, 2*time.Hour + 3*time.Nanosecond}

const c20Common = `$remote_host - - [$time_common] "$request" $response_status $response_body_size`
const c20Combined = c20Common + ` "$header.Referer" "$header.User-Agent"`

func c20IsID(c byte) bool {
	return 'a' <= c && c <= 'z' || 'A' <= c && c <= 'Z' || '0' <= c && c <= '9' || c == '_' || c == '-'
}

// c20Split cuts a format made of documented fields, $header.<name> and '$'-free text into parts (harness-side tokenizer for
// the two named formats; generated formats are built from parts directly).
func c20Split(format string) []c20Part {
	var out []c20Part
	for len(format) > 0 {
		if format[0] != '$' {
			i := strings.IndexByte(format, '$')
			if i < 0 {
				i = len(format)
			}
			out = append(out, c20Part{Lit: format[:i]})
			format = format[i:]
			continue
		}
		i := 1
		for i < len(format) && (c20IsID(format[i]) || (format[i] == '.' && format[:i] == "$header")) {
			i++
		}
		out = append(out, c20Part{Field: format[:i]})
		format = format[i:]
	}
	return out
}

func c20GenFormat(g *simcore.Tape, thorough bool) []c20Part {
	var parts []c20Part
	switch g.Intn(8) {
	case 0:
		return c20Split(c20Common)
	case 1:
		return c20Split(c20Combined)
	case 2:
		// every documented field once
		sep := simcore.Pick(g, []string{" ", "|", "\t", "\" \""})
		for i, f := range c20Fields {
			if i > 0 {
				parts = append(parts, c20Part{Lit: sep})
			}
			parts = append(parts, c20Part{Field: f})
		}
		return parts
	}
	max := 10
	if thorough {
		max = 36
	}
	n := g.Range(1, max)
	if g.Chance(30) {
		parts = append(parts, c20Part{Lit: simcore.Pick(g, []string{"access: ", "[", "\"", "fabio ", "#"})})
	}
	for i := 0; i < n; i++ {
		if i > 0 {
			if s := simcore.Pick(g, c20Seps); s != "" {
				parts = append(parts, c20Part{Lit: s})
			}
		}
		if g.Chance(20) {
			parts = append(parts, c20Part{Field: "$header." + simcore.Pick(g, c20LogHeaders)})
		} else {
			parts = append(parts, c20Part{Field: simcore.Pick(g, c20Fields)})
		}
	}
	if g.Chance(30) {
		parts = append(parts, c20Part{Lit: simcore.Pick(g, []string{"]", "\"", " end", " .", "|"})})
	}
	// a line is only defined if something is always printed
	solid := false
	for _, p := range parts {
		if p.Lit != "" || (p.Field != "" && !strings.HasPrefix(p.Field, "$header.") && !c20MaybeEmpty[p.Field]) {
			solid = true
		}
	}
	if !solid {
		parts = append([]c20Part{{Lit: "- "}}, parts...)
	}
	return parts
}

func c20HasField(parts []c20Part, prefix string) bool {
	for _, p := range parts {
		if strings.HasPrefix(p.Field, prefix) {
			return true
		}
	}
	return false
}

func c20GenEpoch(g *simcore.Tape, unixFields bool) time.Time {
	switch g.Intn(12) {
	case 0:
		return time.Date(2000, 1, 1, 0, 0, 0, 0, time.UTC) // the bubble clock itself
	case 1:
		return time.Date(2016, 2, 29, 23, 59, 59, 999999000, time.UTC) // leap day, about to roll over
	case 2:
		return time.Date(2023, 12, 31, 23, 59, 58, 500000000, time.UTC)
	case 3:
		return time.Date(1970, 1, 1, 0, 0, 1, 1, time.UTC)
	case 4:
		return time.Date(2024, 7, 4, 12, 34, 56, 789012345, time.UTC)
	case 5:
		return time.Date(2038, 1, 19, 3, 14, 7, 0, time.UTC)
	case 6:
		return time.Date(2262, 4, 1, 9, 8, 7, 60504, time.UTC) // last weeks of the int64 nanosecond epoch
	case 7:
		return time.Date(2100, 2, 28, 23, 59, 59, 999999999, time.UTC) // 2100 is not a leap year
	case 8:
		if !unixFields {
			// beyond four-digit years (unix-epoch fields are not defined there: excluded by construction)
			return time.Date(10000+g.Intn(20000), time.Month(1+g.Intn(12)), 1+g.Intn(28), g.Intn(24), g.Intn(60), g.Intn(60), g.Intn(1000000000), time.UTC)
		}
	}
	return time.Date(1970+g.Intn(292), time.Month(1+g.Intn(12)), 1+g.Intn(28), g.Intn(24), g.Intn(60), g.Intn(60), g.Intn(1000000000), time.UTC)
}

type c20Zone struct {
	Name string
	Off  int
}

var c20Zones = []c20Zone{{"UTC", 0}, {"UTC", 0}, {"IST", 5*3600 + 1800}, {"PST", -8 * 3600}, {"NPT", 5*3600 + 2700}, {"LINT", 14 * 3600}, {"BIT", -12 * 3600}}

func c20GenRoute(g *simcore.Tape, j int) c20Route {
	rt := c20Route{Prefix: fmt.Sprintf("/p%d", j), Service: simcore.Pick(g, []string{fmt.Sprintf("svc%d", j), fmt.Sprintf("svc-%d_web", j), fmt.Sprintf("My.Service.%d", j)}), Scheme: "http"}
	switch g.Intn(9) {
	case 0:
		rt.Host = fmt.Sprintf("up%d.sim:8080", j)
	case 1:
		rt.Host, rt.NoPort = fmt.Sprintf("backend%d", j), true
	case 2:
		rt.Host = fmt.Sprintf("198.51.100.%d:9000", 10+j)
	case 3:
		rt.Host, rt.IPv6 = fmt.Sprintf("[2001:db8::%d]:8080", 5+j), true
	case 4:
		rt.Host, rt.IPv6, rt.NoPort = fmt.Sprintf("[2001:db8::a%d]", j), true, true
	case 5:
		rt.Host, rt.NoPort = fmt.Sprintf("198.51.100.%d", 20+j), true
	case 6:
		rt.Host, rt.Scheme = fmt.Sprintf("sec%d.sim:8443", j), "https"
	case 7:
		rt.Host, rt.Scheme, rt.NoPort = fmt.Sprintf("sec%d.sim", j), "https", true
	case 8:
		rt.Host = fmt.Sprintf("up%d.sim:65535", j)
	}
	rt.Key = rt.Host
	if rt.NoPort {
		rt.Key = rt.Host + ":" + c20DefaultPort(rt.Scheme)
	}
	if g.Chance(25) {
		rt.Strip = rt.Prefix
	}
	if g.Chance(25) {
		rt.Prepend = "/pre"
	}
	if g.Chance(25) {
		rt.Query = "tq=1"
	}
	return rt
}

func c20DefaultPort(scheme string) string {
	if scheme == "https" {
		return "443"
	}
	return "80"
}

func c20Gen(g *simcore.Tape, thorough bool) *c20Scenario {
	sc := &c20Scenario{}
	sc.Parts = c20GenFormat(g, thorough)
	for _, p := range sc.Parts {
		sc.Format += p.Lit + p.Field
	}
	sc.epoch = c20GenEpoch(g, c20HasField(sc.Parts, "$time_unix"))
	sc.Epoch = sc.epoch.Format("2006-01-02T15:04:05.000000000Z07:00")
	z := simcore.Pick(g, c20Zones)
	sc.ZoneName, sc.ZoneOffset = z.Name, z.Off
	nr := g.Range(1, 3)
	for j := 0; j < nr; j++ {
		sc.Routes = append(sc.Routes, c20GenRoute(g, j))
	}
	sc.TLS = g.Chance(12)
	if sc.TLS {
		sc.TLS12 = g.Bool()
		if g.Chance(60) {
			sc.STSMaxAge = simcore.Pick(g, []int{31536000, 1, 9, 10, 2147483647, 1000000000, 1 + g.Intn(1<<30)})
			sc.STSSub, sc.STSPreload = g.Bool(), g.Bool()
		}
	}
	if g.Chance(25) {
		sc.RequestID = "X-Request-Id"
	}
	faults := g.Chance(20)
	if faults {
		sc.HeaderTimeout = simcore.Pick(g, []time.Duration{2 * time.Second, 1500 * time.Millisecond, 10*time.Second + 7})
	}
	sc.FineYields = g.Chance(25)
	sc.Stick = []int{1, 1, 3, 8}[g.Intn(4)]
	maxBody, maxClients := 6000, 4
	if thorough {
		maxBody, maxClients = 100000, 6
	}
	nc := g.Range(1, maxClients)
	id := 0
	for c := 0; c < nc; c++ {
		cl := h2Client{TLS: sc.TLS}
		switch g.Intn(4) {
		case 0, 1:
			cl.Addr = fmt.Sprintf("192.0.2.%d:%d", 10+c, 5000+100*c)
		case 2:
			cl.Addr = fmt.Sprintf("[2001:db8::c%d]:%d", c, 6000+100*c)
		case 3:
			cl.Addr = fmt.Sprintf("[fe80::%d%%eth0]:%d", 1+c, 7000+100*c)
		}
		n := g.Range(1, 3)
		for k := 0; k < n; k++ {
			rq := h2Req{ID: fmt.Sprintf("r%d", id), Host: simcore.Pick(g, c20Hosts)}
			id++
			rq.Route = g.Intn(nr)
			rq.Method = simcore.Pick(g, c20Methods)
			rq.Path = sc.Routes[rq.Route].Prefix + simcore.Pick(g, c20Suffixes)
			rq.Query = simcore.Pick(g, c20Queries)
			rq.Headers = []h2Header{{"Accept-Encoding", "identity"}}
			nh := g.Intn(6)
			used := map[string]bool{}
			for i := 0; i < nh; i++ {
				k := simcore.Pick(g, c20SendHeaders)
				if used[k] && k != "X-Custom-A" {
					continue
				}
				used[k] = true
				v := simcore.Pick(g, c20HdrVals)
				switch k {
				case "X-Empty":
					v = ""
				case "X-Long":
					v = strings.Repeat("L", 900+g.Intn(1500)) + "!"
				}
				rq.Headers = append(rq.Headers, h2Header{k, v})
			}
			if rq.Method == "POST" || rq.Method == "PUT" || rq.Method == "PATCH" {
				if g.Bool() {
					rq.Body = g.Bytes(g.Range(1, 3000))
					rq.Chunked = g.Chance(30)
				}
			}
			rq.BodyLen = len(rq.Body)
			rq.Chunks = c07GenChunks(g, len(rq.Body)+100)
			rs := h2Resp{Status: simcore.Pick(g, c20Statuses), Delay: simcore.Pick(g, c20Delays)}
			if rq.Method == "HEAD" && (rs.Status == 204 || rs.Status == 304) {
				rs.Status = 200 // a bodiless status answering HEAD would be rendered without Content-Length (see below)
			}
			if g.Chance(50) {
				rs.Headers = append(rs.Headers, h2Header{"Content-Type", simcore.Pick(g, []string{"text/plain; charset=utf-8", "application/json", "application/octet-stream"})})
			}
			if g.Chance(30) {
				rs.Headers = append(rs.Headers, h2Header{"X-Up-A", simcore.Pick(g, c20HdrVals[:7])})
			}
			if !h2NoBody(rq.Method, rs.Status) {
				switch g.Intn(4) {
				case 0:
				case 1:
					rs.Body = g.Bytes(g.Range(1, 300))
				default:
					rs.Body = g.Bytes(g.Range(1, maxBody))
				}
				// upstream responses always carry Content-Length: for a response of unknown length httputil.ReverseProxy
				// arms an immediate flush timer whose goroutine races with the copy loop in real time, which no seed controls
			} else if rq.Method == "HEAD" {
				rs.Body = g.Bytes(g.Range(0, 50))
			}
			rs.BodyLen = len(rs.Body)
			rs.Chunks = c07GenChunks(g, len(rs.Body)+100)
			if faults && g.Chance(35) {
				if g.Bool() {
					rs.Hang = true
				} else {
					rs.ResetAt = -1
				}
			}
			rq.Resp = rs
			cl.Reqs = append(cl.Reqs, rq)
		}
		sc.Clients = append(sc.Clients, cl)
	}
	if sc.RequestID != "" {
		for i := 0; i < id; i++ {
			var u [24]byte
			copy(u[:], g.Bytes(24))
			if i == 0 && g.Bool() {
				u = [24]byte{} // leading zero nibbles must be printed
			}
			sc.uuids = append(sc.uuids, u)
		}
	}
	return sc
}

func c20Table(sc *c20Scenario) string {
	var b strings.Builder
	for _, rt := range sc.Routes {
		target := rt.Scheme + "://" + rt.Host + "/"
		if rt.Query != "" {
			target += "?" + rt.Query
		}
		var opts []string
		if rt.Strip != "" {
			opts = append(opts, "strip="+rt.Strip)
		}
		if rt.Prepend != "" {
			opts = append(opts, "prepend="+rt.Prepend)
		}
		if rt.Scheme == "https" {
			opts = append(opts, "tlsskipverify=true")
		}
		fmt.Fprintf(&b, "route add %s %s %s", rt.Service, rt.Prefix, target)
		if len(opts) > 0 {
			fmt.Fprintf(&b, " opts \"%s\"", strings.Join(opts, " "))
		}
		b.WriteString("\n")
	}
	return b.String()
}

// ---------------------------------------------------------------- observation

type c20Write struct {
	b    []byte
	task string
}

// c20Writer is the access log target: it keeps every Write call apart (the logger issues one per line).
type c20Writer struct {
	mu     sync.Mutex
	writes []c20Write
}

func (w *c20Writer) Write(p []byte) (int, error) {
	t := simhook.CurrentTask()
	w.mu.Lock()
	w.writes = append(w.writes, c20Write{b: append([]byte(nil), p...), task: t})
	w.mu.Unlock()
	return len(p), nil
}

// c20Obs is what the harness observes at its own seams (handler wrapper, clock, uuid source).
type c20Obs struct {
	mu      sync.Mutex
	perConn map[string]int
	taskReq map[string]string      // handler task -> request id
	remote  map[string]string      // request id -> RemoteAddr as net/http reports it for the simulated connection
	tlsVer  map[string]uint16      // request id -> negotiated version / suite as crypto/tls reports them
	tlsSuit map[string]uint16      //
	clock   map[string][]time.Time // handler task -> instants handed out by HTTPProxy.Time
	uuidOf  map[string][24]byte    // handler task -> raw uuid handed out
	nuuid   int
	strays  int // clock/uuid calls from something that is not a handler task
}

// ---------------------------------------------------------------- reference rendering

type c20Event struct {
	rq      *h2Req
	rt      *c20Route
	remote  string
	scheme  string
	status  int
	size    int
	times   []time.Time // instants the clock handed to this request's handler, in order
	upURI   string      // request-target the raw upstream recorded
	hasUp   bool
	ipv6Cli bool
}

func c20URI(rq *h2Req) string {
	if rq.Query != "" || rq.HasQ {
		return rq.Path + "?" + rq.Query
	}
	return rq.Path
}

func c20Dedup(xs []string) []string {
	var out []string
	for _, x := range xs {
		dup := false
		for _, y := range out {
			if x == y {
				dup = true
			}
		}
		if !dup {
			out = append(out, x)
		}
	}
	return out
}

// c20Secs renders a duration as seconds with the given number of fractional digits; where the digits beyond are not
// zero both the truncated and the rounded value are accepted (the documentation only says "S.sss format").
func c20Secs(d time.Duration, digits int) []string {
	unit := int64(1)
	for i := digits; i < 9; i++ {
		unit *= 10
	}
	perSec := int64(time.Second) / unit
	n := int64(d)
	render := func(q int64) string { return fmt.Sprintf("%d.%0*d", q/perSec, digits, q%perSec) }
	out := []string{render(n / unit)}
	if n%unit != 0 {
		out = append(out, render((n+unit/2)/unit))
	}
	return c20Dedup(out)
}

// c20Render returns the acceptable renderings of one documented field for an event.
func c20Render(field string, ev *c20Event) []string {
	rq := ev.rq
	if name, ok := strings.CutPrefix(field, "$header."); ok {
		// request http header: the (first) value the client sent under that name, without the optional whitespace around it
		for _, h := range rq.Headers {
			if http.CanonicalHeaderKey(h.K) == http.CanonicalHeaderKey(name) {
				return []string{strings.Trim(h.V, " \t")}
			}
		}
		return []string{""}
	}
	eachTime := func(f func(t time.Time) string) []string {
		var out []string
		for _, t := range ev.times {
			out = append(out, f(t.UTC()))
		}
		return c20Dedup(out)
	}
	layout := func(l string) []string { return eachTime(func(t time.Time) string { return t.Format(l) }) }
	switch field {
	case "$remote_addr":
		return []string{ev.remote}
	case "$remote_host":
		h, _, _ := net.SplitHostPort(ev.remote)
		return []string{h}
	case "$remote_port":
		_, p, _ := net.SplitHostPort(ev.remote)
		return []string{p}
	case "$request":
		return []string{rq.Method + " " + c20URI(rq) + " HTTP/1.1"}
	case "$request_args":
		return []string{rq.Query}
	case "$request_host":
		return []string{rq.Host}
	case "$request_method":
		return []string{rq.Method}
	case "$request_scheme":
		return []string{ev.scheme}
	case "$request_uri":
		return []string{c20URI(rq)}
	case "$request_url":
		return []string{ev.scheme + "://" + rq.Host + c20URI(rq)}
	case "$request_proto":
		return []string{"HTTP/1.1"}
	case "$response_body_size":
		return []string{strconv.Itoa(ev.size)}
	case "$response_status":
		return []string{strconv.Itoa(ev.status)}
	case "$response_time_ms", "$response_time_us", "$response_time_ns":
		d := ev.times[len(ev.times)-1].Sub(ev.times[0])
		return c20Secs(d, map[string]int{"$response_time_ms": 3, "$response_time_us": 6, "$response_time_ns": 9}[field])
	case "$time_rfc3339":
		return layout("2006-01-02T15:04:05Z07:00")
	case "$time_rfc3339_ms":
		return layout("2006-01-02T15:04:05.000Z07:00")
	case "$time_rfc3339_us":
		return layout("2006-01-02T15:04:05.000000Z07:00")
	case "$time_rfc3339_ns":
		return layout("2006-01-02T15:04:05.000000000Z07:00")
	case "$time_unix_ms":
		return eachTime(func(t time.Time) string { return strconv.FormatInt(t.UnixMilli(), 10) })
	case "$time_unix_us":
		return eachTime(func(t time.Time) string { return strconv.FormatInt(t.UnixMicro(), 10) })
	case "$time_unix_ns":
		return eachTime(func(t time.Time) string { return strconv.FormatInt(t.UnixNano(), 10) })
	case "$time_common":
		return layout("02/Jan/2006:15:04:05 -0700")
	case "$upstream_addr":
		// "host:port of upstream server": for a target written without port both the bare host and host:default-port are accepted
		if ev.rt.NoPort {
			return []string{ev.rt.Host, ev.rt.Key}
		}
		return []string{ev.rt.Host}
	case "$upstream_host":
		return []string{(&url.URL{Host: ev.rt.Host}).Hostname()}
	case "$upstream_port":
		if ev.rt.NoPort {
			return []string{"", c20DefaultPort(ev.rt.Scheme)}
		}
		return []string{(&url.URL{Host: ev.rt.Host}).Port()}
	case "$upstream_request_scheme":
		return []string{ev.rt.Scheme}
	case "$upstream_request_uri":
		return []string{ev.upURI}
	case "$upstream_request_url":
		return []string{ev.rt.Scheme + "://" + ev.rt.Host + ev.upURI}
	case "$upstream_service":
		return []string{ev.rt.Service}
	}
	return nil
}

// c20Match reports whether line is a concatenation of one alternative per part (a nil entry matches any text); if not,
// the index of the first part at which no alternative fits any more (len(parts): the parts fit but the line goes on).
func c20Match(line string, parts [][]string) (bool, int) {
	pos := []int{0}
	for i, alts := range parts {
		var next []int
		if alts == nil {
			for q := pos[0]; q <= len(line); q++ {
				next = append(next, q)
			}
			pos = next
			continue
		}
		for _, p := range pos {
			for _, a := range alts {
				if strings.HasPrefix(line[p:], a) {
					q := p + len(a)
					dup := false
					for _, x := range next {
						if x == q {
							dup = true
						}
					}
					if !dup {
						next = append(next, q)
					}
				}
			}
		}
		if len(next) == 0 {
			return false, i
		}
		sort.Ints(next)
		pos = next
	}
	for _, p := range pos {
		if p == len(line) {
			return true, -1
		}
	}
	return false, len(parts)
}

// c20Blame finds the part of a non-matching line that is wrong: the field such that the line matches once that field
// may be any text - if several qualify, the one that has to stand for the fewest bytes; then the first pair of fields
// with that property; failing that, the part where prefix matching stops.
func c20Blame(line string, alts [][]string, isField func(i int) bool) int {
	n := len(alts)
	// fwd[i]: offsets reachable after parts[0:i]; bwd[i]: offsets from which parts[i:] reach the end of the line
	fwd := make([]map[int]bool, n+1)
	bwd := make([]map[int]bool, n+1)
	fwd[0] = map[int]bool{0: true}
	for i := 0; i < n; i++ {
		fwd[i+1] = map[int]bool{}
		for p := range fwd[i] {
			for _, a := range alts[i] {
				if strings.HasPrefix(line[p:], a) {
					fwd[i+1][p+len(a)] = true
				}
			}
		}
	}
	bwd[n] = map[int]bool{len(line): true}
	for i := n - 1; i >= 0; i-- {
		bwd[i] = map[int]bool{}
		for q := range bwd[i+1] {
			for _, a := range alts[i] {
				if strings.HasSuffix(line[:q], a) {
					bwd[i][q-len(a)] = true
				}
			}
		}
	}
	best, bestSpan := -1, 0
	for k := 0; k < n; k++ {
		if !isField(k) {
			continue
		}
		span := -1
		for p := range fwd[k] {
			for q := range bwd[k+1] {
				if q >= p && (span < 0 || q-p < span) {
					span = q - p
				}
			}
		}
		if span >= 0 && (best < 0 || span < bestSpan) {
			best, bestSpan = k, span
		}
	}
	if best >= 0 {
		return best
	}
	with := func(ks ...int) bool {
		cp := append([][]string(nil), alts...)
		for _, k := range ks {
			cp[k] = nil
		}
		ok, _ := c20Match(line, cp)
		return ok
	}
	for k := range alts {
		for k2 := k + 1; k2 < len(alts); k2++ {
			if isField(k) && isField(k2) && with(k, k2) {
				return k
			}
		}
	}
	_, at := c20Match(line, alts)
	return at
}

// c20Sig names the kind of a field mismatch without random data.
func c20Sig(sc *c20Scenario, ev *c20Event, field string) string {
	switch {
	case field == "":
		return "literal-text"
	case strings.HasPrefix(field, "$header."):
		return "$header"
	case strings.HasPrefix(field, "$time_"):
		switch {
		case sc.ZoneOffset != 0:
			return field + "/clock-in-local-zone"
		case sc.epoch.Year() > 9999:
			return field + "/five-digit-year"
		}
	case strings.HasPrefix(field, "$remote_"):
		if ev.ipv6Cli {
			return field + "/ipv6"
		}
	case field == "$upstream_addr" || field == "$upstream_host" || field == "$upstream_port":
		q := ""
		if ev.rt.IPv6 {
			q += "/ipv6"
		}
		if ev.rt.NoPort {
			q += "/no-port"
		}
		return field + q
	}
	return field
}

func c20Clip(s string) string { return c20ClipN(s, 300) }

func c20ClipN(s string, n int) string {
	if len(s) > n {
		return fmt.Sprintf("%s...(%d bytes)", s[:n], len(s))
	}
	return s
}

// ---------------------------------------------------------------- the run

func runC20(r *simcore.Run) {
	sc := c20Gen(r.Gen, r.Thorough())
	r.SetSample(sc)

	cfg := &config.Config{}
	cfg.Proxy.Strategy = "rnd"
	cfg.Proxy.Matcher = "prefix"
	cfg.Proxy.NoRouteStatus = 404
	cfg.GlobCacheSize = 100
	cfg.Proxy.DialTimeout = 30 * time.Second
	cfg.Proxy.ResponseHeaderTimeout = sc.HeaderTimeout
	cfg.Proxy.RequestID = sc.RequestID
	cfg.Proxy.STSHeader = config.STSHeader{MaxAge: sc.STSMaxAge, Subdomains: sc.STSSub, Preload: sc.STSPreload}
	e := h2NewEnv(r, cfg, c20Table(sc))
	defer e.finish()

	// the access logger under test, writing to the recording target
	w := &c20Writer{}
	lg, err := logger.New(w, sc.Format)
	if err != nil {
		r.Fail("format", "rejected", "format %q over documented fields was rejected: %v", sc.Format, err)
		return
	}
	e.proxy.Logger = lg

	obs := &c20Obs{perConn: map[string]int{}, taskReq: map[string]string{}, remote: map[string]string{}, tlsVer: map[string]uint16{},
		tlsSuit: map[string]uint16{}, clock: map[string][]time.Time{}, uuidOf: map[string][24]byte{}}
	t0 := time.Now()
	var loc *time.Location
	if sc.ZoneOffset != 0 {
		loc = time.FixedZone(sc.ZoneName, sc.ZoneOffset)
	}
	e.proxy.Time = func() time.Time {
		t := sc.epoch.Add(time.Since(t0))
		if loc != nil {
			t = t.In(loc)
		}
		task := simhook.CurrentTask()
		obs.mu.Lock()
		if _, ok := obs.taskReq[task]; ok {
			obs.clock[task] = append(obs.clock[task], t)
		} else {
			obs.strays++
		}
		obs.mu.Unlock()
		return t
	}
	if sc.RequestID != "" {
		e.proxy.UUID = func() string {
			task := simhook.CurrentTask()
			obs.mu.Lock()
			u := sc.uuids[obs.nuuid%len(sc.uuids)]
			obs.nuuid++
			obs.uuidOf[task] = u
			obs.mu.Unlock()
			return uuid.ToString(u)
		}
	}

	e.d.Stick = sc.Stick
	e.d.Sim.Activate("logger", "proxy:*HTTPProxy.ServeHTTP")
	if !sc.FineYields {
		e.d.Sim.Activate("-logger:atoi")
	}
	// handler goroutines become tasks; a panic out of fabio's handler is recorded by the task layer as class "panic".
	// http.ErrAbortHandler is net/http's own way of aborting a response (ReverseProxy uses it): it is passed on untouched.
	e.wrap = func(h http.Handler) http.Handler {
		return http.HandlerFunc(func(rw http.ResponseWriter, req *http.Request) {
			id := req.Header.Get("X-Sim-Id")
			obs.mu.Lock()
			n := obs.perConn[req.RemoteAddr]
			obs.perConn[req.RemoteAddr] = n + 1
			name := fmt.Sprintf("h/%s/%d", req.RemoteAddr, n)
			obs.taskReq[name] = id
			obs.remote[id] = req.RemoteAddr
			if req.TLS != nil {
				obs.tlsVer[id], obs.tlsSuit[id] = req.TLS.Version, req.TLS.CipherSuite
			}
			obs.mu.Unlock()
			abort := false
			defer func() {
				if abort {
					panic(http.ErrAbortHandler)
				}
			}()
			defer simhook.Adopt(name)()
			defer func() {
				if v := recover(); v != nil {
					if v == http.ErrAbortHandler {
						abort = true
						return
					}
					panic(v)
				}
			}()
			h.ServeHTTP(rw, req)
		})
	}
	overlap := 0
	e.d.Invariant = func() {
		if e.d.Sim.InFunc("logger", "") >= 2 {
			overlap++
		}
	}

	var front *tls.Config
	if sc.TLS {
		front = &tls.Config{Certificates: []tls.Certificate{zzSelfSigned()}, NextProtos: []string{"http/1.1"}}
		if sc.TLS12 {
			front.MaxVersion = tls.VersionTLS12
		}
	}
	e.serve(front)
	for i := range sc.Routes {
		rt := &sc.Routes[i]
		var up *tls.Config
		if rt.Scheme == "https" {
			up = &tls.Config{Certificates: []tls.Certificate{zzSelfSigned()}}
		}
		e.upstream(rt.Key, simnet.ListenOpts{}, up)
	}
	if sc.HeaderTimeout > 0 {
		e.onSeen = func(s *h2Seen) { e.d.Hint(s.At.Add(sc.HeaderTimeout)) }
	}
	for i := range sc.Clients {
		e.client(&sc.Clients[i])
	}
	if !e.run(600000, 12*time.Hour) {
		r.Trouble("clients did not finish: %v", e.d.Sim.TaskStates())
		return
	}
	// the log line is written after the response: let every handler return
	if !e.d.Run(200000, func() bool { return e.d.Sim.Pending() == 0 }) {
		r.Trouble("handlers did not finish: %v", e.d.Sim.TaskStates())
		return
	}
	if overlap > 0 {
		r.Probe("two_handlers_inside_logger")
	}

	// ---- evaluation
	reqTask := map[string]string{}
	var taskNames []string
	for t := range obs.taskReq {
		taskNames = append(taskNames, t)
	}
	sort.Strings(taskNames)
	for _, t := range taskNames {
		reqTask[obs.taskReq[t]] = t
	}

	var events []*c20Event
	evByTask := map[string]*c20Event{}
	for ci := range sc.Clients {
		for qi := range sc.Clients[ci].Reqs {
			rq := &sc.Clients[ci].Reqs[qi]
			rt := &sc.Routes[rq.Route]
			res := e.results[rq.ID]
			seen := e.seen[rq.ID]
			what := fmt.Sprintf("%s %s (id %s, route to %s://%s)", rq.Method, c20ClipN(c20URI(rq), 60), rq.ID, rt.Scheme, rt.Host)
			if res == nil {
				r.Trouble("no result for %s", rq.ID)
				return
			}
			faulted := rq.Resp.Hang || rq.Resp.ResetAt != 0 || (sc.HeaderTimeout > 0 && rq.Resp.Delay >= sc.HeaderTimeout)
			if faulted {
				r.Fault("upstream_silent_or_reset")
			}
			r.Tracef("exchange %s -> status=%d body=%d err=%v", rq.ID, res.Status, len(res.Body), res.Err)
			if res.Err != nil || res.Status == 0 {
				if !faulted {
					r.Fail("response", "error", "%s: the client got no response: %v", what, res.Err)
				}
				continue
			}
			// "never alters the response": the client sees what the upstream sent
			if !faulted {
				if res.Status != rq.Resp.Status {
					r.Fail("response", "status", "%s: upstream answered %d, client saw %d", what, rq.Resp.Status, res.Status)
				}
				if !h2NoBody(rq.Method, rq.Resp.Status) && (res.BodyErr != nil || !bytes.Equal(res.Body, rq.Resp.Body)) {
					r.Fail("response", "body", "%s: upstream sent %d body bytes, client read %d (err %v)", what, len(rq.Resp.Body), len(res.Body), res.BodyErr)
				}
				usent := h2EndToEnd(h2HeaderList(rq.Resp.Headers), nil)
				cgot := h2EndToEnd(res.Header, nil)
				var names []string
				for k := range usent {
					names = append(names, k)
				}
				sort.Strings(names)
				for _, k := range names {
					if k == "Content-Type" && res.Status == 304 {
						continue
					}
					if fmt.Sprint(cgot[k]) != fmt.Sprint(usent[k]) {
						r.Fail("response", "header", "%s: upstream sent header %s=%q, client received %q", what, k, usent[k], cgot[k])
					}
				}
			}
			task := reqTask[rq.ID]
			ev := &c20Event{rq: rq, rt: rt, remote: obs.remote[rq.ID], scheme: "http", status: res.Status, size: len(res.Body), times: obs.clock[task]}
			if sc.TLS {
				ev.scheme = "https"
			}
			if h, _, err := net.SplitHostPort(ev.remote); err != nil {
				r.Trouble("request %s never reached the handler wrapper (remote %q)", rq.ID, ev.remote)
				return
			} else {
				ev.ipv6Cli = strings.Contains(h, ":")
			}
			if len(seen) > 0 {
				ev.upURI, ev.hasUp = seen[0].RequestURI, true
			}
			if len(ev.times) < 2 {
				if r.Failed() {
					continue // the handler died before it read the clock again; already recorded
				}
				r.Trouble("the clock seam HTTPProxy.Time was read %d times for request %s (start and end expected)", len(ev.times), rq.ID)
				return
			}
			events = append(events, ev)
			evByTask[task] = ev

			// formatters on the request path, on the values that occurred
			if sc.RequestID != "" && len(seen) > 0 {
				u := obs.uuidOf[task]
				want := fmt.Sprintf("%x-%x-%x-%x-%x", u[0:4], u[4:6], u[6:8], u[8:10], u[10:16])
				if got := seen[0].Header.Get(sc.RequestID); got != want {
					r.Fail("formatter", "uuid", "%s: request id header reached the upstream as %q, the uuid bytes %x format as %q", what, got, u[:16], want)
				}
				r.Probe("uuid_compared")
			}
			if sc.TLS && len(seen) > 0 {
				fwd := seen[0].Header.Get("Forwarded")
				want := fmt.Sprintf("tlscipher=0x%04x", obs.tlsSuit[rq.ID])
				if !strings.Contains(fwd, want) {
					r.Fail("formatter", "hex16", "%s: Forwarded header %q does not carry %s", what, fwd, want)
				}
				if i := strings.Index(fwd, "tlsver=0x"); i >= 0 {
					if wantv := fmt.Sprintf("tlsver=0x%04x", obs.tlsVer[rq.ID]); !strings.HasPrefix(fwd[i:], wantv) {
						r.Fail("formatter", "hex16", "%s: Forwarded header %q does not carry %s", what, fwd, wantv)
					}
				}
				r.Probe("hex16_compared")
				if sc.STSMaxAge > 0 {
					got := res.Header.Get("Strict-Transport-Security")
					want := "max-age=" + strconv.Itoa(sc.STSMaxAge)
					if got != want && !strings.HasPrefix(got, want+";") {
						r.Fail("formatter", "itoa32", "%s: Strict-Transport-Security is %q, configured max-age %d", what, got, sc.STSMaxAge)
					}
					r.Probe("itoa32_compared")
				}
			}
		}
	}

	// lines: every Write call is exactly one line
	w.mu.Lock()
	writes := w.writes
	w.mu.Unlock()
	var lines []string
	var lineTask []string
	for _, wr := range writes {
		s := string(wr.b)
		r.Tracef("log %s", strconv.Quote(c20Clip(s)))
		if !strings.HasSuffix(s, "\n") || strings.Count(s, "\n") != 1 || len(s) < 2 {
			r.Fail("line", "not-one-line", "a write to the access log is not exactly one line: %s", strconv.Quote(c20Clip(s)))
			continue
		}
		lines = append(lines, s)
		lineTask = append(lineTask, wr.task)
	}
	// reference parts per event
	alts := make([][][]string, len(events))
	for j, ev := range events {
		for _, p := range sc.Parts {
			if p.Field == "" {
				alts[j] = append(alts[j], []string{p.Lit})
				continue
			}
			a := c20Render(p.Field, ev)
			if a == nil {
				r.Trouble("no reference for field %s", p.Field)
				return
			}
			alts[j] = append(alts[j], a)
		}
		alts[j] = append(alts[j], []string{"\n"})
	}
	if len(events) > 0 {
		r.Nontrivial()
	}
	if len(events) >= 2 {
		r.Probe("two_or_more_logged_requests")
	}
	// maximum matching between lines and requests
	adj := make([][]int, len(lines))
	for i, l := range lines {
		for j := range events {
			if ok, _ := c20Match(l, alts[j]); ok {
				adj[i] = append(adj[i], j)
			}
		}
	}
	matchOfEvent := make([]int, len(events))
	for j := range matchOfEvent {
		matchOfEvent[j] = -1
	}
	matchOfLine := make([]int, len(lines))
	var try func(i int, seen []bool) bool
	try = func(i int, seen []bool) bool {
		for _, j := range adj[i] {
			if seen[j] {
				continue
			}
			seen[j] = true
			if matchOfEvent[j] < 0 || try(matchOfEvent[j], seen) {
				matchOfEvent[j] = i
				return true
			}
		}
		return false
	}
	for i := range lines {
		matchOfLine[i] = -1
		try(i, make([]bool, len(events)))
	}
	for j, i := range matchOfEvent {
		if i >= 0 {
			matchOfLine[i] = j
		}
	}
	blamed := map[int]bool{}
	for i, l := range lines {
		if matchOfLine[i] >= 0 {
			continue
		}
		ev := evByTask[lineTask[i]]
		j := -1
		if ev != nil {
			j = indexOfEvent(events, ev)
		}
		if j >= 0 {
			if ok, _ := c20Match(l, alts[j]); !ok {
				at := c20Blame(l, alts[j], func(i int) bool { return i < len(sc.Parts) && sc.Parts[i].Field != "" })
				// the line written by this request's own handler is not the rendering of this request
				blamed[j] = true
				field, want := "", []string{"<end of line>"}
				if at < len(alts[j]) {
					want = alts[j][at]
				}
				if at < len(sc.Parts) {
					field = sc.Parts[at].Field
				}
				sig := c20Sig(sc, ev, field)
				if at > len(sc.Parts) {
					sig = "trailing-bytes"
				}
				r.Fail("field", sig, "request %s %s (id %s) from %s via %s://%s, status %d, %d body bytes, clock %v: logged line\n  %s\ndiffers from the reference at part %d (%s), acceptable there: %q (format %q)",
					ev.rq.Method, c20ClipN(c20URI(ev.rq), 60), ev.rq.ID, ev.remote, ev.rt.Scheme, ev.rt.Host, ev.status, ev.size, ev.times, strconv.Quote(c20Clip(l)), at, field+sc.partLit(at), want, c20Clip(sc.Format))
				continue
			}
		}
		if len(adj[i]) > 0 {
			r.Fail("lines", "extra", "access log line %s is logged more often than requests it describes were answered (%d lines, %d answered requests)", strconv.Quote(c20Clip(l)), len(writes), len(events))
			continue
		}
		r.Fail("line", "matches-no-request", "access log line %s is not the rendering of any request of this run (format %q)", strconv.Quote(c20Clip(l)), c20Clip(sc.Format))
	}
	for j, ev := range events {
		if matchOfEvent[j] < 0 && !blamed[j] {
			r.Fail("lines", "missing", "request %s %s (id %s) was answered with status %d but no line of the access log describes it (%d lines, %d answered requests, format %q)",
				ev.rq.Method, c20ClipN(c20URI(ev.rq), 60), ev.rq.ID, ev.status, len(writes), len(events), c20Clip(sc.Format))
		}
	}
	if len(writes) > len(events) {
		r.Fail("lines", "extra", "%d requests were answered with a status but the access log has %d writes (format %q)", len(events), len(writes), c20Clip(sc.Format))
	}
	if obs.strays > 0 {
		r.Probe("clock_read_outside_handler")
	}
}

func (sc *c20Scenario) partLit(i int) string {
	if i < len(sc.Parts) && sc.Parts[i].Field == "" {
		return strconv.Quote(sc.Parts[i].Lit)
	}
	return ""
}

func indexOfEvent(events []*c20Event, ev *c20Event) int {
	for i, x := range events {
		if x == ev {
			return i
		}
	}
	return -1
}

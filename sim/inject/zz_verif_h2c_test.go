//go:build verif

package main

// HTTP/2 clients of the H2 environment (h2Client.H2): a raw client on golang.org/x/net/http2's Framer and hpack
// over crypto/tls (ALPN "h2") over a simnet connection. Like the raw HTTP/1.1 clients it puts exactly what the
// scenario says on the wire (pseudo-headers, lower-case field names, cookie crumbs, DATA pieces, END_STREAM placement,
// RST_STREAM) and records what comes back per stream.
//
// Every frame the client sends is a driver event; one reader goroutine per connection parses what fabio sends and
// runs to quiescence between driver steps. The client advertises windows that no scenario exhausts and therefore
// never sends WINDOW_UPDATE: nothing it writes depends on how reads and arrivals interleave.
//
// Determinism rules (Go's HTTP/2 server multiplexes the frames of all streams of a connection through one serve loop
// whose select statement and flush points depend on the Go scheduler as soon as two goroutines want to write to the
// same connection in the same instant; the number of TLS records, hence of bytes, then differs between executions):
//   - the client sends a frame only when fabio has consumed everything sent before on that connection, so one delivery
//     never carries frames of two streams;
//   - at most one response is under way per connection: an upstream answers a request of an HTTP/2 client only when
//     the driver fires "h2c:answer:<id>", which is enabled while no other response is in flight on that connection;
//     a request without a route (fabio answers at once) is started only then, too;
//   - while a response is in flight the client sends no DATA on that connection (each DATA frame makes the server
//     write WINDOW_UPDATE frames).
// Streams are concurrently open (up to h2Client.Streams), their uploads interleave piece by piece in an order the
// schedule chooses, answers arrive in any order relative to the order of the requests.

import (
	"bytes"
	"crypto/tls"
	"fmt"
	"io"
	"net"
	"net/http"
	"sort"
	"strconv"
	"strings"
	"sync"
	"time"

	"github.com/fabiolb/fabio/internal/zzverif/simcore"
	"github.com/fabiolb/fabio/internal/zzverif/simnet"
	"golang.org/x/net/http2"
	"golang.org/x/net/http2/hpack"
)

const h2cWindow = 1 << 30

type h2cStream struct {
	rq       *h2Req
	res      *h2Result
	id       uint32
	pieces   []int // sizes of the DATA frames still to send (0 = rest)
	sent     int   // body bytes sent
	window   int64 // send window of the stream
	endSent  bool  // END_STREAM or RST_STREAM sent
	gotHead  bool
	finished bool
}

type h2cConn struct {
	e   *h2Env
	cl  *h2Client
	raw *simnet.Conn
	c   net.Conn

	wmu  sync.Mutex // frame writes (driver and reader goroutine; the reader writes only acknowledgements)
	fr   *http2.Framer
	henc *hpack.Encoder
	hbuf bytes.Buffer

	mu         sync.Mutex
	stage      int  // 0 connecting, 1 TLS established, 2 magic sent, 3 SETTINGS sent: requests may start
	ackOwed    bool // fabio's SETTINGS arrived before the client's own SETTINGS were sent
	dead       bool
	streams    map[uint32]*h2cStream
	order      []*h2cStream
	next       int // index of the next request to start
	open       int
	finished   int
	inFlight   string // id of the request whose response is under way on this connection
	waiting    map[string]chan struct{}
	connWindow int64
	initWindow int64
	maxFrame   int
}

// clientH2 runs one scripted HTTP/2 client (the listener must speak TLS and offer h2).
func (e *h2Env) clientH2(cl *h2Client) {
	cc := &h2cConn{e: e, cl: cl, streams: map[uint32]*h2cStream{}, waiting: map[string]chan struct{}{},
		connWindow: 65535, initWindow: 65535, maxFrame: 16384}
	e.mu.Lock()
	e.clients++
	for i := range cl.Reqs {
		e.script[cl.Reqs[i].ID] = &cl.Reqs[i]
		e.results[cl.Reqs[i].ID] = &h2Result{CL: -1}
		if e.h2conn == nil {
			e.h2conn = map[string]*h2cConn{}
		}
		e.h2conn[cl.Reqs[i].ID] = cc
	}
	e.mu.Unlock()
	e.d.AddSource(cc.events)
	go func() {
		defer func() {
			e.mu.Lock()
			e.done++
			e.mu.Unlock()
		}()
		fail := func(err error) {
			cc.mu.Lock()
			cc.dead = true
			cc.mu.Unlock()
			for i := range cl.Reqs {
				e.results[cl.Reqs[i].ID].Err = err
			}
		}
		raw, err := e.net.Dial(e.r.Ctx(), e.netAddr(cl.Addr), h2FabioAddr, 0)
		if err != nil {
			fail(err)
			return
		}
		cc.raw = raw.(*simnet.Conn)
		tc := tls.Client(raw, &tls.Config{InsecureSkipVerify: true, ServerName: "fabio.sim", NextProtos: []string{"h2"}})
		if err := tc.Handshake(); err != nil {
			fail(err)
			raw.Close()
			return
		}
		defer tc.Close()
		if p := tc.ConnectionState().NegotiatedProtocol; p != "h2" {
			e.r.Trouble("the simulated listener did not negotiate h2 (got %q)", p)
			fail(fmt.Errorf("no h2"))
			return
		}
		cc.c = tc
		cc.fr = http2.NewFramer(tc, tc)
		cc.fr.ReadMetaHeaders = hpack.NewDecoder(4096, nil)
		cc.fr.MaxHeaderListSize = 1 << 20
		cc.fr.SetMaxReadFrameSize(1 << 20)
		cc.henc = hpack.NewEncoder(&cc.hbuf)
		// the connection preface is sent by the driver (see events)
		cc.mu.Lock()
		cc.stage = 1
		cc.mu.Unlock()
		cc.readLoop()
	}()
}

// consumed reports whether fabio has read everything this client has written so far.
func (cc *h2cConn) consumed() bool {
	sent, _, read := cc.raw.Counters()
	return sent == read
}

func (cc *h2cConn) events() []simcore.Event {
	cc.mu.Lock()
	defer cc.mu.Unlock()
	var ev []simcore.Event
	key := "h2c:" + cc.cl.Addr + ":"
	// upstream answers wait for their turn whether or not the client can send
	if !cc.dead {
		var ids []string
		for id := range cc.waiting {
			// (a request that fabio's transport sent again is answered again)
			// ... and only when the client has ended the request: until then net/http's transport holds back even an
			// upstream failure (it waits for the end of the body it is copying), and DATA is not sent during a response
			ended := false
			for _, st := range cc.order {
				ended = ended || (st.rq.ID == id && st.endSent)
			}
			if ended && (cc.inFlight == "" || cc.inFlight == id) {
				ids = append(ids, id)
			}
		}
		sort.Strings(ids)
		for _, id := range ids {
			id := id
			ev = append(ev, simcore.Event{Key: "h2c:answer:" + id, Fire: func() {
				cc.mu.Lock()
				ch := cc.waiting[id]
				delete(cc.waiting, id)
				if ch != nil {
					cc.inFlight = id
				}
				cc.mu.Unlock()
				if ch != nil {
					cc.e.r.Tracef("upstream may answer id=%s", id)
					close(ch)
				}
			}})
		}
	}
	if cc.stage == 0 || cc.dead || !cc.consumed() {
		return ev
	}
	// The preface goes out in two steps, the magic string and then SETTINGS + WINDOW_UPDATE: Go's server writes its own
	// SETTINGS when it has read the magic, and whether that write and the acknowledgement of the client's SETTINGS
	// share a flush (a TLS record) is a race inside the server when both arrive together.
	if cc.stage == 1 {
		return append(ev, simcore.Event{Key: key + "preface", Weight: 3, Fire: func() {
			cc.mu.Lock()
			cc.stage = 2
			cc.mu.Unlock()
			io.WriteString(cc.c, http2.ClientPreface)
		}})
	}
	if cc.stage == 2 {
		return append(ev, simcore.Event{Key: key + "settings", Weight: 3, Fire: func() {
			cc.mu.Lock()
			cc.stage = 3
			ack := cc.ackOwed
			cc.ackOwed = false
			cc.mu.Unlock()
			cc.wmu.Lock()
			cc.fr.WriteSettings(http2.Setting{ID: http2.SettingEnablePush, Val: 0}, http2.Setting{ID: http2.SettingInitialWindowSize, Val: h2cWindow})
			cc.fr.WriteWindowUpdate(0, h2cWindow)
			if ack {
				cc.fr.WriteSettingsAck()
			}
			cc.wmu.Unlock()
		}})
	}
	max := cc.cl.Streams
	if max < 1 {
		max = 1
	}
	if cc.next < len(cc.cl.Reqs) && cc.open < max {
		rq := &cc.cl.Reqs[cc.next]
		if rq.Route >= 0 || cc.inFlight == "" {
			ev = append(ev, simcore.Event{Key: key + "open:" + rq.ID, Weight: 2, Fire: func() { cc.openStream(rq) }})
		}
	}
	if cc.inFlight != "" {
		return ev
	}
	for _, st := range cc.order {
		st := st
		if st.finished || st.endSent {
			continue
		}
		if st.rq.Abort > 0 && st.sent >= h2cAbortAt(st.rq) {
			ev = append(ev, simcore.Event{Key: key + "reset:" + st.rq.ID, Fire: func() { cc.reset(st) }})
			continue
		}
		if n := cc.sendable(st); n > 0 || st.sent == len(st.rq.Body) {
			ev = append(ev, simcore.Event{Key: key + "data:" + st.rq.ID, Fire: func() { cc.sendData(st) }})
		}
	}
	return ev
}

func h2cAbortAt(rq *h2Req) int {
	if rq.Abort > len(rq.Body) {
		return len(rq.Body)
	}
	return rq.Abort
}

// sendable returns the size of the next DATA frame of st (cc.mu held).
func (cc *h2cConn) sendable(st *h2cStream) int {
	n := len(st.rq.Body) - st.sent
	if len(st.pieces) > 0 && st.pieces[0] > 0 && st.pieces[0] < n {
		n = st.pieces[0]
	}
	if st.rq.Abort > 0 && st.sent+n > h2cAbortAt(st.rq) {
		n = h2cAbortAt(st.rq) - st.sent
	}
	if n > cc.maxFrame {
		n = cc.maxFrame
	}
	if int64(n) > cc.connWindow {
		n = int(cc.connWindow)
	}
	if int64(n) > st.window {
		n = int(st.window)
	}
	if n < 0 {
		n = 0
	}
	return n
}

// h2cFields renders the header fields of a request as an HTTP/2 client sends them.
func h2cFields(rq *h2Req) []hpack.HeaderField {
	path := rq.Path
	if rq.Query != "" || rq.HasQ {
		path += "?" + rq.Query
	}
	fs := []hpack.HeaderField{{Name: ":method", Value: rq.Method}, {Name: ":scheme", Value: "https"}, {Name: ":authority", Value: rq.Host},
		{Name: ":path", Value: path}, {Name: "x-sim-id", Value: rq.ID}}
	for _, h := range rq.Headers {
		name := strings.ToLower(h.K)
		if name == "cookie" && rq.SplitCookie {
			// RFC 9113 8.2.3: a client may send every cookie-pair as a field of its own
			for _, crumb := range strings.Split(h.V, "; ") {
				fs = append(fs, hpack.HeaderField{Name: name, Value: crumb})
			}
			continue
		}
		fs = append(fs, hpack.HeaderField{Name: name, Value: h.V, Sensitive: name == "authorization"})
	}
	if !rq.Chunked && (len(rq.Body) > 0 || rq.Method == "POST" || rq.Method == "PUT" || rq.Method == "PATCH") {
		fs = append(fs, hpack.HeaderField{Name: "content-length", Value: strconv.Itoa(len(rq.Body))})
	}
	return fs
}

func (cc *h2cConn) openStream(rq *h2Req) {
	cc.mu.Lock()
	st := &h2cStream{rq: rq, res: cc.e.results[rq.ID], id: uint32(2*cc.next + 1), pieces: append([]int(nil), rq.Chunks...), window: cc.initWindow}
	cc.next++
	cc.open++
	cc.streams[st.id] = st
	cc.order = append(cc.order, st)
	end := len(rq.Body) == 0 && !rq.EndEmpty && rq.Abort == 0
	st.endSent = end
	if rq.Route < 0 {
		cc.inFlight = rq.ID
	}
	cc.mu.Unlock()
	st.res.SentAt = time.Now()
	cc.e.r.Tracef("client %s sends %s %s id=%s (h2 stream %d)", cc.cl.Addr, rq.Method, rq.Path, rq.ID, st.id)
	cc.wmu.Lock()
	defer cc.wmu.Unlock()
	cc.hbuf.Reset()
	for _, f := range h2cFields(rq) {
		cc.henc.WriteField(f)
	}
	block := cc.hbuf.Bytes()
	// a long field block goes out as HEADERS + CONTINUATION
	first := block
	if rq.SplitHead > 0 && rq.SplitHead < len(block) {
		first = block[:rq.SplitHead]
	}
	cc.fr.WriteHeaders(http2.HeadersFrameParam{StreamID: st.id, BlockFragment: first, EndStream: end, EndHeaders: len(first) == len(block)})
	if len(first) < len(block) {
		cc.fr.WriteContinuation(st.id, true, block[len(first):])
	}
}

func (cc *h2cConn) sendData(st *h2cStream) {
	cc.mu.Lock()
	n := cc.sendable(st)
	data := st.rq.Body[st.sent : st.sent+n]
	st.sent += n
	if len(st.pieces) > 0 {
		if st.pieces[0] > n {
			st.pieces[0] -= n
		} else {
			st.pieces = st.pieces[1:]
		}
	}
	cc.connWindow -= int64(n)
	st.window -= int64(n)
	last := st.sent == len(st.rq.Body) && st.rq.Abort == 0
	end := last && (!st.rq.EndEmpty || n == 0)
	st.endSent = end
	cc.mu.Unlock()
	cc.wmu.Lock()
	cc.fr.WriteData(st.id, end, data)
	cc.wmu.Unlock()
}

func (cc *h2cConn) reset(st *h2cStream) {
	cc.mu.Lock()
	st.endSent = true
	cc.mu.Unlock()
	cc.e.r.Tracef("client %s resets id=%s after %d body bytes", cc.cl.Addr, st.rq.ID, st.sent)
	cc.wmu.Lock()
	cc.fr.WriteRSTStream(st.id, http2.ErrCodeCancel)
	cc.wmu.Unlock()
	cc.finish(st, fmt.Errorf("client reset the stream after %d body bytes", st.sent))
	cc.mu.Lock()
	all := cc.finished == len(cc.cl.Reqs)
	cc.mu.Unlock()
	if all {
		cc.c.Close() // the reader goroutine ends
	}
}

// finish closes the books of a stream (err: the exchange failed at this point).
func (cc *h2cConn) finish(st *h2cStream, err error) {
	cc.mu.Lock()
	if st.finished {
		cc.mu.Unlock()
		return
	}
	st.finished = true
	cc.open--
	cc.finished++
	if cc.inFlight == st.rq.ID {
		cc.inFlight = ""
	}
	ch := cc.waiting[st.rq.ID]
	delete(cc.waiting, st.rq.ID)
	cc.mu.Unlock()
	if ch != nil {
		close(ch) // an upstream that still wants to answer does not have to wait: nothing reaches the client any more
	}
	res := st.res
	res.DoneAt = time.Now()
	if err != nil {
		if st.gotHead {
			res.BodyErr = err
		} else {
			res.Err = err
		}
	} else if res.CL >= 0 && !h2NoBody(st.rq.Method, res.Status) && res.CL != int64(len(res.Body)) {
		res.BodyErr = io.ErrUnexpectedEOF
	}
	cc.e.r.Tracef("client %s got %d id=%s body=%d err=%v/%v", cc.cl.Addr, res.Status, st.rq.ID, len(res.Body), res.Err != nil, res.BodyErr != nil)
}

func (cc *h2cConn) readLoop() {
	die := func(err error) {
		cc.mu.Lock()
		cc.dead = true
		sts := append([]*h2cStream(nil), cc.order...)
		rest := cc.cl.Reqs[cc.next:]
		cc.next = len(cc.cl.Reqs)
		cc.finished += len(rest)
		cc.mu.Unlock()
		for _, st := range sts {
			cc.finish(st, err)
		}
		for i := range rest {
			cc.e.results[rest[i].ID].Err = err
		}
	}
	for {
		f, err := cc.fr.ReadFrame()
		if err != nil {
			die(err)
			return
		}
		cc.handle(f)
		cc.mu.Lock()
		all := cc.finished == len(cc.cl.Reqs)
		cc.mu.Unlock()
		if all {
			return
		}
	}
}

func (cc *h2cConn) stream(id uint32) *h2cStream {
	cc.mu.Lock()
	defer cc.mu.Unlock()
	return cc.streams[id]
}

func (cc *h2cConn) handle(f http2.Frame) {
	switch f := f.(type) {
	case *http2.SettingsFrame:
		if f.IsAck() {
			return
		}
		cc.mu.Lock()
		f.ForeachSetting(func(s http2.Setting) error {
			switch s.ID {
			case http2.SettingInitialWindowSize:
				delta := int64(s.Val) - cc.initWindow
				cc.initWindow = int64(s.Val)
				for _, st := range cc.order {
					st.window += delta
				}
			case http2.SettingMaxFrameSize:
				// frames stay at the protocol's default maximum
			}
			return nil
		})
		if cc.stage < 3 {
			cc.ackOwed = true
			cc.mu.Unlock()
			return
		}
		cc.mu.Unlock()
		cc.wmu.Lock()
		cc.fr.WriteSettingsAck()
		cc.wmu.Unlock()
	case *http2.PingFrame:
		if !f.IsAck() {
			cc.wmu.Lock()
			cc.fr.WritePing(true, f.Data)
			cc.wmu.Unlock()
		}
	case *http2.WindowUpdateFrame:
		cc.mu.Lock()
		if f.StreamID == 0 {
			cc.connWindow += int64(f.Increment)
		} else if st := cc.streams[f.StreamID]; st != nil {
			st.window += int64(f.Increment)
		}
		cc.mu.Unlock()
	case *http2.MetaHeadersFrame:
		st := cc.stream(f.StreamID)
		if st == nil || st.finished {
			return
		}
		status := 0
		hdr := http.Header{}
		for _, hf := range f.Fields {
			if hf.Name == ":status" {
				status, _ = strconv.Atoi(hf.Value)
				continue
			}
			if hf.Name != strings.ToLower(hf.Name) {
				hdr.Add("X-Sim-Uppercase-Field-Name", hf.Name)
			}
			hdr.Add(hf.Name, hf.Value)
		}
		switch {
		case !st.gotHead && status >= 100 && status < 200:
			st.res.Interim = append(st.res.Interim, status)
			return
		case !st.gotHead:
			st.gotHead = true
			st.res.HeaderAt = time.Now()
			st.res.Status, st.res.Proto, st.res.Header = status, "HTTP/2.0", hdr
			if v := hdr.Get("Content-Length"); v != "" {
				st.res.CL, _ = strconv.ParseInt(v, 10, 64)
			}
		default:
			st.res.Trailer = hdr
		}
		if f.StreamEnded() {
			cc.finish(st, nil)
		}
	case *http2.DataFrame:
		st := cc.stream(f.StreamID)
		if st == nil || st.finished {
			return
		}
		st.res.Body = append(st.res.Body, f.Data()...)
		if f.StreamEnded() {
			cc.finish(st, nil)
		}
	case *http2.RSTStreamFrame:
		st := cc.stream(f.StreamID)
		if st == nil {
			return
		}
		cc.mu.Lock()
		st.endSent = true // nothing more may be sent on it
		cc.mu.Unlock()
		cc.finish(st, fmt.Errorf("stream reset by fabio: %v", f.ErrCode))
	case *http2.GoAwayFrame:
		// the read that follows fails
	}
}

// awaitTurn is called by an upstream before it answers: requests of HTTP/2 clients are answered one at a time per
// client connection, at an instant the driver chooses.
func (e *h2Env) awaitTurn(id string) bool {
	e.mu.Lock()
	cc := e.h2conn[id]
	e.mu.Unlock()
	if cc == nil {
		return true
	}
	ch := make(chan struct{})
	cc.mu.Lock()
	if cc.dead {
		cc.mu.Unlock()
		return true
	}
	for _, st := range cc.order {
		if st.rq.ID == id && st.finished {
			cc.mu.Unlock()
			return true
		}
	}
	cc.waiting[id] = ch
	cc.mu.Unlock()
	select {
	case <-ch:
		return true
	case <-e.stop:
		return false
	}
}

//go:build verif

package main

// C07 — HTTP requests and responses pass through unaltered apart from routing.
//
// H2: raw clients send generated requests (method, escaped path, query,
// header multiset, body with Content-Length or chunked, arbitrary write
// chunking, keep-alive reuse) to the real server+proxy; raw upstreams record
// what arrives and play scripted responses. The driver chooses every
// segmentation and delivery order. Oracle: what the upstream recorded / the
// client saw equals what was sent, modulo the reference route rewrite.
//
// Statement-level runs (c07PageRace): handler goroutines are adopted as tasks,
// fabio's watchNoRouteHTML runs as a task on a registry stand-in that the
// driver feeds, so that a request without a route races the replacement of the
// no-route page. Oracle: the client gets, completely and well framed, exactly
// one of the pages that were configured while the request was handled.

import (
	"bytes"
	"crypto/tls"
	"fmt"
	"log"
	"net/http"
	"runtime"
	"strings"
	"sync"
	"sync/atomic"
	"testing/synctest"
	"time"

	"github.com/fabiolb/fabio/config"
	"github.com/fabiolb/fabio/internal/zzverif/simcore"
	"github.com/fabiolb/fabio/internal/zzverif/simhook"
	"github.com/fabiolb/fabio/internal/zzverif/simnet"
	"github.com/fabiolb/fabio/noroute"
	"github.com/fabiolb/fabio/registry"
)

func init() {
	zzHarnesses = append(zzHarnesses, &simcore.Harness{Name: "c07", Props: []string{"C07"}, Run: runC07})
}

type c07Route struct {
	Prefix  string `json:"prefix"`
	Strip   string `json:"strip,omitempty"`
	Prepend string `json:"prepend,omitempty"`
	HostOpt string `json:"host,omitempty"`
	Query   string `json:"target_query,omitempty"`
	Key     string `json:"upstream"`
}

// c07PageChange is a no-route page that the registry delivers while the run is under way.
type c07PageChange struct {
	HTML    string `json:"-"`
	Page    string `json:"page"`
	Anytime bool   `json:"at_any_time,omitempty"` // false: delivered while a request without a route is being handled
}

type c07Scenario struct {
	Routes        []c07Route `json:"routes"`
	NoRouteStatus int        `json:"noroute_status"`
	NoRouteHTML   string     `json:"-"`
	NoRoutePage   string     `json:"noroute_page"`
	NoRoutePrev   string     `json:"noroute_html_before"`
	Clients       []h2Client `json:"clients"`
	Faults        bool       `json:"faults"`
	// TLS: fabio's listener terminates TLS and offers h2 and http/1.1 as cert.TLSConfig does; every client is then either
	// a raw HTTP/1.1 client over TLS or an HTTP/2 client (h2Client.H2)
	TLS bool `json:"tls_listener,omitempty"`
	// Tasked: handler goroutines are tasks (one statement of HTTPProxy.ServeHTTP / noroute per step) and fabio's own
	// watchNoRouteHTML, a task as well, installs the pages of Changes as the registry stand-in delivers them.
	Tasked  bool            `json:"statement_level,omitempty"`
	Stick   int             `json:"stick,omitempty"`
	Changes []c07PageChange `json:"noroute_page_changes,omitempty"`
}

// pages of very different lengths: none, one byte, a line, and two that exceed net/http's response buffer
var c07Pages = []string{"", "<html>no route</html>", "plain text page", "x",
	"<html><!-- large page -->" + strings.Repeat("0123456789abcdef", 190) + "</html>",
	"<html><!-- larger page -->" + strings.Repeat("fedcba9876543210", 560) + "</html>\n"}

func c07PageDesc(p string) string {
	if len(p) <= 40 {
		return fmt.Sprintf("%q", p)
	}
	return fmt.Sprintf("%q... (%d bytes)", p[:30], len(p))
}

var c07Methods = []string{"GET", "GET", "POST", "PUT", "HEAD", "DELETE", "PATCH", "OPTIONS", "PURGE"}
var c07Suffixes = []string{"", "/", "/a", "/a/b", "/a%2Fb", "/x%20y", "/100%25", "/caf%C3%A9", "/a;v=1", "/a,b", "/a+b", "/a//b", "/a/./b", "/a/../b", "/A/b", "/~u/-_.", "/%41"}
var c07Queries = []string{"", "", "a=1", "a=1&a=2&b", "x=%2F%20&y=+", "q=a%26b", "long=" + strings.Repeat("z", 300)}
var c07HdrNames = []string{"X-Custom-A", "x-lower-case", "X-MiXeD-CaSe", "Accept", "Accept-Language", "Cookie", "Authorization", "Cache-Control", "If-None-Match", "Referer", "X-Empty", "X-Custom-A", "User-Agent", "X-Request-Start"}
var c07HdrVals = []string{"v", "a, b, c", "\"quoted\"", "text/html;q=0.9, */*;q=0.1", "k=v; k2=v2", "Bearer abc.def.ghi", "", "W/\"etag\"", "http://ref.example/p?q=1", "   padded", "tab\tinside"}
var c07RespHdrNames = []string{"X-Up-A", "Set-Cookie", "Set-Cookie", "Cache-Control", "ETag", "Location", "x-lower", "Content-Language", "X-Empty", "Server", "Content-Type", "Vary", "Last-Modified"}
var c07Statuses = []int{200, 200, 200, 201, 204, 301, 302, 304, 400, 404, 418, 500, 503}

var c07Repeatable = map[string]bool{"X-Custom-A": true, "Accept": true, "Cache-Control": true, "X-MiXeD-CaSe": true, "Set-Cookie": true, "X-Up-A": true, "Vary": true}

// Upgrade requests. fabio hands a request whose Upgrade field says "websocket" or "Websocket" to a handler of its own
// (it writes the request to the upstream itself and relays the answer as bytes); any other spelling travels through
// httputil.ReverseProxy, which knows protocol upgrades as well. Either way it is a request in the sense of the property.
var c07UpgradeTokens = []string{"websocket", "Websocket", "websocket", "WebSocket"}
var c07UpgradeConn = []string{"Upgrade", "upgrade", "keep-alive, Upgrade"}
var c07UpgradeHdrs = []h2Header{{"Sec-WebSocket-Version", "13"}, {"Origin", "http://fabio.sim"}, {"Sec-WebSocket-Protocol", "chat, superchat"},
	{"Sec-WebSocket-Extensions", "permessage-deflate; client_max_window_bits"}}

// pauses of an upstream before each piece of the body with which it refuses an upgrade: none, and shorter and longer
// than the second that fabio's websocket handler gives the upstream for the first bytes of its answer
var c07Pauses = []time.Duration{0, 0, 150 * time.Millisecond, 400 * time.Millisecond, 900 * time.Millisecond, 1100 * time.Millisecond, 3 * time.Second}

// c07Upgrade returns the protocol an upgrade request asks for ("" for an ordinary request).
func c07Upgrade(rq *h2Req) string {
	for _, h := range rq.Headers {
		if h.K == "Upgrade" {
			return h.V
		}
	}
	return ""
}

func c07GenHeaders(g *simcore.Tape, names []string, max int) []h2Header {
	n := g.Intn(max + 1)
	var hs []h2Header
	used := map[string]bool{}
	for i := 0; i < n; i++ {
		k := simcore.Pick(g, names)
		// only list-valued headers may legitimately repeat
		if used[k] && !c07Repeatable[k] {
			continue
		}
		used[k] = true
		v := simcore.Pick(g, c07HdrVals)
		if k == "X-Empty" {
			v = ""
		}
		if k == "Content-Type" {
			v = simcore.Pick(g, []string{"text/plain; charset=utf-8", "application/json", "application/octet-stream"})
		}
		hs = append(hs, h2Header{k, strings.TrimLeft(v, " ")})
	}
	return hs
}

func c07GenChunks(g *simcore.Tape, total int) []int {
	var out []int
	switch g.Intn(4) {
	case 0:
		return nil // single write
	case 1:
		out = append(out, 1, 1, 1)
	case 2:
		for i := 0; i < 4; i++ {
			out = append(out, 1+g.Intn(1+total/2))
		}
	case 3:
		out = append(out, 1+g.Intn(40))
	}
	return out
}

// c07Rewrite is the reference path rewrite, on the escaped path.
func c07Rewrite(p, strip, prepend string) string {
	if strip != "" && strings.HasPrefix(p, strip) {
		p = p[len(strip):]
		if !strings.HasPrefix(p, "/") {
			p = "/" + p
		}
	}
	if prepend != "" {
		p = prepend + p
		if !strings.HasPrefix(p, "/") {
			p = "/" + p
		}
	}
	return p
}

func c07Gen(g *simcore.Tape, thorough bool) *c07Scenario {
	sc := &c07Scenario{}
	nr := g.Range(1, 3)
	for j := 0; j < nr; j++ {
		rt := c07Route{Prefix: fmt.Sprintf("/p%d", j), Key: fmt.Sprintf("up%d.sim:80", j)}
		switch g.Intn(4) {
		case 1:
			rt.Strip = rt.Prefix
		case 2:
			rt.Strip = rt.Prefix + "/a"
		case 3:
			rt.Strip = rt.Prefix + "/"
		}
		rt.Prepend = simcore.Pick(g, []string{"", "", "/pre", "/pre/fix", "rel"})
		rt.HostOpt = simcore.Pick(g, []string{"", "", "dst", "custom.example.org"})
		rt.Query = simcore.Pick(g, []string{"", "", "tq=1", "a=b&c=d"})
		sc.Routes = append(sc.Routes, rt)
	}
	sc.NoRouteStatus = simcore.Pick(g, []int{404, 404, 503, 1000, 0, 200})
	sc.NoRouteHTML = simcore.Pick(g, c07Pages)
	sc.NoRoutePage = c07PageDesc(sc.NoRouteHTML)
	sc.NoRoutePrev = simcore.Pick(g, []string{"", "<html>earlier page</html>"})
	sc.Faults = g.Chance(25)
	sc.Tasked = g.Chance(35)
	if sc.Tasked {
		sc.Stick = []int{1, 1, 3, 8}[g.Intn(4)]
		n := g.Range(1, 5)
		for i := 0; i < n; i++ {
			p := simcore.Pick(g, c07Pages)
			sc.Changes = append(sc.Changes, c07PageChange{HTML: p, Page: c07PageDesc(p), Anytime: g.Chance(25)})
		}
	}
	sc.TLS = !sc.Tasked && g.Chance(50)
	maxBody := 20000
	if thorough {
		maxBody = 200000
	}
	nc := g.Range(1, 3)
	id := 0
	for c := 0; c < nc; c++ {
		cl := h2Client{Addr: fmt.Sprintf("192.0.2.%d:%d", 10+c, 5000+100*c)}
		n := g.Range(1, 3)
		if sc.TLS {
			cl.TLS = true
			if cl.H2 = g.Chance(70); cl.H2 {
				cl.Streams = g.Range(1, 4)
				n = g.Range(1, 5)
			}
		}
		for k := 0; k < n; k++ {
			rq := h2Req{ID: fmt.Sprintf("r%d", id), Host: simcore.Pick(g, []string{"fabio.sim", "www.example.com", "www.example.com:8080", "Mixed.Example.COM"})}
			id++
			rq.Route = g.Intn(nr + 1)
			if rq.Route == nr && g.Chance(60) {
				rq.Route = g.Intn(nr)
			}
			if sc.Tasked && g.Chance(50) {
				rq.Route = nr // statement-level runs are about the no-route answer
			}
			rq.Method = simcore.Pick(g, c07Methods)
			if rq.Route < nr {
				rq.Path = sc.Routes[rq.Route].Prefix + simcore.Pick(g, c07Suffixes)
			} else {
				rq.Route = -1
				rq.Path = "/zzz" + simcore.Pick(g, c07Suffixes)
			}
			rq.Query = simcore.Pick(g, c07Queries)
			rq.Headers = append([]h2Header{{"Accept-Encoding", simcore.Pick(g, []string{"identity", "gzip", "br, gzip"})}}, c07GenHeaders(g, c07HdrNames, 6)...)
			// an HTTP/1.1 request may ask for a protocol upgrade: same method, path, query and header space, no body (the
			// bytes after the head of such a request belong to the new protocol); it is the last one on its connection
			upgrade := !cl.H2 && g.Chance(25)
			if upgrade {
				rq.Headers = append(rq.Headers, h2Header{"Connection", simcore.Pick(g, c07UpgradeConn)}, h2Header{"Upgrade", simcore.Pick(g, c07UpgradeTokens)},
					h2Header{"Sec-WebSocket-Key", "dGhlIHNhbXBsZSBub25jZQ=="})
				for _, h := range c07UpgradeHdrs {
					if g.Chance(50) {
						rq.Headers = append(rq.Headers, h)
					}
				}
				rq.CloseAfter = true
			}
			// bodies are usual on POST/PUT/PATCH and legal, if unusual, on every other method but HEAD
			if upgrade {
			} else if (rq.Method != "GET" && rq.Method != "HEAD" && rq.Method != "OPTIONS" && rq.Method != "DELETE") || (rq.Method != "HEAD" && g.Chance(15)) {
				switch g.Intn(4) {
				case 0:
				case 1:
					rq.Body = g.Bytes(g.Range(1, 200))
				default:
					rq.Body = g.Bytes(g.Range(1, maxBody))
				}
				rq.Chunked = len(rq.Body) > 0 && g.Chance(40)
			}
			rq.BodyLen = len(rq.Body)
			rq.Chunks = c07GenChunks(g, len(rq.Body)+100)
			if cl.H2 {
				rq.SplitCookie = g.Chance(50)
				rq.EndEmpty = g.Chance(15)
				if g.Chance(10) {
					rq.SplitHead = g.Range(1, 60)
				}
			}
			rs := h2Resp{Status: simcore.Pick(g, c07Statuses)}
			rs.Headers = c07GenHeaders(g, c07RespHdrNames, 5)
			if !h2NoBody(rq.Method, rs.Status) {
				switch g.Intn(4) {
				case 0:
				case 1:
					rs.Body = g.Bytes(g.Range(1, 300))
				default:
					rs.Body = g.Bytes(g.Range(1, maxBody))
				}
				// A reply of unknown length makes httputil.ReverseProxy arm an immediate flush timer whose
				// goroutine races the copy loop in real time; the race decides whether net/http sniffs a
				// Content-Type and whether an empty body is framed as Content-Length: 0 or as chunks. That is
				// outside fabio and would make runs irreproducible, so chunked replies always carry a body and a type.
				// ... and stay below the simnet window: ReverseProxy copies them under its flush mutex, a Write that
				// blocks on a full window would hold that mutex and stall the bubble (library lock, not durable).
				// ... and are not used behind a TLS listener: the early flush is a TLS record (an HTTP/2 frame) of its own, so
				// the race would decide the number of bytes on the wire.
				rs.Chunked = len(rs.Body) > 0 && len(rs.Body) <= 48000 && g.Chance(40) && !sc.TLS
				if rs.Chunked {
					hasCT := false
					for _, h := range rs.Headers {
						if h.K == "Content-Type" {
							hasCT = true
						}
					}
					if !hasCT {
						rs.Headers = append(rs.Headers, h2Header{"Content-Type", "application/octet-stream"})
					}
				}
			} else if rq.Method == "HEAD" {
				rs.Body = g.Bytes(g.Range(0, 50))
			}
			rs.BodyLen = len(rs.Body)
			rs.Chunks = c07GenChunks(g, len(rs.Body)+100)
			if g.Chance(12) {
				rs.Early = g.Range(1, 2)
			}
			if upgrade {
				if g.Chance(50) {
					// the upstream accepts: 101, then a few bytes in both directions (what a tunnel owes is C09's subject;
					// here the exchange only has to get that far)
					rs = h2Resp{Status: 101, Early: rs.Early, Headers: append([]h2Header{{"Upgrade", "websocket"}, {"Connection", "Upgrade"}, {"Sec-WebSocket-Accept", "s3pPLMBiTxaQ9kYGzzhZRbK+xOo="}},
						c07GenHeaders(g, []string{"X-Up-A", "Set-Cookie", "Sec-WebSocket-Protocol", "x-lower", "Server"}, 3)...)}
					rs.Tunnel = g.Bytes(g.Range(1, 300))
					rs.TunnelLen = len(rs.Tunnel)
					rq.Tunnel = g.Bytes(g.Range(1, 300))
					rq.TunnelLen = len(rq.Tunnel)
					rs.Chunks = c07GenChunks(g, 300)
				} else if len(rs.Body) > 0 {
					// the upstream refuses with the ordinary response generated above; its head goes out at once, the body
					// at once or in len(Chunks) pieces with a pause before each
					rs.BodyPause = simcore.Pick(g, c07Pauses)
				}
			}
			if sc.Faults && g.Chance(40) && !upgrade {
				switch g.Intn(3) {
				case 0:
					rs.ResetAt = -1
				case 1:
					rs.ResetAt = 1 + g.Intn(60+len(rs.Body))
				case 2:
					// (an HTTP/2 client resets the stream after that many body bytes; fabio answers a request without a
					// route before any of its body is sent)
					if len(rq.Body) > 0 && !(cl.H2 && rq.Route < 0) {
						rq.Abort = 20 + g.Intn(len(rq.Body)+80)
					}
				}
			}
			rq.Resp = rs
			cl.Reqs = append(cl.Reqs, rq)
		}
		sc.Clients = append(sc.Clients, cl)
	}
	return sc
}

func c07Table(sc *c07Scenario) string {
	var b strings.Builder
	for j, rt := range sc.Routes {
		target := "http://" + rt.Key + "/"
		if rt.Query != "" {
			target += "?" + rt.Query
		}
		var opts []string
		if rt.Strip != "" {
			opts = append(opts, "strip="+rt.Strip)
		}
		if rt.Prepend != "" {
			opts = append(opts, "prepend="+rt.Prepend)
		}
		if rt.HostOpt != "" {
			opts = append(opts, "host="+rt.HostOpt)
		}
		fmt.Fprintf(&b, "route add svc%d %s %s", j, rt.Prefix, target)
		if len(opts) > 0 {
			fmt.Fprintf(&b, " opts \"%s\"", strings.Join(opts, " "))
		}
		b.WriteString("\n")
	}
	return b.String()
}

var c07ReqAddOK = map[string]bool{"X-Forwarded-For": true, "X-Forwarded-Proto": true, "X-Forwarded-Port": true, "X-Forwarded-Host": true,
	"X-Forwarded-Prefix": true, "Forwarded": true, "X-Real-Ip": true, "Content-Length": true, "X-Sim-Id": true}
var c07RespAddOK = map[string]bool{"Date": true, "Content-Type": true, "Content-Length": true}

// c07Backend is the registry stand-in of statement-level runs: only the no-route page channel is used.
type c07Backend struct {
	registry.Backend
	html chan string
}

func (b *c07Backend) WatchNoRouteHTML() chan string { return b.html }

// c07PageObs keeps what the oracle needs to know about page replacements: which pages may have been the configured
// one while a given request was inside the handler.
type c07PageObs struct {
	mu        sync.Mutex
	pages     []string // pages[0] is configured when the run starts, pages[i] is the i-th delivery of the registry
	ch        chan string
	fed       int // deliveries handed to fabio's watcher so far
	watcher   *simhook.Task
	perConn   map[string]int
	entry     map[string]int // request id -> oldest page that may still be configured when the handler is entered
	exit      map[string]int // request id -> newest page that may already be configured when the handler returns
	inFlight  int
	inNoRoute int         // handlers of requests without a route that have not returned
	closed    bool        // the clients are through: nothing is delivered any more
	ending    atomic.Bool // teardown: the watcher ends at its next log line
}

// c07LogSeam is the log output of a statement-level run. watchNoRouteHTML is an endless loop; the harness ends it
// at a place where it holds nothing: inside the log line it writes after having installed a last, artificial page.
// (Ending it by the task layer's statement budget instead can strike between a Lock and its Unlock in the page
// store and leave a process-wide lock held for every later run of the worker.)
type c07LogSeam struct{ o *c07PageObs }

func (s c07LogSeam) Write(b []byte) (int, error) {
	if s.o.ending.Load() && simhook.CurrentTask() == "watchNoRouteHTML" {
		runtime.Goexit()
	}
	return len(b), nil
}

// endWatcher lets every handler return and the watcher install what it was given, then ends the watcher.
func (o *c07PageObs) endWatcher(r *simcore.Run, e *h2Env) bool {
	o.mu.Lock()
	o.closed = true
	o.mu.Unlock()
	idle := func() bool {
		o.mu.Lock()
		defer o.mu.Unlock()
		return o.inFlight == 0 && len(o.ch) == 0 && !o.watcher.Parked()
	}
	for i := 0; i < 200000; i++ {
		synctest.Wait()
		if idle() {
			break
		}
		if !e.d.Step() && !e.d.IdleAdvance(30*time.Minute) {
			break
		}
	}
	if !idle() {
		r.Trouble("handlers did not return: %v", e.d.Sim.TaskStates())
		return false
	}
	if !o.watcher.Done() {
		o.ending.Store(true)
		o.ch <- "<!-- end of run -->"
		e.d.Run(2000, o.watcher.Done)
	}
	return true
}

// window returns the oldest page that may still be the configured one and the newest that may already be (o.mu held).
// Delivery k has certainly replaced its predecessors once the watcher has taken it off the channel, it has certainly
// been installed once the watcher waits for the next delivery; in between either page may be the configured one.
func (o *c07PageObs) window() (lo, hi int) {
	recv := o.fed - len(o.ch)
	if recv == 0 {
		return 0, 0
	}
	if len(o.ch) == 0 && !o.watcher.Parked() && !o.watcher.Done() {
		return recv, recv // blocked in the channel receive: everything delivered is installed
	}
	return recv - 1, recv
}

// c07PageRace turns the run into a statement-level one: handlers are adopted as tasks, fabio's watchNoRouteHTML runs
// as a task fed by the driver.
func c07PageRace(r *simcore.Run, e *h2Env, sc *c07Scenario, cfg *config.Config) *c07PageObs {
	o := &c07PageObs{pages: []string{sc.NoRouteHTML}, ch: make(chan string, len(sc.Changes)+1),
		perConn: map[string]int{}, entry: map[string]int{}, exit: map[string]int{}}
	for _, c := range sc.Changes {
		o.pages = append(o.pages, c.HTML)
	}
	registry.Default = &c07Backend{html: o.ch}
	e.d.Stick = sc.Stick
	// the handler itself and the page store at statement granularity; proxy.responseWriter and the director stay
	// whole (net/http and ReverseProxy call them back under their own locks)
	e.d.Sim.Activate("proxy:*HTTPProxy.ServeHTTP", "noroute", "main:watchNoRouteHTML")
	o.watcher = e.d.Sim.Spawn("watchNoRouteHTML", func() { watchNoRouteHTML(cfg) })
	// should the watcher survive endWatcher (a run that ends in trouble), it spins on its closed channel at teardown until
	// this many statements are used up (handlers execute far fewer statements of ServeHTTP)
	e.d.Sim.StopBudget = 200
	e.d.AddSource(func() []simcore.Event {
		o.mu.Lock()
		defer o.mu.Unlock()
		if o.closed || o.fed >= len(sc.Changes) {
			return nil
		}
		c := sc.Changes[o.fed]
		if !c.Anytime && o.inNoRoute == 0 {
			return nil
		}
		return []simcore.Event{{Key: "noroute-page-delivery", Weight: 2, Fire: func() {
			o.mu.Lock()
			o.fed++
			n := o.fed
			o.ch <- c.HTML // never blocks: the channel holds every delivery of the run
			o.mu.Unlock()
			r.Tracef("registry delivers no-route page #%d (%d bytes)", n, len(c.HTML))
		}}}
	})
	e.wrap = func(h http.Handler) http.Handler {
		return http.HandlerFunc(func(w http.ResponseWriter, req *http.Request) {
			id := req.Header.Get("X-Sim-Id")
			e.mu.Lock()
			rq := e.script[id]
			e.mu.Unlock()
			noRoute := rq != nil && rq.Route < 0
			o.mu.Lock()
			k := o.perConn[req.RemoteAddr]
			o.perConn[req.RemoteAddr] = k + 1
			o.entry[id], _ = o.window()
			o.inFlight++
			if noRoute {
				o.inNoRoute++
			}
			o.mu.Unlock()
			defer func() {
				o.mu.Lock()
				o.inFlight--
				if noRoute {
					o.inNoRoute--
				}
				o.mu.Unlock()
			}()
			// http.ErrAbortHandler is net/http's own way of aborting a response (ReverseProxy uses it when an upstream
			// dies inside its body): it is passed on untouched; any other panic is recorded by the task layer
			abort := false
			defer func() {
				if abort {
					panic(http.ErrAbortHandler)
				}
			}()
			defer simhook.Adopt(fmt.Sprintf("h/%s/%d", req.RemoteAddr, k))()
			defer func() {
				if v := recover(); v != nil {
					if v == http.ErrAbortHandler {
						abort = true
						return
					}
					panic(v)
				}
			}()
			h.ServeHTTP(w, req)
			o.mu.Lock()
			_, o.exit[id] = o.window()
			o.mu.Unlock()
		})
	}
	return o
}

// admissible returns the pages that were the configured one at some instant while request id was inside the handler.
func (o *c07PageObs) admissible(id string) []string {
	o.mu.Lock()
	defer o.mu.Unlock()
	lo, ok := o.entry[id]
	if !ok {
		lo = 0
	}
	hi, ok := o.exit[id]
	if !ok {
		_, hi = o.window()
	}
	if hi < lo {
		hi = lo
	}
	return o.pages[lo : hi+1]
}

func runC07(r *simcore.Run) {
	sc := c07Gen(r.Gen, r.Thorough())
	r.SetSample(sc)
	cfg := &config.Config{}
	cfg.Proxy.Strategy = "rnd"
	cfg.Proxy.Matcher = "prefix"
	cfg.Proxy.NoRouteStatus = sc.NoRouteStatus
	cfg.GlobCacheSize = 100
	cfg.Proxy.DialTimeout = 30 * time.Second
	// the page has a history: an earlier page was configured, then the final one (possibly none)
	noroute.SetHTML("<html>page of an earlier run</html>") // whatever an earlier run in this process left behind must not matter
	noroute.SetHTML(sc.NoRoutePrev)
	noroute.SetHTML(sc.NoRouteHTML)
	e := h2NewEnv(r, cfg, c07Table(sc))
	defer e.finish()
	var obs *c07PageObs
	if sc.Tasked {
		obs = c07PageRace(r, e, sc, cfg)
		// teardown (before e.finish): a watcher that is still there leaves its channel receive
		defer close(obs.ch)
		prev := log.Writer()
		log.SetOutput(c07LogSeam{obs})
		defer log.SetOutput(prev)
		r.Probe("statement_level_run")
	}
	if !sc.Tasked {
		// Event-level runs: the handler goroutines are tasks as well, but no yield site is live, so a handler runs as a
		// whole once the driver has released it. As tasks they see the simulation's own sync.Pool (empty at the start
		// of the run, last in first out) instead of the process-wide one: what a pooled object carries from one
		// request into the next is then decided inside the run and replays in a fresh process.
		e.wrap = func(h http.Handler) http.Handler {
			return http.HandlerFunc(func(w http.ResponseWriter, req *http.Request) {
				id := req.Header.Get("X-Sim-Id")
				e.mu.Lock()
				rq := e.script[id]
				e.mu.Unlock()
				// Go's HTTP/2 server does not wait for the HEADERS frame of a response without any header field of the
				// handler's before it takes the first DATA frame: whether the two share a flush (a TLS record) is a race
				// inside the server. The no-route answer is the one such response here, so the listener's handler chain
				// sets a field of its own on it.
				if req.ProtoMajor == 2 && rq != nil && rq.Route < 0 {
					w.Header().Set("X-Sim-Listener", "h2")
				}
				// http.ErrAbortHandler is passed on untouched, any other panic is recorded by the task layer
				abort := false
				defer func() {
					if abort {
						panic(http.ErrAbortHandler)
					}
				}()
				defer simhook.Adopt("h/" + id)()
				defer func() {
					if v := recover(); v != nil {
						if v == http.ErrAbortHandler {
							abort = true
							return
						}
						panic(v)
					}
				}()
				h.ServeHTTP(w, req)
			})
		}
	}
	if sc.TLS {
		e.serve(&tls.Config{Certificates: []tls.Certificate{zzSelfSigned()}, NextProtos: []string{"h2", "http/1.1"}})
		r.Probe("tls_listener")
	} else {
		e.serve(nil)
	}
	for _, rt := range sc.Routes {
		e.upstream(rt.Key, simnet.ListenOpts{}, nil)
	}
	for i := range sc.Clients {
		e.client(&sc.Clients[i])
	}
	if !e.run(400000, 30*time.Minute) {
		r.Trouble("clients did not finish: %v", e.d.Sim.TaskStates())
		return
	}
	// the tails of upgraded connections: the upstream ends see the end of their streams
	e.d.Run(5000, func() bool { return e.tunnelsOpen() == 0 && !e.net.Pending() })
	// a client may have its answer before the handler has executed its last statements
	if obs != nil && !obs.endWatcher(r, e) {
		return
	}
	r.Nontrivial()
	for ci := range sc.Clients {
		cl := &sc.Clients[ci]
		if cl.H2 {
			r.Probe("h2_client")
			if cl.Streams > 1 && len(cl.Reqs) > 1 {
				r.Probe("h2_client_concurrent_streams")
			}
		}
		for qi := range cl.Reqs {
			c07Check(r, e, sc, obs, cl, &cl.Reqs[qi])
		}
	}
}

func c07Check(r *simcore.Run, e *h2Env, sc *c07Scenario, obs *c07PageObs, cl *h2Client, rq *h2Req) {
	res := e.results[rq.ID]
	seen := e.seen[rq.ID]
	faulted := rq.Abort > 0 || rq.Resp.ResetAt != 0
	what := fmt.Sprintf("%s %s?%s (id %s)", rq.Method, rq.Path, rq.Query, rq.ID)
	if res == nil {
		r.Trouble("no result for %s", rq.ID)
		return
	}
	if c07Upgrade(rq) != "" {
		what += " asking for an upgrade"
	}
	if cl.H2 {
		what += " over HTTP/2"
		// a response to HEAD and a 204/304 response have no content: an HTTP/2 client sees DATA frames if there were any
		if res.Err == nil && h2NoBody(rq.Method, res.Status) && len(res.Body) > 0 {
			r.Fail("response", "content-on-bodiless-response", "%s: status %d came with %d bytes of content", what, res.Status, len(res.Body))
		}
		if rq.Abort > 0 {
			r.Fault("h2_client_stream_reset")
		}
	}
	if rq.Route < 0 {
		// no route: configured status + page, no upstream contacted
		r.Probe("noroute")
		want := sc.NoRouteStatus
		if want < 100 || want > 999 {
			want = 404
		}
		if len(seen) > 0 {
			r.Fail("noroute", "upstream-contacted", "%s has no route but upstream %s received it", what, seen[0].Upstream)
		}
		if faulted {
			return
		}
		// the page: exactly one of the pages that were the configured one while fabio handled the request (without
		// statement-level page deliveries that is the page configured last before the run), complete and well framed
		pages := []string{sc.NoRouteHTML}
		if obs != nil {
			pages = obs.admissible(rq.ID)
			if len(pages) > 1 {
				r.Probe("noroute_request_overlaps_page_replacement")
			}
		}
		var descs []string
		for _, p := range pages {
			descs = append(descs, c07PageDesc(p))
		}
		if res.Err != nil || res.Status != want {
			r.Fail("noroute", "status", "%s has no route: status=%d err=%v, configured %d", what, res.Status, res.Err, want)
		} else if rq.Method != "HEAD" {
			ok := false
			for _, p := range pages {
				ok = ok || string(res.Body) == p
			}
			if res.BodyErr != nil {
				r.Fail("noroute", "page-transfer", "%s has no route: the transfer of the page failed after %d bytes: %v (Content-Length %d; configured while the request was handled: %s)",
					what, len(res.Body), res.BodyErr, res.CL, strings.Join(descs, " | "))
			} else if !ok {
				r.Fail("noroute", "page", "%s has no route: body %s, configured while the request was handled: %s", what, c07PageDesc(string(res.Body)), strings.Join(descs, " | "))
			}
		}
		return
	}
	rt := sc.Routes[rq.Route]
	if faulted {
		r.Fault("exchange_fault")
		// narrowly relaxed: the exchange may fail, but what arrived is a prefix of what was sent,
		// and a response that completed normally with the upstream's status is exact.
		for _, s := range seen {
			if !bytes.HasPrefix(rq.Body, s.Body) {
				r.Fail("request", "body-not-prefix", "%s: upstream received %d body bytes that are not a prefix of the %d sent", what, len(s.Body), len(rq.Body))
			}
		}
		// (also when the upstream connection was cut after its complete response head: a cut-off response
		// must not reach the client looking complete; a cut inside the head can only yield fabio's own error answer)
		headCut := false
		if n := rq.Resp.ResetAt; n != 0 {
			raw := h2RenderResponse(rq.Method, &rq.Resp)
			headCut = n < 0 || n < bytes.Index(raw, []byte("\r\n\r\n"))+4
		}
		// (a response can only be the upstream's if the upstream received the request: fabio's own gateway error for a
		// request that never got through may carry the very status the script had in store)
		if len(seen) > 0 && res.Err == nil && res.BodyErr == nil && res.Status == rq.Resp.Status && !headCut && !h2NoBody(rq.Method, res.Status) {
			if !bytes.Equal(res.Body, rq.Resp.Body) {
				r.Fail("response", "body", "%s: response completed but body differs (%d vs %d bytes)", what, len(res.Body), len(rq.Resp.Body))
			}
		}
		return
	}
	// collateral damage: another exchange's upstream connection was reset and fabio had (re)used it for this
	// request; a request with a body cannot be replayed by the transport, so a gateway error without any
	// upstream contact is legitimate here, and only here
	if len(seen) == 0 && res.Err == nil && res.Status >= 500 {
		for ci := range sc.Clients {
			for qi := range sc.Clients[ci].Reqs {
				o := &sc.Clients[ci].Reqs[qi]
				if o.ID != rq.ID && o.Route == rq.Route && o.Resp.ResetAt != 0 {
					r.Fault("collateral_of_reset_connection")
					return
				}
			}
		}
	}
	if len(seen) != 1 {
		r.Fail("request", fmt.Sprintf("seen-%d-times", len(seen)), "%s: the upstream received the request %d times (client: status=%d err=%v)", what, len(seen), res.Status, res.Err)
		return
	}
	s := seen[0]
	if s.Upstream != rt.Key {
		r.Fail("request", "wrong-upstream", "%s arrived at %s, its route points to %s", what, s.Upstream, rt.Key)
	}
	if s.Method != rq.Method {
		r.Fail("request", "method", "%s: upstream saw method %s", what, s.Method)
	}
	if !bytes.Equal(s.Body, rq.Body) {
		r.Fail("request", "body", "%s: upstream received %d body bytes, %d were sent (equal prefix %d)", what, len(s.Body), len(rq.Body), commonPrefix(s.Body, rq.Body))
	}
	// path and query
	gotPath, gotQuery, hasQ := strings.Cut(s.RequestURI, "?")
	wantPath := c07Rewrite(rq.Path, rt.Strip, rt.Prepend)
	if gotPath != wantPath {
		kind := "path"
		if strings.Contains(rq.Path, "%") && (rt.Strip != "" || rt.Prepend != "") {
			kind = "path-encoding-under-rewrite"
		} else if strings.Contains(rq.Path, "%") {
			kind = "path-encoding"
		}
		r.Fail("request", kind, "%s via route strip=%q prepend=%q: upstream saw path %q, the rewrite of the client's escaped path is %q", what, rt.Strip, rt.Prepend, gotPath, wantPath)
	}
	wantQuery := rt.Query
	if rt.Query != "" && rq.Query != "" {
		wantQuery += "&"
	}
	wantQuery += rq.Query
	if gotQuery != wantQuery || (hasQ != (wantQuery != "")) {
		r.Fail("request", "query", "%s via target query %q: upstream saw query %q, expected %q", what, rt.Query, gotQuery, wantQuery)
	}
	// Host
	wantHost := rq.Host
	switch rt.HostOpt {
	case "":
	case "dst":
		wantHost = rt.Key
	default:
		wantHost = rt.HostOpt
	}
	if s.Host != wantHost {
		r.Fail("request", "host", "%s with host option %q: upstream saw Host %q, expected %q", what, rt.HostOpt, s.Host, wantHost)
	}
	// end-to-end request headers: everything the client sent arrives unchanged; additions only from the managed set
	sent := h2EndToEnd(h2HeaderList(rq.Headers), map[string]bool{"Accept-Encoding": false})
	got := h2EndToEnd(s.Header, nil)
	for k, v := range sent {
		if k == "Cookie" && strings.Join(got[k], "; ") == strings.Join(v, "; ") {
			continue // cookie-pairs may travel as one field or as several (RFC 9113 8.2.3): the concatenation counts
		}
		if fmt.Sprint(got[k]) != fmt.Sprint(v) {
			r.Fail("request", "header", "%s: header %s sent %q, upstream received %q", what, k, v, got[k])
		}
	}
	for k, v := range got {
		if _, ok := sent[k]; !ok && !c07ReqAddOK[k] {
			if k == "User-Agent" && len(v) == 1 && v[0] == "" {
				continue
			}
			r.Fail("request", "header-added", "%s: upstream received header %s=%q that the client did not send", what, k, v)
		}
	}
	// an upgrade request is one by its Upgrade field and the Connection option that names it: both are part of the request
	// the upstream has to see (the protocol name compares case-insensitively, RFC 9110 7.8; what else Connection lists
	// stays hop-by-hop)
	if proto := c07Upgrade(rq); proto != "" {
		r.Probe("upgrade_request")
		up := s.Header.Values("Upgrade")
		named := false
		for _, v := range s.Header.Values("Connection") {
			for _, f := range strings.Split(v, ",") {
				named = named || strings.EqualFold(strings.TrimSpace(f), "upgrade")
			}
		}
		if len(up) != 1 || !strings.EqualFold(up[0], proto) || !named {
			r.Fail("request", "upgrade-fields", "%s asks for an upgrade to %q: upstream saw Upgrade %q, Connection %q", what, proto, up, s.Header.Values("Connection"))
		}
		switch {
		case rq.Resp.Status == 101:
			r.Probe("upgrade_accepted")
		case rq.Resp.BodyPause*time.Duration(max(1, len(rq.Resp.Chunks))) > time.Second:
			r.Probe("upgrade_refused_body_ends_later_than_1s")
		default:
			r.Probe("upgrade_refused")
		}
	}
	// response
	if res.Err != nil {
		r.Fail("response", "error", "%s: client got error %v", what, res.Err)
		return
	}
	if res.Status != rq.Resp.Status {
		r.Fail("response", "status", "%s: upstream answered %d, client saw %d", what, rq.Resp.Status, res.Status)
	}
	if !h2NoBody(rq.Method, rq.Resp.Status) {
		if res.BodyErr != nil || !bytes.Equal(res.Body, rq.Resp.Body) {
			r.Fail("response", "body", "%s: upstream sent %d body bytes, client read %d (err %v, equal prefix %d)", what, len(rq.Resp.Body), len(res.Body), res.BodyErr, commonPrefix(res.Body, rq.Resp.Body))
		}
	}
	usent := h2EndToEnd(h2HeaderList(rq.Resp.Headers), nil)
	cgot := h2EndToEnd(res.Header, nil)
	for k, v := range usent {
		if k == "Content-Type" && res.Status == 304 {
			continue // net/http suppresses entity headers on 304 as RFC 7232 demands
		}
		if fmt.Sprint(cgot[k]) != fmt.Sprint(v) {
			r.Fail("response", "header", "%s: upstream sent header %s=%q, client received %q", what, k, v, cgot[k])
		}
	}
	for k, v := range cgot {
		if _, ok := usent[k]; !ok && !c07RespAddOK[k] {
			r.Fail("response", "header-added", "%s: client received header %s=%q that the upstream did not send", what, k, v)
		}
	}
	if len(rq.Body) > 60000 || len(rq.Resp.Body) > 60000 {
		r.Probe("body_above_window")
	}
	if strings.Contains(rq.Path, "%") {
		r.Probe("escaped_path")
	}
}

func commonPrefix(a, b []byte) int {
	n := 0
	for n < len(a) && n < len(b) && a[n] == b[n] {
		n++
	}
	return n
}

//go:build verif

package main

// C09 (websocket path) — an upgraded connection is a transparent byte stream.
//
// H2 environment: the real http.Server + main.newHTTPProxy + proxy.HTTPProxy.ServeHTTP, which hands
// "Upgrade: websocket" requests to proxy.newWSHandler (hijack, dial, relay of the handshake, copy
// loops). Clients and upstreams are raw scripted byte-stream peers (simpeer): a client sends a
// genuine upgrade request followed by its stream (in part of the runs without waiting for the 101,
// i.e. possibly in the same segment as the request); the upstream reads the request head, answers
// "HTTP/1.1 101 ..." followed by its stream (the head may be split anywhere by the driver, stream
// bytes may share a segment with it). Every write / half-close / close / reset of a peer and every
// segment delivery is a driver event.
//
// "Middleware in front of the websocket handler must not disturb the tunnel": per run the proxy options
// that put something between the http server and the handler are drawn (proxy.gzip.contenttype with
// Accept-Encoding / Accept variants on the upgrade request -> gzip.GzipResponseWriter around the
// ResponseWriter; access logging; a TLS listener, where the hijacked connection is a *tls.Conn, with
// STS response headers set before the handler runs). The raw clients of a TLS run reach fabio through a
// transparent TLS-originating relay (c09wsRelays). The oracle is the same in every configuration.
//
// Oracle (from the property text): what the upstream receives after the forwarded request head is
// the client's stream, what the client receives after the 101 head is the upstream's stream - exactly
// once, in order, unmodified; complete in the close orders in which the statement demands it.

import (
	"bytes"
	"crypto/tls"
	"fmt"
	"io"
	"net"
	"regexp"
	"strings"
	"sync"
	"testing/synctest"
	"time"

	"github.com/fabiolb/fabio/config"
	"github.com/fabiolb/fabio/internal/zzverif/simcore"
	"github.com/fabiolb/fabio/internal/zzverif/simnet"
	"github.com/fabiolb/fabio/internal/zzverif/simpeer"
	"github.com/fabiolb/fabio/logger"
)

func init() {
	zzHarnesses = append(zzHarnesses, &simcore.Harness{Name: "c09ws", Props: []string{"C09", "C09ws"}, Run: runC09ws})
}

type c09wsTunnel struct {
	Client  string        `json:"client"`
	Path    string        `json:"path"`
	Token   string        `json:"upgrade_token"`
	Up      string        `json:"upstream"`
	Early   bool          `json:"client_sends_without_waiting_for_101"`
	AccEnc  string        `json:"accept_encoding,omitempty"`
	Accept  string        `json:"accept,omitempty"`
	More    []string      `json:"more_request_headers,omitempty"`
	ReqLen  int           `json:"request_head_len"`
	RespLen int           `json:"response_head_len"`
	CLen    int           `json:"client_bytes"`
	ULen    int           `json:"upstream_bytes"`
	UEarly  int           `json:"upstream_bytes_before_client_eof,omitempty"`
	CEarly  int           `json:"client_bytes_before_upstream_eof,omitempty"`
	Through bool          `json:"other_side_keeps_sending_without_waiting_for_eof,omitempty"`
	Order   string        `json:"close_order"`
	Fault   string        `json:"fault,omitempty"`
	CStalls int           `json:"client_reader_stalls,omitempty"`
	UStalls int           `json:"upstream_reader_stalls,omitempty"`
	CActs   []simpeer.Act `json:"client_script"`
	UActs   []simpeer.Act `json:"upstream_script"`

	req, resp, c, u []byte
	gzipped, overTLS bool // the gzip wrapper stands in front of the websocket handler / the listener speaks TLS
	cl, up          *simpeer.Peer
}

type c09wsScenario struct {
	// EOFWithData: the connections' Read returns the last bytes of a stream together with io.EOF when the
	// FIN has arrived before those bytes were read (legal for an io.Reader; crypto/tls does it)
	EOFWithData bool `json:"read_returns_last_bytes_with_eof,omitempty"`
	// proxy options that put something between the http server and the websocket handler (a wrapper
	// around the ResponseWriter, response headers set before the handler runs, the access logger)
	Gzip       string         `json:"proxy_gzip_contenttype,omitempty"`
	AccessLog  string         `json:"access_log_format,omitempty"`
	TLS        bool           `json:"tls_listener,omitempty"`
	BigRecords bool           `json:"tls_client_fills_records,omitempty"`
	STSMaxAge  int            `json:"sts_max_age,omitempty"`
	STSSub     bool           `json:"sts_subdomains,omitempty"`
	STSPreload bool           `json:"sts_preload,omitempty"`
	Tunnels    []*c09wsTunnel `json:"tunnels"`
	Table       string         `json:"table"`
}

// "halfclose" is the client half-closing first, "upstream-halfclose" its mirror (see c09Gen in proxy/tcp).
var c09wsOrders = []string{"client-first", "upstream-first", "simultaneous", "halfclose", "client-abrupt", "upstream-abrupt", "upstream-halfclose"}
var c09wsMark = []byte("\r\n\r\n")

// the listener's options: value 0 is the plain proxy
var c09wsGzip = []string{"", "^(text/.*|application/(javascript|json|font-woff|xml)|.*\\+(json|xml))(;.*)?$", ".*"}
var c09wsLogs = []string{"", "common", "combined", "$remote_host $request $response_status $response_body_size $upstream_addr"}
var c09wsAccEnc = []string{"", "gzip", "gzip, deflate, br", "deflate", "identity;q=1, *;q=0", "br;q=1.0, gzip;q=0.8, *;q=0.1"}
var c09wsAccept = []string{"", "*/*", "text/html,application/xhtml+xml;q=0.9,*/*;q=0.8", "text/event-stream"}
var c09wsMore = []string{"Sec-WebSocket-Protocol: chat, superchat", "Sec-WebSocket-Extensions: permessage-deflate; client_max_window_bits", "User-Agent: sim/1.0", "Cookie: session=0123456789abcdef", "Cache-Control: no-cache"}

// c09wsFront is where the clients of a run with a TLS listener connect: a TLS-originating relay of the
// harness (the clients are raw byte-stream peers) that passes every byte, end of stream and reset on.
const c09wsFront = "tlsfront.sim:443"

func c09wsSize(g *simcore.Tape, max int) int {
	switch g.Intn(6) {
	case 0:
		return 0
	case 1:
		return g.Range(1, 64)
	case 2, 3:
		return g.Range(65, 5000)
	}
	return g.Range(5001, max)
}

func c09wsWrites(sizes []int) []simpeer.Act {
	var a []simpeer.Act
	for _, n := range sizes {
		a = append(a, simpeer.Act{Kind: simpeer.Write, N: n})
	}
	return a
}

func c09wsGen(g *simcore.Tape, thorough bool) *c09wsScenario {
	sc := &c09wsScenario{}
	max := 72 << 10 // above the copy buffer (32 KiB) and the simnet window (64 KiB)
	if thorough {
		max = 200 << 10
	}
	sc.Gzip = simcore.Pick(g, c09wsGzip)
	sc.AccessLog = simcore.Pick(g, c09wsLogs)
	if sc.TLS = g.Chance(30); sc.TLS {
		sc.BigRecords = g.Bool()
		if g.Chance(70) {
			sc.STSMaxAge = simcore.Pick(g, []int{31536000, 1, 600})
			sc.STSSub, sc.STSPreload = g.Bool(), g.Bool()
		}
	}
	nt := g.Range(1, 3)
	var table strings.Builder
	act := func(k string, n int) simpeer.Act { return simpeer.Act{Kind: k, N: n} }
	for j := 0; j < nt; j++ {
		t := &c09wsTunnel{Client: fmt.Sprintf("192.0.2.%d:%d", 10+j, 5000+7*j), Path: fmt.Sprintf("/ws%d", j), Up: fmt.Sprintf("wsup%d.sim:80", j)}
		fmt.Fprintf(&table, "route add ws%d %s http://%s/\n", j, t.Path, t.Up)
		t.Token = simcore.Pick(g, []string{"websocket", "Websocket"})
		t.Early = g.Bool()
		t.AccEnc = simcore.Pick(g, c09wsAccEnc)
		t.Accept = simcore.Pick(g, c09wsAccept)
		for _, h := range c09wsMore {
			if g.Chance(25) {
				t.More = append(t.More, h)
			}
		}
		t.Order = simcore.Pick(g, c09wsOrders)
		t.CLen = c09wsSize(g, max)
		t.ULen = c09wsSize(g, max)
		if t.Order == "halfclose" && t.ULen > 0 {
			t.UEarly = g.Intn(t.ULen)
		}
		if t.Order == "upstream-halfclose" && t.CLen > 0 {
			t.CEarly = g.Intn(t.CLen)
		}
		if t.Order == "halfclose" || t.Order == "upstream-halfclose" {
			t.Through = g.Chance(40)
		}
		if g.Chance(12) {
			t.Fault = simcore.Pick(g, []string{"reset-client", "reset-upstream"})
		}
		if g.Chance(20) {
			t.CStalls = g.Range(1, 2)
		}
		if g.Chance(20) {
			t.UStalls = g.Range(1, 2)
		}
		more := ""
		if t.AccEnc != "" {
			more += "Accept-Encoding: " + t.AccEnc + "\r\n"
		}
		if t.Accept != "" {
			more += "Accept: " + t.Accept + "\r\n"
		}
		for _, h := range t.More {
			more += h + "\r\n"
		}
		t.req = []byte("GET " + t.Path + "/chat?room=1 HTTP/1.1\r\nHost: fabio.sim\r\nUpgrade: " + t.Token + "\r\nConnection: Upgrade\r\n" +
			"Sec-WebSocket-Key: dGhlIHNhbXBsZSBub25jZQ==\r\nSec-WebSocket-Version: 13\r\nOrigin: http://fabio.sim\r\n" + more + "\r\n")
		t.resp = []byte("HTTP/1.1 101 Switching Protocols\r\nUpgrade: websocket\r\nConnection: Upgrade\r\nSec-WebSocket-Accept: s3pPLMBiTxaQ9kYGzzhZRbK+xOo=\r\n\r\n")
		t.ReqLen, t.RespLen = len(t.req), len(t.resp)
		t.c = simpeer.Stream(g, t.CLen, 0xC0000000|uint32(j)<<20)
		t.u = simpeer.Stream(g, t.ULen, 0x50000000|uint32(j)<<20)

		// half-close orders: the side that does not half-close sends a first part of its stream, then
		// (unless Through) waits for the end of the incoming stream, then sends the rest (>= 1 byte)
		second := func(n int) []simpeer.Act {
			var a []simpeer.Act
			if !t.Through {
				a = append(a, act(simpeer.AwaitEOF, 0))
			}
			return append(a, c09wsWrites(simpeer.Chunks(g, n, 12))...)
		}
		cFirst := t.CLen
		if t.Order == "upstream-halfclose" {
			cFirst = t.CEarly
		}
		// client: request (+ stream), either in one PRNG write pattern or waiting for the 101 in between
		ca := []simpeer.Act{act(simpeer.Dial, 0)}
		var cw []simpeer.Act
		if t.Early {
			cw = c09wsWrites(simpeer.Chunks(g, len(t.req)+cFirst, 24))
		} else {
			cw = c09wsWrites(simpeer.Chunks(g, len(t.req), 4))
			cw = append(cw, act(simpeer.AwaitHead, 0))
			cw = append(cw, c09wsWrites(simpeer.Chunks(g, cFirst, 24))...)
		}
		if t.Order == "upstream-halfclose" {
			cw = append(cw, second(t.CLen-t.CEarly)...)
		}
		ca = append(ca, cw...)
		// upstream: read the request head, then the 101 head + stream in one PRNG write pattern
		ua := []simpeer.Act{act(simpeer.AwaitHead, 0)}
		var uw []simpeer.Act
		if t.Order == "halfclose" {
			uw = c09wsWrites(simpeer.Chunks(g, len(t.resp)+t.UEarly, 12))
			uw = append(uw, second(t.ULen-t.UEarly)...)
		} else {
			uw = c09wsWrites(simpeer.Chunks(g, len(t.resp)+t.ULen, 24))
		}
		ua = append(ua, uw...)
		switch t.Order {
		case "client-first":
			ca = append(ca, act(simpeer.Await, t.ULen), act(simpeer.Close, 0))
			ua = append(ua, act(simpeer.AwaitEOF, 0), act(simpeer.Close, 0))
		case "upstream-first":
			ca = append(ca, act(simpeer.AwaitEOF, 0), act(simpeer.Close, 0))
			ua = append(ua, act(simpeer.Await, t.CLen), act(simpeer.Close, 0))
		case "simultaneous":
			ca = append(ca, act(simpeer.Await, t.ULen), act(simpeer.Close, 0))
			ua = append(ua, act(simpeer.Await, t.CLen), act(simpeer.Close, 0))
		case "halfclose":
			// both sides close only after they have seen the end of the other side's stream
			ca = append(ca, act(simpeer.CloseWrite, 0), act(simpeer.AwaitEOF, 0), act(simpeer.Close, 0))
			ua = append(ua, act(simpeer.AwaitEOF, 0), act(simpeer.Close, 0))
		case "upstream-halfclose":
			ua = append(ua, act(simpeer.CloseWrite, 0), act(simpeer.AwaitEOF, 0), act(simpeer.Close, 0))
			ca = append(ca, act(simpeer.AwaitEOF, 0), act(simpeer.Close, 0))
		case "client-abrupt":
			ca = append(ca, act(simpeer.Close, 0))
			ua = append(ua, act(simpeer.AwaitEOF, 0), act(simpeer.Close, 0))
		case "upstream-abrupt":
			ca = append(ca, act(simpeer.AwaitEOF, 0), act(simpeer.Close, 0))
			ua = append(ua, act(simpeer.Close, 0))
		}
		insert := func(a []simpeer.Act, first, span int) []simpeer.Act {
			at := first + g.Intn(span+1)
			out := append([]simpeer.Act{}, a[:at]...)
			out = append(out, act(simpeer.Reset, 0))
			return append(out, a[at:]...)
		}
		switch t.Fault {
		case "reset-client":
			ca = insert(ca, 1, len(cw))
		case "reset-upstream":
			ua = insert(ua, 1, len(uw))
		}
		t.CActs, t.UActs = ca, ua
		t.gzipped = sc.Gzip != "" && strings.Contains(t.AccEnc, "gzip") && !strings.Contains(t.Accept, "text/event-stream")
		t.overTLS = sc.TLS
		sc.Tunnels = append(sc.Tunnels, t)
	}
	sc.Table = table.String()
	sc.EOFWithData = g.Chance(35)
	return sc
}

// c09wsNeed: see c09Need in proxy/tcp - the same readings. An abrupt close of one side demands
// completeness of its own bytes only when nothing travels towards it; on this path something always
// travels towards both sides (the request head, the 101 head), so abrupt orders only demand prefixes.
func c09wsNeed(t *c09wsTunnel) (upFull, clFull bool) {
	switch t.Order {
	case "client-abrupt", "upstream-abrupt":
		return false, false
	}
	return true, true
}

func runC09ws(r *simcore.Run) {
	sc := c09wsGen(r.Gen, r.Thorough())
	r.SetSample(sc)
	cfg := &config.Config{}
	cfg.Proxy.Strategy = "rnd"
	cfg.Proxy.Matcher = "prefix"
	cfg.Proxy.NoRouteStatus = 404
	cfg.GlobCacheSize = 100
	cfg.Proxy.DialTimeout = 30 * time.Second
	if sc.Gzip != "" {
		cfg.Proxy.GZIPContentTypes = regexp.MustCompile(sc.Gzip)
	}
	cfg.Proxy.STSHeader = config.STSHeader{MaxAge: sc.STSMaxAge, Subdomains: sc.STSSub, Preload: sc.STSPreload}
	e := h2NewEnv(r, cfg, sc.Table)
	if sc.AccessLog != "" {
		// what main.newHTTPProxy does for log.access.target=stdout, with a writer of the harness
		format := sc.AccessLog
		switch format {
		case "common":
			format = logger.CommonFormat
		case "combined":
			format = logger.CombinedFormat
		}
		lg, err := logger.New(&c09wsLogWriter{}, format)
		if err != nil {
			r.Trouble("access log format %q: %v", sc.AccessLog, err)
			return
		}
		e.proxy.Logger = lg
	}
	e.net.EOFWithData = sc.EOFWithData
	peers := simpeer.NewGroup(r, e.net)
	defer func() {
		peers.Stop()
		e.finish()
	}()
	e.d.AddSource(peers.Events)
	dialKey := h2FabioAddr
	var front *c09wsRelays
	if sc.TLS {
		e.serve(&tls.Config{Certificates: []tls.Certificate{zzSelfSigned()}})
		var err error
		if front, err = c09wsStartFront(e, sc.BigRecords); err != nil {
			r.Trouble("listen %s: %v", c09wsFront, err)
			return
		}
		dialKey = c09wsFront
	} else {
		e.serve(nil)
	}
	for j, t := range sc.Tunnels {
		up, err := peers.Upstream(fmt.Sprintf("u%d", j), t.Up, append(append([]byte(nil), t.resp...), t.u...), t.UActs)
		if err != nil {
			r.Trouble("listen %s: %v", t.Up, err)
			return
		}
		up.HeadMark = c09wsMark
		t.up = up
		a, _ := net.ResolveTCPAddr("tcp", t.Client)
		t.cl = peers.Client(fmt.Sprintf("c%d", j), a, dialKey, append(append([]byte(nil), t.req...), t.c...), t.CActs)
		t.cl.HeadMark = c09wsMark
		t.cl.SetStalls(t.CStalls)
		t.up.SetStalls(t.UStalls)
	}
	finished, stuck := false, false
	for i := 0; i < 600000; i++ {
		synctest.Wait()
		if peers.Done() {
			finished = true
			break
		}
		if !e.d.Step() {
			synctest.Wait()
			finished, stuck = peers.Done(), true
			break
		}
	}
	if !finished && !stuck {
		r.Trouble("step budget exhausted")
		return
	}
	for _, t := range sc.Tunnels {
		c09wsCheck(r, t)
		// reads of fabio's two connection ends that returned the tail of a stream together with io.EOF
		if c := t.cl.Conn(); c != nil && front != nil {
			c = front.toFabio(t.Client)
			if c != nil && c.Peer() != nil {
				r.ProbeN("ws_fabio_read_data_with_eof_c2u", c.Peer().EOFWithDataReads())
			}
		} else if c != nil && c.Peer() != nil {
			r.ProbeN("ws_fabio_read_data_with_eof_c2u", c.Peer().EOFWithDataReads())
		}
		if c := t.up.Conn(); c != nil && c.Peer() != nil {
			r.ProbeN("ws_fabio_read_data_with_eof_u2c", c.Peer().EOFWithDataReads())
		}
	}
}

// c09wsLogWriter takes the access log lines (their content belongs to C20).
type c09wsLogWriter struct {
	mu sync.Mutex
	n  int
}

func (w *c09wsLogWriter) Write(b []byte) (int, error) {
	w.mu.Lock()
	w.n += len(b)
	w.mu.Unlock()
	return len(b), nil
}

// c09wsRelays is the TLS front of a run whose listener speaks TLS: for every client connection it
// accepts (plain, from a raw peer) it opens a connection to fabio from the same source address, does
// the TLS handshake as a crypto/tls client and then copies both directions: what one read from the
// client returns goes out in one Write of the TLS connection (so the driver's segmentation of the
// client's stream decides which bytes share a TLS record with the end of the upgrade request), the
// end of the client's stream becomes close_notify (tls.Conn.CloseWrite), fabio's close_notify becomes
// the end of the stream towards the client, a reset on one side a reset on the other. A reader that
// stops reading on one side blocks the writer on the other.
type c09wsRelays struct {
	mu  sync.Mutex
	raw map[string]*simnet.Conn // client address -> the relay's connection to fabio
}

func (f *c09wsRelays) toFabio(client string) *simnet.Conn {
	f.mu.Lock()
	defer f.mu.Unlock()
	return f.raw[client]
}

func c09wsStartFront(e *h2Env, bigRecords bool) (*c09wsRelays, error) {
	ln, err := e.net.Listen(c09wsFront, simnet.ListenOpts{})
	if err != nil {
		return nil, err
	}
	f := &c09wsRelays{raw: map[string]*simnet.Conn{}}
	go func() {
		for {
			c, err := ln.Accept()
			if err != nil {
				return
			}
			go f.relay(e, c.(*simnet.Conn), bigRecords)
		}
	}()
	return f, nil
}

func (f *c09wsRelays) relay(e *h2Env, pc *simnet.Conn, bigRecords bool) {
	from, _ := pc.RemoteAddr().(*net.TCPAddr)
	rc, err := e.net.Dial(e.r.Ctx(), from, h2FabioAddr, 0)
	if err != nil {
		pc.Close()
		return
	}
	raw := rc.(*simnet.Conn)
	f.mu.Lock()
	f.raw[from.String()] = raw
	f.mu.Unlock()
	tc := tls.Client(raw, &tls.Config{InsecureSkipVerify: true, ServerName: "fabio.sim", NextProtos: []string{"http/1.1"}, DynamicRecordSizingDisabled: bigRecords})
	if err := tc.Handshake(); err != nil {
		raw.Close()
		pc.Close()
		return
	}
	done := make(chan struct{}, 2)
	go func() { // client -> fabio
		defer func() { done <- struct{}{} }()
		buf := make([]byte, 16<<10)
		for {
			n, err := pc.Read(buf)
			if n > 0 {
				if _, werr := tc.Write(buf[:n]); werr != nil {
					pc.Close() // fabio's end is gone: the client's writes fail from now on
					return
				}
			}
			if err == io.EOF {
				tc.CloseWrite()
				return
			}
			if err != nil {
				raw.Reset()
				return
			}
		}
	}()
	go func() { // fabio -> client
		defer func() { done <- struct{}{} }()
		buf := make([]byte, 16<<10)
		for {
			n, err := tc.Read(buf)
			if n > 0 {
				if _, werr := pc.Write(buf[:n]); werr != nil {
					raw.Close()
					return
				}
			}
			if err != nil {
				// close_notify, or the connection ended without one: either way the stream towards the
				// client is over and what the relay has passed on stays on its way
				pc.CloseWrite()
				return
			}
		}
	}()
	<-done
	<-done
	tc.Close()
	pc.Close()
}

// c09wsSplit cuts a received stream at the end of its HTTP head.
func c09wsSplit(b []byte) (head, rest []byte, ok bool) {
	i := bytes.Index(b, c09wsMark)
	if i < 0 {
		return b, nil, false
	}
	return b[:i+len(c09wsMark)], b[i+len(c09wsMark):], true
}

func c09wsCheck(r *simcore.Run, t *c09wsTunnel) {
	const path = " path=websocket"
	what := fmt.Sprintf("websocket tunnel %s -> %s (client waits for 101: %v, close order %s)", t.Client, t.Up, !t.Early, t.Order)
	gotUp, gotCl := t.up.Received(), t.cl.Received()
	upHead, upRest, upOK := c09wsSplit(gotUp)
	clHead, clRest, clOK := c09wsSplit(gotCl)
	complete := t.cl.Complete() && t.up.Complete()
	r.Tracef("tunnel %s order=%s fault=%q up=%d+%d/%d cl=%d+%d/%d complete=%v", t.Client, t.Order, t.Fault, len(upHead), len(upRest), len(t.c), len(clHead), len(clRest), len(t.u), complete)
	if n := t.up.Extra(); n > 0 {
		r.Fail("dial", "more-than-one-upstream-connection"+path, "%s: the upstream received %d connections for one upgrade request", what, n+1)
	}
	upFull, clFull := c09wsNeed(t)
	if t.Fault != "" {
		r.Fault(t.Fault)
		upFull, clFull = false, false
	}
	if !upOK {
		if upFull {
			r.Fail("ws-handshake", "request-not-forwarded"+path, "%s: the upstream did not receive a complete request head (%d bytes: %q)", what, len(gotUp), gotUp[:min(len(gotUp), 80)])
		}
		return
	}
	if !bytes.HasPrefix(upHead, []byte("GET "+t.Path+"/chat?room=1 HTTP/1.1\r\n")) {
		r.Fail("ws-handshake", "request-line"+path, "%s: the upstream received the request line %q", what, upHead[:min(len(upHead), 80)])
		return
	}
	// the upstream accepted the upgrade if its whole 101 head went out
	_, uwrote := t.up.Progress()
	accepted := uwrote >= len(t.resp)
	if !clOK || !bytes.HasPrefix(clHead, []byte("HTTP/1.1 101")) {
		if accepted && clFull {
			r.Fail("ws-handshake", "accepted-upgrade-not-relayed"+path, "%s: the upstream answered with a complete 101 head (%d bytes, followed by %d stream bytes) but the client received %q", what, len(t.resp), len(t.u), gotCl[:min(len(gotCl), 80)])
		}
		return
	}
	wantUp := t.c
	if t.Order == "upstream-halfclose" && !t.Through && len(wantUp) > t.CEarly {
		if ended, _ := t.cl.ReadEnd(); !ended {
			// the client sends the rest once it has seen the end of the upstream's stream and never saw
			// it: that a close is passed on is demanded only of the client's half-close, so only what the
			// client did send is demanded here
			wantUp = wantUp[:t.CEarly]
			r.Probe("upstream_eof_not_propagated")
		}
	}
	kUp, atUp := simpeer.Diff(wantUp, upRest)
	kCl, atCl := simpeer.Diff(t.u, clRest)
	if t.Fault != "" {
		if kUp != "" && kUp != "truncated" {
			r.Fail("stream", "c2u/"+kUp+"-under-reset"+path, "%s with %s: the upstream's bytes differ from the sent stream at offset %d (%s)", what, t.Fault, atUp, kUp)
		}
		if kCl != "" && kCl != "truncated" {
			r.Fail("stream", "u2c/"+kCl+"-under-reset"+path, "%s with %s: the client's bytes differ from the sent stream at offset %d (%s)", what, t.Fault, atCl, kCl)
		}
		return
	}
	if t.Order == "halfclose" && kUp == "" && kCl == "truncated" {
		if ended, _ := t.up.ReadEnd(); !ended {
			r.Fail("halfclose", "eof-not-propagated"+path, "%s: the client half-closed after its %d bytes, all of them arrived, but the upstream never saw the end of the stream (so it cannot reply)", what, len(t.c))
		} else {
			r.Fail("halfclose", "reply-lost"+path, "%s: the client half-closed after sending and kept reading; the upstream saw the end and sent its reply, but the client received only %d of the upstream's %d bytes", what, len(clRest), len(t.u))
		}
		return
	}
	if t.Order == "upstream-halfclose" && kCl == "" && kUp == "truncated" {
		_, cwrote := t.cl.Progress()
		r.Fail("halfclose", "client-stream-cut-after-upstream-finished"+path, "%s: the upstream sent its %d bytes, half-closed and kept reading; all of its bytes reached the client, which had %d more bytes to send (it could write %d of its %d+%d, write error: %v), but the upstream received only %d of the client's %d bytes", what, len(t.u), len(t.c)-t.CEarly, cwrote, len(t.req), len(t.c), t.cl.WriteErr(), len(upRest), len(t.c))
		return
	}
	fail := func(dir, kind string, at, got, want int) {
		r.Fail("stream", dir+"/"+kind+path, "%s: %s stream differs from what was sent at offset %d: %s (received %d bytes, sent %d)", what, dir, at, kind, got, want)
	}
	if kUp != "" && (kUp != "truncated" || upFull) {
		fail("c2u", kUp, atUp, len(upRest), len(t.c))
	}
	if kCl != "" && (kCl != "truncated" || clFull) {
		fail("u2c", kCl, atCl, len(clRest), len(t.u))
	}
	if kUp == "" && kCl == "" {
		r.Nontrivial()
		if !complete {
			r.Probe("complete_but_close_not_propagated")
		}
		r.Probe("order_" + t.Order)
		if t.Through {
			r.Probe("order_" + t.Order + "_without_waiting")
		}
		if t.Early && t.CLen > 0 {
			r.Probe("client_stream_sent_before_101")
			if t.gzipped {
				r.Probe("ws_client_stream_sent_before_101_behind_gzip")
			}
			if t.overTLS {
				r.Probe("ws_client_stream_sent_before_101_over_tls")
			}
		}
		if t.gzipped {
			r.Probe("ws_behind_gzip")
		}
		if t.overTLS {
			r.Probe("ws_over_tls_order_" + t.Order)
		}
		if len(t.c) > 64<<10 || len(t.u) > 64<<10 {
			r.Probe("stream_above_window")
		}
	}
}

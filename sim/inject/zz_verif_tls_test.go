//go:build verif

package main

import (
	"crypto/ed25519"
	"crypto/rand"
	"crypto/tls"
	"crypto/x509"
	"crypto/x509/pkix"
	"math/big"
	"sync"
	"time"
)

var zzCertOnce sync.Once
var zzCert tls.Certificate

// zzSelfSigned returns a process-wide self-signed certificate for simulated TLS peers.
func zzSelfSigned() tls.Certificate {
	zzCertOnce.Do(func() {
		// Ed25519: signatures and keys have fixed lengths, so TLS record sizes do not vary between executions
		pub, key, err := ed25519.GenerateKey(rand.Reader)
		if err != nil {
			panic(err)
		}
		tmpl := &x509.Certificate{SerialNumber: big.NewInt(1), Subject: pkix.Name{CommonName: "sim"},
			NotBefore: time.Date(1999, 1, 1, 0, 0, 0, 0, time.UTC), NotAfter: time.Date(2100, 1, 1, 0, 0, 0, 0, time.UTC),
			DNSNames: []string{"fabio.sim", "*.sim", "svc.internal"}, KeyUsage: x509.KeyUsageDigitalSignature, ExtKeyUsage: []x509.ExtKeyUsage{x509.ExtKeyUsageServerAuth}}
		der, err := x509.CreateCertificate(rand.Reader, tmpl, tmpl, pub, key)
		if err != nil {
			panic(err)
		}
		zzCert = tls.Certificate{Certificate: [][]byte{der}, PrivateKey: key}
	})
	return zzCert
}

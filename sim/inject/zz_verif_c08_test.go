//go:build verif

package main

// C08 — forwarding headers tell the upstream the truth about the client (rider on H2).
//
// The simulator contributes the facts the headers must describe: the peer
// address of the simulated connection (IPv4, IPv4-mapped, IPv6, zone-scoped),
// whether it really is a crypto/tls connection, the Host the client wrote, and
// keep-alive reuse / protocol upgrades. Raw clients send forged, repeated and
// odd-cased copies of every header fabio manages (and nominate them in
// Connection); the recording upstream is where the result is observed.
//
// The oracle is written from the property statement. Readings (always the
// narrower one) are listed in the report and in props.d/C08.json.

import (
	"bufio"
	"bytes"
	"crypto/tls"
	"fmt"
	"github.com/fabiolb/fabio/internal/zzverif/simhook"
	"io"
	"net"
	"net/http"
	"net/netip"
	"strconv"
	"strings"
	"sync"
	"time"

	"github.com/fabiolb/fabio/config"
	"github.com/fabiolb/fabio/internal/zzverif/simcore"
	"github.com/fabiolb/fabio/internal/zzverif/simnet"
	"github.com/fabiolb/fabio/metrics"
	"github.com/fabiolb/fabio/proxy"
)

func init() {
	zzHarnesses = append(zzHarnesses, &simcore.Harness{Name: "c08", Props: []string{"C08"}, Run: runC08})
}

type c08Cfg struct {
	TLS bool `json:"tls_listener"`
	// Both: the process serves a plain listener (h2FabioAddr) and a TLS listener (c08TLSAddr) at the same time, as a
	// fabio on :80 and :443 does; every request names the listener it goes to. TLS is unused then.
	Both bool `json:"plain_and_tls_listener,omitempty"`
	// OwnProxies (with Both): every listener has its own HTTPProxy value, as main.startServers builds them; otherwise
	// one HTTPProxy value stands behind both listeners.
	OwnProxies     bool   `json:"one_proxy_value_per_listener,omitempty"`
	ClientIPHeader string `json:"clientip_header,omitempty"`
	TLSHeader      string `json:"tls_header,omitempty"`
	TLSHeaderValue string `json:"tls_header_value,omitempty"`
	LocalIP        string `json:"local_ip,omitempty"`
	STSMaxAge      int    `json:"sts_maxage,omitempty"`
	STSSubdomains  bool   `json:"sts_subdomains,omitempty"`
	STSPreload     bool   `json:"sts_preload,omitempty"`
	RequestID      string `json:"requestid_header,omitempty"`
}

type c08Route struct {
	Prefix  string `json:"prefix"`
	HostOpt string `json:"host,omitempty"`
	Key     string `json:"upstream"`
}

type c08Scenario struct {
	Cfg     c08Cfg     `json:"config"`
	Routes  []c08Route `json:"routes"`
	Clients []h2Client `json:"clients"`
	// Tasked: the proxy handler goroutines are adopted as tasks, so requests of different
	// connections interleave at every statement of fabio's header code.
	Tasked bool `json:"handlers_interleaved_statement_by_statement"`
	// ClientTLS[i][k]: what client i offers in the handshake of its k-th connection, if that one goes to a TLS listener
	ClientTLS [][]c08TLSProfile `json:"tls_client_offers,omitempty"`
	// HTTP10: ids of the requests written as HTTP/1.0 requests (all others are HTTP/1.1)
	HTTP10 []string `json:"http10_requests,omitempty"`
}

// c08TLSProfile is what a client offers in one TLS handshake; the zero value is crypto/tls's default offer.
type c08TLSProfile struct {
	MaxVersion uint16 `json:"max_version,omitempty"`
	Suite      uint16 `json:"only_cipher_suite,omitempty"` // TLS 1.2 only: the one suite offered
}

// the offers a client draws from: value 0 is the default offer (TLS 1.3 today), then TLS 1.2 with the default suite
// list and with exactly one of the suites an Ed25519 server certificate can serve
var c08TLSProfiles = []c08TLSProfile{
	{},
	{MaxVersion: tls.VersionTLS12},
	{MaxVersion: tls.VersionTLS12, Suite: tls.TLS_ECDHE_ECDSA_WITH_AES_256_GCM_SHA384},
	{MaxVersion: tls.VersionTLS12, Suite: tls.TLS_ECDHE_ECDSA_WITH_CHACHA20_POLY1305_SHA256},
	{MaxVersion: tls.VersionTLS12, Suite: tls.TLS_ECDHE_ECDSA_WITH_AES_128_CBC_SHA},
	{MaxVersion: tls.VersionTLS12, Suite: tls.TLS_ECDHE_ECDSA_WITH_AES_256_CBC_SHA},
	{MaxVersion: tls.VersionTLS12, Suite: tls.TLS_ECDHE_ECDSA_WITH_AES_128_GCM_SHA256},
	{}, {}, // the default offer three times in ten
}

// c08ConnFacts is what the client side knows about the connection a request travelled on.
type c08ConnFacts struct {
	TLS     bool
	Version uint16 // as negotiated, from the client's tls.ConnectionState
	Suite   uint16
	Proto   string // protocol version written in the request line
}

type c08Facts struct {
	mu  sync.Mutex
	req map[string]c08ConnFacts
}

const c08ListenPort = "9999"        // port of h2FabioAddr
const c08TLSAddr = "fabio.sim:9443" // the TLS listener of runs with both listeners
const c08TLSListenPort = "9443"

// c08ReqTLS tells whether the connection rq travelled on is a TLS connection.
func c08ReqTLS(cfg *c08Cfg, rq *h2Req) bool {
	if cfg.Both {
		return rq.To == c08TLSAddr
	}
	return cfg.TLS
}

var c08PeerAddrs = []string{"192.0.2.10:5000", "[2001:db8::7]:5000", "[fe80::1%eth0]:5000", "[::ffff:192.0.2.9]:5000", "10.1.2.3:40000", "[2001:db8:0:1::a%7]:5000"}
var c08Hosts = []string{"fabio.sim", "www.example.com", "www.example.com:8080", "Mixed.Example.COM", "fabio.sim:9999", "[2001:db8::99]:8443", "[2001:db8::99]", "192.0.2.1:81", "www.example.com:443"}
var c08ForgedIPs = []string{"6.6.6.6", "127.0.0.1", "::1", "unknown", "192.0.2.10", "6.6.6.6, 7.7.7.7", ""}
var c08ForgedXFF = []string{"6.6.6.6", "6.6.6.6, 7.7.7.7", "6.6.6.6,", "unknown", "2001:db8::6", ""}
var c08ForgedProto = []string{"https", "http", "HTTPS", "wss", ""}
var c08ForgedPort = []string{"443", "8443", "1", ""}
var c08ForgedHost = []string{"evil.example", "internal.svc:81", ""}
var c08ForgedFwd = []string{"for=6.6.6.6", "for=6.6.6.6; proto=https", "proto=http;for=6.6.6.6", "for=6.6.6.6;proto=https;by=9.9.9.9",
	"for=\"[2001:db8::6]\"; Proto=https", "for=6.6.6.6; httpproto=http/1.1; proto=https", ""}
var c08UpgradeTokens = []string{"websocket", "Websocket", "WebSocket"}

// c08Chance is true with probability pct; unlike Tape.Chance the value 0 (what shrinking
// drives every draw to) means "no", so that shrunk scenarios lose their optional parts.
func c08Chance(g *simcore.Tape, pct int) bool { return g.Intn(100) >= 100-pct }

// c08Case renders a header name in one of the spellings a client may use.
func c08Case(g *simcore.Tape, name string) string {
	switch g.Intn(4) {
	case 1:
		return strings.ToLower(name)
	case 2:
		return strings.ToUpper(name)
	case 3:
		b := []byte(strings.ToLower(name))
		for i := 0; i < len(b); i += 2 {
			if b[i] >= 'a' && b[i] <= 'z' {
				b[i] -= 32
			}
		}
		return string(b)
	}
	return name
}

// c08Forge adds 1-2 forged copies of name with probability pct.
func c08Forge(g *simcore.Tape, hs []h2Header, pct int, name string, vals []string) []h2Header {
	if name == "" || !c08Chance(g, pct) {
		return hs
	}
	n := 1 + g.Intn(2)
	for i := 0; i < n; i++ {
		hs = append(hs, h2Header{c08Case(g, name), simcore.Pick(g, vals)})
	}
	return hs
}

func c08Gen(g *simcore.Tape, thorough bool) *c08Scenario {
	sc := &c08Scenario{}
	maxN := 3
	if thorough {
		maxN = 5
	}
	c := &sc.Cfg
	switch g.Intn(4) {
	case 0:
	case 1:
		c.TLS = true
	default:
		c.Both = true
		c.OwnProxies = g.Bool()
	}
	c.ClientIPHeader = simcore.Pick(g, []string{"", "X-Client-Ip", "x-client-ip", "Client-IP", "X-Forwarded-For", "X-Real-Ip", "x-real-ip"})
	c.TLSHeader = simcore.Pick(g, []string{"", "X-Tls", "Secure", "x-forwarded-ssl"})
	c.TLSHeaderValue = simcore.Pick(g, []string{"true", "on", "1", ""})
	c.LocalIP = simcore.Pick(g, []string{"", "10.0.0.1", "2001:db8::1"})
	c.STSMaxAge = simcore.Pick(g, []int{0, 31536000, 1})
	c.STSSubdomains = g.Bool()
	c.STSPreload = g.Bool()
	c.RequestID = simcore.Pick(g, []string{"", "X-Request-Id"})

	nr := g.Range(1, 3)
	for j := 0; j < nr; j++ {
		sc.Routes = append(sc.Routes, c08Route{Prefix: fmt.Sprintf("/p%d", j), Key: fmt.Sprintf("up%d.sim:80", j),
			HostOpt: simcore.Pick(g, []string{"", "dst", "custom.example.org", "custom.example.org:8081"})})
	}
	managed := []string{"X-Real-Ip", "X-Forwarded-For", "X-Forwarded-Proto", "X-Forwarded-Port", "X-Forwarded-Host", "Forwarded"}
	if c.ClientIPHeader != "" {
		managed = append(managed, c.ClientIPHeader)
	}
	if c.TLSHeader != "" {
		managed = append(managed, c.TLSHeader)
	}

	nc := g.Range(1, maxN)
	id := 0
	for ci := 0; ci < nc; ci++ {
		cl := h2Client{Addr: simcore.Pick(g, c08PeerAddrs), TLS: c.TLS && !c.Both}
		// distinct source ports per client so that connection ids stay unique
		if host, port, err := net.SplitHostPort(cl.Addr); err == nil {
			p, _ := strconv.Atoi(port)
			cl.Addr = net.JoinHostPort(host, strconv.Itoa(p+100*ci))
		}
		n := g.Range(1, maxN)
		for k := 0; k < n; k++ {
			rq := h2Req{ID: fmt.Sprintf("r%d", id), Method: "GET", Host: simcore.Pick(g, c08Hosts)}
			id++
			if c.Both && g.Bool() {
				// the client keeps one connection per listener: its requests alternate between the two as drawn
				rq.To = c08TLSAddr
			}
			// a later request to the same listener travels on a fresh connection instead of the kept-alive one
			rq.CloseAfter = c08Chance(g, 25)
			rq.Route = g.Intn(nr)
			rq.Path = sc.Routes[rq.Route].Prefix + simcore.Pick(g, []string{"", "/a", "/a/b"})
			if c08Chance(g, 8) {
				rq.Route = -1
				rq.Path = "/zzz"
			}
			hs := []h2Header{{"Accept-Encoding", "identity"}}
			upgrade := c08Chance(g, 25)
			if c08Chance(g, 20) {
				rq.Method = "POST"
				rq.Body = g.Bytes(g.Range(1, 300))
				rq.BodyLen = len(rq.Body)
				upgrade = false
			}
			hs = c08Forge(g, hs, 35, c.ClientIPHeader, c08ForgedIPs)
			hs = c08Forge(g, hs, 35, "X-Real-Ip", c08ForgedIPs)
			hs = c08Forge(g, hs, 35, "X-Forwarded-For", c08ForgedXFF)
			hs = c08Forge(g, hs, 40, c.TLSHeader, []string{c.TLSHeaderValue, "true", "off", ""})
			hs = c08Forge(g, hs, 25, "X-Forwarded-Proto", c08ForgedProto)
			hs = c08Forge(g, hs, 25, "X-Forwarded-Port", c08ForgedPort)
			hs = c08Forge(g, hs, 25, "X-Forwarded-Host", c08ForgedHost)
			hs = c08Forge(g, hs, 25, "Forwarded", c08ForgedFwd)
			hs = c08Forge(g, hs, 10, "Strict-Transport-Security", []string{"max-age=5"})
			hs = c08Forge(g, hs, 10, c.RequestID, []string{"client-chosen-id"})
			// Connection: nominate managed headers as hop-by-hop
			var conn []string
			if upgrade {
				conn = append(conn, c08Case(g, "Upgrade"))
				hs = append(hs, h2Header{c08Case(g, "Upgrade"), simcore.Pick(g, c08UpgradeTokens)})
			}
			if c08Chance(g, 20) {
				k := 1 + g.Intn(2)
				for i := 0; i < k; i++ {
					conn = append(conn, c08Case(g, simcore.Pick(g, managed)))
				}
				if c08Chance(g, 30) {
					conn = append(conn, simcore.Pick(g, []string{"keep-alive", "close"}))
				}
			}
			if len(conn) > 0 {
				if len(conn) > 1 && c08Chance(g, 30) {
					// two Connection lines
					hs = append(hs, h2Header{"Connection", conn[0]}, h2Header{c08Case(g, "Connection"), strings.Join(conn[1:], ", ")})
				} else {
					hs = append(hs, h2Header{"Connection", strings.Join(conn, simcore.Pick(g, []string{", ", ","}))})
				}
			}
			rq.Headers = hs
			if !upgrade && c08Chance(g, 12) {
				sc.HTTP10 = append(sc.HTTP10, rq.ID)
			}
			rq.Chunks = c07GenChunks(g, 300)
			rs := h2Resp{Status: simcore.Pick(g, []int{200, 200, 404, 500, 301}), Body: g.Bytes(g.Range(0, 200)),
				Headers: []h2Header{{"Content-Type", "application/octet-stream"}}}
			if c08Chance(g, 15) {
				rs.Headers = append(rs.Headers, h2Header{"Strict-Transport-Security", "max-age=77"})
			}
			if upgrade && c08Chance(g, 80) {
				rs = h2Resp{Status: 101, Headers: []h2Header{{"Upgrade", "websocket"}, {"Connection", "Upgrade"}}}
			} else if !upgrade && c08Chance(g, 20) {
				// interim responses (103 Early Hints) before the final one
				rs.Early = g.Range(1, 2)
			}
			rs.BodyLen = len(rs.Body)
			rq.Resp = rs
			cl.Reqs = append(cl.Reqs, rq)
			if upgrade {
				break // an upgraded connection is a tunnel: nothing may follow on it
			}
		}
		sc.Clients = append(sc.Clients, cl)
		var offers []c08TLSProfile
		if c.TLS || c.Both {
			// one offer per connection the client may open (at most one per request)
			for k := range cl.Reqs {
				_ = k
				offers = append(offers, simcore.Pick(g, c08TLSProfiles))
			}
		}
		sc.ClientTLS = append(sc.ClientTLS, offers)
	}
	sc.Tasked = c08Chance(g, 35)
	if c.Both {
		// what one request leaves behind for the next one (recycled objects, memos) is only deterministic when the
		// handlers are tasks: sync.Pool is then a LIFO of the run instead of the runtime's per-P caches
		sc.Tasked = true
	}
	return sc
}

func c08Table(sc *c08Scenario) string {
	var b strings.Builder
	for j, rt := range sc.Routes {
		fmt.Fprintf(&b, "route add svc%d %s http://%s/", j, rt.Prefix, rt.Key)
		if rt.HostOpt != "" {
			fmt.Fprintf(&b, " opts \"host=%s\"", rt.HostOpt)
		}
		b.WriteString("\n")
	}
	return b.String()
}

func runC08(r *simcore.Run) {
	sc := c08Gen(r.Gen, r.Thorough())
	r.SetSample(sc)
	cfg := &config.Config{}
	cfg.Proxy.Strategy = "rnd"
	cfg.Proxy.Matcher = "prefix"
	cfg.Proxy.NoRouteStatus = 404
	cfg.GlobCacheSize = 100
	cfg.Proxy.DialTimeout = 30 * time.Second
	cfg.Proxy.ClientIPHeader = sc.Cfg.ClientIPHeader
	cfg.Proxy.TLSHeader = sc.Cfg.TLSHeader
	cfg.Proxy.TLSHeaderValue = sc.Cfg.TLSHeaderValue
	cfg.Proxy.LocalIP = sc.Cfg.LocalIP
	cfg.Proxy.STSHeader = config.STSHeader{MaxAge: sc.Cfg.STSMaxAge, Subdomains: sc.Cfg.STSSubdomains, Preload: sc.Cfg.STSPreload}
	cfg.Proxy.RequestID = sc.Cfg.RequestID
	e := h2NewEnv(r, cfg, c08Table(sc))
	defer e.finish()
	e.proxy.UUID = func() string { return "00000000-0000-4000-8000-000000000000" }
	if sc.Tasked {
		// everything in package proxy except the code that net/http or ReverseProxy call back under their own locks
		e.d.Sim.Activate("proxy", "-proxy:*responseWriter", "-proxy:newWSHandler", "-proxy:newHTTPProxy", "-proxy:httpProxyErrorHandler")
		var amu sync.Mutex
		perConn := map[string]int{}
		e.wrap = func(h http.Handler) http.Handler {
			return http.HandlerFunc(func(w http.ResponseWriter, req *http.Request) {
				amu.Lock()
				perConn[req.RemoteAddr]++
				name := fmt.Sprintf("h/%s/%d", req.RemoteAddr, perConn[req.RemoteAddr])
				amu.Unlock()
				defer simhook.Adopt(name)()
				h.ServeHTTP(w, req)
			})
		}
		r.Probe("tasked_handlers")
	}
	if sc.Cfg.Both {
		e.serve(nil)
		var own *proxy.HTTPProxy
		if sc.Cfg.OwnProxies {
			dp := metrics.DiscardProvider{}
			own = newHTTPProxy(cfg, &proxy.HttpStatsHandler{Noroute: dp.NewCounter("notfound"), Requests: dp.NewHistogram("requests"),
				WSConn: dp.NewGauge("ws.conn"), StatusTimer: dp.NewHistogram("http.status", "code"), RedirectCounter: dp.NewCounter("http.redirect.count", "code")})
			own.UUID = e.proxy.UUID
			r.Probe("both_listeners_own_proxies")
		}
		e.serveAt(c08TLSAddr, &tls.Config{Certificates: []tls.Certificate{zzSelfSigned()}}, own)
		r.Probe("both_listeners")
	} else if sc.Cfg.TLS {
		e.serve(&tls.Config{Certificates: []tls.Certificate{zzSelfSigned()}})
		r.Probe("tls_listener")
	} else {
		e.serve(nil)
		r.Probe("plain_listener")
	}
	for _, rt := range sc.Routes {
		e.upstream(rt.Key, simnet.ListenOpts{}, nil)
	}
	facts := &c08Facts{req: map[string]c08ConnFacts{}}
	for i := range sc.Clients {
		c08Client(e, sc, i, facts)
	}
	if !e.run(400000, 30*time.Minute) {
		r.Trouble("clients did not finish")
		return
	}
	// let the tails of upgraded tunnels drain so that teardown finds nothing in flight
	e.d.Run(2000, func() bool { return !e.net.Pending() })
	for ci := range sc.Clients {
		cl := &sc.Clients[ci]
		if len(cl.Reqs) > 1 {
			r.Probe("keepalive_reuse")
		}
		c08SequenceProbes(r, sc, cl)
		for qi := range cl.Reqs {
			c08Check(r, e, sc, cl, &cl.Reqs[qi], facts)
		}
	}
	c08OverlapProbes(r, e, sc, facts)
}

// c08OverlapProbes counts the runs in which requests of different clients on TLS connections were under way at the
// same time (from the first byte sent to the last byte received), and those among them whose connections negotiated
// different parameters.
func c08OverlapProbes(r *simcore.Run, e *h2Env, sc *c08Scenario, facts *c08Facts) {
	type span struct {
		ci   int
		f    c08ConnFacts
		a, b time.Time
	}
	var spans []span
	for ci := range sc.Clients {
		for qi := range sc.Clients[ci].Reqs {
			id := sc.Clients[ci].Reqs[qi].ID
			f, ok := facts.req[id]
			res := e.results[id]
			if !ok || !f.TLS || res == nil || res.Err != nil {
				continue
			}
			spans = append(spans, span{ci, f, res.SentAt, res.DoneAt})
		}
	}
	overlap, differ := false, false
	for i := range spans {
		for j := i + 1; j < len(spans); j++ {
			x, y := spans[i], spans[j]
			if x.ci == y.ci || x.b.Before(y.a) || y.b.Before(x.a) {
				continue
			}
			overlap = true
			if x.f.Version != y.f.Version || x.f.Suite != y.f.Suite {
				differ = true
			}
		}
	}
	if overlap {
		r.Probe("tls_requests_of_two_clients_at_the_same_time")
	}
	if differ {
		r.Probe("tls_requests_at_the_same_time_with_different_version_or_suite")
		if sc.Tasked {
			r.Probe("tasked_tls_requests_at_the_same_time_with_different_version_or_suite")
		}
	}
}

// c08Client runs client ci of the scenario. It is h2Env.client with two additions: every TLS handshake offers what
// the scenario drew for that connection and the parameters the CLIENT side negotiated are kept per request (the
// oracle's ground truth for tlsver= / tlscipher=), and requests listed in sc.HTTP10 are written as HTTP/1.0.
func c08Client(e *h2Env, sc *c08Scenario, ci int, facts *c08Facts) {
	cl := &sc.Clients[ci]
	http10 := map[string]bool{}
	for _, id := range sc.HTTP10 {
		http10[id] = true
	}
	e.mu.Lock()
	e.clients++
	for i := range cl.Reqs {
		e.script[cl.Reqs[i].ID] = &cl.Reqs[i]
	}
	e.mu.Unlock()
	go func() {
		defer func() {
			e.mu.Lock()
			e.done++
			e.mu.Unlock()
		}()
		base := e.netAddr(cl.Addr)
		type clientConn struct {
			c  net.Conn
			br *bufio.Reader
			f  c08ConnFacts
		}
		conns := map[string]*clientConn{}
		var order []string // listener addresses in the order of their first use
		nconn := 0
		closeConn := func(to string) {
			if cc := conns[to]; cc != nil {
				cc.c.Close()
				delete(conns, to)
			}
		}
		defer func() {
			for _, to := range order {
				closeConn(to)
			}
		}()
		for i := range cl.Reqs {
			rq := &cl.Reqs[i]
			res := &h2Result{}
			e.mu.Lock()
			e.results[rq.ID] = res
			e.mu.Unlock()
			to, useTLS := h2FabioAddr, cl.TLS
			if rq.To != "" && rq.To != h2FabioAddr {
				to = rq.To
				e.mu.Lock()
				useTLS = e.tlsAt[to]
				e.mu.Unlock()
			}
			if conns[to] == nil {
				known := false
				for _, o := range order {
					known = known || o == to
				}
				if !known {
					order = append(order, to)
				}
				from := &net.TCPAddr{IP: base.IP, Port: base.Port + nconn, Zone: base.Zone}
				var offer c08TLSProfile
				if ci < len(sc.ClientTLS) && nconn < len(sc.ClientTLS[ci]) {
					offer = sc.ClientTLS[ci][nconn]
				}
				nconn++
				raw, err := e.net.Dial(e.r.Ctx(), from, to, 0)
				if err != nil {
					res.Err = err
					continue
				}
				cc := &clientConn{c: raw}
				if useTLS {
					tcfg := &tls.Config{InsecureSkipVerify: true, ServerName: "fabio.sim", NextProtos: []string{"http/1.1"}, MaxVersion: offer.MaxVersion}
					if offer.Suite != 0 {
						tcfg.CipherSuites = []uint16{offer.Suite}
					}
					tc := tls.Client(raw, tcfg)
					if err := tc.Handshake(); err != nil {
						res.Err = err
						raw.Close()
						continue
					}
					st := tc.ConnectionState()
					cc.c = tc
					cc.f = c08ConnFacts{TLS: true, Version: st.Version, Suite: st.CipherSuite}
				}
				cc.br = bufio.NewReader(cc.c)
				conns[to] = cc
			}
			c, br := conns[to].c, conns[to].br
			raw := h2RenderRequest(rq)
			f := conns[to].f
			f.Proto = "HTTP/1.1"
			if http10[rq.ID] {
				f.Proto = "HTTP/1.0"
				raw = bytes.Replace(raw, []byte(" HTTP/1.1\r\n"), []byte(" HTTP/1.0\r\n"), 1)
			}
			facts.mu.Lock()
			facts.req[rq.ID] = f
			facts.mu.Unlock()
			res.SentAt = time.Now()
			e.r.Tracef("client %s sends %s %s id=%s", cl.Addr, rq.Method, rq.Path, rq.ID)
			if err := h2WriteChunks(c, raw, rq.Chunks); err != nil {
				res.Err = err
				closeConn(to)
				continue
			}
			resp, err := http.ReadResponse(br, &http.Request{Method: rq.Method})
			// interim responses (103 Early Hints) precede the final one
			for err == nil && resp.StatusCode >= 100 && resp.StatusCode < 200 && resp.StatusCode != 101 {
				res.Interim = append(res.Interim, resp.StatusCode)
				resp, err = http.ReadResponse(br, &http.Request{Method: rq.Method})
			}
			if err != nil {
				res.Err = err
				closeConn(to)
				continue
			}
			res.HeaderAt = time.Now()
			res.Status, res.Proto, res.Header = resp.StatusCode, resp.Proto, resp.Header.Clone()
			res.TE, res.CL = resp.TransferEncoding, resp.ContentLength
			res.Body, res.BodyErr = io.ReadAll(resp.Body)
			res.DoneAt = time.Now()
			e.r.Tracef("client %s got %d id=%s body=%d err=%v", cl.Addr, res.Status, rq.ID, len(res.Body), res.BodyErr)
			if resp.Close || res.BodyErr != nil || rq.CloseAfter {
				closeConn(to)
			}
		}
	}()
}

// c08SequenceProbes counts the request sequences of one client that carry state from one request to the next.
func c08SequenceProbes(r *simcore.Run, sc *c08Scenario, cl *h2Client) {
	for i := 1; i < len(cl.Reqs); i++ {
		prev, cur := &cl.Reqs[i-1], &cl.Reqs[i]
		if sc.Cfg.Both && c08ReqTLS(&sc.Cfg, prev) && !c08ReqTLS(&sc.Cfg, cur) {
			r.Probe("plain_request_after_tls_request")
		}
		if sc.Cfg.Both && !c08ReqTLS(&sc.Cfg, prev) && c08ReqTLS(&sc.Cfg, cur) {
			r.Probe("tls_request_after_plain_request")
		}
		for j := 0; j < i; j++ {
			if cl.Reqs[j].To == cur.To && cl.Reqs[j].CloseAfter {
				r.Probe("fresh_connection_after_close")
				break
			}
		}
	}
}

// ---- what the client sent (ground truth) ----

func c08Canon(name string) string { return http.CanonicalHeaderKey(name) }

// c08Sent returns the values of every line the client sent under name (any spelling), in order.
func c08Sent(rq *h2Req, name string) []string {
	var out []string
	cn := c08Canon(name)
	for _, h := range rq.Headers {
		if c08Canon(h.K) == cn {
			out = append(out, h.V)
		}
	}
	return out
}

// c08Nominated reports whether the client listed name in a Connection header.
func c08Nominated(rq *h2Req, name string) bool {
	cn := c08Canon(name)
	for _, v := range c08Sent(rq, "Connection") {
		for _, f := range strings.Split(v, ",") {
			if c08Canon(strings.TrimSpace(f)) == cn {
				return true
			}
		}
	}
	return false
}

func c08IPEq(v string, peer netip.Addr) bool {
	a, err := netip.ParseAddr(strings.TrimSpace(v))
	if err != nil {
		return false
	}
	a, p := a.Unmap(), peer.Unmap()
	if a == p {
		return true
	}
	// reading: an address reported without its zone still names the peer
	return a.Zone() == "" && a == p.WithZone("")
}

// c08Params collects the values of one parameter from Forwarded header lines
// (RFC 7239: elements separated by ',', parameters by ';', names case-insensitive).
func c08Params(lines []string, firstElementOnly bool, key string) []string {
	var out []string
	for _, line := range lines {
		for ei, elem := range strings.Split(line, ",") {
			if firstElementOnly && ei > 0 {
				break
			}
			for _, p := range strings.Split(elem, ";") {
				k, v, ok := strings.Cut(strings.TrimSpace(p), "=")
				if !ok || strings.ToLower(strings.TrimSpace(k)) != key {
					continue
				}
				out = append(out, strings.Trim(strings.TrimSpace(v), "\""))
			}
		}
		if firstElementOnly {
			break
		}
	}
	return out
}

// c08NodeIP extracts the address from a Forwarded node ("1.2.3.4", "1.2.3.4:80", "[v6]", "[v6]:80", bare v6).
func c08NodeIP(v string) string {
	if strings.HasPrefix(v, "[") {
		if i := strings.IndexByte(v, ']'); i > 0 {
			return v[1:i]
		}
	}
	if _, err := netip.ParseAddr(v); err == nil {
		return v
	}
	if h, _, err := net.SplitHostPort(v); err == nil {
		return h
	}
	return v
}

func c08In(v string, set []string) bool {
	for _, s := range set {
		if strings.EqualFold(v, s) {
			return true
		}
	}
	return false
}

func c08SameList(a, b []string) bool {
	if len(a) != len(b) {
		return false
	}
	for i := range a {
		if a[i] != b[i] {
			return false
		}
	}
	return true
}

func c08Check(r *simcore.Run, e *h2Env, sc *c08Scenario, cl *h2Client, rq *h2Req, facts *c08Facts) {
	res := e.results[rq.ID]
	seen := e.seen[rq.ID]
	cfg := &sc.Cfg
	// the facts of the connection this request travelled on
	onTLS := c08ReqTLS(cfg, rq)
	listenPort := c08ListenPort
	if cfg.Both && onTLS {
		listenPort = c08TLSListenPort
	}
	ap, err := netip.ParseAddrPort(cl.Addr)
	if err != nil {
		r.Trouble("scenario peer address %q: %v", cl.Addr, err)
		return
	}
	peer := ap.Addr()
	upgradeVals := c08Sent(rq, "Upgrade")
	isUpgrade := len(upgradeVals) > 0
	// which forwarding path the statement's "websocket requests" went through is an implementation matter;
	// the signature only tells plain requests from upgrade requests
	kind := "http"
	if isUpgrade {
		kind = "upgrade"
		r.Probe("upgrade_" + upgradeVals[0])
	}
	// lsn names the listener situation in signatures: runs with one listener keep the bare signatures
	lsn := ""
	if cfg.Both {
		lsn = "both-listeners/"
		kind = lsn + kind
	}
	what := fmt.Sprintf("%s %s Host=%q from %s tls=%v (id %s)", rq.Method, rq.Path, rq.Host, cl.Addr, onTLS, rq.ID)
	if cfg.Both {
		what += " in a process serving a plain and a TLS listener"
	}
	if res == nil {
		r.Trouble("no result for %s", rq.ID)
		return
	}

	// ---- response side: Strict-Transport-Security ----
	if res.Err == nil {
		got := append([]string(nil), res.Header["Strict-Transport-Security"]...)
		// values the upstream itself sent are passed through, they are not "added"
		if len(seen) > 0 && res.Status == rq.Resp.Status {
			for _, h := range rq.Resp.Headers {
				if c08Canon(h.K) != "Strict-Transport-Security" {
					continue
				}
				for i, v := range got {
					if v == h.V {
						got = append(got[:i], got[i+1:]...)
						break
					}
				}
			}
		}
		switch {
		case !onTLS && len(got) > 0:
			r.Fail("sts", lsn+"plain/added", "%s: plain connection, response carries Strict-Transport-Security %q that no upstream sent", what, got)
		case onTLS && cfg.STSMaxAge <= 0 && len(got) > 0:
			r.Fail("sts", lsn+"tls/added-though-disabled", "%s: proxy.header.sts.maxage=0 but the response carries Strict-Transport-Security %q", what, got)
		case onTLS && cfg.STSMaxAge > 0 && rq.Route >= 0 && !isUpgrade && len(seen) == 1 && res.Status == rq.Resp.Status:
			r.Probe("sts_expected")
			if len(got) == 0 {
				r.Fail("sts", lsn+"tls/missing", "%s: TLS connection with sts.maxage=%d: the response has no Strict-Transport-Security header", what, cfg.STSMaxAge)
			} else if msg := c08STSWrong(got[0], cfg); msg != "" {
				r.Fail("sts", lsn+"tls/wrong-directives", "%s: Strict-Transport-Security %q: %s", what, got[0], msg)
			}
		}
	}

	if rq.Route < 0 {
		if len(seen) > 0 {
			r.Fail("request", lsn+"noroute-forwarded", "%s has no route but %s received it", what, seen[0].Upstream)
		}
		return
	}
	rt := sc.Routes[rq.Route]
	if len(seen) != 1 {
		r.Fail("request", fmt.Sprintf("%s/seen-%d-times", kind, len(seen)), "%s: the upstream received the request %d times (client: status=%d err=%v)", what, len(seen), res.Status, res.Err)
		return
	}
	r.Nontrivial()
	s := seen[0]
	up := s.Header
	if rt.HostOpt != "" {
		r.Probe("host_option")
	}
	if peer.Is6() && !peer.Is4In6() {
		r.Probe("ipv6_peer")
	}
	if peer.Zone() != "" {
		r.Probe("zoned_peer")
	}

	for _, name := range []string{cfg.ClientIPHeader, cfg.TLSHeader, "X-Real-Ip", "X-Forwarded-For", "X-Forwarded-Proto", "X-Forwarded-Port", "X-Forwarded-Host", "Forwarded"} {
		if name != "" && c08Nominated(rq, name) {
			r.Probe("nominated_managed_header")
			break
		}
	}
	if len(c08Sent(rq, "Forwarded")) > 0 || len(c08Sent(rq, "X-Forwarded-Proto")) > 0 {
		r.Probe("client_sent_proto_or_forwarded")
	}
	if isUpgrade && res.Err == nil && res.Status == 101 {
		r.Probe("upgrade_completed_101")
	}

	// fail reports a mismatch on one managed header; the signature names the header situation, never data.
	fail := func(class, name, sig, format string, a ...any) {
		if c08Nominated(rq, name) && len(up[c08Canon(name)]) == 0 {
			sig = "stripped-by-connection-nomination"
		}
		r.Fail(class, kind+"/"+sig, "%s: %s [client sent %s=%q, Connection=%q; upstream received %s=%q]", what, fmt.Sprintf(format, a...),
			name, c08Sent(rq, name), c08Sent(rq, "Connection"), c08Canon(name), up[c08Canon(name)])
	}

	// ---- configured client-IP header: overwritten with the peer address ----
	cipCanon := c08Canon(cfg.ClientIPHeader)
	if cfg.ClientIPHeader != "" && cipCanon != "X-Forwarded-For" && cipCanon != "X-Real-Ip" {
		// reading: when the configured name is X-Forwarded-For or X-Real-Ip the statement's specific clauses below govern
		got := up[cipCanon]
		if len(c08Sent(rq, cfg.ClientIPHeader)) > 0 {
			r.Probe("forged_clientip")
		}
		switch {
		case len(got) == 0:
			fail("client-ip-header", cfg.ClientIPHeader, "missing", "configured client-IP header %s did not reach the upstream", cfg.ClientIPHeader)
		case len(got) > 1:
			fail("client-ip-header", cfg.ClientIPHeader, "not-overwritten", "configured client-IP header %s has %d values, the client's were not overwritten", cfg.ClientIPHeader, len(got))
		case !c08IPEq(got[0], peer):
			fail("client-ip-header", cfg.ClientIPHeader, "not-peer", "configured client-IP header %s is not the peer address %s", cfg.ClientIPHeader, peer)
		}
	}

	// ---- X-Forwarded-For: peer address is the last element ----
	{
		elems := strings.Split(strings.Join(up["X-Forwarded-For"], ","), ",")
		last := strings.TrimSpace(elems[len(elems)-1])
		if len(c08Sent(rq, "X-Forwarded-For")) > 0 {
			r.Probe("forged_xff")
		}
		switch {
		case len(up["X-Forwarded-For"]) == 0:
			fail("x-forwarded-for", "X-Forwarded-For", "missing", "no X-Forwarded-For reached the upstream")
		case !c08IPEq(last, peer):
			fail("x-forwarded-for", "X-Forwarded-For", "last-not-peer", "last X-Forwarded-For element %q is not the peer address %s", last, peer)
		}
	}

	// ---- X-Real-Ip: the peer address unless the client sent one ----
	{
		sent := c08Sent(rq, "X-Real-Ip")
		got := up["X-Real-Ip"]
		switch {
		case len(sent) == 0 && len(got) == 0:
			fail("x-real-ip", "X-Real-Ip", "missing", "client sent no X-Real-Ip and none reached the upstream")
		case len(sent) == 0 && (len(got) != 1 || !c08IPEq(got[0], peer)):
			fail("x-real-ip", "X-Real-Ip", "not-peer", "client sent no X-Real-Ip, upstream received one that is not the peer address %s", peer)
		case len(sent) > 0 && len(got) > 0 && !c08SameList(sent, got) && !(len(got) == 1 && c08IPEq(got[0], peer)):
			// reading: with a client-supplied X-Real-Ip the statement demands nothing; only "neither the client's nor the peer" is flagged
			fail("x-real-ip", "X-Real-Ip", "neither-client-nor-peer", "X-Real-Ip is neither what the client sent nor the peer address %s", peer)
		}
	}

	// ---- TLS header: present with the configured value exactly on TLS connections ----
	if cfg.TLSHeader != "" {
		got := up[c08Canon(cfg.TLSHeader)]
		if len(c08Sent(rq, cfg.TLSHeader)) > 0 {
			r.Probe("forged_tls_header")
		}
		switch {
		case onTLS && len(got) == 0:
			fail("tls-header", cfg.TLSHeader, "tls/missing", "TLS connection but the configured TLS header %s did not reach the upstream", cfg.TLSHeader)
		case onTLS && (len(got) != 1 || got[0] != cfg.TLSHeaderValue):
			fail("tls-header", cfg.TLSHeader, "tls/wrong-value", "TLS connection: header %s should carry exactly the configured value %q", cfg.TLSHeader, cfg.TLSHeaderValue)
		case !onTLS && len(got) > 0:
			fail("tls-header", cfg.TLSHeader, "plain/present", "plain connection but the upstream received the TLS header %s", cfg.TLSHeader)
		}
	}

	// ---- protocol of the client's actual connection ----
	actual := []string{"http"}
	if onTLS {
		actual = []string{"https"}
	}
	if isUpgrade { // reading: an upgrade request may be described by its websocket scheme as well
		if onTLS {
			actual = append(actual, "wss")
		} else {
			actual = append(actual, "ws")
		}
	}
	sentXFP := c08Sent(rq, "X-Forwarded-Proto")
	sentFwd := c08Sent(rq, "Forwarded")

	// X-Forwarded-Proto, supplied when absent
	if len(sentXFP) == 0 {
		// reading: if the client supplied Forwarded, the protocol named there is accepted as well (chained proxies)
		ok := append(append([]string(nil), actual...), c08Params(sentFwd, false, "proto")...)
		got := up["X-Forwarded-Proto"]
		switch {
		case len(got) == 0:
			fail("x-forwarded-proto", "X-Forwarded-Proto", "missing", "client sent no X-Forwarded-Proto and none was supplied")
		case len(got) != 1 || !c08In(got[0], ok):
			sig := "wrong"
			if len(sentFwd) > 0 {
				sig = "wrong-with-client-forwarded"
			}
			fail("x-forwarded-proto", "X-Forwarded-Proto", sig, "supplied X-Forwarded-Proto does not describe the connection (acceptable: %q)", ok)
		}
	}

	// X-Forwarded-Port, supplied when absent: port of the Host the client asked for, else the connection's
	if len(c08Sent(rq, "X-Forwarded-Port")) == 0 {
		var ok []string
		if _, p, err := net.SplitHostPort(rq.Host); err == nil && p != "" {
			ok = []string{p}
		} else if onTLS {
			ok = []string{"443", listenPort} // reading: scheme default or the listener's real port
		} else {
			ok = []string{"80", listenPort}
		}
		got := up["X-Forwarded-Port"]
		switch {
		case len(got) == 0:
			fail("x-forwarded-port", "X-Forwarded-Port", "missing", "client sent no X-Forwarded-Port and none was supplied")
		case len(got) != 1 || !c08In(got[0], ok):
			sig := "wrong"
			_, upPort, _ := net.SplitHostPort(s.Host)
			if rt.HostOpt != "" && len(got) == 1 && (got[0] == upPort || (upPort == "" && (got[0] == "80" || got[0] == "443"))) {
				sig = "wrong-under-host-option" // it is the port of the rewritten Host
			} else if strings.HasPrefix(rq.Host, "[") {
				sig = "wrong-with-ipv6-literal-host"
			}
			fail("x-forwarded-port", "X-Forwarded-Port", sig, "route host=%q: supplied X-Forwarded-Port does not describe the client's request (acceptable: %q)", rt.HostOpt, ok)
		}
	}

	// X-Forwarded-Host, supplied when absent: the host the client asked for
	if len(c08Sent(rq, "X-Forwarded-Host")) == 0 {
		got := up["X-Forwarded-Host"]
		switch {
		case len(got) == 0:
			fail("x-forwarded-host", "X-Forwarded-Host", "missing", "client sent no X-Forwarded-Host and none was supplied")
		case len(got) != 1 || !strings.EqualFold(got[0], rq.Host):
			sig := "wrong"
			if rt.HostOpt != "" {
				sig = "wrong-under-host-option"
			}
			fail("x-forwarded-host", "X-Forwarded-Host", sig, "route host=%q: supplied X-Forwarded-Host is not the host the client asked for (upstream's own Host was %q)", rt.HostOpt, s.Host)
		}
	}

	// Forwarded, supplied when absent: for=<peer>, proto of the connection
	if len(sentFwd) == 0 {
		got := up["Forwarded"]
		fors := c08Params(got, true, "for")
		protos := c08Params(got, true, "proto")
		// reading: if the client supplied X-Forwarded-Proto, that protocol is accepted as well
		ok := append(append([]string(nil), actual...), sentXFP...)
		switch {
		case len(got) == 0:
			fail("forwarded", "Forwarded", "missing", "client sent no Forwarded and none was supplied")
		case len(fors) == 0 || !c08IPEq(c08NodeIP(fors[0]), peer):
			fail("forwarded", "Forwarded", "for-not-peer", "supplied Forwarded does not name the peer address %s in for=", peer)
		case len(protos) == 0 || !c08In(protos[0], ok):
			sig := "proto-wrong"
			if len(sentXFP) > 0 {
				sig = "proto-wrong-with-client-xfp"
			}
			fail("forwarded", "Forwarded", sig, "supplied Forwarded does not describe the connection's protocol (acceptable: %q)", ok)
		}
		// the further parameters fabio adds to the header it supplies: whatever is there must be true of THIS connection
		// (a parameter that is missing says nothing false and is not flagged)
		f, known := facts.req[rq.ID]
		if len(got) > 0 && known {
			if f.TLS != onTLS {
				r.Trouble("%s: client side TLS state %v does not match the scenario", what, f.TLS)
			}
			conn := "plain connection"
			if f.TLS {
				conn = fmt.Sprintf("TLS connection on which the client negotiated version 0x%04x (%s) and cipher suite 0x%04x (%s)", f.Version, tls.VersionName(f.Version), f.Suite, tls.CipherSuiteName(f.Suite))
				r.Probe("forwarded_checked_on_" + strings.ReplaceAll(strings.ToLower(tls.VersionName(f.Version)), " ", ""))
				r.Probe(fmt.Sprintf("forwarded_checked_with_suite_0x%04x", f.Suite))
			}
			if f.Proto == "HTTP/1.0" {
				r.Probe("forwarded_checked_on_http10_request")
			}
			for _, v := range c08Params(got, true, "httpproto") {
				if !strings.EqualFold(v, f.Proto) {
					fail("forwarded", "Forwarded", "httpproto-wrong", "the client's request was an %s request, the supplied Forwarded says httpproto=%q", f.Proto, v)
				}
			}
			for _, v := range c08Params(got, true, "tlsver") {
				switch {
				case !f.TLS:
					fail("forwarded", "Forwarded", "tlsver-on-plain", "plain connection, the supplied Forwarded says tlsver=%q", v)
				case !c08NamesTLSVersion(v, f.Version):
					fail("forwarded", "Forwarded", "tlsver-wrong", "%s; the supplied Forwarded says tlsver=%q", conn, v)
				}
			}
			for _, v := range c08Params(got, true, "tlscipher") {
				switch {
				case !f.TLS:
					fail("forwarded", "Forwarded", "tlscipher-on-plain", "plain connection, the supplied Forwarded says tlscipher=%q", v)
				case !c08NamesSuite(v, f.Suite):
					fail("forwarded", "Forwarded", "tlscipher-wrong", "%s; the supplied Forwarded says tlscipher=%q", conn, v)
				}
			}
			if lip, err := netip.ParseAddr(cfg.LocalIP); err == nil {
				for _, v := range c08Params(got, true, "by") {
					if !c08IPEq(c08NodeIP(v), lip) {
						fail("forwarded", "Forwarded", "by-not-localip", "proxy.localip is %s, the supplied Forwarded says by=%q", cfg.LocalIP, v)
					}
				}
			}
		}
	}

	r.Tracef("checked %s kind=%s route-host=%q cip=%q xff=%q xri=%q tls=%q xfp=%q xfport=%q xfh=%q fwd-for=%q fwd-proto=%q", rq.ID, kind, rt.HostOpt,
		up[cipCanon], up["X-Forwarded-For"], up["X-Real-Ip"], up[c08Canon(cfg.TLSHeader)], up["X-Forwarded-Proto"], up["X-Forwarded-Port"], up["X-Forwarded-Host"],
		c08Params(up["Forwarded"], true, "for"), c08Params(up["Forwarded"], true, "proto"))
	if len(sentFwd) == 0 {
		r.Tracef("checked %s supplied forwarded: by=%q httpproto=%q tlsver=%q tlscipher=%q", rq.ID, c08Params(up["Forwarded"], true, "by"),
			c08Params(up["Forwarded"], true, "httpproto"), c08Params(up["Forwarded"], true, "tlsver"), c08Params(up["Forwarded"], true, "tlscipher"))
	}
}

// c08NamesTLSVersion: v denotes the protocol version ver either by its wire number (hexadecimal with 0x, as fabio
// writes cipher suites and versions in proxy.addr options) or by a name made of "tls"/"ssl" and the digits of the
// version ("tls12", "tls1.2", "TLSv1.2", "TLS 1.2"), compared without case, dots, spaces and 'v'.
func c08NamesTLSVersion(v string, ver uint16) bool {
	if lv := strings.ToLower(v); strings.HasPrefix(lv, "0x") {
		n, err := strconv.ParseUint(lv[2:], 16, 16)
		return err == nil && uint16(n) == ver
	}
	squash := func(s string) string {
		return strings.NewReplacer(".", "", " ", "", "v", "", "_", "", "-", "").Replace(strings.ToLower(s))
	}
	return squash(v) == squash(tls.VersionName(ver))
}

// c08NamesSuite: v denotes the cipher suite by its IANA number (hexadecimal with 0x) or by its IANA name.
func c08NamesSuite(v string, suite uint16) bool {
	lv := strings.ToLower(v)
	if strings.HasPrefix(lv, "0x") {
		n, err := strconv.ParseUint(lv[2:], 16, 16)
		return err == nil && uint16(n) == suite
	}
	return strings.EqualFold(v, tls.CipherSuiteName(suite))
}

// c08STSWrong compares an added Strict-Transport-Security value with the documented meaning of proxy.header.sts.*.
func c08STSWrong(v string, cfg *c08Cfg) string {
	var maxage string
	var sub, pre bool
	for _, d := range strings.Split(v, ";") {
		d = strings.TrimSpace(d)
		k, val, _ := strings.Cut(d, "=")
		switch strings.ToLower(strings.TrimSpace(k)) {
		case "max-age":
			maxage = strings.Trim(strings.TrimSpace(val), "\"")
		case "includesubdomains":
			sub = true
		case "preload":
			pre = true
		}
	}
	switch {
	case maxage != strconv.Itoa(cfg.STSMaxAge):
		return fmt.Sprintf("max-age should be %d", cfg.STSMaxAge)
	case sub != cfg.STSSubdomains:
		return fmt.Sprintf("includeSubDomains present=%v, configured %v", sub, cfg.STSSubdomains)
	case pre != cfg.STSPreload:
		return fmt.Sprintf("preload present=%v, configured %v", pre, cfg.STSPreload)
	}
	return ""
}

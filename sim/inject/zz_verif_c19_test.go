//go:build verif

package main

// C19 — configured upstream time limits are enforced.
//
// H2 with PRNG-chosen values of the five proxy transport options, wired as
// main does (transport.SetConfig, then tables and proxies). Upstreams delay
// their response headers relative to the configured timeout, black-hole the
// dial, or answer and stay idle; the simulated clock gives exact timings.
//
// Exchanges that are not plain request -> response are part of the scenario
// space: interim (1xx) responses before the final header (at once, while the
// request body is still on its way, or part of the way to the final header),
// uploads with Content-Length or chunked and "Expect: 100-continue", replies
// with trailers, and protocol upgrades through the reverse proxy (101). The
// limit always runs to the FINAL response header.

import (
	"bufio"
	"bytes"
	"crypto/tls"
	"fmt"
	"io"
	"net"
	"net/http"
	"strings"
	"time"

	"github.com/fabiolb/fabio/config"
	"github.com/fabiolb/fabio/internal/zzverif/simcore"
	"github.com/fabiolb/fabio/internal/zzverif/simnet"
)

func init() {
	zzHarnesses = append(zzHarnesses, &simcore.Harness{Name: "c19", Props: []string{"C19"}, Run: runC19})
}

type c19Exchange struct {
	Route string        `json:"route"` // default | skipverify | perroute | blackhole
	Delay time.Duration `json:"upstream_delay"`
	Hang  bool          `json:"upstream_never_answers,omitempty"`
	Body  int           `json:"body"`
	// Upload: the request is a POST with a body and, when Expect is set, an "Expect: 100-continue" header.
	// SlowBody: the upstream answers its head in time and then streams the body in pieces with pauses; the whole
	// exchange lasts longer than dial timeout + response-header timeout
	SlowBody bool `json:"slow_body,omitempty"`
	Upload   int  `json:"upload_bytes,omitempty"`
	Expect   bool `json:"expect_100_continue,omitempty"`
	// ChunkedUpload: the request body travels with Transfer-Encoding: chunked instead of a Content-Length
	ChunkedUpload bool `json:"chunked_upload,omitempty"`
	// Interim: 1xx responses the upstream sends before its final header (which still comes at Delay, or never)
	Interim []c19Interim `json:"interim_responses,omitempty"`
	// Trailers (with SlowBody): the reply is chunked and announces a trailer, which follows the last piece after one more pause
	Trailers bool `json:"reply_with_trailers,omitempty"`
	// Upgrade: the request asks for a protocol switch (not websocket: it goes through the reverse proxy and the
	// transport); the upstream's final answer is "101 Switching Protocols", after which it echoes what it receives
	// the client keeps the tunnel for dial timeout + response-header timeout and exchanges data over it twice
	Upgrade bool `json:"protocol_upgrade,omitempty"`
	// WS (with Upgrade): the protocol asked for is websocket, which fabio forwards with its websocket handler (own
	// dial, no http.Transport). Plain-http targets only; the upstream accepts at once or its dial is black-holed.
	WS bool `json:"websocket,omitempty"`
	// SlowUpload: the client sends its request body in two pieces with a pause of (dial timeout + response-header
	// timeout)/2 before each, after waiting for "100 Continue" when it asked for it: the upstream has the request
	// only then, and its Delay counts from there
	SlowUpload bool `json:"slow_upload,omitempty"`
	// SSE: the request carries "Accept: text/event-stream" (exactly), for which fabio picks its server-sent-events
	// handler (a reverse proxy with the configured flush interval). The flag is independent of everything else: the
	// upstream may answer late, never, with an ordinary reply, with a protocol switch, or (Events) with an event stream
	SSE bool `json:"accept_event_stream,omitempty"`
	// Events (with SSE, in-time replies only): the final answer is "200, Content-Type: text/event-stream" without a
	// Content-Length; the events follow in these pieces, each after its pause. StreamEnd says how the stream ends:
	// "chunked" (last-chunk, after EndPause when > 0, else together with the last piece) or "close" (a reply delimited
	// by the end of the connection)
	Events    []c19Piece    `json:"event_stream_pieces,omitempty"`
	StreamEnd string        `json:"event_stream_end,omitempty"`
	EndPause  time.Duration `json:"pause_before_end_of_stream,omitempty"`
}

// c19Piece is one write of an upstream that streams events: a whole event or a part of one.
type c19Piece struct {
	Len   int           `json:"bytes"`
	Pause time.Duration `json:"pause_before"`
	data  []byte
}

// c19Interim is one interim response of an upstream.
type c19Interim struct {
	Code    int  `json:"code"` // 100, 102, 103
	Headers bool `json:"with_headers,omitempty"`
	// AtHead: sent as soon as the request head has been read, before the request body (uploads only)
	AtHead bool `json:"before_reading_the_request_body,omitempty"`
	// At: sent this long after the request has been received completely (0: at once); always well before the final header
	At time.Duration `json:"at,omitempty"`
}

const c19UpgradeProto = "c19-tunnel"

type c19Scenario struct {
	ResponseHeaderTimeout time.Duration `json:"response_header_timeout"`
	DialTimeout           time.Duration `json:"dial_timeout"`
	KeepAliveTimeout      time.Duration `json:"keepalive_timeout"`
	IdleConnTimeout       time.Duration `json:"idle_conn_timeout"`
	MaxConn               int           `json:"max_conn"`
	Exchanges             []c19Exchange `json:"exchanges"`
	Burst                 int           `json:"burst"` // concurrent requests to one upstream (0: none)
	BurstRoute            string        `json:"burst_route,omitempty"`
	// BurstSSE: the requests of the burst carry "Accept: text/event-stream" (the upstream answers them with an
	// ordinary short reply)
	BurstSSE bool `json:"burst_accepts_event_stream,omitempty"`
	// FlushInterval is proxy.flushinterval, which fabio uses for requests that accept an event stream
	FlushInterval time.Duration `json:"flush_interval"`
}

var c19Keys = map[string]string{"default": "up0.sim:80", "skipverify": "up1.sim:443", "perroute": "up2.sim:443", "blackhole": "up3.sim:80", "burst": "up4.sim:80"}

func runC19(r *simcore.Run) {
	g := r.Gen
	sc := &c19Scenario{}
	sc.ResponseHeaderTimeout = simcore.Pick(g, []time.Duration{time.Second, 50 * time.Millisecond, 5 * time.Second, 30 * time.Second, 2 * time.Minute})
	sc.DialTimeout = simcore.Pick(g, []time.Duration{2 * time.Second, 100 * time.Millisecond, 30 * time.Second})
	sc.KeepAliveTimeout = simcore.Pick(g, []time.Duration{15 * time.Second, time.Second, 3 * time.Minute})
	sc.IdleConnTimeout = simcore.Pick(g, []time.Duration{10 * time.Second, time.Second, 90 * time.Second})
	sc.MaxConn = g.Range(1, 4)
	T := sc.ResponseHeaderTimeout
	nex := g.Range(1, 3)
	for i := 0; i < nex; i++ {
		ex := c19Exchange{Route: simcore.Pick(g, []string{"default", "default", "skipverify", "perroute", "blackhole"}), Body: g.Range(0, 2000)}
		switch g.Intn(6) {
		case 0:
			ex.Delay = 0
		case 1:
			ex.Delay = T / 2
		case 2:
			ex.Delay = T - time.Millisecond
		case 3:
			ex.Delay = T + time.Millisecond
		case 4:
			ex.Delay = 3 * T
		case 5:
			ex.Hang = true
		}
		if g.Chance(30) {
			ex.Upload = g.Range(1, 3000)
			ex.Expect = g.Chance(60)
		}
		if !ex.Hang && ex.Delay < T && ex.Route != "blackhole" && g.Chance(25) {
			ex.SlowBody = true
			if ex.Body < 8 {
				ex.Body = 8
			}
		}
		if ex.Route != "blackhole" {
			if ex.Upload > 0 && g.Chance(30) {
				ex.ChunkedUpload = true
			}
			if ex.Upload > 1 && g.Chance(30) {
				ex.SlowUpload = true
			}
			if ex.SlowBody && g.Chance(35) {
				ex.Trailers = true
			}
			if ex.Upload == 0 && !ex.SlowBody && g.Chance(12) {
				ex.Upgrade = true
			}
			if ex.Upgrade && ex.Route == "default" && g.Chance(40) {
				// the websocket handler has its own, fixed limit for the handshake reply (see the assumptions):
				// only an upstream that accepts at once is in the scenario space
				ex.WS, ex.Delay, ex.Hang = true, 0, false
			}
			if !ex.WS && g.Chance(45) {
				// one or two interim responses; the final header still comes at Delay (or never). Every interim
				// response lies in the first half of the way to min(Delay, T): never near the instant the timeout fires
				base := T
				if !ex.Hang && ex.Delay < T {
					base = ex.Delay
				}
				n := 1 + g.Intn(2)
				var prev time.Duration
				for k := 0; k < n; k++ {
					in := c19Interim{Code: simcore.Pick(g, []int{103, 100, 102}), Headers: g.Chance(50)}
					switch g.Intn(4) {
					case 0, 1: // at once (after the previous one)
						in.At = prev
					case 2:
						in.At = base * time.Duration(k+1) / 4
					case 3:
						if k == 0 && ex.Upload > 0 {
							in.AtHead = true
						} else {
							in.At = prev
						}
					}
					prev = in.At
					ex.Interim = append(ex.Interim, in)
				}
			}
		}
		if ex.Route == "blackhole" && ex.Upload == 0 && g.Chance(25) {
			ex.Upgrade, ex.WS = true, true
		}
		if g.Chance(30) {
			// the handler kind fabio picks depends on the Accept header only (after the websocket test): the flag
			// combines with every route, delay, upload and upgrade above
			ex.SSE = true
			if !ex.Hang && ex.Delay < T && ex.Route != "blackhole" && !ex.Upgrade && !ex.SlowBody && g.Chance(70) {
				// an event stream: one or two events, whole or cut in two, a pause > 0 before every piece (also before
				// the first: see the note on the immediate flush in c19ServeUpstream). Pauses are short, as long as an
				// ordinary slow body's, or longer than every configured limit; exchange i adds i+1 microseconds so that
				// streams of concurrent exchanges do not tick at the same instants
				long := (sc.DialTimeout + T) / 2
				pauses := []time.Duration{10 * time.Millisecond, long, sc.DialTimeout + T + sc.IdleConnTimeout}
				if pauses[2] > 90*time.Second {
					pauses[2] = long
				}
				off := time.Duration(i+1) * time.Microsecond
				nev := g.Range(1, 2)
				for k := 0; k < nev; k++ {
					ev := []byte(fmt.Sprintf("id: %d\nevent: tick\ndata: %x\n\n", k+1, g.Bytes(g.Range(1, 24))))
					if g.Chance(40) {
						cut := g.Range(1, len(ev)-1)
						ex.Events = append(ex.Events, c19Piece{Len: cut, Pause: simcore.Pick(g, pauses) + off, data: ev[:cut]})
						ev = ev[cut:]
					}
					ex.Events = append(ex.Events, c19Piece{Len: len(ev), Pause: simcore.Pick(g, pauses) + off, data: ev})
				}
				ex.StreamEnd = simcore.Pick(g, []string{"chunked", "chunked", "close"})
				if ex.StreamEnd == "chunked" && g.Chance(50) {
					ex.EndPause = simcore.Pick(g, pauses) + off
				}
			}
		}
		sc.Exchanges = append(sc.Exchanges, ex)
	}
	if g.Chance(40) {
		sc.Burst = sc.MaxConn + g.Range(1, 3)
		sc.BurstRoute = simcore.Pick(g, []string{"burst", "perroute", "skipverify"})
		sc.BurstSSE = g.Chance(35)
	}
	// the documented default first
	sc.FlushInterval = simcore.Pick(g, []time.Duration{time.Second, 0, 130 * time.Millisecond})
	r.SetSample(sc)

	cfg := &config.Config{}
	cfg.Proxy.Strategy = "rnd"
	cfg.Proxy.Matcher = "prefix"
	cfg.Proxy.NoRouteStatus = 404
	cfg.GlobCacheSize = 100
	cfg.Proxy.ResponseHeaderTimeout = sc.ResponseHeaderTimeout
	cfg.Proxy.DialTimeout = sc.DialTimeout
	cfg.Proxy.KeepAliveTimeout = sc.KeepAliveTimeout
	cfg.Proxy.IdleConnTimeout = sc.IdleConnTimeout
	cfg.Proxy.MaxConn = sc.MaxConn
	cfg.Proxy.FlushInterval = sc.FlushInterval
	table := strings.Join([]string{
		"route add s0 /default http://up0.sim:80/",
		"route add s1 /skipverify https://up1.sim:443/ opts \"tlsskipverify=true\"",
		"route add s2 /perroute https://up2.sim:443/ opts \"host=svc.internal tlsskipverify=true\"",
		"route add s3 /blackhole http://up3.sim:80/",
		"route add s4 /burst http://up4.sim:80/",
	}, "\n")
	e := h2NewEnv(r, cfg, table)
	defer e.finish()
	e.serve(nil)
	upTLS := &tls.Config{Certificates: []tls.Certificate{zzSelfSigned()}}
	scripts := map[string]*c19Exchange{} // by request id; complete before the first client starts
	c19Upstream(e, c19Keys["default"], nil, scripts)
	c19Upstream(e, c19Keys["skipverify"], upTLS, scripts)
	c19Upstream(e, c19Keys["perroute"], upTLS, scripts)
	c19Upstream(e, c19Keys["burst"], nil, scripts)
	e.net.Blackhole(c19Keys["blackhole"], true)

	// sequential exchanges, one client connection each
	var reqs []*h2Req
	for i, ex := range sc.Exchanges {
		rq := h2Req{ID: fmt.Sprintf("x%d", i), Method: "GET", Path: "/" + ex.Route + "/r", Host: "fabio.sim",
			Headers: []h2Header{{"Accept-Encoding", "identity"}},
			Resp:    h2Resp{Status: 200, Body: g.Bytes(ex.Body), Delay: ex.Delay, Hang: ex.Hang, Headers: []h2Header{{"Content-Type", "application/octet-stream"}}}}
		if ex.SlowBody {
			// four pieces, each after a pause of (dial timeout + response-header timeout)/2: the head is in time, the body is not "fast"
			rq.Resp.Chunks = []int{1, 1, 1, 1}
			rq.Resp.BodyPause = (sc.DialTimeout + sc.ResponseHeaderTimeout) / 2
		}
		if ex.SSE {
			rq.Headers = append(rq.Headers, h2Header{"Accept", "text/event-stream"})
		}
		if len(ex.Events) > 0 {
			var all []byte
			for _, p := range ex.Events {
				all = append(all, p.data...)
			}
			rq.Resp.Body = all
			rq.Resp.Headers = []h2Header{{"Content-Type", "text/event-stream"}, {"Cache-Control", "no-cache"}}
		}
		if ex.Upload > 0 {
			rq.Method = "POST"
			rq.Body = g.Bytes(ex.Upload)
			rq.Chunked = ex.ChunkedUpload
			if ex.Expect {
				rq.Headers = append(rq.Headers, h2Header{"Expect", "100-continue"})
			}
		}
		if ex.Upgrade {
			if ex.WS {
				rq.Headers = append(rq.Headers, h2Header{"Connection", "Upgrade"}, h2Header{"Upgrade", "websocket"},
					h2Header{"Sec-WebSocket-Key", "dGhlIHNhbXBsZSBub25jZQ=="}, h2Header{"Sec-WebSocket-Version", "13"})
			} else {
				rq.Headers = append(rq.Headers, h2Header{"Connection", "Upgrade"}, h2Header{"Upgrade", c19UpgradeProto})
			}
			// what the upstream echoes through the tunnel
			rq.Resp.Status, rq.Resp.Body = 101, []byte(c19TunnelLine(rq.ID, 1)+c19TunnelLine(rq.ID, 2))
		}
		exc := ex
		e.mu.Lock()
		scripts[rq.ID] = &exc
		e.mu.Unlock()
		if ex.Upgrade || ex.SlowUpload {
			rqc := rq
			c19Client(e, fmt.Sprintf("192.0.2.%d:5000", 10+i), &rqc, &exc, (sc.DialTimeout+sc.ResponseHeaderTimeout)/2)
			reqs = append(reqs, &rqc)
		} else {
			cl := &h2Client{Addr: fmt.Sprintf("192.0.2.%d:5000", 10+i), Reqs: []h2Req{rq}}
			e.client(cl)
			reqs = append(reqs, &cl.Reqs[0])
		}
		// the response-header timer of the transport starts when the request has been written;
		// tell the idle driver about the configured instants
		if ex.Route == "blackhole" {
			e.d.Hint(time.Now().Add(sc.DialTimeout))
		}
	}
	// hints for the response-header timeout are added when the upstream records the request
	e.onSeen = func(s *h2Seen) { e.d.Hint(s.At.Add(T)) }
	// the horizon lies far beyond every configured limit (at most 2m + 30s) and scripted delay (at most 6m): a client
	// that is still waiting then is held without limit
	const horizon = 20 * time.Minute
	finished := e.run(20000, horizon)
	if !finished && r.SimElapsed() <= horizon {
		r.Trouble("clients did not finish within the step budget: %v", e.d.Sim.TaskStates())
		return
	}
	for i, ex := range sc.Exchanges {
		e.mu.Lock()
		res := e.results[reqs[i].ID]
		seen := e.seen[reqs[i].ID]
		e.mu.Unlock()
		if res == nil {
			res = &h2Result{}
		}
		// kind names the handler kind and the transport in violation signatures
		kind := ex.Route
		if ex.SSE {
			kind = "sse-" + ex.Route
			r.Probe("accept_event_stream")
		}
		if res.Err == nil && res.DoneAt.IsZero() {
			// no answer and no end of the connection up to the horizon
			r.Nontrivial()
			r.Tracef("exchange %d %s delay=%s hang=%v interim=%d upgrade=%v sse=%v events=%d -> client still waiting after %s", i, ex.Route, ex.Delay, ex.Hang, len(ex.Interim), ex.Upgrade, ex.SSE, len(ex.Events), r.SimElapsed())
			switch {
			case ex.Route == "blackhole":
				r.Fail("dial-timeout", c19SSEsig(ex, "never-released"), "upstream dial black-holed, dial timeout %s: the client is still waiting after %s", sc.DialTimeout, r.SimElapsed())
			case ex.Hang || ex.Delay > T:
				r.Fail("timeout", kind+"/never-released", "upstream (%s) without a final response header (delay %s hang %v, interim responses sent: %d), response-header timeout %s: the client is still waiting after %s", ex.Route, ex.Delay, ex.Hang, len(ex.Interim), T, r.SimElapsed())
			default:
				r.Fail("timeout", kind+"/in-time-not-served", "upstream (%s) answered after %s < timeout %s but the client is still waiting after %s", ex.Route, ex.Delay, T, r.SimElapsed())
			}
			continue
		}
		r.Tracef("exchange %d %s delay=%s hang=%v interim=%d upgrade=%v sse=%v events=%d -> status=%d err=%v elapsed=%s", i, ex.Route, ex.Delay, ex.Hang, len(ex.Interim), ex.Upgrade, ex.SSE, len(ex.Events), res.Status, res.Err, res.DoneAt.Sub(res.SentAt))
		if ex.Route == "blackhole" {
			r.Nontrivial()
			r.Probe("dial_blackholed")
			if ex.WS {
				// the websocket handler has taken the connection over before it dials: how it reports the failure
				// is not judged, only that the configured dial timeout releases the client
				r.Probe("websocket_dial_blackholed")
				if el := res.DoneAt.Sub(res.SentAt); el > sc.DialTimeout {
					r.Fail("dial-timeout", c19SSEsig(ex, "late"), "websocket upstream dial black-holed: client released after %s (status=%d err=%v), configured dial timeout %s", el, res.Status, res.Err, sc.DialTimeout)
				}
				continue
			}
			if res.Err != nil || (res.Status != 504 && res.Status != 502) {
				r.Fail("dial-timeout", c19SSEsig(ex, "no-gateway-error"), "upstream dial black-holed, dial timeout %s: client got status=%d err=%v", sc.DialTimeout, res.Status, res.Err)
			} else if el := res.DoneAt.Sub(res.SentAt); el > sc.DialTimeout {
				r.Fail("dial-timeout", c19SSEsig(ex, "late"), "upstream dial black-holed: gateway error after %s, configured dial timeout %s", el, sc.DialTimeout)
			}
			continue
		}
		if len(seen) == 0 {
			r.Fail("timeout", "not-forwarded", "exchange %d (%s) never reached its upstream: status=%d err=%v", i, ex.Route, res.Status, res.Err)
			continue
		}
		late := ex.Hang || ex.Delay > T
		if late {
			r.Nontrivial()
			r.Probe("upstream_slower_than_timeout")
			if len(ex.Interim) > 0 {
				// an interim response is not the answer: the limit runs to the final response header
				r.Probe("interim_then_slower_than_timeout")
			}
			if res.Err != nil || res.Status != 504 {
				r.Fail("timeout", kind+"/no-504", "upstream (%s) without a final response header for longer than response-header timeout %s (delay %s hang %v, interim responses sent: %d): client got status=%d err=%v after %s", ex.Route, T, ex.Delay, ex.Hang, len(ex.Interim), res.Status, res.Err, res.DoneAt.Sub(seen[0].At))
			} else if el := res.DoneAt.Sub(seen[0].At); el > T {
				r.Fail("timeout", kind+"/late-504", "504 arrived %s after the upstream received the request, configured timeout %s", el, T)
			} else if el := res.DoneAt.Sub(res.SentAt); el > T {
				// the simulated network adds no latency, so the client's own wait is bounded by the timeout as well
				r.Fail("timeout", kind+"/client-held-longer", "the client was held for %s, configured response-header timeout %s (no simulated network latency)", el, T)
			}
		} else {
			r.Probe("upstream_in_time")
			if len(ex.Interim) > 0 {
				r.Probe("interim_then_in_time")
			}
			if ex.Upgrade {
				r.Probe("upgrade_in_time")
			}
			if ex.SlowUpload {
				r.Probe("slow_upload_in_time")
			}
			if len(ex.Events) > 0 {
				// narrow reading: the events must reach the client completely and unaltered by the time the stream
				// has ended; when each of them is flushed towards the client is not judged
				r.Probe("event_stream_in_time")
			} else if ex.SSE {
				r.Probe("accept_event_stream_ordinary_reply")
			}
			if ex.Upgrade && res.Err == nil && res.Status == 101 && (res.BodyErr != nil || string(res.Body) != string(reqs[i].Resp.Body)) {
				r.Fail("timeout", kind+"/tunnel-cut", "upstream (%s) switched protocols after %s < timeout %s, but the tunnel did not carry the data exchanged during the next %s: echoed %q of %q, err=%v", ex.Route, ex.Delay, T, sc.DialTimeout+T, res.Body, reqs[i].Resp.Body, res.BodyErr)
			} else if res.Err != nil || res.BodyErr != nil || res.Status != reqs[i].Resp.Status || string(res.Body) != string(reqs[i].Resp.Body) {
				r.Fail("timeout", kind+"/in-time-not-served", "upstream (%s) answered %d after %s < timeout %s (interim responses first: %d) but the client got status=%d err=%v body=%d/%d body-err=%v", ex.Route, reqs[i].Resp.Status, ex.Delay, T, len(ex.Interim), res.Status, res.Err, len(res.Body), len(reqs[i].Resp.Body), res.BodyErr)
			}
		}
	}
	// dial parameters observed at the dial seam
	for _, dr := range e.net.DialLog {
		if dr.Timeout != sc.DialTimeout {
			r.Fail("dial-params", "timeout", "dial to %s used timeout %s, configured %s", dr.Key, dr.Timeout, sc.DialTimeout)
		}
		if dr.KeepAlive != sc.KeepAliveTimeout {
			r.Fail("dial-params", "keepalive", "dial to %s used keep-alive %s, configured %s", dr.Key, dr.KeepAlive, sc.KeepAliveTimeout)
		}
	}

	if !finished {
		return
	}

	// burst: more concurrent requests than MaxConn to one upstream, then count idle connections
	if sc.Burst > 0 {
		var ids []string
		for i := 0; i < sc.Burst; i++ {
			rq := h2Req{ID: fmt.Sprintf("b%d", i), Method: "GET", Path: "/" + sc.BurstRoute + "/r", Host: "fabio.sim", Headers: []h2Header{{"Accept-Encoding", "identity"}},
				Resp: h2Resp{Status: 200, Body: []byte("ok"), Delay: 10 * time.Millisecond}}
			if sc.BurstSSE {
				rq.Headers = append(rq.Headers, h2Header{"Accept", "text/event-stream"})
			}
			ids = append(ids, rq.ID)
			e.client(&h2Client{Addr: fmt.Sprintf("192.0.2.%d:6000", 50+i), Reqs: []h2Req{rq}})
		}
		if !e.run(40000, 40*time.Minute) {
			r.Trouble("burst clients did not finish")
			return
		}
		for _, id := range ids {
			if res := e.results[id]; res.Status != 200 {
				r.Fail("burst", "request-failed", "burst request %s: status=%d err=%v", id, res.Status, res.Err)
			}
		}
		// connections of this transport that are idle now: the ones the burst opened (or reused) and that are still open
		open := 0
		for _, c := range e.net.Conns(c19Keys[sc.BurstRoute]) {
			if !c.IsClosed() {
				open++
			}
		}
		r.Tracef("burst %d sse=%v -> %d idle upstream connections (max %d)", sc.Burst, sc.BurstSSE, open, sc.MaxConn)
		r.Nontrivial()
		r.Probe("burst_above_maxconn")
		if open > sc.MaxConn {
			r.Fail("maxconn", "idle-conns", "after a burst of %d requests %d idle connections to the upstream remain, configured maximum per host %d", sc.Burst, open, sc.MaxConn)
		}
	}

	// idle timeout: every connection the proxy still holds to an upstream is closed once idle for IdleConnTimeout
	// first let everything in flight (orphaned speculative dials, TLS handshakes) settle
	e.d.Run(5000, func() bool { return !e.net.Pending() })
	idleStart := time.Now()
	e.d.Advance(sc.IdleConnTimeout)
	e.d.Run(2000, func() bool { return !e.net.Pending() })
	for key, k := range c19Keys {
		if key == "blackhole" {
			continue
		}
		for _, c := range e.net.Conns(k) {
			if !c.IsClosed() {
				r.Fail("idle-timeout", "still-open", "connection to %s still open %s after its last use, configured idle timeout %s", k, time.Since(idleStart), sc.IdleConnTimeout)
			}
		}
	}
	r.Probe("idle_timeout_checked")
}

// c19Upstream starts a raw recording upstream under key which plays, per request id, the reply of the h2 script
// (status, headers, body, delay, never, pieces with pauses) and the extras of the C19 exchange: interim responses,
// trailers, protocol switch.
func c19Upstream(e *h2Env, key string, tlscfg *tls.Config, scripts map[string]*c19Exchange) {
	ln, err := e.net.Listen(key, simnet.ListenOpts{})
	if err != nil {
		e.r.Trouble("listen %s: %v", key, err)
		e.r.Abort()
	}
	go func() {
		for {
			raw, err := ln.Accept()
			if err != nil {
				return
			}
			var c net.Conn = raw
			if tlscfg != nil {
				c = tls.Server(raw, tlscfg)
			}
			go c19ServeUpstream(e, key, c, scripts)
		}
	}()
}

func c19RenderInterim(in c19Interim, n int) string {
	var b strings.Builder
	fmt.Fprintf(&b, "HTTP/1.1 %d %s\r\n", in.Code, http.StatusText(in.Code))
	if in.Headers {
		if in.Code == 103 {
			fmt.Fprintf(&b, "Link: </style%d.css>; rel=preload\r\n", n)
		}
		fmt.Fprintf(&b, "X-C19-Interim: %d\r\n", n)
	}
	b.WriteString("\r\n")
	return b.String()
}

func c19ServeUpstream(e *h2Env, key string, c net.Conn, scripts map[string]*c19Exchange) {
	defer c.Close()
	br := bufio.NewReader(c)
	// sleep lets d of simulated time pass (false: the run is over)
	sleep := func(d time.Duration) bool {
		if d <= 0 {
			return true
		}
		e.d.Hint(time.Now().Add(d))
		select {
		case <-time.After(d):
			return true
		case <-e.stop:
			return false
		}
	}
	for {
		req, err := http.ReadRequest(br)
		if err != nil {
			return
		}
		id := req.Header.Get("X-Sim-Id")
		e.mu.Lock()
		sc := e.script[id]
		ex := scripts[id]
		onSeen := e.onSeen
		e.mu.Unlock()
		if ex == nil {
			ex = &c19Exchange{}
		}
		for n, in := range ex.Interim {
			if in.AtHead {
				if _, err := io.WriteString(c, c19RenderInterim(in, n)); err != nil {
					return
				}
			}
		}
		body, berr := io.ReadAll(req.Body)
		s := &h2Seen{Upstream: key, Method: req.Method, RequestURI: req.RequestURI, Proto: req.Proto, Host: req.Host,
			Header: req.Header.Clone(), Body: body, BodyErr: berr, TE: req.TransferEncoding, CL: req.ContentLength,
			At: time.Now(), Remote: c.RemoteAddr().String()}
		e.mu.Lock()
		e.seen[id] = append(e.seen[id], s)
		e.mu.Unlock()
		if onSeen != nil {
			onSeen(s)
		}
		e.r.Tracef("upstream %s got %s %s id=%s body=%d", key, req.Method, req.RequestURI, id, len(body))
		if sc == nil {
			io.WriteString(c, "HTTP/1.1 599 unscripted\r\nContent-Length: 0\r\n\r\n")
			continue
		}
		rs := sc.Resp
		for n, in := range ex.Interim {
			if in.AtHead {
				continue
			}
			if !sleep(in.At - time.Since(s.At)) {
				return
			}
			if _, err := io.WriteString(c, c19RenderInterim(in, n)); err != nil {
				return
			}
		}
		if rs.Hang {
			// no final header ever; wait until the proxy gives up and closes
			io.Copy(io.Discard, br)
			return
		}
		if !sleep(rs.Delay - time.Since(s.At)) {
			return
		}
		if ex.Upgrade {
			if _, err := fmt.Fprintf(c, "HTTP/1.1 101 Switching Protocols\r\nConnection: Upgrade\r\nUpgrade: %s\r\n\r\n", req.Header.Get("Upgrade")); err != nil {
				return
			}
			io.Copy(c, br) // the new protocol: echo until the proxy ends the tunnel
			return
		}
		if len(ex.Events) > 0 {
			// an event stream: no Content-Length, as real servers send it. For a reply of unknown length (and for
			// this Content-Type) httputil.ReverseProxy flushes after every write and arms an immediate flush timer
			// when it starts to copy; that timer goroutine races the copy loop in real time if body bytes are at hand
			// already (DESIGN 10.3). Every piece, the first one too, follows a pause > 0, so the head has been
			// delivered, copied and flushed before the next byte exists
			var b bytes.Buffer
			fmt.Fprintf(&b, "HTTP/1.1 %d %s\r\n", rs.Status, http.StatusText(rs.Status))
			for _, h := range rs.Headers {
				fmt.Fprintf(&b, "%s: %s\r\n", h.K, h.V)
			}
			chunked := ex.StreamEnd != "close"
			if chunked {
				b.WriteString("Transfer-Encoding: chunked\r\n\r\n")
			} else {
				b.WriteString("Connection: close\r\n\r\n")
			}
			if _, err := c.Write(b.Bytes()); err != nil {
				return
			}
			for i, p := range ex.Events {
				if !sleep(p.Pause) {
					return
				}
				out := p.data
				if chunked {
					out = []byte(fmt.Sprintf("%x\r\n%s\r\n", len(p.data), p.data))
					if i == len(ex.Events)-1 && ex.EndPause == 0 {
						out = append(out, "0\r\n\r\n"...)
					}
				}
				if _, err := c.Write(out); err != nil {
					return
				}
			}
			if !chunked {
				return // the end of the connection ends the stream
			}
			if ex.EndPause > 0 {
				if !sleep(ex.EndPause) {
					return
				}
				if _, err := io.WriteString(c, "0\r\n\r\n"); err != nil {
					return
				}
			}
			continue
		}
		// the reply as a head and pieces, with a pause before each piece
		var head []byte
		var pieces [][]byte
		if ex.Trailers {
			var b bytes.Buffer
			fmt.Fprintf(&b, "HTTP/1.1 %d %s\r\n", rs.Status, http.StatusText(rs.Status))
			for _, h := range rs.Headers {
				fmt.Fprintf(&b, "%s: %s\r\n", h.K, h.V)
			}
			b.WriteString("Trailer: X-C19-Length\r\nTransfer-Encoding: chunked\r\n\r\n")
			head = append(head, b.Bytes()...)
			rest := rs.Body
			np := len(rs.Chunks)
			if np == 0 {
				np = 1
			}
			for i := 0; i < np && len(rest) > 0; i++ {
				n := len(rest) / (np - i)
				if i == np-1 || n == 0 {
					n = len(rest)
				}
				pieces = append(pieces, []byte(fmt.Sprintf("%x\r\n%s\r\n", n, rest[:n])))
				rest = rest[n:]
			}
			pieces = append(pieces, []byte(fmt.Sprintf("0\r\nX-C19-Length: %d\r\n\r\n", len(rs.Body))))
		} else {
			raw := h2RenderResponse(req.Method, &rs)
			if rs.BodyPause > 0 {
				hl := bytes.Index(raw, []byte("\r\n\r\n")) + 4
				head = raw[:hl]
				rest := raw[hl:]
				np := len(rs.Chunks)
				if np == 0 {
					np = 1
				}
				for i := 0; i < np; i++ {
					n := len(rest) / (np - i)
					if i == np-1 {
						n = len(rest)
					}
					pieces = append(pieces, rest[:n])
					rest = rest[n:]
				}
			} else {
				head = raw
			}
		}
		if _, err := c.Write(head); err != nil {
			return
		}
		for _, p := range pieces {
			if !sleep(rs.BodyPause) {
				return
			}
			if _, err := c.Write(p); err != nil {
				return
			}
		}
	}
}

// c19SSEsig marks the signature of a violation seen on a request that accepts an event stream.
func c19SSEsig(ex c19Exchange, sig string) string {
	if ex.SSE {
		return "sse-" + sig
	}
	return sig
}

func c19TunnelLine(id string, n int) string { return fmt.Sprintf("data %d of %s\n", n, id) }

// c19Client is a raw client for the exchanges the h2 client cannot play: it sends the request body in pieces with
// pauses (after waiting for the interim "100 Continue" when the request asks for one) and, after a protocol
// switch, keeps the tunnel and exchanges data over it. h2Result.SentAt is the instant the request was written
// completely; for a tunnel Body is what came back through it.
func c19Client(e *h2Env, addr string, rq *h2Req, ex *c19Exchange, pause time.Duration) {
	res := &h2Result{}
	e.mu.Lock()
	e.clients++
	e.script[rq.ID] = rq
	e.results[rq.ID] = res
	e.mu.Unlock()
	sleep := func(d time.Duration) bool {
		e.d.Hint(time.Now().Add(d))
		select {
		case <-time.After(d):
			return true
		case <-e.stop:
			return false
		}
	}
	go func() {
		defer func() {
			if res.DoneAt.IsZero() && res.Err != nil {
				// released without a complete answer (connection closed)
				select {
				case <-e.stop: // torn down while still waiting
				default:
					res.DoneAt = time.Now()
					e.r.Tracef("client %s id=%s released without an answer: %v", addr, rq.ID, res.Err)
				}
			}
			e.mu.Lock()
			e.done++
			e.mu.Unlock()
		}()
		c, err := e.net.Dial(e.r.Ctx(), e.netAddr(addr), h2FabioAddr, 0)
		if err != nil {
			res.Err = err
			return
		}
		defer c.Close()
		br := bufio.NewReader(c)
		raw := h2RenderRequest(rq)
		hl := bytes.Index(raw, []byte("\r\n\r\n")) + 4
		res.SentAt = time.Now()
		e.r.Tracef("client %s sends %s %s id=%s", addr, rq.Method, rq.Path, rq.ID)
		if _, err := c.Write(raw[:hl]); err != nil {
			res.Err = err
			return
		}
		var resp *http.Response
		if rest := raw[hl:]; ex.SlowUpload && len(rest) > 0 {
			if ex.Expect {
				// a client that means its Expect header waits for the go-ahead (or for a final answer)
				for {
					resp, err = http.ReadResponse(br, &http.Request{Method: rq.Method})
					if err != nil {
						res.Err = err
						return
					}
					if resp.StatusCode < 100 || resp.StatusCode >= 200 || resp.StatusCode == 101 {
						break // a final answer instead of the go-ahead: the body is not sent
					}
					res.Interim = append(res.Interim, resp.StatusCode)
					if resp.StatusCode == 100 {
						resp = nil
						break
					}
				}
			}
			for i := 0; i < 2 && resp == nil; i++ {
				if !sleep(pause) {
					return
				}
				n := len(rest) / (2 - i)
				if _, err := c.Write(rest[:n]); err != nil {
					res.Err = err
					return
				}
				rest = rest[n:]
			}
			res.SentAt = time.Now()
		} else if _, err := c.Write(rest); err != nil {
			res.Err = err
			return
		}
		for resp == nil || (resp.StatusCode >= 100 && resp.StatusCode < 200 && resp.StatusCode != 101) {
			if resp != nil {
				res.Interim = append(res.Interim, resp.StatusCode)
			}
			resp, err = http.ReadResponse(br, &http.Request{Method: rq.Method})
			if err != nil {
				res.Err = err
				return
			}
		}
		res.HeaderAt = time.Now()
		res.Status, res.Proto, res.Header = resp.StatusCode, resp.Proto, resp.Header.Clone()
		res.TE, res.CL = resp.TransferEncoding, resp.ContentLength
		if ex.Upgrade && resp.StatusCode == 101 {
			e.r.Tracef("client %s got %d id=%s", addr, res.Status, rq.ID)
			for n := 1; n <= 2; n++ {
				if !sleep(pause) {
					return
				}
				line := c19TunnelLine(rq.ID, n)
				if _, err := io.WriteString(c, line); err != nil {
					res.BodyErr = err
					break
				}
				back, err := br.ReadString('\n')
				res.Body = append(res.Body, back...)
				if err != nil {
					res.BodyErr = err
					break
				}
			}
			res.DoneAt = time.Now()
			e.r.Tracef("client %s leaves the tunnel id=%s echoed=%d err=%v", addr, rq.ID, len(res.Body), res.BodyErr)
			return
		}
		res.Body, res.BodyErr = io.ReadAll(resp.Body)
		res.DoneAt = time.Now()
		e.r.Tracef("client %s got %d id=%s body=%d err=%v", addr, res.Status, rq.ID, len(res.Body), res.BodyErr)
	}()
}

//go:build verif

package main

// C19 — configured upstream time limits are enforced.
//
// H2 with PRNG-chosen values of the five proxy transport options, wired as
// main does (transport.SetConfig, then tables and proxies). Upstreams delay
// their response headers relative to the configured timeout, black-hole the
// dial, or answer and stay idle; the simulated clock gives exact timings.

import (
	"crypto/tls"
	"fmt"
	"strings"
	"time"

	"github.com/fabiolb/fabio/config"
	"github.com/fabiolb/fabio/internal/zzverif/simcore"
	"github.com/fabiolb/fabio/internal/zzverif/simnet"
)

func init() {
	zzHarnesses = append(zzHarnesses, &simcore.Harness{Name: "c19", Props: []string{"C19"}, Run: runC19})
}

type c19Exchange struct {
	Route string        `json:"route"` // default | skipverify | perroute | blackhole
	Delay time.Duration `json:"upstream_delay"`
	Hang  bool          `json:"upstream_never_answers,omitempty"`
	Body  int           `json:"body"`
	// Upload: the request is a POST with a body and, when Expect is set, an "Expect: 100-continue" header.
	// SlowBody: the upstream answers its head in time and then streams the body in pieces with pauses; the whole
	// exchange lasts longer than dial timeout + response-header timeout
	SlowBody bool `json:"slow_body,omitempty"`
	Upload   int  `json:"upload_bytes,omitempty"`
	Expect   bool `json:"expect_100_continue,omitempty"`
}

type c19Scenario struct {
	ResponseHeaderTimeout time.Duration `json:"response_header_timeout"`
	DialTimeout           time.Duration `json:"dial_timeout"`
	KeepAliveTimeout      time.Duration `json:"keepalive_timeout"`
	IdleConnTimeout       time.Duration `json:"idle_conn_timeout"`
	MaxConn               int           `json:"max_conn"`
	Exchanges             []c19Exchange `json:"exchanges"`
	Burst                 int           `json:"burst"` // concurrent requests to one upstream (0: none)
	BurstRoute            string        `json:"burst_route,omitempty"`
}

var c19Keys = map[string]string{"default": "up0.sim:80", "skipverify": "up1.sim:443", "perroute": "up2.sim:443", "blackhole": "up3.sim:80", "burst": "up4.sim:80"}

func runC19(r *simcore.Run) {
	g := r.Gen
	sc := &c19Scenario{}
	sc.ResponseHeaderTimeout = simcore.Pick(g, []time.Duration{time.Second, 50 * time.Millisecond, 5 * time.Second, 30 * time.Second, 2 * time.Minute})
	sc.DialTimeout = simcore.Pick(g, []time.Duration{2 * time.Second, 100 * time.Millisecond, 30 * time.Second})
	sc.KeepAliveTimeout = simcore.Pick(g, []time.Duration{15 * time.Second, time.Second, 3 * time.Minute})
	sc.IdleConnTimeout = simcore.Pick(g, []time.Duration{10 * time.Second, time.Second, 90 * time.Second})
	sc.MaxConn = g.Range(1, 4)
	T := sc.ResponseHeaderTimeout
	nex := g.Range(1, 3)
	for i := 0; i < nex; i++ {
		ex := c19Exchange{Route: simcore.Pick(g, []string{"default", "default", "skipverify", "perroute", "blackhole"}), Body: g.Range(0, 2000)}
		switch g.Intn(6) {
		case 0:
			ex.Delay = 0
		case 1:
			ex.Delay = T / 2
		case 2:
			ex.Delay = T - time.Millisecond
		case 3:
			ex.Delay = T + time.Millisecond
		case 4:
			ex.Delay = 3 * T
		case 5:
			ex.Hang = true
		}
		if g.Chance(30) {
			ex.Upload = g.Range(1, 3000)
			ex.Expect = g.Chance(60)
		}
		if !ex.Hang && ex.Delay < T && ex.Route != "blackhole" && g.Chance(25) {
			ex.SlowBody = true
			if ex.Body < 8 {
				ex.Body = 8
			}
		}
		sc.Exchanges = append(sc.Exchanges, ex)
	}
	if g.Chance(40) {
		sc.Burst = sc.MaxConn + g.Range(1, 3)
		sc.BurstRoute = simcore.Pick(g, []string{"burst", "perroute", "skipverify"})
	}
	r.SetSample(sc)

	cfg := &config.Config{}
	cfg.Proxy.Strategy = "rnd"
	cfg.Proxy.Matcher = "prefix"
	cfg.Proxy.NoRouteStatus = 404
	cfg.GlobCacheSize = 100
	cfg.Proxy.ResponseHeaderTimeout = sc.ResponseHeaderTimeout
	cfg.Proxy.DialTimeout = sc.DialTimeout
	cfg.Proxy.KeepAliveTimeout = sc.KeepAliveTimeout
	cfg.Proxy.IdleConnTimeout = sc.IdleConnTimeout
	cfg.Proxy.MaxConn = sc.MaxConn
	table := strings.Join([]string{
		"route add s0 /default http://up0.sim:80/",
		"route add s1 /skipverify https://up1.sim:443/ opts \"tlsskipverify=true\"",
		"route add s2 /perroute https://up2.sim:443/ opts \"host=svc.internal tlsskipverify=true\"",
		"route add s3 /blackhole http://up3.sim:80/",
		"route add s4 /burst http://up4.sim:80/",
	}, "\n")
	e := h2NewEnv(r, cfg, table)
	defer e.finish()
	e.serve(nil)
	upTLS := &tls.Config{Certificates: []tls.Certificate{zzSelfSigned()}}
	e.upstream(c19Keys["default"], simnet.ListenOpts{}, nil)
	e.upstream(c19Keys["skipverify"], simnet.ListenOpts{}, upTLS)
	e.upstream(c19Keys["perroute"], simnet.ListenOpts{}, upTLS)
	e.upstream(c19Keys["burst"], simnet.ListenOpts{}, nil)
	e.net.Blackhole(c19Keys["blackhole"], true)

	// sequential exchanges, one client connection each
	var reqs []*h2Req
	for i, ex := range sc.Exchanges {
		rq := h2Req{ID: fmt.Sprintf("x%d", i), Method: "GET", Path: "/" + ex.Route + "/r", Host: "fabio.sim",
			Headers: []h2Header{{"Accept-Encoding", "identity"}},
			Resp:    h2Resp{Status: 200, Body: g.Bytes(ex.Body), Delay: ex.Delay, Hang: ex.Hang, Headers: []h2Header{{"Content-Type", "application/octet-stream"}}}}
		if ex.SlowBody {
			// four pieces, each after a pause of (dial timeout + response-header timeout)/2: the head is in time, the body is not "fast"
			rq.Resp.Chunks = []int{1, 1, 1, 1}
			rq.Resp.BodyPause = (sc.DialTimeout + sc.ResponseHeaderTimeout) / 2
		}
		if ex.Upload > 0 {
			rq.Method = "POST"
			rq.Body = g.Bytes(ex.Upload)
			if ex.Expect {
				rq.Headers = append(rq.Headers, h2Header{"Expect", "100-continue"})
			}
		}
		cl := &h2Client{Addr: fmt.Sprintf("192.0.2.%d:5000", 10+i), Reqs: []h2Req{rq}}
		e.client(cl)
		reqs = append(reqs, &cl.Reqs[0])
		// the response-header timer of the transport starts when the request has been written;
		// tell the idle driver about the configured instants
		if ex.Route == "blackhole" {
			e.d.Hint(time.Now().Add(sc.DialTimeout))
		}
	}
	// hints for the response-header timeout are added when the upstream records the request
	e.onSeen = func(s *h2Seen) { e.d.Hint(s.At.Add(T)) }
	if !e.run(20000, 20*time.Minute) {
		r.Trouble("clients did not finish: %v", e.d.Sim.TaskStates())
		return
	}
	for i, ex := range sc.Exchanges {
		res := e.results[reqs[i].ID]
		seen := e.seen[reqs[i].ID]
		r.Tracef("exchange %d %s delay=%s hang=%v -> status=%d err=%v elapsed=%s", i, ex.Route, ex.Delay, ex.Hang, res.Status, res.Err, res.DoneAt.Sub(res.SentAt))
		if ex.Route == "blackhole" {
			r.Nontrivial()
			r.Probe("dial_blackholed")
			if res.Err != nil || (res.Status != 504 && res.Status != 502) {
				r.Fail("dial-timeout", "no-gateway-error", "upstream dial black-holed, dial timeout %s: client got status=%d err=%v", sc.DialTimeout, res.Status, res.Err)
			} else if el := res.DoneAt.Sub(res.SentAt); el > sc.DialTimeout {
				r.Fail("dial-timeout", "late", "upstream dial black-holed: gateway error after %s, configured dial timeout %s", el, sc.DialTimeout)
			}
			continue
		}
		if len(seen) == 0 {
			r.Fail("timeout", "not-forwarded", "exchange %d (%s) never reached its upstream: status=%d err=%v", i, ex.Route, res.Status, res.Err)
			continue
		}
		late := ex.Hang || ex.Delay > T
		if late {
			r.Nontrivial()
			r.Probe("upstream_slower_than_timeout")
			if res.Err != nil || res.Status != 504 {
				r.Fail("timeout", ex.Route+"/no-504", "upstream (%s) silent for longer than response-header timeout %s (delay %s hang %v): client got status=%d err=%v after %s", ex.Route, T, ex.Delay, ex.Hang, res.Status, res.Err, res.DoneAt.Sub(seen[0].At))
			} else if el := res.DoneAt.Sub(seen[0].At); el > T {
				r.Fail("timeout", ex.Route+"/late-504", "504 arrived %s after the upstream received the request, configured timeout %s", el, T)
			} else if el := res.DoneAt.Sub(res.SentAt); el > T {
				// the simulated network adds no latency, so the client's own wait is bounded by the timeout as well
				r.Fail("timeout", ex.Route+"/client-held-longer", "the client was held for %s, configured response-header timeout %s (no simulated network latency)", el, T)
			}
		} else {
			r.Probe("upstream_in_time")
			if res.Err != nil || res.Status != 200 || string(res.Body) != string(reqs[i].Resp.Body) {
				r.Fail("timeout", ex.Route+"/in-time-not-served", "upstream (%s) answered after %s < timeout %s but the client got status=%d err=%v body=%d/%d", ex.Route, ex.Delay, T, res.Status, res.Err, len(res.Body), len(reqs[i].Resp.Body))
			}
		}
	}
	// dial parameters observed at the dial seam
	for _, dr := range e.net.DialLog {
		if dr.Timeout != sc.DialTimeout {
			r.Fail("dial-params", "timeout", "dial to %s used timeout %s, configured %s", dr.Key, dr.Timeout, sc.DialTimeout)
		}
		if dr.KeepAlive != sc.KeepAliveTimeout {
			r.Fail("dial-params", "keepalive", "dial to %s used keep-alive %s, configured %s", dr.Key, dr.KeepAlive, sc.KeepAliveTimeout)
		}
	}

	// burst: more concurrent requests than MaxConn to one upstream, then count idle connections
	if sc.Burst > 0 {
		var ids []string
		for i := 0; i < sc.Burst; i++ {
			rq := h2Req{ID: fmt.Sprintf("b%d", i), Method: "GET", Path: "/" + sc.BurstRoute + "/r", Host: "fabio.sim", Headers: []h2Header{{"Accept-Encoding", "identity"}},
				Resp: h2Resp{Status: 200, Body: []byte("ok"), Delay: 10 * time.Millisecond}}
			ids = append(ids, rq.ID)
			e.client(&h2Client{Addr: fmt.Sprintf("192.0.2.%d:6000", 50+i), Reqs: []h2Req{rq}})
		}
		if !e.run(40000, 40*time.Minute) {
			r.Trouble("burst clients did not finish")
			return
		}
		for _, id := range ids {
			if res := e.results[id]; res.Status != 200 {
				r.Fail("burst", "request-failed", "burst request %s: status=%d err=%v", id, res.Status, res.Err)
			}
		}
		// connections of this transport that are idle now: the ones the burst opened (or reused) and that are still open
		open := 0
		for _, c := range e.net.Conns(c19Keys[sc.BurstRoute]) {
			if !c.IsClosed() {
				open++
			}
		}
		r.Tracef("burst %d -> %d idle upstream connections (max %d)", sc.Burst, open, sc.MaxConn)
		r.Nontrivial()
		r.Probe("burst_above_maxconn")
		if open > sc.MaxConn {
			r.Fail("maxconn", "idle-conns", "after a burst of %d requests %d idle connections to the upstream remain, configured maximum per host %d", sc.Burst, open, sc.MaxConn)
		}
	}

	// idle timeout: every connection the proxy still holds to an upstream is closed once idle for IdleConnTimeout
	// first let everything in flight (orphaned speculative dials, TLS handshakes) settle
	e.d.Run(5000, func() bool { return !e.net.Pending() })
	idleStart := time.Now()
	e.d.Advance(sc.IdleConnTimeout)
	e.d.Run(2000, func() bool { return !e.net.Pending() })
	for key, k := range c19Keys {
		if key == "blackhole" {
			continue
		}
		for _, c := range e.net.Conns(k) {
			if !c.IsClosed() {
				r.Fail("idle-timeout", "still-open", "connection to %s still open %s after its last use, configured idle timeout %s", k, time.Since(idleStart), sc.IdleConnTimeout)
			}
		}
	}
	r.Probe("idle_timeout_checked")
}

//go:build verif

package main

// C01 — the routing table holds exactly the healthy, tagged service instances.

import (
	"bytes"
	"fmt"
	"net"
	"sort"
	"strconv"
	"strings"
	"time"

	"github.com/fabiolb/fabio/config"
	"github.com/fabiolb/fabio/internal/zzverif/simconsul"
	"github.com/fabiolb/fabio/internal/zzverif/simcore"
	"github.com/fabiolb/fabio/route"
	"github.com/hashicorp/consul/api"
)

func init() {
	zzHarnesses = append(zzHarnesses, &simcore.Harness{Name: "c01", Props: []string{"C01"}, Run: runC01})
}

type c01Op struct {
	Kind   string              `json:"kind"`
	Inst   *simconsul.Instance `json:"instance,omitempty"`
	Node   string              `json:"node,omitempty"`
	ID     string              `json:"id,omitempty"`
	Check  string              `json:"check,omitempty"`
	Status string              `json:"status,omitempty"`
	On     bool                `json:"on,omitempty"`
	Key    string              `json:"key,omitempty"`
	Value  string              `json:"value,omitempty"`
}

type c01Scenario struct {
	Status   []string             `json:"accepted_status"`
	Strict   bool                 `json:"checks_required_all"`
	Monitors int                  `json:"service_monitors"`
	Poll     time.Duration        `json:"poll_interval"`
	Nodes    []simconsul.Node     `json:"nodes"`
	Initial  []simconsul.Instance `json:"initial_instances"`
	KV       map[string]string    `json:"initial_kv,omitempty"`
	Ops      []c01Op              `json:"ops"`
	Faults   bool                 `json:"consul_faults"`
	Shuffle  bool                 `json:"health_reply_order_shuffled"`
	// Interleave: the goroutines makeConfig starts per service are scheduled statement by statement
	Interleave bool `json:"makeconfig_interleaved"`
	// Holds: after its k-th receive watchBackend is busy (receives from neither watcher) for Holds[k mod len] further
	// semantic events (registry changes applied, Consul replies delivered), or until nothing else can happen. Empty: never busy.
	Holds []int `json:"consumer_busy_events,omitempty"`
	// HoldTime: a busy period that outlasts everything else that can happen also lasts that long on the simulated clock
	HoldTime time.Duration `json:"consumer_busy_time,omitempty"`
	// FaultTail: with Consul faults, that many further replies may still fail after the last change (the last view of
	// the registry may be one that lost a lookup: only fabio's own re-reading repairs that)
	FaultTail int `json:"faulty_replies_after_last_change,omitempty"`
	// Ticks: simulated time may pass between the changes (steps of 0.5-2 s)
	Ticks bool `json:"clock_ticks_between_changes,omitempty"`
}

// c01PromptWindow: how much simulated time a quiet stretch uses before the prompt-convergence rule is evaluated (after
// the last change; a fifth of it between changes). It covers fabio's retry pauses and poll intervals and is far below
// the wait limit of a Consul blocking query: a config that was lost on the way is not papered over by the environment
// delivering the same state once more.
const c01PromptWindow = 30 * time.Second

const c01Prefix = "urlprefix-"

var c01NodeNames = []string{"n1", "n-2", "a.b", "a"}
var c01SvcNames = []string{"web", "api", "svc.x"}
var c01IDs = []string{"web-1", "web-2", "b.c", "c", "api-1", "x"}
var c01RouteTags = []string{
	"urlprefix-/web", "urlprefix-WWW.Example.com/path", "urlprefix-/strip strip=/strip", "urlprefix-:3306 proto=tcp",
	"urlprefix-/s proto=https tlsskipverify=true", "urlprefix-/h host=dst", "urlprefix-/g proto=grpc", "urlprefix-/w weight=0.25",
	"urlprefix-/r redirect=301,https://new.example.com/", "urlprefix-api.example.com/", "  urlprefix-/spaced  ",
}
var c01PlainTags = []string{"v1", "blue", "lang=go"}
var c01Statuses = []string{"passing", "critical", "warning", "passing", "unknown"}
var c01KVValues = []string{
	"route add manual /manual http://9.9.9.9:99/",
	"# comment\nroute add m2 m.example.com/ http://9.9.9.8:98/ opts \"strip=/x\"",
	"route del web",
	"route del api /none",
	"route add web /web http://9.9.9.7:97/ tags \"manual\"",
	"",
	// operator weights for service routes: while the service has a healthy instance they apply to it, and when its
	// last instance has gone they have nothing to apply to (see c01Applicable)
	"route weight web /web weight 0.3",
	"route weight api api.example.com/ weight 0.5",
}

func c01GenInstance(g *simcore.Tape, nodes []simconsul.Node, tagged bool) *simconsul.Instance {
	in := &simconsul.Instance{Node: simcore.Pick(g, nodes).Name, ID: simcore.Pick(g, c01IDs), Name: simcore.Pick(g, c01SvcNames),
		Addr: simcore.Pick(g, []string{"10.1.0.5", "", "10.1.0.6", "fd00::5"}), Port: simcore.Pick(g, []int{8080, 80, 9090, 0})}
	if tagged {
		n := g.Range(1, 2)
		for i := 0; i < n; i++ {
			in.Tags = append(in.Tags, simcore.Pick(g, c01RouteTags))
		}
	} else {
		in.Name = "untagged"
	}
	if g.Chance(40) {
		in.Tags = append(in.Tags, simcore.Pick(g, c01PlainTags))
	}
	nc := g.Range(1, 3)
	if g.Chance(10) {
		nc = 0
	}
	for i := 0; i < nc; i++ {
		id := "service:" + in.ID
		if i > 0 {
			id += ":" + strconv.Itoa(i+1)
		}
		in.Checks = append(in.Checks, simconsul.Check{ID: id, Status: simcore.Pick(g, c01Statuses)})
	}
	return in
}

func c01Gen(g *simcore.Tape, thorough bool) *c01Scenario {
	sc := &c01Scenario{KV: map[string]string{}}
	sc.Status = simcore.Pick(g, [][]string{{"passing"}, {"passing", "warning"}, {"passing", "warning", "critical"}, {"warning"}})
	sc.Strict = g.Chance(35)
	sc.Monitors = g.Range(1, 4)
	sc.Poll = simcore.Pick(g, []time.Duration{0, 0, 2 * time.Second, 0, 2 * time.Second})
	nn := g.Range(1, 3)
	for i := 0; i < nn; i++ {
		// node addresses: IPv4 (value 0) or an IPv6 literal (a service registered without an address of its own is
		// reached at its node's address, which then has to be bracketed in the target URL)
		addr := fmt.Sprintf(simcore.Pick(g, []string{"10.0.0.%d", "10.0.0.%d", "2001:db8::%x", "fd00::%x"}), 11+i)
		sc.Nodes = append(sc.Nodes, simconsul.Node{Name: c01NodeNames[(i+g.Intn(2))%len(c01NodeNames)], Addr: addr, Serf: "passing"})
	}
	// distinct node names
	seen := map[string]bool{}
	var nodes []simconsul.Node
	for _, n := range sc.Nodes {
		if !seen[n.Name] {
			seen[n.Name] = true
			nodes = append(nodes, n)
		}
	}
	sc.Nodes = nodes
	ni := g.Range(0, 3)
	for i := 0; i < ni; i++ {
		sc.Initial = c01AddInstance(sc.Initial, c01GenInstance(g, sc.Nodes, g.Chance(85)))
	}
	if g.Chance(30) {
		sc.KV["fabio/config/a"] = simcore.Pick(g, c01KVValues)
	}
	nops := g.Range(2, 8)
	if thorough {
		nops = g.Range(3, 25)
	}
	// instances the history has registered so far: most changes aim at one of them (a change that hits nothing still
	// moves the Consul index)
	var known [][2]string
	for _, in := range sc.Initial {
		known = append(known, [2]string{in.Node, in.ID})
	}
	target := func() (string, string) {
		if len(known) > 0 && g.Chance(70) {
			k := simcore.Pick(g, known)
			return k[0], k[1]
		}
		return simcore.Pick(g, sc.Nodes).Name, simcore.Pick(g, c01IDs)
	}
	for i := 0; i < nops; i++ {
		op := c01Op{}
		switch g.Intn(11) {
		case 10:
			// the registry's view stops changing for a while: the pipeline runs until it is idle
			op.Kind = "quiet"
		case 0, 1:
			op.Kind = "register"
			op.Inst = c01GenInstance(g, sc.Nodes, g.Chance(85))
			known = append(known, [2]string{op.Inst.Node, op.Inst.ID})
		case 2:
			op.Kind = "deregister"
			op.Node, op.ID = target()
		case 3, 4, 5:
			op.Kind = "check"
			op.Node, op.ID = target()
			op.Check = simcore.Pick(g, []string{"", ":2", ":3"})
			op.Status = simcore.Pick(g, c01Statuses)
		case 6:
			op.Kind = "serf"
			op.Node = simcore.Pick(g, sc.Nodes).Name
			op.Status = simcore.Pick(g, []string{"critical", "passing"})
		case 7:
			op.Kind = simcore.Pick(g, []string{"node-maint", "svc-maint", "node-check"})
			op.Node, op.ID = target()
			op.On = g.Bool()
			op.Status = simcore.Pick(g, c01Statuses)
		case 8:
			op.Kind = "kv"
			op.Key = "fabio/config/" + simcore.Pick(g, []string{"a", "b", "sub/c"})
			op.Value = simcore.Pick(g, c01KVValues)
		case 9:
			op.Kind = "agent"
			op.On = g.Bool() // true: down
		}
		sc.Ops = append(sc.Ops, op)
	}
	sc.Faults = g.Chance(35)
	sc.Shuffle = g.Chance(60)
	sc.Interleave = g.Chance(30)
	if g.Chance(60) {
		n := g.Range(1, 4)
		for i := 0; i < n; i++ {
			sc.Holds = append(sc.Holds, simcore.Pick(g, []int{0, 4, 8, 12, 20, 1000}))
		}
		sc.HoldTime = simcore.Pick(g, []time.Duration{0, 0, 500 * time.Millisecond, 3 * time.Second})
	}
	sc.Ticks = g.Chance(40)
	if sc.Faults {
		sc.FaultTail = g.Range(0, 6)
	}
	return sc
}

func c01AddInstance(l []simconsul.Instance, in *simconsul.Instance) []simconsul.Instance {
	for i := range l {
		if l[i].Node == in.Node && l[i].ID == in.ID {
			l[i] = *in
			return l
		}
	}
	return append(l, *in)
}

func c01Apply(s *simconsul.Server, op c01Op) {
	find := func(node, id string) *simconsul.Instance {
		for _, in := range s.Instances {
			if in.Node == node && in.ID == id {
				return in
			}
		}
		return nil
	}
	findNode := func(name string) *simconsul.Node {
		for _, n := range s.Nodes {
			if n.Name == name {
				return n
			}
		}
		return nil
	}
	switch op.Kind {
	case "register":
		s.Mutate("reg", func() {
			if old := find(op.Inst.Node, op.Inst.ID); old != nil {
				*old = *op.Inst
			} else {
				c := *op.Inst
				s.Instances = append(s.Instances, &c)
			}
		})
	case "deregister":
		s.Mutate("reg", func() {
			for i, in := range s.Instances {
				if in.Node == op.Node && in.ID == op.ID {
					s.Instances = append(s.Instances[:i], s.Instances[i+1:]...)
					return
				}
			}
		})
	case "check":
		s.Mutate("health", func() {
			if in := find(op.Node, op.ID); in != nil {
				id := "service:" + in.ID + op.Check
				for i := range in.Checks {
					if in.Checks[i].ID == id {
						in.Checks[i].Status = op.Status
						return
					}
				}
				in.Checks = append(in.Checks, simconsul.Check{ID: id, Status: op.Status})
			}
		})
	case "serf":
		s.Mutate("health", func() {
			if n := findNode(op.Node); n != nil {
				n.Serf = op.Status
			}
		})
	case "node-maint":
		s.Mutate("health", func() {
			if n := findNode(op.Node); n != nil {
				n.Maint = op.On
			}
		})
	case "svc-maint":
		s.Mutate("health", func() {
			if in := find(op.Node, op.ID); in != nil {
				in.Maint = op.On
			}
		})
	case "node-check":
		s.Mutate("health", func() {
			if n := findNode(op.Node); n != nil {
				if op.On {
					n.Checks = []simconsul.Check{{ID: "mem", Status: op.Status}}
				} else {
					n.Checks = nil
				}
			}
		})
	case "kv":
		s.Mutate("kv", func() {
			if op.Value == "" {
				delete(s.KV, op.Key)
			} else {
				s.KV[op.Key] = op.Value
			}
		})
	case "agent":
		s.Mutate("health", func() { s.Down = op.On })
	}
}

// ---- the reference model, written from the property statement ----

// c01Eligible decides, from a health view, which (node, service id) pairs are healthy under the configured rule.
func c01Eligible(checks []*api.HealthCheck, accepted []string, strict bool) map[[3]string]bool {
	ok := func(st string) bool {
		for _, a := range accepted {
			if a == st {
				return true
			}
		}
		return false
	}
	nodeDown := map[string]bool{}
	nodeMaint := map[string]bool{}
	svcMaint := map[[2]string]bool{}
	total := map[[3]string]int{}
	good := map[[3]string]int{}
	for _, c := range checks {
		switch {
		case c.CheckID == "serfHealth":
			if c.Status == "critical" {
				nodeDown[c.Node] = true
			}
		case c.CheckID == "_node_maintenance":
			nodeMaint[c.Node] = true
		case strings.HasPrefix(c.CheckID, "_service_maintenance:"):
			if c.Status == "critical" {
				svcMaint[[2]string{c.Node, strings.TrimPrefix(c.CheckID, "_service_maintenance:")}] = true
			}
		case c.ServiceID != "":
			// an instance is identified by node and id; the name it was seen under is part of the observation
			k := [3]string{c.Node, c.ServiceID, c.ServiceName}
			total[k]++
			if ok(c.Status) {
				good[k]++
			}
		}
	}
	out := map[[3]string]bool{}
	for k, n := range total {
		if good[k] == 0 || (strict && good[k] != n) {
			continue
		}
		if nodeDown[k[0]] || nodeMaint[k[0]] || svcMaint[[2]string{k[0], k[1]}] {
			continue
		}
		out[k] = true
	}
	return out
}

// c01TagCommand: the route command a routing tag of a catalog entry denotes (per the tag documentation).
func c01TagCommand(name, addr string, port int, tag string, plain []string) (h1Cmd, bool) {
	tag = strings.TrimSpace(tag)
	if !strings.HasPrefix(tag, c01Prefix) {
		return h1Cmd{}, false
	}
	rest := strings.TrimSpace(tag[len(c01Prefix):])
	src, optstr, _ := strings.Cut(rest, " ")
	if !strings.HasPrefix(src, ":") {
		host, path, found := strings.Cut(src, "/")
		if found {
			src = strings.ToLower(host) + "/" + path
		}
	}
	hp := net.JoinHostPort(addr, strconv.Itoa(port))
	cmd := h1Cmd{Service: name, Src: src, Dst: "http://" + hp, Tags: plain}
	for _, o := range strings.Fields(optstr) {
		k, v, _ := strings.Cut(o, "=")
		switch {
		case k == "proto" && (v == "tcp" || v == "https" || v == "grpc" || v == "grpcs"):
			cmd.Dst = v + "://" + hp
		case k == "weight":
			cmd.Weight, _ = strconv.ParseFloat(v, 64)
		case k == "redirect":
			// the documented form is redirect=<code>,<url>; anything else carries no meaning and is ignored
			code, url, ok := strings.Cut(v, ",")
			if ok && !strings.Contains(url, ",") {
				cmd.Dst = url
				if cmd.Opts == nil {
					cmd.Opts = map[string]string{}
				}
				cmd.Opts["redirect"] = code
			}
		default:
			if cmd.Opts == nil {
				cmd.Opts = map[string]string{}
			}
			cmd.Opts[k] = v
		}
	}
	return cmd, true
}

func c01Commands(elig map[[3]string]bool, catalogs map[string][]*api.CatalogService) []string {
	var out []string
	for _, svcs := range catalogs {
		for _, s := range svcs {
			if !elig[[3]string{s.Node, s.ServiceID, s.ServiceName}] {
				continue
			}
			addr := s.ServiceAddress
			if addr == "" {
				addr = s.Address
			}
			var plain []string
			for _, t := range s.ServiceTags {
				if !strings.HasPrefix(strings.TrimSpace(t), c01Prefix) {
					plain = append(plain, strings.TrimSpace(t))
				}
			}
			for _, t := range s.ServiceTags {
				if c, ok := c01TagCommand(s.ServiceName, addr, s.ServicePort, t, plain); ok {
					out = append(out, c.String())
				}
			}
		}
	}
	sort.Strings(out)
	return out
}

func c01HasPrefixTag(tags []string) bool {
	for _, t := range tags {
		if strings.HasPrefix(t, c01Prefix) {
			return true
		}
	}
	return false
}

// c01TableSet renders a table as a sorted set of target descriptions.
func c01TableSet(t route.Table) []string {
	var out []string
	for _, x := range route.ZZTargets(t) {
		var ks []string
		for k, v := range x.Opts {
			ks = append(ks, k+"="+v)
		}
		sort.Strings(ks)
		out = append(out, fmt.Sprintf("%s%s -> %s svc=%s fixed=%.4f tags=%q opts=%q", x.Host, x.Path, x.URL, x.Service, x.FixedWeight, strings.Join(x.Tags, ","), strings.Join(ks, " ")))
	}
	sort.Strings(out)
	return out
}

func runC01(r *simcore.Run) {
	sc := c01Gen(r.Gen, r.Thorough())
	r.SetSample(sc)
	ccfg := &config.Consul{TagPrefix: c01Prefix, KVPath: "/fabio/config", NoRouteHTMLPath: "/fabio/noroute.html",
		ServiceStatus: sc.Status, ChecksRequired: "one", ServiceMonitors: sc.Monitors, PollInterval: sc.Poll}
	if sc.Strict {
		ccfg.ChecksRequired = "all"
	}
	e := h1NewEnv(r, ccfg)
	defer e.finish()
	for i := range sc.Nodes {
		n := sc.Nodes[i]
		e.sc.Nodes = append(e.sc.Nodes, &n)
	}
	for i := range sc.Initial {
		in := sc.Initial[i]
		e.sc.Instances = append(e.sc.Instances, &in)
	}
	for k, v := range sc.KV {
		if v != "" {
			e.sc.KV[k] = v
		}
	}
	e.sc.FaultsEnabled = sc.Faults
	e.sc.ShuffleHealth = sc.Shuffle
	if len(sc.Holds) > 0 {
		nh := 0
		e.Hold = func() int { nh++; return sc.Holds[(nh-1)%len(sc.Holds)] }
		e.HoldTime = sc.HoldTime
	}
	next := 0
	e.Progress = func() int { return next + len(e.sc.Log) }
	e.start()
	if sc.Interleave {
		e.d.Sim.Activate("consul:*ServiceMonitor.makeConfig", "consul:*ServiceMonitor.serviceConfig")
	}

	quietNow, paused := false, false
	e.d.AddSource(func() []simcore.Event {
		if next >= len(sc.Ops) || paused {
			return nil
		}
		ev := []simcore.Event{{Key: "op", Weight: 2, Fire: func() {
			op := sc.Ops[next]
			next++
			r.Tracef("op %d %s node=%s id=%s status=%s on=%v key=%s", next, op.Kind, op.Node, op.ID, op.Status, op.On, op.Key)
			if op.Kind == "quiet" {
				quietNow = true
				return
			}
			c01Apply(e.sc, op)
		}}}
		if sc.Ticks && len(e.d.Sim.Enabled()) == 0 { // never while a task stands at a statement
			ev = append(ev, simcore.Event{Key: "zclock", Weight: 1, Fire: func() {
				dt := simcore.Pick(r.Sched, []time.Duration{500 * time.Millisecond, time.Second, 2 * time.Second})
				e.d.Advance(dt)
			}})
		}
		return ev
	})
	// drive until every op has been applied (replies, relays and ops interleave freely)
	for steps := 0; next < len(sc.Ops) && steps < 20000; steps++ {
		if !e.d.Step() {
			if e.releaseHold(true) {
				continue
			}
			if !e.d.IdleAdvance(48 * time.Hour) {
				break
			}
		}
		if quietNow {
			// the registry's view stops changing for a while (every prefix of a history is a history)
			quietNow = false
			faults := e.sc.FaultsEnabled
			e.sc.FaultsEnabled = false
			c01SettlePrompt(e, 20000, c01PromptWindow/5, &paused)
			c01Prompt(e, sc, "between changes")
			e.sc.FaultsEnabled = faults
		}
	}
	// the registry's view stops changing; a few more replies may fail
	if sc.FaultTail > 0 {
		paused = true
		for steps, stop := 0, len(e.sc.Log)+sc.FaultTail; len(e.sc.Log) < stop && steps < 5000; steps++ {
			if !e.d.Step() && !e.releaseHold(true) {
				break
			}
		}
		paused = false
	}
	// faults stop
	if e.sc.Down {
		// the agent comes back (this moves the health index; without it the index stays where the history left it, so
		// that a view fabio lost to a fault is repaired by nothing but its own re-reading)
		e.sc.Mutate("health", func() { e.sc.Down = false })
	}
	e.sc.FaultsEnabled = false
	c01SettlePrompt(e, 30000, c01PromptWindow, &paused)
	c01Prompt(e, sc, "after the last change")
	quiet := 2*(5*time.Minute+20*time.Second) + 30*time.Second
	e.settle(60000, quiet)
	e.observe()
	r.Nontrivial()

	// S1: every emitted service config denotes exactly the commands the model derives from the replies of one round,
	// and the rounds the configs stand for never go back.
	rounds := c01Rounds(e.sc.Log)
	// A watcher may hand over one config per health reply (as fabio does), withhold a config that denotes the same
	// commands as the one it handed over last, or skip a view altogether when a newer one is handed over instead
	// (nothing the statement forbids: no table is ever built from a view older than one already handed over). So the
	// emitted configs are aligned with the rounds in order: every config must denote the commands of a round that is
	// not older than the round of its predecessor. A view that is never handed over at all is judged by the
	// convergence rules (prompt and L1).
	var texts []string
	for _, rd := range rounds {
		texts = append(texts, strings.Join(c01RoundModel(rd, sc), "\n"))
	}
	k, s1failed := 0, false
	for j, got := range e.relay.SvcSeen {
		gotCmds, err := h1ParseCmds(got)
		if err != nil {
			r.Fail("pipeline", "generated-config-rejected", "service config #%d is rejected by fabio's own parser: %v\n%s", j+1, err, got)
			s1failed = true
			continue
		}
		gotText := strings.Join(gotCmds, "\n")
		found := -1
		for x := k; x < len(rounds); x++ {
			if texts[x] == gotText {
				found = x
				break
			}
		}
		switch {
		case found >= 0:
			if found > k {
				r.Probe("rounds_without_config")
			}
			k = found + 1
		case k >= len(rounds):
			if !s1failed {
				r.Fail("pipeline", "config-without-health-reply", "service config #%d was emitted but the %d health replies served are all accounted for", j+1, len(rounds))
			}
			s1failed = true
		default:
			rd := rounds[k]
			r.Fail("pipeline", "config-differs-from-model", "service config #%d denotes the commands of no health reply from #%d (idx %d) on; compared with that one:\n got: %s\nwant: %s", j+1, rd.health.Seq, rd.health.Index, strings.Join(gotCmds, " | "), strings.ReplaceAll(texts[k], "\n", " | "))
			s1failed = true
		}
	}

	// S2: every installed table is NewTable(latest service config + "\n" + latest manual config)
	for k, in := range e.Inst {
		svc, man := "", ""
		if in.Svc > 0 {
			svc = e.relay.SvcGiven[in.Svc-1]
		}
		if in.Man > 0 {
			man = e.relay.ManGiven[in.Man-1]
		}
		want, err := route.NewTable(bytes.NewBufferString(svc + "\n" + man))
		if err != nil {
			r.Fail("install", "table-from-invalid-config", "install #%d happened although svc#%d + man#%d do not form a valid table: %v", k+1, in.Svc, in.Man, err)
			continue
		}
		if want.String() != in.Text {
			r.Fail("install", "table-differs", "install #%d differs from the table of svc#%d + man#%d:\n got: %q\nwant: %q", k+1, in.Svc, in.Man, in.Text, want.String())
		}
	}

	// L1: after the quiet period the active table is the model's table of the final registry
	if !e.wb.Done() {
		want, _, _, ok := c01Want(e, sc)
		if !ok {
			return
		}
		got := c01TableSet(route.GetTable())
		if strings.Join(got, "\n") != strings.Join(want, "\n") {
			r.Fail("convergence", "final-table-differs", "after %s without changes the active table is not the table of the registry:\n got: %s\nwant: %s", quiet, strings.Join(got, " | "), strings.Join(want, " | "))
		}
		r.State(strings.Join(want, "\n"))
	}
	r.ProbeN("installs", len(e.Inst))
	r.ProbeN("service_configs", len(e.relay.SvcSeen))
}

type c01Round struct {
	health   *simconsul.Served
	catalogs map[string][]*api.CatalogService
}

// c01Rounds groups the replies Consul served into rounds: a health reply and the catalog replies that followed it.
func c01Rounds(log []*simconsul.Served) []c01Round {
	var rounds []c01Round
	for _, sv := range log {
		switch sv.Endpoint {
		case "health":
			if sv.Err == "" {
				rounds = append(rounds, c01Round{health: sv, catalogs: map[string][]*api.CatalogService{}})
			}
		case "catalog":
			if len(rounds) > 0 && sv.Err == "" {
				rounds[len(rounds)-1].catalogs[sv.Arg] = sv.Catalog
			}
		}
	}
	return rounds
}

// c01RoundModel: the commands that follow from what one round was served (a failed catalog fetch contributes nothing).
func c01RoundModel(rd c01Round, sc *c01Scenario) []string {
	// only checks of services that advertise a routing tag count (and node / maintenance checks)
	var view []*api.HealthCheck
	for _, c := range rd.health.Health {
		if c.ServiceID == "" || c01HasPrefixTag(c.ServiceTags) {
			view = append(view, c)
		}
	}
	return c01Commands(c01Eligible(view, sc.Status, sc.Strict), rd.catalogs)
}

// c01Want: the table of the registry as it stands (as a target set), the service commands and the KV entries behind it.
func c01Want(e *h1Env, sc *c01Scenario) (table []string, cmds []string, man []string, ok bool) {
	nodes, insts, kv := e.sc.Snapshot()
	// health view and catalogs straight from the registry
	final := simconsul.New(nil)
	for i := range nodes {
		final.Nodes = append(final.Nodes, &nodes[i])
	}
	for i := range insts {
		final.Instances = append(final.Instances, &insts[i])
	}
	hv, cats := final.Views()
	var view []*api.HealthCheck
	for _, c := range hv {
		if c.ServiceID == "" || c01HasPrefixTag(c.ServiceTags) {
			view = append(view, c)
		}
	}
	cmds = c01Commands(c01Eligible(view, sc.Status, sc.Strict), cats)
	for _, e := range kv {
		if strings.HasPrefix(e.Key, "fabio/config") {
			man = append(man, strings.TrimSpace(e.Value))
		}
	}
	svcText := c01Render(cmds, view, cats, sc)
	text := svcText + "\n" + c01Applicable(svcText, strings.Join(man, "\n\n"))
	wantTable, err := route.NewTable(bytes.NewBufferString(text))
	if err != nil {
		e.r.Trouble("model text does not parse: %v\n%s", err, text)
		return nil, nil, nil, false
	}
	return c01TableSet(wantTable), cmds, man, true
}

// c01SettlePrompt lets the pipeline run until it is idle (no registry change is applied meanwhile) and a stretch of
// window has passed: retry pauses and poll intervals end, but no blocking query is carried to its wait limit
// on purpose (one whose limit falls into the window returns, as in life).
func c01SettlePrompt(e *h1Env, maxSteps int, window time.Duration, paused *bool) {
	*paused = true // no registry change is offered meanwhile
	defer func() { *paused = false }()
	start, step := time.Now(), time.Millisecond
	for i := 0; i < maxSteps; i++ {
		if e.d.Step() {
			step = time.Millisecond
			continue
		}
		rem := window - time.Since(start)
		if e.releaseHold(rem > 0) {
			continue
		}
		if rem <= 0 {
			return
		}
		if step > rem {
			step = rem
		}
		e.d.Advance(step)
		step *= 2
	}
	e.r.Trouble("pipeline did not become idle within %d steps", maxSteps)
}

// c01Prompt - prompt convergence: when the pipeline is idle and the last view Consul served to each watcher (the last
// health reply with the catalog replies of its round; the last KV reply) denotes the registry as it stands, the active
// table is the table of the registry. Nothing is in flight then, so a difference means that an update was lost or
// overtaken between a watcher and the table. Where the last round lost a lookup to a fault the rule is silent (fabio
// repairs that when the blocking query reaches its wait limit: L1).
func c01Prompt(e *h1Env, sc *c01Scenario, when string) {
	e.observe()
	if e.wb.Done() {
		return
	}
	want, cmds, man, ok := c01Want(e, sc)
	if !ok {
		return
	}
	rounds := c01Rounds(e.sc.Log)
	if len(rounds) == 0 || strings.Join(c01RoundModel(rounds[len(rounds)-1], sc), "\n") != strings.Join(cmds, "\n") {
		e.r.Probe("prompt_rule_silent_service_view")
		return
	}
	var lastKV *simconsul.Served
	for _, sv := range e.sc.Log {
		if sv.Endpoint == "kv" && sv.Err == "" && strings.HasPrefix(sv.Arg, "fabio/config") {
			lastKV = sv
		}
	}
	if lastKV == nil {
		e.r.Probe("prompt_rule_silent_kv_view")
		return
	}
	var seen []string
	for _, kv := range lastKV.KV {
		seen = append(seen, strings.TrimSpace(kv.Value))
	}
	if strings.Join(seen, "\x00") != strings.Join(man, "\x00") {
		e.r.Probe("prompt_rule_silent_kv_view")
		return
	}
	e.r.Probe("prompt_rule_evaluated")
	got := c01TableSet(route.GetTable())
	if strings.Join(got, "\n") != strings.Join(want, "\n") {
		e.r.Fail("convergence", "table-stale-although-final-view-served", "%s: the pipeline is idle and both watchers were served the registry as it stands (health reply #%d, kv reply #%d), yet the active table is not the table of the registry:\n got: %s\nwant: %s",
			when, rounds[len(rounds)-1].health.Seq, lastKV.Seq, strings.Join(got, " | "), strings.Join(want, " | "))
	}
}

// c01Applicable is the reference reading of "the operator's route commands applied on top of the service routes" for a
// weight command: it applies to the routes of its service on its prefix that exist at that point of the text; when
// there is none (the last healthy instance of the service has gone) it has nothing to apply to and the other commands
// still hold. It returns the manual text without the weight commands that have nothing to apply to.
func c01Applicable(svcText, manual string) string {
	have := map[string]bool{} // "svc src" of the routes defined so far
	note := func(line string) {
		f := strings.Fields(line)
		if len(f) < 3 || f[0] != "route" {
			return
		}
		switch {
		case f[1] == "add" && len(f) >= 5:
			have[f[2]+" "+strings.ToLower(f[3])] = true
		case f[1] == "del" && len(f) == 3:
			for k := range have {
				if strings.HasPrefix(k, f[2]+" ") {
					delete(have, k)
				}
			}
		case f[1] == "del" && len(f) >= 4:
			delete(have, f[2]+" "+strings.ToLower(f[3]))
		}
	}
	for _, l := range strings.Split(svcText, "\n") {
		note(l)
	}
	var out []string
	for _, l := range strings.Split(manual, "\n") {
		f := strings.Fields(l)
		if len(f) >= 4 && f[0] == "route" && f[1] == "weight" && !have[f[2]+" "+strings.ToLower(f[3])] {
			continue
		}
		note(l)
		out = append(out, l)
	}
	return strings.Join(out, "\n")
}

// c01Render turns the model's eligible instances into route command text (the model's own rendering).
func c01Render(_ []string, view []*api.HealthCheck, cats map[string][]*api.CatalogService, sc *c01Scenario) string {
	elig := c01Eligible(view, sc.Status, sc.Strict)
	var lines []string
	for _, svcs := range cats {
		for _, s := range svcs {
			if !elig[[3]string{s.Node, s.ServiceID, s.ServiceName}] {
				continue
			}
			addr := s.ServiceAddress
			if addr == "" {
				addr = s.Address
			}
			var plain []string
			for _, t := range s.ServiceTags {
				if !strings.HasPrefix(strings.TrimSpace(t), c01Prefix) {
					plain = append(plain, strings.TrimSpace(t))
				}
			}
			for _, t := range s.ServiceTags {
				c, ok := c01TagCommand(s.ServiceName, addr, s.ServicePort, t, plain)
				if !ok {
					continue
				}
				dst := c.Dst
				if strings.HasPrefix(dst, "http://") && !strings.Contains(dst[len("http://"):], "/") {
					dst += "/"
				}
				l := fmt.Sprintf("route add %s %s %s", c.Service, c.Src, dst)
				if c.Weight != 0 {
					l += fmt.Sprintf(" weight %g", c.Weight)
				}
				if len(c.Tags) > 0 {
					l += fmt.Sprintf(" tags \"%s\"", strings.Join(c.Tags, ","))
				}
				if len(c.Opts) > 0 {
					var ks []string
					for k, v := range c.Opts {
						ks = append(ks, k+"="+v)
					}
					sort.Strings(ks)
					l += fmt.Sprintf(" opts \"%s\"", strings.Join(ks, " "))
				}
				lines = append(lines, l)
			}
		}
	}
	sort.Strings(lines)
	return strings.Join(lines, "\n")
}

//go:build verif

package tcp

// C09 — TCP, TCP+SNI and TCP-dynamic tunnels are transparent byte streams (harness H3).
//
// Real: tcp.Server.Serve on simnet listeners with Proxy / SNIProxy / DynamicProxy, copyBuffer,
// WriteProxyHeader, route.NewTable + Table.LookupHost as the Lookup function. The upstream dial goes
// through the net.DialTimeout shim into simnet. Clients and upstreams are raw scripted byte-stream
// peers (simpeer): every write, half-close, close and reset of a peer is a driver event, and so is
// every segment delivery (whole / fraction / 1 byte / <=1460) and every connection establishment.
// In part of the runs the fabio goroutines additionally yield at every statement of package tcp.
//
// Oracle (from the property text): the upstream receives [exact PROXY v1 line for the simulated
// addresses, if pxyproto=true] + the client's stream from byte 0 (on tcp+sni that stream starts with a
// genuine crypto/tls ClientHello); the client receives the upstream's stream; exactly once, in order,
// unmodified. Full delivery is demanded in every close order in which the statement demands it
// (see c09Need); under an injected reset only that tunnel is relaxed to "prefix".
//
// Time: the listener's read/write timeouts and the dial timeout are part of the scenario (unset / short /
// long), peers' scripts contain pauses shorter and longer than them, and the driver moves the simulated
// clock (c09Pacer). A timeout entitles fabio to end a tunnel only in the situations c09Timing observes
// (the client silent for the read timeout, bytes for the client waiting for the write timeout, the
// upstream not connected within the dial timeout); in every other run the full oracle applies however
// late a peer acts.
//
// Tunnels of one run start concurrently or one after the other (a tunnel may wait until an earlier one
// is completely over), and on tcp+sni their ClientHellos differ widely in length, so that anything fabio
// carries over from one connection to another shows up as foreign bytes in a stream.

import (
	"bytes"
	"context"
	"crypto/tls"
	"fmt"
	"io"
	"net"
	"strings"
	"sync"
	"testing/synctest"
	"time"

	"github.com/fabiolb/fabio/internal/zzverif/simcore"
	"github.com/fabiolb/fabio/internal/zzverif/simnet"
	"github.com/fabiolb/fabio/internal/zzverif/simpeer"
	"github.com/fabiolb/fabio/route"
)

func init() {
	zzHarnesses = append(zzHarnesses, &simcore.Harness{Name: "c09", Props: []string{"C09"}, Run: runC09})
}

// ---------------------------------------------------------------- H3 environment

type h3Env struct {
	r     *simcore.Run
	d     *simcore.Driver
	net   *simnet.Net
	peers *simpeer.Group
	srv   *Server
	// onDial is told about every upstream dial fabio makes, before it is made
	onDial func(addr string)
	nsrv   int
	// optional hooks of a harness: peerFilter sees (and may withhold or wrap) the peers' events at every
	// quiescent state, onNetEvent is told the key of every network event after it fired, sample runs at
	// every quiescent state of run()
	peerFilter func([]simcore.Event) []simcore.Event
	onNetEvent func(key string)
	sample     func()
	// nudge, if set, is added to the simulated clock after every driver event, so that no two events -
	// and no two timers armed by the goroutines they wake - share an instant: fabio goroutines that do not
	// yield at statements run freely when a timer wakes them, and two of them woken at the same instant
	// would race in real time (e.g. for the server's mutex)
	nudge time.Duration
}

func h3NewEnv(r *simcore.Run) *h3Env {
	e := &h3Env{r: r}
	e.d = simcore.NewDriver(r)
	e.net = simnet.New(r)
	base := e.net.DialFunc()
	e.d.Sim.Dial = func(ctx context.Context, network, addr string, timeout, keepAlive time.Duration) (net.Conn, error) {
		if e.onDial != nil {
			e.onDial(addr)
		}
		return base(ctx, network, addr, timeout, keepAlive)
	}
	e.d.AddSource(func() []simcore.Event {
		ev := e.net.Events()
		if e.onNetEvent != nil {
			for i := range ev {
				key, fire := ev[i].Key, ev[i].Fire
				ev[i].Fire = func() { fire(); e.onNetEvent(key) }
			}
		}
		return ev
	})
	e.peers = simpeer.NewGroup(r, e.net)
	e.d.AddSource(func() []simcore.Event {
		ev := e.peers.Events()
		if e.peerFilter != nil {
			ev = e.peerFilter(ev)
		}
		return ev
	})
	return e
}

// advance moves the simulated clock. Tasks standing at a statement of fabio code run on first (and so do
// tasks that a timer releases on the way): no simulated time passes between two statements of fabio code,
// e.g. between arming a deadline and the operation it is meant for.
func (e *h3Env) advance(dt time.Duration) {
	e.d.AdvanceRunningTasks(dt, max(dt/8, time.Millisecond))
}

// serve runs the real accept loop of e.srv on a new simnet listener, as a task: the per-connection
// goroutines fabio starts become child tasks with deterministic names.
func (e *h3Env) serve(key string) {
	ln, err := e.net.Listen(key, simnet.ListenOpts{})
	if err != nil {
		e.r.Trouble("listen %s: %v", key, err)
		e.r.Abort()
	}
	name := fmt.Sprintf("srv%d", e.nsrv)
	e.nsrv++
	e.d.Sim.Spawn(name, func() { e.srv.Serve(ln) })
}

// run steps the driver until done() holds (finished), nothing is enabled any more (stuck) or the step
// budget is used up (neither).
func (e *h3Env) run(maxSteps int, done func() bool) (finished, stuck bool) {
	for i := 0; i < maxSteps; i++ {
		synctest.Wait()
		if e.sample != nil {
			e.sample()
		}
		if done() {
			return true, false
		}
		if !e.d.Step() {
			synctest.Wait()
			if e.sample != nil {
				e.sample()
			}
			return done(), true
		}
		if e.nudge > 0 {
			// what the event did is observed at the instant of the event
			synctest.Wait()
			if e.sample != nil {
				e.sample()
			}
			time.Sleep(e.nudge)
		}
	}
	synctest.Wait()
	if e.sample != nil {
		e.sample()
	}
	return done(), false
}

// clock offers small advances of the simulated clock at any moment (time that passes while bytes are in
// flight), never more than budget in total.
func (e *h3Env) clock(budget time.Duration) simcore.Source {
	var used time.Duration
	steps := []time.Duration{time.Millisecond, 20 * time.Millisecond, 300 * time.Millisecond, time.Second}
	return func() []simcore.Event {
		if used+time.Second > budget {
			return nil
		}
		return []simcore.Event{{Key: "zclock", Fire: func() {
			dt := steps[e.r.Sched.Intn(len(steps))]
			used += dt
			e.advance(dt)
		}}}
	}
}

func (e *h3Env) finish() {
	e.peers.Stop()
	e.net.Shutdown()
	// every connection is reset now: let parked fabio tasks run to their natural end (a handler waits
	// on a channel for its copy goroutines, so tearing those down first would leave it blocked)
	for i := 0; i < 200000; i++ {
		synctest.Wait()
		en := e.d.Sim.Enabled()
		if len(en) == 0 {
			break
		}
		e.d.Sim.Release(en[0])
	}
	e.d.Finish()
}

// ---------------------------------------------------------------- genuine ClientHellos

type h3Capture struct{ buf bytes.Buffer }

func (c *h3Capture) Read([]byte) (int, error)         { return 0, io.EOF }
func (c *h3Capture) Write(b []byte) (int, error)      { return c.buf.Write(b) }
func (c *h3Capture) Close() error                     { return nil }
func (c *h3Capture) LocalAddr() net.Addr              { return &net.TCPAddr{} }
func (c *h3Capture) RemoteAddr() net.Addr             { return &net.TCPAddr{} }
func (c *h3Capture) SetDeadline(time.Time) error      { return nil }
func (c *h3Capture) SetReadDeadline(time.Time) error  { return nil }
func (c *h3Capture) SetWriteDeadline(time.Time) error { return nil }

// h3ClientHello returns the first TLS record a crypto/tls client with this configuration emits.
func h3ClientHello(cfg *tls.Config) []byte {
	c := &h3Capture{}
	tls.Client(c, cfg).Handshake() // fails after the first flight: there is no server
	b := c.buf.Bytes()
	if len(b) < 5 {
		return nil
	}
	n := 5 + (int(b[3])<<8 | int(b[4]))
	if n > len(b) {
		return nil
	}
	return append([]byte(nil), b[:n]...)
}

func h3ALPN(n, each int) []string {
	var out []string
	for i := 0; i < n; i++ {
		out = append(out, fmt.Sprintf("proto-%03d-%s", i, strings.Repeat("x", each)))
	}
	return out
}

// ---------------------------------------------------------------- scenario

type c09Tunnel struct {
	Client   string        `json:"client"`
	Listen   string        `json:"listener"`
	RouteSrc string        `json:"route_src"`
	Name     string        `json:"server_name,omitempty"`
	Hello    string        `json:"client_hello,omitempty"`
	HelloPad int           `json:"client_hello_padding_extension,omitempty"`
	HelloTkt int           `json:"client_hello_session_ticket_extension,omitempty"`
	HelloLen int           `json:"client_hello_len,omitempty"`
	After    int           `json:"starts_when_tunnel_n_is_over,omitempty"` // 1-based, 0: starts right away
	Pauses   []c09PauseGen `json:"pauses,omitempty"`
	Up       string        `json:"upstream"`
	Pxy      bool          `json:"pxyproto"`
	CLen     int           `json:"client_bytes"`
	ULen     int           `json:"upstream_bytes"`
	UEarly   int           `json:"upstream_bytes_before_client_eof,omitempty"`
	CEarly   int           `json:"client_bytes_before_upstream_eof,omitempty"`
	Through  bool          `json:"other_side_keeps_sending_without_waiting_for_eof,omitempty"`
	Order    string        `json:"close_order"`
	Fault    string        `json:"fault,omitempty"`
	CStalls  int           `json:"client_reader_stalls,omitempty"`
	UStalls  int           `json:"upstream_reader_stalls,omitempty"`
	CActs    []simpeer.Act `json:"client_script"`
	UActs    []simpeer.Act `json:"upstream_script"`

	hdr    []byte // expected PROXY line
	c, u   []byte // streams
	cl, up *simpeer.Peer
}

// c09PauseGen is a pause somewhere in a peer's script: the peer does nothing for Pct percent of Ref.
type c09PauseGen struct {
	Upstream bool `json:"upstream_side,omitempty"`
	// Steady: a pause before every write, half-close and close of that side (a slow but steady peer: every
	// gap shorter than the reference, the whole longer); otherwise one pause at one place
	Steady bool          `json:"before_every_write_and_close,omitempty"`
	Where  int           `json:"position_draw"`
	Ref    time.Duration `json:"relative_to"`
	Pct    int           `json:"percent"`
}

type c09Scenario struct {
	Mode         string        `json:"mode"`
	V6           bool          `json:"ipv6"`
	Tasks        bool          `json:"statement_level"`
	Stick        int           `json:"stick"`
	ReadTimeout  time.Duration `json:"read_timeout"`
	WriteTimeout time.Duration `json:"write_timeout"`
	DialTimeout  time.Duration `json:"dial_timeout"`
	// EagerPauses: a scripted pause may elapse at any moment (bytes stay in flight meanwhile); otherwise
	// scripted time passes only when nothing else can happen (everything sent has arrived)
	EagerPauses bool `json:"pauses_elapse_with_bytes_in_flight,omitempty"`
	// EOFWithData: the connections' Read returns the last bytes of a stream together with io.EOF when the
	// FIN has arrived before those bytes were read (legal for an io.Reader; crypto/tls does it)
	EOFWithData bool         `json:"read_returns_last_bytes_with_eof,omitempty"`
	Tunnels     []*c09Tunnel `json:"tunnels"`
	Table       string       `json:"table"`
}

// "halfclose" is the client half-closing first, "upstream-halfclose" its mirror.
var c09Orders = []string{"client-first", "upstream-first", "simultaneous", "halfclose", "client-abrupt", "upstream-abrupt", "upstream-halfclose"}
var c09Modes = []string{"tcp", "sni", "dynamic"}
var c09Timeouts = []time.Duration{0, 30 * time.Second, 5 * time.Minute, 2 * time.Second}
var c09DialTimeouts = []time.Duration{20 * time.Second, 3 * time.Second}
var c09Hellos = []string{"default", "x25519-only", "tls12", "alpn-6k", "alpn-small", "alpn-2k", "all-ciphers", "p-curves"}

// c09Pause is not an action of simpeer (the peer steps over it): the harness turns the event of such an
// action into the passing of N milliseconds since the action became the peer's next one (c09Pacer).
const c09Pause = "pause"

func c09Size(g *simcore.Tape, max int) int {
	switch g.Intn(6) {
	case 0:
		return 0
	case 1:
		return g.Range(1, 64)
	case 2, 3:
		return g.Range(65, 5000)
	}
	return g.Range(5001, max)
}

func c09Writes(sizes []int) []simpeer.Act {
	var a []simpeer.Act
	for _, n := range sizes {
		a = append(a, simpeer.Act{Kind: simpeer.Write, N: n})
	}
	return a
}

func c09ProxyLine(client, listener *net.TCPAddr) string {
	fam := "TCP4"
	if client.IP.To4() == nil {
		fam = "TCP6"
	}
	return fmt.Sprintf("PROXY %s %s %s %d %d\r\n", fam, client.IP, listener.IP, client.Port, listener.Port)
}

func c09Addr(s string) *net.TCPAddr {
	a, err := net.ResolveTCPAddr("tcp", s) // literal addresses only: no lookup happens
	if err != nil {
		panic(err)
	}
	return a
}

func c09Gen(g *simcore.Tape, thorough bool) *c09Scenario {
	sc := &c09Scenario{}
	sc.Mode = simcore.Pick(g, c09Modes)
	sc.V6 = g.Chance(25)
	sc.Tasks = g.Chance(40)
	sc.Stick = simcore.Pick(g, []int{1, 3, 8})
	sc.ReadTimeout = simcore.Pick(g, c09Timeouts)
	sc.WriteTimeout = simcore.Pick(g, c09Timeouts)
	sc.DialTimeout = simcore.Pick(g, c09DialTimeouts)
	sc.EagerPauses = g.Chance(25)
	refs := []time.Duration{10 * time.Second, sc.DialTimeout}
	if sc.ReadTimeout > 0 {
		refs = append(refs, sc.ReadTimeout, sc.ReadTimeout)
	}
	if sc.WriteTimeout > 0 {
		refs = append(refs, sc.WriteTimeout)
	}
	max := 72 << 10 // above the copy buffer (32 KiB) and the simnet window (64 KiB)
	if thorough {
		max = 200 << 10
	}
	nt := g.Range(1, 4)
	var table strings.Builder
	for j := 0; j < nt; j++ {
		t := &c09Tunnel{Up: fmt.Sprintf("up%d.sim:9000", j)}
		host, cip := "10.1.0.5", fmt.Sprintf("192.0.2.%d", 10+j)
		if sc.V6 {
			host, cip = "2001:db8:f::5", fmt.Sprintf("2001:db8::%x", 0xa0+j)
		}
		t.Client = net.JoinHostPort(cip, fmt.Sprint(5000+7*j))
		switch sc.Mode {
		case "sni":
			t.Listen = net.JoinHostPort(host, "443")
			// server names of very different lengths
			switch g.Intn(4) {
			case 0, 1:
				t.Name = fmt.Sprintf("svc%d.example.com", j)
			case 2:
				t.Name = fmt.Sprintf("s%d.io", j)
			case 3:
				t.Name = fmt.Sprintf("svc%d.%sexample.com", j, strings.Repeat("a-rather-long-label-of-a-simulated-name.", g.Range(1, 5)))
			}
			t.RouteSrc = t.Name + "/"
		case "tcp":
			t.Listen = net.JoinHostPort(host, fmt.Sprint(7001+j))
			t.RouteSrc = fmt.Sprintf(":%d", 7001+j)
		case "dynamic":
			t.Listen = net.JoinHostPort(host, fmt.Sprint(7001+j))
			t.RouteSrc = fmt.Sprintf(":%d", 7001+j)
			if !sc.V6 && g.Bool() {
				t.RouteSrc = t.Listen
			}
		}
		t.Pxy = g.Bool()
		t.Order = simcore.Pick(g, c09Orders)
		t.CLen = c09Size(g, max)
		t.ULen = c09Size(g, max)
		if sc.Mode == "sni" {
			// ClientHellos of very different lengths: what crypto/tls emits for the configuration, optionally
			// followed by a padding and/or a session_ticket extension
			t.Hello = simcore.Pick(g, c09Hellos)
			switch g.Intn(4) {
			case 1:
				t.HelloPad = g.Range(1, 300)
			case 2:
				t.HelloPad = g.Range(301, 9000)
			}
			if g.Chance(25) {
				t.HelloTkt = g.Range(16, 1500)
			}
		}
		// this tunnel starts right away (concurrently with the others) or when an earlier one is over
		if j > 0 && g.Bool() {
			t.After = 1 + g.Intn(j)
		}
		// pauses in the scripts, shorter and longer than the configured timeouts
		if g.Chance(45) {
			for i, n := 0, g.Range(1, 3); i < n; i++ {
				p := c09PauseGen{Upstream: g.Bool(), Where: g.Intn(1 << 16), Ref: simcore.Pick(g, refs), Pct: simcore.Pick(g, []int{40, 250, 110, 90})}
				if g.Chance(35) {
					p.Steady, p.Pct = true, simcore.Pick(g, []int{40, 90})
				}
				t.Pauses = append(t.Pauses, p)
			}
		}
		// half-close orders: one side sends its whole stream and half-closes, the other side has sent a
		// PRNG part of its stream by then and sends the rest (at least one byte) afterwards - either
		// after it has seen the end of the incoming stream (a reply) or without waiting for it (the
		// schedule decides where the half-close lands among its writes) - and then closes
		if t.Order == "halfclose" && t.ULen > 0 {
			t.UEarly = g.Intn(t.ULen)
		}
		if t.Order == "upstream-halfclose" && t.CLen > 0 {
			t.CEarly = g.Intn(t.CLen)
		}
		if t.Order == "halfclose" || t.Order == "upstream-halfclose" {
			t.Through = g.Chance(40)
		}
		if g.Chance(12) {
			t.Fault = simcore.Pick(g, []string{"reset-client", "reset-upstream"})
		}
		if g.Chance(20) {
			t.CStalls = g.Range(1, 2)
		}
		if g.Chance(20) {
			t.UStalls = g.Range(1, 2)
		}
		fmt.Fprintf(&table, "route add svc%d %s tcp://%s", j, t.RouteSrc, t.Up)
		if t.Pxy {
			table.WriteString(` opts "pxyproto=true"`)
		}
		table.WriteString("\n")
		sc.Tunnels = append(sc.Tunnels, t)
	}
	sc.Table = table.String()
	sc.EOFWithData = g.Chance(35)
	return sc
}

// c09Build creates streams and scripts (needs the bubble: the hello comes from crypto/tls).
func c09Build(g *simcore.Tape, sc *c09Scenario) {
	for j, t := range sc.Tunnels {
		var hello []byte
		if sc.Mode == "sni" {
			cfg := &tls.Config{ServerName: t.Name, InsecureSkipVerify: true}
			switch t.Hello {
			case "x25519-only":
				cfg.CurvePreferences = []tls.CurveID{tls.X25519}
			case "tls12":
				cfg.MaxVersion = tls.VersionTLS12
			case "alpn-6k":
				cfg.NextProtos = h3ALPN(30, 190)
			case "alpn-small":
				cfg.NextProtos = h3ALPN(3, 1)
			case "alpn-2k":
				cfg.NextProtos = h3ALPN(10, 190)
			case "all-ciphers":
				cfg.MaxVersion = tls.VersionTLS12
				for _, cs := range tls.CipherSuites() {
					cfg.CipherSuites = append(cfg.CipherSuites, cs.ID)
				}
				for _, cs := range tls.InsecureCipherSuites() {
					cfg.CipherSuites = append(cfg.CipherSuites, cs.ID)
				}
			case "p-curves":
				cfg.CurvePreferences = []tls.CurveID{tls.CurveP256, tls.CurveP384, tls.CurveP521}
			}
			hello = h3ClientHello(cfg)
			var extra []byte
			if t.HelloPad > 0 {
				extra = append(extra, c09Extension(21, min(t.HelloPad, 16000-len(hello)-8-t.HelloTkt), j)...)
			}
			if t.HelloTkt > 0 {
				extra = append(extra, c09Extension(35, t.HelloTkt, j)...)
			}
			hello = c09AddExtensions(hello, extra)
			t.HelloLen = len(hello)
		}
		t.c = append(hello, simpeer.Stream(g, t.CLen, 0xC0000000|uint32(j)<<20)...)
		t.u = simpeer.Stream(g, t.ULen, 0x50000000|uint32(j)<<20)
		if t.Pxy {
			t.hdr = []byte(c09ProxyLine(c09Addr(t.Client), c09Addr(t.Listen)))
		}
		act := func(k string, n int) simpeer.Act { return simpeer.Act{Kind: k, N: n} }
		// the writing phase of a side that sends a first part, then (unless Through) waits for the end of
		// the incoming stream, then sends the rest
		twoParts := func(total, first int) []simpeer.Act {
			a := c09Writes(simpeer.Chunks(g, first, 12))
			if !t.Through {
				a = append(a, act(simpeer.AwaitEOF, 0))
			}
			return append(a, c09Writes(simpeer.Chunks(g, total-first, 12))...)
		}
		var cw, uw []simpeer.Act
		switch t.Order {
		case "halfclose":
			cw = c09Writes(simpeer.Chunks(g, len(t.c), 24))
			uw = twoParts(t.ULen, t.UEarly)
		case "upstream-halfclose":
			cw = twoParts(len(t.c), len(hello)+t.CEarly) // the hello is what makes fabio dial at all
			uw = c09Writes(simpeer.Chunks(g, t.ULen, 24))
		default:
			cw = c09Writes(simpeer.Chunks(g, len(t.c), 24))
			uw = c09Writes(simpeer.Chunks(g, t.ULen, 24))
		}
		toUp := len(t.hdr) + len(t.c)
		ca := append([]simpeer.Act{act(simpeer.Dial, 0)}, cw...)
		ua := uw
		switch t.Order {
		case "client-first":
			ca = append(ca, act(simpeer.Await, t.ULen), act(simpeer.Close, 0))
			ua = append(ua, act(simpeer.AwaitEOF, 0), act(simpeer.Close, 0))
		case "upstream-first":
			ca = append(ca, act(simpeer.AwaitEOF, 0), act(simpeer.Close, 0))
			ua = append(ua, act(simpeer.Await, toUp), act(simpeer.Close, 0))
		case "simultaneous":
			ca = append(ca, act(simpeer.Await, t.ULen), act(simpeer.Close, 0))
			ua = append(ua, act(simpeer.Await, toUp), act(simpeer.Close, 0))
		case "halfclose":
			// both sides close only after they have seen the end of the other side's stream
			ca = append(ca, act(simpeer.CloseWrite, 0), act(simpeer.AwaitEOF, 0), act(simpeer.Close, 0))
			ua = append(ua, act(simpeer.AwaitEOF, 0), act(simpeer.Close, 0))
		case "upstream-halfclose":
			ua = append(ua, act(simpeer.CloseWrite, 0), act(simpeer.AwaitEOF, 0), act(simpeer.Close, 0))
			ca = append(ca, act(simpeer.AwaitEOF, 0), act(simpeer.Close, 0))
		case "client-abrupt":
			ca = append(ca, act(simpeer.Close, 0))
			ua = append(ua, act(simpeer.AwaitEOF, 0), act(simpeer.Close, 0))
		case "upstream-abrupt":
			ca = append(ca, act(simpeer.AwaitEOF, 0), act(simpeer.Close, 0))
			ua = append(ua, act(simpeer.Close, 0))
		}
		// fault: a reset somewhere inside the writing phase of one side
		insert := func(a []simpeer.Act, first, nwrites int) []simpeer.Act {
			at := first + g.Intn(nwrites+1)
			out := append([]simpeer.Act{}, a[:at]...)
			out = append(out, act(simpeer.Reset, 0))
			return append(out, a[at:]...)
		}
		switch t.Fault {
		case "reset-client":
			ca = insert(ca, 1, len(cw))
		case "reset-upstream":
			ua = insert(ua, 0, len(uw))
		}
		// pauses: anywhere after the client's dial / from the upstream's very first action on, never after
		// the last action
		for _, p := range t.Pauses {
			a, lo := &ca, 1
			if p.Upstream {
				a, lo = &ua, 0
			}
			if len(*a) <= lo {
				continue
			}
			at := lo + p.Where%(len(*a)-lo)
			ms := int(p.Ref/time.Millisecond)*p.Pct/100 + 7
			var out []simpeer.Act
			for i, x := range *a {
				sends := x.Kind == simpeer.Write || x.Kind == simpeer.CloseWrite || x.Kind == simpeer.Close
				if (p.Steady && sends && i >= lo) || (!p.Steady && i == at) {
					out = append(out, act(c09Pause, ms))
				}
				out = append(out, x)
			}
			*a = out
		}
		t.CActs, t.UActs = ca, ua
	}
}

// c09Extension returns a ClientHello extension of the given type with n body bytes that say which tunnel
// they belong to and where they stand.
func c09Extension(typ, n, tunnel int) []byte {
	n = max(n, 0)
	b := []byte{byte(typ >> 8), byte(typ), byte(n >> 8), byte(n)}
	for i := 0; i < n; i++ {
		switch i % 4 {
		case 0:
			b = append(b, 0xA0|byte(tunnel))
		case 1:
			b = append(b, byte(typ))
		case 2:
			b = append(b, byte(i>>10))
		default:
			b = append(b, byte(i>>2))
		}
	}
	return b
}

// c09AddExtensions appends extensions to a well-formed ClientHello record (as crypto/tls emits it) and
// adjusts the three enclosing lengths; a record without an extensions block is returned as it is.
func c09AddExtensions(rec, extra []byte) []byte {
	if len(extra) == 0 || len(rec) < 9+2+32+1 {
		return rec
	}
	b := rec[9:]
	p := 2 + 32
	p += 1 + int(b[p]) // session id
	if p+2 > len(b) {
		return rec
	}
	p += 2 + (int(b[p])<<8 | int(b[p+1])) // cipher suites
	if p+1 > len(b) {
		return rec
	}
	p += 1 + int(b[p]) // compression methods
	if p+2 > len(b) {
		return rec
	}
	xl := int(b[p])<<8 | int(b[p+1])
	if p+2+xl != len(b) || xl+len(extra) > 0xffff || len(rec)-5+len(extra) > 16384 {
		return rec
	}
	out := append(append([]byte(nil), rec...), extra...)
	xl += len(extra)
	out[9+p], out[9+p+1] = byte(xl>>8), byte(xl)
	hl := len(out) - 9
	out[6], out[7], out[8] = byte(hl>>16), byte(hl>>8), byte(hl)
	rl := len(out) - 5
	out[3], out[4] = byte(rl>>8), byte(rl)
	return out
}

// c09Need says for which directions the statement demands complete delivery in this close order.
//
//   - client-first / upstream-first / simultaneous: the closing side closes after it has received
//     everything the other side sends (it may still have its own tail in flight) - both complete.
//   - halfclose: the client half-closes after sending, the upstream sends the rest of its stream
//     (after it saw the end, or without waiting for it) - both complete ("still receives the reply").
//   - upstream-halfclose: the mirror. The upstream finishes first ("has had all of its data
//     delivered"), the tunnel is still up and the client goes on sending: "every byte one side sends
//     is delivered" - both complete. What the client never got to send because it waits for an end of
//     stream that was not passed on is not demanded (see c09Check).
//   - *-abrupt: one side closes right after its last write while the other may still be sending. The
//     statement speaks about the finishing side's own bytes only, and a full close with data still
//     arriving may be answered with a reset that destroys data in flight in either direction (TCP,
//     and simnet models it) - so completeness of the finisher's bytes is demanded only if nothing at
//     all travels towards it; the opposite direction is always just a prefix.
func c09Need(mode string, t *c09Tunnel) (upFull, clFull bool) {
	switch t.Order {
	case "client-abrupt":
		return t.ULen == 0, false
	case "upstream-abrupt":
		return false, len(t.hdr)+len(t.c) == 0
	}
	return true, true
}

// ---------------------------------------------------------------- time and order of the tunnels

// c09Over: the tunnel is completely over - both peers have played their scripts and seen the end of
// their incoming streams, and fabio has closed both of its connection ends.
func c09Over(t *c09Tunnel) bool {
	if t.cl.DialErr() != nil {
		return true
	}
	c := t.cl.Conn()
	if c == nil || !t.cl.Complete() || !c.Peer().IsClosed() {
		return false
	}
	if u := t.up.Conn(); u != nil && (!t.up.Complete() || !u.Peer().IsClosed()) {
		return false
	}
	return true
}

// c09Pacer decides when the peers' events are offered to the driver: the dial of a tunnel that starts
// after another one is withheld until that one is over, and a pause elapses - the event of a pause moves
// the simulated clock to the end of the pause and lets the peer go on.
type c09Pacer struct {
	e       *h3Env
	sc      *c09Scenario
	peers   map[string]*simpeer.Peer
	tunnel  map[string]*c09Tunnel
	started map[string]time.Time
}

func (p *c09Pacer) filter(ev []simcore.Event) []simcore.Event {
	var out, pauses []simcore.Event
	busy := false
	for _, x := range ev {
		name := strings.TrimPrefix(x.Key, "peer:")
		peer := p.peers[name]
		if peer == nil { // a reader stops / resumes reading: may happen at any moment, also while time passes
			out = append(out, x)
			continue
		}
		next, _ := peer.Progress()
		a := peer.Acts[next]
		if t := p.tunnel[name]; a.Kind == simpeer.Dial && t.After > 0 && !c09Over(p.sc.Tunnels[t.After-1]) {
			continue
		}
		if a.Kind != c09Pause {
			out = append(out, x)
			busy = true
			continue
		}
		key := fmt.Sprintf("%s#%d", name, next)
		st, seen := p.started[key]
		if !seen {
			st = time.Now()
			p.started[key] = st
		}
		wake, fire := st.Add(time.Duration(a.N)*time.Millisecond), x.Fire
		x.Fire = func() {
			if rem := time.Until(wake); rem > 0 {
				p.e.r.Probe("pause_elapsed")
				p.e.advance(rem)
			}
			fire()
		}
		pauses = append(pauses, x)
	}
	if len(pauses) > 0 && !p.sc.EagerPauses && (busy || len(p.e.d.Sim.Enabled()) > 0 || len(p.e.net.Events()) > 0) {
		return out
	}
	return append(out, pauses...)
}

// c09Timing observes, at every quiescent state, the only situations in which a configured timeout
// entitles fabio to end a tunnel (the readings are in the assumptions of the check):
//
//   - read timeout T of the listener: a peer (the client - or the upstream: the narrower reading lets the
//     listener's timeout bound the reads of the tunnel's other connection as well) is connected, the end
//     of its stream has not been delivered to fabio, and for T or longer no byte of it was delivered to
//     fabio ("fabio waited T for data from that peer");
//   - write timeout T of the listener: for T or longer without interruption there were bytes which fabio
//     had written to a peer's connection and which that peer had not taken yet;
//   - dial timeout T: the upstream connection was not established within T after fabio asked for it.
//
// All are measured up to the moment fabio closed its end of the connection in question: time that passes
// after fabio gave up justifies nothing. A peer that is merely slow - every gap shorter than T, the whole
// longer - entitles to nothing, and neither does a peer to which fabio has nothing to write.
type c09Timing struct {
	sc *c09Scenario
	mu sync.Mutex // dials are reported by fabio's goroutines
	by map[string]*c09Times
}

// c09Side: one of the two connections of a tunnel, seen from the peer's end.
type c09Side struct {
	est       bool
	lastIn    time.Time // establishment / last delivery of this peer's bytes to fabio
	delivered int64
	fin       bool // the end of this peer's stream has been delivered to fabio
	silence   time.Duration
	drained   time.Time // last moment at which nothing fabio wrote was waiting for this peer
	waiting   time.Duration
}

type c09Times struct {
	cl, up   c09Side
	dialAt   time.Time
	dialWait time.Duration
}

func (m *c09Timing) of(t *c09Tunnel) *c09Times {
	x := m.by[t.Up]
	if x == nil {
		x = &c09Times{}
		m.by[t.Up] = x
	}
	return x
}

func (m *c09Timing) dial(addr string) {
	m.mu.Lock()
	defer m.mu.Unlock()
	for _, t := range m.sc.Tunnels {
		if t.Up == addr {
			m.of(t).dialAt = time.Now()
		}
	}
}

// netEvent: the delivery of a FIN to fabio (c2s on a client's connection, s2c on an upstream's).
func (m *c09Timing) netEvent(key string) {
	id, ok := strings.CutPrefix(key, "net:fin:")
	if !ok {
		return
	}
	m.mu.Lock()
	defer m.mu.Unlock()
	for _, t := range m.sc.Tunnels {
		if t.cl == nil || t.up == nil {
			continue
		}
		if c := t.cl.Conn(); c != nil && id == c.ID()+":c2s" {
			m.of(t).cl.fin = true
		}
		if u := t.up.Conn(); u != nil && id == u.ID()+":s2c" {
			m.of(t).up.fin = true
		}
	}
}

// observe updates one side; pe is the peer's end of the connection, its Peer() fabio's end.
func (x *c09Side) observe(pe *simnet.Conn, now time.Time) (end time.Time) {
	fe := pe.Peer()
	end = now
	if !x.est {
		x.est, x.lastIn, x.drained = true, now, now
	}
	if fe.IsClosed() && fe.ClosedAt.Before(end) {
		end = fe.ClosedAt
	}
	if _, d, _ := pe.Counters(); d > x.delivered {
		x.delivered, x.lastIn = d, now
	}
	if !x.fin {
		x.silence = max(x.silence, end.Sub(x.lastIn))
	}
	if sent, _, taken := fe.Counters(); sent == taken {
		x.drained = now
	} else {
		x.waiting = max(x.waiting, end.Sub(x.drained))
	}
	return end
}

func (m *c09Timing) sample() {
	m.mu.Lock()
	defer m.mu.Unlock()
	now := time.Now()
	for _, t := range m.sc.Tunnels {
		if t.cl == nil || t.up == nil {
			continue
		}
		c := t.cl.Conn()
		if c == nil {
			continue
		}
		x := m.of(t)
		end := x.cl.observe(c, now)
		if u := t.up.Conn(); u != nil {
			x.up.observe(u, now)
		} else if !x.dialAt.IsZero() {
			x.dialWait = max(x.dialWait, end.Sub(x.dialAt))
		}
	}
}

// entitled names the timeout that entitled fabio to end this tunnel ("" if none did).
func (m *c09Timing) entitled(t *c09Tunnel) string {
	m.mu.Lock()
	defer m.mu.Unlock()
	x := m.of(t)
	rt, wt := m.sc.ReadTimeout, m.sc.WriteTimeout
	switch {
	case x.dialWait >= m.sc.DialTimeout:
		return "dial-timeout"
	case rt > 0 && x.cl.silence >= rt:
		return "read-timeout/client-silent"
	case rt > 0 && x.up.silence >= rt:
		return "read-timeout/upstream-silent"
	case wt > 0 && x.cl.waiting >= wt:
		return "write-timeout/client-not-taking"
	case wt > 0 && x.up.waiting >= wt:
		return "write-timeout/upstream-not-taking"
	}
	return ""
}

// ---------------------------------------------------------------- the run

func runC09(r *simcore.Run) {
	sc := c09Gen(r.Gen, r.Thorough())
	r.SetSample(sc)
	e := h3NewEnv(r)
	defer e.finish()
	e.net.EOFWithData = sc.EOFWithData
	c09Build(r.Gen, sc)

	tbl, err := route.NewTable(bytes.NewBufferString(sc.Table))
	if err != nil {
		r.Trouble("scenario table does not parse: %v\n%s", err, sc.Table)
		return
	}
	lookup := func(host string) *route.Target { return tbl.LookupHost(host, route.Picker["rnd"]) }
	var h Handler
	switch sc.Mode {
	case "tcp":
		h = &Proxy{DialTimeout: sc.DialTimeout, Lookup: lookup}
	case "sni":
		h = &SNIProxy{DialTimeout: sc.DialTimeout, Lookup: lookup}
	case "dynamic":
		h = &DynamicProxy{DialTimeout: sc.DialTimeout, Lookup: lookup}
	}
	e.srv = &Server{Handler: h, ReadTimeout: sc.ReadTimeout, WriteTimeout: sc.WriteTimeout}
	if sc.Tasks {
		e.d.Sim.Activate("proxy/tcp")
	} else {
		e.nudge = time.Microsecond
	}
	e.d.Stick = sc.Stick
	if sc.ReadTimeout > 0 || sc.WriteTimeout > 0 || sc.DialTimeout < 10*time.Second {
		e.d.AddSource(e.clock(8 * time.Second))
	}
	tm := &c09Timing{sc: sc, by: map[string]*c09Times{}}
	pc := &c09Pacer{e: e, sc: sc, peers: map[string]*simpeer.Peer{}, tunnel: map[string]*c09Tunnel{}, started: map[string]time.Time{}}
	e.onDial, e.onNetEvent, e.sample, e.peerFilter = tm.dial, tm.netEvent, tm.sample, pc.filter
	listening := map[string]bool{}
	for j, t := range sc.Tunnels {
		if !listening[t.Listen] {
			listening[t.Listen] = true
			e.serve(t.Listen)
		}
		up, err := e.peers.Upstream(fmt.Sprintf("u%d", j), t.Up, t.u, t.UActs)
		if err != nil {
			r.Trouble("listen %s: %v", t.Up, err)
			return
		}
		t.up = up
		t.cl = e.peers.Client(fmt.Sprintf("c%d", j), c09Addr(t.Client), t.Listen, t.c, t.CActs)
		t.cl.SetStalls(t.CStalls)
		t.up.SetStalls(t.UStalls)
		pc.peers[t.cl.Name], pc.peers[t.up.Name] = t.cl, t.up
		pc.tunnel[t.cl.Name], pc.tunnel[t.up.Name] = t, t
	}
	finished, stuck := e.run(600000, e.peers.Done)
	if !finished && !stuck {
		r.Trouble("step budget exhausted (%d peers not done)", len(sc.Tunnels))
		return
	}
	for _, t := range sc.Tunnels {
		c09Check(r, sc, t, t.cl.Complete() && t.up.Complete(), tm.entitled(t))
		// reads of fabio's two connection ends that returned the tail of a stream together with io.EOF
		if c := t.cl.Conn(); c != nil && c.Peer() != nil {
			r.ProbeN("fabio_read_data_with_eof_c2u", c.Peer().EOFWithDataReads())
		}
		if c := t.up.Conn(); c != nil && c.Peer() != nil {
			r.ProbeN("fabio_read_data_with_eof_u2c", c.Peer().EOFWithDataReads())
		}
	}
}

// c09Foreign says whose bytes the receiver got at offset at instead of its own stream's: bytes that
// another connection of the same run carried (either direction), "" if they are nobody's.
func c09Foreign(sc *c09Scenario, t *c09Tunnel, got []byte, at int) string {
	if at >= len(got) || len(got)-at < 8 {
		return ""
	}
	w := got[at:min(len(got), at+24)]
	for _, o := range sc.Tunnels {
		if o == t {
			continue
		}
		if q := bytes.Index(o.c, w); q >= 0 {
			return fmt.Sprintf("bytes that occur (at offset %d) in the stream of client %s", q, o.Client)
		}
		if q := bytes.Index(o.u, w); q >= 0 {
			return fmt.Sprintf("bytes that occur (at offset %d) in the stream of upstream %s", q, o.Up)
		}
	}
	return ""
}

func c09Check(r *simcore.Run, sc *c09Scenario, t *c09Tunnel, finished bool, entitled string) {
	path := " path=" + sc.Mode
	what := fmt.Sprintf("%s tunnel %s -> %s (pxyproto=%v, close order %s)", sc.Mode, t.Client, t.Up, t.Pxy, t.Order)
	wantUp := append(append([]byte(nil), t.hdr...), t.c...)
	gotUp, gotCl := t.up.Received(), t.cl.Received()
	r.Tracef("tunnel %s order=%s fault=%q may-time-out=%q up=%d/%d cl=%d/%d finished=%v", t.Client, t.Order, t.Fault, entitled, len(gotUp), len(wantUp), len(gotCl), len(t.u), finished)
	if next, _ := t.cl.Progress(); next == 0 && t.After > 0 {
		// the tunnel it waits for never came to its end, so this one never started: nothing to judge
		r.Probe("tunnel_never_started")
		return
	}
	if n := t.up.Extra(); n > 0 {
		r.Fail("dial", "more-than-one-upstream-connection"+path, "%s: the upstream received %d connections for one client connection", what, n+1)
	}
	upFull, clFull := c09Need(sc.Mode, t)
	if t.Order == "upstream-halfclose" && !t.Through && len(wantUp) > len(t.hdr)+t.HelloLen+t.CEarly {
		if ended, _ := t.cl.ReadEnd(); !ended {
			// the client sends the rest of its stream once it has seen the end of the upstream's stream
			// and never saw it: that a close is passed on is demanded only of the client's half-close,
			// so only what the client did send is demanded here
			wantUp = wantUp[:len(t.hdr)+t.HelloLen+t.CEarly]
			r.Probe("upstream_eof_not_propagated")
		}
	}
	kUp, atUp := simpeer.Diff(wantUp, gotUp)
	kCl, atCl := simpeer.Diff(t.u, gotCl)
	// bytes that are not the sender's: whose are they?
	var whoseUp, whoseCl string
	if kUp == "modified" {
		if whoseUp = c09Foreign(sc, t, gotUp, atUp); whoseUp != "" {
			kUp, whoseUp = "bytes-of-another-connection", ": the upstream received "+whoseUp
		}
	}
	if kCl == "modified" {
		if whoseCl = c09Foreign(sc, t, gotCl, atCl); whoseCl != "" {
			kCl, whoseCl = "bytes-of-another-connection", ": the client received "+whoseCl
		}
	}
	relaxed, under := t.Fault, "-under-reset"
	if t.Fault != "" {
		// relaxed for this tunnel only: whatever arrived is a prefix of what was sent
		r.Fault(t.Fault)
	} else if entitled != "" {
		// a configured timeout entitled fabio to end this tunnel (c09Timing): prefixes only
		relaxed, under = entitled, "-after-timeout"
		r.Probe("may_time_out_" + entitled)
	}
	if relaxed != "" {
		upFull, clFull = false, false
	}

	// the PROXY line
	if kUp != "" && atUp < len(t.hdr) && (kUp != "truncated" || upFull) {
		sig := "wrong"
		if atUp == 0 && (len(gotUp) == 0 || gotUp[0] != 'P') {
			sig = "missing"
		} else if kUp == "truncated" {
			sig = "incomplete"
		}
		r.Fail("proxy-line", sig+path, "%s: the upstream's stream must start with %q, it starts with %q", what, t.hdr, gotUp[:min(len(gotUp), len(t.hdr)+8)])
		return
	}
	if relaxed != "" {
		if kUp != "" && kUp != "truncated" {
			r.Fail("stream", "c2u/"+kUp+under+path, "%s with %s: the upstream's bytes differ from the sent stream at offset %d (%s)%s", what, relaxed, atUp-len(t.hdr), kUp, whoseUp)
		}
		if kCl != "" && kCl != "truncated" {
			r.Fail("stream", "u2c/"+kCl+under+path, "%s with %s: the client's bytes differ from the sent stream at offset %d (%s)%s", what, relaxed, atCl, kCl, whoseCl)
		}
		return
	}
	timing := ""
	if sc.ReadTimeout > 0 || sc.WriteTimeout > 0 {
		timing = fmt.Sprintf(" [listener read timeout %s, write timeout %s; the client was never silent for the read timeout before the end of its stream and never left fabio's bytes untaken for the write timeout]", sc.ReadTimeout, sc.WriteTimeout)
	}
	// half-close: the reply must arrive
	if t.Order == "halfclose" && kUp == "" && kCl == "truncated" {
		if ended, _ := t.up.ReadEnd(); !ended {
			r.Fail("halfclose", "eof-not-propagated"+path, "%s: the client half-closed after its %d bytes, all of them arrived, but the upstream never saw the end of the stream (so it cannot reply)%s", what, len(t.c), timing)
		} else {
			r.Fail("halfclose", "reply-lost"+path, "%s: the client half-closed after sending and kept reading; the upstream saw EOF and sent its reply, but the client received only %d of the upstream's %d bytes (the client's read ended with: %v)%s", what, len(gotCl), len(t.u), c09ReadErr(t.cl), timing)
		}
		return
	}
	// upstream half-close: what the client sends afterwards must arrive
	if t.Order == "upstream-halfclose" && kCl == "" && kUp == "truncated" {
		_, cwrote := t.cl.Progress()
		r.Fail("halfclose", "client-stream-cut-after-upstream-finished"+path, "%s: the upstream sent its %d bytes, half-closed and kept reading; all of its bytes reached the client, which had %d more bytes to send (it could write %d of its %d, write error: %v), but the upstream received only %d of the client's %d bytes%s", what, len(t.u), len(t.c)-t.HelloLen-t.CEarly, cwrote, len(t.c), t.cl.WriteErr(), max(len(gotUp)-len(t.hdr), 0), len(t.c), timing)
		return
	}
	fail := func(dir, kind string, at, got, want int, whose string) {
		r.Fail("stream", dir+"/"+kind+path, "%s: %s stream differs from what was sent at offset %d: %s (received %d bytes, sent %d)%s%s", what, dir, at, kind, got, want, whose, timing)
	}
	if kUp != "" && (kUp != "truncated" || upFull) {
		fail("c2u", kUp, atUp-len(t.hdr), len(gotUp)-len(t.hdr), len(t.c), whoseUp)
	}
	if kCl != "" && (kCl != "truncated" || clFull) {
		fail("u2c", kCl, atCl, len(gotCl), len(t.u), whoseCl)
	}
	if kUp == "" && kCl == "" {
		if len(t.c) > 0 || len(t.u) > 0 {
			r.Nontrivial()
		}
		if !finished {
			// all bytes arrived but a close was not passed on: outside the statement except for halfclose (above)
			r.Probe("complete_but_close_not_propagated")
		}
		r.Probe("order_" + t.Order)
		if t.Through {
			r.Probe("order_" + t.Order + "_without_waiting")
		}
		if t.HelloLen > 4096 {
			r.Probe("hello_above_4k")
		}
		if t.HelloLen > 12<<10 {
			r.Probe("hello_above_12k")
		}
		if t.HelloLen > 0 && t.HelloLen < 400 {
			r.Probe("hello_below_400")
		}
		if len(t.c) > 64<<10 || len(t.u) > 64<<10 {
			r.Probe("stream_above_window")
		}
		if len(t.Pauses) > 0 {
			r.Probe("complete_with_pauses")
		}
		if t.After > 0 {
			r.Probe("complete_after_another_tunnel")
			if p := sc.Tunnels[t.After-1]; p.HelloLen > t.HelloLen {
				r.Probe("hello_shorter_than_predecessor")
			}
		}
	}
}

func c09ReadErr(p *simpeer.Peer) error {
	_, err := p.ReadEnd()
	return err
}

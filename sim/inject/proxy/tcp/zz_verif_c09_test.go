//go:build verif

package tcp

// C09 — TCP, TCP+SNI and TCP-dynamic tunnels are transparent byte streams (harness H3).
//
// Real: tcp.Server.Serve on simnet listeners with Proxy / SNIProxy / DynamicProxy, copyBuffer,
// WriteProxyHeader, route.NewTable + Table.LookupHost as the Lookup function. The upstream dial goes
// through the net.DialTimeout shim into simnet. Clients and upstreams are raw scripted byte-stream
// peers (simpeer): every write, half-close, close and reset of a peer is a driver event, and so is
// every segment delivery (whole / fraction / 1 byte / <=1460) and every connection establishment.
// In part of the runs the fabio goroutines additionally yield at every statement of package tcp.
//
// Oracle (from the property text): the upstream receives [exact PROXY v1 line for the simulated
// addresses, if pxyproto=true] + the client's stream from byte 0 (on tcp+sni that stream starts with a
// genuine crypto/tls ClientHello); the client receives the upstream's stream; exactly once, in order,
// unmodified. Full delivery is demanded in every close order in which the statement demands it
// (see c09Need); under an injected reset only that tunnel is relaxed to "prefix".

import (
	"bytes"
	"context"
	"crypto/tls"
	"fmt"
	"io"
	"net"
	"strings"
	"testing/synctest"
	"time"

	"github.com/fabiolb/fabio/internal/zzverif/simcore"
	"github.com/fabiolb/fabio/internal/zzverif/simnet"
	"github.com/fabiolb/fabio/internal/zzverif/simpeer"
	"github.com/fabiolb/fabio/route"
)

func init() {
	zzHarnesses = append(zzHarnesses, &simcore.Harness{Name: "c09", Props: []string{"C09"}, Run: runC09})
}

// ---------------------------------------------------------------- H3 environment

type h3Env struct {
	r     *simcore.Run
	d     *simcore.Driver
	net   *simnet.Net
	peers *simpeer.Group
	srv   *Server
	// onDial is told about every upstream dial fabio makes, before it is made
	onDial func(addr string)
	nsrv   int
}

func h3NewEnv(r *simcore.Run) *h3Env {
	e := &h3Env{r: r}
	e.d = simcore.NewDriver(r)
	e.net = simnet.New(r)
	base := e.net.DialFunc()
	e.d.Sim.Dial = func(ctx context.Context, network, addr string, timeout, keepAlive time.Duration) (net.Conn, error) {
		if e.onDial != nil {
			e.onDial(addr)
		}
		return base(ctx, network, addr, timeout, keepAlive)
	}
	e.d.AddSource(e.net.Events)
	e.peers = simpeer.NewGroup(r, e.net)
	e.d.AddSource(e.peers.Events)
	return e
}

// serve runs the real accept loop of e.srv on a new simnet listener, as a task: the per-connection
// goroutines fabio starts become child tasks with deterministic names.
func (e *h3Env) serve(key string) {
	ln, err := e.net.Listen(key, simnet.ListenOpts{})
	if err != nil {
		e.r.Trouble("listen %s: %v", key, err)
		e.r.Abort()
	}
	name := fmt.Sprintf("srv%d", e.nsrv)
	e.nsrv++
	e.d.Sim.Spawn(name, func() { e.srv.Serve(ln) })
}

// run steps the driver until done() holds (finished), nothing is enabled any more (stuck) or the step
// budget is used up (neither).
func (e *h3Env) run(maxSteps int, done func() bool) (finished, stuck bool) {
	for i := 0; i < maxSteps; i++ {
		synctest.Wait()
		if done() {
			return true, false
		}
		if !e.d.Step() {
			synctest.Wait()
			return done(), true
		}
	}
	synctest.Wait()
	return done(), false
}

// clock offers small advances of the simulated clock, never more than budget in total (the budget
// stays below every configured timeout, so that no timeout fires in a run that injects none).
func (e *h3Env) clock(budget time.Duration) simcore.Source {
	var used time.Duration
	steps := []time.Duration{time.Millisecond, 20 * time.Millisecond, 300 * time.Millisecond, time.Second}
	return func() []simcore.Event {
		if used+time.Second > budget {
			return nil
		}
		return []simcore.Event{{Key: "zclock", Fire: func() {
			dt := steps[e.r.Sched.Intn(len(steps))]
			used += dt
			e.d.Advance(dt)
		}}}
	}
}

func (e *h3Env) finish() {
	e.peers.Stop()
	e.net.Shutdown()
	// every connection is reset now: let parked fabio tasks run to their natural end (a handler waits
	// on a channel for its copy goroutines, so tearing those down first would leave it blocked)
	for i := 0; i < 200000; i++ {
		synctest.Wait()
		en := e.d.Sim.Enabled()
		if len(en) == 0 {
			break
		}
		e.d.Sim.Release(en[0])
	}
	e.d.Finish()
}

// ---------------------------------------------------------------- genuine ClientHellos

type h3Capture struct{ buf bytes.Buffer }

func (c *h3Capture) Read([]byte) (int, error)         { return 0, io.EOF }
func (c *h3Capture) Write(b []byte) (int, error)      { return c.buf.Write(b) }
func (c *h3Capture) Close() error                     { return nil }
func (c *h3Capture) LocalAddr() net.Addr              { return &net.TCPAddr{} }
func (c *h3Capture) RemoteAddr() net.Addr             { return &net.TCPAddr{} }
func (c *h3Capture) SetDeadline(time.Time) error      { return nil }
func (c *h3Capture) SetReadDeadline(time.Time) error  { return nil }
func (c *h3Capture) SetWriteDeadline(time.Time) error { return nil }

// h3ClientHello returns the first TLS record a crypto/tls client with this configuration emits.
func h3ClientHello(cfg *tls.Config) []byte {
	c := &h3Capture{}
	tls.Client(c, cfg).Handshake() // fails after the first flight: there is no server
	b := c.buf.Bytes()
	if len(b) < 5 {
		return nil
	}
	n := 5 + (int(b[3])<<8 | int(b[4]))
	if n > len(b) {
		return nil
	}
	return append([]byte(nil), b[:n]...)
}

func h3ALPN(n, each int) []string {
	var out []string
	for i := 0; i < n; i++ {
		out = append(out, fmt.Sprintf("proto-%03d-%s", i, strings.Repeat("x", each)))
	}
	return out
}

// ---------------------------------------------------------------- scenario

type c09Tunnel struct {
	Client   string        `json:"client"`
	Listen   string        `json:"listener"`
	RouteSrc string        `json:"route_src"`
	Name     string        `json:"server_name,omitempty"`
	Hello    string        `json:"client_hello,omitempty"`
	HelloLen int           `json:"client_hello_len,omitempty"`
	Up       string        `json:"upstream"`
	Pxy      bool          `json:"pxyproto"`
	CLen     int           `json:"client_bytes"`
	ULen     int           `json:"upstream_bytes"`
	UEarly   int           `json:"upstream_bytes_before_client_eof,omitempty"`
	CEarly   int           `json:"client_bytes_before_upstream_eof,omitempty"`
	Through  bool          `json:"other_side_keeps_sending_without_waiting_for_eof,omitempty"`
	Order    string        `json:"close_order"`
	Fault    string        `json:"fault,omitempty"`
	CStalls  int           `json:"client_reader_stalls,omitempty"`
	UStalls  int           `json:"upstream_reader_stalls,omitempty"`
	CActs    []simpeer.Act `json:"client_script"`
	UActs    []simpeer.Act `json:"upstream_script"`

	hdr    []byte // expected PROXY line
	c, u   []byte // streams
	cl, up *simpeer.Peer
}

type c09Scenario struct {
	Mode         string        `json:"mode"`
	V6           bool          `json:"ipv6"`
	Tasks        bool          `json:"statement_level"`
	Stick        int           `json:"stick"`
	ReadTimeout  time.Duration `json:"read_timeout"`
	WriteTimeout time.Duration `json:"write_timeout"`
	// EOFWithData: the connections' Read returns the last bytes of a stream together with io.EOF when the
	// FIN has arrived before those bytes were read (legal for an io.Reader; crypto/tls does it)
	EOFWithData bool         `json:"read_returns_last_bytes_with_eof,omitempty"`
	Tunnels     []*c09Tunnel `json:"tunnels"`
	Table       string       `json:"table"`
}

// "halfclose" is the client half-closing first, "upstream-halfclose" its mirror.
var c09Orders = []string{"client-first", "upstream-first", "simultaneous", "halfclose", "client-abrupt", "upstream-abrupt", "upstream-halfclose"}
var c09Modes = []string{"tcp", "sni", "dynamic"}
var c09Timeouts = []time.Duration{0, 30 * time.Second, 5 * time.Minute}

func c09Size(g *simcore.Tape, max int) int {
	switch g.Intn(6) {
	case 0:
		return 0
	case 1:
		return g.Range(1, 64)
	case 2, 3:
		return g.Range(65, 5000)
	}
	return g.Range(5001, max)
}

func c09Writes(sizes []int) []simpeer.Act {
	var a []simpeer.Act
	for _, n := range sizes {
		a = append(a, simpeer.Act{Kind: simpeer.Write, N: n})
	}
	return a
}

func c09ProxyLine(client, listener *net.TCPAddr) string {
	fam := "TCP4"
	if client.IP.To4() == nil {
		fam = "TCP6"
	}
	return fmt.Sprintf("PROXY %s %s %s %d %d\r\n", fam, client.IP, listener.IP, client.Port, listener.Port)
}

func c09Addr(s string) *net.TCPAddr {
	a, err := net.ResolveTCPAddr("tcp", s) // literal addresses only: no lookup happens
	if err != nil {
		panic(err)
	}
	return a
}

func c09Gen(g *simcore.Tape, thorough bool) *c09Scenario {
	sc := &c09Scenario{}
	sc.Mode = simcore.Pick(g, c09Modes)
	sc.V6 = g.Chance(25)
	sc.Tasks = g.Chance(40)
	sc.Stick = simcore.Pick(g, []int{1, 3, 8})
	sc.ReadTimeout = simcore.Pick(g, c09Timeouts)
	sc.WriteTimeout = simcore.Pick(g, c09Timeouts)
	max := 72 << 10 // above the copy buffer (32 KiB) and the simnet window (64 KiB)
	if thorough {
		max = 200 << 10
	}
	nt := g.Range(1, 3)
	var table strings.Builder
	for j := 0; j < nt; j++ {
		t := &c09Tunnel{Up: fmt.Sprintf("up%d.sim:9000", j)}
		host, cip := "10.1.0.5", fmt.Sprintf("192.0.2.%d", 10+j)
		if sc.V6 {
			host, cip = "2001:db8:f::5", fmt.Sprintf("2001:db8::%x", 0xa0+j)
		}
		t.Client = net.JoinHostPort(cip, fmt.Sprint(5000+7*j))
		switch sc.Mode {
		case "sni":
			t.Listen = net.JoinHostPort(host, "443")
			t.Name = fmt.Sprintf("svc%d.example.com", j)
			t.RouteSrc = t.Name + "/"
		case "tcp":
			t.Listen = net.JoinHostPort(host, fmt.Sprint(7001+j))
			t.RouteSrc = fmt.Sprintf(":%d", 7001+j)
		case "dynamic":
			t.Listen = net.JoinHostPort(host, fmt.Sprint(7001+j))
			t.RouteSrc = fmt.Sprintf(":%d", 7001+j)
			if !sc.V6 && g.Bool() {
				t.RouteSrc = t.Listen
			}
		}
		t.Pxy = g.Bool()
		t.Order = simcore.Pick(g, c09Orders)
		t.CLen = c09Size(g, max)
		t.ULen = c09Size(g, max)
		if sc.Mode == "sni" {
			t.Hello = simcore.Pick(g, []string{"default", "x25519-only", "tls12", "alpn-6k"})
		}
		// half-close orders: one side sends its whole stream and half-closes, the other side has sent a
		// PRNG part of its stream by then and sends the rest (at least one byte) afterwards - either
		// after it has seen the end of the incoming stream (a reply) or without waiting for it (the
		// schedule decides where the half-close lands among its writes) - and then closes
		if t.Order == "halfclose" && t.ULen > 0 {
			t.UEarly = g.Intn(t.ULen)
		}
		if t.Order == "upstream-halfclose" && t.CLen > 0 {
			t.CEarly = g.Intn(t.CLen)
		}
		if t.Order == "halfclose" || t.Order == "upstream-halfclose" {
			t.Through = g.Chance(40)
		}
		if g.Chance(12) {
			t.Fault = simcore.Pick(g, []string{"reset-client", "reset-upstream"})
		}
		if g.Chance(20) {
			t.CStalls = g.Range(1, 2)
		}
		if g.Chance(20) {
			t.UStalls = g.Range(1, 2)
		}
		fmt.Fprintf(&table, "route add svc%d %s tcp://%s", j, t.RouteSrc, t.Up)
		if t.Pxy {
			table.WriteString(` opts "pxyproto=true"`)
		}
		table.WriteString("\n")
		sc.Tunnels = append(sc.Tunnels, t)
	}
	sc.Table = table.String()
	sc.EOFWithData = g.Chance(35)
	return sc
}

// c09Build creates streams and scripts (needs the bubble: the hello comes from crypto/tls).
func c09Build(g *simcore.Tape, sc *c09Scenario) {
	for j, t := range sc.Tunnels {
		var hello []byte
		if sc.Mode == "sni" {
			cfg := &tls.Config{ServerName: t.Name, InsecureSkipVerify: true}
			switch t.Hello {
			case "x25519-only":
				cfg.CurvePreferences = []tls.CurveID{tls.X25519}
			case "tls12":
				cfg.MaxVersion = tls.VersionTLS12
			case "alpn-6k":
				cfg.NextProtos = h3ALPN(30, 190)
			}
			hello = h3ClientHello(cfg)
			t.HelloLen = len(hello)
		}
		t.c = append(hello, simpeer.Stream(g, t.CLen, 0xC0000000|uint32(j)<<20)...)
		t.u = simpeer.Stream(g, t.ULen, 0x50000000|uint32(j)<<20)
		if t.Pxy {
			t.hdr = []byte(c09ProxyLine(c09Addr(t.Client), c09Addr(t.Listen)))
		}
		act := func(k string, n int) simpeer.Act { return simpeer.Act{Kind: k, N: n} }
		// the writing phase of a side that sends a first part, then (unless Through) waits for the end of
		// the incoming stream, then sends the rest
		twoParts := func(total, first int) []simpeer.Act {
			a := c09Writes(simpeer.Chunks(g, first, 12))
			if !t.Through {
				a = append(a, act(simpeer.AwaitEOF, 0))
			}
			return append(a, c09Writes(simpeer.Chunks(g, total-first, 12))...)
		}
		var cw, uw []simpeer.Act
		switch t.Order {
		case "halfclose":
			cw = c09Writes(simpeer.Chunks(g, len(t.c), 24))
			uw = twoParts(t.ULen, t.UEarly)
		case "upstream-halfclose":
			cw = twoParts(len(t.c), len(hello)+t.CEarly) // the hello is what makes fabio dial at all
			uw = c09Writes(simpeer.Chunks(g, t.ULen, 24))
		default:
			cw = c09Writes(simpeer.Chunks(g, len(t.c), 24))
			uw = c09Writes(simpeer.Chunks(g, t.ULen, 24))
		}
		toUp := len(t.hdr) + len(t.c)
		ca := append([]simpeer.Act{act(simpeer.Dial, 0)}, cw...)
		ua := uw
		switch t.Order {
		case "client-first":
			ca = append(ca, act(simpeer.Await, t.ULen), act(simpeer.Close, 0))
			ua = append(ua, act(simpeer.AwaitEOF, 0), act(simpeer.Close, 0))
		case "upstream-first":
			ca = append(ca, act(simpeer.AwaitEOF, 0), act(simpeer.Close, 0))
			ua = append(ua, act(simpeer.Await, toUp), act(simpeer.Close, 0))
		case "simultaneous":
			ca = append(ca, act(simpeer.Await, t.ULen), act(simpeer.Close, 0))
			ua = append(ua, act(simpeer.Await, toUp), act(simpeer.Close, 0))
		case "halfclose":
			// both sides close only after they have seen the end of the other side's stream
			ca = append(ca, act(simpeer.CloseWrite, 0), act(simpeer.AwaitEOF, 0), act(simpeer.Close, 0))
			ua = append(ua, act(simpeer.AwaitEOF, 0), act(simpeer.Close, 0))
		case "upstream-halfclose":
			ua = append(ua, act(simpeer.CloseWrite, 0), act(simpeer.AwaitEOF, 0), act(simpeer.Close, 0))
			ca = append(ca, act(simpeer.AwaitEOF, 0), act(simpeer.Close, 0))
		case "client-abrupt":
			ca = append(ca, act(simpeer.Close, 0))
			ua = append(ua, act(simpeer.AwaitEOF, 0), act(simpeer.Close, 0))
		case "upstream-abrupt":
			ca = append(ca, act(simpeer.AwaitEOF, 0), act(simpeer.Close, 0))
			ua = append(ua, act(simpeer.Close, 0))
		}
		// fault: a reset somewhere inside the writing phase of one side
		insert := func(a []simpeer.Act, first, nwrites int) []simpeer.Act {
			at := first + g.Intn(nwrites+1)
			out := append([]simpeer.Act{}, a[:at]...)
			out = append(out, act(simpeer.Reset, 0))
			return append(out, a[at:]...)
		}
		switch t.Fault {
		case "reset-client":
			ca = insert(ca, 1, len(cw))
		case "reset-upstream":
			ua = insert(ua, 0, len(uw))
		}
		t.CActs, t.UActs = ca, ua
	}
}

// c09Need says for which directions the statement demands complete delivery in this close order.
//
//   - client-first / upstream-first / simultaneous: the closing side closes after it has received
//     everything the other side sends (it may still have its own tail in flight) - both complete.
//   - halfclose: the client half-closes after sending, the upstream sends the rest of its stream
//     (after it saw the end, or without waiting for it) - both complete ("still receives the reply").
//   - upstream-halfclose: the mirror. The upstream finishes first ("has had all of its data
//     delivered"), the tunnel is still up and the client goes on sending: "every byte one side sends
//     is delivered" - both complete. What the client never got to send because it waits for an end of
//     stream that was not passed on is not demanded (see c09Check).
//   - *-abrupt: one side closes right after its last write while the other may still be sending. The
//     statement speaks about the finishing side's own bytes only, and a full close with data still
//     arriving may be answered with a reset that destroys data in flight in either direction (TCP,
//     and simnet models it) - so completeness of the finisher's bytes is demanded only if nothing at
//     all travels towards it; the opposite direction is always just a prefix.
func c09Need(mode string, t *c09Tunnel) (upFull, clFull bool) {
	switch t.Order {
	case "client-abrupt":
		return t.ULen == 0, false
	case "upstream-abrupt":
		return false, len(t.hdr)+len(t.c) == 0
	}
	return true, true
}

// ---------------------------------------------------------------- the run

func runC09(r *simcore.Run) {
	sc := c09Gen(r.Gen, r.Thorough())
	r.SetSample(sc)
	e := h3NewEnv(r)
	defer e.finish()
	e.net.EOFWithData = sc.EOFWithData
	c09Build(r.Gen, sc)

	tbl, err := route.NewTable(bytes.NewBufferString(sc.Table))
	if err != nil {
		r.Trouble("scenario table does not parse: %v\n%s", err, sc.Table)
		return
	}
	lookup := func(host string) *route.Target { return tbl.LookupHost(host, route.Picker["rnd"]) }
	var h Handler
	switch sc.Mode {
	case "tcp":
		h = &Proxy{DialTimeout: 20 * time.Second, Lookup: lookup}
	case "sni":
		h = &SNIProxy{DialTimeout: 20 * time.Second, Lookup: lookup}
	case "dynamic":
		h = &DynamicProxy{DialTimeout: 20 * time.Second, Lookup: lookup}
	}
	e.srv = &Server{Handler: h, ReadTimeout: sc.ReadTimeout, WriteTimeout: sc.WriteTimeout}
	if sc.Tasks {
		e.d.Sim.Activate("proxy/tcp")
	}
	e.d.Stick = sc.Stick
	if sc.ReadTimeout > 0 || sc.WriteTimeout > 0 {
		e.d.AddSource(e.clock(8 * time.Second)) // below the dial timeout and every configured read/write timeout
	}
	listening := map[string]bool{}
	for j, t := range sc.Tunnels {
		if !listening[t.Listen] {
			listening[t.Listen] = true
			e.serve(t.Listen)
		}
		up, err := e.peers.Upstream(fmt.Sprintf("u%d", j), t.Up, t.u, t.UActs)
		if err != nil {
			r.Trouble("listen %s: %v", t.Up, err)
			return
		}
		t.up = up
		t.cl = e.peers.Client(fmt.Sprintf("c%d", j), c09Addr(t.Client), t.Listen, t.c, t.CActs)
		t.cl.SetStalls(t.CStalls)
		t.up.SetStalls(t.UStalls)
	}
	finished, stuck := e.run(600000, e.peers.Done)
	if !finished && !stuck {
		r.Trouble("step budget exhausted (%d peers not done)", len(sc.Tunnels))
		return
	}
	for _, t := range sc.Tunnels {
		c09Check(r, sc, t, t.cl.Complete() && t.up.Complete())
		// reads of fabio's two connection ends that returned the tail of a stream together with io.EOF
		if c := t.cl.Conn(); c != nil && c.Peer() != nil {
			r.ProbeN("fabio_read_data_with_eof_c2u", c.Peer().EOFWithDataReads())
		}
		if c := t.up.Conn(); c != nil && c.Peer() != nil {
			r.ProbeN("fabio_read_data_with_eof_u2c", c.Peer().EOFWithDataReads())
		}
	}
}

func c09Check(r *simcore.Run, sc *c09Scenario, t *c09Tunnel, finished bool) {
	path := " path=" + sc.Mode
	what := fmt.Sprintf("%s tunnel %s -> %s (pxyproto=%v, close order %s)", sc.Mode, t.Client, t.Up, t.Pxy, t.Order)
	wantUp := append(append([]byte(nil), t.hdr...), t.c...)
	gotUp, gotCl := t.up.Received(), t.cl.Received()
	r.Tracef("tunnel %s order=%s fault=%q up=%d/%d cl=%d/%d finished=%v", t.Client, t.Order, t.Fault, len(gotUp), len(wantUp), len(gotCl), len(t.u), finished)
	if n := t.up.Extra(); n > 0 {
		r.Fail("dial", "more-than-one-upstream-connection"+path, "%s: the upstream received %d connections for one client connection", what, n+1)
	}
	upFull, clFull := c09Need(sc.Mode, t)
	if t.Order == "upstream-halfclose" && !t.Through && len(wantUp) > len(t.hdr)+t.HelloLen+t.CEarly {
		if ended, _ := t.cl.ReadEnd(); !ended {
			// the client sends the rest of its stream once it has seen the end of the upstream's stream
			// and never saw it: that a close is passed on is demanded only of the client's half-close,
			// so only what the client did send is demanded here
			wantUp = wantUp[:len(t.hdr)+t.HelloLen+t.CEarly]
			r.Probe("upstream_eof_not_propagated")
		}
	}
	kUp, atUp := simpeer.Diff(wantUp, gotUp)
	kCl, atCl := simpeer.Diff(t.u, gotCl)
	if t.Fault != "" {
		// relaxed for this tunnel only: whatever arrived is a prefix of what was sent
		r.Fault(t.Fault)
		upFull, clFull = false, false
	}

	// the PROXY line
	if kUp != "" && atUp < len(t.hdr) && (kUp != "truncated" || upFull) {
		sig := "wrong"
		if atUp == 0 && (len(gotUp) == 0 || gotUp[0] != 'P') {
			sig = "missing"
		} else if kUp == "truncated" {
			sig = "incomplete"
		}
		r.Fail("proxy-line", sig+path, "%s: the upstream's stream must start with %q, it starts with %q", what, t.hdr, gotUp[:min(len(gotUp), len(t.hdr)+8)])
		return
	}
	if t.Fault != "" {
		if kUp != "" && kUp != "truncated" {
			r.Fail("stream", "c2u/"+kUp+"-under-reset"+path, "%s with %s: the upstream's bytes differ from the sent stream at offset %d (%s)", what, t.Fault, atUp-len(t.hdr), kUp)
		}
		if kCl != "" && kCl != "truncated" {
			r.Fail("stream", "u2c/"+kCl+"-under-reset"+path, "%s with %s: the client's bytes differ from the sent stream at offset %d (%s)", what, t.Fault, atCl, kCl)
		}
		return
	}
	// half-close: the reply must arrive
	if t.Order == "halfclose" && kUp == "" && kCl == "truncated" {
		if ended, _ := t.up.ReadEnd(); !ended {
			r.Fail("halfclose", "eof-not-propagated"+path, "%s: the client half-closed after its %d bytes, all of them arrived, but the upstream never saw the end of the stream (so it cannot reply)", what, len(t.c))
		} else {
			r.Fail("halfclose", "reply-lost"+path, "%s: the client half-closed after sending and kept reading; the upstream saw EOF and sent its reply, but the client received only %d of the upstream's %d bytes", what, len(gotCl), len(t.u))
		}
		return
	}
	// upstream half-close: what the client sends afterwards must arrive
	if t.Order == "upstream-halfclose" && kCl == "" && kUp == "truncated" {
		_, cwrote := t.cl.Progress()
		r.Fail("halfclose", "client-stream-cut-after-upstream-finished"+path, "%s: the upstream sent its %d bytes, half-closed and kept reading; all of its bytes reached the client, which had %d more bytes to send (it could write %d of its %d, write error: %v), but the upstream received only %d of the client's %d bytes", what, len(t.u), len(t.c)-t.HelloLen-t.CEarly, cwrote, len(t.c), t.cl.WriteErr(), max(len(gotUp)-len(t.hdr), 0), len(t.c))
		return
	}
	fail := func(dir, kind string, at, got, want int) {
		r.Fail("stream", dir+"/"+kind+path, "%s: %s stream differs from what was sent at offset %d: %s (received %d bytes, sent %d)", what, dir, at, kind, got, want)
	}
	if kUp != "" && (kUp != "truncated" || upFull) {
		fail("c2u", kUp, atUp-len(t.hdr), len(gotUp)-len(t.hdr), len(t.c))
	}
	if kCl != "" && (kCl != "truncated" || clFull) {
		fail("u2c", kCl, atCl, len(gotCl), len(t.u))
	}
	if kUp == "" && kCl == "" {
		if len(t.c) > 0 || len(t.u) > 0 {
			r.Nontrivial()
		}
		if !finished {
			// all bytes arrived but a close was not passed on: outside the statement except for halfclose (above)
			r.Probe("complete_but_close_not_propagated")
		}
		r.Probe("order_" + t.Order)
		if t.Through {
			r.Probe("order_" + t.Order + "_without_waiting")
		}
		if t.HelloLen > 4096 {
			r.Probe("hello_above_4k")
		}
		if len(t.c) > 64<<10 || len(t.u) > 64<<10 {
			r.Probe("stream_above_window")
		}
	}
}

//go:build verif

package tcp

// C10 — SNI routing uses the server name the TLS stack itself would see (rider on H3).
//
// Real: tcp.Server.Serve + SNIProxy (clientHelloBufferSize, readServerName, the tunnel) with
// route.NewTable / Table.LookupHost as Lookup, and on both ends of the tunnel the real crypto/tls:
// clients are crypto/tls clients with PRNG configurations (versions 1.0-1.3, server names long /
// punycode / mixed case / trailing dot / single label / absent / IP literal / unrouted, ALPN lists up
// to several KiB, cipher and curve lists incl. X25519MLKEM768, session resumption), every upstream is
// a crypto/tls server whose GetConfigForClient records ClientHelloInfo.ServerName. Faulted clients
// are raw: a genuine hello captured from crypto/tls, then truncated at a PRNG offset, with 1-3 bytes
// flipped, with an inflated record or handshake length, or followed by more bytes in the same flight
// (what a client with early data emits). The driver chooses every segmentation.
//
// Oracle, per client connection (the reference is crypto/tls itself: the bytes the client really sent
// are fed to a crypto/tls server offline, which either reports a name or rejects them):
//  1. reference parses and its lower-cased name has a route  -> fabio dials exactly that upstream;
//     reference parses, name empty or without route          -> fabio dials nothing;
//     hello truncated inside its first record                 -> fabio dials nothing;
//     reference rejects the (corrupted) bytes                 -> no demand on routing;
//     and every upstream's own TLS stack, when it reports a name, reports one routed to itself.
//  2. bytes fabio has consumed from the client when it dials <= 5 + announced record length.
//  3. never a panic (tasks report them), an unfaulted routed client completes a TLS session.

import (
	"bytes"
	"crypto/rand"
	"crypto/rsa"
	"crypto/tls"
	"crypto/x509"
	"crypto/x509/pkix"
	"errors"
	"fmt"
	"io"
	"math/big"
	"net"
	"strconv"
	"strings"
	"sync"
	"time"

	"github.com/fabiolb/fabio/internal/zzverif/simcore"
	"github.com/fabiolb/fabio/internal/zzverif/simhook"
	"github.com/fabiolb/fabio/internal/zzverif/simnet"
	"github.com/fabiolb/fabio/route"
)

func init() {
	zzHarnesses = append(zzHarnesses, &simcore.Harness{Name: "c10", Props: []string{"C10"}, Run: runC10})
}

var c10CertOnce sync.Once
var c10Cert tls.Certificate

// c10RSACert: RSA-2048 (PKCS#1 v1.5 / PSS signatures are always 256 bytes, so TLS record sizes do not
// vary between executions) because TLS 1.0/1.1 cannot use an Ed25519 certificate.
func c10RSACert() tls.Certificate {
	c10CertOnce.Do(func() {
		key, err := rsa.GenerateKey(rand.Reader, 2048)
		if err != nil {
			panic(err)
		}
		tmpl := &x509.Certificate{SerialNumber: big.NewInt(1), Subject: pkix.Name{CommonName: "sim"},
			NotBefore: time.Date(1999, 1, 1, 0, 0, 0, 0, time.UTC), NotAfter: time.Date(2100, 1, 1, 0, 0, 0, 0, time.UTC),
			DNSNames: []string{"*.sim"}, KeyUsage: x509.KeyUsageDigitalSignature | x509.KeyUsageKeyEncipherment, ExtKeyUsage: []x509.ExtKeyUsage{x509.ExtKeyUsageServerAuth}}
		der, err := x509.CreateCertificate(rand.Reader, tmpl, tmpl, &key.PublicKey, key)
		if err != nil {
			panic(err)
		}
		c10Cert = tls.Certificate{Certificate: [][]byte{der}, PrivateKey: key}
	})
	return c10Cert
}

// ---------------------------------------------------------------- names and routes

type c10Name struct {
	Label string // scenario label
	SNI   string // tls.Config.ServerName of the client
	Route string // route source host ("" = no route)
}

var c10Long = strings.Repeat("a", 63) + "." + strings.Repeat("b", 63) + "." + strings.Repeat("c", 63) + "." + strings.Repeat("d", 57) + ".io"

var c10Names = []c10Name{
	{"plain", "svc0.example.com", "svc0.example.com"},
	{"long-253", c10Long, c10Long},
	{"punycode", "xn--bcher-kva.xn--p1ai", "xn--bcher-kva.xn--p1ai"},
	{"mixed-case", "MiXeD.Example.COM", "mixed.example.com"},
	{"trailing-dot", "dot.example.com.", "dot.example.com"},
	{"single-label", "localhost", "localhost"},
	{"underscore-digits", "_srv-1.0x7f.example.org", "_srv-1.0x7f.example.org"},
	{"absent", "", ""},
	{"ip-literal", "192.0.2.77", ""},
	{"no-route", "unknown.example.net", ""},
	{"prefix-of-routed", "svc0.example.co", ""},
}

func c10UpKey(i int) string { return fmt.Sprintf("tlsup%d.sim:443", i) }

// ---------------------------------------------------------------- scenario

type c10Mutation struct {
	Kind  string `json:"kind"` // truncate | flip | inflate-record | inflate-both | tail | field
	At    []int  `json:"at,omitempty"`
	Xor   []int  `json:"xor,omitempty"`
	How   []int  `json:"how,omitempty"` // field: 0 set to 0, 1 set to 1, 2 minus one, 3 plus one, 4 set to 255, 5 xor
	Delta int    `json:"delta,omitempty"`
	Tail  int    `json:"tail_bytes,omitempty"`
	Then  string `json:"then"` // close | wait
}

type c10Client struct {
	Addr    string       `json:"addr"`
	Name    string       `json:"name"`
	MinV    string       `json:"min_version"`
	MaxV    string       `json:"max_version"`
	ALPN    int          `json:"alpn_entries"`
	ALPNLen int          `json:"alpn_entry_len"`
	Curves  string       `json:"curves"`
	Ciphers string       `json:"ciphers"`
	Resume  bool         `json:"second_connection_resumes,omitempty"`
	Mut     *c10Mutation `json:"mutation,omitempty"`
	Chunks  []int        `json:"write_sizes,omitempty"`

	name c10Name
}

type c10Scenario struct {
	// Tasks: fabio's per-connection handlers interleave at statement level inside the ClientHello
	// handling (SNIProxy.ServeTCP, clientHelloBufferSize, readServerName, clientHelloMsg.unmarshal)
	Tasks   bool         `json:"statement_level"`
	Stick   int          `json:"stick,omitempty"`
	Clients []*c10Client `json:"clients"`
	Table   string       `json:"table"`
}

var c10Versions = []struct {
	n string
	v uint16
}{{"1.2", tls.VersionTLS12}, {"1.3", tls.VersionTLS13}, {"1.0", tls.VersionTLS10}, {"1.1", tls.VersionTLS11}}

func c10Ver(s string) uint16 {
	for _, x := range c10Versions {
		if x.n == s {
			return x.v
		}
	}
	return 0
}

func c10Gen(g *simcore.Tape, thorough bool) *c10Scenario {
	sc := &c10Scenario{}
	var tb strings.Builder
	for i, n := range c10Names {
		if n.Route != "" {
			fmt.Fprintf(&tb, "route add svc%d %s/ tcp://%s\n", i, n.Route, c10UpKey(i))
		}
	}
	sc.Table = tb.String()
	nc := g.Range(1, 3)
	if sc.Tasks = g.Chance(35); sc.Tasks {
		// two to four connections, each with another name, whose hellos fabio handles at the same time
		nc = g.Range(2, 4)
		sc.Stick = simcore.Pick(g, []int{1, 3, 8})
	}
	used := map[int]bool{}
	for j := 0; j < nc; j++ {
		c := &c10Client{Addr: fmt.Sprintf("192.0.2.%d:%d", 10+j, 5000+100*j)}
		k := g.Intn(len(c10Names))
		for used[k] {
			k = (k + 1) % len(c10Names)
		}
		used[k] = true
		c.name = c10Names[k]
		c.Name = c.name.Label
		// versions: value 0 = library defaults
		switch g.Intn(6) {
		case 0:
		case 1:
			c.MaxV = "1.2"
		case 2:
			c.MinV, c.MaxV = "1.0", "1.0"
		case 3:
			c.MinV, c.MaxV = "1.0", "1.1"
		case 4:
			c.MinV = "1.3"
		case 5:
			c.MinV, c.MaxV = "1.0", "1.3"
		}
		switch g.Intn(4) {
		case 1:
			c.ALPN, c.ALPNLen = 2, 8
		case 2:
			c.ALPN, c.ALPNLen = g.Range(3, 12), g.Range(1, 60)
		case 3:
			c.ALPN, c.ALPNLen = g.Range(20, 40), g.Range(100, 240) // 2-10 KiB of ALPN
		}
		c.Curves = simcore.Pick(g, []string{"default", "x25519", "mlkem-x25519", "p256-p384-p521", "mlkem-p256"})
		c.Ciphers = simcore.Pick(g, []string{"default", "cbc-sha", "gcm-chacha", "everything"})
		switch {
		case g.Chance(45):
			kinds := []string{"truncate", "flip", "inflate-record", "inflate-both", "tail", "field"}
			if sc.Tasks {
				// flip and field can make fabio's parser walk over the random parts of the hello (key
				// shares, session id) as if they were framing: how many statements it executes then
				// depends on crypto/rand, which must not reach the schedule. With statement-level tasks
				// only damage that leaves the framing of the hello intact is used; the parse of one
				// damaged hello is sequential code and is explored in the other runs.
				kinds = []string{"truncate", "inflate-record", "inflate-both", "tail"}
			}
			m := &c10Mutation{Kind: simcore.Pick(g, kinds)}
			switch m.Kind {
			case "truncate":
				m.At = []int{g.Intn(1 << 16)} // reduced modulo the hello length
			case "flip":
				for i, n := 0, g.Range(1, 3); i < n; i++ {
					m.At = append(m.At, g.Intn(1<<16))
					m.Xor = append(m.Xor, 1+g.Intn(255))
				}
			case "field":
				// damage that lands on the framing: 1-2 bytes of the length / type fields of the hello
				// (record, handshake, session id, cipher suites, compression, extension block, every
				// extension header, the server name list) become 0, 1, one less, one more, 255 or anything
				for i, n := 0, g.Range(1, 2); i < n; i++ {
					m.At = append(m.At, g.Intn(1<<16)) // reduced modulo the number of such bytes
					m.How = append(m.How, g.Intn(6))
					m.Xor = append(m.Xor, 1+g.Intn(255))
				}
			case "inflate-record", "inflate-both":
				m.Delta = g.Range(1, 2000)
			case "tail":
				m.Tail = g.Range(1, 6000)
			}
			m.Then = simcore.Pick(g, []string{"wait", "close"})
			c.Mut = m
			c.Chunks = []int{g.Intn(1 << 16), g.Intn(1 << 16)}
		case g.Chance(35):
			c.Resume = true
		}
		sc.Clients = append(sc.Clients, c)
	}
	return sc
}

func (c *c10Client) tlsConfig() *tls.Config {
	cfg := &tls.Config{ServerName: c.name.SNI, InsecureSkipVerify: true, MinVersion: c10Ver(c.MinV), MaxVersion: c10Ver(c.MaxV)}
	if c.ALPN > 0 {
		for i := 0; i < c.ALPN; i++ {
			p := fmt.Sprintf("p%02d-", i)
			if len(p) < c.ALPNLen {
				p += strings.Repeat("x", c.ALPNLen-len(p))
			}
			cfg.NextProtos = append(cfg.NextProtos, p)
		}
	}
	switch c.Curves {
	case "x25519":
		cfg.CurvePreferences = []tls.CurveID{tls.X25519}
	case "mlkem-x25519":
		cfg.CurvePreferences = []tls.CurveID{tls.X25519MLKEM768, tls.X25519}
	case "p256-p384-p521":
		cfg.CurvePreferences = []tls.CurveID{tls.CurveP256, tls.CurveP384, tls.CurveP521}
	case "mlkem-p256":
		cfg.CurvePreferences = []tls.CurveID{tls.X25519MLKEM768, tls.CurveP256}
	}
	switch c.Ciphers {
	case "cbc-sha":
		cfg.CipherSuites = []uint16{tls.TLS_ECDHE_ECDSA_WITH_AES_128_CBC_SHA, tls.TLS_ECDHE_RSA_WITH_AES_128_CBC_SHA, tls.TLS_ECDHE_RSA_WITH_AES_256_CBC_SHA}
	case "gcm-chacha":
		cfg.CipherSuites = []uint16{tls.TLS_ECDHE_RSA_WITH_CHACHA20_POLY1305_SHA256, tls.TLS_ECDHE_ECDSA_WITH_AES_256_GCM_SHA384, tls.TLS_ECDHE_RSA_WITH_AES_128_GCM_SHA256,
			tls.TLS_ECDHE_RSA_WITH_AES_128_CBC_SHA}
	case "everything":
		for _, s := range tls.CipherSuites() {
			cfg.CipherSuites = append(cfg.CipherSuites, s.ID)
		}
		for _, s := range tls.InsecureCipherSuites() {
			cfg.CipherSuites = append(cfg.CipherSuites, s.ID)
		}
	}
	return cfg
}

// ---------------------------------------------------------------- reference: crypto/tls on the same bytes

type c10Feed struct {
	h3Capture
	in *bytes.Reader
}

func (c *c10Feed) Read(b []byte) (int, error) { return c.in.Read(b) }

var errC10Stop = errors.New("reference: stop after the ClientHello")

// c10Reference feeds b to a crypto/tls server: parsed reports whether the server accepted the bytes as a
// ClientHello (it calls GetConfigForClient right after parsing it), name is what it reports.
func c10Reference(b []byte) (parsed bool, name string) {
	cfg := &tls.Config{MinVersion: tls.VersionTLS10, GetConfigForClient: func(chi *tls.ClientHelloInfo) (*tls.Config, error) {
		parsed, name = true, chi.ServerName
		return nil, errC10Stop
	}}
	tls.Server(&c10Feed{in: bytes.NewReader(b)}, cfg).Handshake()
	return
}

// ---------------------------------------------------------------- observations

type c10Conn struct {
	client   *c10Client
	idx      int          // 0, 1 (resumption)
	sc       *simnet.Conn // client-side endpoint
	sent     []byte       // everything the client wrote up to the end of its first flight
	kind     string       // tls | raw
	hsErr    error
	hsDone   bool
	echoOK   bool
	resumed  bool
	version  uint16
	finished bool
	// filled in by the dial hook (fabio's handler task for this connection)
	dialed   []string
	consumed int64
}

type c10UpConn struct {
	up     int
	called bool
	name   string
	hsErr  error
}

type c10Env struct {
	*h3Env
	mu     sync.Mutex
	conns  []*c10Conn // in order of creation by the clients
	ups    []*c10UpConn
	giveup chan struct{}
	active int // client goroutines still running
}

// recConn records what a crypto/tls client writes.
type c10RecConn struct {
	net.Conn
	env *c10Env
	cc  *c10Conn
}

func (r *c10RecConn) Write(b []byte) (int, error) {
	r.env.mu.Lock()
	if len(r.cc.sent) < 1<<17 {
		r.cc.sent = append(r.cc.sent, b...)
	}
	r.env.mu.Unlock()
	return r.Conn.Write(b)
}

func c10FirstRecord(b []byte) (rec []byte, announced int, complete bool) {
	if len(b) < 5 {
		return b, -1, false
	}
	announced = int(b[3])<<8 | int(b[4])
	if len(b) < 5+announced {
		return b, announced, false
	}
	return b[:5+announced], announced, true
}

// ---------------------------------------------------------------- the run

func runC10(r *simcore.Run) {
	sc := c10Gen(r.Gen, r.Thorough())
	r.SetSample(sc)
	e := &c10Env{h3Env: h3NewEnv(r), giveup: make(chan struct{})}
	defer e.finish()

	tbl, err := route.NewTable(bytes.NewBufferString(sc.Table))
	if err != nil {
		r.Trouble("scenario table does not parse: %v\n%s", err, sc.Table)
		return
	}
	lookup := func(host string) *route.Target { return tbl.LookupHost(host, route.Picker["rnd"]) }
	e.srv = &Server{Handler: &SNIProxy{DialTimeout: 20 * time.Second, Lookup: lookup}}
	const listen = "10.1.0.5:443"
	// fabio's handler for the k-th accepted connection is the task srv0/k; the k-th accepted connection is
	// the k-th established one: that is how a dial is attributed to a client connection
	e.onDial = func(addr string) {
		task := simhook.CurrentTask()
		k, err := strconv.Atoi(strings.TrimPrefix(task, "srv0/"))
		if err != nil {
			return
		}
		cl := e.net.Conns(listen)
		if k < 1 || k > len(cl) {
			return
		}
		_, _, read := cl[k-1].Counters()
		e.mu.Lock()
		for _, cc := range e.conns {
			if cc.sc == cl[k-1] {
				cc.dialed = append(cc.dialed, addr)
				if len(cc.dialed) == 1 {
					cc.consumed = read
				}
			}
		}
		e.mu.Unlock()
	}
	if sc.Tasks {
		// the handler tasks (children of the accept-loop task) yield at every statement of the hello
		// handling, so the driver interleaves the parsing of hellos that are in fabio at the same time
		e.d.Sim.Activate("tcp:readServerName", "tcp:*clientHelloMsg", "tcp:*SNIProxy", "tcp:clientHelloBufferSize")
		e.d.Stick = sc.Stick
		overlap := false
		e.d.Invariant = func() {
			if !overlap && e.d.Sim.InFunc("tcp", "readServerName")+e.d.Sim.InFunc("tcp", "*clientHelloMsg") >= 2 {
				overlap = true
				r.Probe("hellos_parsed_at_the_same_time")
			}
		}
	}
	e.serve(listen)

	cert := c10RSACert()
	for i, n := range c10Names {
		if n.Route == "" {
			continue
		}
		e.tlsUpstream(i, cert)
	}
	for _, c := range sc.Clients {
		// the records exist, in scenario order, before any client goroutine runs
		var ccs []*c10Conn
		for i, n := 0, c.nconn(); i < n; i++ {
			cc := &c10Conn{client: c, idx: i, kind: "tls"}
			if c.Mut != nil {
				cc.kind = "raw"
			}
			ccs = append(ccs, cc)
			e.conns = append(e.conns, cc)
		}
		e.active++
		go e.runClient(listen, c, ccs)
	}
	done := func() bool {
		e.mu.Lock()
		defer e.mu.Unlock()
		return e.active == 0 && !e.net.Pending()
	}
	finished, stuck := e.run(400000, done)
	if !finished && stuck {
		// raw clients that wait for fabio's verdict give up now (an inflated length leaves fabio waiting)
		close(e.giveup)
		r.Tracef("give up waiting")
		finished, stuck = e.run(400000, done)
	}
	if !finished && !stuck {
		r.Trouble("step budget exhausted")
		return
	}
	// let the tails of closed tunnels drain so that every upstream has seen its connection
	e.run(100000, func() bool { return false })
	c10Check(r, sc, e)
}

var errC10Raw = errors.New("upstream: hello of a raw client, handshake not continued")

// c10UpRec records the first bytes an upstream reads from its connection.
type c10UpRec struct {
	net.Conn
	env *c10Env
	got []byte
}

func (c *c10UpRec) Read(b []byte) (int, error) {
	n, err := c.Conn.Read(b)
	c.env.mu.Lock()
	if len(c.got) < 1<<15 {
		c.got = append(c.got, b[:n]...)
	}
	c.env.mu.Unlock()
	return n, err
}

func (e *c10Env) tlsUpstream(i int, cert tls.Certificate) {
	ln, err := e.net.Listen(c10UpKey(i), simnet.ListenOpts{})
	if err != nil {
		e.r.Trouble("listen: %v", err)
		e.r.Abort()
	}
	// one configuration per upstream (its ticket keys make resumption possible); the callback finds the
	// record of the connection it is called for
	byConn := map[net.Conn]*c10UpConn{}
	cfg := &tls.Config{Certificates: []tls.Certificate{cert}, MinVersion: tls.VersionTLS10}
	cfg.GetConfigForClient = func(chi *tls.ClientHelloInfo) (*tls.Config, error) {
		e.mu.Lock()
		if uc := byConn[chi.Conn]; uc != nil {
			uc.called, uc.name = true, chi.ServerName
		}
		// A hello that comes from a raw (damaged) client is not negotiated any further: whether the
		// TLS stack accepts a damaged key share depends on its random content (an ML-KEM key with a
		// flipped byte is valid or not), which would make the length of the reply - and so the
		// schedule - differ between executions of one seed. The name has been recorded; the
		// handshake of a damaged hello is not part of any demand.
		fromRaw := false
		if rc, ok := chi.Conn.(*c10UpRec); ok {
			if rec, _, complete := c10FirstRecord(rc.got); complete {
				for _, cc := range e.conns {
					if cc.kind == "raw" && len(cc.sent) >= len(rec) && bytes.Equal(cc.sent[:len(rec)], rec) {
						fromRaw = true
					}
				}
			}
		}
		e.mu.Unlock()
		if fromRaw {
			return nil, errC10Raw
		}
		return nil, nil
	}
	go func() {
		for {
			raw, err := ln.Accept()
			if err != nil {
				return
			}
			uc := &c10UpConn{up: i}
			rc := &c10UpRec{Conn: raw, env: e}
			e.mu.Lock()
			e.ups = append(e.ups, uc)
			byConn[rc] = uc
			e.mu.Unlock()
			go func() {
				tc := tls.Server(rc, cfg)
				defer tc.Close()
				if err := tc.Handshake(); err != nil {
					e.mu.Lock()
					uc.hsErr = err
					e.mu.Unlock()
					return
				}
				buf := make([]byte, 512)
				for {
					n, err := tc.Read(buf)
					if n > 0 {
						if _, werr := tc.Write(buf[:n]); werr != nil {
							return
						}
					}
					if err != nil {
						return
					}
				}
			}()
		}
	}()
}

func (c *c10Client) nconn() int {
	if c.Resume {
		return 2
	}
	return 1
}

func (e *c10Env) runClient(listen string, c *c10Client, ccs []*c10Conn) {
	defer func() {
		e.mu.Lock()
		e.active--
		e.mu.Unlock()
	}()
	base, _ := net.ResolveTCPAddr("tcp", c.Addr)
	cfg := c.tlsConfig()
	if c.Resume {
		cfg.ClientSessionCache = tls.NewLRUClientSessionCache(4)
	}
	for i, cc := range ccs {
		raw, err := e.net.Dial(e.r.Ctx(), &net.TCPAddr{IP: base.IP, Port: base.Port + i}, listen, 0)
		if err != nil {
			e.mu.Lock()
			cc.hsErr = err
			cc.finished = true
			e.mu.Unlock()
			continue
		}
		e.mu.Lock()
		cc.sc = raw.(*simnet.Conn)
		e.mu.Unlock()
		if c.Mut != nil {
			e.rawClient(cc, raw, cfg)
		} else {
			e.tlsClient(cc, raw, cfg)
		}
		e.mu.Lock()
		cc.finished = true
		e.mu.Unlock()
	}
}

func (e *c10Env) tlsClient(cc *c10Conn, raw net.Conn, cfg *tls.Config) {
	tc := tls.Client(&c10RecConn{Conn: raw, env: e, cc: cc}, cfg)
	defer tc.Close()
	err := tc.Handshake()
	e.mu.Lock()
	cc.hsErr, cc.hsDone = err, err == nil
	e.mu.Unlock()
	if err != nil {
		return
	}
	st := tc.ConnectionState()
	msg := []byte(fmt.Sprintf("ping from %s #%d", cc.client.Addr, cc.idx))
	if _, err := tc.Write(msg); err != nil {
		return
	}
	got := make([]byte, len(msg))
	_, err = io.ReadFull(tc, got)
	e.mu.Lock()
	cc.echoOK = err == nil && bytes.Equal(got, msg)
	cc.resumed, cc.version = st.DidResume, st.Version
	e.mu.Unlock()
}

func (e *c10Env) rawClient(cc *c10Conn, raw net.Conn, cfg *tls.Config) {
	defer raw.Close()
	m := cc.client.Mut
	hello := h3ClientHello(cfg)
	if hello == nil {
		return // this configuration cannot even produce a hello (no usable cipher suite for its versions)
	}
	b := append([]byte(nil), hello...)
	switch m.Kind {
	case "truncate":
		b = b[:m.At[0]%len(b)]
	case "flip":
		for i, at := range m.At {
			b[at%len(b)] ^= byte(m.Xor[i])
		}
	case "field":
		offs := c10FieldOffsets(b)
		for i, at := range m.At {
			o := offs[at%len(offs)]
			v := b[o]
			switch m.How[i] {
			case 0:
				v = 0
			case 1:
				v = 1
			case 2:
				v--
			case 3:
				v++
			case 4:
				v = 255
			default:
				v ^= byte(m.Xor[i])
			}
			if v == b[o] {
				v ^= 1
			}
			b[o] = v
		}
	case "inflate-record", "inflate-both":
		rl := int(b[3])<<8 | int(b[4])
		nl := min(rl+m.Delta, 16384)
		b[3], b[4] = byte(nl>>8), byte(nl)
		if m.Kind == "inflate-both" {
			hl := int(b[6])<<16 | int(b[7])<<8 | int(b[8])
			hl += nl - rl
			b[6], b[7], b[8] = byte(hl>>16), byte(hl>>8), byte(hl)
		}
	case "tail":
		tail := make([]byte, m.Tail)
		for i := range tail {
			tail[i] = byte(0x17 + i%7) // fixed filler: an application_data-looking second record start, not random
		}
		b = append(b, tail...)
	}
	e.mu.Lock()
	cc.sent = b
	e.mu.Unlock()
	// PRNG write sizes (fractions of the length)
	left := b
	for _, f := range cc.client.Chunks {
		if len(left) == 0 {
			break
		}
		n := 1 + f%len(left)
		if _, err := raw.Write(left[:n]); err != nil {
			return
		}
		left = left[n:]
	}
	if len(left) > 0 {
		if _, err := raw.Write(left); err != nil {
			return
		}
	}
	if m.Then == "close" {
		return
	}
	// wait for fabio's verdict: until the connection ends or the driver finds nothing else to do
	ended := make(chan struct{})
	go func() {
		io.Copy(io.Discard, raw)
		close(ended)
	}()
	select {
	case <-ended:
	case <-e.giveup:
	}
}

// c10FieldOffsets lists the offsets of the bytes of a genuine ClientHello record (as emitted by
// crypto/tls, so well-formed) that carry lengths or types: the targets of the "field" damage.
func c10FieldOffsets(b []byte) []int {
	offs := []int{3, 4, 6, 7, 8} // record length, handshake length
	add := func(at, n int) bool {
		if at+n > len(b) {
			return false
		}
		for i := 0; i < n; i++ {
			offs = append(offs, at+i)
		}
		return true
	}
	p := 9 + 2 + 32 // headers, version, random
	if !add(p, 1) {
		return offs
	}
	p += 1 + int(b[p]) // session id
	if !add(p, 2) {
		return offs
	}
	p += 2 + (int(b[p])<<8 | int(b[p+1])) // cipher suites
	if !add(p, 1) {
		return offs
	}
	p += 1 + int(b[p]) // compression methods
	if !add(p, 2) {
		return offs
	}
	p += 2
	for add(p, 4) { // extension type and length
		typ, l := int(b[p])<<8|int(b[p+1]), int(b[p+2])<<8|int(b[p+3])
		if typ == 0 {
			add(p+4, 5) // server name list length, name type, name length
		}
		p += 4 + l
	}
	return offs
}

func c10Check(r *simcore.Run, sc *c10Scenario, e *c10Env) {
	e.mu.Lock()
	defer e.mu.Unlock()
	routeOf := map[string]string{} // lower-case route host -> upstream key
	upName := map[int]string{}
	for i, n := range c10Names {
		if n.Route != "" {
			routeOf[n.Route] = c10UpKey(i)
			upName[i] = n.Route
		}
	}
	// every upstream's own TLS stack
	for _, uc := range e.ups {
		if uc.called && strings.ToLower(uc.name) != upName[uc.up] {
			r.Fail("routing", "upstream-tls-stack-reports-another-name", "upstream %s (route %q) received a tunnel whose ClientHello carries server name %q according to its own crypto/tls", c10UpKey(uc.up), upName[uc.up], uc.name)
		}
		if uc.called {
			r.Probe("upstream_reported_name")
		}
	}
	for _, cc := range e.conns {
		c := cc.client
		what := fmt.Sprintf("client %s #%d (%s, name %s, versions %s..%s, alpn %dx%d, curves %s, ciphers %s", c.Addr, cc.idx, cc.kind, c.Name, c.MinV, c.MaxV, c.ALPN, c.ALPNLen, c.Curves, c.Ciphers)
		mut := ""
		if c.Mut != nil {
			mut = c.Mut.Kind
			what += ", mutation " + mut
		}
		what += ")"
		rec, announced, complete := c10FirstRecord(cc.sent)
		parsed, name := false, ""
		if complete {
			parsed, name = c10Reference(rec)
		}
		want := ""
		if parsed {
			want = routeOf[strings.ToLower(name)]
		}
		got := strings.Join(cc.dialed, ",")
		r.Tracef("conn %s#%d kind=%s mut=%s sent=%d announced=%d complete=%v ref=%v want=%q got=%q consumed=%d hs=%v echo=%v", c.Addr, cc.idx, cc.kind, mut, len(cc.sent), announced, complete, parsed, want, got, cc.consumed, cc.hsDone, cc.echoOK)
		if len(cc.sent) > 0 {
			r.Nontrivial()
		}
		sig := "hello"
		if mut != "" {
			sig = mut
		}
		switch {
		case len(cc.dialed) > 1:
			r.Fail("routing", "more-than-one-dial/"+sig, "%s: fabio dialled %s for one connection", what, got)
		case parsed && want != "" && got != want:
			r.Fail("routing", "wrong-or-no-upstream/"+sig, "%s: crypto/tls reads server name %q from the bytes this client sent (route -> %s), fabio dialled %q", what, name, want, got)
		case parsed && want == "" && got != "":
			r.Fail("routing", "routed-without-routable-name/"+sig, "%s: crypto/tls reads server name %q from these bytes, which has no route; fabio dialled %s", what, name, got)
		case mut == "truncate" && got != "":
			r.Fail("routing", "routed-truncated-hello", "%s: only %d of the %d bytes of the first record were sent, yet fabio dialled %s", what, len(cc.sent), 5+announced, got)
		}
		if len(cc.dialed) > 0 {
			r.Probe("routed_" + sig)
			if announced >= 0 && cc.consumed > int64(5+announced) {
				r.Fail("buffering", "beyond-first-record/"+sig, "%s: when fabio dialled %s it had consumed %d bytes from the client; the first TLS record is 5+%d bytes", what, got, cc.consumed, announced)
			}
		} else {
			r.Probe("not_routed_" + sig)
		}
		if !parsed && complete {
			r.Probe("reference_rejects_" + sig)
		}
		// an unfaulted client whose name has a route completes a TLS session through the tunnel
		if cc.kind == "tls" && want != "" {
			if !cc.hsDone || !cc.echoOK {
				r.Fail("session", "tls-through-tunnel-failed", "%s: handshake error %v, echo ok %v", what, cc.hsErr, cc.echoOK)
			} else {
				r.Probe(fmt.Sprintf("session_tls_%x", cc.version))
				if cc.resumed {
					r.Probe("session_resumed")
				}
				if len(rec) > 4096 {
					r.Probe("hello_above_4k")
				}
			}
		}
	}
}

//go:build verif

package tcp

// C10 — SNI routing uses the server name the TLS stack itself would see (rider on H3).
//
// Real: tcp.Server.Serve + SNIProxy (clientHelloBufferSize, readServerName, the tunnel) with
// route.NewTable / Table.LookupHost as Lookup, and on both ends of the tunnel the real crypto/tls:
// clients are crypto/tls clients with PRNG configurations (versions 1.0-1.3, server names long /
// punycode / mixed case / trailing dot / single label / absent / IP literal / unrouted, ALPN lists up
// to several KiB, cipher and curve lists incl. X25519MLKEM768, session resumption), every upstream is
// a crypto/tls server whose GetConfigForClient records ClientHelloInfo.ServerName. Faulted clients
// are raw: a genuine hello captured from crypto/tls, then truncated at a PRNG offset, with 1-3 bytes
// flipped, with an inflated record or handshake length, or followed by more bytes in the same flight
// (what a client with early data emits). A third population are raw clients with a STRUCTURALLY
// BUILT hello (c10Craft): the fields of a ClientHello - legacy versions, session id 0..32, 1..300 cipher
// suites, 1..3 compression methods, with / without / with an empty extension block, up to ~40 extensions
// of known and unknown types (empty bodies, padding), server_name at any position, server name lists
// with several entries and name types != 0 before / after the host_name entry - are chosen by the PRNG,
// starting from scratch or from a genuine hello taken apart, and serialised with CONSISTENT length
// fields; and the family of minimal messages: such a hello cut to a handshake message of 4..64 bytes
// (or at any offset) and re-framed so that record and handshake header announce exactly what is sent.
// These are legal or length-consistent inputs a Go client never emits. The driver chooses every
// segmentation.
//
// Oracle, per client connection (the reference is crypto/tls itself: the bytes the client really sent
// are fed to a crypto/tls server offline, which either reports a name or rejects them):
//  1. reference parses and its lower-cased name has a route  -> fabio dials exactly that upstream;
//     reference parses, name empty or without route          -> fabio dials nothing;
//     hello truncated inside its first record                 -> fabio dials nothing;
//     reference rejects the (corrupted) bytes                 -> no demand on routing;
//     and every upstream's own TLS stack, when it reports a name, reports one routed to itself.
//  2. bytes fabio has consumed from the client when it dials <= 5 + announced record length.
//  3. never a panic (tasks report them), an unfaulted routed client completes a TLS session.

import (
	"bytes"
	"crypto/rand"
	"crypto/rsa"
	"crypto/tls"
	"crypto/x509"
	"crypto/x509/pkix"
	"errors"
	"fmt"
	"io"
	"math/big"
	"net"
	"strconv"
	"strings"
	"sync"
	"time"

	"github.com/fabiolb/fabio/internal/zzverif/simcore"
	"github.com/fabiolb/fabio/internal/zzverif/simhook"
	"github.com/fabiolb/fabio/internal/zzverif/simnet"
	"github.com/fabiolb/fabio/route"
)

func init() {
	zzHarnesses = append(zzHarnesses, &simcore.Harness{Name: "c10", Props: []string{"C10"}, Run: runC10})
}

var c10CertOnce sync.Once
var c10Cert tls.Certificate

// c10RSACert: RSA-2048 (PKCS#1 v1.5 / PSS signatures are always 256 bytes, so TLS record sizes do not
// vary between executions) because TLS 1.0/1.1 cannot use an Ed25519 certificate.
func c10RSACert() tls.Certificate {
	c10CertOnce.Do(func() {
		key, err := rsa.GenerateKey(rand.Reader, 2048)
		if err != nil {
			panic(err)
		}
		tmpl := &x509.Certificate{SerialNumber: big.NewInt(1), Subject: pkix.Name{CommonName: "sim"},
			NotBefore: time.Date(1999, 1, 1, 0, 0, 0, 0, time.UTC), NotAfter: time.Date(2100, 1, 1, 0, 0, 0, 0, time.UTC),
			DNSNames: []string{"*.sim"}, KeyUsage: x509.KeyUsageDigitalSignature | x509.KeyUsageKeyEncipherment, ExtKeyUsage: []x509.ExtKeyUsage{x509.ExtKeyUsageServerAuth}}
		der, err := x509.CreateCertificate(rand.Reader, tmpl, tmpl, &key.PublicKey, key)
		if err != nil {
			panic(err)
		}
		c10Cert = tls.Certificate{Certificate: [][]byte{der}, PrivateKey: key}
	})
	return c10Cert
}

// ---------------------------------------------------------------- names and routes

type c10Name struct {
	Label string // scenario label
	SNI   string // tls.Config.ServerName of the client
	Route string // route source host ("" = no route)
}

var c10Long = strings.Repeat("a", 63) + "." + strings.Repeat("b", 63) + "." + strings.Repeat("c", 63) + "." + strings.Repeat("d", 57) + ".io"

var c10Names = []c10Name{
	{"plain", "svc0.example.com", "svc0.example.com"},
	{"long-253", c10Long, c10Long},
	{"punycode", "xn--bcher-kva.xn--p1ai", "xn--bcher-kva.xn--p1ai"},
	{"mixed-case", "MiXeD.Example.COM", "mixed.example.com"},
	{"trailing-dot", "dot.example.com.", "dot.example.com"},
	{"single-label", "localhost", "localhost"},
	{"underscore-digits", "_srv-1.0x7f.example.org", "_srv-1.0x7f.example.org"},
	{"absent", "", ""},
	{"ip-literal", "192.0.2.77", ""},
	{"no-route", "unknown.example.net", ""},
	{"prefix-of-routed", "svc0.example.co", ""},
}

func c10UpKey(i int) string { return fmt.Sprintf("tlsup%d.sim:443", i) }

// ---------------------------------------------------------------- scenario

type c10Mutation struct {
	Kind  string `json:"kind"` // truncate | flip | inflate-record | inflate-both | tail | field | craft | craft-min
	At    []int  `json:"at,omitempty"`
	Xor   []int  `json:"xor,omitempty"`
	How   []int  `json:"how,omitempty"` // field: 0 set to 0, 1 set to 1, 2 minus one, 3 plus one, 4 set to 255, 5 xor
	Delta int    `json:"delta,omitempty"`
	Tail  int    `json:"tail_bytes,omitempty"`
	Then  string `json:"then"` // close | wait
	// craft, craft-min: the hello is not a damaged genuine one but built field by field
	Craft *c10Craft `json:"craft,omitempty"`
}

type c10Client struct {
	Addr    string       `json:"addr"`
	Name    string       `json:"name"`
	MinV    string       `json:"min_version"`
	MaxV    string       `json:"max_version"`
	ALPN    int          `json:"alpn_entries"`
	ALPNLen int          `json:"alpn_entry_len"`
	Curves  string       `json:"curves"`
	Ciphers string       `json:"ciphers"`
	Resume  bool         `json:"second_connection_resumes,omitempty"`
	Mut     *c10Mutation `json:"mutation,omitempty"`
	Chunks  []int        `json:"write_sizes,omitempty"`

	name c10Name
}

type c10Scenario struct {
	// Tasks: fabio's per-connection handlers interleave at statement level inside the ClientHello
	// handling (SNIProxy.ServeTCP, clientHelloBufferSize, readServerName, clientHelloMsg.unmarshal)
	Tasks   bool         `json:"statement_level"`
	Stick   int          `json:"stick,omitempty"`
	Clients []*c10Client `json:"clients"`
	Table   string       `json:"table"`
}

var c10Versions = []struct {
	n string
	v uint16
}{{"1.2", tls.VersionTLS12}, {"1.3", tls.VersionTLS13}, {"1.0", tls.VersionTLS10}, {"1.1", tls.VersionTLS11}}

func c10Ver(s string) uint16 {
	for _, x := range c10Versions {
		if x.n == s {
			return x.v
		}
	}
	return 0
}

func c10Gen(g *simcore.Tape, thorough bool) *c10Scenario {
	sc := &c10Scenario{}
	var tb strings.Builder
	for i, n := range c10Names {
		if n.Route != "" {
			fmt.Fprintf(&tb, "route add svc%d %s/ tcp://%s\n", i, n.Route, c10UpKey(i))
		}
	}
	sc.Table = tb.String()
	nc := g.Range(1, 3)
	if sc.Tasks = g.Chance(35); sc.Tasks {
		// two to four connections, each with another name, whose hellos fabio handles at the same time
		nc = g.Range(2, 4)
		sc.Stick = simcore.Pick(g, []int{1, 3, 8})
	}
	used := map[int]bool{}
	for j := 0; j < nc; j++ {
		c := &c10Client{Addr: fmt.Sprintf("192.0.2.%d:%d", 10+j, 5000+100*j)}
		k := g.Intn(len(c10Names))
		for used[k] {
			k = (k + 1) % len(c10Names)
		}
		used[k] = true
		c.name = c10Names[k]
		c.Name = c.name.Label
		// versions: value 0 = library defaults
		switch g.Intn(6) {
		case 0:
		case 1:
			c.MaxV = "1.2"
		case 2:
			c.MinV, c.MaxV = "1.0", "1.0"
		case 3:
			c.MinV, c.MaxV = "1.0", "1.1"
		case 4:
			c.MinV = "1.3"
		case 5:
			c.MinV, c.MaxV = "1.0", "1.3"
		}
		switch g.Intn(4) {
		case 1:
			c.ALPN, c.ALPNLen = 2, 8
		case 2:
			c.ALPN, c.ALPNLen = g.Range(3, 12), g.Range(1, 60)
		case 3:
			c.ALPN, c.ALPNLen = g.Range(20, 40), g.Range(100, 240) // 2-10 KiB of ALPN
		}
		c.Curves = simcore.Pick(g, []string{"default", "x25519", "mlkem-x25519", "p256-p384-p521", "mlkem-p256"})
		c.Ciphers = simcore.Pick(g, []string{"default", "cbc-sha", "gcm-chacha", "everything"})
		switch {
		case g.Chance(55):
			// half of the raw clients damage a genuine hello, the other half build one structurally
			kinds := []string{"truncate", "flip", "inflate-record", "inflate-both", "tail", "field", "craft", "craft", "craft", "craft", "craft-min", "craft-min"}
			if sc.Tasks {
				// flip and field can make fabio's parser walk over the random parts of the hello (key
				// shares, session id) as if they were framing: how many statements it executes then
				// depends on crypto/rand, which must not reach the schedule. With statement-level tasks
				// only damage that leaves the framing of the hello intact is used; the parse of one
				// damaged hello is sequential code and is explored in the other runs.
				// Built hellos have consistent framing and, in these runs, no crypto/rand content at all
				// (always from scratch).
				kinds = []string{"truncate", "inflate-record", "inflate-both", "tail", "craft", "craft", "craft-min"}
			}
			m := &c10Mutation{Kind: simcore.Pick(g, kinds)}
			switch m.Kind {
			case "truncate":
				m.At = []int{g.Intn(1 << 16)} // reduced modulo the hello length
			case "flip":
				for i, n := 0, g.Range(1, 3); i < n; i++ {
					m.At = append(m.At, g.Intn(1<<16))
					m.Xor = append(m.Xor, 1+g.Intn(255))
				}
			case "field":
				// damage that lands on the framing: 1-2 bytes of the length / type fields of the hello
				// (record, handshake, session id, cipher suites, compression, extension block, every
				// extension header, the server name list) become 0, 1, one less, one more, 255 or anything
				for i, n := 0, g.Range(1, 2); i < n; i++ {
					m.At = append(m.At, g.Intn(1<<16)) // reduced modulo the number of such bytes
					m.How = append(m.How, g.Intn(6))
					m.Xor = append(m.Xor, 1+g.Intn(255))
				}
			case "inflate-record", "inflate-both":
				m.Delta = g.Range(1, 2000)
			case "tail":
				m.Tail = g.Range(1, 6000)
			case "craft", "craft-min":
				m.Craft = c10GenCraft(g, k, m.Kind == "craft-min", sc.Tasks)
				if g.Chance(25) {
					m.Tail = g.Range(1, 6000) // more bytes behind the built record, in the same flight
				}
			}
			m.Then = simcore.Pick(g, []string{"wait", "close"})
			c.Mut = m
			c.Chunks = []int{g.Intn(1 << 16), g.Intn(1 << 16)}
		case g.Chance(35):
			c.Resume = true
		}
		sc.Clients = append(sc.Clients, c)
	}
	return sc
}

func (c *c10Client) tlsConfig() *tls.Config {
	cfg := &tls.Config{ServerName: c.name.SNI, InsecureSkipVerify: true, MinVersion: c10Ver(c.MinV), MaxVersion: c10Ver(c.MaxV)}
	if c.ALPN > 0 {
		for i := 0; i < c.ALPN; i++ {
			p := fmt.Sprintf("p%02d-", i)
			if len(p) < c.ALPNLen {
				p += strings.Repeat("x", c.ALPNLen-len(p))
			}
			cfg.NextProtos = append(cfg.NextProtos, p)
		}
	}
	switch c.Curves {
	case "x25519":
		cfg.CurvePreferences = []tls.CurveID{tls.X25519}
	case "mlkem-x25519":
		cfg.CurvePreferences = []tls.CurveID{tls.X25519MLKEM768, tls.X25519}
	case "p256-p384-p521":
		cfg.CurvePreferences = []tls.CurveID{tls.CurveP256, tls.CurveP384, tls.CurveP521}
	case "mlkem-p256":
		cfg.CurvePreferences = []tls.CurveID{tls.X25519MLKEM768, tls.CurveP256}
	}
	switch c.Ciphers {
	case "cbc-sha":
		cfg.CipherSuites = []uint16{tls.TLS_ECDHE_ECDSA_WITH_AES_128_CBC_SHA, tls.TLS_ECDHE_RSA_WITH_AES_128_CBC_SHA, tls.TLS_ECDHE_RSA_WITH_AES_256_CBC_SHA}
	case "gcm-chacha":
		cfg.CipherSuites = []uint16{tls.TLS_ECDHE_RSA_WITH_CHACHA20_POLY1305_SHA256, tls.TLS_ECDHE_ECDSA_WITH_AES_256_GCM_SHA384, tls.TLS_ECDHE_RSA_WITH_AES_128_GCM_SHA256,
			tls.TLS_ECDHE_RSA_WITH_AES_128_CBC_SHA}
	case "everything":
		for _, s := range tls.CipherSuites() {
			cfg.CipherSuites = append(cfg.CipherSuites, s.ID)
		}
		for _, s := range tls.InsecureCipherSuites() {
			cfg.CipherSuites = append(cfg.CipherSuites, s.ID)
		}
	}
	return cfg
}

// ---------------------------------------------------------------- reference: crypto/tls on the same bytes

type c10Feed struct {
	h3Capture
	in *bytes.Reader
}

func (c *c10Feed) Read(b []byte) (int, error) { return c.in.Read(b) }

var errC10Stop = errors.New("reference: stop after the ClientHello")

// c10Reference feeds b to a crypto/tls server: parsed reports whether the server accepted the bytes as a
// ClientHello (it calls GetConfigForClient right after parsing it), name is what it reports.
func c10Reference(b []byte) (parsed bool, name string) {
	cfg := &tls.Config{MinVersion: tls.VersionTLS10, GetConfigForClient: func(chi *tls.ClientHelloInfo) (*tls.Config, error) {
		parsed, name = true, chi.ServerName
		return nil, errC10Stop
	}}
	tls.Server(&c10Feed{in: bytes.NewReader(b)}, cfg).Handshake()
	return
}

// ---------------------------------------------------------------- observations

type c10Conn struct {
	client   *c10Client
	idx      int          // 0, 1 (resumption)
	sc       *simnet.Conn // client-side endpoint
	sent     []byte       // everything the client wrote up to the end of its first flight
	kind     string       // tls | raw
	hsErr    error
	hsDone   bool
	echoOK   bool
	resumed  bool
	version  uint16
	finished bool
	// filled in by the dial hook (fabio's handler task for this connection)
	dialed   []string
	consumed int64
}

type c10UpConn struct {
	up     int
	called bool
	name   string
	hsErr  error
}

type c10Env struct {
	*h3Env
	mu     sync.Mutex
	conns  []*c10Conn // in order of creation by the clients
	ups    []*c10UpConn
	giveup chan struct{}
	active int // client goroutines still running
}

// recConn records what a crypto/tls client writes.
type c10RecConn struct {
	net.Conn
	env *c10Env
	cc  *c10Conn
}

func (r *c10RecConn) Write(b []byte) (int, error) {
	r.env.mu.Lock()
	if len(r.cc.sent) < 1<<17 {
		r.cc.sent = append(r.cc.sent, b...)
	}
	r.env.mu.Unlock()
	return r.Conn.Write(b)
}

func c10FirstRecord(b []byte) (rec []byte, announced int, complete bool) {
	if len(b) < 5 {
		return b, -1, false
	}
	announced = int(b[3])<<8 | int(b[4])
	if len(b) < 5+announced {
		return b, announced, false
	}
	return b[:5+announced], announced, true
}

// ---------------------------------------------------------------- the run

func runC10(r *simcore.Run) {
	sc := c10Gen(r.Gen, r.Thorough())
	r.SetSample(sc)
	e := &c10Env{h3Env: h3NewEnv(r), giveup: make(chan struct{})}
	defer e.finish()

	tbl, err := route.NewTable(bytes.NewBufferString(sc.Table))
	if err != nil {
		r.Trouble("scenario table does not parse: %v\n%s", err, sc.Table)
		return
	}
	lookup := func(host string) *route.Target { return tbl.LookupHost(host, route.Picker["rnd"]) }
	e.srv = &Server{Handler: &SNIProxy{DialTimeout: 20 * time.Second, Lookup: lookup}}
	const listen = "10.1.0.5:443"
	// fabio's handler for the k-th accepted connection is the task srv0/k; the k-th accepted connection is
	// the k-th established one: that is how a dial is attributed to a client connection
	e.onDial = func(addr string) {
		task := simhook.CurrentTask()
		k, err := strconv.Atoi(strings.TrimPrefix(task, "srv0/"))
		if err != nil {
			return
		}
		cl := e.net.Conns(listen)
		if k < 1 || k > len(cl) {
			return
		}
		_, _, read := cl[k-1].Counters()
		e.mu.Lock()
		for _, cc := range e.conns {
			if cc.sc == cl[k-1] {
				cc.dialed = append(cc.dialed, addr)
				if len(cc.dialed) == 1 {
					cc.consumed = read
				}
			}
		}
		e.mu.Unlock()
	}
	if sc.Tasks {
		// the handler tasks (children of the accept-loop task) yield at every statement of the hello
		// handling, so the driver interleaves the parsing of hellos that are in fabio at the same time
		e.d.Sim.Activate("tcp:readServerName", "tcp:*clientHelloMsg", "tcp:*SNIProxy", "tcp:clientHelloBufferSize")
		e.d.Stick = sc.Stick
		overlap := false
		e.d.Invariant = func() {
			if !overlap && e.d.Sim.InFunc("tcp", "readServerName")+e.d.Sim.InFunc("tcp", "*clientHelloMsg") >= 2 {
				overlap = true
				r.Probe("hellos_parsed_at_the_same_time")
			}
		}
	}
	e.serve(listen)

	cert := c10RSACert()
	for i, n := range c10Names {
		if n.Route == "" {
			continue
		}
		e.tlsUpstream(i, cert)
	}
	for _, c := range sc.Clients {
		// the records exist, in scenario order, before any client goroutine runs
		var ccs []*c10Conn
		for i, n := 0, c.nconn(); i < n; i++ {
			cc := &c10Conn{client: c, idx: i, kind: "tls"}
			if c.Mut != nil {
				cc.kind = "raw"
			}
			ccs = append(ccs, cc)
			e.conns = append(e.conns, cc)
		}
		e.active++
		go e.runClient(listen, c, ccs)
	}
	done := func() bool {
		e.mu.Lock()
		defer e.mu.Unlock()
		return e.active == 0 && !e.net.Pending()
	}
	finished, stuck := e.run(400000, done)
	if !finished && stuck {
		// raw clients that wait for fabio's verdict give up now (an inflated length leaves fabio waiting)
		close(e.giveup)
		r.Tracef("give up waiting")
		finished, stuck = e.run(400000, done)
	}
	if !finished && !stuck {
		r.Trouble("step budget exhausted")
		return
	}
	// let the tails of closed tunnels drain so that every upstream has seen its connection
	e.run(100000, func() bool { return false })
	c10Check(r, sc, e)
}

var errC10Raw = errors.New("upstream: hello of a raw client, handshake not continued")

// c10UpRec records the first bytes an upstream reads from its connection.
type c10UpRec struct {
	net.Conn
	env *c10Env
	got []byte
}

func (c *c10UpRec) Read(b []byte) (int, error) {
	n, err := c.Conn.Read(b)
	c.env.mu.Lock()
	if len(c.got) < 1<<15 {
		c.got = append(c.got, b[:n]...)
	}
	c.env.mu.Unlock()
	return n, err
}

func (e *c10Env) tlsUpstream(i int, cert tls.Certificate) {
	ln, err := e.net.Listen(c10UpKey(i), simnet.ListenOpts{})
	if err != nil {
		e.r.Trouble("listen: %v", err)
		e.r.Abort()
	}
	// one configuration per upstream (its ticket keys make resumption possible); the callback finds the
	// record of the connection it is called for
	byConn := map[net.Conn]*c10UpConn{}
	cfg := &tls.Config{Certificates: []tls.Certificate{cert}, MinVersion: tls.VersionTLS10}
	cfg.GetConfigForClient = func(chi *tls.ClientHelloInfo) (*tls.Config, error) {
		e.mu.Lock()
		if uc := byConn[chi.Conn]; uc != nil {
			uc.called, uc.name = true, chi.ServerName
		}
		// A hello that comes from a raw (damaged) client is not negotiated any further: whether the
		// TLS stack accepts a damaged key share depends on its random content (an ML-KEM key with a
		// flipped byte is valid or not), which would make the length of the reply - and so the
		// schedule - differ between executions of one seed. The name has been recorded; the
		// handshake of a damaged hello is not part of any demand.
		fromRaw := false
		if rc, ok := chi.Conn.(*c10UpRec); ok {
			if rec, _, complete := c10FirstRecord(rc.got); complete {
				for _, cc := range e.conns {
					if cc.kind == "raw" && len(cc.sent) >= len(rec) && bytes.Equal(cc.sent[:len(rec)], rec) {
						fromRaw = true
					}
				}
			}
		}
		e.mu.Unlock()
		if fromRaw {
			return nil, errC10Raw
		}
		return nil, nil
	}
	go func() {
		for {
			raw, err := ln.Accept()
			if err != nil {
				return
			}
			uc := &c10UpConn{up: i}
			rc := &c10UpRec{Conn: raw, env: e}
			e.mu.Lock()
			e.ups = append(e.ups, uc)
			byConn[rc] = uc
			e.mu.Unlock()
			go func() {
				tc := tls.Server(rc, cfg)
				defer tc.Close()
				if err := tc.Handshake(); err != nil {
					e.mu.Lock()
					uc.hsErr = err
					e.mu.Unlock()
					return
				}
				buf := make([]byte, 512)
				for {
					n, err := tc.Read(buf)
					if n > 0 {
						if _, werr := tc.Write(buf[:n]); werr != nil {
							return
						}
					}
					if err != nil {
						return
					}
				}
			}()
		}
	}()
}

func (c *c10Client) nconn() int {
	if c.Resume {
		return 2
	}
	return 1
}

func (e *c10Env) runClient(listen string, c *c10Client, ccs []*c10Conn) {
	defer func() {
		e.mu.Lock()
		e.active--
		e.mu.Unlock()
	}()
	base, _ := net.ResolveTCPAddr("tcp", c.Addr)
	cfg := c.tlsConfig()
	if c.Resume {
		cfg.ClientSessionCache = tls.NewLRUClientSessionCache(4)
	}
	for i, cc := range ccs {
		raw, err := e.net.Dial(e.r.Ctx(), &net.TCPAddr{IP: base.IP, Port: base.Port + i}, listen, 0)
		if err != nil {
			e.mu.Lock()
			cc.hsErr = err
			cc.finished = true
			e.mu.Unlock()
			continue
		}
		e.mu.Lock()
		cc.sc = raw.(*simnet.Conn)
		e.mu.Unlock()
		if c.Mut != nil {
			e.rawClient(cc, raw, cfg)
		} else {
			e.tlsClient(cc, raw, cfg)
		}
		e.mu.Lock()
		cc.finished = true
		e.mu.Unlock()
	}
}

func (e *c10Env) tlsClient(cc *c10Conn, raw net.Conn, cfg *tls.Config) {
	tc := tls.Client(&c10RecConn{Conn: raw, env: e, cc: cc}, cfg)
	defer tc.Close()
	err := tc.Handshake()
	e.mu.Lock()
	cc.hsErr, cc.hsDone = err, err == nil
	e.mu.Unlock()
	if err != nil {
		return
	}
	st := tc.ConnectionState()
	msg := []byte(fmt.Sprintf("ping from %s #%d", cc.client.Addr, cc.idx))
	if _, err := tc.Write(msg); err != nil {
		return
	}
	got := make([]byte, len(msg))
	_, err = io.ReadFull(tc, got)
	e.mu.Lock()
	cc.echoOK = err == nil && bytes.Equal(got, msg)
	cc.resumed, cc.version = st.DidResume, st.Version
	e.mu.Unlock()
}

func (e *c10Env) rawClient(cc *c10Conn, raw net.Conn, cfg *tls.Config) {
	defer raw.Close()
	m := cc.client.Mut
	var b []byte
	if m.Craft != nil {
		b = c10BuildCraft(cc.client, cfg)
	} else {
		hello := h3ClientHello(cfg)
		if hello == nil {
			return // this configuration cannot even produce a hello (no usable cipher suite for its versions)
		}
		b = append([]byte(nil), hello...)
	}
	switch m.Kind {
	case "truncate":
		b = b[:m.At[0]%len(b)]
	case "flip":
		for i, at := range m.At {
			b[at%len(b)] ^= byte(m.Xor[i])
		}
	case "field":
		offs := c10FieldOffsets(b)
		for i, at := range m.At {
			o := offs[at%len(offs)]
			v := b[o]
			switch m.How[i] {
			case 0:
				v = 0
			case 1:
				v = 1
			case 2:
				v--
			case 3:
				v++
			case 4:
				v = 255
			default:
				v ^= byte(m.Xor[i])
			}
			if v == b[o] {
				v ^= 1
			}
			b[o] = v
		}
	case "inflate-record", "inflate-both":
		rl := int(b[3])<<8 | int(b[4])
		nl := min(rl+m.Delta, 16384)
		b[3], b[4] = byte(nl>>8), byte(nl)
		if m.Kind == "inflate-both" {
			hl := int(b[6])<<16 | int(b[7])<<8 | int(b[8])
			hl += nl - rl
			b[6], b[7], b[8] = byte(hl>>16), byte(hl>>8), byte(hl)
		}
	case "tail", "craft", "craft-min":
		tail := make([]byte, m.Tail)
		for i := range tail {
			tail[i] = byte(0x17 + i%7) // fixed filler: an application_data-looking second record start, not random
		}
		b = append(b, tail...)
	}
	e.mu.Lock()
	cc.sent = b
	e.mu.Unlock()
	// PRNG write sizes (fractions of the length)
	left := b
	for _, f := range cc.client.Chunks {
		if len(left) == 0 {
			break
		}
		n := 1 + f%len(left)
		if _, err := raw.Write(left[:n]); err != nil {
			return
		}
		left = left[n:]
	}
	if len(left) > 0 {
		if _, err := raw.Write(left); err != nil {
			return
		}
	}
	if m.Then == "close" {
		return
	}
	// wait for fabio's verdict: until the connection ends or the driver finds nothing else to do
	ended := make(chan struct{})
	go func() {
		io.Copy(io.Discard, raw)
		close(ended)
	}()
	select {
	case <-ended:
	case <-e.giveup:
	}
}

// ---------------------------------------------------------------- structural ClientHello builder
//
// Written from RFC 5246 7.4.1.2 / RFC 8446 4.1.2 / RFC 6066 3 (the wire format), not from fabio's parser:
//
//	record:    type(1)=22 version(2) length(2)
//	handshake: type(1)=1 length(3)
//	body:      legacy_version(2) random(32) session_id<0..32> cipher_suites<2..2^16-2>
//	           compression_methods<1..2^8-1> [ extensions<0..2^16-1> ]
//	extension: type(2) data<0..2^16-1>;  server_name data: ServerName list<1..2^16-1> of name_type(1) name<1..2^16-1>
//
// Every length field is computed from what is really serialised, so the framing is always consistent;
// what varies is the structure. Values the specification forbids (session id above 32 bytes, empty
// cipher suite list) are not produced: the property speaks about well-formed hellos, and for anything
// else the reference decides whether a demand exists at all.

type c10NameEntry struct {
	Type int    `json:"type"` // 0 = host_name
	Name string `json:"name"`
}

type c10Extra struct {
	Type  int  `json:"type"`
	Len   int  `json:"len"`
	At    int  `json:"at"`              // position in the extension list (modulo its length + 1)
	Decoy bool `json:"decoy,omitempty"` // the body is a complete server_name extension naming another routed host
}

type c10Craft struct {
	Base    string     `json:"base"` // scratch | genuine (a crypto/tls hello taken apart and rebuilt)
	RecVers int        `json:"record_version"`
	Vers    int        `json:"legacy_version"` // 0: keep the genuine one
	SID     int        `json:"session_id_len"` // -1: keep the genuine one
	Suites  int        `json:"cipher_suites"`  // 0: keep the genuine list
	Comp    int        `json:"compression_methods"`
	NoExt   bool       `json:"no_extension_block,omitempty"`
	Known   int        `json:"known_extensions_mask,omitempty"` // scratch: which of c10KnownExts, in menu order rotated by Rot
	Rot     int        `json:"known_rotation,omitempty"`
	Extra   []c10Extra `json:"extra_extensions,omitempty"`
	// server_name: "" no such extension | list | empty-body (the ServerHello form) | empty-list
	SNI   string         `json:"server_name_form,omitempty"`
	Names []c10NameEntry `json:"server_name_list,omitempty"`
	SNIAt int            `json:"server_name_at,omitempty"`
	// Shadow > 0: the cipher suite list (its code points are the client's to choose) carries, from
	// entry Shadow on, bytes that read as "compression methods + extension block with a server_name
	// of another routed host" and are consistent up to the end of the message: a parser that resumes
	// anywhere but at the true end of the list finds a well-formed hello tail there.
	Shadow int `json:"shadow_tail_at_suite,omitempty"`
	// MsgLen > 0 (craft-min): the handshake message is cut to MsgLen bytes (header included) and the
	// handshake and record headers announce exactly that
	MsgLen int `json:"cut_to_message_len,omitempty"`
	// Slack: bytes of a further handshake message inside the same record, behind the hello
	Slack int `json:"record_slack,omitempty"`
	Fill  int `json:"fill_seed"`
}

var c10KnownExts = []string{"supported_versions", "supported_groups", "signature_algorithms", "key_share", "ec_point_formats", "alpn",
	"status_request", "sct", "extended_master_secret", "session_ticket", "psk_key_exchange_modes", "renegotiation_info",
	"cookie", "early_data", "session_ticket_filled", "signature_algorithms_cert"}

// types crypto/tls does not interpret (padding, GREASE, compress_certificate, record_size_limit,
// encrypt_then_mac, heartbeat, post_handshake_auth, ALPS, private use)
var c10UnknownTypes = []int{21, 0x0a0a, 27, 28, 22, 15, 49, 17513, 0xfa01, 0xffff, 0xbaba, 0x00ff}

func c10DecoyOf(k int) string {
	// another routed name than the client's own
	for i := 1; i <= len(c10Names); i++ {
		if n := c10Names[(k+i)%len(c10Names)]; n.Route != "" && len(n.Route) < 100 {
			return n.Route
		}
	}
	return ""
}

func c10GenCraft(g *simcore.Tape, nameIdx int, minimal, tasks bool) *c10Craft {
	k := &c10Craft{Base: "scratch", SID: 0, Comp: 1}
	if !tasks && g.Chance(35) {
		k.Base = "genuine"
	}
	genuine := k.Base == "genuine"
	k.RecVers = simcore.Pick(g, []int{0x0301, 0x0303, 0x0302, 0x0300, 0x0304})
	k.Vers = simcore.Pick(g, []int{0x0303, 0x0301, 0x0302, 0x0300, 0x0304})
	if genuine && g.Bool() {
		k.Vers = 0
	}
	switch g.Intn(4) {
	case 1:
		k.SID = 32
	case 2:
		k.SID = g.Range(1, 31)
	case 3:
		if genuine {
			k.SID = -1
		}
	}
	switch g.Intn(5) {
	case 0:
		k.Suites = g.Range(1, 20)
	case 1:
		k.Suites = simcore.Pick(g, []int{127, 128, 129, 255, 256, 300})
	case 2:
		k.Suites = g.Range(21, 300)
	case 3:
		k.Suites = 1
	case 4:
		k.Suites = g.Range(1, 20)
		if genuine {
			k.Suites = 0
		}
	}
	k.Comp = g.Range(1, 3)
	k.NoExt = g.Chance(12)
	if !genuine {
		k.Known = g.Intn(1 << len(c10KnownExts))
		k.Rot = g.Intn(len(c10KnownExts))
	}
	nx := 0
	switch g.Intn(4) {
	case 1:
		nx = g.Range(1, 3)
	case 2:
		nx = g.Range(4, 12)
	case 3:
		nx = g.Range(13, 40)
	}
	used := map[int]bool{}
	for i := 0; i < nx; i++ {
		x := c10Extra{Type: simcore.Pick(g, c10UnknownTypes), At: g.Intn(64)}
		if used[x.Type] && !g.Chance(4) { // a repeated type is rare: crypto/tls rejects such a hello
			x.Type = 0xfb00 + i
		}
		used[x.Type] = true
		switch g.Intn(5) {
		case 1:
			x.Len = g.Range(1, 8)
		case 2:
			x.Len = g.Range(9, 300)
		case 3:
			x.Len = g.Range(301, 3000)
		case 4:
			x.Decoy = true
		}
		k.Extra = append(k.Extra, x)
	}
	// the server name list
	host := c10Names[nameIdx].SNI
	decoy := c10DecoyOf(nameIdx)
	other := func() c10NameEntry {
		e := c10NameEntry{Type: simcore.Pick(g, []int{1, 2, 255, 128}), Name: decoy}
		if g.Bool() {
			e.Name = "x" + strings.Repeat("y", g.Intn(20))
		}
		return e
	}
	form := g.Intn(12) // 0 and 9..11: the plain list with one host_name
	if host == "" && (form == 5 || form == 8) {
		form = 4
	}
	k.SNI = "list"
	if host != "" {
		k.Names = []c10NameEntry{{0, host}}
	}
	switch form {
	case 1, 2, 3:
		var before, after []c10NameEntry
		if form != 2 {
			for i, n := 0, g.Range(1, 3); i < n; i++ {
				before = append(before, other())
			}
		}
		if form != 1 {
			for i, n := 0, g.Range(1, 3); i < n; i++ {
				after = append(after, other())
			}
		}
		k.Names = append(append(before, k.Names...), after...)
	case 4: // entries of other types only: no host_name
		k.Names = []c10NameEntry{other()}
	case 5: // two host_name entries (prohibited: the reference decides)
		k.Names = append(k.Names, c10NameEntry{0, decoy})
	case 6:
		k.SNI, k.Names = "empty-body", nil
	case 7:
		k.SNI, k.Names = "empty-list", nil
	case 8: // a host_name entry of length 0 in front
		k.Names = append([]c10NameEntry{{0, ""}}, k.Names...)
	}
	if k.SNI == "list" && len(k.Names) == 0 {
		k.SNI = "" // a client without name sends no server_name extension
	}
	k.SNIAt = g.Intn(64)
	if k.Suites >= 24 && g.Chance(20) {
		k.Shadow = g.Range(1, k.Suites-1)
	}
	if minimal {
		k.MsgLen = g.Range(4, 64)
		if g.Chance(30) {
			k.MsgLen = 4 + g.Intn(1<<14) // reduced modulo the length of the message
		}
	} else if g.Chance(8) {
		k.Slack = g.Range(1, 40)
	}
	k.Fill = g.Intn(1 << 20)
	return k
}

type c10Ext struct {
	typ  int
	body []byte
}

type c10Hello struct {
	vers   int
	random []byte
	sid    []byte
	suites []int
	comp   []byte
	exts   []c10Ext
	noExt  bool
}

func c10U16(v int) []byte { return []byte{byte(v >> 8), byte(v)} }

func c10Vec8(b []byte) []byte  { return append([]byte{byte(len(b))}, b...) }
func c10Vec16(b []byte) []byte { return append(c10U16(len(b)), b...) }

func c10ExtBytes(x c10Ext) []byte { return append(c10U16(x.typ), c10Vec16(x.body)...) }

// message serialises the handshake message (4 byte header included).
func (h *c10Hello) message() (msg []byte, suitesAt int) {
	body := append(c10U16(h.vers), h.random...)
	body = append(body, c10Vec8(h.sid)...)
	var cs []byte
	for _, s := range h.suites {
		cs = append(cs, c10U16(s)...)
	}
	suitesAt = 4 + len(body) + 2
	body = append(body, c10Vec16(cs)...)
	body = append(body, c10Vec8(h.comp)...)
	if !h.noExt {
		var xs []byte
		for _, x := range h.exts {
			xs = append(xs, c10ExtBytes(x)...)
		}
		body = append(body, c10Vec16(xs)...)
	}
	return append([]byte{1, byte(len(body) >> 16), byte(len(body) >> 8), byte(len(body))}, body...), suitesAt
}

// c10ParseHello takes a genuine (crypto/tls emitted, so well-formed) hello record apart.
func c10ParseHello(rec []byte) *c10Hello {
	defer func() { recover() }() // not well-formed after all: the caller builds from scratch
	h := &c10Hello{}
	b := rec[9:]
	h.vers = int(b[0])<<8 | int(b[1])
	h.random = b[2:34]
	b = b[34:]
	h.sid = b[1 : 1+int(b[0])]
	b = b[1+len(h.sid):]
	n := int(b[0])<<8 | int(b[1])
	for i := 0; i < n; i += 2 {
		h.suites = append(h.suites, int(b[2+i])<<8|int(b[3+i]))
	}
	b = b[2+n:]
	h.comp = b[1 : 1+int(b[0])]
	b = b[1+len(h.comp):]
	if len(b) == 0 {
		h.noExt = true
		return h
	}
	b = b[2:]
	for len(b) > 0 {
		l := int(b[2])<<8 | int(b[3])
		h.exts = append(h.exts, c10Ext{int(b[0])<<8 | int(b[1]), b[4 : 4+l]})
		b = b[4+l:]
	}
	return h
}

func c10SNIBody(names []c10NameEntry) []byte {
	var list []byte
	for _, n := range names {
		list = append(list, byte(n.Type))
		list = append(list, c10Vec16([]byte(n.Name))...)
	}
	return c10Vec16(list)
}

func c10KnownExt(name string, fill func(int) []byte) c10Ext {
	switch name {
	case "supported_versions":
		return c10Ext{43, c10Vec8([]byte{3, 4, 3, 3, 3, 2, 3, 1})}
	case "supported_groups":
		return c10Ext{10, c10Vec16([]byte{0x11, 0xec, 0, 29, 0, 23, 0, 24, 0, 25})}
	case "signature_algorithms":
		return c10Ext{13, c10Vec16([]byte{8, 4, 4, 3, 8, 7, 8, 5, 8, 6, 4, 1, 5, 1, 6, 1, 5, 3, 6, 3, 2, 1, 2, 3})}
	case "signature_algorithms_cert":
		return c10Ext{50, c10Vec16([]byte{8, 4, 4, 3, 4, 1})}
	case "key_share":
		ks := append([]byte{0, 29}, c10Vec16(fill(32))...)
		ks = append(ks, append([]byte{0, 23}, c10Vec16(append([]byte{4}, fill(64)...))...)...)
		return c10Ext{51, c10Vec16(ks)}
	case "ec_point_formats":
		return c10Ext{11, c10Vec8([]byte{0})}
	case "alpn":
		return c10Ext{16, c10Vec16(append(c10Vec8([]byte("h2")), c10Vec8([]byte("http/1.1"))...))}
	case "status_request":
		return c10Ext{5, []byte{1, 0, 0, 0, 0}}
	case "sct":
		return c10Ext{18, nil}
	case "extended_master_secret":
		return c10Ext{23, nil}
	case "session_ticket":
		return c10Ext{35, nil}
	case "session_ticket_filled":
		return c10Ext{35, fill(180)}
	case "psk_key_exchange_modes":
		return c10Ext{45, c10Vec8([]byte{1})}
	case "renegotiation_info":
		return c10Ext{0xff01, c10Vec8(nil)}
	case "cookie":
		return c10Ext{44, c10Vec16(fill(24))}
	case "early_data":
		return c10Ext{42, nil}
	}
	return c10Ext{0xfc00, nil}
}

// c10Filler: opaque content (random, session id, key shares, unknown extension bodies) derived from the
// scenario tape, never from crypto/rand.
func c10Filler(seed int) func(int) []byte {
	x := uint32(seed)*2654435761 + 12345
	return func(n int) []byte {
		b := make([]byte, n)
		for i := range b {
			x = x*1664525 + 1013904223
			b[i] = byte(x >> 24)
		}
		return b
	}
}

// c10BuildCraft returns the record (plus nothing else) a client with this scenario sends.
func c10BuildCraft(c *c10Client, cfg *tls.Config) []byte {
	k := c.Mut.Craft
	fill := c10Filler(k.Fill)
	var h *c10Hello
	if k.Base == "genuine" {
		if g := h3ClientHello(cfg); g != nil {
			h = c10ParseHello(g)
		}
	}
	genuine := h != nil
	if !genuine {
		h = &c10Hello{vers: 0x0303, random: fill(32), suites: []int{0x1301, 0x1302, 0x1303, 0xc02b, 0xc02f, 0xc02c, 0xc030, 0xcca9, 0xcca8, 0xc013, 0xc014, 0x009c, 0x009d, 0x002f, 0x0035}}
		for i := range c10KnownExts {
			j := (i + k.Rot) % len(c10KnownExts)
			if k.Known&(1<<j) != 0 {
				x := c10KnownExt(c10KnownExts[j], fill)
				if x.typ == 35 && len(h.exts) > 0 && func() bool {
					for _, y := range h.exts {
						if y.typ == 35 {
							return true
						}
					}
					return false
				}() {
					continue // session_ticket once
				}
				h.exts = append(h.exts, x)
			}
		}
	} else {
		// the genuine server_name goes; the scenario's own is placed below
		var xs []c10Ext
		for _, x := range h.exts {
			if x.typ != 0 {
				xs = append(xs, x)
			}
		}
		h.exts = xs
	}
	if k.Vers != 0 {
		h.vers = k.Vers
	}
	if k.SID >= 0 {
		h.sid = fill(k.SID)
	}
	if k.Suites > 0 {
		// the first entries stay real suites, the list is then cut or filled up with GREASE and
		// private-use / unassigned code points
		for i := len(h.suites); i < k.Suites; i++ {
			switch i % 3 {
			case 0:
				h.suites = append(h.suites, 0x0a0a+0x1010*(i/3%16))
			case 1:
				h.suites = append(h.suites, 0xff00+i%256)
			default:
				f := fill(2)
				h.suites = append(h.suites, int(f[0])<<8|int(f[1]))
			}
		}
		h.suites = h.suites[:k.Suites]
	}
	h.comp = make([]byte, k.Comp)
	for i := range h.comp { // the null method somewhere in the list
		if i != k.Fill%k.Comp {
			h.comp[i] = byte(1 + i*63)
		}
	}
	h.noExt = k.NoExt
	insert := func(at int, x c10Ext) {
		at %= len(h.exts) + 1
		h.exts = append(h.exts, c10Ext{})
		copy(h.exts[at+1:], h.exts[at:])
		h.exts[at] = x
	}
	decoy := ""
	for i, n := range c10Names {
		if n.Label == c.name.Label {
			decoy = c10DecoyOf(i)
		}
	}
	for _, x := range k.Extra {
		body := fill(x.Len)
		if x.Type == 21 {
			body = make([]byte, x.Len) // padding is zeros
		}
		if x.Decoy {
			body = c10ExtBytes(c10Ext{0, c10SNIBody([]c10NameEntry{{0, decoy}})})
		}
		insert(x.At, c10Ext{x.Type, body})
	}
	switch k.SNI {
	case "list":
		insert(k.SNIAt, c10Ext{0, c10SNIBody(k.Names)})
	case "empty-body":
		insert(k.SNIAt, c10Ext{0, nil})
	case "empty-list":
		insert(k.SNIAt, c10Ext{0, c10Vec16(nil)})
	}
	msg, suitesAt := h.message()
	if k.Shadow > 0 && k.Shadow < len(h.suites) {
		// compression(01 00) + extensions length + server_name(decoy) + one unknown extension that swallows
		// everything up to the end of the message; written over cipher suite code points, so no length of
		// the real structure changes
		p := suitesAt + 2*k.Shadow
		sni := c10ExtBytes(c10Ext{0, c10SNIBody([]c10NameEntry{{0, decoy}})})
		need := 2 + 2 + len(sni) + 4
		if p+need <= suitesAt+2*len(h.suites) {
			sh := []byte{1, 0}
			sh = append(sh, c10U16(len(msg)-(p+4))...)
			sh = append(sh, sni...)
			sh = append(sh, 0xfa, 0xfa)
			sh = append(sh, c10U16(len(msg)-(p+need))...)
			copy(msg[p:], sh)
		}
	}
	if k.MsgLen > 0 {
		n := k.MsgLen
		if n > 64 {
			n = 4 + (n-4)%(len(msg)-3)
		}
		if n < len(msg) {
			msg = msg[:n]
		}
		bl := len(msg) - 4
		msg[1], msg[2], msg[3] = byte(bl>>16), byte(bl>>8), byte(bl)
	}
	if k.Slack > 0 {
		// the start of a second handshake message in the same record
		msg = append(msg, fill(k.Slack)...)
	}
	if len(msg) > 16384 {
		msg = msg[:16384] // cannot happen with the sizes above
	}
	rec := append([]byte{22}, c10U16(k.RecVers)...)
	return append(rec, c10Vec16(msg)...)
}

// c10FieldOffsets lists the offsets of the bytes of a genuine ClientHello record (as emitted by
// crypto/tls, so well-formed) that carry lengths or types: the targets of the "field" damage.
func c10FieldOffsets(b []byte) []int {
	offs := []int{3, 4, 6, 7, 8} // record length, handshake length
	add := func(at, n int) bool {
		if at+n > len(b) {
			return false
		}
		for i := 0; i < n; i++ {
			offs = append(offs, at+i)
		}
		return true
	}
	p := 9 + 2 + 32 // headers, version, random
	if !add(p, 1) {
		return offs
	}
	p += 1 + int(b[p]) // session id
	if !add(p, 2) {
		return offs
	}
	p += 2 + (int(b[p])<<8 | int(b[p+1])) // cipher suites
	if !add(p, 1) {
		return offs
	}
	p += 1 + int(b[p]) // compression methods
	if !add(p, 2) {
		return offs
	}
	p += 2
	for add(p, 4) { // extension type and length
		typ, l := int(b[p])<<8|int(b[p+1]), int(b[p+2])<<8|int(b[p+3])
		if typ == 0 {
			add(p+4, 5) // server name list length, name type, name length
		}
		p += 4 + l
	}
	return offs
}

func craftOf(c *c10Client) *c10Craft {
	if c.Mut == nil {
		return nil
	}
	return c.Mut.Craft
}

func c10Check(r *simcore.Run, sc *c10Scenario, e *c10Env) {
	e.mu.Lock()
	defer e.mu.Unlock()
	routeOf := map[string]string{} // lower-case route host -> upstream key
	upName := map[int]string{}
	for i, n := range c10Names {
		if n.Route != "" {
			routeOf[n.Route] = c10UpKey(i)
			upName[i] = n.Route
		}
	}
	// every upstream's own TLS stack
	for _, uc := range e.ups {
		if uc.called && strings.ToLower(uc.name) != upName[uc.up] {
			r.Fail("routing", "upstream-tls-stack-reports-another-name", "upstream %s (route %q) received a tunnel whose ClientHello carries server name %q according to its own crypto/tls", c10UpKey(uc.up), upName[uc.up], uc.name)
		}
		if uc.called {
			r.Probe("upstream_reported_name")
		}
	}
	for _, cc := range e.conns {
		c := cc.client
		what := fmt.Sprintf("client %s #%d (%s, name %s, versions %s..%s, alpn %dx%d, curves %s, ciphers %s", c.Addr, cc.idx, cc.kind, c.Name, c.MinV, c.MaxV, c.ALPN, c.ALPNLen, c.Curves, c.Ciphers)
		mut := ""
		if c.Mut != nil {
			mut = c.Mut.Kind
			what += ", mutation " + mut
		}
		what += ")"
		rec, announced, complete := c10FirstRecord(cc.sent)
		parsed, name := false, ""
		if complete {
			parsed, name = c10Reference(rec)
		}
		want := ""
		if parsed {
			want = routeOf[strings.ToLower(name)]
		}
		got := strings.Join(cc.dialed, ",")
		r.Tracef("conn %s#%d kind=%s mut=%s sent=%d announced=%d complete=%v ref=%v want=%q got=%q consumed=%d hs=%v echo=%v", c.Addr, cc.idx, cc.kind, mut, len(cc.sent), announced, complete, parsed, want, got, cc.consumed, cc.hsDone, cc.echoOK)
		if len(cc.sent) > 0 {
			r.Nontrivial()
		}
		sig := "hello"
		if mut != "" {
			sig = mut
		}
		switch {
		case len(cc.dialed) > 1:
			r.Fail("routing", "more-than-one-dial/"+sig, "%s: fabio dialled %s for one connection", what, got)
		case parsed && want != "" && got != want:
			r.Fail("routing", "wrong-or-no-upstream/"+sig, "%s: crypto/tls reads server name %q from the bytes this client sent (route -> %s), fabio dialled %q", what, name, want, got)
		case parsed && want == "" && got != "":
			r.Fail("routing", "routed-without-routable-name/"+sig, "%s: crypto/tls reads server name %q from these bytes, which has no route; fabio dialled %s", what, name, got)
		case mut == "truncate" && got != "":
			r.Fail("routing", "routed-truncated-hello", "%s: only %d of the %d bytes of the first record were sent, yet fabio dialled %s", what, len(cc.sent), 5+announced, got)
		}
		if len(cc.dialed) > 0 {
			r.Probe("routed_" + sig)
			if announced >= 0 && cc.consumed > int64(5+announced) {
				r.Fail("buffering", "beyond-first-record/"+sig, "%s: when fabio dialled %s it had consumed %d bytes from the client; the first TLS record is 5+%d bytes", what, got, cc.consumed, announced)
			}
		} else {
			r.Probe("not_routed_" + sig)
		}
		if !parsed && complete {
			r.Probe("reference_rejects_" + sig)
		}
		if k := craftOf(c); k != nil && complete {
			if parsed {
				r.Probe("reference_accepts_" + sig + "_" + k.Base)
				if k.Suites >= 128 {
					r.Probe("reference_accepts_craft_suite_list_of_256_bytes_or_more")
				}
				if len(k.Names) > 1 {
					r.Probe("reference_accepts_craft_several_server_names")
				}
				if len(k.Extra) > 12 {
					r.Probe("reference_accepts_craft_more_than_12_extra_extensions")
				}
			}
			if k.MsgLen > 0 {
				switch n := len(rec) - 5; {
				case n < 38:
					r.Probe("craft_min_message_4_37")
				case n < 46:
					r.Probe("craft_min_message_38_45")
				case n <= 64:
					r.Probe("craft_min_message_46_64")
				default:
					r.Probe("craft_min_message_above_64")
				}
			}
		}
		// an unfaulted client whose name has a route completes a TLS session through the tunnel
		if cc.kind == "tls" && want != "" {
			if !cc.hsDone || !cc.echoOK {
				r.Fail("session", "tls-through-tunnel-failed", "%s: handshake error %v, echo ok %v", what, cc.hsErr, cc.echoOK)
			} else {
				r.Probe(fmt.Sprintf("session_tls_%x", cc.version))
				if cc.resumed {
					r.Probe("session_resumed")
				}
				if len(rec) > 4096 {
					r.Probe("hello_above_4k")
				}
			}
		}
	}
}

//go:build verif

package proxy

// C18 — shutdown drains in-flight work and completes within the configured wait (harness H6).
//
// Real: proxy.serve (registration in the package-level servers map) and proxy.Shutdown(wait) over
// 1-5 listeners of the kinds http (net/http.Server), tcp (tcp.Server + tcp.Proxy), tcp+sni
// (tcp.Server + tcp.SNIProxy), grpc (the unexported gRPCServer around grpc.NewServer with a scripted
// handler) and grpc-proxy (the gRPCServer with exactly the options of main.newGrpcProxy: fabio's
// transparent gRPC proxy - interceptor, director, connection pool - in front of a scripted gRPC
// backend) on simulated listeners. Work items (HTTP requests, TCP/SNI tunnels, gRPC unary calls,
// bidi streams and server-streaming calls whose client side is half-closed) start before, at and
// after the shutdown instant; their backends (scripted http.Handler, raw upstreams, scripted gRPC
// handler) answer after scripted delays on the simulated clock. The driver fires Shutdown at an
// arbitrary step of the shutdown instant.
//
// Connections that have not (yet) spoken the protocol of their listener (item kind "raw") are open work
// too: a client that connects and never sends a byte, one that sends only a proper prefix of what the
// listener needs before it can start (HTTP: part of the request head; tcp+sni: part of a ClientHello; tcp:
// part of the greeting the upstream waits for; gRPC: part of the HTTP/2 client preface, or the whole
// preface without the SETTINGS frame), and on gRPC listeners a client that completes the HTTP/2 handshake
// and never starts a call. Each of them stays, or goes away (FIN or RST) before the shutdown, during the
// drain or after the deadline; never-ending HTTP requests and tunnels may lose their client the same way.
//
// Fault "accept error": the accept loop of a listener fails with a permanent error at a scripted
// instant not later than the shutdown instant (Serve returns on its own while the connections it
// has accepted still carry work); Shutdown follows, as main.go does through exit.Fatal.
//
// Listener wrappings: every listener may sit behind a PROXY-protocol listener, http and tcp listeners also
// behind a TLS-terminating one (nesting of proxy.ListenTCP); clients send the PROXY header and complete a TLS
// handshake first, raw connections stall in any of the layers (pxy | tls | proto). Never-ending work also
// comes as a client that does not read while its receive window is full to the brim and nobody is blocked in
// a write (tls.Conn.Close then cannot deliver its close_notify), and as a tunnel whose upstream is
// unreachable (the handler sits in its dial).
//
// Servers started around the shutdown: one more listener may be started by a driver event while fabio runs
// (the real proxy.serve; the goroutine can be held between the registration and the server's Serve).
// Registry history: proxy.CloseProxy for registered, unknown and already closed addresses before the
// Shutdown call (statement-level runs).
//
// The clock moves only when nothing at all is enabled, and every scripted instant is hinted to the
// driver, so the simulated network adds no latency: an item finishes exactly at the instant its
// script says, and "by t0 + wait" is checked without slack.
//
// In part of the runs Shutdown, its per-server goroutines and the accept loops and per-connection
// goroutines of tcp.Server are statement-level tasks. Never-ending work is either blocked in a read
// (silent backend, open tunnel, blocked stream handler) or in a write (a client that never reads).
//
// Oracle, from the statement:
//  (1) a connection attempt made after the first quiescent point that follows the Shutdown call is
//      refused or never served (a raw connection: refused or never greeted - no byte from the listener);
//  (2) an item whose backend had it in hand before the Shutdown call and whose script finishes
//      before t0 + wait completes normally (full response / all bytes both ways / OK + reply),
//      and Shutdown does not return at an instant before that item's script has finished: the
//      process exits when Shutdown returns (main.go: the exit handler ends with proxy.Shutdown,
//      then os.Exit), so work that is still running at that instant is cut off;
//  (3) Shutdown has returned by t0 + wait whatever is still open, raw connections included (they are
//      judged by nothing else: no backend ever has them in hand).

import (
	"bufio"
	"bytes"
	"context"
	"crypto/ed25519"
	"crypto/rand"
	"crypto/tls"
	"crypto/x509"
	"crypto/x509/pkix"
	"fmt"
	"io"
	"log"
	"math/big"
	"net"
	"net/http"
	"os"
	"sort"
	"strings"
	"sync"
	"syscall"
	"testing/synctest"
	"time"

	proxyproto "github.com/armon/go-proxyproto"
	"github.com/go-kit/kit/metrics/discard"
	grpc_proxy "github.com/mwitkow/grpc-proxy/proxy"
	"google.golang.org/grpc"
	"google.golang.org/grpc/credentials/insecure"
	"google.golang.org/grpc/status"
	"google.golang.org/protobuf/types/known/wrapperspb"

	"github.com/fabiolb/fabio/config"
	"github.com/fabiolb/fabio/internal/zzverif/simcore"
	"github.com/fabiolb/fabio/internal/zzverif/simnet"
	"github.com/fabiolb/fabio/proxy/tcp"
	"github.com/fabiolb/fabio/route"
)

func init() {
	zzHarnesses = append(zzHarnesses, &simcore.Harness{Name: "c18", Props: []string{"C18"}, Run: runC18})
}

// ---------------------------------------------------------------- scenario

type c18Lis struct {
	Kind string `json:"kind"` // http | tcp | sni | grpc | grpc-proxy
	// Addr is the listen address, exactly what clients dial: "ip:port", "[ip6]:port", "name:port", or
	// ":port" (wildcard; clients dial it through c18WildcardVia).
	Addr string `json:"addr"`
	Up   string `json:"upstream,omitempty"` // tcp: the one upstream of the route of the listener's port
	// AcceptErrAt: fault: at this instant (offset from the start of the run, never later than the shutdown
	// instant) the listener's Accept fails with a permanent error.
	AcceptErrAt *time.Duration `json:"accept_error_at,omitempty"`
	// TLS: the listener terminates TLS (http: an https listener; tcp: proto=tcp with a certificate source):
	// tls.NewListener around the accepting listener, as proxy.ListenTCP builds it.
	TLS bool `json:"terminates_tls,omitempty"`
	// Pxy: the listener expects the PROXY protocol (proxyproto.Listener below the TLS layer, as
	// proxy.ListenTCP builds it) and gives a client PxyTimeout for its header.
	Pxy        bool          `json:"proxy_protocol,omitempty"`
	PxyTimeout time.Duration `json:"proxy_header_timeout,omitempty"`
	// UpDown: tcp listeners: fault: the upstream of the listener's route is unreachable (connection attempts get no
	// answer until fabio's dial timeout), so every tunnel of the listener stays in its handler's dial.
	UpDown bool `json:"upstream_unreachable,omitempty"`
	// StartAt: the listener is not started during set-up: the real serve path is called for it at this
	// instant (offset from the start of the run), around the shutdown instant.
	StartAt *time.Duration `json:"started_at,omitempty"`

	host       string
	port       int
	srv        *c18Server
	tlscfg     *tls.Config
	fl         *c18FaultyListener
	failed     bool   // guarded by env.mu: the accept error has been injected
	regAddr    string // the address under which fabio has filed the server (net.Listener.Addr().String())
	closedByOp bool   // guarded by env.mu: proxy.CloseProxy was called for the listener's address
	// late start, guarded by env.mu
	started   bool // the start event has fired
	skipped   bool // ... after Shutdown had returned (the process is gone): nothing was started
	startedPh string
}

// layers lists what a client of the listener has to get through, outermost first.
func (l *c18Lis) layers() []string {
	var ls []string
	if l.Pxy {
		ls = append(ls, "pxy")
	}
	if l.TLS {
		ls = append(ls, "tls")
	}
	return append(ls, "proto")
}

// dialKey is the address a client of the listener connects to.
func (l *c18Lis) dialKey() string {
	if l.host == "" {
		return net.JoinHostPort(c18WildcardVia, fmt.Sprint(l.port))
	}
	return l.Addr
}

type c18Item struct {
	ID  string `json:"id"`
	Lis int    `json:"listener"`
	// Kind: http | tcp | sni | grpc-unary | grpc-stream (bidi, the client's sending side stays open) |
	// grpc-sstream (server-streaming: the client has half-closed after its one request)
	Kind string `json:"kind"`
	// Proxied: gRPC items only: the listener is fabio's transparent proxy and the scripted handler runs in
	// the backend behind it.
	Proxied bool `json:"through_grpc_proxy,omitempty"`
	// Start is the instant (offset from the start of the run) at which the client connects and sends.
	Start time.Duration `json:"start"`
	When  string        `json:"start_vs_shutdown"` // before | same-instant | late
	// Idle: tunnels only, silence between the greeting (marker / ClientHello) and the first payload.
	Idle   time.Duration `json:"idle,omitempty"`
	Rounds int           `json:"rounds"`
	// Dur is the delay of the backend before it answers (per round).
	Dur time.Duration `json:"backend_delay"`
	// Forever: http/grpc: the backend never answers; tunnels: the tunnel stays open after its rounds.
	Forever bool `json:"never_ends,omitempty"`
	// Hold: http only: the client keeps its connection open after the response (idle keep-alive).
	Hold bool `json:"keeps_connection_open,omitempty"`
	// Stall: with Forever: the backend answers at once with more bytes than the network buffers and
	// the client never reads them (the open work is blocked in a write, not in a read).
	Stall bool `json:"client_stops_reading,omitempty"`
	// Prelude: with Forever, gRPC streams only: the backend sends one message at once and is silent from then on
	// (a watch: headers and a first message have travelled, the stream stays open).
	Prelude bool   `json:"first_message_then_silence,omitempty"`
	ReqLen  int    `json:"request_bytes"`
	RespLen int    `json:"reply_bytes"`
	Up      string `json:"upstream,omitempty"` // sni: own upstream
	Name    string `json:"server_name,omitempty"`
	Client  string `json:"client"`
	// Pre: kind "raw" only: what the client does after connecting: silent (nothing, ever) | partial (a
	// proper prefix of what the listener needs before it can start, cut at Cut) | preface (gRPC: the whole
	// HTTP/2 client preface, no SETTINGS frame) | idle (gRPC: preface and SETTINGS, the handshake
	// completes, no call follows)
	Pre string `json:"pre_protocol,omitempty"`
	Cut string `json:"cut,omitempty"` // 1-byte | half | all-but-last-byte | boundary
	// Leave: the client goes away at LeaveAt (offset from the start of the run): fin | rst; empty: it stays
	// for the whole run. Raw items and never-ending items only (gRPC: the connection of the call's
	// ClientConn is closed or reset underneath it).
	Leave   string        `json:"client_leaves,omitempty"`
	LeaveAt time.Duration `json:"client_leaves_at,omitempty"`
	// UpDown: sni tunnels: fault: the upstream of the tunnel's route is unreachable (see c18Lis.UpDown; tcp
	// tunnels have the flag of their listener).
	UpDown bool `json:"upstream_unreachable,omitempty"`
	// Brim: with Forever, http and tunnels: the client never reads and the backend sends piece after piece
	// just as long as the pieces still fit into what the network buffers for the client (its receive window):
	// the open work is a connection whose window is full to the brim while nobody is blocked in a write.
	Brim bool `json:"client_window_filled_to_the_brim,omitempty"`
	// TLSVer: items on TLS-terminating listeners: the highest version the client offers (1.3 | 1.2).
	TLSVer string `json:"tls_version,omitempty"`
	// NoPxy: items on PROXY-protocol listeners: the client sends no PROXY header (the protocol is optional).
	NoPxy bool `json:"no_proxy_header,omitempty"`
	// Layer: kind "raw" only: the layer of the listener in which the client stalls (pxy | tls | proto); the
	// layers before it are completed (PROXY header sent / TLS handshake finished), Pre and Cut say what
	// the client still sends of this layer's greeting. On the tls layer Pre can also be "hello": the whole
	// ClientHello, and the handshake is never continued.
	Layer string `json:"stalls_in_layer,omitempty"`

	// built inside the bubble
	marker  []byte
	hello   []byte
	pre     []byte // raw: what the client sends
	reqs    [][]byte
	replies [][]byte

	// observations, guarded by env.mu
	entered   bool // backend has the item in hand (handler entered / upstream identified the tunnel)
	enteredAt time.Time
	before    bool // ... and that happened before the Shutdown call
	entries   int
	upRecv    []byte
	upRounds  int
	upErr     error
	code      string // grpc status code
	reply     string
	callDone  bool
	doneAt    time.Time
	// filling the client's window (Brim), guarded by env.mu
	fillCh      chan int
	fillWaiting bool
	fillN       int
	fillLastK   int
	fillBase    int64 // bytes sent towards the client before the last piece
	fillCost1   int   // what a 1-byte piece costs on the client's connection
	fillDone    bool
	upConn      *simnet.Conn
}

// c18RegOp is a step of the history of the server registry before the shutdown: proxy.CloseProxy(address), as
// the tcp-dynamic loop of main.go calls it when a routed port has disappeared from the routing table.
type c18RegOp struct {
	At time.Duration `json:"at"`
	// Target: the listener whose registered address is closed; -1: Addr, an address no server is registered for
	Target int    `json:"listener"`
	Addr   string `json:"address,omitempty"`

	fired    bool // guarded by env.mu
	returned bool
}

type c18Scenario struct {
	RegOps    []*c18RegOp   `json:"registry_history,omitempty"`
	Wait      time.Duration `json:"shutdown_wait"`
	At        time.Duration `json:"shutdown_at"`
	Tasks     bool          `json:"statement_level"`
	Stick     int           `json:"stick"`
	Listeners []*c18Lis     `json:"listeners"`
	Items     []*c18Item    `json:"items"`
	End       time.Duration `json:"end"`
}

var c18Waits = []time.Duration{time.Second, 50 * time.Millisecond, 5 * time.Second, 30 * time.Second, 0}
var c18Ats = []time.Duration{200 * time.Millisecond, 0, time.Second, 7 * time.Second}
var c18Kinds = []string{"http", "tcp", "sni", "grpc", "grpc-proxy"}
var c18GrpcCalls = []string{"grpc-unary", "grpc-stream", "grpc-sstream"}

// c18DialTimeout is the dial timeout the tcp and tcp+sni handlers are configured with.
const c18DialTimeout = 20 * time.Second

// c18GrpcBackend is the one gRPC backend behind every grpc-proxy listener (an IP literal: no name of the
// second simulated network is spent on it).
const c18GrpcBackend = "10.2.0.50:9100"

// label names the kind of an item in probes and signatures.
func (it *c18Item) label() string {
	if it.Kind == "raw" {
		if it.Layer != "" && it.Layer != "proto" {
			return "raw-" + it.Layer + "-" + it.Pre
		}
		if it.TLSVer != "" {
			return "raw-after-tls-handshake-" + it.Pre
		}
		return "raw-" + it.Pre
	}
	if it.Proxied {
		return "proxied-" + it.Kind
	}
	if it.TLSVer != "" {
		return it.Kind + "-over-tls"
	}
	return it.Kind
}

// name is the kind of the listener with what it is wrapped in, for probes and signatures.
func (l *c18Lis) name() string {
	n := l.Kind
	if l.TLS {
		n += "+tls"
	}
	if l.Pxy {
		n += "+pxy"
	}
	return n
}

// c18Hosts are the host parts of listener addresses: IP literals of both families (more than one per
// family, so that two listeners can differ in nothing but the IP, or in nothing but the family), a name
// (the simulated network keys the listener by name; fabio sees the address the name resolves to) and the
// wildcard (":port"). Value 0 is what every listener used before addresses were generated.
var c18Hosts = []string{"10.1.0.5", "10.1.0.6", "fd00:1::5", "fd00:1::6", "192.168.7.5", "fabio.sim", ""}

// c18WildcardVia is the address through which clients reach a wildcard listener.
const c18WildcardVia = "10.1.0.9"

// c18ListenerAddr draws the address of listener number i (0-based): a host from c18Hosts and either a
// port of its own (7001+i) or, with probability 1/2, the port of an earlier listener. What an operating
// system would refuse to bind is never generated: the same host and port twice; a wildcard listener
// next to any other listener of that port (Go's ":port" is a dual-stack wildcard). A draw that is
// not bindable falls back to the first host that is free on the port, then to the listener's own port.
func c18ListenerAddr(g *simcore.Tape, earlier []*c18Lis, i int) (host string, port int) {
	host = simcore.Pick(g, c18Hosts)
	port = 7001 + i
	if i > 0 && g.Chance(50) {
		port = earlier[g.Intn(i)].port
	}
	free := func(h string) bool {
		for _, l := range earlier {
			if l.port == port && (l.host == h || l.host == "" || h == "") {
				return false
			}
		}
		return true
	}
	if free(host) {
		return host, port
	}
	for _, h := range c18Hosts {
		if h != "" && free(h) {
			return h, port
		}
	}
	return host, 7001 + i // no earlier listener has this port
}

func c18Gen(g *simcore.Tape, thorough bool) *c18Scenario {
	sc := &c18Scenario{}
	waits, ats := c18Waits, c18Ats
	if thorough {
		waits = append(append([]time.Duration(nil), waits...), 10*time.Millisecond, 2*time.Minute)
		ats = append(append([]time.Duration(nil), ats...), 30*time.Second)
	}
	sc.Wait = simcore.Pick(g, waits)
	sc.At = simcore.Pick(g, ats)
	sc.Tasks = g.Chance(35)
	sc.Stick = simcore.Pick(g, []int{1, 3, 8})
	nl := g.Range(1, 5)
	W, A := sc.Wait, sc.At
	nlate := 0
	if g.Chance(30) {
		// one more listener is started while fabio runs, around the shutdown instant
		nlate = 1
	}
	for i := 0; i < nl+nlate; i++ {
		l := &c18Lis{Kind: simcore.Pick(g, c18Kinds)}
		l.host, l.port = c18ListenerAddr(g, sc.Listeners, i)
		l.Addr = net.JoinHostPort(l.host, fmt.Sprint(l.port))
		if l.Kind == "tcp" {
			// tcp.Proxy finds its route by the port of the listener: tcp listeners that share a port
			// share the route and therefore the upstream (tunnels are told apart by their marker)
			l.Up = fmt.Sprintf("up-p%d.sim:9000", l.port)
		}
		if (l.Kind == "http" || l.Kind == "tcp") && g.Chance(35) {
			l.TLS = true
		}
		if l.Kind == "tcp" && g.Chance(12) {
			l.UpDown = true
			for _, o := range sc.Listeners {
				if o.Up == l.Up {
					o.UpDown = true // one upstream per port
				}
			}
		}
		for _, o := range sc.Listeners {
			if l.Kind == "tcp" && o.Up == l.Up && o.UpDown {
				l.UpDown = true
			}
		}
		if g.Chance(25) {
			l.Pxy = true
			l.PxyTimeout = simcore.Pick(g, []time.Duration{250 * time.Millisecond, 2 * time.Second}) // fabio's default first
		}
		if i >= nl {
			// same instant as the shutdown (the driver orders the two), just after it, half way through the
			// drain, just before the deadline, or while fabio is simply running
			at := simcore.Pick(g, []time.Duration{A, A + time.Millisecond, A + W/2, A + W - time.Millisecond, A / 2})
			if at < 0 {
				at = 0
			}
			l.StartAt = &at
		}
		sc.Listeners = append(sc.Listeners, l)
	}
	nl += nlate
	maxItems := 6
	if thorough {
		maxItems = 10
	}
	ni := g.Range(1, maxItems)
	end := A + W
	for j := 0; j < ni; j++ {
		it := &c18Item{ID: fmt.Sprintf("i%02d", j), Rounds: 1}
		it.Lis = g.Intn(nl)
		if nlate > 0 && j == 0 {
			it.Lis = nl - 1 // a listener that is started late always has a client
		}
		l := sc.Listeners[it.Lis]
		it.Kind = l.Kind
		if l.TLS {
			it.TLSVer = simcore.Pick(g, []string{"1.3", "1.2"})
		}
		if l.Pxy {
			it.NoPxy = g.Chance(20)
		}
		if l.Kind == "grpc" || l.Kind == "grpc-proxy" {
			it.Kind = simcore.Pick(g, c18GrpcCalls)
			it.Proxied = l.Kind == "grpc-proxy"
		}
		it.Client = fmt.Sprintf("192.0.2.%d:5000", 10+j)
		if strings.Contains(l.host, ":") {
			it.Client = fmt.Sprintf("[2001:db8::%x]:5000", 16+j)
		}
		tunnel := it.Kind == "tcp" || it.Kind == "sni"
		if it.Kind == "sni" {
			it.Name = it.ID + ".example.com"
			it.Up = "up-" + it.ID + ".sim:9000"
			it.UpDown = g.Chance(12)
		}
		if it.Kind == "tcp" {
			it.UpDown = l.UpDown
		}
		switch c := g.Intn(10); {
		case c <= 5:
			it.When = "before"
			it.Start = A * time.Duration(g.Intn(3)) / 4 // 0, A/4, A/2
			if A == 0 {
				it.When = "same-instant"
			}
		case c <= 7:
			it.When = "same-instant"
			it.Start = A
		default:
			it.When = "late"
			off := simcore.Pick(g, []time.Duration{time.Millisecond, W / 2, W - time.Millisecond, W, W + time.Millisecond, W + time.Second})
			if off <= 0 {
				off = time.Millisecond
			}
			it.Start = A + off
		}
		c18AfterStart(g, it, l, A, W)
		it.ReqLen = simcore.Pick(g, []int{0, 1, 200, 3000})
		it.RespLen = simcore.Pick(g, []int{2, 0, 300, 20000})
		if tunnel {
			if it.ReqLen == 0 {
				it.ReqLen = 1
			}
			if it.RespLen == 0 {
				it.RespLen = 1
			}
		}
		if it.When != "late" {
			var target time.Duration
			switch g.Intn(10) {
			case 0:
				target = it.Start
			case 1:
				target = it.Start + (A-it.Start)/2
			case 2:
				target = A
			case 3:
				target = A + time.Millisecond
			case 4:
				target = A + W/2
			case 5:
				target = A + W - time.Millisecond
			case 6:
				target = A + W
			case 7:
				target = A + W + time.Millisecond
			case 8:
				target = A + 3*W + time.Second
			case 9:
				it.Forever = true
				target = it.Start
			}
			total := target - it.Start
			if total < 0 {
				total = 0
			}
			if tunnel {
				it.Rounds = g.Range(1, 3)
				if g.Bool() {
					it.Idle = total / 2
				}
			}
			if it.Kind == "sni" && it.Idle < time.Millisecond {
				it.Idle = time.Millisecond
				if total < it.Idle {
					total = it.Idle
				}
			}
			it.Dur = (total - it.Idle) / time.Duration(it.Rounds)
			if it.Forever && it.Kind != "grpc-unary" && g.Chance(30) {
				it.Stall = true
				it.Rounds, it.Dur, it.RespLen = 1, 0, 200000
			}
			if it.Forever && !it.Stall && (it.Kind == "grpc-stream" || it.Kind == "grpc-sstream") {
				it.Prelude = g.Bool()
			}
			if it.Forever && !it.Stall && (it.Kind == "http" || tunnel) && g.Chance(30) {
				it.Brim = true
				it.Rounds, it.Dur = 1, 0
			}
			if it.Kind == "http" && !it.Forever && it.Start+it.Dur < A {
				it.Hold = g.Bool()
			}
			if it.Forever && g.Chance(40) {
				// the client of never-ending work goes away
				it.Leave = simcore.Pick(g, []string{"fin", "rst"})
				it.LeaveAt = c18LeaveAt(g, it.Start+it.Idle, A, W)
			}
		} else if it.Kind == "sni" {
			it.Idle = time.Millisecond
		}
		// a backend timer that expires at exactly t0 + wait would race with fabio's own deadline timer
		// inside one simulated instant (two timers, no driver step in between): keep them apart
		for k := 1; k <= it.Rounds; k++ {
			if it.Start+it.Idle+time.Duration(k)*it.Dur == A+W {
				it.Dur += time.Microsecond
				k = 0
			}
		}
		if !it.Forever {
			if f := it.finish(); f > end {
				end = f
			}
		}
		if it.Start+it.Idle > end {
			end = it.Start + it.Idle
		}
		if it.LeaveAt > end {
			end = it.LeaveAt
		}
		sc.Items = append(sc.Items, it)
	}
	// connections that have not (yet) spoken the protocol of their listener
	nr := g.Intn(4)
	if thorough {
		nr = g.Intn(7)
	}
	for k := 0; k < nr; k++ {
		it := &c18Item{ID: fmt.Sprintf("r%02d", k), Kind: "raw"}
		it.Lis = g.Intn(nl)
		l := sc.Listeners[it.Lis]
		it.Layer = simcore.Pick(g, l.layers())
		if l.TLS {
			it.TLSVer = simcore.Pick(g, []string{"1.3", "1.2"})
		}
		pres := c18Pres[:2]
		switch {
		case it.Layer == "tls":
			pres = []string{"silent", "partial", "hello"}
		case it.Layer == "proto" && (l.Kind == "grpc" || l.Kind == "grpc-proxy"):
			pres = c18Pres
		}
		it.Pre = simcore.Pick(g, pres)
		if it.Pre == "partial" {
			it.Cut = simcore.Pick(g, c18Cuts)
		}
		if it.Pre != "silent" && (it.Layer == "tls" || it.Layer == "proto" && l.Kind == "sni") {
			it.Name = it.ID + ".example.com"
		}
		it.Client = fmt.Sprintf("192.0.2.%d:5000", 100+k)
		if strings.Contains(l.host, ":") {
			it.Client = fmt.Sprintf("[2001:db8::1:%x]:5000", 16+k)
		}
		switch c := g.Intn(8); {
		case c <= 4:
			it.When = "before"
			it.Start = A * time.Duration(g.Intn(3)) / 4
			if A == 0 {
				it.When = "same-instant"
			}
		case c == 5:
			it.When = "same-instant"
			it.Start = A
		default:
			it.When = "late"
			off := simcore.Pick(g, []time.Duration{time.Millisecond, W / 2, W - time.Millisecond, W, W + time.Millisecond, W + time.Second})
			if off <= 0 {
				off = time.Millisecond
			}
			it.Start = A + off
		}
		c18AfterStart(g, it, l, A, W)
		if it.Leave = simcore.Pick(g, []string{"", "fin", "rst"}); it.Leave != "" {
			it.LeaveAt = c18LeaveAt(g, it.Start, A, W)
		}
		if it.Start > end {
			end = it.Start
		}
		if it.LeaveAt > end {
			end = it.LeaveAt
		}
		sc.Items = append(sc.Items, it)
	}
	sc.End = end + time.Second
	// fault: the accept loop of one listener (seldom of two) fails for good at the shutdown instant (fired
	// before Shutdown), half way, three quarters or a quarter of the way to it
	if g.Chance(30) {
		nf := 1
		if g.Chance(25) {
			nf = 2
		}
		for k := 0; k < nf; k++ {
			l := sc.Listeners[g.Intn(nl-nlate)] // never the listener that is started late
			at := A * time.Duration(simcore.Pick(g, []int{4, 2, 3, 1})) / 4
			l.AcceptErrAt = &at
		}
	}
	// history of the server registry before the shutdown: CloseProxy for the address of a running listener,
	// for an address nothing is registered for, and a second time for the same address. Statement-level runs
	// only: there every user of the registry (CloseProxy, Shutdown, a late serve) is a task and its locks are
	// simulated ones, so that a lock which is never released blocks the later callers durably; a goroutine
	// of an event-level run would block on the real mutex, which freezes the simulated clock.
	if sc.Tasks && g.Chance(45) {
		n := 1
		if g.Chance(40) {
			n = 2
		}
		// CloseProxy is fabio's way to end a dynamic TCP listener: only listeners served by a tcp.Server are closed
		var tcps []int
		for i, l := range sc.Listeners[:nl-nlate] {
			if l.Kind == "tcp" || l.Kind == "sni" {
				tcps = append(tcps, i)
			}
		}
		for k := 0; k < n; k++ {
			op := &c18RegOp{At: A * time.Duration(simcore.Pick(g, []int{2, 1, 3, 4})) / 4, Target: -1}
			switch {
			case k > 0 && g.Bool():
				op.Target, op.Addr = sc.RegOps[0].Target, sc.RegOps[0].Addr // the same address again
			case len(tcps) == 0 || g.Bool():
				op.Addr = simcore.Pick(g, []string{":6999", "10.1.0.77:6999"})
			default:
				op.Target = simcore.Pick(g, tcps)
			}
			sc.RegOps = append(sc.RegOps, op)
		}
	}
	return sc
}

// c18AfterStart moves the start of an item on a listener that is started late to an instant at which the
// listener can exist: the instant of the start itself (the driver orders the two), 1ms later, or half way
// between the start and the deadline.
func c18AfterStart(g *simcore.Tape, it *c18Item, l *c18Lis, A, W time.Duration) {
	if l.StartAt == nil {
		return
	}
	s := *l.StartAt
	rest := A + W - s
	if rest < 0 {
		rest = 0
	}
	it.Start = s + simcore.Pick(g, []time.Duration{time.Millisecond, 0, rest / 2})
	switch {
	case it.Start < A:
		it.When = "before"
	case it.Start == A:
		it.When = "same-instant"
	default:
		it.When = "late"
	}
}

// c18Pres are the behaviours of a raw connection (the last two on gRPC listeners only); c18Cuts are the
// places at which a partial greeting stops.
var c18Pres = []string{"silent", "partial", "preface", "idle"}
var c18Cuts = []string{"1-byte", "half", "all-but-last-byte", "boundary"}

// c18HTTP2Preface is the HTTP/2 client connection preface (RFC 9113, 3.4); c18HTTP2Settings an empty SETTINGS frame.
const c18HTTP2Preface = "PRI * HTTP/2.0\r\n\r\nSM\r\n\r\n"

var c18HTTP2Settings = []byte{0, 0, 0, 4, 0, 0, 0, 0, 0}

// c18LeaveAt draws the instant at which a client that is connected from `from` on goes away: half a wait
// into the drain (counted from its connect if that is later), 1ms into it, 1ms before the deadline, 1ms
// after it, or before the shutdown instant.
func c18LeaveAt(g *simcore.Tape, from, A, W time.Duration) time.Duration {
	base := A
	if from > base {
		base = from
	}
	var at time.Duration
	switch g.Intn(5) {
	case 0:
		at = base + W/2
	case 1:
		at = base + time.Millisecond
	case 2:
		at = A + W - time.Millisecond
	case 3:
		at = A + W + time.Millisecond
	case 4:
		at = from + (A-from)/2
	}
	if at < from {
		at = from
	}
	return at
}

// c18PxyHeader is the PROXY protocol (version 1) line a load balancer in front of fabio sends first: the
// address of the original client and the address it connected to.
func c18PxyHeader(it *c18Item, l *c18Lis) []byte {
	n := 0
	fmt.Sscanf(it.ID[1:], "%d", &n)
	if strings.Contains(l.host, ":") {
		return []byte(fmt.Sprintf("PROXY TCP6 2001:db8:ffff::%x %s %d %d\r\n", 16+n, l.host, 40000+n, l.port))
	}
	dst := l.host
	if net.ParseIP(dst) == nil {
		dst = c18WildcardVia // wildcard and name-keyed listeners
	}
	return []byte(fmt.Sprintf("PROXY TCP4 203.0.113.%d %s %d %d\r\n", 10+n, dst, 40000+n, l.port))
}

// c18Partial cuts the greeting full (boundary: the length of its first structural part).
func c18Partial(full []byte, boundary int, cut string) []byte {
	n := 1
	switch cut {
	case "half":
		n = len(full) / 2
	case "all-but-last-byte":
		n = len(full) - 1
	case "boundary":
		n = boundary
	}
	if n >= len(full) {
		n = len(full) - 1
	}
	if n < 1 {
		n = 1
	}
	return append([]byte(nil), full[:n]...)
}

// finish is the instant (offset from the start of the run) at which the item's script ends.
func (it *c18Item) finish() time.Duration {
	return it.Start + it.Idle + time.Duration(it.Rounds)*it.Dur
}

// ---------------------------------------------------------------- servers

// c18Server wraps a real server so that the harness can see when its Shutdown returns.
type c18Server struct {
	e     *c18Env
	kind  string
	inner Server

	// door: a listener that is started late: Serve waits here for the driver (nil: no stop)
	door chan struct{}

	// guarded by e.mu
	atDoor     bool
	doorOpen   bool
	serving    bool
	servedGone bool // Serve was entered after proxy.Shutdown had returned
	served     bool // Serve has returned
	serveErr   error
	sdEntered  bool
	sdReturned bool
	sdAt       time.Time
}

func (s *c18Server) Close() error { return s.inner.Close() }
func (s *c18Server) Serve(l net.Listener) error {
	if s.door != nil {
		// proxy.serve has registered the server and now calls Serve: the goroutine may lose the processor
		// right here; the driver decides what else happens before the server's own Serve begins
		s.e.mu.Lock()
		s.atDoor = true
		s.e.mu.Unlock()
		select {
		case <-s.door:
		case <-s.e.stop:
			return net.ErrClosed
		}
	}
	s.e.mu.Lock()
	s.serving = true
	s.servedGone = s.e.sdReturned
	s.e.mu.Unlock()
	err := s.inner.Serve(l)
	s.e.mu.Lock()
	s.served, s.serveErr = true, err
	s.e.mu.Unlock()
	return err
}

// c18FaultyListener is a listener whose accept loop can be made to fail for good. A pump hands the
// connections of the simulated listener over; once the fault is injected every Accept (the blocked one
// included) returns a permanent error, and connections that still arrive before the server closes the
// listener are reset, as a kernel resets what sits in the backlog of a socket that is closed.
type c18FaultyListener struct {
	net.Listener
	ch       chan net.Conn
	fail     chan struct{}
	innerErr error
}

// c18AcceptErr is not temporary (net/http and grpc-go retry temporary accept errors such as EMFILE).
var c18AcceptErr = os.NewSyscallError("accept4", syscall.ENOBUFS)

func c18NewFaultyListener(inner net.Listener) *c18FaultyListener {
	l := &c18FaultyListener{Listener: inner, ch: make(chan net.Conn), fail: make(chan struct{})}
	go func() {
		for {
			c, err := inner.Accept()
			if err != nil {
				l.innerErr = err
				close(l.ch)
				return
			}
			select {
			case l.ch <- c:
			case <-l.fail:
				if sc, ok := c.(*simnet.Conn); ok {
					sc.Reset()
				} else {
					c.Close()
				}
			}
		}
	}()
	return l
}

func (l *c18FaultyListener) Accept() (net.Conn, error) {
	failed := &net.OpError{Op: "accept", Net: "tcp", Addr: l.Addr(), Err: c18AcceptErr}
	select {
	case <-l.fail:
		return nil, failed
	default:
	}
	select {
	case c, ok := <-l.ch:
		if !ok {
			return nil, l.innerErr
		}
		return c, nil
	case <-l.fail:
		return nil, failed
	}
}
func (s *c18Server) Shutdown(ctx context.Context) error {
	s.e.mu.Lock()
	s.sdEntered = true
	s.e.mu.Unlock()
	err := s.inner.Shutdown(ctx)
	s.e.mu.Lock()
	s.sdReturned, s.sdAt = true, time.Now()
	s.e.mu.Unlock()
	return err
}

// ---------------------------------------------------------------- environment

type c18Act struct {
	Kind string // dial | write | await | awaithttp | close | call
	At   time.Time
	Data []byte
	N    int
}

type c18Peer struct {
	it   *c18Item
	acts []c18Act
	gate chan struct{}
	from *net.TCPAddr
	key  string

	// guarded by env.mu
	conn          *simnet.Conn
	next          int
	idle          bool
	dead          bool
	dialErr       error
	recv          []byte
	readDone      bool
	readErr       error
	werr          error
	want          int // tunnels: bytes expected in total
	complete      bool
	completeAt    time.Time
	phase         string // of the connection attempt: before | gray | after
	gone          bool   // the attempt was made after proxy.Shutdown had returned
	willHandshake bool
	tls           *tls.Conn // set once the TLS handshake has completed
	hsDone        bool
	hsErr         error
	leftPhase     string // of the instant the client went away (Leave), empty while it is there
}

type c18Env struct {
	r    *simcore.Run
	d    *simcore.Driver
	sc   *c18Scenario
	net  *simnet.Net // http, tcp, sni and the upstreams: every segment is a driver event
	gnet *simnet.Net // grpc: automatic delivery, untraced
	base time.Time

	ctx    context.Context
	cancel context.CancelFunc
	stop   chan struct{}

	mu         sync.Mutex
	peers      []*c18Peer
	byID       map[string]*c18Item
	byMarker   map[string]*c18Item
	ccs        []*grpc.ClientConn
	poolCCs    []*grpc.ClientConn // what fabio's gRPC connection pools have dialled
	backend    *grpc.Server       // the gRPC backend behind the grpc-proxy listeners
	stray      int
	sdStarted  bool
	begun      bool
	t0         time.Time
	sdReturned bool
	sdAt       time.Time
}

func (e *c18Env) sleep(d time.Duration) bool {
	if d <= 0 {
		return true
	}
	e.d.Hint(time.Now().Add(d))
	t := time.NewTimer(d)
	defer t.Stop()
	select {
	case <-t.C:
		return true
	case <-e.stop:
		return false
	}
}

func c18Addr(s string) *net.TCPAddr {
	a, err := net.ResolveTCPAddr("tcp", s)
	if err != nil {
		panic(err)
	}
	return a
}

// enter records that the backend has the item in hand.
func (e *c18Env) enter(it *c18Item) {
	e.mu.Lock()
	it.entries++
	if !it.entered {
		it.entered, it.enteredAt, it.before = true, time.Now(), !e.sdStarted
	}
	e.mu.Unlock()
}

// ---- backends

func (e *c18Env) httpHandler() http.Handler {
	return http.HandlerFunc(func(w http.ResponseWriter, req *http.Request) {
		io.Copy(io.Discard, req.Body)
		e.mu.Lock()
		it := e.byID[req.Header.Get("X-Sim-Id")]
		e.mu.Unlock()
		if it == nil {
			w.WriteHeader(599)
			return
		}
		e.enter(it)
		if it.Brim {
			// an endless response (unknown length) to a client that does not read
			w.Header().Set("Content-Type", "application/octet-stream")
			e.brimLoop(it, func(b []byte) error {
				if _, err := w.Write(b); err != nil {
					return err
				}
				return http.NewResponseController(w).Flush()
			})
		}
		if it.Forever && !it.Stall {
			select {
			case <-e.stop:
			case <-req.Context().Done():
			}
			return
		}
		if !e.sleep(it.Dur) {
			return
		}
		w.Header().Set("Content-Type", "application/octet-stream")
		w.Header().Set("Content-Length", fmt.Sprint(len(it.replies[0])))
		w.Write(it.replies[0])
	})
}

func (e *c18Env) grpcHandler(_ any, stream grpc.ServerStream) error {
	in := &wrapperspb.StringValue{}
	if err := stream.RecvMsg(in); err != nil {
		return err
	}
	id, _, _ := strings.Cut(in.Value, ":")
	e.mu.Lock()
	it := e.byID[id]
	e.mu.Unlock()
	if it == nil {
		return status.Error(12, "unscripted")
	}
	e.enter(it)
	if it.Stall {
		// the client never receives: the stream's flow-control window fills and SendMsg blocks
		for k := 0; k < 8; k++ {
			if err := stream.SendMsg(&wrapperspb.StringValue{Value: string(it.replies[0])}); err != nil {
				return err
			}
		}
	}
	if it.Forever {
		if it.Prelude {
			if err := stream.SendMsg(&wrapperspb.StringValue{Value: string(it.replies[0])}); err != nil {
				return err
			}
		}
		select {
		case <-e.stop:
		case <-stream.Context().Done():
		}
		return status.Error(1, "stream ended by the server side")
	}
	if it.Dur > 0 {
		e.d.Hint(time.Now().Add(it.Dur))
		t := time.NewTimer(it.Dur)
		defer t.Stop()
		select {
		case <-t.C:
		case <-e.stop:
			return status.Error(1, "teardown")
		case <-stream.Context().Done():
			return status.Error(1, "context ended")
		}
	}
	return stream.SendMsg(&wrapperspb.StringValue{Value: string(it.replies[0])})
}

// upstream runs a raw upstream: fixed != nil for the per-item upstreams of sni tunnels, otherwise the
// tunnel is identified by the 8-byte marker every tcp client sends first.
func (e *c18Env) upstream(key string, fixed *c18Item) {
	ln, err := e.net.Listen(key, simnet.ListenOpts{})
	if err != nil {
		e.r.Trouble("listen %s: %v", key, err)
		e.r.Abort()
	}
	go func() {
		for {
			c, err := ln.Accept()
			if err != nil {
				return
			}
			go e.upstreamConn(fixed, c)
		}
	}()
}

func (e *c18Env) upstreamConn(it *c18Item, c net.Conn) {
	defer c.Close()
	br := bufio.NewReader(c)
	var pre []byte
	if it == nil {
		m := make([]byte, 8)
		if _, err := io.ReadFull(br, m); err != nil {
			e.mu.Lock()
			e.stray++
			e.mu.Unlock()
			return
		}
		e.mu.Lock()
		it = e.byMarker[string(m)]
		if it == nil {
			e.stray++
		}
		e.mu.Unlock()
		if it == nil {
			return
		}
		pre = m
	}
	e.enter(it)
	rec := func(b []byte, err error) {
		e.mu.Lock()
		it.upRecv = append(it.upRecv, b...)
		if err != nil && it.upErr == nil {
			it.upErr = err
		}
		e.mu.Unlock()
	}
	rec(pre, nil)
	if len(it.hello) > 0 {
		b := make([]byte, len(it.hello))
		n, err := io.ReadFull(br, b)
		rec(b[:n], err)
		if err != nil {
			return
		}
	}
	for r := 0; r < it.Rounds; r++ {
		b := make([]byte, len(it.reqs[r]))
		n, err := io.ReadFull(br, b)
		rec(b[:n], err)
		if err != nil {
			return
		}
		if it.Brim {
			e.mu.Lock()
			it.upConn, _ = c.(*simnet.Conn)
			e.mu.Unlock()
			e.brimLoop(it, func(b []byte) error { _, err := c.Write(b); return err })
			break
		}
		if !e.sleep(it.Dur) {
			return
		}
		if _, err := c.Write(it.replies[r]); err != nil {
			rec(nil, err)
			return
		}
		e.mu.Lock()
		it.upRounds++
		e.mu.Unlock()
	}
	// keep the tunnel open until the other side ends it
	buf := make([]byte, 4096)
	for {
		n, err := br.Read(buf)
		if n > 0 {
			rec(buf[:n], nil)
		}
		if err != nil {
			return
		}
	}
}

// ---- clients

func (e *c18Env) addPeer(it *c18Item, key string, acts []c18Act, want int) *c18Peer {
	p := &c18Peer{it: it, acts: acts, gate: make(chan struct{}), from: c18Addr(it.Client), key: key, want: want}
	for _, a := range acts {
		if !a.At.IsZero() {
			e.d.Hint(a.At)
		}
		if a.Kind == "handshake" {
			p.willHandshake = true
		}
	}
	e.mu.Lock()
	e.peers = append(e.peers, p)
	e.mu.Unlock()
	go p.actor(e)
	return p
}

func (p *c18Peer) actor(e *c18Env) {
	for {
		e.mu.Lock()
		if p.next >= len(p.acts) || p.dead {
			e.mu.Unlock()
			return
		}
		p.idle = true
		e.mu.Unlock()
		select {
		case <-p.gate:
		case <-e.stop:
			return
		}
		e.mu.Lock()
		a := p.acts[p.next]
		conn, tc := p.conn, p.tls
		e.mu.Unlock()
		lk := e.sc.Listeners[p.it.Lis].Kind
		switch a.Kind {
		case "dial":
			nw := e.net
			if lk == "grpc" || lk == "grpc-proxy" {
				nw = e.gnet // raw connections to a gRPC listener
			}
			c, err := nw.Dial(e.r.Ctx(), p.from, p.key, 0)
			e.mu.Lock()
			if err != nil {
				p.dead, p.dialErr = true, err
				e.mu.Unlock()
				return
			}
			p.conn = c.(*simnet.Conn)
			e.mu.Unlock()
			if p.it.Kind == "raw" && lk == "http" && !p.willHandshake {
				// net/http closes a connection that has not sent a request head after about 5 s at one
				// of the polling instants of Shutdown, which are jittered with math/rand: nothing the
				// server does to this connection may reach the schedule or the trace. The client is a
				// peer whose side of the path is dead: what the server sends is never delivered.
				p.conn.Peer().Stall(true)
			}
			if !p.it.Stall && !p.it.Brim && !p.willHandshake {
				go p.reader(e)
			}
		case "handshake":
			tc := tls.Client(conn, c18ClientTLS(p.it))
			err := tc.Handshake()
			e.mu.Lock()
			if err != nil {
				p.dead, p.hsErr = true, err
				e.mu.Unlock()
				return
			}
			p.tls, p.hsDone = tc, true
			e.mu.Unlock()
			if p.it.Kind == "raw" && lk == "http" {
				// as above, from the end of the handshake on (the handshake itself needs both directions)
				p.conn.Peer().Stall(true)
			}
			if !p.it.Stall && !p.it.Brim {
				go p.reader(e)
			}
		case "write":
			var err error
			if tc != nil {
				_, err = tc.Write(a.Data)
			} else {
				_, err = conn.Write(a.Data)
			}
			if err != nil {
				e.mu.Lock()
				if p.werr == nil {
					p.werr = err
				}
				e.mu.Unlock()
			}
		case "close":
			if tc != nil {
				tc.Close() // close_notify, then the connection
			} else {
				conn.Close()
			}
		case "leave-fin":
			conn.Close()
		case "leave-rst":
			conn.Reset()
		case "call":
			if p.it.Leave != "" {
				go e.grpcCall(p) // the actor goes on to the instant at which the client goes away
			} else {
				e.grpcCall(p)
			}
		}
		e.mu.Lock()
		p.next++
		e.mu.Unlock()
	}
}

func (p *c18Peer) reader(e *c18Env) {
	buf := make([]byte, 4096)
	e.mu.Lock()
	var rd io.Reader = p.conn
	if p.tls != nil {
		rd = p.tls
	}
	e.mu.Unlock()
	for {
		n, err := rd.Read(buf)
		e.mu.Lock()
		p.recv = append(p.recv, buf[:n]...)
		if !p.complete && p.it.Kind != "raw" {
			if p.it.Kind == "http" {
				_, _, p.complete = c18ParseHTTP(p.recv)
			} else {
				p.complete = len(p.recv) >= p.want
			}
			if p.complete {
				p.completeAt = time.Now()
			}
		}
		if err != nil {
			p.readDone, p.readErr = true, err
		}
		e.mu.Unlock()
		if err != nil {
			return
		}
	}
}

// c18ParseHTTP parses what an HTTP client has received so far; ok says that it is one complete response.
func c18ParseHTTP(b []byte) (status int, body []byte, ok bool) {
	resp, err := http.ReadResponse(bufio.NewReader(bytes.NewReader(b)), &http.Request{Method: "GET"})
	if err != nil {
		return 0, nil, false
	}
	if resp.ContentLength < 0 {
		return resp.StatusCode, nil, false
	}
	body, err = io.ReadAll(resp.Body)
	return resp.StatusCode, body, err == nil
}

func (e *c18Env) grpcCall(p *c18Peer) {
	it := p.it
	done := func(code, reply string) {
		e.mu.Lock()
		it.callDone, it.code, it.reply, it.doneAt = true, code, reply, time.Now()
		if code == "OK" {
			p.complete, p.completeAt = true, it.doneAt
		}
		e.mu.Unlock()
	}
	cc, err := grpc.NewClient("passthrough:///"+p.key,
		grpc.WithTransportCredentials(insecure.NewCredentials()),
		grpc.WithContextDialer(func(ctx context.Context, addr string) (net.Conn, error) {
			c, err := e.gnet.Dial(ctx, p.from, addr, 0)
			if sc, ok := c.(*simnet.Conn); ok && err == nil {
				e.mu.Lock()
				p.conn = sc
				e.mu.Unlock()
				if l := e.sc.Listeners[it.Lis]; l.Pxy && !it.NoPxy {
					c.Write(c18PxyHeader(it, l))
				}
			}
			return c, err
		}))
	if err != nil {
		done("client: "+err.Error(), "")
		return
	}
	e.mu.Lock()
	e.ccs = append(e.ccs, cc)
	e.mu.Unlock()
	in := &wrapperspb.StringValue{Value: it.ID + ":" + string(it.reqs[0])}
	out := &wrapperspb.StringValue{}
	if it.Kind == "grpc-unary" {
		err = cc.Invoke(e.ctx, "/c18.Sim/Unary", in, out)
	} else {
		var cs grpc.ClientStream
		if it.Kind == "grpc-sstream" {
			cs, err = cc.NewStream(e.ctx, &grpc.StreamDesc{StreamName: "Watch", ServerStreams: true}, "/c18.Sim/Watch")
		} else {
			cs, err = cc.NewStream(e.ctx, &grpc.StreamDesc{StreamName: "Stream", ServerStreams: true, ClientStreams: true}, "/c18.Sim/Stream")
		}
		if err == nil {
			err = cs.SendMsg(in)
		}
		if err == nil && it.Kind == "grpc-sstream" {
			// the client has nothing more to send: its side of the stream is closed from now on
			err = cs.CloseSend()
		}
		if err == nil && it.Stall {
			select {
			case <-e.stop:
			case <-cs.Context().Done():
			}
			err = status.Error(1, "client never receives")
		}
		if err == nil {
			err = cs.RecvMsg(out)
		}
		if err == nil {
			// the stream must now end with an OK status
			if e2 := cs.RecvMsg(&wrapperspb.StringValue{}); e2 != io.EOF {
				err = e2
				if err == nil {
					err = status.Error(2, "second message on a one-reply stream")
				}
			}
		}
	}
	done(status.Code(err).String(), out.Value)
	cc.Close()
}

// events lists the client actions that are due.
func (e *c18Env) events() []simcore.Event {
	e.mu.Lock()
	defer e.mu.Unlock()
	now := time.Now()
	var ev []simcore.Event
	for _, p := range e.peers {
		p := p
		if !p.idle || p.next >= len(p.acts) || p.dead {
			continue
		}
		a := p.acts[p.next]
		if now.Before(a.At) {
			continue
		}
		ok := true
		switch a.Kind {
		case "dial", "call":
		case "await":
			ok = len(p.recv) >= a.N || p.readDone
		case "awaithttp":
			ok = p.complete || p.readDone
		default:
			ok = p.conn != nil
		}
		if !ok {
			continue
		}
		idx := p.next
		ev = append(ev, simcore.Event{Key: "cl:" + p.it.ID, Fire: func() {
			e.mu.Lock()
			if a.Kind == "dial" || a.Kind == "call" {
				p.gone = e.sdReturned
				switch {
				case !e.sdStarted:
					p.phase = "before"
				case !e.begun:
					p.phase = "gray"
				default:
					p.phase = "after"
				}
			}
			if a.Kind == "leave-fin" || a.Kind == "leave-rst" {
				switch {
				case !e.sdStarted:
					p.leftPhase = "before"
				case !e.begun:
					p.leftPhase = "gray"
				default:
					p.leftPhase = "after"
				}
			}
			p.idle = false
			ph := p.phase
			e.mu.Unlock()
			e.r.Tracef("client %s #%d %s %d (%s)", p.it.ID, idx, a.Kind, len(a.Data)+a.N, ph)
			p.gate <- struct{}{}
		}})
	}
	// a listener that is started while fabio runs
	for i, l := range e.sc.Listeners {
		i, l := i, l
		if l.StartAt == nil || l.started || now.Before(e.base.Add(*l.StartAt)) {
			continue
		}
		ev = append(ev, simcore.Event{Key: fmt.Sprintf("start:%d", i), Fire: func() { e.lateStart(i, l) }})
	}
	for i, l := range e.sc.Listeners {
		i, l := i, l
		if l.StartAt == nil || !l.srv.atDoor || l.srv.doorOpen {
			continue
		}
		ev = append(ev, simcore.Event{Key: fmt.Sprintf("start:%d:serve", i), Fire: func() {
			e.mu.Lock()
			l.srv.doorOpen = true
			sd := l.srv.sdEntered
			e.mu.Unlock()
			e.r.Tracef("listener %d %s %s: registered, its Serve begins now", i, l.Kind, l.Addr)
			if sd {
				e.r.Probe("server_shut_down_between_registration_and_serve_" + l.Kind)
			}
			close(l.srv.door)
		}})
	}
	// a backend that fills the window of a client that does not read: the next piece is sent once everything
	// sent so far has reached the client's connection
	for _, it := range e.sc.Items {
		it := it
		if !it.Brim || !it.fillWaiting || it.fillDone {
			continue
		}
		p := e.peerOf(it)
		if p == nil || p.conn == nil {
			continue
		}
		if it.upConn != nil {
			if sent, _, read := it.upConn.Counters(); sent != read {
				continue // fabio has not taken everything over yet
			}
		}
		ev = append(ev, simcore.Event{Key: "fill:" + it.ID, Fire: func() { e.fill(it, p) }})
	}
	// faults: a scripted accept error fires before Shutdown is called (it is never later than the shutdown
	// instant; after the call the listener is closed anyway)
	faultDue := false
	for i, l := range e.sc.Listeners {
		i, l := i, l
		if l.AcceptErrAt == nil || l.failed || e.sdStarted || now.Before(e.base.Add(*l.AcceptErrAt)) {
			continue
		}
		faultDue = true
		ev = append(ev, simcore.Event{Key: fmt.Sprintf("accept-error:%d", i), Fire: func() { e.acceptError(i, l) }})
	}
	// the history of the registry lies before the Shutdown call
	for k, op := range e.sc.RegOps {
		k, op := k, op
		if op.fired || e.sdStarted || now.Before(e.base.Add(op.At)) {
			continue
		}
		faultDue = true
		ev = append(ev, simcore.Event{Key: fmt.Sprintf("registry:%d", k), Fire: func() { e.regOp(k, op) }})
	}
	if !e.sdStarted && !faultDue && !now.Before(e.base.Add(e.sc.At)) {
		ev = append(ev, simcore.Event{Key: "shutdown", Weight: 2, Fire: e.startShutdown})
	}
	return ev
}

// fill decides the next piece a backend sends to a client that does not read (Brim). Nothing here knows what a
// byte of payload costs on the client's connection (TLS records, chunk framing): the cost of a 1-byte
// piece is measured on the connection itself. Large pieces first (three quarters of the room that is left
// above a margin of 16 small pieces), then 1-byte pieces until one more would not fit.
func (e *c18Env) fill(it *c18Item, p *c18Peer) {
	sent, _, read := p.conn.Peer().Counters() // the direction fabio -> client
	room := e.net.Window - int(sent-read)
	e.mu.Lock()
	if it.fillN >= 2 && it.fillLastK == 1 {
		it.fillCost1 = int(sent - it.fillBase)
	}
	k := 0
	switch {
	case it.fillN < 2:
		k = 1 // the first piece may carry a response head; the second calibrates
	case it.fillCost1 <= 0 || room < it.fillCost1:
		k = 0
	case room <= 16*it.fillCost1:
		k = 1
	default:
		k = (room - 16*it.fillCost1) * 3 / 4
		if k < 1 {
			k = 1
		}
	}
	it.fillN++
	it.fillLastK, it.fillBase = k, sent
	it.fillWaiting = false
	if k == 0 {
		it.fillDone = true
	}
	e.mu.Unlock()
	e.r.Tracef("fill %s piece %d room=%d", it.ID, k, room)
	select {
	case it.fillCh <- k:
	case <-e.stop:
	}
}

// brimLoop is the backend's side of fill: it sends the pieces the driver asks for and returns when the
// window is full (true) or the connection or the run has ended (false).
func (e *c18Env) brimLoop(it *c18Item, send func([]byte) error) bool {
	for {
		e.mu.Lock()
		it.fillWaiting = true
		e.mu.Unlock()
		var k int
		select {
		case k = <-it.fillCh:
		case <-e.stop:
			return false
		}
		if k <= 0 {
			return true
		}
		if err := send(bytes.Repeat([]byte{'#'}, k)); err != nil {
			return false
		}
	}
}

// regOp calls proxy.CloseProxy as a statement-level task (registry histories exist in such runs only).
func (e *c18Env) regOp(k int, op *c18RegOp) {
	addr := op.Addr
	e.mu.Lock()
	op.fired = true
	if op.Target >= 0 {
		l := e.sc.Listeners[op.Target]
		addr = l.regAddr
		l.closedByOp = true
	}
	e.mu.Unlock()
	if op.Target >= 0 {
		e.r.Probe("closeproxy_registered_address")
	} else {
		e.r.Probe("closeproxy_unknown_address")
	}
	e.r.Fault("closeproxy")
	e.r.Tracef("registry %d: CloseProxy(%q) listener=%d", k, addr, op.Target)
	e.d.Sim.Spawn(fmt.Sprintf("closeproxy%d", k), func() {
		CloseProxy(addr)
		e.mu.Lock()
		op.returned = true
		e.mu.Unlock()
	})
}

// acceptError makes the accept loop of listener i fail for good.
func (e *c18Env) acceptError(i int, l *c18Lis) {
	e.mu.Lock()
	l.failed = true
	busy := false
	for _, it := range e.sc.Items {
		if it.Lis == i && it.entered {
			if p := e.peerOf(it); p != nil && !p.complete {
				busy = true
			}
		}
	}
	e.mu.Unlock()
	e.r.Fault("accept-error")
	e.r.Probe("accept_error_" + l.Kind)
	if busy {
		e.r.Probe("accept_error_with_work_in_flight")
	}
	e.r.Tracef("listener %d %s: Accept fails with a permanent error", i, l.Kind)
	close(l.fl.fail)
}

func (e *c18Env) startShutdown() {
	e.mu.Lock()
	e.sdStarted, e.t0 = true, time.Now()
	e.mu.Unlock()
	e.r.Tracef("Shutdown(%s) called", e.sc.Wait)
	e.d.Hint(e.t0.Add(e.sc.Wait))
	run := func() {
		// what main's exit handler calls (main.go: exit.Listen): Shutdown plus "no server is started any more"
		Terminate(e.sc.Wait)
		e.mu.Lock()
		e.sdReturned, e.sdAt = true, time.Now()
		e.mu.Unlock()
	}
	if e.sc.Tasks {
		e.d.Sim.Spawn("shutdown", run)
	} else {
		go run()
	}
}

// startListener opens the listener of l on the simulated network, wraps it as proxy.ListenTCP wraps a
// real one (PROXY protocol below TLS) and hands it to the real proxy.serve.
func (e *c18Env) startListener(i int, l *c18Lis) net.Listener {
	nw, opts := e.net, simnet.ListenOpts{}
	if l.Kind == "grpc" || l.Kind == "grpc-proxy" {
		nw, opts = e.gnet, simnet.ListenOpts{Auto: true}
	}
	sln, err := nw.Listen(l.Addr, opts)
	if err != nil {
		e.r.Trouble("listen %s: %v", l.Addr, err)
		return nil
	}
	var ln net.Listener = sln
	if l.AcceptErrAt != nil {
		l.fl = c18NewFaultyListener(sln)
		ln = l.fl
		e.d.Hint(e.base.Add(*l.AcceptErrAt))
	}
	if l.Pxy {
		ln = &proxyproto.Listener{Listener: ln, ProxyHeaderTimeout: l.PxyTimeout}
	}
	if l.TLS {
		ln = tls.NewListener(ln, l.tlscfg)
	}
	l.regAddr = ln.Addr().String()
	srv := l.srv
	if e.sc.Tasks && (l.Kind == "tcp" || l.Kind == "sni" || l.StartAt != nil) {
		// proxy.serve, the accept loop and the per-connection goroutines of tcp.Server are tasks
		e.d.Sim.Spawn(fmt.Sprintf("srv%d", i), func() { serve(ln, srv) })
	} else {
		go serve(ln, srv)
	}
	return ln
}

// lateStart is the driver event that starts a listener while fabio runs (a ListenAndServe call that begins
// around the shutdown). Once proxy.Shutdown has returned the process is gone (main.go): nothing starts.
func (e *c18Env) lateStart(i int, l *c18Lis) {
	e.mu.Lock()
	l.started = true
	switch {
	case e.sdReturned:
		l.skipped, l.startedPh = true, "process-gone"
	case !e.sdStarted:
		l.startedPh = "before"
	case !e.begun:
		l.startedPh = "gray"
	default:
		l.startedPh = "after"
	}
	ph := l.startedPh
	e.mu.Unlock()
	e.r.Tracef("listener %d %s %s: start (%s)", i, l.Kind, l.Addr, ph)
	if ph == "process-gone" {
		return
	}
	e.r.Probe("listener_started_" + ph + "_shutdown_call")
	e.startListener(i, l)
}

// ---- TLS

var c18CertOnce sync.Once
var c18Cert tls.Certificate

// c18SelfSigned returns a process-wide self-signed certificate (Ed25519: signatures and keys have fixed
// lengths, so TLS record sizes do not vary between executions).
func c18SelfSigned() *tls.Certificate {
	c18CertOnce.Do(func() {
		pub, key, err := ed25519.GenerateKey(rand.Reader)
		if err != nil {
			panic(err)
		}
		tmpl := &x509.Certificate{SerialNumber: big.NewInt(1), Subject: pkix.Name{CommonName: "sim"},
			NotBefore: time.Date(1999, 1, 1, 0, 0, 0, 0, time.UTC), NotAfter: time.Date(2100, 1, 1, 0, 0, 0, 0, time.UTC),
			DNSNames: []string{"fabio.sim", "*.example.com"}, KeyUsage: x509.KeyUsageDigitalSignature, ExtKeyUsage: []x509.ExtKeyUsage{x509.ExtKeyUsageServerAuth}}
		der, err := x509.CreateCertificate(rand.Reader, tmpl, tmpl, pub, key)
		if err != nil {
			panic(err)
		}
		c18Cert = tls.Certificate{Certificate: [][]byte{der}, PrivateKey: key}
	})
	return &c18Cert
}

// c18ServerTLS is the TLS configuration of a TLS-terminating listener, shaped like the one cert.TLSConfig
// returns (certificate through GetCertificate, the same NextProtos).
func c18ServerTLS() *tls.Config {
	return &tls.Config{
		NextProtos:     []string{"h2", "http/1.1"},
		GetCertificate: func(*tls.ClientHelloInfo) (*tls.Certificate, error) { return c18SelfSigned(), nil },
	}
}

// c18ClientTLS: the clients speak HTTP/1.1 only (no ALPN) and offer one key share of fixed length.
func c18ClientTLS(it *c18Item) *tls.Config {
	cfg := &tls.Config{ServerName: "fabio.sim", InsecureSkipVerify: true, MinVersion: tls.VersionTLS12,
		CurvePreferences: []tls.CurveID{tls.X25519}}
	if it.TLSVer == "1.2" {
		cfg.MaxVersion = tls.VersionTLS12
	}
	return cfg
}

// ---- genuine ClientHello

type c18Capture struct{ buf bytes.Buffer }

func (c *c18Capture) Read([]byte) (int, error)         { return 0, io.EOF }
func (c *c18Capture) Write(b []byte) (int, error)      { return c.buf.Write(b) }
func (c *c18Capture) Close() error                     { return nil }
func (c *c18Capture) LocalAddr() net.Addr              { return &net.TCPAddr{} }
func (c *c18Capture) RemoteAddr() net.Addr             { return &net.TCPAddr{} }
func (c *c18Capture) SetDeadline(time.Time) error      { return nil }
func (c *c18Capture) SetReadDeadline(time.Time) error  { return nil }
func (c *c18Capture) SetWriteDeadline(time.Time) error { return nil }

func c18ClientHello(name string) []byte {
	c := &c18Capture{}
	tls.Client(c, &tls.Config{ServerName: name, InsecureSkipVerify: true}).Handshake()
	b := c.buf.Bytes()
	if len(b) < 5 {
		return nil
	}
	n := 5 + (int(b[3])<<8 | int(b[4]))
	if n > len(b) {
		return nil
	}
	return append([]byte(nil), b[:n]...)
}

// ---------------------------------------------------------------- the run

func runC18(r *simcore.Run) {
	log.SetOutput(io.Discard)
	sc := c18Gen(r.Gen, r.Thorough())
	r.SetSample(sc)

	// global state of package proxy must not leak from one run into the next
	// (a lock that an earlier run of this process has left behind for good is released here as well, and a
	// Shutdown of nothing ends whatever state an earlier Shutdown that never returned has left behind)
	mu.TryLock()
	servers = make(map[string]Server)
	terminating = false
	mu.Unlock()
	Shutdown(0)

	e := &c18Env{r: r, sc: sc, stop: make(chan struct{}), byID: map[string]*c18Item{}, byMarker: map[string]*c18Item{}, base: time.Now()}
	e.ctx, e.cancel = context.WithCancel(context.Background())
	e.d = simcore.NewDriver(r)
	e.d.Stick = sc.Stick
	e.net = simnet.New(r)
	e.gnet = simnet.New(r)
	e.gnet.R = nil // grpc-go's own goroutines dial and write here: kept out of the trace and of the schedule
	e.d.Sim.Dial = e.net.DialFunc()
	e.d.AddSource(e.net.Events)
	e.d.AddSource(e.events)
	defer e.finish()

	// payloads
	g := r.Gen
	for _, it := range sc.Items {
		e.byID[it.ID] = it
		it.fillCh = make(chan int)
		for k := 0; k < it.Rounds; k++ {
			it.reqs = append(it.reqs, g.Bytes(it.ReqLen))
			it.replies = append(it.replies, g.Bytes(it.RespLen))
		}
		switch it.Kind {
		case "tcp":
			it.marker = []byte(fmt.Sprintf("<%-6s>", it.ID))
			e.byMarker[string(it.marker)] = it
		case "sni":
			it.hello = c18ClientHello(it.Name)
			if it.hello == nil {
				r.Trouble("no ClientHello for %s", it.Name)
				return
			}
		case "raw":
			var full []byte
			boundary := 0
			l := sc.Listeners[it.Lis]
			switch {
			case it.Layer == "pxy":
				full = c18PxyHeader(it, l)
				boundary = len("PROXY ")
			case it.Layer == "tls":
				if it.Pre != "silent" {
					if full = c18ClientHello(it.Name); full == nil {
						r.Trouble("no ClientHello for %s", it.Name)
						return
					}
				}
				boundary = 5 // the TLS record header
			case l.Kind == "http":
				full = []byte(fmt.Sprintf("GET /%s HTTP/1.1\r\nHost: fabio.sim\r\nX-Sim-Id: %s\r\n\r\n", it.ID, it.ID))
				boundary = bytes.Index(full, []byte("\r\n")) + 2 // the request line
			case l.Kind == "tcp":
				full = []byte(fmt.Sprintf("<%-6s>", it.ID)) // the upstream waits for 8 bytes
				boundary = 4
			case l.Kind == "sni":
				if it.Pre == "partial" {
					if full = c18ClientHello(it.Name); full == nil {
						r.Trouble("no ClientHello for %s", it.Name)
						return
					}
				}
				boundary = 5 // the TLS record header
			default:
				full = []byte(c18HTTP2Preface)
				boundary = len("PRI * HTTP/2.0\r\n\r\n")
			}
			switch it.Pre {
			case "partial":
				it.pre = c18Partial(full, boundary, it.Cut)
			case "preface", "hello":
				it.pre = full
			case "idle":
				it.pre = append(full, c18HTTP2Settings...)
			}
		case "grpc-unary", "grpc-stream", "grpc-sstream":
			// printable payloads: they travel as protobuf strings
			for k := range it.reqs {
				it.reqs[k] = []byte(fmt.Sprintf("%x", it.reqs[k]))
				it.replies[k] = []byte(fmt.Sprintf("%x", it.replies[k]))
			}
		}
	}

	// routes of the tunnels
	var table strings.Builder
	tcpPorts := map[int]bool{} // looked up only, never ranged over
	for _, l := range sc.Listeners {
		if l.Kind == "tcp" && !tcpPorts[l.port] {
			tcpPorts[l.port] = true
			fmt.Fprintf(&table, "route add svc-p%d :%d tcp://%s\n", l.port, l.port, l.Up)
		}
	}
	for _, it := range sc.Items {
		if it.Kind == "sni" {
			fmt.Fprintf(&table, "route add svc-%s %s/ tcp://%s\n", it.ID, it.Name, it.Up)
		}
	}
	tbl, err := route.NewTable(bytes.NewBufferString(table.String()))
	if err != nil {
		r.Trouble("scenario table does not parse: %v\n%s", err, table.String())
		return
	}
	lookup := func(host string) *route.Target { return tbl.LookupHost(host, route.Picker["rnd"]) }

	if !e.grpcProxySetup() {
		return
	}

	if sc.Tasks {
		// closeConns ranges over a map keyed by net.Conn (native, random order): it stays one step, so
		// that the order in which it closes the connections cannot reach the schedule
		e.d.Sim.Activate("proxy:Shutdown", "proxy:Terminate", "proxy:serve", "proxy:CloseProxy", "proxy/tcp:*Server.", "-proxy/tcp:*Server.closeConns")
	}

	// servers, started through the real proxy.serve, one after the other (listener i is registered and
	// accepting before listener i+1 starts: the order of registration is the order of the scenario); a
	// listener with a start instant is built here and started by a driver event at that instant
	upstreams := map[string]bool{} // looked up only
	for i, l := range sc.Listeners {
		var inner Server
		if l.TLS {
			l.tlscfg = c18ServerTLS()
		}
		switch l.Kind {
		case "http":
			inner = &http.Server{Handler: e.httpHandler(), TLSConfig: l.tlscfg}
		case "tcp":
			inner = &tcp.Server{Handler: &tcp.Proxy{DialTimeout: c18DialTimeout, Lookup: lookup}}
			if !upstreams[l.Up] {
				upstreams[l.Up] = true
				e.upstream(l.Up, nil)
				if l.UpDown {
					e.net.Blackhole(l.Up, true)
				}
			}
		case "sni":
			inner = &tcp.Server{Handler: &tcp.SNIProxy{DialTimeout: c18DialTimeout, Lookup: lookup}}
		case "grpc":
			inner = &gRPCServer{server: grpc.NewServer(grpc.UnknownServiceHandler(e.grpcHandler))}
		case "grpc-proxy":
			gopts := e.grpcProxyOptions(i)
			if gopts == nil {
				return
			}
			inner = &gRPCServer{server: grpc.NewServer(gopts...)}
		}
		l.srv = &c18Server{e: e, kind: l.Kind, inner: inner}
		if l.StartAt != nil {
			l.srv.door = make(chan struct{})
			e.d.Hint(e.base.Add(*l.StartAt))
			r.Tracef("listener %d %s %s tls=%v pxy=%v will be started at %s", i, l.Kind, l.Addr, l.TLS, l.Pxy, *l.StartAt)
			continue
		}
		ln := e.startListener(i, l)
		if ln == nil {
			return
		}
		// every server is serving before the next one starts and before the clock starts (start-up
		// races of the initial listeners are not the subject)
		e.drainTasks()
		e.mu.Lock()
		serving := l.srv.serving
		e.mu.Unlock()
		if !serving {
			r.Trouble("listener %d (%s %s) was started but its server is not serving", i, l.Kind, l.Addr)
			return
		}
		// what fabio sees of the listener
		r.Tracef("listener %d %s %s tls=%v pxy=%v addr=%s", i, l.Kind, l.Addr, l.TLS, l.Pxy, ln.Addr())
	}
	for _, it := range sc.Items {
		if it.Kind == "sni" {
			e.upstream(it.Up, it)
			if it.UpDown {
				e.net.Blackhole(it.Up, true)
			}
		}
		if it.UpDown {
			e.d.Hint(e.base.Add(it.Start + c18DialTimeout)) // fabio gives up
		}
	}
	e.drainTasks()
	e.probeAddresses()

	// clients
	for _, it := range sc.Items {
		l := sc.Listeners[it.Lis]
		at := func(d time.Duration) time.Time { return e.base.Add(d) }
		// what a client does before it speaks the protocol of the listener: PROXY header, TLS handshake
		upto := "proto"
		if it.Kind == "raw" {
			upto = it.Layer
		}
		acts := []c18Act{{Kind: "dial", At: at(it.Start)}}
		for _, layer := range l.layers() {
			if layer == upto {
				break
			}
			switch layer {
			case "pxy":
				if !it.NoPxy {
					acts = append(acts, c18Act{Kind: "write", Data: c18PxyHeader(it, l)})
				}
			case "tls":
				acts = append(acts, c18Act{Kind: "handshake"})
			}
		}
		if l.Pxy {
			e.d.Hint(at(it.Start + l.PxyTimeout))
		}
		switch it.Kind {
		case "http":
			var b bytes.Buffer
			if it.ReqLen > 0 {
				fmt.Fprintf(&b, "POST /%s HTTP/1.1\r\nHost: fabio.sim\r\nX-Sim-Id: %s\r\nContent-Length: %d\r\n\r\n", it.ID, it.ID, it.ReqLen)
				b.Write(it.reqs[0])
			} else {
				fmt.Fprintf(&b, "GET /%s HTTP/1.1\r\nHost: fabio.sim\r\nX-Sim-Id: %s\r\n\r\n", it.ID, it.ID)
			}
			acts = append(acts, c18Act{Kind: "write", Data: b.Bytes()})
			if it.Leave != "" {
				acts = append(acts, c18Act{Kind: "leave-" + it.Leave, At: at(it.LeaveAt)})
			} else if !it.Stall && !it.Brim {
				acts = append(acts, c18Act{Kind: "awaithttp"})
				if !it.Hold {
					acts = append(acts, c18Act{Kind: "close"})
				}
			}
			e.addPeer(it, l.dialKey(), acts, 0)
		case "tcp", "sni":
			greet := it.marker
			if it.Kind == "sni" {
				greet = it.hello
			}
			acts = append(acts, c18Act{Kind: "write", Data: greet})
			want := 0
			for k := 0; k < it.Rounds; k++ {
				w := c18Act{Kind: "write", Data: it.reqs[k]}
				if k == 0 {
					w.At = at(it.Start + it.Idle)
				}
				want += len(it.replies[k])
				acts = append(acts, w)
				if !it.Stall && !it.Brim {
					acts = append(acts, c18Act{Kind: "await", N: want})
				}
			}
			if !it.Forever {
				acts = append(acts, c18Act{Kind: "close"})
			} else if it.Leave != "" {
				acts = append(acts, c18Act{Kind: "leave-" + it.Leave, At: at(it.LeaveAt)})
			}
			e.addPeer(it, l.dialKey(), acts, want)
		case "raw":
			if len(it.pre) > 0 {
				acts = append(acts, c18Act{Kind: "write", Data: it.pre})
			}
			if it.Leave != "" {
				acts = append(acts, c18Act{Kind: "leave-" + it.Leave, At: at(it.LeaveAt)})
			}
			e.addPeer(it, l.dialKey(), acts, 0)
		default:
			// gRPC: the PROXY header is written by the dialer of the call's ClientConn
			acts = []c18Act{{Kind: "call", At: at(it.Start)}}
			if it.Leave != "" {
				acts = append(acts, c18Act{Kind: "leave-" + it.Leave, At: at(it.LeaveAt)})
			}
			e.addPeer(it, l.dialKey(), acts, 0)
		}
	}
	for _, op := range sc.RegOps {
		e.d.Hint(e.base.Add(op.At))
	}
	e.d.Hint(e.base.Add(sc.At))
	endAt := e.base.Add(sc.End)
	e.d.Hint(endAt)

	// main loop: fire what is enabled; move the clock only when nothing is
	finished := false
	for i := 0; i < 400000; i++ {
		synctest.Wait()
		e.mu.Lock()
		if e.sdStarted && !e.begun && (!sc.Tasks || time.Now().After(e.t0)) {
			// the first quiescent point after the call (statement level: after every statement of the
			// call that can run at t0 has run)
			e.begun = true
		}
		e.mu.Unlock()
		e.state()
		if e.d.Step() {
			continue
		}
		if !time.Now().Before(endAt) {
			finished = true
			break
		}
		e.d.IdleAdvance(1000 * time.Hour)
	}
	if !finished {
		r.Trouble("step budget exhausted at %s of %s: %v", time.Since(e.base), sc.End, e.d.Sim.TaskStates())
		return
	}
	e.judge()
}

// sharesPort says whether another listener of the scenario has the same port.
func (sc *c18Scenario) sharesPort(l *c18Lis) bool {
	for _, o := range sc.Listeners {
		if o != l && o.port == l.port {
			return true
		}
	}
	return false
}

// probeAddresses counts which shapes of listener addresses the run contains.
func (e *c18Env) probeAddresses() {
	for _, l := range e.sc.Listeners {
		switch {
		case l.host == "":
			e.r.Probe("listener_wildcard")
		case strings.Contains(l.host, ":"):
			e.r.Probe("listener_ipv6_literal")
		case net.ParseIP(l.host) != nil:
			e.r.Probe("listener_ipv4_literal")
		default:
			e.r.Probe("listener_by_name")
		}
		for _, o := range e.sc.Listeners {
			if o == l || o.port != l.port {
				continue
			}
			e.r.Probe("listeners_share_port")
			if o.Kind != l.Kind {
				e.r.Probe("listeners_share_port_different_kind")
			}
			if strings.Contains(o.host, ":") != strings.Contains(l.host, ":") {
				e.r.Probe("listeners_share_port_across_families")
			}
		}
	}
}

// state records the abstract state at a quiescent point: phase of the shutdown and, per kind, how many
// client connections are open.
func (e *c18Env) state() {
	e.mu.Lock()
	defer e.mu.Unlock()
	phase := "running"
	switch {
	case e.sdStarted && !time.Now().Before(e.t0.Add(e.sc.Wait)):
		phase = "after-deadline"
	case e.begun:
		phase = "shutting-down"
	case e.sdStarted:
		phase = "called"
	}
	open := map[string]int{}
	for _, p := range e.peers {
		if p.conn != nil && !p.readDone && !p.conn.IsClosed() {
			open[p.it.Kind]++
		}
	}
	e.r.State(fmt.Sprintf("%s http=%d tcp=%d sni=%d", phase, open["http"], open["tcp"], open["sni"]))
}

func (e *c18Env) peerOf(it *c18Item) *c18Peer {
	for _, p := range e.peers {
		if p.it == it {
			return p
		}
	}
	return nil
}

// outcome says whether the item completed normally, and if not, how it failed.
func (e *c18Env) outcome(it *c18Item, p *c18Peer) (ok bool, how string) {
	switch it.Kind {
	case "raw":
		return false, "not-judged"
	case "http":
		st, body, complete := c18ParseHTTP(p.recv)
		switch {
		case len(p.recv) == 0:
			return false, "no-response"
		case !complete:
			return false, "truncated-response"
		case st != 200 || !bytes.Equal(body, it.replies[0]):
			return false, "wrong-response"
		}
		return true, ""
	case "tcp", "sni":
		wantUp := append([]byte(nil), it.marker...)
		wantUp = append(wantUp, it.hello...)
		var wantCl []byte
		for k := range it.reqs {
			wantUp = append(wantUp, it.reqs[k]...)
			wantCl = append(wantCl, it.replies[k]...)
		}
		switch {
		case !bytes.HasPrefix(wantUp, it.upRecv) || !bytes.HasPrefix(wantCl, p.recv):
			return false, "bytes-differ"
		case len(it.upRecv) < len(wantUp):
			return false, "upstream-bytes-missing"
		case len(p.recv) < len(wantCl):
			return false, "client-bytes-missing"
		}
		return true, ""
	default:
		switch {
		case !it.callDone:
			return false, "call-never-returned"
		case it.code != "OK":
			return false, "status-" + it.code
		case it.reply != string(it.replies[0]):
			return false, "wrong-reply"
		}
		return true, ""
	}
}

func (e *c18Env) judge() {
	r, sc := e.r, e.sc
	e.mu.Lock()
	defer e.mu.Unlock()
	if !e.sdStarted {
		r.Trouble("Shutdown was never started")
		return
	}
	deadline := e.t0.Add(sc.Wait)
	r.Tracef("t0=%s wait=%s listeners=%d items=%d", e.t0.Sub(e.base), sc.Wait, len(sc.Listeners), len(sc.Items))

	// (3) Shutdown has returned by t0 + wait
	var blocked []string
	for _, l := range sc.Listeners {
		s := l.srv
		if !s.sdEntered {
			r.Probe("server_not_shut_down")
		}
		if l.failed && s.served && s.serveErr != nil && strings.Contains(s.serveErr.Error(), c18AcceptErr.Error()) {
			r.Probe("serve_returned_the_accept_error")
		}
		if s.sdEntered && (!s.sdReturned || s.sdAt.After(deadline)) {
			blocked = append(blocked, l.name())
		}
	}
	sort.Strings(blocked)
	blocked = c18Uniq(blocked)
	inTime := e.sdReturned && !e.sdAt.After(deadline)
	r.Tracef("shutdown returned in time: %v (servers still shutting down at the deadline: %v)", inTime, blocked)
	if !inTime {
		which := strings.Join(blocked, "+")
		if which == "" {
			which = "none"
		}
		late := "has not returned " + time.Since(deadline).String() + " after the deadline"
		if e.sdReturned {
			late = "returned " + e.sdAt.Sub(deadline).String() + " after the deadline"
		}
		var open []string
		for _, it := range sc.Items {
			if it.entered && it.before && (it.Forever || e.base.Add(it.finish()).After(deadline)) {
				open = append(open, it.ID+"("+it.label()+")")
			}
			if p := e.peerOf(it); it.UpDown && p.openAtCall() {
				open = append(open, it.ID+"("+it.label()+" tunnel whose upstream is unreachable)")
			}
			if p := e.peerOf(it); it.Kind == "raw" && p.openAtCall() && (it.Leave == "" || !e.base.Add(it.LeaveAt).Before(deadline)) {
				open = append(open, it.ID+"("+it.label()+" connection to the "+sc.Listeners[it.Lis].name()+" listener)")
			}
		}
		var hist []string
		for _, op := range sc.RegOps {
			if op.fired {
				h := fmt.Sprintf("CloseProxy at %s for an address without a server", op.At)
				if op.Target >= 0 {
					h = fmt.Sprintf("CloseProxy at %s for listener %d", op.At, op.Target)
				}
				if !op.returned {
					h += " (has not returned)"
				}
				hist = append(hist, h)
			}
		}
		entered := 0
		for _, l := range sc.Listeners {
			if l.srv.sdEntered {
				entered++
			}
		}
		if entered == 0 && len(hist) > 0 {
			which = "none-reached after-closeproxy"
		}
		r.Fail("shutdown-return", "not-returned-by-deadline servers="+which,
			"Shutdown(%s) called at %s %s; servers whose Shutdown was still running at the deadline: %v; work still open at the deadline: %v; registry history before the call: %v",
			sc.Wait, e.t0.Sub(e.base), late, blocked, open, hist)
	}

	for _, it := range sc.Items {
		p := e.peerOf(it)
		if it.Kind == "raw" {
			e.judgeRaw(it, p, deadline)
			continue
		}
		f := e.base.Add(it.finish())
		ok, how := e.outcome(it, p)
		served := it.entered || len(p.recv) > 0 || it.code == "OK" || p.hsDone
		if it.Leave != "" && it.Kind != "http" && it.Kind != "tcp" && it.Kind != "sni" {
			how = "client-left" // which status the call ends with is grpc-go's business
		}
		r.Tracef("item %s %s attempt=%s entered=%v before=%v finish=%s forever=%v ok=%v %s dialerr=%v", it.ID, it.label(), p.phase, it.entered, it.before,
			it.finish(), it.Forever, ok, how, p.dialErr != nil)

		// (1) nothing that connects after shutdown has begun is served
		if l := sc.Listeners[it.Lis]; p.phase == "after" && l.StartAt != nil && (p.gone || l.srv.servedGone) {
			// fabio exits when Shutdown returns: what a listener that was being started then does afterwards
			// is not fabio's behaviour any more
			r.Probe("attempt_after_shutdown_returned_to_listener_started_late")
			continue
		}
		if p.phase == "after" {
			r.Probe("attempt_after_begun")
			if sc.Listeners[it.Lis].StartAt != nil {
				r.Probe("attempt_after_begun_listener_started_" + sc.Listeners[it.Lis].startedPh + "_shutdown_call")
			}
			if sc.sharesPort(sc.Listeners[it.Lis]) {
				r.Probe("attempt_after_begun_listener_shares_port")
			}
			if served {
				r.Fail("accepts-after-shutdown", l18Kind(sc, it),
					"%s item %s connected to %s at %s, after Shutdown had begun (called at %s), and was served (backend reached: %v, bytes received by the client: %d)",
					it.Kind, it.ID, sc.Listeners[it.Lis].Addr, it.Start, e.t0.Sub(e.base), it.entered, len(p.recv))
			} else if p.dialErr != nil || it.callDone {
				r.Probe("attempt_after_begun_refused")
			}
			continue
		}
		if p.phase == "gray" {
			r.Probe("attempt_between_call_and_begun")
		}
		if sc.Listeners[it.Lis].closedByOp {
			// CloseProxy closes the listener and its connections at once: what becomes of the work of that
			// listener is not the subject of this property
			r.Probe("item_on_listener_closed_by_closeproxy")
			continue
		}
		if it.UpDown {
			// the tunnel never gets beyond the dial of its handler: open work for clause (3) only
			if p.openAtCall() && e.base.Add(it.Start+c18DialTimeout).After(deadline) {
				r.Nontrivial()
				r.Fault("upstream-unreachable")
				r.Probe("open_tunnel_in_upstream_dial_" + it.label())
			}
			if it.entered {
				r.Trouble("item %s reached an upstream that is unreachable", it.ID)
			}
			continue
		}
		if !it.entered || !it.before {
			if p.phase == "before" {
				r.Probe("attempt_before_call_backend_after")
			}
			continue
		}

		// (2) the backend had the item in hand before the call
		switch {
		case it.Forever:
			r.Nontrivial()
			r.Probe("open_forever_" + it.label())
			if it.Prelude {
				r.Probe("open_forever_after_a_first_message_" + it.label())
			}
			if it.Stall {
				r.Probe("open_forever_blocked_in_write_" + it.label())
			}
			if it.Brim && it.fillDone {
				r.Probe("open_forever_client_window_full_" + it.label())
			} else if it.Brim {
				r.Probe("open_forever_client_window_not_filled_" + it.label())
			}
			if p.leftPhase != "" && p.leftPhase != "before" && e.base.Add(it.LeaveAt).Before(deadline) {
				r.Probe("open_forever_client_left_during_drain_" + it.Leave + "_" + it.label())
			}
		case !f.Before(deadline):
			r.Nontrivial()
			r.Probe("finishes_after_deadline_" + it.label())
			if ok {
				r.Probe("finishes_after_deadline_and_completed")
			}
		case f.Before(e.t0):
			r.Probe("finished_before_shutdown")
			if !ok {
				r.Trouble("item %s (%s) should have finished at %s, before Shutdown was called at %s, but did not complete: %s", it.ID, it.label(), it.finish(), e.t0.Sub(e.base), how)
			}
			if it.Hold && p.readDone {
				r.Probe("idle_keepalive_closed_by_shutdown")
			}
		default:
			r.Nontrivial()
			r.Probe("in_flight_finishing_within_wait_" + it.label())
			if sc.Listeners[it.Lis].failed {
				r.Probe("in_flight_finishing_within_wait_on_listener_whose_accept_failed")
			}
			switch {
			case !ok:
				r.Fail("inflight", it.label()+"/"+how,
					"%s item %s was in the backend's hands at %s, before Shutdown(%s) was called at %s, and its script finishes at %s, before the deadline %s, but it did not complete normally: %s (client received %d bytes, read error %v, status %q)",
					it.label(), it.ID, it.enteredAt.Sub(e.base), sc.Wait, e.t0.Sub(e.base), it.finish(), deadline.Sub(e.base), how, len(p.recv), p.readErr, it.code)
			case e.sdReturned && e.sdAt.Before(f):
				// the process exits when Shutdown returns: the item was still running then
				lis := "listener"
				if sc.Listeners[it.Lis].failed {
					lis = "listener-whose-accept-failed"
				}
				r.Fail("inflight", it.label()+"/still-running-when-shutdown-returned "+lis,
					"%s item %s was in the backend's hands at %s, before Shutdown(%s) was called at %s, and its script finishes at %s, before the deadline %s, but Shutdown returned already at %s, while the item was still running: fabio exits when Shutdown returns (main.go), which cuts the item off (accept error injected on its listener: %v; Shutdown of the listener's server was entered: %v)",
					it.label(), it.ID, it.enteredAt.Sub(e.base), sc.Wait, e.t0.Sub(e.base), it.finish(), deadline.Sub(e.base), e.sdAt.Sub(e.base), sc.Listeners[it.Lis].failed, sc.Listeners[it.Lis].srv.sdEntered)
			}
		}
		if ok && !it.Forever && p.complete && !p.completeAt.Equal(f) {
			r.Trouble("timing model: item %s (%s) completed at %s, its script says %s", it.ID, it.label(), p.completeAt.Sub(e.base), it.finish())
		}
	}
	if e.stray > 0 {
		r.Probe("unidentified_upstream_connections")
	}
}

func l18Kind(sc *c18Scenario, it *c18Item) string {
	l := sc.Listeners[it.Lis]
	if l.StartAt != nil {
		return l.Kind + " listener-started-around-the-shutdown"
	}
	return l.name()
}

// openAtCall says whether the client's connection was established before the Shutdown call and the client
// had not gone away by then.
func (p *c18Peer) openAtCall() bool {
	return p.conn != nil && p.phase == "before" && p.leftPhase != "before"
}

// judgeRaw: a connection that has not spoken the protocol is open work for clause (3), a connection
// attempt for clause (1), and never an item of clause (2) (no backend ever has it in hand).
func (e *c18Env) judgeRaw(it *c18Item, p *c18Peer, deadline time.Time) {
	r, sc := e.r, e.sc
	l := sc.Listeners[it.Lis]
	r.Tracef("item %s %s cut=%s listener=%s attempt=%s connected=%v leave=%s at=%s left=%s", it.ID, it.label(), it.Cut, l.name(), p.phase,
		p.conn != nil, it.Leave, it.LeaveAt, p.leftPhase)
	if p.phase == "after" && l.StartAt != nil && (p.gone || l.srv.servedGone) {
		r.Probe("attempt_after_shutdown_returned_to_listener_started_late")
		return
	}
	if p.phase == "after" {
		r.Probe("attempt_after_begun")
		r.Probe("raw_attempt_after_begun")
		if l.StartAt != nil {
			r.Probe("attempt_after_begun_listener_started_" + l.startedPh + "_shutdown_call")
		}
		if len(p.recv) > 0 || p.hsDone {
			// the listener greeted the connection (a gRPC server sends its SETTINGS frame at once, a
			// TLS-terminating listener answers the ClientHello)
			r.Fail("accepts-after-shutdown", l18Kind(sc, it),
				"raw connection %s (%s) to %s at %s, after Shutdown had begun (called at %s), was accepted and received %d bytes from the listener (TLS handshake completed: %v)",
				it.ID, it.label(), l.Addr, it.Start, e.t0.Sub(e.base), len(p.recv), p.hsDone)
		} else if p.dialErr != nil {
			r.Probe("attempt_after_begun_refused")
		}
		return
	}
	if p.phase == "gray" {
		r.Probe("attempt_between_call_and_begun")
	}
	if l.closedByOp {
		r.Probe("item_on_listener_closed_by_closeproxy")
		return
	}
	if !p.openAtCall() {
		if p.leftPhase == "before" {
			r.Probe("raw_came_and_went_before_shutdown_" + l.name())
		}
		return
	}
	r.Nontrivial()
	r.Probe("open_" + it.label() + "_" + l.name())
	switch {
	case it.Leave == "" || !e.base.Add(it.LeaveAt).Before(deadline):
		r.Probe("open_raw_until_the_deadline_" + l.name())
	case p.leftPhase != "":
		r.Probe("open_raw_client_left_during_drain_" + it.Leave + "_" + l.name())
	}
}

// ---------------------------------------------------------------- fabio's transparent gRPC proxy

// grpcProxySetup prepares what the grpc-proxy listeners of the run share: the route to the backend in
// fabio's global routing table, the backend itself (the scripted handler behind a stock grpc server on the
// second simulated network) and the dial seam of fabio's connection pool.
func (e *c18Env) grpcProxySetup() bool {
	need := false
	for _, l := range e.sc.Listeners {
		need = need || l.Kind == "grpc-proxy"
	}
	if !need {
		return true
	}
	tbl, err := route.NewTable(bytes.NewBufferString("route add c18grpc /c18.Sim grpc://" + c18GrpcBackend + " opts \"proto=grpc\"\n"))
	if err != nil {
		e.r.Trouble("grpc table does not parse: %v", err)
		return false
	}
	route.SetTable(tbl)
	// the sweepers of the connection pools are endless loops: after the end of the run each leaves at the first
	// statement past this budget (no task of this harness executes that many statements during teardown: an
	// accept loop ends at its next Accept, a tunnel at its next read or write)
	e.d.Sim.StopBudget = 400
	ZZGrpcDialOptions = func() []grpc.DialOption {
		return []grpc.DialOption{grpc.WithContextDialer(func(ctx context.Context, addr string) (net.Conn, error) {
			return e.gnet.Dial(ctx, nil, addr, 0)
		})}
	}
	ZZGrpcOnDial = func(target string, cc *grpc.ClientConn, err error) {
		if err == nil {
			e.mu.Lock()
			e.poolCCs = append(e.poolCCs, cc)
			e.mu.Unlock()
		}
	}
	bl, err := e.gnet.Listen(c18GrpcBackend, simnet.ListenOpts{Auto: true})
	if err != nil {
		e.r.Trouble("listen %s: %v", c18GrpcBackend, err)
		return false
	}
	e.backend = grpc.NewServer(grpc.UnknownServiceHandler(e.grpcHandler), grpc.MaxRecvMsgSize(8<<20))
	go e.backend.Serve(bl)
	return true
}

// grpcProxyOptions returns the server options of main.newGrpcProxy for listener i. They are built inside a
// task so that the sweeper of the listener's connection pool (go cp.cleanup(), an endless loop) is a child
// task that the teardown can end; none of its statements is a scheduling point.
func (e *c18Env) grpcProxyOptions(i int) []grpc.ServerOption {
	cfg := &config.Config{}
	cfg.Proxy.Strategy = "rnd" // one target: nothing to pick
	cfg.Proxy.Matcher = "prefix"
	cfg.GlobCacheSize = 100
	cfg.Proxy.GRPCMaxRxMsgSize = 4 << 20
	cfg.Proxy.GRPCMaxTxMsgSize = 4 << 20
	cfg.Proxy.GRPCGShutdownTimeout = 2 * time.Second
	stats := &GrpcStatsHandler{Connect: discard.NewCounter(), Request: discard.NewHistogram(),
		NoRoute: discard.NewCounter(), Status: discard.NewHistogram()}
	var opts []grpc.ServerOption
	t := e.d.Sim.Spawn(fmt.Sprintf("grpcproxy%d", i), func() {
		ic := GrpcProxyInterceptor{Config: cfg, StatsHandler: stats, GlobCache: route.NewGlobCache(cfg.GlobCacheSize)}
		opts = []grpc.ServerOption{
			grpc.CustomCodec(grpc_proxy.Codec()),
			grpc.UnknownServiceHandler(grpc_proxy.TransparentHandler(GetGRPCDirector(nil, cfg))),
			grpc.StreamInterceptor(ic.Stream),
			grpc.StatsHandler(stats),
			grpc.MaxRecvMsgSize(cfg.Proxy.GRPCMaxRxMsgSize),
			grpc.MaxSendMsgSize(cfg.Proxy.GRPCMaxTxMsgSize),
		}
	})
	e.drainTasks()
	if !t.Done() || opts == nil {
		e.r.Trouble("the gRPC proxy options of listener %d were not built: %v", i, e.d.Sim.TaskStates())
		return nil
	}
	return opts
}

func c18Uniq(s []string) []string {
	var out []string
	for i, x := range s {
		if i == 0 || x != s[i-1] {
			out = append(out, x)
		}
	}
	return out
}

// drainTasks releases parked tasks until none is enabled (set-up and teardown only).
func (e *c18Env) drainTasks() {
	for i := 0; i < 200000; i++ {
		synctest.Wait()
		en := e.d.Sim.Enabled()
		if len(en) == 0 {
			return
		}
		e.d.Sim.Release(en[0])
	}
}

func (e *c18Env) finish() {
	close(e.stop)
	e.cancel()
	e.net.Shutdown()
	e.gnet.Shutdown()
	// every connection is reset now: let parked fabio tasks run on (none may hold a lock below)
	e.drainTasks()
	e.mu.Lock()
	ccs := e.ccs
	pool := e.poolCCs
	e.mu.Unlock()
	for _, cc := range ccs {
		cc.Close()
	}
	for _, l := range e.sc.Listeners {
		if l.srv != nil {
			l.srv.inner.Close()
		}
	}
	for _, cc := range pool {
		cc.Close()
	}
	if e.backend != nil {
		e.backend.Stop()
	}
	e.drainTasks()
	e.d.Finish()
	// a Shutdown that is still running ends now that nothing is left (its servers wait for their deadline
	// on the simulated clock): no goroutine of this run may live on into the next one
	for i := 0; i < 64; i++ {
		synctest.Wait()
		e.mu.Lock()
		over := !e.sdStarted || e.sdReturned
		e.mu.Unlock()
		if over {
			break
		}
		time.Sleep(e.sc.Wait/4 + time.Second)
	}
	// process-wide state of fabio and of the dial seam must not leak into the next run
	ZZGrpcDialOptions, ZZGrpcOnDial = nil, nil
	if e.backend != nil {
		route.SetTable(make(route.Table))
	}
}

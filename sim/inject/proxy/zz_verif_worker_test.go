//go:build verif

package proxy

import (
	"testing"

	"github.com/fabiolb/fabio/internal/zzverif/simcore"
)

var zzHarnesses []*simcore.Harness

func TestZZVerifWorker(t *testing.T) { simcore.WorkerMain(t, zzHarnesses) }

//go:build verif

package proxy

import (
	"context"

	"google.golang.org/grpc"
)

// ZZGrpcDialOptions, when set by a harness, supplies extra dial options
// (a simulated-network dialer) for the connections the gRPC pool opens.
var ZZGrpcDialOptions func() []grpc.DialOption

func zzGrpcDialContext(ctx context.Context, target string, opts ...grpc.DialOption) (*grpc.ClientConn, error) {
	if f := ZZGrpcDialOptions; f != nil {
		opts = append(append([]grpc.DialOption(nil), opts...), f()...)
	}
	return grpc.DialContext(ctx, target, opts...)
}

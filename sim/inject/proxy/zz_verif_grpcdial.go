//go:build verif

package proxy

import (
	"context"

	"google.golang.org/grpc"
)

// ZZGrpcDialOptions, when set by a harness, supplies extra dial options
// (a simulated-network dialer) for the connections the gRPC pool opens.
var ZZGrpcDialOptions func() []grpc.DialOption

// ZZGrpcOnDial, when set by a harness, is told about every client connection
// the gRPC pool opens (so that teardown can close what fabio still holds).
var ZZGrpcOnDial func(target string, cc *grpc.ClientConn, err error)

func zzGrpcDialContext(ctx context.Context, target string, opts ...grpc.DialOption) (*grpc.ClientConn, error) {
	if f := ZZGrpcDialOptions; f != nil {
		opts = append(append([]grpc.DialOption(nil), opts...), f()...)
	}
	cc, err := grpc.DialContext(ctx, target, opts...)
	if f := ZZGrpcOnDial; f != nil {
		f(target, cc, err)
	}
	return cc, err
}

// zzGrpcNewClient stands for grpc.NewClient (the lazy successor of grpc.DialContext) in package proxy.
func zzGrpcNewClient(target string, opts ...grpc.DialOption) (*grpc.ClientConn, error) {
	if f := ZZGrpcDialOptions; f != nil {
		opts = append(append([]grpc.DialOption(nil), opts...), f()...)
	}
	cc, err := grpc.NewClient(target, opts...)
	if f := ZZGrpcOnDial; f != nil {
		f(target, cc, err)
	}
	return cc, err
}

// zzGrpcDial stands for grpc.Dial in package proxy.
func zzGrpcDial(target string, opts ...grpc.DialOption) (*grpc.ClientConn, error) {
	return zzGrpcDialContext(context.Background(), target, opts...)
}

//go:build verif

package main

// C06 — concurrent requests do not influence each other's routing.
//
// Statement-level simulation: 2..6 request tasks run the real
// HTTPProxy.ServeHTTP of main.newHTTPProxy (real Lookup closure, real glob
// cache, real rr picker, real redirect/access code) against one shared table,
// optionally while a writer task replaces the table. The driver interleaves
// the tasks at every statement of fabio code.

import (
	"bytes"
	"fmt"
	"io"
	"net/http"
	"net/http/httptest"
	"sort"
	"strings"

	"github.com/fabiolb/fabio/config"
	"github.com/fabiolb/fabio/internal/zzverif/simcore"
	"github.com/fabiolb/fabio/metrics"
	"github.com/fabiolb/fabio/proxy"
	"github.com/fabiolb/fabio/route"
)

func init() {
	zzHarnesses = append(zzHarnesses, &simcore.Harness{Name: "c06", Props: []string{"C06"}, Run: runC06})
}

type c06Req struct {
	Kind   string `json:"kind"`
	Host   string `json:"host,omitempty"`
	Path   string `json:"path"`
	Remote string `json:"remote"`
	XFP    string `json:"x_forwarded_proto,omitempty"`
	Trace  bool   `json:"trace_header,omitempty"`
}

// c06Nest describes the nested, overlapping host patterns of the table: a request for x1.h3.example.com is a
// candidate for up to three patterns (the literal host, *.h3.example.com, *.example.com) and walks them from the most
// specific to the least specific one until one of them has a route for its path.
type c06Nest struct {
	// Mid[i] says which paths *.h<i>.example.com routes: 0 "/", 1 "/api", 2 "/api" and "/static", 3 "/" and "/api"
	Mid []int `json:"mid_level_paths"`
	// General: *.example.com routes "/" (otherwise only /zzz, as always)
	General bool `json:"general_pattern_routes_root"`
	// Leaves are literal hosts x<k>.h<i>.example.com routing one sub-path (or "/")
	Leaves []c06Leaf `json:"literal_hosts,omitempty"`
	// Ports adds patterns with an explicit port (*.example.com:8443, *.h0.example.com:8443)
	Ports bool `json:"patterns_with_port"`
	// Org adds a second domain (*.example.org, *.h0.example.org)
	Org bool `json:"second_domain"`
	// ACL adds an access rule on a route of the general pattern (*.example.com/acl denies 192.168.0.0/16)
	ACL bool `json:"general_pattern_has_access_rule"`
}

type c06Leaf struct {
	K, I int
	Path string
}

type c06Scenario struct {
	GlobHosts  int         `json:"glob_hosts"`
	CacheSize  int         `json:"glob_cache_size"`
	Weights    []string    `json:"weights"`
	Equal      int         `json:"equal_targets"`
	Tasks      [][]c06Req  `json:"tasks"`
	Writer     bool        `json:"writer_replaces_table"`
	Stick      int         `json:"stick"`
	BadHost    bool        `json:"table_has_a_route_whose_host_is_not_a_valid_glob"`
	Nest       c06Nest     `json:"nested_hosts"`
	Warm       []c06Req    `json:"warm_up_requests_served_one_by_one_before_the_others,omitempty"`
	Gran       int         `json:"yield_granularity"`
	NoGlob     bool        `json:"glob_matching_disabled,omitempty"`
	Tables     []string    `json:"-"`
	TableTexts []string    `json:"tables,omitempty"`
	Reqs       int         `json:"requests"`
	Dummy      interface{} `json:"-"`
}

type c06Outcome struct {
	Status   int
	Location string
	Upstream string
}

func (o c06Outcome) String() string {
	return fmt.Sprintf("status=%d loc=%q up=%q", o.Status, o.Location, o.Upstream)
}

func c06TableText(sc *c06Scenario, v int) string {
	var b strings.Builder
	for i := 0; i < sc.GlobHosts; i++ {
		mid := 0
		if i < len(sc.Nest.Mid) {
			mid = sc.Nest.Mid[i]
		}
		if mid == 0 || mid == 3 {
			fmt.Fprintf(&b, "route add g%d *.h%d.example.com/ http://g%d-v%d:80/\n", i, i, i, v)
		}
		if mid >= 1 {
			fmt.Fprintf(&b, "route add g%dapi *.h%d.example.com/api http://g%dapi-v%d:80/\n", i, i, i, v)
		}
		if mid == 2 {
			fmt.Fprintf(&b, "route add g%dstatic *.h%d.example.com/static http://g%dstatic-v%d:80/\n", i, i, i, v)
		}
	}
	if sc.Nest.General {
		fmt.Fprintf(&b, "route add gen *.example.com/ http://gen-v%d:80/\n", v)
	}
	for _, l := range sc.Nest.Leaves {
		tag := strings.NewReplacer("/", "", "2", "two").Replace(l.Path)
		if tag == "" {
			tag = "root"
		}
		fmt.Fprintf(&b, "route add x%dh%d%s x%d.h%d.example.com%s http://x%dh%d%s-v%d:80/\n", l.K, l.I, tag, l.K, l.I, l.Path, l.K, l.I, tag, v)
	}
	if sc.Nest.ACL {
		fmt.Fprintf(&b, "route add gacl *.example.com/acl http://gacl-v%d:80/ opts \"deny=ip:192.168.0.0/16\"\n", v)
	}
	if sc.Nest.Ports {
		fmt.Fprintf(&b, "route add genp *.example.com:8443/ http://genp-v%d:80/\n", v)
		fmt.Fprintf(&b, "route add gpapi *.h0.example.com:8443/api http://gpapi-v%d:80/\n", v)
	}
	if sc.Nest.Org {
		fmt.Fprintf(&b, "route add orgen *.example.org/ http://orgen-v%d:80/\n", v)
		fmt.Fprintf(&b, "route add orgapi *.h0.example.org/api http://orgapi-v%d:80/\n", v)
	}
	for i, w := range sc.Weights {
		if w == "" {
			fmt.Fprintf(&b, "route add w /w http://w%d-v%d:80/\n", i, v)
		} else {
			fmt.Fprintf(&b, "route add w /w http://w%d-v%d:80/ weight %s\n", i, v, w)
		}
	}
	for i := 0; i < sc.Equal; i++ {
		fmt.Fprintf(&b, "route add e /e http://e%d-v%d:80/\n", i, v)
	}
	// a less specific pattern that matches the same hosts: lookups then walk several host patterns
	fmt.Fprintf(&b, "route add gall *.example.com/zzz http://gall-v%d:80/\n", v)
	if sc.BadHost {
		// accepted by NewTable; can never match a request and must not disturb the others
		b.WriteString("route add broken [a/ http://broken:1/\n")
	}
	b.WriteString("route add rd /rd https://redir.example.com$path opts \"redirect=301\"\n")
	b.WriteString("route add rh old.example.com/ https://new.example.com$path opts \"redirect=302\"\n")
	b.WriteString("route add rhost *.multi.example.com/ https://$host/login opts \"redirect=302\"\n")
	b.WriteString("route add rhp *.hp.example.com/ https://secure.$host$path opts \"redirect=307\"\n")
	fmt.Fprintf(&b, "route add acl /acl http://acl-v%d:80/ opts \"allow=ip:10.0.0.0/8\"\n", v)
	return b.String()
}

func c06Gen(g *simcore.Tape, thorough bool) *c06Scenario {
	sc := &c06Scenario{}
	sc.GlobHosts = g.Range(2, 6)
	sc.CacheSize = g.Range(1, 4)
	nw := g.Range(2, 4)
	opts := []string{"0.1", "0.2", "0.25", "0.3", "0.5", "0.05", ""}
	fixed := 0
	for i := 0; i < nw; i++ {
		w := simcore.Pick(g, opts)
		if w != "" {
			fixed++
		}
		sc.Weights = append(sc.Weights, w)
	}
	if fixed == 0 {
		sc.Weights[0] = "0.2"
	}
	sc.Equal = g.Range(2, 4)
	ntasks := g.Range(2, 4)
	if thorough {
		ntasks = g.Range(2, 6)
	}
	// nested overlapping host patterns: the more specific ones often route only sub-paths, so that a lookup has to
	// walk on to a less specific candidate (or to the routes without host)
	for i := 0; i < sc.GlobHosts; i++ {
		sc.Nest.Mid = append(sc.Nest.Mid, g.Intn(4))
	}
	sc.Nest.General = g.Chance(65)
	for n := g.Intn(4); n > 0; n-- {
		l := c06Leaf{K: g.Intn(3), I: g.Intn(sc.GlobHosts), Path: simcore.Pick(g, []string{"/api/v2", "/static", "/", "/api"})}
		dup := false
		for _, o := range sc.Nest.Leaves {
			dup = dup || o == l
		}
		if !dup {
			sc.Nest.Leaves = append(sc.Nest.Leaves, l)
		}
	}
	sc.Nest.Ports = g.Chance(30)
	sc.Nest.Org = g.Chance(40)
	sc.Nest.ACL = g.Chance(40)

	kinds := []string{"w", "w", "e", "rd", "rd", "glob", "glob", "rh", "acl", "none", "rhost", "rhost", "rhp", "nest", "nest", "nest", "nest"}
	// hot mode: every task hammers one multi-target route so that the ring wraps under contention, or one family of
	// hosts so that the lookups walk their candidate lists side by side
	hot := ""
	if g.Chance(50) {
		hot = simcore.Pick(g, []string{"e", "w", "rhost", "rd", "glob", "e", "nest", "nest", "nest", "acl"})
	}
	gen := func(hot string) c06Req {
		rq := c06Req{Kind: simcore.Pick(g, kinds), Remote: "10.1.2.3:4000"}
		if hot != "" && g.Chance(85) {
			rq.Kind = hot
		}
		switch rq.Kind {
		case "w":
			rq.Path = "/w"
		case "e":
			rq.Path = "/e/x"
		case "rd":
			rq.Path = fmt.Sprintf("/rd/p%d", g.Intn(5))
		case "glob":
			rq.Host = fmt.Sprintf("x%d.h%d.example.com", g.Intn(3), g.Intn(sc.GlobHosts))
			rq.Path = "/"
		case "nest":
			// a host below one, two or three of the nested patterns and a path that the specific ones may not route
			dom := "example.com"
			if sc.Nest.Org && g.Chance(30) {
				dom = "example.org"
			}
			switch g.Intn(4) {
			case 0, 1:
				rq.Host = fmt.Sprintf("x%d.h%d.%s", g.Intn(3), g.Intn(sc.GlobHosts), dom)
			case 2:
				rq.Host = fmt.Sprintf("y%d.%s", g.Intn(2), dom)
			case 3:
				rq.Host = fmt.Sprintf("a.x%d.h%d.%s", g.Intn(3), g.Intn(sc.GlobHosts), dom)
			}
			switch g.Intn(6) {
			case 1:
				rq.Host += ":80" // the default port is not part of the host
			case 2:
				if sc.Nest.Ports {
					rq.Host += ":8443"
				}
			}
			rq.Path = simcore.Pick(g, []string{"/other", "/", "/api/a", "/api/v2/b", "/static/s", "/w", "/e/x", "/rd/p0", "/acl", "/zzz/q"})
			if rq.Path == "/acl" && g.Bool() {
				rq.Remote = "192.168.0.9:555"
			}
		case "rh":
			rq.Host = "old.example.com"
			rq.Path = fmt.Sprintf("/q%d", g.Intn(5))
		case "rhost":
			rq.Host = fmt.Sprintf("t%d.multi.example.com", g.Intn(4))
			rq.Path = simcore.Pick(g, []string{"/", "/login", "/x"})
			if g.Chance(30) {
				rq.XFP = "https"
			}
		case "rhp":
			rq.Host = fmt.Sprintf("u%d.hp.example.com", g.Intn(3))
			rq.Path = fmt.Sprintf("/p%d", g.Intn(3))
		case "acl":
			rq.Path = "/acl"
			if g.Bool() {
				rq.Remote = "192.168.0.9:555"
			}
			if sc.Nest.ACL && g.Chance(40) {
				rq.Host = fmt.Sprintf("y%d.example.com", g.Intn(2))
			}
		case "none":
			rq.Path = "/nothing"
		}
		rq.Trace = g.Chance(8)
		sc.Reqs++
		return rq
	}
	for t := 0; t < ntasks; t++ {
		n := g.Range(1, 3)
		if hot != "" {
			n = g.Range(2, 6)
		}
		var reqs []c06Req
		for k := 0; k < n; k++ {
			reqs = append(reqs, gen(hot))
		}
		sc.Tasks = append(sc.Tasks, reqs)
	}
	// requests the process has served before the concurrent ones arrive (one after the other): whatever fabio recycles
	// between requests (pooled buffers, cached patterns) has been used and grown by them
	for n := g.Intn(4); n > 0; n-- {
		sc.Warm = append(sc.Warm, gen("nest"))
	}
	// which functions have live yield sites: 0 every statement of route, proxy and main; 1 only the walk over the
	// candidate hosts (Table.Lookup, Table.lookup, the picker, the Lookup closure): collecting the candidates, the
	// glob cache, building a redirect are single steps; 2 route without the host-normalising helpers and the glob
	// cache; 3 the handler (ServeHTTP, the Lookup closure, Table.Lookup): a whole route lookup per host is a step;
	// 4 only the pickers (everything else of a request is one step: the tasks meet inside the load balancing);
	// 5 only the glob cache and the collection of the candidates
	sc.Gran = []int{0, 1, 2, 3, 4, 5, 0, 1}[g.Intn(8)]
	sc.NoGlob = g.Chance(10)
	sc.Writer = g.Chance(30)
	sc.BadHost = g.Chance(25)
	sc.Stick = []int{1, 1, 3, 8}[g.Intn(4)]
	return sc
}

type c06Stub struct{}

func (c06Stub) RoundTrip(r *http.Request) (*http.Response, error) {
	h := http.Header{}
	h.Set("X-Upstream", r.URL.Host)
	return &http.Response{StatusCode: 200, Header: h, Body: io.NopCloser(strings.NewReader("")), Request: r, ProtoMajor: 1, ProtoMinor: 1}, nil
}

func c06Serve(p *proxy.HTTPProxy, rq c06Req) c06Outcome {
	req := httptest.NewRequest("GET", "http://placeholder"+rq.Path, nil)
	req.Host = rq.Host
	if rq.Host == "" {
		req.Host = "none.example.net"
	}
	req.RemoteAddr = rq.Remote
	if rq.Trace {
		req.Header.Set("trace", "zz")
	}
	if rq.XFP != "" {
		req.Header.Set("X-Forwarded-Proto", rq.XFP)
	}
	rec := httptest.NewRecorder()
	p.ServeHTTP(rec, req)
	return c06Outcome{Status: rec.Code, Location: rec.Header().Get("Location"), Upstream: rec.Header().Get("X-Upstream")}
}

func c06Config(sc *c06Scenario) *config.Config {
	cfg := &config.Config{}
	cfg.Proxy.Strategy = "rr"
	cfg.Proxy.Matcher = "prefix"
	cfg.Proxy.NoRouteStatus = 404
	cfg.GlobCacheSize = sc.CacheSize
	cfg.GlobMatchingDisabled = sc.NoGlob
	return cfg
}

// routeOf maps an upstream host "w1-v0:80" to its route name "w" and version 0.
func c06RouteOf(up string) (name string, version int) {
	if up == "" {
		return "", -1
	}
	host := strings.TrimSuffix(up, ":80")
	base, v, _ := strings.Cut(host, "-v")
	fmt.Sscanf(v, "%d", &version)
	name = strings.TrimRight(base, "0123456789")
	if name == "g" {
		name = base // glob routes are single-target: g3 is the route
	}
	return name, version
}

func runC06(r *simcore.Run) {
	sc := c06Gen(r.Gen, r.Thorough())
	nver := 1
	if sc.Writer {
		nver = 2
	}
	stats := &proxy.HttpStatsHandler{Noroute: metrics.DiscardProvider{}.NewCounter("notfound")}

	// sequential expectation on private copies of each table version. It runs as ONE task before any yield site is
	// active: the reference is sequential, but if it blocks on a lock that is never released this is a stuck lookup,
	// not a hung harness.
	d := simcore.NewDriver(r)
	d.Stick = sc.Stick
	var tables []route.Table
	expect := make([]map[c06Req]c06Outcome, nver)
	for v := 0; v < nver; v++ {
		text := c06TableText(sc, v)
		sc.TableTexts = append(sc.TableTexts, text)
		shared, err := route.NewTable(bytes.NewBufferString(text))
		if err != nil {
			r.Trouble("scenario table does not parse: %v", err)
			return
		}
		tables = append(tables, shared)
		expect[v] = map[c06Req]c06Outcome{}
	}
	d.TraceTasks = false
	d.Sim.Spawn("reference", func() {
		for v := 0; v < nver; v++ {
			for _, reqs := range append([][]c06Req{sc.Warm}, sc.Tasks...) {
				for _, rq := range reqs {
					if _, ok := expect[v][rq]; ok {
						continue
					}
					// every expectation is computed alone: fresh private table, fresh cache, fresh proxy
					private, _ := route.NewTable(bytes.NewBufferString(sc.TableTexts[v]))
					cfg := c06Config(sc)
					gc := route.NewGlobCache(1000)
					pp := &proxy.HTTPProxy{Config: cfg.Proxy, Transport: c06Stub{}, Stats: *stats,
						Lookup: func(req *http.Request) *route.Target {
							return private.Lookup(req, "", route.Picker["rr"], route.Matcher["prefix"], gc, sc.NoGlob)
						}}
					expect[v][rq] = c06Serve(pp, rq)
				}
			}
		}
	})
	if !d.Run(1000, func() bool { return d.Sim.Pending() == 0 }) {
		states := d.Sim.TaskStates()
		if len(states) == 1 && strings.Contains(states[0], " lock-wait ") {
			r.Fail("lookup-stuck", "lock-never-released", "a single request alone waits forever for a lock nobody will release: %v", states)
		} else {
			r.Trouble("the sequential reference did not finish: %v", states)
		}
		d.Finish()
		return
	}
	r.SetSample(sc)

	route.SetTable(tables[0])
	p := newHTTPProxy(c06Config(sc), stats)
	p.Transport = c06Stub{}
	p.InsecureTransport = c06Stub{}

	// stuck reports what is left when the driver has nothing to release any more
	stuck := func(what string) {
		// nothing is enabled any more: if every remaining task waits for a lock, lookups are stuck for good
		states := d.Sim.TaskStates()
		stuck := len(states) > 0
		for _, st := range states {
			if !strings.Contains(st, " lock-wait ") {
				stuck = false
			}
		}
		if stuck && len(d.Events()) == 0 {
			r.Fail("lookup-stuck", "lock-never-released", "lookups wait forever for a lock nobody will release: %v", states)
		} else {
			r.Trouble("%s did not finish: %v", what, states)
		}
	}

	// warm-up: requests served one after the other before the concurrent ones arrive (a single step: no yield site is
	// active yet). They are requests like any other: checked by (1), counted in (2).
	warm := make([]c06Outcome, 0, len(sc.Warm))
	if len(sc.Warm) > 0 {
		d.Sim.Spawn("warm", func() {
			for _, rq := range sc.Warm {
				warm = append(warm, c06Serve(p, rq))
			}
		})
		if !d.Run(1000, func() bool { return d.Sim.Pending() == 0 }) {
			stuck("the warm-up requests")
			d.Finish()
			return
		}
	}
	d.TraceTasks = true

	switch sc.Gran {
	case 1:
		d.Sim.Activate("route:Table.Lookup", "route:Table.lookup", "route:rrPicker", "main:newHTTPProxy.func")
	case 2:
		d.Sim.Activate("route", "-route:*GlobCache", "-route:ReverseHostPort", "-route:sortHostsReverseHostPort", "-route:normalizeHost")
	case 3:
		d.Sim.Activate("proxy:*HTTPProxy.ServeHTTP", "main:newHTTPProxy.func", "route:Table.Lookup")
	case 4:
		d.Sim.Activate("route:rrPicker", "route:rndPicker")
	case 5:
		d.Sim.Activate("route:*GlobCache", "route:Table.matchingHosts")
	default:
		d.Sim.Activate("route", "proxy", "main")
	}

	results := make([][]c06Outcome, len(sc.Tasks))
	inPick := 0
	for i, reqs := range sc.Tasks {
		i, reqs := i, reqs
		d.Sim.Spawn(fmt.Sprintf("req%d", i), func() {
			for _, rq := range reqs {
				results[i] = append(results[i], c06Serve(p, rq))
			}
		})
	}
	if sc.Writer {
		d.Sim.Spawn("writer", func() { route.SetTable(tables[1]) })
	}

	caches := d.Sim.Observed("globcache")
	d.Invariant = func() {
		if n := d.Sim.InFunc("route", "rrPicker"); n >= 2 {
			inPick++
		}
		if d.Sim.InFunc("route", "*GlobCache.") > 0 {
			return
		}
		for _, c := range caches {
			gc := c.(*route.GlobCache)
			cached, _, _, _ := route.ZZGlobCacheState(gc)
			if cached > sc.CacheSize {
				r.Fail("globcache-size", "exceeds-configured-size", "glob cache holds %d patterns, configured size %d", cached, sc.CacheSize)
			}
		}
	}
	done := d.Run(200000, func() bool { return d.Sim.Pending() == 0 })
	if !done {
		stuck("tasks")
	}
	d.Invariant()
	if len(caches) != 1 {
		r.Trouble("expected exactly one glob cache created by newHTTPProxy, saw %d", len(caches))
	}

	// (1) request locality
	picks := map[string]map[string]int{} // "route/version" -> upstream -> count
	for i, reqs := range append([][]c06Req{sc.Warm}, sc.Tasks...) {
		res, who := warm, "warm"
		if i > 0 {
			res, who = results[i-1], fmt.Sprintf("req%d", i-1)
		}
		for k, rq := range reqs {
			if k >= len(res) {
				continue // the task panicked; recorded by the panic handler
			}
			got := res[k]
			r.Tracef("%s.%d %s %s%s -> %s", who, k, rq.Kind, rq.Host, rq.Path, got)
			okAny := false
			var want c06Outcome
			for v := 0; v < nver; v++ {
				want = expect[v][rq]
				if got.Status != want.Status || got.Location != want.Location {
					continue
				}
				gn, gv := c06RouteOf(got.Upstream)
				wn, _ := c06RouteOf(want.Upstream)
				if gn != wn {
					continue
				}
				if gn != "" && gv != v {
					continue
				}
				okAny = true
				if gn != "" {
					key := fmt.Sprintf("%s/v%d", gn, gv)
					if picks[key] == nil {
						picks[key] = map[string]int{}
					}
					picks[key][got.Upstream]++
				}
				break
			}
			if !okAny {
				want = expect[0][rq]
				class := "cross-request"
				sig := rq.Kind
				switch {
				case got.Location != want.Location:
					sig += "/location"
				case got.Status != want.Status:
					sig += "/status"
				default:
					sig += "/target"
				}
				r.Fail(class, sig, "request %s %s%s from %s got %s; alone on the same table it gets %s", rq.Kind, rq.Host, rq.Path, rq.Remote, got, want)
			}
		}
	}

	// (2) exact round-robin share per route object
	for v := 0; v < nver; v++ {
		for _, ri := range route.ZZRoutes(tables[v]) {
			if len(ri.Targets) < 2 {
				continue
			}
			name := strings.TrimPrefix(ri.Path, "/")
			got := picks[fmt.Sprintf("%s/v%d", name, v)]
			n := 0
			for _, c := range got {
				n += c
			}
			if n == 0 {
				continue
			}
			// "its exact share of the lookups performed": the n lookups are n consecutive slots of the ring, wherever
			// the walk started and whichever way it goes round (today's picker starts at slot 0 and goes up; a picker
			// that walks the other way or starts elsewhere hands out exact shares just as well)
			L := len(ri.Ring)
			key := func(i int) string {
				return strings.TrimSuffix(strings.TrimPrefix(ri.Ring[((i%L)+L)%L], "http://"), "/")
			}
			want := map[string]int{}
			for i := 0; i < n; i++ {
				want[key(i)]++
			}
			first := fmt.Sprint(sortedCounts(want))
			ok := fmt.Sprint(sortedCounts(got)) == first
			for s := 1; s < L && !ok; s++ {
				// slide the window of n slots by one: slot s-1 leaves, slot s-1+n enters
				want[key(s-1)]--
				if want[key(s-1)] == 0 {
					delete(want, key(s-1))
				}
				want[key(s-1+n)]++
				ok = fmt.Sprint(sortedCounts(got)) == fmt.Sprint(sortedCounts(want))
			}
			if !ok {
				r.Fail("rr-share", "multiset", "route %s (table v%d): %d lookups were distributed %v; no run of %d consecutive slots of the ring gives that (from slot 0: %v)", ri.Path, v, n, sortedCounts(got), n, first)
			}
		}
	}
	if inPick > 0 {
		r.Probe("two_tasks_inside_rrPicker")
	}
	if len(sc.Tasks) >= 2 {
		r.Nontrivial()
	}
	d.Finish()
}

func sortedCounts(m map[string]int) []string {
	var out []string
	for k, v := range m {
		out = append(out, fmt.Sprintf("%s=%d", k, v))
	}
	sort.Strings(out)
	return out
}

//go:build verif

package main

// C06 — concurrent requests do not influence each other's routing.
//
// Statement-level simulation: 2..6 request tasks run the real
// HTTPProxy.ServeHTTP of main.newHTTPProxy (real Lookup closure, real glob
// cache, real rr picker, real redirect/access code) against one shared table,
// optionally while a writer task replaces the table. The driver interleaves
// the tasks at every statement of fabio code.

import (
	"bytes"
	"fmt"
	"io"
	"net/http"
	"net/http/httptest"
	"sort"
	"strings"

	"github.com/fabiolb/fabio/config"
	"github.com/fabiolb/fabio/internal/zzverif/simcore"
	"github.com/fabiolb/fabio/metrics"
	"github.com/fabiolb/fabio/proxy"
	"github.com/fabiolb/fabio/route"
)

func init() {
	zzHarnesses = append(zzHarnesses, &simcore.Harness{Name: "c06", Props: []string{"C06"}, Run: runC06})
}

type c06Req struct {
	Kind   string `json:"kind"`
	Host   string `json:"host,omitempty"`
	Path   string `json:"path"`
	Remote string `json:"remote"`
	XFP    string `json:"x_forwarded_proto,omitempty"`
}

type c06Scenario struct {
	GlobHosts  int         `json:"glob_hosts"`
	CacheSize  int         `json:"glob_cache_size"`
	Weights    []string    `json:"weights"`
	Equal      int         `json:"equal_targets"`
	Tasks      [][]c06Req  `json:"tasks"`
	Writer     bool        `json:"writer_replaces_table"`
	Stick      int         `json:"stick"`
	BadHost    bool        `json:"table_has_a_route_whose_host_is_not_a_valid_glob"`
	Tables     []string    `json:"-"`
	TableTexts []string    `json:"tables,omitempty"`
	Reqs       int         `json:"requests"`
	Dummy      interface{} `json:"-"`
}

type c06Outcome struct {
	Status   int
	Location string
	Upstream string
}

func (o c06Outcome) String() string {
	return fmt.Sprintf("status=%d loc=%q up=%q", o.Status, o.Location, o.Upstream)
}

func c06TableText(sc *c06Scenario, v int) string {
	var b strings.Builder
	for i := 0; i < sc.GlobHosts; i++ {
		fmt.Fprintf(&b, "route add g%d *.h%d.example.com/ http://g%d-v%d:80/\n", i, i, i, v)
	}
	for i, w := range sc.Weights {
		if w == "" {
			fmt.Fprintf(&b, "route add w /w http://w%d-v%d:80/\n", i, v)
		} else {
			fmt.Fprintf(&b, "route add w /w http://w%d-v%d:80/ weight %s\n", i, v, w)
		}
	}
	for i := 0; i < sc.Equal; i++ {
		fmt.Fprintf(&b, "route add e /e http://e%d-v%d:80/\n", i, v)
	}
	// a less specific pattern that matches the same hosts: lookups then walk several host patterns
	fmt.Fprintf(&b, "route add gall *.example.com/zzz http://gall-v%d:80/\n", v)
	if sc.BadHost {
		// accepted by NewTable; can never match a request and must not disturb the others
		b.WriteString("route add broken [a/ http://broken:1/\n")
	}
	b.WriteString("route add rd /rd https://redir.example.com$path opts \"redirect=301\"\n")
	b.WriteString("route add rh old.example.com/ https://new.example.com$path opts \"redirect=302\"\n")
	b.WriteString("route add rhost *.multi.example.com/ https://$host/login opts \"redirect=302\"\n")
	b.WriteString("route add rhp *.hp.example.com/ https://secure.$host$path opts \"redirect=307\"\n")
	fmt.Fprintf(&b, "route add acl /acl http://acl-v%d:80/ opts \"allow=ip:10.0.0.0/8\"\n", v)
	return b.String()
}

func c06Gen(g *simcore.Tape, thorough bool) *c06Scenario {
	sc := &c06Scenario{}
	sc.GlobHosts = g.Range(2, 6)
	sc.CacheSize = g.Range(1, 4)
	nw := g.Range(2, 4)
	opts := []string{"0.1", "0.2", "0.25", "0.3", "0.5", "0.05", ""}
	fixed := 0
	for i := 0; i < nw; i++ {
		w := simcore.Pick(g, opts)
		if w != "" {
			fixed++
		}
		sc.Weights = append(sc.Weights, w)
	}
	if fixed == 0 {
		sc.Weights[0] = "0.2"
	}
	sc.Equal = g.Range(2, 4)
	ntasks := g.Range(2, 4)
	if thorough {
		ntasks = g.Range(2, 6)
	}
	kinds := []string{"w", "w", "e", "rd", "rd", "glob", "glob", "rh", "acl", "none", "rhost", "rhost", "rhp"}
	// hot mode: every task hammers one multi-target route so that the ring wraps under contention
	hot := ""
	if g.Chance(35) {
		hot = simcore.Pick(g, []string{"e", "w", "rhost", "rd", "glob", "glob"})
	}
	for t := 0; t < ntasks; t++ {
		n := g.Range(1, 3)
		if hot != "" {
			n = g.Range(2, 6)
		}
		var reqs []c06Req
		for k := 0; k < n; k++ {
			rq := c06Req{Kind: simcore.Pick(g, kinds), Remote: "10.1.2.3:4000"}
			if hot != "" && g.Chance(85) {
				rq.Kind = hot
			}
			switch rq.Kind {
			case "w":
				rq.Path = "/w"
			case "e":
				rq.Path = "/e/x"
			case "rd":
				rq.Path = fmt.Sprintf("/rd/p%d", g.Intn(5))
			case "glob":
				rq.Host = fmt.Sprintf("x%d.h%d.example.com", g.Intn(3), g.Intn(sc.GlobHosts))
				rq.Path = "/"
			case "rh":
				rq.Host = "old.example.com"
				rq.Path = fmt.Sprintf("/q%d", g.Intn(5))
			case "rhost":
				rq.Host = fmt.Sprintf("t%d.multi.example.com", g.Intn(4))
				rq.Path = simcore.Pick(g, []string{"/", "/login", "/x"})
				if g.Chance(30) {
					rq.XFP = "https"
				}
			case "rhp":
				rq.Host = fmt.Sprintf("u%d.hp.example.com", g.Intn(3))
				rq.Path = fmt.Sprintf("/p%d", g.Intn(3))
			case "acl":
				rq.Path = "/acl"
				if g.Bool() {
					rq.Remote = "192.168.0.9:555"
				}
			case "none":
				rq.Path = "/nothing"
			}
			reqs = append(reqs, rq)
			sc.Reqs++
		}
		sc.Tasks = append(sc.Tasks, reqs)
	}
	sc.Writer = g.Chance(30)
	sc.BadHost = g.Chance(25)
	sc.Stick = []int{1, 1, 3, 8}[g.Intn(4)]
	return sc
}

type c06Stub struct{}

func (c06Stub) RoundTrip(r *http.Request) (*http.Response, error) {
	h := http.Header{}
	h.Set("X-Upstream", r.URL.Host)
	return &http.Response{StatusCode: 200, Header: h, Body: io.NopCloser(strings.NewReader("")), Request: r, ProtoMajor: 1, ProtoMinor: 1}, nil
}

func c06Serve(p *proxy.HTTPProxy, rq c06Req) c06Outcome {
	req := httptest.NewRequest("GET", "http://placeholder"+rq.Path, nil)
	req.Host = rq.Host
	if rq.Host == "" {
		req.Host = "none.example.net"
	}
	req.RemoteAddr = rq.Remote
	if rq.XFP != "" {
		req.Header.Set("X-Forwarded-Proto", rq.XFP)
	}
	rec := httptest.NewRecorder()
	p.ServeHTTP(rec, req)
	return c06Outcome{Status: rec.Code, Location: rec.Header().Get("Location"), Upstream: rec.Header().Get("X-Upstream")}
}

func c06Config(sc *c06Scenario) *config.Config {
	cfg := &config.Config{}
	cfg.Proxy.Strategy = "rr"
	cfg.Proxy.Matcher = "prefix"
	cfg.Proxy.NoRouteStatus = 404
	cfg.GlobCacheSize = sc.CacheSize
	return cfg
}

// routeOf maps an upstream host "w1-v0:80" to its route name "w" and version 0.
func c06RouteOf(up string) (name string, version int) {
	if up == "" {
		return "", -1
	}
	host := strings.TrimSuffix(up, ":80")
	base, v, _ := strings.Cut(host, "-v")
	fmt.Sscanf(v, "%d", &version)
	name = strings.TrimRight(base, "0123456789")
	if name == "g" {
		name = base // glob routes are single-target: g3 is the route
	}
	return name, version
}

func runC06(r *simcore.Run) {
	sc := c06Gen(r.Gen, r.Thorough())
	nver := 1
	if sc.Writer {
		nver = 2
	}
	stats := &proxy.HttpStatsHandler{Noroute: metrics.DiscardProvider{}.NewCounter("notfound")}

	// sequential expectation on private copies of each table version. It runs as ONE task before any yield site is
	// active: the reference is sequential, but if it blocks on a lock that is never released this is a stuck lookup,
	// not a hung harness.
	d := simcore.NewDriver(r)
	d.Stick = sc.Stick
	var tables []route.Table
	expect := make([]map[c06Req]c06Outcome, nver)
	for v := 0; v < nver; v++ {
		text := c06TableText(sc, v)
		sc.TableTexts = append(sc.TableTexts, text)
		shared, err := route.NewTable(bytes.NewBufferString(text))
		if err != nil {
			r.Trouble("scenario table does not parse: %v", err)
			return
		}
		tables = append(tables, shared)
		expect[v] = map[c06Req]c06Outcome{}
	}
	d.TraceTasks = false
	d.Sim.Spawn("reference", func() {
		for v := 0; v < nver; v++ {
			for _, reqs := range sc.Tasks {
				for _, rq := range reqs {
					if _, ok := expect[v][rq]; ok {
						continue
					}
					// every expectation is computed alone: fresh private table, fresh cache, fresh proxy
					private, _ := route.NewTable(bytes.NewBufferString(sc.TableTexts[v]))
					cfg := c06Config(sc)
					gc := route.NewGlobCache(1000)
					pp := &proxy.HTTPProxy{Config: cfg.Proxy, Transport: c06Stub{}, Stats: *stats,
						Lookup: func(req *http.Request) *route.Target {
							return private.Lookup(req, "", route.Picker["rr"], route.Matcher["prefix"], gc, false)
						}}
					expect[v][rq] = c06Serve(pp, rq)
				}
			}
		}
	})
	if !d.Run(1000, func() bool { return d.Sim.Pending() == 0 }) {
		states := d.Sim.TaskStates()
		if len(states) == 1 && strings.Contains(states[0], " lock-wait ") {
			r.Fail("lookup-stuck", "lock-never-released", "a single request alone waits forever for a lock nobody will release: %v", states)
		} else {
			r.Trouble("the sequential reference did not finish: %v", states)
		}
		d.Finish()
		return
	}
	d.TraceTasks = true
	r.SetSample(sc)

	d.Sim.Activate("route", "proxy", "main")
	route.SetTable(tables[0])
	p := newHTTPProxy(c06Config(sc), stats)
	p.Transport = c06Stub{}
	p.InsecureTransport = c06Stub{}

	results := make([][]c06Outcome, len(sc.Tasks))
	inPick := 0
	for i, reqs := range sc.Tasks {
		i, reqs := i, reqs
		d.Sim.Spawn(fmt.Sprintf("req%d", i), func() {
			for _, rq := range reqs {
				results[i] = append(results[i], c06Serve(p, rq))
			}
		})
	}
	if sc.Writer {
		d.Sim.Spawn("writer", func() { route.SetTable(tables[1]) })
	}

	caches := d.Sim.Observed("globcache")
	d.Invariant = func() {
		if n := d.Sim.InFunc("route", "rrPicker"); n >= 2 {
			inPick++
		}
		if d.Sim.InFunc("route", "*GlobCache.") > 0 {
			return
		}
		for _, c := range caches {
			gc := c.(*route.GlobCache)
			cached, _, _, _ := route.ZZGlobCacheState(gc)
			if cached > sc.CacheSize {
				r.Fail("globcache-size", "exceeds-configured-size", "glob cache holds %d patterns, configured size %d", cached, sc.CacheSize)
			}
		}
	}
	done := d.Run(200000, func() bool { return d.Sim.Pending() == 0 })
	if !done {
		// nothing is enabled any more: if every remaining task waits for a lock, lookups are stuck for good
		states := d.Sim.TaskStates()
		stuck := len(states) > 0
		for _, st := range states {
			if !strings.Contains(st, " lock-wait ") {
				stuck = false
			}
		}
		if stuck && len(d.Events()) == 0 {
			r.Fail("lookup-stuck", "lock-never-released", "lookups wait forever for a lock nobody will release: %v", states)
		} else {
			r.Trouble("tasks did not finish: %v", states)
		}
	}
	d.Invariant()
	if len(caches) != 1 {
		r.Trouble("expected exactly one glob cache created by newHTTPProxy, saw %d", len(caches))
	}

	// (1) request locality
	picks := map[string]map[string]int{} // "route/version" -> upstream -> count
	for i, reqs := range sc.Tasks {
		for k, rq := range reqs {
			if k >= len(results[i]) {
				continue // the task panicked; recorded by the panic handler
			}
			got := results[i][k]
			r.Tracef("req%d.%d %s %s%s -> %s", i, k, rq.Kind, rq.Host, rq.Path, got)
			okAny := false
			var want c06Outcome
			for v := 0; v < nver; v++ {
				want = expect[v][rq]
				if got.Status != want.Status || got.Location != want.Location {
					continue
				}
				gn, gv := c06RouteOf(got.Upstream)
				wn, _ := c06RouteOf(want.Upstream)
				if gn != wn {
					continue
				}
				if gn != "" && gv != v {
					continue
				}
				okAny = true
				if gn != "" {
					key := fmt.Sprintf("%s/v%d", gn, gv)
					if picks[key] == nil {
						picks[key] = map[string]int{}
					}
					picks[key][got.Upstream]++
				}
				break
			}
			if !okAny {
				want = expect[0][rq]
				class := "cross-request"
				sig := rq.Kind
				switch {
				case got.Location != want.Location:
					sig += "/location"
				case got.Status != want.Status:
					sig += "/status"
				default:
					sig += "/target"
				}
				r.Fail(class, sig, "request %s %s%s from %s got %s; alone on the same table it gets %s", rq.Kind, rq.Host, rq.Path, rq.Remote, got, want)
			}
		}
	}

	// (2) exact round-robin share per route object
	for v := 0; v < nver; v++ {
		for _, ri := range route.ZZRoutes(tables[v]) {
			if len(ri.Targets) < 2 {
				continue
			}
			name := strings.TrimPrefix(ri.Path, "/")
			got := picks[fmt.Sprintf("%s/v%d", name, v)]
			n := 0
			for _, c := range got {
				n += c
			}
			if n == 0 {
				continue
			}
			want := map[string]int{}
			for i := 0; i < n; i++ {
				u := ri.Ring[i%len(ri.Ring)]
				want[strings.TrimSuffix(strings.TrimPrefix(u, "http://"), "/")]++
			}
			if fmt.Sprint(sortedCounts(got)) != fmt.Sprint(sortedCounts(want)) {
				r.Fail("rr-share", "multiset", "route %s (table v%d): %d lookups were distributed %v, the ring prescribes %v", ri.Path, v, n, sortedCounts(got), sortedCounts(want))
			}
		}
	}
	if inPick > 0 {
		r.Probe("two_tasks_inside_rrPicker")
	}
	if len(sc.Tasks) >= 2 {
		r.Nontrivial()
	}
	d.Finish()
}

func sortedCounts(m map[string]int) []string {
	var out []string
	for k, v := range m {
		out = append(out, fmt.Sprintf("%s=%d", k, v))
	}
	sort.Strings(out)
	return out
}

//go:build verif

package main

// C14 — every service registration yields route commands fabio itself accepts;
// a registration that cannot be expressed is dropped on its own.
//
// H1 with an adversarial registration generator next to well-formed services.

import (
	"bytes"
	"fmt"
	"math"
	"sort"
	"strconv"
	"strings"
	"time"

	"github.com/fabiolb/fabio/config"
	"github.com/fabiolb/fabio/internal/zzverif/simconsul"
	"github.com/fabiolb/fabio/internal/zzverif/simcore"
	"github.com/fabiolb/fabio/route"
	"github.com/hashicorp/consul/api"
)

func init() {
	zzHarnesses = append(zzHarnesses, &simcore.Harness{Name: "c14", Props: []string{"C14"}, Run: runC14})
}

type c14Scenario struct {
	Nodes   []simconsul.Node     `json:"nodes"`
	Good    []simconsul.Instance `json:"well_formed_instances"`
	Poison  []simconsul.Instance `json:"adversarial_instances"`
	Ops     []c01Op              `json:"ops"`
	Faults  bool                 `json:"consul_faults"`
	Monitor int                  `json:"service_monitors"`
	// Interleave: the goroutines makeConfig starts per service are scheduled statement by statement
	Interleave bool `json:"makeconfig_interleaved"`
}

var c14Names = []string{"bad", "svc with space", "sv\"c", "ünï", "a\tb", "bad2", "web"}
var c14Addrs = []string{"10.1.0.9", "fd00::9", "", "bad addr", "%zz", "host.example", "[::1", "2001:DB8::A", "::ffff:10.1.0.9", "fe80::1%eth0", "::"}
var c14Ports = []int{80, 0, 65535, -1, 70000}

// Address shapes (the statement quantifies over IPv4/IPv6 addresses and ports 0-65535): a node has an IPv4 or an
// IPv6 address; a registration has no address of its own (the node address applies), an IPv4 address, an IPv6 literal
// or a host name. Index 0 is the simplest choice.
var c14NodeAddrs = [][]string{
	{"10.0.0.11", "2001:db8::7", "fd00::11", "::1"},
	{"10.0.0.12", "2001:db8:0:1::12", "fe80::12"},
}

const (
	c14AddrIPv4 = iota
	c14AddrNode // ServiceAddress empty: the node address applies
	c14AddrIPv6
	c14AddrName
	c14AddrShapes
)

// c14GoodAddr: the address of the i-th well-formed registration in the drawn shape.
func c14GoodAddr(shape, i int) string {
	switch shape {
	case c14AddrNode:
		return ""
	case c14AddrIPv6:
		return fmt.Sprintf("fd00:2::%x", 1+i)
	case c14AddrName:
		return fmt.Sprintf("good-%d.svc.example", i)
	}
	return fmt.Sprintf("10.2.0.%d", 1+i)
}

// c14Port: a port of the registrable range 0-65535; the first choice is the given default.
func c14Port(g *simcore.Tape, def int) int {
	switch g.Intn(6) {
	case 1:
		return 65535
	case 2:
		return 1
	case 3:
		return 0
	case 4:
		return 443
	case 5:
		return g.Range(1, 65535)
	}
	return def
}

var c14RouteTags = []string{
	"urlprefix-/p weight=abc", "urlprefix-/p weight=Inf", "urlprefix-/p weight=NaN", "urlprefix-/p weight=1e308", "urlprefix-/p weight=5e-324",
	"urlprefix-/p weight=-1", "urlprefix-/p weight=+Inf", "urlprefix-/p weight=0x1p-2", "urlprefix-/p redirect=301", "urlprefix-/p redirect=301,http://a/,b",
	"urlprefix-/p proto=ftp", "urlprefix-/p unknown=1 flag", "urlprefix-/foo[", "urlprefix-/{a,b", "urlprefix-/p strip=", "urlprefix-/p a=\"q\"",
	"urlprefix-nohost", "urlprefix-", "urlprefix-/ok", "urlprefix-/p weight=0.5 weight=Inf", "urlprefix-HOST.example.com:8080/x", "urlprefix-/p opts=\\",
	"urlprefix-/LONG", "urlprefix-/p\tweight=Inf", "urlprefix-/p redirect=999,https://x.example.com/$path", "urlprefix-:99999 proto=tcp",
}
var c14PlainTags = []string{"say \"hi\"", "back\\slash", "comma,tag", "ünï", "tab\ttag", "new\nline", "ok", "  padded  ", "quote\"", "#hash", "a=b"}

func c14GenPoison(g *simcore.Tape, nodes []simconsul.Node, i int) simconsul.Instance {
	in := simconsul.Instance{Node: simcore.Pick(g, nodes).Name, ID: fmt.Sprintf("poison-%d", i), Name: simcore.Pick(g, c14Names),
		Addr: simcore.Pick(g, c14Addrs), Port: simcore.Pick(g, c14Ports)}
	if g.Chance(25) {
		in.Port = g.Range(1, 65535)
	}
	n := g.Range(1, 2)
	for k := 0; k < n; k++ {
		t := simcore.Pick(g, c14RouteTags)
		if t == "urlprefix-/LONG" {
			t = "urlprefix-/" + strings.Repeat("x", 70000)
		}
		in.Tags = append(in.Tags, t)
	}
	m := g.Range(0, 2)
	for k := 0; k < m; k++ {
		in.Tags = append(in.Tags, simcore.Pick(g, c14PlainTags))
	}
	in.Checks = []simconsul.Check{{ID: "service:" + in.ID, Status: "passing"}}
	return in
}

func c14GenGood(g *simcore.Tape, nodes []simconsul.Node, i int) simconsul.Instance {
	in := simconsul.Instance{Node: simcore.Pick(g, nodes).Name, ID: fmt.Sprintf("good-%d", i), Name: fmt.Sprintf("good%d", i%2)}
	in.Addr = c14GoodAddr(g.Intn(c14AddrShapes), i)
	in.Port = c14Port(g, 8000+i)
	in.Tags = []string{simcore.Pick(g, []string{"urlprefix-/good", "urlprefix-good.example.com/", "urlprefix-/g2 strip=/g2",
		"urlprefix-/gs proto=https", "urlprefix-:3306 proto=tcp", "urlprefix-/gg proto=grpc"})}
	if g.Bool() {
		in.Tags = append(in.Tags, "v1")
	}
	in.Checks = []simconsul.Check{{ID: "service:" + in.ID, Status: "passing"}}
	return in
}

// c14Denote: what a routing tag of a registration denotes, and whether its option values are meaningful at all.
func c14Denote(name, addr string, port int, tag string, plain []string) (cmd h1Cmd, isRouteTag, meaningful bool) {
	cmd, ok := c01TagCommand(name, addr, port, tag, plain)
	if !ok {
		return cmd, false, false
	}
	meaningful = true
	_, optstr, _ := strings.Cut(strings.TrimSpace(strings.TrimSpace(tag)[len(c01Prefix):]), " ")
	for _, o := range strings.Fields(optstr) {
		if k, v, _ := strings.Cut(o, "="); k == "weight" {
			f, err := strconv.ParseFloat(v, 64)
			if err != nil || math.IsNaN(f) || math.IsInf(f, 0) {
				meaningful = false // a weight that is not a finite number denotes nothing
			}
			cmd.Weight = f
		}
	}
	return cmd, true, meaningful
}

func runC14(r *simcore.Run) {
	g := r.Gen
	sc := &c14Scenario{Monitor: g.Range(1, 3)}
	sc.Nodes = []simconsul.Node{{Name: "n1", Addr: simcore.Pick(g, c14NodeAddrs[0]), Serf: "passing"}}
	if g.Bool() {
		sc.Nodes = append(sc.Nodes, simconsul.Node{Name: "n2", Addr: simcore.Pick(g, c14NodeAddrs[1]), Serf: "passing"})
	}
	ng := g.Range(1, 3)
	for i := 0; i < ng; i++ {
		sc.Good = append(sc.Good, c14GenGood(g, sc.Nodes, i))
	}
	np := g.Range(1, 2)
	for i := 0; i < np; i++ {
		sc.Poison = append(sc.Poison, c14GenPoison(g, sc.Nodes, i))
	}
	// history: poisons arrive (and sometimes leave) while well-formed services keep changing
	nops := g.Range(2, 6)
	goodN := ng
	for i := 0; i < nops; i++ {
		switch g.Intn(7) {
		case 5, 6:
			// the same registration comes back with different plain tags (harmless -> inexpressible or the reverse)
			// (only adversarial instances: the well-formed ones stay well-formed)
			src := simcore.Pick(g, sc.Poison)
			in := src
			in.Tags = nil
			for _, t := range src.Tags {
				if strings.HasPrefix(strings.TrimSpace(t), c01Prefix) {
					in.Tags = append(in.Tags, t)
				}
			}
			in.Tags = append(in.Tags, simcore.Pick(g, []string{"rel \"stable\"", "v2", "new\nline", "green", "comma,tag"}))
			sc.Ops = append(sc.Ops, c01Op{Kind: "register", Inst: &in})
		case 0:
			in := c14GenPoison(g, sc.Nodes, np+i)
			sc.Ops = append(sc.Ops, c01Op{Kind: "register", Inst: &in})
		case 1:
			p := simcore.Pick(g, sc.Poison)
			sc.Ops = append(sc.Ops, c01Op{Kind: "deregister", Node: p.Node, ID: p.ID})
		case 2:
			in := c14GenGood(g, sc.Nodes, goodN)
			goodN++
			sc.Ops = append(sc.Ops, c01Op{Kind: "register", Inst: &in})
		case 3:
			p := simcore.Pick(g, sc.Good)
			sc.Ops = append(sc.Ops, c01Op{Kind: "check", Node: p.Node, ID: p.ID, Status: simcore.Pick(g, []string{"critical", "passing"})})
		case 4:
			p := simcore.Pick(g, sc.Good)
			sc.Ops = append(sc.Ops, c01Op{Kind: "deregister", Node: p.Node, ID: p.ID})
		}
	}
	sc.Faults = g.Chance(20)
	sc.Interleave = g.Chance(40)
	// the 70000-character tag is abbreviated in the sample
	sample := *sc
	r.SetSample(c14Abbrev(sample))

	ccfg := &config.Consul{TagPrefix: c01Prefix, KVPath: "/fabio/config", NoRouteHTMLPath: "/fabio/noroute.html",
		ServiceStatus: []string{"passing"}, ChecksRequired: "one", ServiceMonitors: sc.Monitor}
	e := h1NewEnv(r, ccfg)
	defer e.finish()
	for i := range sc.Nodes {
		n := sc.Nodes[i]
		e.sc.Nodes = append(e.sc.Nodes, &n)
	}
	// the well-formed services are there first; poisons are registered as the first ops
	for i := range sc.Good {
		in := sc.Good[i]
		e.sc.Instances = append(e.sc.Instances, &in)
	}
	var ops []c01Op
	for i := range sc.Poison {
		in := sc.Poison[i]
		ops = append(ops, c01Op{Kind: "register", Inst: &in})
	}
	ops = append(ops, sc.Ops...)
	e.sc.FaultsEnabled = sc.Faults
	e.start()
	if sc.Interleave {
		// the per-service goroutines of makeConfig interleave statement by statement
		e.d.Sim.Activate("consul:*ServiceMonitor.makeConfig", "consul:*ServiceMonitor.serviceConfig", "consul:routecmd", "consul:expressible", "route:Parse", "route:parseRoute")
	}
	next := 0
	e.d.AddSource(func() []simcore.Event {
		if next >= len(ops) {
			return nil
		}
		return []simcore.Event{{Key: "op", Weight: 2, Fire: func() {
			op := ops[next]
			next++
			r.Tracef("op %d %s", next, op.Kind)
			c01Apply(e.sc, op)
		}}}
	})
	for steps := 0; next < len(ops) && steps < 20000; steps++ {
		if !e.d.Step() {
			if !e.d.IdleAdvance(48 * time.Hour) {
				break
			}
		}
	}
	e.sc.FaultsEnabled = false
	quiet := 2*(5*time.Minute+20*time.Second) + 30*time.Second
	e.settle(60000, quiet)
	e.observe()
	r.Nontrivial()

	isGood := func(name string) bool { return strings.HasPrefix(name, "good") }

	// (1) every emitted command is accepted by fabio's parser and denotes a registration served in its round
	type round struct {
		health   *simconsul.Served
		catalogs map[string][]*api.CatalogService
	}
	var rounds []round
	for _, sv := range e.sc.Log {
		switch sv.Endpoint {
		case "health":
			if sv.Err == "" {
				rounds = append(rounds, round{health: sv, catalogs: map[string][]*api.CatalogService{}})
			}
		case "catalog":
			if len(rounds) > 0 && sv.Err == "" {
				rounds[len(rounds)-1].catalogs[sv.Arg] = sv.Catalog
			}
		}
	}
	// what every eligible (instance, routing tag) of a round denotes
	denote := func(rd round) (must, may map[string]bool) {
		elig := c01Eligible(rd.health.Health, []string{"passing"}, false)
		// what every eligible (instance, routing tag) denotes
		must = map[string]bool{} // well-formed registrations: the command has to be there
		may = map[string]bool{}  // adversarial but meaningful registrations: exact command or nothing
		for _, svcs := range rd.catalogs {
			for _, s := range svcs {
				if !elig[[3]string{s.Node, s.ServiceID, s.ServiceName}] {
					continue
				}
				addr := s.ServiceAddress
				if addr == "" {
					addr = s.Address
				}
				var plain []string
				for _, t := range s.ServiceTags {
					if !strings.HasPrefix(strings.TrimSpace(t), c01Prefix) {
						plain = append(plain, strings.TrimSpace(t))
					}
				}
				for _, t := range s.ServiceTags {
					cmd, isRoute, meaningful := c14Denote(s.ServiceName, addr, s.ServicePort, t, plain)
					if !isRoute || !meaningful {
						continue
					}
					if isGood(s.ServiceName) {
						must[cmd.String()] = true
					} else {
						may[cmd.String()] = true
					}
				}
			}
		}
		return must, may
	}
	// A watcher may hand over one config per health reply (as fabio does) or withhold a config whose text equals the
	// one it handed over last: each emitted config is matched with a round not older than its predecessor's round
	// (the commands of the well-formed services of that round all present, every other command denoted by a
	// registration of that round); if none matches, it is judged against the earliest admissible round.
	kPrev := 0
	for j, text := range e.relay.SvcSeen {
		if kPrev >= len(rounds) {
			break
		}
		got := map[string]bool{}
		var order []string
		for ln, line := range strings.Split(text, "\n") {
			if strings.TrimSpace(line) == "" {
				continue
			}
			cmds, err := h1ParseCmds(line)
			if err != nil || len(cmds) != 1 {
				r.Fail("generated-command", "rejected-by-parser", "service config #%d line %d is not accepted by fabio's route parser (%v): %.200q", j+1, ln+1, err, line)
				continue
			}
			if _, err := route.NewTable(bytes.NewBufferString(line)); err != nil {
				r.Fail("generated-command", "rejected-by-table", "service config #%d line %d is rejected when the table is built (%v): %.200q", j+1, ln+1, err, line)
				continue
			}
			if !got[cmds[0]] {
				order = append(order, fmt.Sprintf("%d\x00%s\x00%s", ln+1, cmds[0], line))
			}
			got[cmds[0]] = true
		}
		fits := func(must, may map[string]bool) bool {
			for c := range got {
				if !must[c] && !may[c] {
					return false
				}
			}
			for c := range must {
				if !got[c] {
					return false
				}
			}
			return true
		}
		matched := -1
		for k := kPrev; k < len(rounds); k++ {
			if must, may := denote(rounds[k]); fits(must, may) {
				matched = k
				break
			}
		}
		if matched >= 0 {
			if matched > kPrev+1 || (j > 0 && matched > kPrev) {
				r.Probe("config_matches_a_later_round")
			}
			kPrev = matched
			continue
		}
		k := kPrev
		if j > k && j < len(rounds) {
			k = j
		}
		must, may := denote(rounds[k])
		for _, o := range order {
			f := strings.SplitN(o, "\x00", 3)
			if !must[f[1]] && !may[f[1]] {
				r.Fail("generated-command", "denotes-no-registration", "service config #%d line %s denotes %s, which no registration served in round %d (or any later round that fits) denotes: %.200q", j+1, f[0], f[1], k+1, f[2])
			}
		}
		for c := range must {
			if !got[c] {
				r.Fail("isolation", "well-formed-command-missing", "service config #%d lacks the command of a well-formed healthy service (round %d): %s", j+1, k+1, c)
			}
		}
	}

	// (2) isolation: after the quiet period the well-formed services are routed exactly as if the others did not exist
	if !e.wb.Done() {
		nodes, insts, _ := e.sc.Snapshot()
		final := simconsul.New(nil)
		for i := range nodes {
			final.Nodes = append(final.Nodes, &nodes[i])
		}
		for i := range insts {
			if isGood(insts[i].Name) {
				final.Instances = append(final.Instances, &insts[i])
			}
		}
		hv, cats := final.Views()
		text := c01Render(nil, hv, cats, &c01Scenario{Status: []string{"passing"}})
		wantTable, err := route.NewTable(bytes.NewBufferString(text))
		if err != nil {
			r.Trouble("model text does not parse: %v", err)
			return
		}
		var got []string
		for _, l := range c01TableSet(route.GetTable()) {
			if strings.Contains(l, " svc=good") {
				got = append(got, l)
			}
		}
		want := c01TableSet(wantTable)
		sort.Strings(got)
		if strings.Join(got, "\n") != strings.Join(want, "\n") {
			r.Fail("isolation", "well-formed-routes-not-installed", "after %s without changes the routes of the well-formed services are not the ones of the registry:\n got: %s\nwant: %s", quiet, strings.Join(got, " | "), strings.Join(want, " | "))
		}
	} else {
		r.Probe("watchBackend_died")
	}
	r.ProbeN("service_configs", len(e.relay.SvcSeen))
}

func c14Abbrev(sc c14Scenario) c14Scenario {
	ab := func(l []simconsul.Instance) []simconsul.Instance {
		out := make([]simconsul.Instance, len(l))
		for i, in := range l {
			out[i] = in
			out[i].Tags = nil
			for _, t := range in.Tags {
				if len(t) > 200 {
					t = t[:40] + fmt.Sprintf("...(%d chars)", len(t))
				}
				out[i].Tags = append(out[i].Tags, t)
			}
		}
		return out
	}
	sc.Good, sc.Poison = ab(sc.Good), ab(sc.Poison)
	var ops []c01Op
	for _, op := range sc.Ops {
		if op.Inst != nil {
			in := ab([]simconsul.Instance{*op.Inst})[0]
			op.Inst = &in
		}
		ops = append(ops, op)
	}
	sc.Ops = ops
	return sc
}

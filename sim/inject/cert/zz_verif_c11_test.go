//go:build verif

package cert

// C11 — TLS listeners present the best matching current certificate.
//
// Harness H4. Real: NewSource, PathSource/HTTPSource.Certificates, watch,
// loadPath/loadURL, loadCertificates, TLSConfig (store, update goroutine,
// GetCertificate closure), Store, getCertificate. Simulated: the disk behind
// filepath.Walk/os.ReadFile (an in-memory directory), the HTTP certificate
// server behind http.Get, the network of the TLS handshakes (simnet), the clock.
// The HTTP server's responses are streams (c11Body): they arrive in reads of a
// scripted size, may pause on the simulated clock, and may end before the
// announced length with a transport error (states listcut / filecut).
// A third kind of source is cert.ConsulSource: watchKV and getCerts run on a real
// hashicorp/consul/api client whose HTTP transport is a simulated Consul KV endpoint
// (c11KV: indexes, blocking queries with a wait limit, 404 for an empty prefix, 500 /
// transport errors, a restart after which the index starts again from a low value).
//
// One run publishes a history of source states (good certificate sets and
// unusable material) at driver-chosen instants, lets the watcher poll on the
// simulated clock, and performs handshakes - direct calls of the
// tls.Config.GetCertificate closure by statement-level tasks and real crypto/tls
// handshakes over simnet - before, while and after each replacement.
//
// Oracle (written from the property text, see c11Ref and judge):
//   - every handshake result equals the reference choice (exact name, else the
//     wildcard over the first label, else the first certificate by file name, or
//     none under strict matching) for SOME good set that may be current during
//     the call: not older than the set that is guaranteed to be installed at
//     the invocation (published for at least one refresh interval and the system
//     idle again), not newer than the latest set published before the return,
//     not older than what an earlier, already finished handshake saw;
//   - certificates are unique per state, so a certificate of a rejected load, a
//     wrong certificate of the right set or a stale set are all attributable;
//   - the loader (Walk of the certificate directory / GET of the listing / KV list
//     query) is entered at most twice at one simulated instant (a KV query once
//     more for every publication at that instant: a change wakes a blocked query).

import (
	"bytes"
	"crypto/ed25519"
	"crypto/rand"
	"crypto/tls"
	"crypto/x509"
	"crypto/x509/pkix"
	"encoding/json"
	"encoding/pem"
	"errors"
	"fmt"
	"io"
	"math/big"
	"net"
	"net/http"
	"os"
	"path/filepath"
	"reflect"
	"sort"
	"strconv"
	"strings"
	"sync"
	"sync/atomic"
	"syscall"
	"testing/synctest"
	"time"

	"github.com/fabiolb/fabio/config"
	"github.com/fabiolb/fabio/internal/zzverif/simcore"
	"github.com/fabiolb/fabio/internal/zzverif/simhook"
	"github.com/fabiolb/fabio/internal/zzverif/simnet"
	"github.com/hashicorp/consul/api"
)

func init() {
	zzHarnesses = append(zzHarnesses, &simcore.Harness{Name: "c11", Props: []string{"C11"}, Run: runC11})
}

const (
	c11Root     = "/sim/certs"
	c11ListURL  = "http://certs.sim/list"
	c11BaseURL  = "http://certs.sim/"
	c11Addr     = "fabio.sim:443"
	c11KVHost   = "consul.sim:8500"
	c11KVPrefix = "certs/fabio"
	c11KVToken  = "c11-acl-token"
	c11MaxSteps = 60000
	c11SpinAt   = 3  // loader entries at one simulated instant that count as spinning
	c11SpinCap  = 50 // entries at one instant after which the source fails hard so that the run ends
)

// ---------------------------------------------------------------- scenario

type c11Cert struct {
	Stem     string   `json:"stem"`
	Combined bool     `json:"combined_file,omitempty"` // <stem>.pem holding certificate and key; otherwise <stem>-cert.pem / <stem>-key.pem
	CN       string   `json:"cn,omitempty"`
	SANs     []string `json:"sans,omitempty"`
	Chain    bool     `json:"chain,omitempty"` // the certificate file ends with a second CERTIFICATE block (an issuer certificate)
}

func (c c11Cert) certFile() string {
	if c.Combined {
		return c.Stem + ".pem"
	}
	return c.Stem + "-cert.pem"
}

func (c c11Cert) keyFile() string {
	if c.Combined {
		return c.Stem + ".pem"
	}
	return c.Stem + "-key.pem"
}

// dnsNames lists the host names the certificate is issued for.
func (c c11Cert) dnsNames() []string {
	var out []string
	if c.CN != "" && !strings.Contains(c.CN, " ") {
		out = append(out, c.CN)
	}
	for _, s := range c.SANs {
		if s != c.CN {
			out = append(out, s)
		}
	}
	return out
}

type c11Shake struct {
	Name  string `json:"server_name"`
	Form  string `json:"form"` // plain | upper | dot | upper-dot | absent
	Mode  string `json:"mode"` // direct | tls13 | tls12
	Twice bool   `json:"twice,omitempty"`
}

type c11Wave struct {
	Hop    int        `json:"hop"` // clock advance before the wave: 0 one refresh interval, 1 half, 2 two
	Racing []c11Shake `json:"racing,omitempty"`
	Idle   []c11Shake `json:"idle,omitempty"`
}

// c11Xfer scripts how the HTTP certificate server transfers its responses while one
// state is published. The zero value is a server that hands over every body whole.
type c11Xfer struct {
	Piece    int    `json:"read_size,omitempty"`         // most bytes one Read of a body returns (0: as many as asked for)
	EndData  bool   `json:"end_with_data,omitempty"`     // the last bytes come together with io.EOF / the transport error
	NoLength bool   `json:"no_content_length,omitempty"` // chunked: the length is not announced
	StallOn  string `json:"stall_on,omitempty"`          // list | file: this body pauses once
	StallAt  int    `json:"stall_at,omitempty"`          // 0 before the first byte, 1 in the middle, 2 after the last delivered byte
	Stall    string `json:"stall,omitempty"`
	stall    time.Duration
	// listcut / filecut: the body ends early with a transport error
	Err       string `json:"error,omitempty"`      // unexpected-eof | reset | timeout
	CutLines  int    `json:"cut_lines,omitempty"`  // listcut: complete lines of the listing that are delivered
	CutInside bool   `json:"cut_inside,omitempty"` // listcut: plus the first half of the next name
	CutFile   string `json:"cut_file,omitempty"`   // filecut: cert | key file of the victim
	CutAt     int    `json:"cut_at,omitempty"`     // filecut: 0 no byte, 1 half, 2 after a complete PEM block, 3 before the last END line
	CutBlock  int    `json:"cut_block,omitempty"`
	// consul: a blocked query returns once, after this long, although nothing has changed
	Spurious string `json:"spurious_return_after,omitempty"`
	spurious time.Duration
}

type c11State struct {
	Kind      string     `json:"kind"`
	Xfer      *c11Xfer   `json:"transfer,omitempty"`
	Variant   int        `json:"variant,omitempty"`
	Certs     []c11Cert  `json:"certs"`
	Victim    int        `json:"victim,omitempty"`
	Restart   bool       `json:"consul_restart,omitempty"` // consul: the state appears with a restart of the server: pending queries fail, the index starts again from a low value
	Stray     bool       `json:"stray_key,omitempty"`      // consul, kind empty: a key that is no certificate file stays under the prefix
	IdxStep   int        `json:"index_step,omitempty"`     // consul: by how much more than 1 the publication raises the index / after a restart: the new index - 1
	Gap       int        `json:"gap"`                      // before publishing: 0 at once, 1 half an interval later, 2 at the next poll instant before the watcher runs
	GapRacing []c11Shake `json:"gap_racing,omitempty"`
	Waves     []c11Wave  `json:"waves"`
}

func (s *c11State) good() bool { return s.Kind == "good" }

type c11Scenario struct {
	Source     string `json:"source"`                       // path | http | consul
	Token      bool   `json:"acl_token,omitempty"`          // consul: the KV endpoint wants the token that the URL carries
	QueryTime  string `json:"default_query_time,omitempty"` // consul: how long the server holds a blocking query that names no wait time
	queryTime  time.Duration
	Strict     bool   `json:"strict"`
	Refresh    string `json:"refresh"`
	refresh    time.Duration
	DeepYields bool       `json:"yields_inside_loaders,omitempty"`
	Stick      int        `json:"stick"`
	Boot       []c11Shake `json:"boot_racing,omitempty"`
	States     []c11State `json:"states"`
	Final      []c11Shake `json:"final"`
}

var c11Domains = []string{"alpha.test", "beta.test", "gamma.example"}
var c11Hosts = []string{"www", "api", "app"}
var c11Stems = []string{"aa", "bb", "cc", "dd", "ee", "ff"}
var c11PathBad = []string{"brokenpem", "torn", "missingkey", "empty", "noroot", "readerr", "walkerr"}
var c11HTTPBad = []string{"brokenpem", "torn", "missingkey", "empty", "list500", "file500", "list404", "listerr", "fileerr", "listcut", "filecut", "listcut", "filecut"}
var c11KVBad = []string{"brokenpem", "torn", "missingkey", "empty", "kv500", "kverr", "kvcut"}
var c11XferErrs = []string{"unexpected-eof", "reset", "timeout"}

// c11GenKVXfer draws how the simulated Consul transfers its answers while one state is published.
func c11GenKVXfer(g *simcore.Tape, st *c11State, refresh time.Duration) *c11Xfer {
	xf := &c11Xfer{}
	xf.Piece = []int{0, 1, 7, 64, 300}[g.Intn(5)]
	xf.EndData = g.Chance(30)
	xf.NoLength = g.Chance(25)
	if g.Chance(25) {
		// a slow answer: the snapshot is taken, its transfer pauses
		xf.StallOn = "list"
		xf.StallAt = g.Intn(3)
		xf.stall = []time.Duration{refresh / 4, refresh / 2, refresh, 3 * refresh}[g.Intn(4)]
		xf.Stall = xf.stall.String()
	}
	if g.Chance(20) {
		xf.spurious = []time.Duration{refresh / 4, refresh / 2, 2 * refresh}[g.Intn(3)]
		xf.Spurious = xf.spurious.String()
	}
	if st.Kind == "kvcut" {
		xf.Err = simcore.Pick(g, c11XferErrs)
		xf.CutAt = g.Intn(3) // no byte, half, all but the closing bracket
	}
	return xf
}

// c11GenXfer draws the transfer script of one state of an http source.
func c11GenXfer(g *simcore.Tape, st *c11State, refresh time.Duration) *c11Xfer {
	xf := &c11Xfer{}
	xf.Piece = []int{0, 1, 7, 64, 300}[g.Intn(5)]
	xf.EndData = g.Chance(30)
	xf.NoLength = g.Chance(25)
	if g.Chance(20) {
		xf.StallOn = []string{"list", "file"}[g.Intn(2)]
		xf.StallAt = g.Intn(3)
		xf.stall = []time.Duration{refresh / 4, refresh / 2, refresh, 3 * refresh}[g.Intn(4)]
		xf.Stall = xf.stall.String()
	}
	switch st.Kind {
	case "listcut":
		nfiles := 0
		for _, c := range st.Certs {
			nfiles++
			if !c.Combined {
				nfiles++
			}
		}
		xf.Err = simcore.Pick(g, c11XferErrs)
		xf.CutLines = g.Intn(nfiles)
		xf.CutInside = g.Chance(30)
	case "filecut":
		xf.Err = simcore.Pick(g, c11XferErrs)
		xf.CutFile = []string{"cert", "key"}[g.Intn(2)]
		xf.CutAt = g.Intn(4)
		xf.CutBlock = g.Intn(2)
	}
	return xf
}

func c11TakeOne(g *simcore.Tape, xs *[]string) string {
	i := g.Intn(len(*xs))
	v := (*xs)[i]
	*xs = append(append([]string(nil), (*xs)[:i]...), (*xs)[i+1:]...)
	return v
}

func c11GenSet(g *simcore.Tape, idx, maxCerts int) []c11Cert {
	var pool []string
	for _, d := range c11Domains {
		for _, h := range c11Hosts {
			pool = append(pool, h+"."+d)
		}
		pool = append(pool, "*."+d, d)
	}
	stems := append([]string(nil), c11Stems...)
	n := g.Range(1, maxCerts)
	var out []c11Cert
	for k := 0; k < n; k++ {
		c := c11Cert{Stem: c11TakeOne(g, &stems), Combined: g.Bool()}
		c.Chain = g.Chance(25)
		style := g.Intn(3)
		nn := 1
		if style != 2 {
			nn = g.Range(1, 3)
		}
		var names []string
		for j := 0; j < nn; j++ {
			names = append(names, c11TakeOne(g, &pool))
		}
		switch style {
		case 0: // CN repeated in the SAN list
			c.CN, c.SANs = names[0], names
		case 1: // descriptive CN, names in the SAN list only
			c.CN, c.SANs = fmt.Sprintf("c11 state %d %s", idx, c.Stem), names
		case 2: // CN only
			c.CN = names[0]
		}
		out = append(out, c)
	}
	return out
}

func c11GenShake(g *simcore.Tape, universe []string) c11Shake {
	var exact, wild []string
	for _, n := range universe {
		if strings.HasPrefix(n, "*.") {
			wild = append(wild, n)
		} else {
			exact = append(exact, n)
		}
	}
	name := ""
	switch g.Intn(6) {
	case 0:
		if len(exact) > 0 {
			name = simcore.Pick(g, exact)
		}
	case 1:
		name = simcore.Pick(g, c11Hosts) + "." + simcore.Pick(g, c11Domains)
	case 2:
		if len(wild) > 0 {
			name = "zz" + simcore.Pick(g, wild)[1:]
		} else {
			name = "zz." + simcore.Pick(g, c11Domains)
		}
	case 3:
		name = "a.b." + simcore.Pick(g, c11Domains)
	case 4:
		name = "unknown.invalid"
	case 5:
		name = ""
	}
	sh := c11Shake{Mode: []string{"direct", "tls13", "tls12"}[g.Intn(3)], Form: "plain"}
	if name == "" {
		sh.Form = "absent"
		return sh
	}
	form := g.Intn(4)
	if sh.Mode != "direct" && form >= 2 {
		// a TLS client never sends the trailing dot (RFC 6066); only direct calls carry it
		form -= 2
	}
	switch form {
	case 1:
		sh.Form, name = "upper", strings.ToUpper(name)
	case 2:
		sh.Form, name = "dot", name+"."
	case 3:
		sh.Form, name = "upper-dot", strings.ToUpper(name[:1])+name[1:len(name)-1]+strings.ToUpper(name[len(name)-1:])+"."
	}
	sh.Name = name
	if sh.Mode == "direct" {
		sh.Twice = g.Chance(30)
	}
	return sh
}

func c11Gen(g *simcore.Tape, thorough bool) *c11Scenario {
	sc := &c11Scenario{}
	sc.Source = []string{"path", "http", "consul"}[g.Intn(3)]
	sc.Strict = g.Bool()
	sc.refresh = []time.Duration{time.Second, 3 * time.Second, 0}[g.Intn(3)]
	if sc.Source == "consul" {
		// the consul source has no refresh interval: it watches the prefix with blocking queries and
		// waits a second after a failed one; that second is the unit of this run's time line
		sc.refresh = time.Second
		sc.Token = g.Bool()
		sc.queryTime = []time.Duration{4 * time.Second, 10 * time.Second, 5 * time.Minute}[g.Intn(3)]
		sc.QueryTime = sc.queryTime.String()
	}
	sc.Refresh = sc.refresh.String()
	sc.DeepYields = g.Chance(20)
	sc.Stick = []int{1, 1, 3, 8}[g.Intn(4)]
	maxStates, maxCerts := 5, 4
	if thorough {
		maxStates, maxCerts = 7, 5
	}
	ns := g.Range(2, maxStates)
	bad := c11PathBad
	if sc.Source == "http" {
		bad = c11HTTPBad
	}
	if sc.Source == "consul" {
		bad = c11KVBad
	}
	for i := 0; i < ns; i++ {
		st := c11State{Kind: "good"}
		pct := 45
		if i == 0 {
			pct = 15
		}
		if g.Chance(pct) {
			st.Kind = simcore.Pick(g, bad)
			st.Variant = g.Intn(4)
		}
		if i > 0 && g.Chance(25) {
			// renewal: same names and file names, new material
			for _, c := range sc.States[i-1].Certs {
				c.SANs = append([]string(nil), c.SANs...)
				st.Certs = append(st.Certs, c)
			}
		} else {
			st.Certs = c11GenSet(g, i, maxCerts)
		}
		st.Victim = g.Intn(len(st.Certs))
		if st.Kind == "missingkey" {
			st.Certs[st.Victim].Combined = false
		}
		if i > 0 {
			st.Gap = g.Intn(3)
		}
		if sc.Source == "http" {
			st.Xfer = c11GenXfer(g, &st, sc.reff())
		}
		if sc.Source == "consul" {
			st.Xfer = c11GenKVXfer(g, &st, sc.reff())
			st.IdxStep = g.Intn(3)
			st.Restart = i > 0 && g.Chance(20)
			st.Stray = st.Kind == "empty" && st.Variant%2 == 1
		}
		nw := g.Range(1, 2)
		for w := 0; w < nw; w++ {
			st.Waves = append(st.Waves, c11Wave{Hop: g.Intn(3)})
		}
		sc.States = append(sc.States, st)
	}
	seen := map[string]bool{}
	var universe []string
	for _, st := range sc.States {
		for _, c := range st.Certs {
			for _, n := range c.dnsNames() {
				if !seen[n] {
					seen[n] = true
					universe = append(universe, n)
				}
			}
		}
	}
	sort.Strings(universe)
	shakes := func(lo, hi int) []c11Shake {
		var out []c11Shake
		for n := g.Range(lo, hi); n > 0; n-- {
			out = append(out, c11GenShake(g, universe))
		}
		return out
	}
	sc.Boot = shakes(0, 2)
	for i := range sc.States {
		st := &sc.States[i]
		if st.Gap == 2 {
			st.GapRacing = shakes(0, 3)
		}
		for w := range st.Waves {
			st.Waves[w].Racing = shakes(0, 3)
			st.Waves[w].Idle = shakes(0, 2)
		}
	}
	sc.Final = shakes(1, 3)
	return sc
}

// ---------------------------------------------------------------- certificate material (process-wide cache)

type c11Mat struct {
	certPEM, keyPEM []byte
	der             []byte
}

var (
	c11MatMu    sync.Mutex
	c11MatCache = map[string]*c11Mat{}
)

// c11Material returns an Ed25519 certificate (fixed-length keys and signatures)
// for c; tag makes the material unique per state and variant.
func c11Material(tag string, c c11Cert) *c11Mat {
	key := tag + "|" + c.CN + "|" + strings.Join(c.SANs, ",")
	c11MatMu.Lock()
	defer c11MatMu.Unlock()
	if m := c11MatCache[key]; m != nil {
		return m
	}
	pub, priv, err := ed25519.GenerateKey(rand.Reader)
	if err != nil {
		panic(err)
	}
	tmpl := &x509.Certificate{SerialNumber: big.NewInt(11), Subject: pkix.Name{CommonName: c.CN, Organization: []string{tag}},
		NotBefore: time.Date(1999, 1, 1, 0, 0, 0, 0, time.UTC), NotAfter: time.Date(2100, 1, 1, 0, 0, 0, 0, time.UTC),
		DNSNames: c.SANs, KeyUsage: x509.KeyUsageDigitalSignature, ExtKeyUsage: []x509.ExtKeyUsage{x509.ExtKeyUsageServerAuth}, BasicConstraintsValid: true}
	der, err := x509.CreateCertificate(rand.Reader, tmpl, tmpl, pub, priv)
	if err != nil {
		panic(err)
	}
	pk, err := x509.MarshalPKCS8PrivateKey(priv)
	if err != nil {
		panic(err)
	}
	m := &c11Mat{der: der,
		certPEM: pem.EncodeToMemory(&pem.Block{Type: "CERTIFICATE", Bytes: der}),
		keyPEM:  pem.EncodeToMemory(&pem.Block{Type: "PRIVATE KEY", Bytes: pk})}
	c11MatCache[key] = m
	return m
}

// ---------------------------------------------------------------- source images

// c11Image is what the source holds while one state is published. A load sees
// exactly one image: it is pinned when the loader enters (Walk / GET of the listing).
type c11Image struct {
	state      int
	kind       string
	exists     bool
	files      map[string][]byte
	order      []string // lexical, like filepath.Walk and `ls -1`
	readErr    string   // file whose read (path) or GET (http) fails
	walkErr    string   // directory entry for which Walk reports an error
	listStatus int
	listErr    bool
	fileStatus map[string]int
	xfer       c11Xfer        // how the http server transfers this state's responses
	cut        map[string]int // response bodies ("" is the listing) that end after so many bytes with xfer's transport error
	stallFile  string         // the file whose body pauses under xfer.StallOn == "file"
}

// listing is the text file the http source is pointed at: one file name per line.
func (im *c11Image) listing() []byte {
	var b bytes.Buffer
	for _, n := range im.order {
		b.WriteString(n + "\n")
	}
	return b.Bytes()
}

// c11BlockEnds returns the offsets just behind every complete PEM block of b.
func c11BlockEnds(b []byte) []int {
	var ends []int
	off := 0
	for _, line := range bytes.SplitAfter(b, []byte("\n")) {
		off += len(line)
		if bytes.HasPrefix(line, []byte("-----END ")) {
			ends = append(ends, off)
		}
	}
	return ends
}

type c11Owner struct{ state, cert int }

func c11BuildImage(idx int, st *c11State, set []c11Cert, owner map[string]c11Owner) *c11Image {
	im := &c11Image{state: idx, kind: st.Kind, exists: true, files: map[string][]byte{}, fileStatus: map[string]int{}, cut: map[string]int{}}
	if st.Xfer != nil {
		im.xfer = *st.Xfer
	}
	victimStem := st.Certs[st.Victim].Stem
	cutFile := ""
	for k, c := range set {
		tag := fmt.Sprintf("s%d/%s", idx, c.Stem)
		m := c11Material(tag, c)
		owner[string(m.der)] = c11Owner{idx, k}
		certPEM, keyPEM := m.certPEM, m.keyPEM
		dropKey := false
		if c.Stem == victimStem {
			switch st.Kind {
			case "torn": // the key has been replaced, the certificate not yet
				m2 := c11Material(tag+"/b", c)
				owner[string(m2.der)] = c11Owner{idx, k}
				keyPEM = m2.keyPEM
			case "brokenpem":
				switch st.Variant {
				case 0:
					certPEM = certPEM[:len(certPEM)/2]
				case 1:
					certPEM = []byte("this is not a certificate\n")
				case 2:
					certPEM = []byte{}
				case 3:
					certPEM = keyPEM
				}
			case "missingkey":
				dropKey = true
			case "readerr", "fileerr":
				im.readErr = c.certFile()
			case "walkerr":
				im.walkErr = c.certFile()
			case "file500":
				im.fileStatus[c.certFile()] = 500
			case "filecut":
				cutFile = c.certFile()
				if im.xfer.CutFile == "key" {
					cutFile = c.keyFile()
				}
			}
			im.stallFile = c.certFile()
			if cutFile != "" {
				im.stallFile = cutFile
			}
		}
		var chainPEM []byte
		if c.Chain {
			// an issuer certificate behind the leaf (and behind the key in a combined file); it is never a leaf itself
			chainPEM = c11Material(tag+"/chain", c11Cert{CN: "c11 issuer of " + tag}).certPEM
		}
		if c.Combined {
			im.files[c.certFile()] = append(append(append([]byte(nil), certPEM...), keyPEM...), chainPEM...)
		} else {
			im.files[c.certFile()] = append(append([]byte(nil), certPEM...), chainPEM...)
			if !dropKey {
				im.files[c.keyFile()] = keyPEM
			}
		}
	}
	if cutFile != "" {
		// the body of this file ends early: at least a part of its last END line is always lost
		b := im.files[cutFile]
		ends := c11BlockEnds(b)
		n := 0
		switch im.xfer.CutAt {
		case 1:
			n = len(b) / 2
		case 2:
			if len(ends) > 1 {
				n = ends[im.xfer.CutBlock%(len(ends)-1)]
				break
			}
			fallthrough
		case 3:
			n = bytes.LastIndex(b, []byte("-----END "))
		}
		im.cut[cutFile] = n
	}
	switch st.Kind {
	case "empty":
		im.files = map[string][]byte{}
		if st.Stray {
			im.files["README"] = []byte("certificates of the edge listeners; rotated by the deploy job\n")
		}
	case "noroot":
		im.exists, im.files = false, map[string][]byte{}
	case "list500":
		im.listStatus = 500
	case "list404":
		im.listStatus = 404
	case "listerr":
		im.listErr = true
	}
	for n := range im.files {
		im.order = append(im.order, n)
	}
	sort.Strings(im.order)
	if st.Kind == "listcut" && len(im.order) > 0 {
		// the listing ends early: at least one name is lost or damaged
		k := im.xfer.CutLines % len(im.order)
		n := 0
		for _, name := range im.order[:k] {
			n += len(name) + 1
		}
		if im.xfer.CutInside {
			n += (len(im.order[k]) + 1) / 2
		}
		im.cut[""] = n
	}
	return im
}

// ---------------------------------------------------------------- reference selection (from the property text)

// c11Ref returns the index (in file-name order) of the certificate a client asking
// for name must be presented from set, or -1 for none, and how it was chosen.
func c11Ref(set []c11Cert, name string, strict bool) (int, string) {
	n := strings.TrimRight(strings.ToLower(name), ".")
	if n != "" {
		for i, c := range set {
			for _, cn := range c.dnsNames() {
				if strings.ToLower(cn) == n {
					return i, "exact"
				}
			}
		}
		if dot := strings.IndexByte(n, '.'); dot > 0 {
			w := "*" + n[dot:]
			for i, c := range set {
				for _, cn := range c.dnsNames() {
					if strings.ToLower(cn) == w {
						return i, "wildcard"
					}
				}
			}
		}
	}
	if strict || len(set) == 0 {
		return -1, "none"
	}
	return 0, "default"
}

// ---------------------------------------------------------------- run state

type c11Op struct {
	id       int
	sh       c11Shake
	wave     string
	lo       int
	inv, ret int
	done     bool
	judged   bool
	none     bool
	empty    bool // a direct call was told that the store holds nothing at all (classification only)
	der      []byte
	err      string
}

type c11Tap struct {
	Source
	x  *c11Run
	ch chan []tls.Certificate
}

func (t *c11Tap) Certificates() chan []tls.Certificate {
	if cs, ok := t.Source.(ConsulSource); ok {
		t.ch = t.x.consulCertificates(cs)
		return t.ch
	}
	t.ch = t.Source.Certificates()
	return t.ch
}

// consulCertificates does what ConsulSource.Certificates does - parse the URL, build the
// api client, start watchKV and the goroutine that turns each delivered KV snapshot into
// certificates - with the one difference that the api client is given an http.Client whose
// transport is the simulated KV endpoint: ConsulSource.Certificates offers no seam for
// that (api.NewClient builds a private transport with a real dialer). parseConsulURL,
// watchKV, getCerts and loadCertificates are fabio's; the two goroutines are tasks.
func (x *c11Run) consulCertificates(s ConsulSource) chan []tls.Certificate {
	ch := make(chan []tls.Certificate, 1)
	config, key, err := parseConsulURL(s.CertURL)
	if err != nil {
		x.r.Trouble("parseConsulURL(%q): %v", s.CertURL, err)
		return ch
	}
	config.HttpClient = &http.Client{Transport: c11KV{x}}
	client, err := api.NewClient(config)
	if err != nil {
		x.r.Trouble("api.NewClient: %v", err)
		return ch
	}
	pemBlocksCh := make(chan map[string][]byte, 1)
	x.kvBlocks = pemBlocksCh
	x.kvWatch = x.d.Sim.Spawn("kvwatch", func() { watchKV(client, key, pemBlocksCh) })
	x.kvConv = x.d.Sim.Spawn("kvconv", func() {
		for pemBlocks := range pemBlocksCh {
			certs, err := x.loadCertificates(pemBlocks)
			if err != nil {
				continue
			}
			ch <- certs
		}
	})
	return ch
}

// loadCertificates calls cert.loadCertificates the way ConsulSource.Certificates does. The call goes
// through reflection so that a tree in which the function has got further parameters (they get zero
// values, as a caller with nothing to pass on would give) still builds: this copy of the method body
// must not turn a change elsewhere in the package into a build failure of the harness.
func (x *c11Run) loadCertificates(pemBlocks map[string][]byte) ([]tls.Certificate, error) {
	f := reflect.ValueOf(loadCertificates)
	ft := f.Type()
	args := make([]reflect.Value, ft.NumIn())
	given := false
	for i := range args {
		if ft.In(i) == reflect.TypeOf(pemBlocks) && !given {
			args[i], given = reflect.ValueOf(pemBlocks), true
		} else {
			args[i] = reflect.Zero(ft.In(i))
		}
	}
	if !given || ft.IsVariadic() || ft.NumOut() != 2 {
		x.r.Trouble("cert.loadCertificates has the unexpected type %s", ft)
		return nil, errors.New("c11: cannot call loadCertificates")
	}
	out := f.Call(args)
	certs, ok := out[0].Interface().([]tls.Certificate)
	if !ok {
		x.r.Trouble("cert.loadCertificates has the unexpected type %s", ft)
		return nil, errors.New("c11: cannot call loadCertificates")
	}
	if err, _ := out[1].Interface().(error); err != nil {
		return certs, err
	}
	return certs, nil
}

type c11Run struct {
	r   *simcore.Run
	d   *simcore.Driver
	sc  *c11Scenario
	net *simnet.Net
	ln  *simnet.Listener

	sets   [][]c11Cert // per state, ordered by certificate file name
	images []*c11Image
	owner  map[string]c11Owner

	cur   int // index of the published state
	pubAt time.Time
	pin   *c11Image
	L     int // index of the good state guaranteed to be installed (-1: none yet)
	floor int // newest set a finished handshake has provably seen

	cfg *tls.Config
	tap *c11Tap

	mu     sync.Mutex
	ops    []*c11Op
	ticks  int
	steps  int
	nextID int

	lastEntry   time.Time
	sameInstant int
	entries     int
	spun        bool
	lost        bool // the working set has been reported lost and not been seen again
	faulted     map[int]bool
	stop        chan struct{} // closed at teardown: ends the pauses of response bodies
	over        atomic.Bool   // teardown has begun
	pmu         sync.Mutex
	paused      map[*c11Body]time.Time // response bodies that stand in a pause right now, and when each goes on
	pauses      atomic.Int32           // statistics: pauses begun, transport errors handed to a reader
	cuts        atomic.Int32

	// consul source: the simulated KV endpoint
	kmu           sync.Mutex
	kvIndex       uint64        // X-Consul-Index of the watched prefix
	kvHigh        uint64        // highest index of any earlier publication
	kvNeedWait    bool          // the current state appeared with an index that is not above every earlier one
	kvChanged     chan struct{} // closed (and replaced) by every publication
	kvEpoch       int           // restarts so far
	kvSpurUsed    map[int]bool
	kvWatch       *simhook.Task
	kvConv        *simhook.Task
	kvBlocks      chan map[string][]byte
	pubInstant    time.Time
	pubsAtInstant int
	kvWoken       atomic.Int32 // statistics
	kvTimeouts    atomic.Int32
	kvSpurious    atomic.Int32
	kvBroken      atomic.Int32
	kvLate        atomic.Int32
}

func (x *c11Run) consul() bool { return x.sc.Source == "consul" }

// need is how long a state must have been offered before it counts as in effect.
func (x *c11Run) need() time.Duration {
	d := x.reff() + x.slack()
	if x.consul() && x.kvNeedWait {
		// a watcher that still asks for changes after an index of the time before the restart is
		// answered when the server's wait limit for blocking queries is reached. Its query arrives at
		// most five seconds after the publication: the broken query wakes it, it pauses a second and
		// asks again, and after each of the two wake-ups it may stand for one clock advance of this
		// driver (two seconds at most) before it goes on
		d += x.sc.queryTime + 4*x.reff()
	}
	return d
}

// slack is the longest time for which a load that was already under way when the
// current state appeared (a load of an earlier state) can still be held up by the
// transfer: one response of a state pauses, once per load.
func (x *c11Run) slack() time.Duration {
	var before time.Duration
	for j := 0; j < x.cur; j++ {
		if d := x.images[j].xfer.stall; d > before {
			before = d
		}
	}
	return before
}

// pause notes that b stands in a pause until at (zero: it goes on now).
func (x *c11Run) pause(b *c11Body, at time.Time) {
	x.pmu.Lock()
	defer x.pmu.Unlock()
	if at.IsZero() {
		delete(x.paused, b)
		return
	}
	x.paused[b] = at
	x.pauses.Add(1)
}

// transferring reports, at a quiescent point, whether a load is being held up by a pausing response.
func (x *c11Run) transferring() bool {
	_, ok := x.resumes()
	return ok
}

// resumes returns the instant at which the next pausing response goes on.
func (x *c11Run) resumes() (at time.Time, ok bool) {
	x.pmu.Lock()
	defer x.pmu.Unlock()
	for _, t := range x.paused {
		if !ok || t.Before(at) {
			at, ok = t, true
		}
	}
	return at, ok
}

func (x *c11Run) tick() int {
	x.mu.Lock()
	defer x.mu.Unlock()
	x.ticks++
	return x.ticks
}

func (x *c11Run) reff() time.Duration { return x.sc.reff() }

// reff is the interval at which the watcher polls (fabio documents one second as the least).
func (sc *c11Scenario) reff() time.Duration {
	if sc.refresh < time.Second {
		return time.Second
	}
	return sc.refresh
}

// ---- the loader seam: simulated directory and certificate server

var errC11Spin = errors.New("c11: loader re-entered too often at one simulated instant")

// enter counts one loader entry and pins the published image for this load.
func (x *c11Run) enter(how string) (*c11Image, error) {
	now := time.Now()
	if now.Equal(x.lastEntry) {
		x.sameInstant++
	} else {
		x.lastEntry, x.sameInstant = now, 1
	}
	x.entries++
	im := x.images[x.cur]
	x.pin = im
	x.r.Tracef("load %s state=%d kind=%s nth-at-instant=%d", how, im.state, im.kind, x.sameInstant)
	if im.kind != "good" && !x.faulted[im.state] {
		x.faulted[im.state] = true
		x.r.Fault("source_" + im.kind)
	}
	if x.sameInstant == c11SpinAt {
		x.spun = true
		x.r.Fail("spin", im.kind, "the certificate loader was entered %d times at the simulated instant %s while the source held state %d (%s): the watcher reloads without sleeping",
			x.sameInstant, now.Format("15:04:05.000"), im.state, im.kind)
	}
	if x.sameInstant >= c11SpinCap {
		return im, errC11Spin
	}
	return im, nil
}

type c11FI struct {
	name string
	size int64
	dir  bool
}

func (f c11FI) Name() string { return f.name }
func (f c11FI) Size() int64  { return f.size }
func (f c11FI) Mode() os.FileMode {
	if f.dir {
		return os.ModeDir | 0o755
	}
	return 0o644
}
func (f c11FI) ModTime() time.Time { return time.Time{} }
func (f c11FI) IsDir() bool        { return f.dir }
func (f c11FI) Sys() any           { return nil }

func (x *c11Run) Walk(root string, fn filepath.WalkFunc) error {
	missing := func() error {
		err := fn(root, nil, &os.PathError{Op: "lstat", Path: root, Err: syscall.ENOENT})
		if err == filepath.SkipDir || err == filepath.SkipAll {
			return nil
		}
		return err
	}
	if root != c11Root {
		return missing()
	}
	im, err := x.enter("walk")
	if err != nil {
		return err
	}
	if !im.exists {
		return missing()
	}
	if err := fn(root, c11FI{name: filepath.Base(root), dir: true}, nil); err != nil {
		if err == filepath.SkipDir || err == filepath.SkipAll {
			return nil
		}
		return err
	}
	for _, name := range im.order {
		p := filepath.Join(root, name)
		var err error
		if name == im.walkErr {
			err = fn(p, nil, &os.PathError{Op: "lstat", Path: p, Err: syscall.EIO})
		} else {
			err = fn(p, c11FI{name: name, size: int64(len(im.files[name]))}, nil)
		}
		if err == filepath.SkipDir {
			continue
		}
		if err == filepath.SkipAll {
			return nil
		}
		if err != nil {
			return err
		}
	}
	return nil
}

func (x *c11Run) ReadFile(path string) ([]byte, error) {
	im := x.pin
	if im == nil || filepath.Dir(path) != c11Root {
		return nil, &os.PathError{Op: "open", Path: path, Err: syscall.ENOENT}
	}
	name := filepath.Base(path)
	if name == im.readErr {
		return nil, &os.PathError{Op: "read", Path: path, Err: syscall.EIO}
	}
	b, ok := im.files[name]
	if !ok {
		return nil, &os.PathError{Op: "open", Path: path, Err: syscall.ENOENT}
	}
	return append([]byte{}, b...), nil
}

func (x *c11Run) Stat(path string) (os.FileInfo, error) {
	if path == c11Root && x.images[x.cur].exists {
		return c11FI{name: filepath.Base(path), dir: true}, nil
	}
	if im := x.images[x.cur]; filepath.Dir(path) == c11Root {
		if b, ok := im.files[filepath.Base(path)]; ok {
			return c11FI{name: filepath.Base(path), size: int64(len(b))}, nil
		}
	}
	return nil, &os.PathError{Op: "stat", Path: path, Err: syscall.ENOENT}
}

// c11Body is the body of one response of the simulated certificate server: a stream
// that arrives in reads of a scripted size, may pause once on the simulated clock and
// ends with io.EOF or - before the announced length - with a transport error.
type c11Body struct {
	data    []byte // the bytes that arrive
	off     int
	piece   int
	end     error // io.EOF, or the error of a transfer that was cut short
	endData bool  // the last bytes are returned together with end
	stallAt int   // offset at which the transfer pauses (-1: never)
	stall   time.Duration
	x       *c11Run
}

var errC11Over = errors.New("c11: the simulation is over")

func (b *c11Body) Read(p []byte) (int, error) {
	if len(p) == 0 {
		return 0, nil
	}
	if b.stallAt >= 0 && b.off >= b.stallAt {
		b.stallAt = -1
		t := time.NewTimer(b.stall)
		b.x.pause(b, time.Now().Add(b.stall))
		select {
		case <-t.C:
		case <-b.x.stop:
			t.Stop()
		}
		b.x.pause(b, time.Time{})
	}
	select {
	case <-b.x.stop:
		return 0, errC11Over
	default:
	}
	n := len(b.data) - b.off
	if n == 0 {
		if b.end != io.EOF {
			b.x.cuts.Add(1)
		}
		return 0, b.end
	}
	if b.piece > 0 && n > b.piece {
		n = b.piece
	}
	if b.stallAt > b.off && n > b.stallAt-b.off {
		n = b.stallAt - b.off
	}
	if n > len(p) {
		n = len(p)
	}
	copy(p, b.data[b.off:b.off+n])
	b.off += n
	if b.off == len(b.data) && b.endData && b.stallAt < 0 {
		if b.end != io.EOF {
			b.x.cuts.Add(1)
		}
		return n, b.end
	}
	return n, nil
}

func (b *c11Body) Close() error { return nil }

func c11TransportErr(kind string) error {
	switch kind {
	case "reset":
		return &net.OpError{Op: "read", Net: "tcp", Err: syscall.ECONNRESET}
	case "timeout":
		return &net.OpError{Op: "read", Net: "tcp", Err: os.ErrDeadlineExceeded}
	}
	return io.ErrUnexpectedEOF
}

// response builds the answer to one GET while im is pinned; what is "" for the listing, a file name, or "-" for an error page.
func (x *c11Run) response(im *c11Image, what string, status int, body []byte) *http.Response {
	b := &c11Body{data: body, end: io.EOF, stallAt: -1, x: x}
	length := int64(len(body))
	if im != nil {
		xf := &im.xfer
		b.piece, b.endData = xf.Piece, xf.EndData
		if xf.NoLength {
			length = -1
		}
		if n, ok := im.cut[what]; ok && status == 200 {
			// the announced length (if any) is that of the whole body; the connection dies after n bytes
			b.data, b.end = body[:n], c11TransportErr(xf.Err)
		}
		if status == 200 && xf.stall > 0 && (xf.StallOn == "list" && what == "" || xf.StallOn == "file" && what != "" && what == im.stallFile) {
			b.stall = xf.stall
			b.stallAt = []int{0, len(b.data) / 2, len(b.data)}[xf.StallAt]
		}
	}
	h := http.Header{"Content-Type": []string{"text/plain; charset=utf-8"}}
	resp := &http.Response{StatusCode: status, Status: fmt.Sprintf("%d %s", status, http.StatusText(status)), Proto: "HTTP/1.1", ProtoMajor: 1, ProtoMinor: 1,
		Header: h, Body: b, ContentLength: length}
	if length < 0 {
		resp.TransferEncoding = []string{"chunked"}
	} else {
		h.Set("Content-Length", fmt.Sprint(length))
	}
	return resp
}

func (x *c11Run) errorPage(im *c11Image, status int) *http.Response {
	if status == 404 {
		return x.response(im, "-", 404, []byte("404 page not found\n"))
	}
	return x.response(im, "-", status, []byte(http.StatusText(status)+"\n"))
}

func (x *c11Run) httpGet(url string) (*http.Response, error) {
	if x.over.Load() {
		// teardown: the server is gone, nothing is transferred any more
		return nil, &net.OpError{Op: "dial", Net: "tcp", Err: syscall.ECONNREFUSED}
	}
	if url == c11ListURL {
		im, err := x.enter("list")
		if err != nil {
			return nil, err
		}
		if im.listErr {
			return nil, &net.OpError{Op: "dial", Net: "tcp", Err: syscall.ECONNREFUSED}
		}
		if im.listStatus != 0 {
			return x.errorPage(im, im.listStatus), nil
		}
		return x.response(im, "", 200, im.listing()), nil
	}
	im := x.pin
	name, ok := strings.CutPrefix(url, c11BaseURL)
	if im == nil || !ok || name == "" {
		return x.errorPage(im, 404), nil
	}
	if name == im.readErr {
		return nil, &net.OpError{Op: "read", Net: "tcp", Err: syscall.ECONNRESET}
	}
	if st := im.fileStatus[name]; st != 0 {
		return x.errorPage(im, st), nil
	}
	b, ok := im.files[name]
	if !ok {
		return x.errorPage(im, 404), nil
	}
	return x.response(im, name, 200, b), nil
}

// ---- the simulated Consul KV endpoint (consul source)

// enterKV counts one KV list query as a loader entry. A publication wakes a blocked
// query, so every publication at one instant legitimately allows one more entry.
func (x *c11Run) enterKV() error {
	now := time.Now()
	if now.Equal(x.lastEntry) {
		x.sameInstant++
	} else {
		x.lastEntry, x.sameInstant = now, 1
	}
	x.entries++
	n := x.sameInstant
	if now.Equal(x.pubInstant) {
		n -= x.pubsAtInstant
	}
	x.kmu.Lock()
	im := x.images[x.cur]
	x.kmu.Unlock()
	x.r.Tracef("load kv state=%d kind=%s nth-at-instant=%d", im.state, im.kind, x.sameInstant)
	if n >= c11SpinAt && !x.spun {
		x.spun = true
		x.r.Fail("spin", im.kind, "the KV prefix was queried %d times at the simulated instant %s while the source held state %d (%s): the watcher queries again without waiting",
			x.sameInstant, now.Format("15:04:05.000"), im.state, im.kind)
	}
	if x.sameInstant >= c11SpinCap {
		return errC11Spin
	}
	return nil
}

type c11KV struct{ x *c11Run }

func (k c11KV) RoundTrip(req *http.Request) (*http.Response, error) {
	x := k.x
	if req.Body != nil {
		req.Body.Close()
	}
	if x.over.Load() || req.URL.Host != c11KVHost {
		return nil, &net.OpError{Op: "dial", Net: "tcp", Err: syscall.ECONNREFUSED}
	}
	q := req.URL.Query()
	_, recurse := q["recurse"]
	if req.Method != http.MethodGet || req.URL.Path != "/v1/kv/"+c11KVPrefix || !recurse {
		// not a listing of the prefix under which the certificates are stored: nothing is there
		x.kmu.Lock()
		idx := x.kvIndex
		x.kmu.Unlock()
		return x.kvResponse(req, nil, 404, idx, nil), nil
	}
	if err := x.enterKV(); err != nil {
		return nil, err
	}
	var after uint64
	if v := q.Get("index"); v != "" {
		after, _ = strconv.ParseUint(v, 10, 64)
	}
	wait := x.sc.queryTime
	if v := q.Get("wait"); v != "" {
		if d, err := time.ParseDuration(v); err == nil && d > 0 {
			wait = d
		}
	}
	x.kmu.Lock()
	epoch := x.kvEpoch
	x.kmu.Unlock()
	var limit, spur *time.Timer
	var spurC <-chan time.Time
	defer func() {
		if limit != nil {
			limit.Stop()
		}
		if spur != nil {
			spur.Stop()
		}
	}()
	early := false
	for {
		x.kmu.Lock()
		idx, changed, ep, im := x.kvIndex, x.kvChanged, x.kvEpoch, x.images[x.cur]
		x.kmu.Unlock()
		if ep != epoch {
			// the server went away under the pending query
			x.kvBroken.Add(1)
			return nil, io.ErrUnexpectedEOF
		}
		if after == 0 || idx > after || early || im.kind == "kv500" || im.kind == "kverr" {
			return x.kvAnswer(req, im, idx)
		}
		if limit == nil {
			limit = time.NewTimer(wait)
			x.kmu.Lock()
			if im.xfer.spurious > 0 && !x.kvSpurUsed[im.state] {
				x.kvSpurUsed[im.state] = true
				spur = time.NewTimer(im.xfer.spurious)
				spurC = spur.C
			}
			x.kmu.Unlock()
		}
		select {
		case <-changed:
			x.kvWoken.Add(1)
		case <-limit.C:
			x.kvTimeouts.Add(1)
			if idx < after {
				x.kvLate.Add(1)
			}
			early = true
		case <-spurC:
			x.kvSpurious.Add(1)
			early = true
		case <-x.stop:
			return nil, errC11Over
		}
	}
}

// kvAnswer answers a KV list query from image im (the state published right now).
func (x *c11Run) kvAnswer(req *http.Request, im *c11Image, idx uint64) (*http.Response, error) {
	if im.kind != "good" && !x.faulted[im.state] {
		x.faulted[im.state] = true
		x.r.Fault("source_" + im.kind)
	}
	x.r.Tracef("kv answer state=%d kind=%s index=%d", im.state, im.kind, idx)
	switch {
	case im.kind == "kverr":
		return nil, &net.OpError{Op: "read", Net: "tcp", Err: syscall.ECONNRESET}
	case im.kind == "kv500":
		return x.kvResponse(req, im, 500, idx, []byte("rpc error making call: No cluster leader")), nil
	case x.sc.Token && req.Header.Get("X-Consul-Token") != c11KVToken:
		return x.kvResponse(req, im, 403, idx, []byte("Permission denied: ACL not found")), nil
	case len(im.order) == 0:
		return x.kvResponse(req, im, 404, idx, nil), nil
	}
	pairs := make([]*api.KVPair, 0, len(im.order))
	for _, name := range im.order {
		pairs = append(pairs, &api.KVPair{Key: c11KVPrefix + "/" + name, Value: im.files[name], CreateIndex: idx, ModifyIndex: idx})
	}
	body, err := json.Marshal(pairs)
	if err != nil {
		x.r.Trouble("kv json: %v", err)
	}
	if im.kind == "kvcut" {
		// the answer ends early: at least the closing bracket is lost
		im.cut[""] = []int{0, len(body) / 2, len(body) - 1}[im.xfer.CutAt%3]
	}
	return x.kvResponse(req, im, 200, idx, body), nil
}

func (x *c11Run) kvResponse(req *http.Request, im *c11Image, status int, idx uint64, body []byte) *http.Response {
	what := "-"
	if status == 200 {
		what = ""
	}
	resp := x.response(im, what, status, body)
	resp.Request = req
	resp.Header.Set("Content-Type", "application/json")
	resp.Header.Set("X-Consul-Index", strconv.FormatUint(idx, 10))
	resp.Header.Set("X-Consul-Knownleader", "true")
	resp.Header.Set("X-Consul-Lastcontact", "0")
	return resp
}

// publishKV makes state i the content of the watched prefix: one transaction, one new index.
func (x *c11Run) publishKV(i int) {
	st := &x.sc.States[i]
	now := time.Now()
	if now.Equal(x.pubInstant) {
		x.pubsAtInstant++
	} else {
		x.pubInstant, x.pubsAtInstant = now, 1
	}
	x.kmu.Lock()
	x.cur = i
	if st.Restart {
		x.kvEpoch++
		x.kvIndex = 1 + uint64(st.IdxStep)
	} else {
		x.kvIndex += 1 + uint64(st.IdxStep)
	}
	x.kvNeedWait = x.kvIndex <= x.kvHigh
	if x.kvIndex > x.kvHigh {
		x.kvHigh = x.kvIndex
	}
	idx := x.kvIndex
	close(x.kvChanged)
	x.kvChanged = make(chan struct{})
	x.kmu.Unlock()
	x.r.Tracef("kv index=%d restart=%v", idx, st.Restart)
	if st.Restart {
		x.r.Fault("consul_restart_index_backwards")
	}
	synctest.Wait() // a query that this wakes has been answered and its reader stands at a statement again
}

// ---- driving

func (x *c11Run) publish(i int) {
	x.pubAt = time.Now()
	st := &x.sc.States[i]
	x.r.Tracef("publish state=%d kind=%s certs=%d", i, st.Kind, len(st.Certs))
	x.r.Probe("state_" + st.Kind)
	if x.consul() {
		x.publishKV(i)
		return
	}
	x.cur = i
	if im := x.images[i]; len(im.cut) > 0 {
		for what, n := range im.cut { // one entry
			body := im.listing()
			if what != "" {
				body = im.files[what]
			}
			switch {
			case n == 0:
				x.r.Probe("cut_before_first_byte")
			case body[n-1] == '\n' && what == "":
				x.r.Probe("cut_listing_at_line_boundary")
			case what == "":
				x.r.Probe("cut_listing_inside_name")
			case bytes.HasPrefix(body[:n][bytes.LastIndexByte(body[:n-1], '\n')+1:], []byte("-----END ")):
				x.r.Probe("cut_file_after_complete_block")
			default:
				x.r.Probe("cut_file_inside_block")
			}
		}
	}
}

func (x *c11Run) step() bool {
	if x.steps >= c11MaxSteps || x.spun {
		return false
	}
	x.steps++
	return x.d.Step()
}

// quiesce runs until nothing is enabled any more (every task asleep or blocked).
func (x *c11Run) quiesce() {
	for x.step() {
	}
	synctest.Wait()
}

// advance moves the clock by dt. A transfer that resumes on the way goes on at that very
// instant and the load it belongs to runs to its end: no simulated time passes while a
// task stands at a statement in the middle of a load (a watcher that has merely woken up
// does wait for the next quiescent point: that is how a state appears "at the poll
// instant, before the watcher looks").
func (x *c11Run) advance(dt time.Duration) {
	if x.spun {
		return
	}
	end := time.Now().Add(dt)
	for !x.spun {
		at, ok := x.resumes()
		if !ok || at.After(end) || !at.After(time.Now()) {
			break
		}
		x.d.Advance(time.Until(at))
		x.quiesce()
	}
	if d := time.Until(end); d > 0 && !x.spun {
		x.d.Advance(d)
	}
}

// settle notes that the published state is now guaranteed to be installed: it has
// been offered for a full refresh interval and the system is idle again.
func (x *c11Run) settle() {
	if x.spun || time.Since(x.pubAt) < x.need() || x.transferring() {
		return // not offered for long enough, or not idle: a transfer is still under way
	}
	if !x.sc.States[x.cur].good() {
		return
	}
	if x.sc.refresh <= 0 && x.cur != 0 {
		return // refresh disabled: only the first load is promised
	}
	if x.cur > x.L {
		x.L = x.cur
		x.lost = false
		x.r.Tracef("settled state=%d", x.cur)
	}
}

func (x *c11Run) record(op *c11Op, cert *tls.Certificate, der []byte, err error) {
	x.mu.Lock()
	defer x.mu.Unlock()
	switch {
	case cert != nil && len(cert.Certificate) > 0:
		op.der = cert.Certificate[0]
	case der != nil:
		op.der = der
	default:
		op.none = true
	}
	if err != nil {
		op.err = err.Error()
		op.empty = op.none && errors.Is(err, ErrNoCertsStored)
	}
	op.done = true
}

func (x *c11Run) newOp(sh c11Shake, wave string) *c11Op {
	op := &c11Op{id: x.nextID, sh: sh, wave: wave, lo: x.L}
	x.nextID++
	x.ops = append(x.ops, op)
	return op
}

// spawn starts the handshakes of one wave; they run only when the driver releases them.
func (x *c11Run) spawn(shakes []c11Shake, wave string) {
	if x.spun || x.cfg == nil {
		return
	}
	for _, sh := range shakes {
		sh := sh
		if sh.Mode == "direct" {
			ops := []*c11Op{x.newOp(sh, wave)}
			if sh.Twice {
				ops = append(ops, x.newOp(sh, wave))
			}
			x.d.Sim.Spawn(fmt.Sprintf("hs%03d", ops[0].id), func() {
				for _, op := range ops {
					op.inv = x.tick()
					cert, err := x.cfg.GetCertificate(&tls.ClientHelloInfo{ServerName: sh.Name})
					op.ret = x.tick()
					x.record(op, cert, nil, err)
				}
			})
			continue
		}
		op := x.newOp(sh, wave)
		op.inv = x.tick()
		// the listener is Auto: the connection exists at once; dialling here keeps the order of connections fixed
		from := &net.TCPAddr{IP: net.IPv4(192, 0, 2, 1), Port: 10000 + op.id}
		raw, err := x.net.Dial(x.r.Ctx(), from, c11Addr, 0)
		if err != nil {
			x.record(op, nil, nil, err)
			continue
		}
		go func() {
			defer raw.Close()
			cc := &tls.Config{InsecureSkipVerify: true, ServerName: sh.Name, MinVersion: tls.VersionTLS12}
			if sh.Mode == "tls12" {
				cc.MaxVersion = tls.VersionTLS12
			}
			tc := tls.Client(raw, cc)
			if err := tc.Handshake(); err != nil {
				x.record(op, nil, nil, err)
				return
			}
			pcs := tc.ConnectionState().PeerCertificates
			if len(pcs) == 0 {
				x.record(op, nil, nil, errors.New("handshake succeeded without a server certificate"))
				return
			}
			x.record(op, nil, pcs[0].Raw, nil)
		}()
	}
}

// serve accepts the simulated TLS connections; each server-side handshake is a task,
// so every statement of the GetCertificate closure is a scheduling point.
func (x *c11Run) serve() {
	go func() {
		for {
			c, err := x.ln.Accept()
			if err != nil {
				return
			}
			id := c.RemoteAddr().(*net.TCPAddr).Port - 10000
			go func() {
				defer c.Close()
				defer simhook.Adopt(fmt.Sprintf("hs%03d", id))()
				s := tls.Server(c, x.cfg)
				if err := s.Handshake(); err != nil {
					return
				}
				io.Copy(io.Discard, s) // until the client hangs up
			}()
		}
	}()
}

// sentinel asks, from the driver itself at an idle point, for a name that the newest set
// known to have been installed (guaranteed, or seen by a finished handshake) holds exactly; it attributes the loss of the working set to the phase in which it happened.
func (x *c11Run) sentinel(wave string) {
	base := x.L
	if x.floor > base {
		base = x.floor
	}
	if x.spun || x.cfg == nil || base < 0 {
		return
	}
	name := ""
	for _, c := range x.sets[base] {
		for _, n := range c.dnsNames() {
			if !strings.HasPrefix(n, "*.") && name == "" {
				name = n
			}
		}
	}
	if name == "" {
		return
	}
	op := x.newOp(c11Shake{Name: name, Form: "plain", Mode: "direct"}, wave+"/sentinel")
	op.inv = x.tick()
	cert, err := x.cfg.GetCertificate(&tls.ClientHelloInfo{ServerName: name})
	op.ret = x.tick()
	x.record(op, cert, nil, err)
}

// ---- judging

func (x *c11Run) describe(op *c11Op) string {
	if op.none {
		return fmt.Sprintf("no certificate (err=%q)", op.err)
	}
	o, ok := x.owner[string(op.der)]
	if !ok {
		return "a certificate that was never put into the source"
	}
	c := x.sets[o.state][o.cert]
	return fmt.Sprintf("certificate %s of state %d (%s) names=%v", c.certFile(), o.state, x.sc.States[o.state].Kind, c.dnsNames())
}

// consistent reports whether the result of op is the reference choice for good state j.
func (x *c11Run) consistent(op *c11Op, j int) bool {
	want, _ := c11Ref(x.sets[j], op.sh.Name, x.sc.Strict)
	if op.none {
		return want == -1
	}
	o, ok := x.owner[string(op.der)]
	return ok && o.state == j && o.cert == want
}

// judge evaluates every finished, not yet judged handshake. No state is published
// while a wave is in flight, so the newest state published before the return is x.cur.
func (x *c11Run) judge() {
	synctest.Wait()
	x.mu.Lock()
	defer x.mu.Unlock()
	hi := x.cur
	var wave []*c11Op
	for _, op := range x.ops {
		if op.judged {
			continue
		}
		if !op.done {
			if !x.spun && x.steps < c11MaxSteps {
				x.r.Trouble("handshake %d (%s %q) did not finish: %v", op.id, op.sh.Mode, op.sh.Name, x.d.Sim.TaskStates())
			}
			op.judged = true
			continue
		}
		if op.ret == 0 {
			op.ret = x.ticks + 1 // a TLS handshake: known to have finished by now
		}
		wave = append(wave, op)
	}
	sort.SliceStable(wave, func(a, b int) bool { return wave[a].ret < wave[b].ret })
	type seen struct{ ret, min int }
	var earlier []seen
	newFloor := x.floor
	for _, op := range wave {
		op.judged = true
		floor := x.floor
		for _, e := range earlier {
			if e.ret < op.inv && e.min > floor {
				floor = e.min
			}
		}
		lo := op.lo
		if floor > lo {
			lo = floor
		}
		// candidates: the empty store (only while nothing is guaranteed yet) and every good state in [lo, hi]
		min, ok := 0, false
		if lo < 0 && op.none {
			min, ok = -1, true
		}
		if !ok {
			for j := lo; j <= hi; j++ {
				if j >= 0 && x.sc.States[j].good() && x.consistent(op, j) {
					min, ok = j, true
					break
				}
			}
		}
		x.r.Tracef("handshake %d %s %s %q wave=%s window=[%d,%d] -> %s ok=%v", op.id, op.sh.Mode, op.sh.Form, op.sh.Name, op.wave, lo, hi, x.short(op), ok)
		if ok {
			earlier = append(earlier, seen{op.ret, min})
			if min > newFloor {
				newFloor = min
			}
			x.probe(op, min, lo, hi)
			continue
		}
		x.violation(op, lo, op.lo, hi)
	}
	x.floor = newFloor
	x.r.State(fmt.Sprintf("cur=%d/%s L=%d floor=%d", x.cur, x.sc.States[x.cur].Kind, x.L, x.floor))
}

func (x *c11Run) short(op *c11Op) string {
	if op.none {
		return "none"
	}
	o, ok := x.owner[string(op.der)]
	if !ok {
		return "unknown"
	}
	return fmt.Sprintf("s%d/%s", o.state, x.sets[o.state][o.cert].Stem)
}

func (x *c11Run) probe(op *c11Op, j, lo, hi int) {
	if op.sh.Mode == "direct" {
		x.r.Probe("direct_ok")
	} else {
		x.r.Probe(op.sh.Mode + "_ok")
	}
	if j < 0 {
		x.r.Probe("saw_empty_store")
		return
	}
	_, how := c11Ref(x.sets[j], op.sh.Name, x.sc.Strict)
	x.r.Probe("chosen_" + how)
	if lo < hi {
		if j == hi {
			x.r.Probe("racing_saw_new")
		} else {
			x.r.Probe("racing_saw_old")
		}
	}
	if hi > 0 {
		x.r.Nontrivial()
	}
}

func (x *c11Run) strictness() string {
	if x.sc.Strict {
		return "strict"
	}
	return "nonstrict"
}

// violation classifies a handshake result that no admissible state explains.
func (x *c11Run) violation(op *c11Op, lo, guaranteed, hi int) {
	window := fmt.Sprintf("handshake %d (%s, server name %q, %s) got %s; admissible states [%d,%d] (guaranteed installed: %d, newest published: %d/%s)",
		op.id, op.sh.Mode, op.sh.Name, x.strictness(), x.describe(op), lo, hi, guaranteed, hi, x.sc.States[hi].Kind)
	// newest bad state at or after the admissible window's start
	lastBad := -1
	var badKinds []string
	for j := hi; j >= 0 && j > lo; j-- {
		if k := x.sc.States[j].Kind; k != "good" {
			if lastBad < 0 {
				lastBad = j
			}
			if !strings.Contains("+"+strings.Join(badKinds, "+")+"+", "+"+k+"+") {
				badKinds = append(badKinds, k)
			}
		}
	}
	sort.Strings(badKinds)
	if op.none {
		if x.lost {
			return // consequence of the loss already reported
		}
		if lo >= 0 && op.empty {
			x.lost = true
			if lastBad < 0 {
				x.r.Fail("lastgood", "working-set-lost/without-bad-load", "%s: the store is empty although state %d had been installed", window, lo)
				return
			}
			x.r.Fail("lastgood", "working-set-lost/"+strings.Join(badKinds, "+"), "%s: after the unusable load(s) %v (newest: state %d) the listener serves no certificate although state %d was installed", window, badKinds, lastBad, lo)
			return
		}
		want, how := -1, "none"
		if lo >= 0 {
			want, how = c11Ref(x.sets[lo], op.sh.Name, x.sc.Strict)
		}
		x.r.Fail("selection", fmt.Sprintf("%s/%s/want-%s/got-none", x.strictness(), op.sh.Form, how), "%s: the reference choice in state %d is certificate #%d (%s)", window, lo, want, how)
		return
	}
	o, known := x.owner[string(op.der)]
	switch {
	case !known:
		x.r.Fail("mixture", "unknown-certificate", "%s", window)
	case !x.sc.States[o.state].good():
		x.r.Fail("mixture", "certificate-of-rejected-load/"+x.sc.States[o.state].Kind, "%s: state %d is unusable as a whole and must not be served in parts", window, o.state)
	case o.state > hi:
		x.r.Fail("mixture", "unpublished-set", "%s", window)
	case o.state < guaranteed:
		x.r.Fail("stale", "older-set-after-refresh", "%s: state %d had been published for a full refresh interval (%s) and the system was idle", window, guaranteed, x.reff())
	case o.state < lo:
		x.r.Fail("stale", "went-back-to-older-set", "%s: an earlier handshake had already been served from state %d", window, lo)
	default:
		want, how := c11Ref(x.sets[o.state], op.sh.Name, x.sc.Strict)
		got := "other"
		c := x.sets[o.state][o.cert]
		one := []c11Cert{c}
		if _, h := c11Ref(one, op.sh.Name, true); h != "none" {
			got = h
		} else if o.cert == 0 {
			got = "default"
		}
		x.r.Fail("selection", fmt.Sprintf("%s/%s/want-%s/got-%s", x.strictness(), op.sh.Form, how, got), "%s: the reference choice in state %d is certificate #%d (%s)", window, o.state, want, how)
	}
}

// ---------------------------------------------------------------- the run

func runC11(r *simcore.Run) {
	sc := c11Gen(r.Gen, r.Thorough())
	r.SetSample(sc)
	x := &c11Run{r: r, sc: sc, owner: map[string]c11Owner{}, cur: 0, L: -1, floor: -1, faulted: map[int]bool{}, stop: make(chan struct{}), paused: map[*c11Body]time.Time{},
		kvIndex: 10, kvHigh: 10, kvChanged: make(chan struct{}), kvSpurUsed: map[int]bool{}}
	for i := range sc.States {
		st := &sc.States[i]
		set := append([]c11Cert(nil), st.Certs...)
		sort.Slice(set, func(a, b int) bool { return set[a].certFile() < set[b].certFile() })
		x.sets = append(x.sets, set)
		x.images = append(x.images, c11BuildImage(i, st, set, x.owner))
	}

	d := simcore.NewDriver(r)
	x.d = d
	d.Stick = sc.Stick
	d.Sim.Activate("cert")
	if !sc.DeepYields {
		// loads are single-goroutine computations over one pinned image: their interior commutes with everything else
		d.Sim.Activate("-cert:loadPath", "-cert:loadURL", "-cert:loadCertificates", "-cert:base", "-cert:replaceSuffix", "-cert:newCertPool", "-cert:makePath")
	}
	d.Sim.FS = x
	d.Sim.HTTPGet = x.httpGet
	d.Sim.StopBudget = 400 // the watchers are endless loops: they end a few passes after the run
	overlap := false
	d.Invariant = func() {
		if overlap || d.Sim.InFunc("cert", "getCertificate") == 0 {
			return
		}
		// a handshake is inside getCertificate; is the update goroutine parked in the middle of a store update?
		for _, ts := range d.Sim.TaskStates() {
			if strings.Contains(ts, " parked ") && (strings.Contains(ts, "SetCertificates@") || strings.Contains(ts, "BuildNameToCertificate@")) {
				overlap = true
				r.Probe("handshake_inside_store_update")
			}
		}
	}
	x.net = simnet.New(r)
	ln, err := x.net.Listen(c11Addr, simnet.ListenOpts{Auto: true})
	if err != nil {
		r.Trouble("listen: %v", err)
		return
	}
	x.ln = ln
	defer x.teardown()

	x.publish(0)
	var bootErr error
	boot := d.Sim.Spawn("boot", func() {
		cs := config.CertSource{Name: "sim", Refresh: sc.refresh}
		switch sc.Source {
		case "path":
			cs.Type, cs.CertPath = "path", c11Root
		case "http":
			cs.Type, cs.CertPath = "http", c11ListURL
		case "consul":
			cs.Type, cs.CertPath = "consul", "http://"+c11KVHost+"/v1/kv/"+c11KVPrefix
			if sc.Token {
				cs.CertPath += "?token=" + c11KVToken
			}
		}
		src, err := NewSource(cs)
		if err != nil {
			bootErr = err
			return
		}
		x.tap = &c11Tap{Source: src, x: x}
		x.cfg, bootErr = TLSConfig(x.tap, sc.Strict, 0, 0, nil)
	})
	for waited := 0; ; {
		synctest.Wait() // the task released last has parked or ended: only now is Done() a fact of the schedule
		if boot.Done() {
			break
		}
		if x.step() {
			continue
		}
		if waited >= 50 || x.spun || x.steps >= c11MaxSteps {
			break
		}
		// nothing can run and the constructor has not returned: it waits for something on the clock
		// (a first set with a time limit, say); time passes in small steps until it goes on
		waited++
		x.advance(100 * time.Millisecond)
	}
	synctest.Wait()
	if bootErr != nil || x.cfg == nil {
		if !x.spun {
			r.Trouble("TLSConfig: cfg=%v err=%v", x.cfg != nil, bootErr)
		}
		return
	}
	x.serve()
	x.spawn(sc.Boot, "boot")
	x.quiesce()
	x.judge()

	R := x.reff()
	hops := []time.Duration{R, R / 2, 2 * R}
	for i := range sc.States {
		st := &sc.States[i]
		if x.spun {
			break
		}
		if i > 0 {
			switch st.Gap {
			case 1:
				x.advance(R / 2)
				x.quiesce()
			case 2:
				x.advance(R) // the watcher is due and parked; the new state appears before it looks
			}
			x.publish(i)
			if st.Gap == 2 {
				x.spawn(st.GapRacing, fmt.Sprintf("s%d/gap", i))
				x.quiesce()
				x.sentinel(fmt.Sprintf("s%d/gap", i))
				x.judge()
			}
		}
		for w, wv := range st.Waves {
			x.advance(hops[wv.Hop])
			x.spawn(wv.Racing, fmt.Sprintf("s%d/w%d/racing", i, w))
			x.quiesce()
			x.settle()
			x.sentinel(fmt.Sprintf("s%d/w%d", i, w))
			x.judge()
			x.spawn(wv.Idle, fmt.Sprintf("s%d/w%d/idle", i, w))
			x.quiesce()
			x.judge()
		}
	}
	// the last state stays for a full interval, then two more idle polls
	if !x.spun {
		for k := 0; k < 12+int(x.need()/R) && (time.Since(x.pubAt) < x.need() || x.transferring()); k++ {
			x.advance(R)
			x.quiesce()
		}
		x.settle()
		x.spawn(sc.Final, "final")
		x.quiesce()
		x.judge()
		x.advance(2 * R)
		x.quiesce()
		x.spawn(sc.Final[:1], "final/later")
		x.quiesce()
		x.judge()
	}
	if x.steps >= c11MaxSteps && !x.spun {
		r.Trouble("step budget exhausted: %v", d.Sim.TaskStates())
	}
	r.ProbeN("loader_entries", x.entries)
	synctest.Wait()
	r.ProbeN("transfer_pauses", int(x.pauses.Load()))
	r.ProbeN("transfer_errors_delivered", int(x.cuts.Load()))
	r.ProbeN("kv_blocked_query_woken_by_change", int(x.kvWoken.Load()))
	r.ProbeN("kv_blocked_query_reached_wait_limit", int(x.kvTimeouts.Load()))
	r.ProbeN("kv_wait_limit_with_index_below_asked", int(x.kvLate.Load()))
	r.ProbeN("kv_spurious_return", int(x.kvSpurious.Load()))
	r.ProbeN("kv_query_broken_by_restart", int(x.kvBroken.Load()))
}

func (x *c11Run) teardown() {
	// a transfer that is under way is allowed to end as scripted; after that the server is gone
	for k := 0; k < 4 && !x.spun && x.steps < c11MaxSteps; k++ {
		at, ok := x.resumes()
		if !ok || !at.After(time.Now()) {
			break
		}
		x.advance(time.Until(at))
	}
	x.over.Store(true)
	close(x.stop)
	x.net.Shutdown()
	x.d.Sim.Stop()
	synctest.Wait()
	// The consumers of the channels (the update goroutine of TLSConfig; for consul also the goroutine that
	// converts the KV snapshots) end when their channel is closed. Everything else ends by itself, a watcher
	// at a statement after its next pause(s) - and only when it has gone may the harness close a channel the
	// watcher sends on (or closes itself when it is through).
	for k := 0; k < 300; k++ {
		others := 0
		for _, ts := range x.d.Sim.TaskStates() {
			if !strings.Contains(ts, " TLSConfig") && !strings.HasPrefix(ts, "kvconv ") {
				others++
			}
		}
		if others == 0 {
			break
		}
		time.Sleep(time.Second)
		synctest.Wait()
	}
	if x.kvWatch != nil && x.kvWatch.Done() {
		close(x.kvBlocks)
		for k := 0; k < 4 && !x.kvConv.Done(); k++ {
			select {
			case <-x.tap.ch:
			default:
			}
			synctest.Wait()
		}
	}
	if x.tap != nil && x.tap.ch != nil {
		// the update goroutine ranges over this channel: end it (after a sender blocked on a full buffer has gone)
		for k := 0; k < 2; k++ {
			select {
			case <-x.tap.ch:
			default:
			}
			synctest.Wait()
		}
		func() {
			defer func() { recover() }() // a watcher that is through (one-shot mode) may have closed it itself
			close(x.tap.ch)
		}()
	}
	x.d.Finish()
}

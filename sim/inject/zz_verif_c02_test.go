//go:build verif

package main

// C02 — table replacement is atomic, keeps the last good table, never crashes.
//
// Three harnesses serve the property:
//   c02lin    statement level: the real watchBackend installs T1..Tk while reader
//             tasks run the real Lookup closures; porcupine register model.
//   c02hist   H1: histories of valid, invalid and hostile manual (KV) configs.
//   c02custom the custom backend polling a simulated HTTP source.

import (
	"bytes"
	"encoding/json"
	"fmt"
	"net"
	"net/http"
	"net/http/httptest"
	"runtime/debug"
	"sort"
	"strings"
	"sync"
	"testing/synctest"
	"time"

	"github.com/anishathalye/porcupine"
	"github.com/fabiolb/fabio/config"
	"github.com/fabiolb/fabio/internal/zzverif/simconsul"
	"github.com/fabiolb/fabio/internal/zzverif/simcore"
	"github.com/fabiolb/fabio/internal/zzverif/simhook"
	"github.com/fabiolb/fabio/internal/zzverif/simnet"
	"github.com/fabiolb/fabio/metrics"
	"github.com/fabiolb/fabio/proxy"
	"github.com/fabiolb/fabio/registry"
	"github.com/fabiolb/fabio/registry/custom"
	"github.com/fabiolb/fabio/route"
)

func init() {
	zzHarnesses = append(zzHarnesses,
		&simcore.Harness{Name: "c02lin", Props: []string{"C02"}, Run: runC02Lin},
		&simcore.Harness{Name: "c02hist", Props: []string{"C02"}, Run: runC02Hist},
		&simcore.Harness{Name: "c02custom", Props: []string{"C02"}, Run: runC02Custom},
	)
}

// ---------------------------------------------------------------- c02lin

type c02LinScenario struct {
	// Glob[v][h]: in version v host h is registered as the glob pattern *.h<h>.example.com instead of the literal name
	Glob     [][]bool   `json:"glob_host_in_version"`
	Versions int        `json:"table_versions"`
	Hosts    int        `json:"hosts"`
	Paths    int        `json:"paths"`
	Readers  [][]string `json:"readers"` // each lookup is "host/path" or ":port" (TCP host lookup)
	Invalid  []int      `json:"invalid_update_before_version"`
	Stick    int        `json:"stick"`
}

func c02LinText(sc *c02LinScenario, v int) string {
	var b strings.Builder
	for h := 0; h < sc.Hosts; h++ {
		host := fmt.Sprintf("x.h%d.example.com", h)
		if v < len(sc.Glob) && h < len(sc.Glob[v]) && sc.Glob[v][h] {
			host = fmt.Sprintf("*.h%d.example.com", h)
		}
		for p := 0; p < sc.Paths; p++ {
			fmt.Fprintf(&b, "route add s%d-%d %s/p%d http://v%d-h%d-p%d:80/\n", h, p, host, p, v, h, p)
		}
	}
	fmt.Fprintf(&b, "route add tcp :7000 tcp://v%d-tcp:7000\n", v)
	return b.String()
}

// stubBackend feeds watchBackend from plain channels.
type c02Backend struct {
	registry.Backend
	svc, man chan string
}

func (b *c02Backend) Register([]string) error    { return nil }
func (b *c02Backend) DeregisterAll() error       { return nil }
func (b *c02Backend) WatchServices() chan string { return b.svc }
func (b *c02Backend) WatchManual() chan string   { return b.man }

type c02Op struct {
	Install bool
	Version int
	Key     string
}

func c02Version(url string) int {
	var v int
	if i := strings.Index(url, "//v"); i >= 0 {
		fmt.Sscanf(url[i+3:], "%d", &v)
		return v
	}
	return -1
}

func runC02Lin(r *simcore.Run) {
	g := r.Gen
	sc := &c02LinScenario{Versions: g.Range(2, 5), Hosts: g.Range(1, 3), Paths: g.Range(1, 2)}
	nr := g.Range(2, 4)
	if r.Thorough() {
		nr = g.Range(2, 6)
	}
	for i := 0; i < nr; i++ {
		n := g.Range(2, 5)
		var l []string
		for k := 0; k < n; k++ {
			if g.Chance(15) {
				l = append(l, ":7000")
			} else {
				l = append(l, fmt.Sprintf("x.h%d.example.com/p%d", g.Intn(sc.Hosts), g.Intn(sc.Paths)))
			}
		}
		sc.Readers = append(sc.Readers, l)
	}
	for v := 2; v <= sc.Versions; v++ {
		if g.Chance(25) {
			sc.Invalid = append(sc.Invalid, v)
		}
	}
	sc.Stick = []int{1, 1, 4}[g.Intn(3)]
	// every version routes every request; versions differ in whether a host is a literal or a glob pattern
	for v := 0; v <= sc.Versions; v++ {
		row := make([]bool, sc.Hosts)
		for h := range row {
			row[h] = g.Chance(40)
		}
		sc.Glob = append(sc.Glob, row)
	}
	r.SetSample(sc)

	d := simcore.NewDriver(r)
	d.Stick = sc.Stick
	d.Sim.Activate("main:watchBackend", "main:newHTTPProxy", "main:lookupHostFn", "route:GetTable", "route:SetTable", "route:Table.Lookup", "route:Table.lookup",
		"route:Table.matchingHosts", "route:Table.matchingHostNoGlob", "route:NewTable", "route:Table.addRoute", "route:normalizeHost", "route:sortHosts")
	first, _ := route.NewTable(bytes.NewBufferString(c02LinText(sc, 0)))
	route.SetTable(first)
	be := &c02Backend{svc: make(chan string), man: make(chan string)}
	registry.Default = be
	cfg := &config.Config{}
	cfg.Registry.Backend = "static"
	cfg.Log.RoutesFormat = "delta"
	cfg.Proxy.Strategy = "rr"
	cfg.Proxy.Matcher = "prefix"
	cfg.GlobCacheSize = 100
	stats := &proxy.HttpStatsHandler{Noroute: metrics.DiscardProvider{}.NewCounter("notfound")}
	p := newHTTPProxy(cfg, stats)
	hostLookup := lookupHostFn(cfg, metrics.DiscardProvider{}.NewCounter("notfound"))

	stop := make(chan struct{})
	wb := d.Sim.Spawn("watchBackend", func() { watchBackend(cfg, nil, make(chan bool)) })
	// feeder: hands the configurations over as soon as watchBackend is ready for the next one
	go func() {
		for v := 1; v <= sc.Versions; v++ {
			for _, iv := range sc.Invalid {
				if iv == v {
					select {
					case be.svc <- "route add broken":
					case <-stop:
						return
					}
				}
			}
			select {
			case be.svc <- c02LinText(sc, v):
			case <-stop:
				return
			}
		}
	}()

	var mu sync.Mutex
	seq := 0
	var ops []porcupine.Operation
	next := func() int { seq++; return seq }
	var readers []*simhook.Task
	for i, reqs := range sc.Readers {
		i, reqs := i, reqs
		rt := d.Sim.Spawn(fmt.Sprintf("reader%d", i), func() {
			for _, key := range reqs {
				mu.Lock()
				call := next()
				mu.Unlock()
				var t *route.Target
				if strings.HasPrefix(key, ":") {
					t = hostLookup(key)
				} else {
					host, path, _ := strings.Cut(key, "/")
					req := httptest.NewRequest("GET", "http://x/"+path, nil)
					req.Host = host
					t = p.Lookup(req)
				}
				mu.Lock()
				ret := next()
				mu.Unlock()
				ver := -1
				url := "<nil>"
				if t != nil {
					url = t.URL.String()
					ver = c02Version(url)
					// the target must be the one of this very host and path in that version: anything else is a mixture
					want := ""
					if strings.HasPrefix(key, ":") {
						want = fmt.Sprintf("tcp://v%d-tcp:7000", ver)
					} else {
						host, path, _ := strings.Cut(key, "/")
						want = fmt.Sprintf("http://v%d-%s-%s:80/", ver, strings.TrimSuffix(strings.TrimPrefix(host, "x."), ".example.com"), path)
					}
					if url != want {
						r.Fail("mixture", "wrong-target", "lookup %s returned %s, which is the target of another route", key, url)
					}
				} else {
					r.Fail("mixture", "no-target", "lookup %s found no route although every table version has one", key)
				}
				mu.Lock()
				ops = append(ops, porcupine.Operation{ClientId: i, Input: c02Op{Key: key}, Call: int64(call), Output: ver, Return: int64(ret)})
				mu.Unlock()
				r.Tracef("reader%d %s -> v%d", i, key, ver)
			}
		})
		readers = append(readers, rt)
	}

	// installs are observed at every quiescent state
	cur := tablePtr(first)
	lastSeq := 0
	type inst struct {
		t      route.Table
		digest string
	}
	var installs []inst
	maxV := 0
	d.Invariant = func() {
		t := route.GetTable()
		mu.Lock()
		defer mu.Unlock()
		if pt := tablePtr(t); pt != cur {
			cur = pt
			v := -1
			for _, x := range route.ZZTargets(t) {
				v = c02Version(x.URL)
				break
			}
			ops = append(ops, porcupine.Operation{ClientId: 100, Input: c02Op{Install: true, Version: v}, Call: int64(lastSeq), Output: v, Return: int64(next())})
			installs = append(installs, inst{t, c02Digest(t)})
			if v > maxV {
				maxV = v
			}
			r.Tracef("install v%d", v)
		}
		lastSeq = seq
	}
	done := d.Run(300000, func() bool {
		// the readers are through (watchBackend, and whatever goroutines it starts, run for ever)
		for _, rt := range readers {
			if !rt.Done() {
				return false
			}
		}
		mu.Lock()
		defer mu.Unlock()
		return maxV == sc.Versions || wb.Done()
	})
	if !done {
		r.Trouble("did not finish: %v", d.Sim.TaskStates())
	}
	close(stop)
	d.Invariant()
	r.Nontrivial()

	// porcupine: a register holding the installed version
	model := porcupine.Model{
		Init: func() interface{} { return 0 },
		Step: func(state, input, output interface{}) (bool, interface{}) {
			in := input.(c02Op)
			if in.Install {
				return true, in.Version
			}
			return output.(int) == state.(int), state
		},
		DescribeOperation: func(input, output interface{}) string {
			in := input.(c02Op)
			if in.Install {
				return fmt.Sprintf("install(v%d)", in.Version)
			}
			return fmt.Sprintf("lookup(%s) -> v%d", in.Key, output.(int))
		},
	}
	res := porcupine.CheckOperationsTimeout(model, ops, 20*time.Second)
	switch res {
	case porcupine.Illegal:
		var hist []string
		for _, o := range ops {
			hist = append(hist, fmt.Sprintf("[%d,%d] c%d %s", o.Call, o.Return, o.ClientId, model.DescribeOperation(o.Input, o.Output)))
		}
		r.Fail("atomicity", "not-linearizable", "the lookups cannot be explained by complete tables replacing each other: %s", strings.Join(hist, "; "))
	case porcupine.Unknown:
		r.Probe("porcupine_unknown")
	}
	// a published table is never written again
	for i, in := range installs {
		if dg := c02Digest(in.t); dg != in.digest {
			r.Fail("atomicity", "published-table-mutated", "table install #%d changed after it was published", i+1)
		}
	}
	// teardown: wake watchBackend out of its select; it ends at its next statements
	d.Sim.Stop()
	close(be.svc)
	close(be.man)
	synctest.Wait()
	d.Finish()
}

// c02Digest describes everything of a table that must not change after publication.
func c02Digest(t route.Table) string {
	var l []string
	for _, ri := range route.ZZRoutes(t) {
		l = append(l, fmt.Sprintf("%s%s %v %v", ri.Host, ri.Path, ri.Targets, ri.Ring))
	}
	sort.Strings(l)
	return strings.Join(l, "\n") + "\n" + t.String()
}

// ---------------------------------------------------------------- c02hist

var c02ValidMan = []string{
	"route add manual /manual http://9.9.9.9:99/",
	"# only a comment",
	"route add m2 m.example.com/ http://9.9.9.8:98/ opts \"strip=/x\"\nroute add m2 m.example.com/ http://9.9.9.7:97/ weight 0.25",
	"route del web",
	"route add w /w http://9.1.1.1:1/ weight 1e-9\nroute add w /w http://9.1.1.2:1/",
	"route add w /w http://9.1.1.1:1/ weight -0\nroute add w /w http://9.1.1.2:1/ weight 0.3",
	"route add w /big http://9.1.1.1:1/ weight 1e308\nroute add w /big http://9.1.1.2:1/ weight 1e308",
	"route add w /tiny http://9.1.1.1:1/ weight 5e-324",
	"route add w /tiny2 http://9.1.1.1:1/ weight 5e-324\nroute add w /tiny2 http://9.1.1.2:1/ weight 5e-324\nroute add w /tiny2 http://9.1.1.3:1/",
	"route add w /mix http://9.1.1.1:1/ weight 1e308\nroute add w /mix http://9.1.1.2:1/ weight 1e-300\nroute add w /mix http://9.1.1.3:1/",
	"route add cr /cr http://9.1.1.1:1/\r\nroute add cr /cr2 http://9.1.1.2:1/\r",
	"route add r /r https://x.example.com$path opts \"redirect=abc\"",
	"route add t :9000 tcp://9.1.1.1:9 opts \"proto=tcp allow=ip:300.1.1.1\"",
	"route add hg [a/ http://9.1.1.1:1/",
	"route add hg2 {x.example.com/ http://9.1.1.1:1/\nroute add ok ok.example.com/ http://9.1.1.2:1/",
}

var c02InvalidMan = []string{
	"route add broken",
	"foo bar",
	"route add x /x http://h:1/ weight Inf",
	"route add x /x http://h:1/ weight NaN",
	"route add x /x http://h:1/ weight +Inf\nroute add x /x http://h2:1/",
	"route add x /[ http://h:1/",
	"route add x /{a,b http://h:1/",
	"route add x /x http://%zz/",
	"route add x /x http://[::1:80/",
	"route weight nosuch /none weight 0.5",
	"route add x /x\x00y http://h:1/ tags \"unterminated",
	"route add LONG",
	"route frobnicate x",
}

type c02HistScenario struct {
	Steps  []c02HistStep `json:"steps"`
	Faults bool          `json:"consul_faults"`
}

type c02HistStep struct {
	Kind  string `json:"kind"` // kv | flip
	Value string `json:"value,omitempty"`
	Valid bool   `json:"valid"`
}

func runC02Hist(r *simcore.Run) {
	g := r.Gen
	sc := &c02HistScenario{}
	n := g.Range(2, 7)
	if r.Thorough() {
		n = g.Range(3, 16)
	}
	for i := 0; i < n; i++ {
		st := c02HistStep{Kind: "kv"}
		switch {
		case g.Chance(45):
			st.Value = simcore.Pick(g, c02InvalidMan)
		case g.Chance(15):
			st.Kind = "flip"
			st.Valid = true
		default:
			st.Value = simcore.Pick(g, c02ValidMan)
			st.Valid = true
		}
		sc.Steps = append(sc.Steps, st)
	}
	sc.Faults = g.Chance(20)
	sample := *sc
	r.SetSample(sample)

	ccfg := &config.Consul{TagPrefix: c01Prefix, KVPath: "/fabio/config", NoRouteHTMLPath: "/fabio/noroute.html",
		ServiceStatus: []string{"passing"}, ChecksRequired: "one", ServiceMonitors: 1}
	e := h1NewEnv(r, ccfg)
	defer e.finish()
	e.sc.Nodes = append(e.sc.Nodes, &simconsul.Node{Name: "n1", Addr: "10.0.0.11", Serf: "passing"})
	web := simconsul.Instance{Node: "n1", ID: "web-1", Name: "web", Addr: "10.2.0.1", Port: 8000, Tags: []string{"urlprefix-/web"},
		Checks: []simconsul.Check{{ID: "service:web-1", Status: "passing"}}}
	e.sc.Instances = append(e.sc.Instances, &web)
	e.sc.FaultsEnabled = sc.Faults
	e.start()
	// the proxies whose lookups must keep working on whatever gets installed
	mkcfg := func(strategy string) *config.Config {
		c := &config.Config{}
		c.Proxy.Strategy, c.Proxy.Matcher, c.GlobCacheSize = strategy, "prefix", 100
		return c
	}
	stats := &proxy.HttpStatsHandler{Noroute: metrics.DiscardProvider{}.NewCounter("notfound")}
	prr, prnd := newHTTPProxy(mkcfg("rr"), stats), newHTTPProxy(mkcfg("rnd"), stats)

	probeTable := func() {
		defer func() {
			if p := recover(); p != nil {
				r.Fail("panic", simcore.TopFabioFrame(debug.Stack()), "lookup on an installed table panicked: %v", p)
			}
		}()
		for _, ri := range route.ZZRoutes(route.GetTable()) {
			for k := 0; k < 3; k++ {
				req := httptest.NewRequest("GET", "http://x"+c02ProbePath(ri.Path), nil)
				req.Host = ri.Host
				if ri.Host == "" {
					req.Host = "none.example.net"
				}
				prr.Lookup(req)
				prnd.Lookup(req)
			}
		}
	}
	next := 0
	flip := "critical"
	e.d.AddSource(func() []simcore.Event {
		if next >= len(sc.Steps) {
			return nil
		}
		return []simcore.Event{{Key: "op", Weight: 2, Fire: func() {
			st := sc.Steps[next]
			next++
			r.Tracef("op %d %s valid=%v", next, st.Kind, st.Valid)
			if st.Kind == "flip" {
				c01Apply(e.sc, c01Op{Kind: "check", Node: web.Node, ID: web.ID, Status: flip})
				if flip == "critical" {
					flip = "passing"
				} else {
					flip = "critical"
				}
				return
			}
			v := st.Value
			if v == "route add LONG" {
				v = "route add long /" + strings.Repeat("y", 70000) + " http://h:1/"
			}
			c01Apply(e.sc, c01Op{Kind: "kv", Key: "fabio/config/a", Value: v})
		}}}
	})
	installsSeen := 0
	for steps := 0; next < len(sc.Steps) && steps < 20000; steps++ {
		if !e.d.Step() {
			if !e.d.IdleAdvance(48 * time.Hour) {
				break
			}
		}
		if len(e.Inst) != installsSeen {
			installsSeen = len(e.Inst)
			probeTable()
		}
	}
	e.sc.FaultsEnabled = false
	e.settle(60000, 2*(5*time.Minute+20*time.Second)+30*time.Second)
	e.observe()
	probeTable()
	r.Nontrivial()

	// the reference: walk the hand-overs; an invalid combination keeps the table, a valid one replaces it
	type hand struct{ svc, man string }
	var hands []hand
	si, mi := 0, 0
	for _, k := range e.relay.Order {
		if k == 's' {
			si++
		} else {
			mi++
		}
		h := hand{}
		if si > 0 {
			h.svc = e.relay.SvcGiven[si-1]
		}
		if mi > 0 {
			h.man = e.relay.ManGiven[mi-1]
		}
		hands = append(hands, h)
	}
	wantActive := ""
	haveActive := false
	invalidSeen, validAfterInvalid := false, false
	for _, h := range hands {
		t, err := func() (t route.Table, err error) {
			defer func() {
				if p := recover(); p != nil {
					err = fmt.Errorf("panic: %v", p)
				}
			}()
			return route.NewTable(bytes.NewBufferString(h.svc + "\n" + h.man))
		}()
		if err != nil {
			invalidSeen = true
			continue
		}
		if invalidSeen {
			validAfterInvalid = true
		}
		wantActive, haveActive = t.String(), true
	}
	if invalidSeen {
		r.Probe("invalid_update")
	}
	if validAfterInvalid {
		r.Probe("valid_after_invalid")
	}
	if !e.wb.Done() {
		got := route.GetTable().String()
		if haveActive && got != wantActive {
			r.Fail("last-good", "active-table-differs", "the active table is not the table of the last valid configuration handed to the update loop:\n got: %q\nwant: %q", got, wantActive)
		}
		if !haveActive && len(e.Inst) > 0 {
			r.Fail("last-good", "installed-invalid", "a table was installed although no valid configuration was ever handed over")
		}
	}
	// every install is the table of the hand-over it follows
	for k, in := range e.Inst {
		svc, man := "", ""
		if in.Svc > 0 {
			svc = e.relay.SvcGiven[in.Svc-1]
		}
		if in.Man > 0 {
			man = e.relay.ManGiven[in.Man-1]
		}
		want, err := route.NewTable(bytes.NewBufferString(svc + "\n" + man))
		if err != nil {
			r.Fail("last-good", "table-from-invalid-config", "install #%d follows a configuration that is not valid: %v", k+1, err)
		} else if want.String() != in.Text {
			r.Fail("last-good", "install-differs", "install #%d is not the table of the configuration handed over:\n got: %q\nwant: %q", k+1, in.Text, want.String())
		}
	}
	r.ProbeN("installs", len(e.Inst))
}

func c02ProbePath(p string) string {
	if p == "" || strings.ContainsAny(p, " \x00") {
		return "/"
	}
	return p
}

// ---------------------------------------------------------------- c02custom

type c02Doc struct {
	Kind string `json:"kind"` // ok | badjson | status500 | rejected | hostile | empty
	Body string `json:"body"`
}

type c02CustomScenario struct {
	Docs []c02Doc `json:"documents_served_in_order"`
}

func c02GenDoc(g *simcore.Tape, i int) c02Doc {
	def := func(svc, src, dst string, w float64, tags []string, opts map[string]string) route.RouteDef {
		return route.RouteDef{Cmd: route.RouteAddCmd, Service: svc, Src: src, Dst: dst, Weight: w, Tags: tags, Opts: opts}
	}
	switch g.Intn(9) {
	case 8:
		return c02Doc{Kind: "null", Body: simcore.Pick(g, []string{"null", "[]", "[null]"})}
	case 0:
		return c02Doc{Kind: "badjson", Body: "[{\"cmd\": \"route add\", "}
	case 1:
		return c02Doc{Kind: "status500", Body: "oops"}
	case 2:
		b, _ := json.Marshal([]route.RouteDef{def("x", "/x", "http://%zz/", 0, nil, nil)})
		return c02Doc{Kind: "rejected", Body: string(b)}
	case 3:
		b, _ := json.Marshal([]route.RouteDef{def("h", "/h", "http://9.2.0.1:1/", 1e308, nil, nil), def("h", "/h", "http://9.2.0.2:1/", 1e308, nil, nil),
			def("t", "/t", "http://9.2.0.3:1/", 5e-324, nil, nil)})
		return c02Doc{Kind: "hostile", Body: string(b)}
	case 4:
		return c02Doc{Kind: "rejected", Body: "[{\"cmd\":\"route frob\",\"service\":\"x\",\"src\":\"/x\",\"dst\":\"http://h:1/\"}]"}
	default:
		var defs []route.RouteDef
		n := g.Range(1, 3)
		for k := 0; k < n; k++ {
			d := def(fmt.Sprintf("svc%d", g.Intn(3)), fmt.Sprintf("/p%d", g.Intn(3)), fmt.Sprintf("http://9.3.%d.%d:80/", i, k), 0, nil, nil)
			if g.Chance(40) {
				d.Opts = map[string]string{simcore.Pick(g, []string{"strip", "prepend", "host"}): simcore.Pick(g, []string{"/a", "/b", "dst"})}
			}
			if g.Chance(40) {
				d.Tags = []string{simcore.Pick(g, []string{"blue", "green"})}
			}
			if g.Chance(30) {
				d.Weight = simcore.Pick(g, []float64{0.25, 0.5})
			}
			defs = append(defs, d)
		}
		b, _ := json.Marshal(defs)
		return c02Doc{Kind: "ok", Body: string(b)}
	}
}

func runC02Custom(r *simcore.Run) {
	g := r.Gen
	sc := &c02CustomScenario{}
	n := g.Range(2, 6)
	for i := 0; i < n; i++ {
		sc.Docs = append(sc.Docs, c02GenDoc(g, i))
	}
	r.SetSample(sc)
	d := simcore.NewDriver(r)
	nw := simnet.New(r)
	d.Sim.Dial = nw.DialFunc()
	d.AddSource(nw.Events)
	empty := make(route.Table)
	route.SetTable(empty)

	// the HTTP source: serves the documents in order, the last one forever
	ln, err := nw.Listen("routes.sim:80", simnet.ListenOpts{Auto: true})
	if err != nil {
		r.Trouble("listen: %v", err)
		return
	}
	var mu sync.Mutex
	served := 0
	srv := &http.Server{Handler: http.HandlerFunc(func(w http.ResponseWriter, req *http.Request) {
		mu.Lock()
		i := served
		if i >= len(sc.Docs) {
			i = len(sc.Docs) - 1
		}
		served++
		doc := sc.Docs[i]
		mu.Unlock()
		r.Tracef("source serves #%d %s", i+1, doc.Kind)
		if doc.Kind == "status500" {
			w.WriteHeader(500)
		}
		w.Write([]byte(doc.Body))
	})}
	go srv.Serve(ln)

	ccfg := &config.Custom{Host: "routes.sim:80", Scheme: "http", Path: "routes", PollInterval: time.Second, Timeout: 5 * time.Second}
	realBE, _ := custom.NewBackend(ccfg)
	// watchBackend reads from a channel of ours that is fed from the real one, so that it can be woken at teardown
	be := &c02CustomRelay{Backend: realBE, out: make(chan string), stop: make(chan struct{}), done: make(chan struct{})}
	registry.Default = be
	cfg := &config.Config{}
	cfg.Registry.Backend = "custom"
	wb := d.Sim.Spawn("watchBackend", func() { watchBackend(cfg, nil, make(chan bool)) })

	stats := &proxy.HttpStatsHandler{Noroute: metrics.DiscardProvider{}.NewCounter("notfound")}
	mk := func(strategy string) *proxy.HTTPProxy {
		c := &config.Config{}
		c.Proxy.Strategy, c.Proxy.Matcher, c.GlobCacheSize = strategy, "prefix", 100
		return newHTTPProxy(c, stats)
	}
	prr, prnd := mk("rr"), mk("rnd")
	probe := func() {
		defer func() {
			if p := recover(); p != nil {
				r.Fail("panic", simcore.TopFabioFrame(debug.Stack()), "lookup on an installed table panicked: %v", p)
			}
		}()
		for _, ri := range route.ZZRoutes(route.GetTable()) {
			for k := 0; k < 3; k++ {
				req := httptest.NewRequest("GET", "http://x"+c02ProbePath(ri.Path), nil)
				req.Host = "none.example.net"
				prr.Lookup(req)
				prnd.Lookup(req)
			}
		}
	}
	// reference: the active table after document i is the table of the last valid document up to i
	want := make([]string, len(sc.Docs))
	curWant := ""
	for i, doc := range sc.Docs {
		if doc.Kind != "status500" {
			var defs []route.RouteDef
			if json.Unmarshal([]byte(doc.Body), &defs) == nil {
				t, err := func() (t route.Table, err error) {
					defer func() {
						if p := recover(); p != nil {
							err = fmt.Errorf("panic: %v", p)
						}
					}()
					return route.NewTableCustom(&defs)
				}()
				if err == nil && t != nil {
					curWant = strings.Join(c01TableSet(t), "\n")
				}
			}
		}
		want[i] = curWant
	}
	checked := 0
	nullSeen := false
	for steps := 0; steps < 4000 && !wb.Done(); steps++ {
		synctest.Wait()
		mu.Lock()
		s := served
		mu.Unlock()
		if !d.Step() {
			// idle: the poll that fetched document s has been processed completely
			if s > checked && s <= len(sc.Docs) {
				checked = s
				got := strings.Join(c01TableSet(route.GetTable()), "\n")
				// the document 'null' may count as "no routes" or as no document at all: only its successors are judged again
				if sc.Docs[s-1].Body == "null" {
					nullSeen = true
				}
				if got != want[s-1] && !nullSeen {
					r.Fail("last-good", "custom-active-table-differs", "after document #%d (%s) the active table is not the table of the last valid document:\n got: %s\nwant: %s", s, sc.Docs[s-1].Kind, strings.ReplaceAll(got, "\n", " | "), strings.ReplaceAll(want[s-1], "\n", " | "))
				}
				probe()
			}
			if s > len(sc.Docs) {
				break
			}
			d.Hint(time.Now().Add(ccfg.PollInterval))
			if !d.IdleAdvance(10 * time.Minute) {
				break
			}
		}
	}
	if checked < len(sc.Docs) && !wb.Done() {
		r.Trouble("only %d of %d documents were processed", checked, len(sc.Docs))
	}
	r.Nontrivial()
	srv.Close()
	nw.Shutdown()
	close(be.stop)
	d.Sim.Stop()
	synctest.Wait()
	d.Finish() // the poller keeps reporting errors until it has used up its teardown budget; the relay swallows them
	close(be.done)
	synctest.Wait()
	_ = net.IPv4zero
}

type c02CustomRelay struct {
	registry.Backend
	out  chan string
	stop chan struct{} // no more forwarding: values are discarded
	done chan struct{} // the relay goroutine ends
}

func (b *c02CustomRelay) WatchServices() chan string {
	in := b.Backend.WatchServices()
	go func() {
		for {
			select {
			case v := <-in:
				select {
				case b.out <- v:
				case <-b.stop:
				}
			case <-b.stop:
				// teardown: swallow what the poller still reports and keep watchBackend moving until both have ended
				for {
					select {
					case <-in:
					case b.out <- "stopping":
					case <-b.done:
						return
					}
				}
			case <-b.done:
				return
			}
		}
	}()
	return b.out
}

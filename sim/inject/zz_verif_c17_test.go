//go:build verif

package main

// C17 — response compression never changes the content.
//
// Two kinds of run (chosen by the scenario tape):
//
//   - statement level: 2..6 tasks call the real gzip.NewGzipHandler around a
//     scripted inner handler, writing into recording response writers that
//     behave like net/http's (informational 1xx statuses leave the response open,
//     headers are fixed at the first other status or Write). A slow client makes
//     every write that reaches the recording writer a scheduling point
//     (simhook.Pause), also the ones compress/gzip issues on its own from Close.
//     The recording writer comes in four flavours that differ in the optional
//     interfaces they offer (Flusher, Hijacker, ReaderFrom, CloseNotifier, Pusher);
//     the scripted handler uses them the way real handlers do: it tries to take over
//     the connection first (websocket style; the hijack works, fails or is not
//     offered), flushes / pushes / asks for close notification between its writes
//     and hands part of its body over with io.Copy.
//     The driver interleaves the tasks at every statement of proxy/gzip; the
//     instrumented sync.Pool is a LIFO, so a gzip writer that is used after it
//     was returned corrupts another task's response deterministically.
//   - event level (H2): real http.Server + main.newHTTPProxy with
//     cfg.Proxy.GZIPContentTypes set, raw clients, raw scripted upstreams; the
//     handler goroutines are adopted as tasks so that the gzip statements of
//     concurrent requests interleave with segment deliveries. The last request of
//     a connection may be a websocket upgrade which the upstream accepts (101) or
//     answers with an ordinary response; in some runs the server side writer
//     cannot be hijacked (as on HTTP/2).
//
// The oracle is written from the property text (see c17Judge).

import (
	"bufio"
	"bytes"
	stdgzip "compress/gzip"
	"errors"
	"fmt"
	"io"
	"net"
	"net/http"
	"net/http/httptest"
	"regexp"
	"sort"
	"strconv"
	"strings"
	"sync"
	"time"

	"github.com/fabiolb/fabio/config"
	"github.com/fabiolb/fabio/internal/zzverif/simcore"
	"github.com/fabiolb/fabio/internal/zzverif/simhook"
	"github.com/fabiolb/fabio/internal/zzverif/simnet"
	fgzip "github.com/fabiolb/fabio/proxy/gzip"
)

func init() {
	zzHarnesses = append(zzHarnesses, &simcore.Harness{Name: "c17", Props: []string{"C17"}, Run: runC17})
}

// ---------------------------------------------------------------- scenario

type c17HdrOp struct {
	K   string `json:"k"`
	V   string `json:"v"`
	Set bool   `json:"set,omitempty"` // Header().Set instead of Add (statement level only)
}

// c17Spec is one exchange: the request as the client sends it and the response as the inner handler / upstream produces it.
type c17Spec struct {
	ID         string     `json:"id"`
	Method     string     `json:"method"`
	AE         *string    `json:"accept_encoding"` // nil: header absent
	AEClass    string     `json:"accepts_gzip"`    // yes | no | ambiguous
	ReqHeaders []h2Header `json:"request_headers,omitempty"`
	ReqBody    int        `json:"request_body_len,omitempty"`

	Status   int        `json:"status"`
	Explicit bool       `json:"explicit_write_header"`
	Info     []int      `json:"informational_first,omitempty"`        // 1xx status calls that precede the final status
	InfoHdr  string     `json:"informational_headers,omitempty"`      // proxy: own Link header, header map cleared afterwards (as httputil.ReverseProxy does) | kept: the final headers are already set | own: as proxy, plus a Content-Type of its own
	InfoCT   string     `json:"informational_content_type,omitempty"` // InfoHdr own
	Slow     bool       `json:"slow_client,omitempty"`                // statement level: every write that reaches the client parks the handler first
	CT       *string    `json:"content_type"`                         // nil: absent
	CE       string     `json:"content_encoding"`                     // "": absent
	HasCL    bool       `json:"content_length_set"`
	Extra    []c17HdrOp `json:"extra_headers,omitempty"`
	BodyKind string     `json:"body_kind"`
	BodyLen  int        `json:"body_len"`
	Body     []byte     `json:"-"`
	Chunks   []int      `json:"write_sizes,omitempty"`

	// statement level: the optional interfaces of a response writer and how the scripted handler uses them
	Writer      string    `json:"writer,omitempty"`                       // fabio: Flusher+Hijacker (like proxy.responseWriter) | http1: Flusher+Hijacker+CloseNotifier+ReaderFrom | http2: Flusher+CloseNotifier+Pusher | bare: none
	Hijack      string    `json:"handler_tries_hijack,omitempty"`         // assert | controller: like a websocket handler the handler first tries to take over the connection, by type assertion or through http.ResponseController
	HijackOK    bool      `json:"hijack_works,omitempty"`                 // the underlying Hijack succeeds (otherwise it fails as on an HTTP/2 stream; writers http2 and bare do not offer it at all)
	AfterHijack bool      `json:"error_reported_after_hijack,omitempty"`  // after its stream the handler still reports an error through the ResponseWriter (net/http ignores that)
	Calls       []c17Call `json:"optional_interface_calls,omitempty"`     // between the body writes
	CopyRest    bool      `json:"rest_of_body_through_io_copy,omitempty"` // what the write sizes leave over goes through io.Copy (io.ReaderFrom of the writer where there is one)
	tookConn    bool      // the handler obtained the connection
	rawSent     []byte    // what it wrote to it

	// h2: a websocket upgrade request (the last one on its connection); status 101 = the upstream accepts
	Upgrade bool `json:"websocket_upgrade,omitempty"`
	Control bool `json:"control_request,omitempty"` // h2, writer cannot be hijacked: upgrade request of a client that does not accept gzip (reference for fabio's own answer)
}

// c17Call is one use of an optional interface of the response writer by the scripted handler.
type c17Call struct {
	At   int    `json:"before_write"` // executed before the body write with this index (number of writes: after the last one)
	Kind string `json:"kind"`         // flush (type assertion) | flush-controller (http.ResponseController) | push | closenotify
}

type c17Scenario struct {
	Mode     string      `json:"mode"` // statement | h2
	Regexp   string      `json:"gzip_content_types"`
	Stick    int         `json:"stick,omitempty"`
	Tasks    [][]c17Spec `json:"tasks"` // statement: one list per task; h2: one list per client connection
	Shared   bool        `json:"shared_handler,omitempty"`
	Adopt    bool        `json:"handler_goroutines_are_tasks,omitempty"`     // h2 only
	Slow     bool        `json:"slow_clients,omitempty"`                     // h2 with tasks: every write of a handler into its response parks the handler first
	NoHijack bool        `json:"server_writer_cannot_be_hijacked,omitempty"` // h2: the handler gets a writer without http.Hijacker (as on HTTP/2 or behind a wrapping middleware)
	Exchngs  int         `json:"exchanges"`
}

type c17AE struct {
	Present bool
	Value   string
	Class   string
}

// Only values whose meaning is beyond dispute are classified yes/no; the rest is "ambiguous"
// (the oracle then accepts either decision and still checks integrity).
var c17AEs = []c17AE{
	{true, "gzip", "yes"},
	{false, "", "no"},
	{true, "identity", "no"},
	{true, "gzip, deflate, br", "yes"},
	{true, "deflate, br", "no"},
	{true, "br;q=1.0, gzip;q=0.8, *;q=0.1", "yes"},
	{true, "deflate", "no"},
	{true, "", "no"},
	{true, "identity;q=1, *;q=0", "no"},
	{true, "*", "ambiguous"},
	{true, "gzip;q=0", "ambiguous"},
	{true, "GZIP", "ambiguous"},
}

var c17Regexps = []string{
	`^(text/.*|application/(javascript|json|xml))(;.*)?$`,
	`^text/`,
	`json`,
	`^application/json$`,
}

var c17Types = []string{"text/plain", "application/octet-stream", "text/html; charset=utf-8", "application/json", "application/json; charset=utf-8",
	"image/png", "application/vnd.api+json", "text/css;charset=utf-8", "application/xml", "video/mp4", "application/x-json-stream"}

var c17Accepts = []string{"", "", "*/*", "text/html,application/json;q=0.9", "", "text/event-stream", "application/json", "text/html, text/event-stream;q=0.9"}
var c17Statuses = []int{200, 200, 200, 201, 404, 500, 200, 503, 206, 204, 200, 304, 301, 403}
var c17ExtraNames = []string{"X-Up-A", "Set-Cookie", "Set-Cookie", "Cache-Control", "Vary", "Content-Language", "Last-Modified", "X-Up-B", "Content-Disposition"}
var c17ExtraVals = []string{"v", "a=b; Path=/", "max-age=60, public", "Origin", "en", "Mon, 01 Jan 2001 00:00:00 GMT", "attachment; filename=\"x.json\"", "a, b"}

func c17Body(g *simcore.Tape, maxBody int) (string, []byte) {
	kind := simcore.Pick(g, []string{"text", "bin", "html", "json", "gzmagic"})
	n := 0
	switch simcore.Pick(g, []int{0, 0, 1, 2, 2, 3, 3, 4}) {
	case 0:
		n = g.Range(1, 64)
	case 1:
		n = 0
	case 2:
		n = g.Range(65, 4096)
	case 3:
		n = g.Range(4097, 65536)
	case 4:
		n = g.Range(65537, 512*1024)
	}
	if n > maxBody {
		n = 1 + n%maxBody
	}
	if n == 0 {
		return kind, nil
	}
	raw := g.Bytes(n)
	lowEntropy := func(b []byte) {
		const alpha = "aeio tn\n"
		for i := range b {
			b[i] = alpha[b[i]&7]
		}
	}
	switch kind {
	case "text":
		lowEntropy(raw)
	case "html":
		lowEntropy(raw)
		copy(raw, "<html><body>")
	case "json":
		lowEntropy(raw)
		copy(raw, `{"a":"`)
	case "gzmagic":
		copy(raw, "\x1f\x8b\x08")
	}
	return kind, raw
}

func c17WriteSizes(g *simcore.Tape, n int) []int {
	var out []int
	switch g.Intn(5) {
	case 0: // one write
	case 1: // a few random cuts
		k := g.Range(1, 8)
		for i := 0; i < k; i++ {
			out = append(out, 1+g.Intn(1+n/2))
		}
	case 2: // dribble first
		k := g.Range(1, 16)
		for i := 0; i < k; i++ {
			out = append(out, 1)
		}
	case 3: // empty first write
		out = append(out, 0)
		if g.Bool() {
			out = append(out, 1+g.Intn(1+n))
		}
	case 4: // equal chunks
		sz := 1 + g.Intn(4096)
		for i := 0; i < 64 && i*sz < n; i++ {
			out = append(out, sz)
		}
	}
	return out
}

func c17GenSpec(g *simcore.Tape, id string, h2 bool, maxBody int, re *regexp.Regexp) c17Spec {
	sp := c17Spec{ID: id}
	sp.Method = simcore.Pick(g, []string{"GET", "GET", "POST", "GET", "HEAD", "GET"})
	// the trigger of the property is a compressed response: bias towards requests and responses that qualify
	cls := simcore.Pick(g, []string{"yes", "yes", "no", "yes", "yes", "no", "ambiguous", "yes", "no", "yes"})
	var aes []c17AE
	for _, a := range c17AEs {
		if a.Class == cls {
			aes = append(aes, a)
		}
	}
	ae := simcore.Pick(g, aes)
	if ae.Present {
		v := ae.Value
		sp.AE = &v
	}
	sp.AEClass = ae.Class
	if a := simcore.Pick(g, c17Accepts); a != "" {
		sp.ReqHeaders = append(sp.ReqHeaders, h2Header{"Accept", a})
	}
	// decoys: entity headers of the REQUEST must not influence the decision about the RESPONSE
	if t := simcore.Pick(g, []string{"", "", "application/json", "text/plain"}); t != "" {
		sp.ReqHeaders = append(sp.ReqHeaders, h2Header{"Content-Type", t})
	}
	if g.Intn(8) == 7 && !h2 {
		sp.ReqHeaders = append(sp.ReqHeaders, h2Header{"Content-Encoding", "gzip"})
	}
	if sp.Method == "POST" {
		sp.ReqBody = g.Range(0, 100)
	}
	sp.Status = simcore.Pick(g, c17Statuses)
	sp.Explicit = sp.Status != 200 || h2 || g.Bool()
	// informational responses (103 Early Hints, 102 Processing, 100 Continue) before the final status
	switch g.Intn(6) {
	case 4:
		sp.Info = []int{103}
	case 5:
		n := g.Range(1, 2)
		for i := 0; i < n; i++ {
			code := 103 // the raw upstream of the H2 environment sends 103 only
			if !h2 {
				code = simcore.Pick(g, []int{103, 102, 100})
			}
			sp.Info = append(sp.Info, code)
		}
	}
	if len(sp.Info) > 0 {
		sp.InfoHdr = "proxy"
		if !h2 {
			sp.InfoHdr = simcore.Pick(g, []string{"proxy", "kept", "proxy", "own"})
			if sp.InfoHdr == "own" {
				sp.InfoCT = simcore.Pick(g, c17Types)
			}
		}
	}
	if !h2 {
		sp.Slow = g.Intn(3) == 2
	}
	switch k := g.Intn(10); {
	case k == 9: // absent
	default:
		var pool []string
		for _, t := range c17Types {
			if re.MatchString(t) == (k < 6) {
				pool = append(pool, t)
			}
		}
		if len(pool) == 0 {
			pool = c17Types
		}
		t := simcore.Pick(g, pool)
		sp.CT = &t
	}
	sp.CE = simcore.Pick(g, []string{"", "", "", "gzip", "", "", "br", "", "", "deflate", "", ""})
	if h2 && sp.CE == "gzip" && (sp.AE == nil || *sp.AE == "") {
		// net/http's Transport would ask the upstream for gzip on its own and undo it: outside the property
		sp.CE = "br"
	}
	sp.HasCL = g.Intn(5) < 2
	n := g.Intn(4)
	used := map[string]bool{}
	for i := 0; i < n; i++ {
		k := simcore.Pick(g, c17ExtraNames)
		if used[k] && k != "Set-Cookie" {
			continue
		}
		used[k] = true
		op := c17HdrOp{K: k, V: simcore.Pick(g, c17ExtraVals)}
		if k == "Vary" {
			op.V = simcore.Pick(g, []string{"Origin", "Accept-Language", "Cookie, Origin"})
		}
		if !h2 && k != "Set-Cookie" {
			op.Set = g.Bool()
		}
		sp.Extra = append(sp.Extra, op)
	}
	if sp.Status == 204 || sp.Status == 304 {
		sp.BodyKind = "none"
	} else {
		sp.BodyKind, sp.Body = c17Body(g, maxBody)
		if h2 {
			sp.Chunks = c07GenChunks(g, len(sp.Body)+100)
		} else {
			sp.Chunks = c17WriteSizes(g, len(sp.Body))
		}
	}
	sp.BodyLen = len(sp.Body)
	if h2 && (len(sp.Body) == 0 || sp.CT == nil) {
		// A chunked upstream reply makes httputil.ReverseProxy start an immediate-flush timer goroutine that
		// races with the handler's first Write (Go scheduler, not driver): with an empty body the client sees
		// either "Content-Length: 0" or an empty chunked body, without a Content-Type net/http sniffs one or
		// not. Neither concerns the property, but both would make the trace depend on the Go scheduler,
		// so such replies always declare their length.
		sp.HasCL = true
	}
	if h2 && len(sp.Body) > c17MaxChunkedBody {
		// httputil.ReverseProxy copies a body of unknown length under its flush mutex: when the simulated
		// network window (64 KiB) fills up, the blocked Write holds that real mutex, the flush timer goroutine
		// waits for it non-durably and the bubble never becomes quiescent. Larger replies declare their length.
		sp.HasCL = true
	}
	if !h2 {
		// which optional interfaces the writer under the compression layer offers, and how the handler uses them
		sp.Writer = simcore.Pick(g, []string{"fabio", "http1", "fabio", "http2", "bare", "http1"})
		switch g.Intn(6) {
		case 4:
			sp.Hijack = "assert"
		case 5:
			sp.Hijack = "controller"
		}
		if sp.Hijack != "" {
			sp.HijackOK = g.Bool() && (sp.Writer == "fabio" || sp.Writer == "http1")
			sp.AfterHijack = sp.HijackOK && g.Intn(3) == 2
		}
		nw := len(c17Pieces(sp.Body, sp.Chunks))
		for i, n := 0, simcore.Pick(g, []int{0, 0, 1, 0, 2, 3, 1}); i < n; i++ {
			sp.Calls = append(sp.Calls, c17Call{At: g.Intn(nw + 1), Kind: simcore.Pick(g, []string{"flush", "flush-controller", "flush", "push", "closenotify"})})
		}
		sort.SliceStable(sp.Calls, func(i, j int) bool { return sp.Calls[i].At < sp.Calls[j].At })
		sp.CopyRest = g.Intn(4) == 3
	}
	return sp
}

// c17Pieces is the sequence of body writes of the scripted handler: the write sizes as far as the body reaches
// (an exhausted body gives empty writes), then the remainder.
func c17Pieces(body []byte, sizes []int) [][]byte {
	var out [][]byte
	rest := body
	for _, n := range sizes {
		if n > len(rest) {
			n = len(rest)
		}
		out = append(out, rest[:n])
		rest = rest[n:]
	}
	if len(rest) > 0 {
		out = append(out, rest)
	}
	return out
}

// c17MakeUpgrade turns an exchange of an H2 run into a websocket upgrade: in two of three cases the upstream accepts
// (101 Switching Protocols, the connection becomes a tunnel), otherwise it answers with the ordinary response drawn
// before (any status, compressible body or not).
func c17MakeUpgrade(g *simcore.Tape, sp *c17Spec) {
	sp.Upgrade = true
	sp.Method = "GET"
	sp.ReqBody = 0
	sp.Info, sp.InfoHdr, sp.InfoCT = nil, "", ""
	sp.ReqHeaders = append(sp.ReqHeaders, h2Header{"Upgrade", "websocket"}, h2Header{"Connection", "Upgrade"},
		h2Header{"Sec-WebSocket-Key", "dGhlIHNhbXBsZSBub25jZQ=="}, h2Header{"Sec-WebSocket-Version", "13"})
	if g.Intn(3) != 2 {
		sp.Status = 101
		sp.Explicit = true
		sp.CE = ""
		sp.BodyKind, sp.Body, sp.BodyLen, sp.Chunks = "none", nil, 0, nil
		sp.HasCL = true
		sp.Extra = append(sp.Extra, c17HdrOp{K: "Sec-Websocket-Accept", V: "s3pPLMBiTxaQ9kYGzzhZRbK+xOo="})
	}
}

// c17MaxChunkedBody is the largest upstream reply of unknown length in H2 runs (below the simnet window).
const c17MaxChunkedBody = 48000

func c17Gen(g *simcore.Tape, thorough bool, force string) (*c17Scenario, *regexp.Regexp) {
	sc := &c17Scenario{Mode: "statement"}
	if g.Intn(3) == 2 {
		sc.Mode = "h2"
	}
	if force != "" {
		sc.Mode = force
	}
	sc.Regexp = simcore.Pick(g, c17Regexps)
	re := regexp.MustCompile(sc.Regexp)
	h2 := sc.Mode == "h2"
	var ntasks, maxBody int
	if h2 {
		ntasks = g.Range(1, 3)
		maxBody = 30000
		if thorough {
			maxBody = 200000
		}
		sc.Adopt = g.Intn(3) != 2
		sc.Slow = sc.Adopt && g.Intn(3) == 2
	} else {
		ntasks = g.Range(2, 4)
		if thorough {
			ntasks = g.Range(2, 6)
		}
		maxBody = 512 * 1024
		sc.Stick = []int{1, 1, 3, 8}[g.Intn(4)]
		sc.Shared = g.Bool()
	}
	id := 0
	for t := 0; t < ntasks; t++ {
		n := g.Range(1, 4)
		var list []c17Spec
		for k := 0; k < n; k++ {
			sp := c17GenSpec(g, fmt.Sprintf("x%d", id), h2, maxBody, re)
			if sc.Adopt {
				// A chunked upstream reply makes httputil.ReverseProxy copy the body under its own
				// flush mutex, which a timer goroutine also takes: a task parked inside
				// GzipResponseWriter.Write would then hold a real lock. With tasks, upstreams
				// therefore always declare a Content-Length (chunked replies run untasked).
				sp.HasCL = true
			}
			list = append(list, sp)
			id++
		}
		if h2 && g.Intn(3) == 2 {
			// an upgraded connection is a tunnel: nothing may follow on it
			c17MakeUpgrade(g, &list[len(list)-1])
		}
		sc.Tasks = append(sc.Tasks, list)
	}
	if h2 {
		upgrades := 0
		for _, list := range sc.Tasks {
			if list[len(list)-1].Upgrade {
				upgrades++
			}
		}
		sc.NoHijack = g.Intn(3) == 2 && upgrades > 0
		if sc.NoHijack {
			// What fabio itself answers when the connection cannot be taken over is not for this oracle to say: a
			// further client that does NOT accept gzip (its response bypasses the compression layer by the
			// property's own terms) sends the same upgrade request and supplies the reference.
			sp := c17Spec{ID: fmt.Sprintf("x%d", id), Method: "GET", AEClass: "no", Upgrade: true, Control: true, Status: 101, Explicit: true, BodyKind: "none"}
			sp.ReqHeaders = []h2Header{{"Upgrade", "websocket"}, {"Connection", "Upgrade"}, {"Sec-WebSocket-Key", "dGhlIHNhbXBsZSBub25jZQ=="}, {"Sec-WebSocket-Version", "13"}}
			sc.Tasks = append(sc.Tasks, []c17Spec{sp})
			id++
		}
	}
	sc.Exchngs = id
	return sc, re
}

// sentHeader is the header set the inner handler / upstream produces for sp.
func (sp *c17Spec) sentHeader() http.Header {
	h := http.Header{}
	if sp.CT != nil {
		h.Set("Content-Type", *sp.CT)
	}
	if sp.CE != "" {
		h.Set("Content-Encoding", sp.CE)
	}
	if sp.HasCL && sp.Status != 204 && sp.Status != 304 {
		h.Set("Content-Length", strconv.Itoa(len(sp.Body)))
	}
	for _, op := range sp.Extra {
		if op.Set {
			h.Set(op.K, op.V)
		} else {
			h.Add(op.K, op.V)
		}
	}
	return h
}

// ---------------------------------------------------------------- oracle

// c17Got is what the client (or the recording writer standing in for net/http's server) observed.
type c17Got struct {
	Err     error // no response at all
	Status  int
	Header  http.Header
	Body    []byte
	BodyErr error
	Interim []int // informational statuses delivered before the final one
}

func c17Gunzip(b []byte) ([]byte, error) {
	zr, err := stdgzip.NewReader(bytes.NewReader(b))
	if err != nil {
		return nil, err
	}
	out, err := io.ReadAll(zr)
	if err != nil {
		return out, err
	}
	return out, zr.Close()
}

func c17SameList(a, b []string) bool {
	if len(a) != len(b) {
		return false
	}
	for i := range a {
		if a[i] != b[i] {
			return false
		}
	}
	return true
}

// c17Judge checks one exchange against the property statement.
//
//	compressed  =>  client accepts gzip AND content type matches the expression AND not already encoded;
//	                Content-Encoding: gzip; Content-Length absent or equal to what is delivered; gunzip(body) == produced bytes
//	otherwise   =>  body and headers identical (Vary: Accept-Encoding and a sniffed Content-Type where none was produced are not alterations)
//	always      =>  status identical
//
// Narrowings: "only if" is taken literally (a response that could have been compressed but was not is not a violation, it is only counted);
// an absent content type and Accept-Encoding values whose meaning is debatable make the decision free.
func c17Judge(r *simcore.Run, re *regexp.Regexp, sp *c17Spec, got *c17Got, h2 bool) (compressed bool) {
	what := fmt.Sprintf("%s id=%s accept-encoding=%s status=%d type=%s encoding=%q body=%d(%s)", sp.Method, sp.ID, c17Str(sp.AE), sp.Status, c17Str(sp.CT), sp.CE, len(sp.Body), sp.BodyKind)
	if sp.Upgrade {
		what += " (websocket upgrade request)"
	}
	if got == nil || got.Err != nil {
		var err error
		if got != nil {
			err = got.Err
		}
		r.Fail("response", "no-response", "%s: the client got no response: %v", what, err)
		return false
	}
	wantStatus := 200
	if sp.Explicit {
		wantStatus = sp.Status
	}
	if got.Status != wantStatus {
		r.Fail("status", "changed", "%s: produced status %d, delivered %d", what, wantStatus, got.Status)
	}
	if len(sp.Info) > 0 {
		// Only the final status is demanded (narrow reading of "the status code is preserved"); what became of
		// the informational responses themselves is counted, not judged.
		r.Probe("informational_responses_first")
		if fmt.Sprint(got.Interim) != fmt.Sprint(sp.Info) {
			r.Probe("informational_responses_not_delivered_as_produced")
		}
	}
	sent := sp.sentHeader()
	bodiless := sp.Method == "HEAD" || wantStatus == 204 || wantStatus == 304 || wantStatus == http.StatusSwitchingProtocols

	// may the response be compressed at all?
	why := ""
	switch {
	case sp.AEClass == "no":
		why = "client-does-not-accept-gzip"
	case sp.CE != "":
		why = "already-encoded"
	case sp.CT != nil && !re.MatchString(*sp.CT):
		why = "content-type-does-not-match"
	}
	eligible := sp.AEClass == "yes" && sp.CE == "" && sp.CT != nil && re.MatchString(*sp.CT)

	sentCE, gotCE := sent["Content-Encoding"], got.Header["Content-Encoding"]
	labelled := !c17SameList(sentCE, gotCE)
	same := bodiless || bytes.Equal(got.Body, sp.Body)
	var plain []byte
	var zerr error
	if !bodiless && (labelled || !same) {
		plain, zerr = c17Gunzip(got.Body)
	}

	switch {
	case labelled:
		compressed = true
		if !c17SameList(gotCE, []string{"gzip"}) {
			r.Fail("compressed", "label", "%s: Content-Encoding produced %q, delivered %q", what, sentCE, gotCE)
		}
		if why != "" {
			r.Fail("compressed", why, "%s with expression %s: the response was compressed (Content-Encoding %q) although it must not be: %s", what, re, gotCE, why)
		}
		if !bodiless {
			if cl := got.Header["Content-Length"]; len(cl) > 0 && (len(cl) != 1 || cl[0] != strconv.Itoa(len(got.Body))) {
				r.Fail("compressed", "stale-content-length", "%s: compressed response carries Content-Length %q, %d bytes were delivered", what, cl, len(got.Body))
			} else if got.BodyErr != nil {
				r.Fail("compressed", "body-error", "%s: reading the compressed body failed after %d bytes: %v", what, len(got.Body), got.BodyErr)
			}
			if zerr != nil || !bytes.Equal(plain, sp.Body) {
				r.Fail("compressed", "roundtrip", "%s: gunzip of the delivered %d bytes gives %d bytes (err %v), the handler produced %d (equal prefix %d)", what, len(got.Body), len(plain), zerr, len(sp.Body), commonPrefix(plain, sp.Body))
			}
		}
	case same:
		if got.BodyErr != nil {
			r.Fail("identity", "body-error", "%s: reading the body failed: %v", what, got.BodyErr)
		}
	default: // label unchanged, body differs
		if zerr == nil && bytes.Equal(plain, sp.Body) {
			compressed = true
			if sp.CE != "" {
				r.Fail("compressed", "already-encoded", "%s: the already encoded body was compressed once more", what)
			} else {
				r.Fail("compressed", "unlabelled", "%s: the body was compressed but Content-Encoding is %q", what, gotCE)
			}
		} else {
			r.Fail("identity", "body", "%s: not compressed, yet the delivered body (%d bytes, err %v) differs from the produced one (%d bytes, equal prefix %d)", what, len(got.Body), got.BodyErr, len(sp.Body), commonPrefix(got.Body, sp.Body))
		}
	}

	// headers
	skip := map[string]bool{"Content-Encoding": true, "Vary": true}
	if sp.CT == nil || (h2 && wantStatus == 304) {
		skip["Content-Type"] = true
	}
	if h2 || compressed {
		skip["Content-Length"] = true // h2: framing is the server's business; compressed: checked above
	}
	if h2 {
		skip["Date"] = true
	}
	gotH := got.Header
	if h2 {
		gotH = http.Header(h2EndToEnd(got.Header, nil))
	}
	if d := c17HeaderDiff(sent, gotH, skip); d != "" {
		cls := "identity"
		if compressed {
			cls = "compressed"
		}
		r.Fail(cls, "header", "%s: %s", what, d)
	}
	var vary []string
	for _, v := range gotH["Vary"] {
		if !strings.EqualFold(strings.TrimSpace(v), "Accept-Encoding") {
			vary = append(vary, v)
		}
	}
	if !c17SameList(vary, sent["Vary"]) {
		r.Fail("identity", "vary", "%s: produced Vary %q, delivered %q", what, sent["Vary"], gotH["Vary"])
	}

	// bookkeeping
	if compressed {
		r.Probe("compressed")
		if sp.AE != nil && *sp.AE == "gzip;q=0" {
			r.Probe("compressed_for_gzip_q0")
		}
		if len(sp.Body) > 65536 {
			r.Probe("compressed_body_above_64k")
		}
		if sp.CT == nil {
			r.Probe("compressed_sniffed_type")
		}
	} else {
		r.Probe("passed_through")
		if eligible {
			r.Probe("eligible_not_compressed")
			if len(sp.Info) > 0 {
				r.Probe("eligible_not_compressed_after_informational")
			}
		}
	}
	return compressed
}

func c17Str(p *string) string {
	if p == nil {
		return "<absent>"
	}
	return strconv.Quote(*p)
}

// c17HeaderDiff reports the first difference (in key order) between the produced and the delivered headers.
func c17HeaderDiff(sent, got http.Header, skip map[string]bool) string {
	keys := map[string]bool{}
	for k := range sent {
		keys[k] = true
	}
	for k := range got {
		keys[k] = true
	}
	var ks []string
	for k := range keys {
		if !skip[k] {
			ks = append(ks, k)
		}
	}
	sort.Strings(ks)
	for _, k := range ks {
		if !c17SameList(sent[k], got[k]) {
			return fmt.Sprintf("header %s: produced %q, delivered %q", k, sent[k], got[k])
		}
	}
	return ""
}

// ---------------------------------------------------------------- statement level

// c17Rec stands in for net/http's response: an informational status (1xx other than 101) goes out at once with the
// headers of that moment and leaves the response open; the header map is frozen at the first other status, Write or
// Flush. With slow set the client is slow: every write that reaches the network (informational responses, body
// writes, flushes, writes to a hijacked connection) is a scheduling point at which the handler is parked until the
// driver releases it - also when the write is issued from inside compress/gzip, which has no yield sites of its own.
// Once the connection has been hijacked the response is out of net/http's hands: status calls are ignored, Write
// fails with http.ErrHijacked, and what the client sees is what is written to the connection.
//
// c17Rec itself offers http.ResponseWriter only; the flavours below add optional interfaces.
type c17Rec struct {
	r        *simcore.Run
	hdr      http.Header
	snap     http.Header
	status   int
	interim  []int
	body     bytes.Buffer
	slow     bool
	finished bool

	hijackOK bool
	hijacked bool
	dirty    bool         // something had been written through the ResponseWriter when the connection was taken over
	stream   bytes.Buffer // bytes written to the hijacked connection
	flushes  int
}

func (w *c17Rec) Header() http.Header { return w.hdr }
func (w *c17Rec) late() bool {
	if w.finished {
		w.r.Fail("isolation", "write-into-finished-response", "a response writer was used after its handler had returned")
	}
	return w.finished
}
func (w *c17Rec) WriteHeader(code int) {
	if w.late() || w.snap != nil || w.hijacked {
		return
	}
	if code >= 100 && code <= 199 && code != http.StatusSwitchingProtocols {
		if w.slow {
			simhook.Pause()
		}
		w.interim = append(w.interim, code)
		return
	}
	w.snap = w.hdr.Clone()
	w.status = code
}
func (w *c17Rec) Write(b []byte) (int, error) {
	if w.slow {
		simhook.Pause()
	}
	if w.late() {
		return 0, http.ErrHandlerTimeout
	}
	if w.hijacked {
		return 0, http.ErrHijacked
	}
	if w.snap == nil {
		w.WriteHeader(200)
	}
	return w.body.Write(b)
}
func (w *c17Rec) flush() {
	if w.slow {
		simhook.Pause()
	}
	if w.late() || w.hijacked {
		return
	}
	if w.snap == nil {
		w.WriteHeader(200)
	}
	w.flushes++
}
func (w *c17Rec) hijack() (net.Conn, *bufio.ReadWriter, error) {
	if w.late() {
		return nil, nil, http.ErrHandlerTimeout
	}
	if w.hijacked {
		return nil, nil, http.ErrHijacked
	}
	if !w.hijackOK {
		return nil, nil, errors.New("this connection cannot be hijacked")
	}
	w.dirty = w.snap != nil || len(w.interim) > 0
	w.hijacked = true
	c := &c17Conn{rec: w}
	return c, bufio.NewReadWriter(bufio.NewReader(c), bufio.NewWriter(c)), nil
}
func (w *c17Rec) readFrom(src io.Reader) (n int64, err error) {
	buf := make([]byte, 32<<10)
	for {
		k, rerr := src.Read(buf)
		if k > 0 {
			m, werr := w.Write(buf[:k])
			n += int64(m)
			if werr != nil {
				return n, werr
			}
		}
		if rerr == io.EOF {
			return n, nil
		}
		if rerr != nil {
			return n, rerr
		}
	}
}
func (w *c17Rec) result() *c17Got {
	if w.snap == nil { // the handler wrote nothing: net/http sends 200 with the headers as they are
		w.snap = w.hdr.Clone()
		w.status = 200
	}
	return &c17Got{Status: w.status, Header: w.snap, Body: w.body.Bytes(), Interim: w.interim}
}

// the flavours: which optional interfaces the writer under the compression layer offers
type (
	c17RecFabio struct{ *c17Rec } // like fabio's proxy.responseWriter: Flusher, Hijacker (which may fail)
	c17RecH1    struct{ *c17Rec } // like net/http's HTTP/1 response: Flusher, Hijacker, CloseNotifier, ReaderFrom
	c17RecH2    struct{ *c17Rec } // like net/http's HTTP/2 response: Flusher, CloseNotifier, Pusher
)

func (w c17RecFabio) Flush()                                       { w.flush() }
func (w c17RecFabio) Hijack() (net.Conn, *bufio.ReadWriter, error) { return w.hijack() }
func (w c17RecH1) Flush()                                          { w.flush() }
func (w c17RecH1) Hijack() (net.Conn, *bufio.ReadWriter, error)    { return w.hijack() }
func (w c17RecH1) CloseNotify() <-chan bool                        { return make(chan bool, 1) }
func (w c17RecH1) ReadFrom(src io.Reader) (int64, error)           { return w.readFrom(src) }
func (w c17RecH2) Flush()                                          { w.flush() }
func (w c17RecH2) CloseNotify() <-chan bool                        { return make(chan bool, 1) }
func (w c17RecH2) Push(string, *http.PushOptions) error            { return http.ErrNotSupported }

func (w *c17Rec) flavour(name string) http.ResponseWriter {
	switch name {
	case "fabio":
		return c17RecFabio{w}
	case "http1":
		return c17RecH1{w}
	case "http2":
		return c17RecH2{w}
	}
	return w
}

// c17Conn is the connection of a hijacked exchange as the handler sees it: what is written goes to the client.
type c17Conn struct {
	rec    *c17Rec
	closed bool
}

type c17Addr string

func (a c17Addr) Network() string { return "tcp" }
func (a c17Addr) String() string  { return string(a) }

func (c *c17Conn) Read([]byte) (int, error) { return 0, io.EOF }
func (c *c17Conn) Write(b []byte) (int, error) {
	if c.rec.slow {
		simhook.Pause()
	}
	if c.closed {
		return 0, net.ErrClosed
	}
	return c.rec.stream.Write(b)
}
func (c *c17Conn) Close() error                     { c.closed = true; return nil }
func (c *c17Conn) LocalAddr() net.Addr              { return c17Addr("192.0.2.1:80") }
func (c *c17Conn) RemoteAddr() net.Addr             { return c17Addr("192.0.2.2:5000") }
func (c *c17Conn) SetDeadline(time.Time) error      { return nil }
func (c *c17Conn) SetReadDeadline(time.Time) error  { return nil }
func (c *c17Conn) SetWriteDeadline(time.Time) error { return nil }

// c17OnlyReader hides every other method of a reader (io.Copy then has to ask the destination for io.ReaderFrom).
type c17OnlyReader struct{ io.Reader }

const c17StreamHead = "HTTP/1.1 101 Switching Protocols\r\nUpgrade: websocket\r\nConnection: Upgrade\r\n\r\n"

// c17Inner plays the scripted responses.
func c17Inner(specs map[string]*c17Spec) http.Handler {
	return http.HandlerFunc(func(w http.ResponseWriter, req *http.Request) {
		sp := specs[req.Header.Get("X-Sim-Id")]
		if sp.Hijack != "" {
			// like a websocket handler: take over the connection and talk on it; if that is not possible the
			// scripted response (typically an error) goes through the ResponseWriter
			var conn net.Conn
			var brw *bufio.ReadWriter
			err := errors.New("not a Hijacker")
			if sp.Hijack == "controller" {
				conn, brw, err = http.NewResponseController(w).Hijack()
			} else if hj, ok := w.(http.Hijacker); ok {
				conn, brw, err = hj.Hijack()
			}
			if err == nil {
				sp.tookConn = true
				pieces := append([][]byte{[]byte(c17StreamHead)}, c17Pieces(sp.Body, sp.Chunks)...)
				for i, b := range pieces {
					sp.rawSent = append(sp.rawSent, b...)
					if i%2 == 0 {
						conn.Write(b)
					} else {
						brw.Write(b)
						brw.Flush()
					}
				}
				if sp.AfterHijack {
					http.Error(w, "the other side went away", http.StatusBadGateway)
				}
				conn.Close()
				return
			}
		}
		h := w.Header()
		if sp.InfoHdr != "kept" {
			// like httputil.ReverseProxy: the informational response carries header fields of its own and the
			// header map is emptied before the final header is assembled
			for i, code := range sp.Info {
				h.Set("Link", fmt.Sprintf("</style%d.css>; rel=preload", i))
				if sp.InfoHdr == "own" {
					h.Set("Content-Type", sp.InfoCT)
				}
				w.WriteHeader(code)
				clear(h)
			}
		}
		if sp.CT != nil {
			h.Set("Content-Type", *sp.CT)
		}
		if sp.CE != "" {
			h.Set("Content-Encoding", sp.CE)
		}
		if sp.HasCL && sp.Status != 204 && sp.Status != 304 {
			h.Set("Content-Length", strconv.Itoa(len(sp.Body)))
		}
		for _, op := range sp.Extra {
			if op.Set {
				h.Set(op.K, op.V)
			} else {
				h.Add(op.K, op.V)
			}
		}
		if sp.InfoHdr == "kept" {
			for _, code := range sp.Info {
				w.WriteHeader(code)
			}
		}
		if sp.Explicit {
			w.WriteHeader(sp.Status)
		}
		calls := sp.Calls
		use := func(at int) {
			for len(calls) > 0 && calls[0].At <= at {
				switch calls[0].Kind {
				case "flush":
					if f, ok := w.(http.Flusher); ok {
						f.Flush()
					}
				case "flush-controller":
					http.NewResponseController(w).Flush()
				case "push":
					if p, ok := w.(http.Pusher); ok {
						p.Push("/style.css", nil)
					}
				case "closenotify":
					if cn, ok := w.(http.CloseNotifier); ok {
						cn.CloseNotify()
					}
				}
				calls = calls[1:]
			}
		}
		if sp.Status == 204 || sp.Status == 304 {
			use(0)
			return
		}
		pieces := c17Pieces(sp.Body, sp.Chunks)
		for i, b := range pieces {
			use(i)
			if sp.CopyRest && i == len(pieces)-1 && i >= len(sp.Chunks) {
				io.Copy(w, c17OnlyReader{bytes.NewReader(b)})
			} else {
				w.Write(b)
			}
		}
		use(len(pieces))
	})
}

// c17JudgeHijacked: the handler took over the connection and produced its response as a raw stream (status line
// included). Status and content are preserved iff exactly that stream reached the client: nothing before it (a
// status or interim response written through the ResponseWriter would precede the handler's own status line) and
// the bytes unchanged. What the handler says through the ResponseWriter afterwards never reaches the client.
func c17JudgeHijacked(r *simcore.Run, sp *c17Spec, rec *c17Rec) {
	what := fmt.Sprintf("%s id=%s accept-encoding=%s writer=%s: the handler took over the connection and wrote %d bytes to it", sp.Method, sp.ID, c17Str(sp.AE), sp.Writer, len(sp.rawSent))
	if rec.dirty {
		r.Fail("hijack", "response-before-stream", "%s, but a response (interim %v, status %d) had been written through the ResponseWriter before", what, rec.interim, rec.status)
	}
	if got := rec.stream.Bytes(); !bytes.Equal(got, sp.rawSent) {
		r.Fail("hijack", "stream", "%s, %d reached the client (equal prefix %d)", what, len(got), commonPrefix(got, sp.rawSent))
	}
	r.Probe("hijacked_stream_verified")
}

func runC17Statement(r *simcore.Run, sc *c17Scenario, re *regexp.Regexp) {
	specs := map[string]*c17Spec{}
	for t := range sc.Tasks {
		for k := range sc.Tasks[t] {
			specs[sc.Tasks[t][k].ID] = &sc.Tasks[t][k]
		}
	}
	d := simcore.NewDriver(r)
	d.Stick = sc.Stick
	d.Sim.Activate("gzip")
	inner := c17Inner(specs)
	shared := fgzip.NewGzipHandler(inner, re)
	recs := make([][]*c17Rec, len(sc.Tasks))
	for t := range sc.Tasks {
		t := t
		d.Sim.Spawn(fmt.Sprintf("req%d", t), func() {
			for k := range sc.Tasks[t] {
				sp := &sc.Tasks[t][k]
				var body io.Reader
				if sp.ReqBody > 0 {
					body = strings.NewReader(strings.Repeat("b", sp.ReqBody))
				}
				req := httptest.NewRequest(sp.Method, "http://svc.example.com/p", body)
				req.Header.Set("X-Sim-Id", sp.ID)
				if sp.AE != nil {
					req.Header["Accept-Encoding"] = []string{*sp.AE}
				}
				for _, h := range sp.ReqHeaders {
					req.Header.Add(h.K, h.V)
				}
				rec := &c17Rec{r: r, hdr: http.Header{}, slow: sp.Slow, hijackOK: sp.HijackOK}
				recs[t] = append(recs[t], rec)
				h := shared
				if !sc.Shared {
					h = fgzip.NewGzipHandler(inner, re) // as HTTPProxy.ServeHTTP does: a new wrapper per request
				}
				h.ServeHTTP(rec.flavour(sp.Writer), req)
				rec.finished = true
			}
		})
	}
	overlap := false
	d.Invariant = func() {
		if !overlap && d.Sim.InFunc("gzip", "") >= 2 {
			overlap = true
		}
		r.State(strings.Join(d.Sim.TaskStates(), "|"))
	}
	if !d.Run(400000, func() bool { return d.Sim.Pending() == 0 }) {
		r.Trouble("tasks did not finish: %v", d.Sim.TaskStates())
	}
	ncomp := 0
	for t := range sc.Tasks {
		for k := range sc.Tasks[t] {
			sp := &sc.Tasks[t][k]
			if k >= len(recs[t]) {
				continue // the task died earlier (panic recorded by the driver)
			}
			rec := recs[t][k]
			if !rec.finished {
				continue // the task panicked inside this exchange
			}
			if len(sp.Calls) > 0 {
				r.Probe("handler_uses_flush_push_closenotify")
			}
			if rec.flushes > 0 {
				r.Probe("flush_reached_the_underlying_writer")
			}
			if sp.Hijack != "" && !sp.tookConn {
				r.Probe("hijack_failed_response_through_writer")
			}
			if sp.tookConn {
				c17JudgeHijacked(r, sp, rec)
				r.Tracef("req%d.%d %s -> hijacked, stream=%d", t, k, sp.ID, rec.stream.Len())
				continue
			}
			got := rec.result()
			comp := c17Judge(r, re, sp, got, false)
			if comp {
				ncomp++
			}
			r.Tracef("req%d.%d %s -> interim=%v status=%d ce=%q len=%d compressed=%v", t, k, sp.ID, got.Interim, got.Status, got.Header["Content-Encoding"], len(got.Body), comp)
		}
	}
	if overlap {
		r.Probe("two_tasks_inside_gzip_code")
	}
	if ncomp > 0 {
		r.Nontrivial()
	}
	r.Probe("mode_statement")
	d.Finish()
}

// ---------------------------------------------------------------- event level (H2)

// c17SlowWriter makes every body write of a handler into net/http's response a scheduling point (a client that is
// slow to take the bytes): the handler task is parked before the write, also when compress/gzip issues it.
type c17SlowWriter struct{ http.ResponseWriter }

func (w *c17SlowWriter) Write(b []byte) (int, error) {
	simhook.Pause()
	return w.ResponseWriter.Write(b)
}
func (w *c17SlowWriter) Unwrap() http.ResponseWriter { return w.ResponseWriter }
func (w *c17SlowWriter) Flush() {
	if f, ok := w.ResponseWriter.(http.Flusher); ok {
		f.Flush()
	}
}
func (w *c17SlowWriter) Hijack() (net.Conn, *bufio.ReadWriter, error) {
	if hj, ok := w.ResponseWriter.(http.Hijacker); ok {
		return hj.Hijack()
	}
	return nil, nil, http.ErrNotSupported
}

// c17PlainWriter is a server side writer whose connection cannot be taken over (no http.Hijacker, no Unwrap): what
// a handler gets on an HTTP/2 stream or behind a wrapping middleware.
type c17PlainWriter struct{ http.ResponseWriter }

func (w *c17PlainWriter) Flush() {
	if f, ok := w.ResponseWriter.(http.Flusher); ok {
		f.Flush()
	}
}

// c17FromControl rewrites the response side of sp to what the control request received: the response the inner
// handler produces for an upgrade request whose connection cannot be taken over (it does not depend on
// Accept-Encoding; the control request does not accept gzip, so by the property it was delivered as produced).
func c17FromControl(sp *c17Spec, c *c17Got) {
	sp.Status, sp.Explicit, sp.Info = c.Status, true, nil
	sp.CT, sp.CE, sp.Extra = nil, "", nil
	sp.Body, sp.BodyLen, sp.BodyKind, sp.Chunks = c.Body, len(c.Body), "fabio's own answer", nil
	h := h2EndToEnd(c.Header, map[string]bool{"Content-Length": true, "Date": true})
	var keys []string
	for k := range h {
		keys = append(keys, k)
	}
	sort.Strings(keys)
	for _, k := range keys {
		for _, v := range h[k] {
			switch {
			case k == "Content-Type":
				v := v
				sp.CT = &v
			case k == "Vary" && strings.EqualFold(strings.TrimSpace(v), "Accept-Encoding"):
			default:
				sp.Extra = append(sp.Extra, c17HdrOp{K: k, V: v})
			}
		}
	}
}

func runC17H2(r *simcore.Run, sc *c17Scenario, re *regexp.Regexp) {
	cfg := &config.Config{}
	cfg.Proxy.Strategy = "rnd"
	cfg.Proxy.Matcher = "prefix"
	cfg.Proxy.NoRouteStatus = 404
	cfg.GlobCacheSize = 100
	cfg.Proxy.DialTimeout = 30 * time.Second
	cfg.Proxy.GZIPContentTypes = re
	e := h2NewEnv(r, cfg, "route add svc / http://up0.sim:80/\n")
	defer e.finish()
	var mu sync.Mutex
	perConn := map[string]int{}
	overlap := false
	if sc.Adopt {
		e.d.Sim.Activate("gzip")
		r.Probe("h2_tasked")
		if sc.Slow {
			r.Probe("h2_slow_clients")
		}
		e.d.Invariant = func() {
			if n := e.d.Sim.InFunc("gzip", ""); n >= 1 {
				r.State(strings.Join(e.d.Sim.TaskStates(), "|"))
				if n >= 2 && !overlap {
					overlap = true
					r.Probe("h2_two_handlers_inside_gzip_code")
				}
			}
		}
	}
	if sc.NoHijack {
		r.Probe("h2_writer_cannot_be_hijacked")
	}
	e.wrap = func(h http.Handler) http.Handler {
		if !sc.Adopt && !sc.NoHijack {
			return h
		}
		return http.HandlerFunc(func(w http.ResponseWriter, req *http.Request) {
			if sc.NoHijack {
				w = &c17PlainWriter{w}
			}
			if sc.Adopt {
				mu.Lock()
				perConn[req.RemoteAddr]++
				name := fmt.Sprintf("h:%s#%d", req.RemoteAddr, perConn[req.RemoteAddr])
				mu.Unlock()
				defer simhook.Adopt(name)()
				if sc.Slow {
					w = &c17SlowWriter{w}
				}
			}
			h.ServeHTTP(w, req)
		})
	}
	e.serve(nil)
	e.upstream("up0.sim:80", simnet.ListenOpts{}, nil)
	clients := make([]h2Client, len(sc.Tasks))
	for c := range sc.Tasks {
		cl := &clients[c]
		cl.Addr = fmt.Sprintf("192.0.2.%d:%d", 10+c, 5000+100*c)
		for k := range sc.Tasks[c] {
			sp := &sc.Tasks[c][k]
			rq := h2Req{ID: sp.ID, Method: sp.Method, Path: "/p", Host: "fabio.sim"}
			if sp.AE != nil {
				rq.Headers = append(rq.Headers, h2Header{"Accept-Encoding", *sp.AE})
			}
			rq.Headers = append(rq.Headers, sp.ReqHeaders...)
			if sp.ReqBody > 0 {
				rq.Body = bytes.Repeat([]byte("b"), sp.ReqBody)
				rq.BodyLen = len(rq.Body)
			}
			rs := h2Resp{Status: sp.Status, Body: sp.Body, BodyLen: len(sp.Body), Chunked: !sp.HasCL, Chunks: sp.Chunks, Early: len(sp.Info)}
			if sp.Status == 101 {
				rs.Headers = append(rs.Headers, h2Header{"Upgrade", "websocket"}, h2Header{"Connection", "Upgrade"})
			}
			if sp.CT != nil {
				rs.Headers = append(rs.Headers, h2Header{"Content-Type", *sp.CT})
			}
			if sp.CE != "" {
				rs.Headers = append(rs.Headers, h2Header{"Content-Encoding", sp.CE})
			}
			for _, op := range sp.Extra {
				rs.Headers = append(rs.Headers, h2Header{op.K, op.V})
			}
			rq.Resp = rs
			cl.Reqs = append(cl.Reqs, rq)
		}
	}
	for c := range clients {
		e.client(&clients[c])
	}
	if !e.run(600000, 30*time.Minute) {
		r.Trouble("clients did not finish: %v", e.d.Sim.TaskStates())
		return
	}
	// let the ends of upgraded tunnels travel so that teardown finds nothing in flight
	e.d.Run(4000, func() bool { return !e.net.Pending() })
	// the reference for upgrade requests whose connection could not be taken over (see c17Gen)
	var control *c17Got
	if sc.NoHijack {
		sp := &sc.Tasks[len(sc.Tasks)-1][0]
		if res := e.results[sp.ID]; res != nil {
			control = &c17Got{Err: res.Err, Status: res.Status, Header: res.Header, Body: res.Body, BodyErr: res.BodyErr, Interim: res.Interim}
		}
	}
	ncomp := 0
	for c := range sc.Tasks {
		for k := range sc.Tasks[c] {
			sp := &sc.Tasks[c][k]
			res := e.results[sp.ID]
			if res == nil {
				r.Trouble("no result for %s", sp.ID)
				continue
			}
			got := &c17Got{Err: res.Err, Status: res.Status, Header: res.Header, Body: res.Body, BodyErr: res.BodyErr, Interim: res.Interim}
			spec := *sp
			if sp.Upgrade && sc.NoHijack {
				// fabio's own answer; whether the upstream was contacted is not this property's business
				r.Probe("h2_upgrade_without_hijacker")
				if sp.Control {
					if res.Err != nil {
						r.Fail("response", "no-response", "upgrade request %s of a client that does not accept gzip: no response: %v", sp.ID, res.Err)
					} else if ce := res.Header["Content-Encoding"]; len(ce) > 0 {
						r.Fail("compressed", "client-does-not-accept-gzip", "upgrade request %s without Accept-Encoding was answered with Content-Encoding %q", sp.ID, ce)
					}
					continue
				}
				if control == nil || control.Err != nil || control.BodyErr != nil || len(control.Header["Content-Encoding"]) > 0 {
					continue // no usable reference (reported above)
				}
				c17FromControl(&spec, control)
			} else if len(e.seen[sp.ID]) != 1 {
				r.Fail("response", "not-forwarded-once", "%s %s: the upstream received the request %d times", sp.Method, sp.ID, len(e.seen[sp.ID]))
				continue
			}
			if sp.Upgrade {
				r.Probe(fmt.Sprintf("h2_upgrade_upstream_status_101_%v", sp.Status == 101))
			}
			// the upstream's framing: a Content-Length header is what h2RenderResponse adds when the reply is not chunked
			spec.HasCL = false
			if c17Judge(r, re, &spec, got, true) {
				ncomp++
			}
		}
	}
	if ncomp > 0 {
		r.Nontrivial()
	}
	r.Probe("mode_h2")
}

func runC17(r *simcore.Run) {
	sc, re := c17Gen(r.Gen, r.Thorough(), r.Param("mode"))
	r.SetSample(sc)
	if sc.Mode == "h2" {
		runC17H2(r, sc, re)
	} else {
		runC17Statement(r, sc, re)
	}
}

//go:build verif

package route

// Accessors used by the simulation harnesses (build tag verif only).

type ZZRouteInfo struct {
	Host, Path string
	Targets    []string // URL of every target
	Ring       []string // URL per ring slot
}

// ZZRoutes describes every route of t.
func ZZRoutes(t Table) []ZZRouteInfo {
	var out []ZZRouteInfo
	for _, routes := range t {
		for _, r := range routes {
			ri := ZZRouteInfo{Host: r.Host, Path: r.Path}
			for _, tg := range r.Targets {
				ri.Targets = append(ri.Targets, tg.URL.String())
			}
			for _, tg := range r.wTargets {
				ri.Ring = append(ri.Ring, tg.URL.String())
			}
			out = append(out, ri)
		}
	}
	return out
}

// ZZGlobCacheState returns the number of cached patterns, and the ring bookkeeping of c.
func ZZGlobCacheState(c *GlobCache) (cached, n, h, size int) {
	c.m.Range(func(k, v any) bool { cached++; return true })
	return cached, c.n, c.h, len(c.l)
}

// ZZSetRandIntn replaces the random source of the rnd picker.
func ZZSetRandIntn(f func(int) int) (restore func()) {
	old := randIntn
	randIntn = f
	return func() { randIntn = old }
}

type ZZTargetInfo struct {
	Host, Path, Service, URL string
	FixedWeight, Weight      float64
	Tags                     []string
	Opts                     map[string]string
}

// ZZTargets lists every target of t.
func ZZTargets(t Table) []ZZTargetInfo {
	var out []ZZTargetInfo
	for _, routes := range t {
		for _, r := range routes {
			for _, tg := range r.Targets {
				out = append(out, ZZTargetInfo{Host: r.Host, Path: r.Path, Service: tg.Service, URL: tg.URL.String(),
					FixedWeight: tg.FixedWeight, Weight: tg.Weight, Tags: tg.Tags, Opts: tg.Opts})
			}
		}
	}
	return out
}

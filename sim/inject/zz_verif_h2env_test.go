//go:build verif

package main

// H2 — the HTTP data plane in simulation: a real http.Server serving the proxy
// built by main.newHTTPProxy (after transport.SetConfig, as main does) on a
// simnet listener; raw byte-level clients; raw recording upstreams. Every
// segment delivery and connection establishment is a driver event.

import (
	"bufio"
	"bytes"
	"crypto/tls"
	"fmt"
	"io"
	"net"
	"net/http"
	"sort"
	"strconv"
	"strings"
	"sync"
	"testing/synctest"
	"time"

	"github.com/fabiolb/fabio/config"
	"github.com/fabiolb/fabio/internal/zzverif/simcore"
	"github.com/fabiolb/fabio/internal/zzverif/simnet"
	"github.com/fabiolb/fabio/metrics"
	"github.com/fabiolb/fabio/proxy"
	"github.com/fabiolb/fabio/route"
	"github.com/fabiolb/fabio/transport"
)

const h2FabioAddr = "fabio.sim:9999"

type h2Header struct{ K, V string }

type h2Resp struct {
	Status   int           `json:"status"`
	Headers  []h2Header    `json:"headers,omitempty"`
	BodyLen  int           `json:"body_len"`
	Body     []byte        `json:"-"`
	Chunked  bool          `json:"chunked,omitempty"`
	Chunks   []int         `json:"chunks,omitempty"` // write sizes
	Delay    time.Duration `json:"delay_before_headers,omitempty"`
	Hang     bool          `json:"never_answers,omitempty"`
	ResetAt  int           `json:"reset_after_bytes,omitempty"` // fault: close abruptly after n response bytes (-1: before any)
	CloseAft bool          `json:"close_after,omitempty"`
	Early    int           `json:"informational_responses_first,omitempty"` // number of 103 Early Hints sent before the final response
	// BodyPause: the upstream sends its head at once and then the body in len(Chunks) pieces, pausing this long before each
	BodyPause time.Duration `json:"pause_before_each_body_piece,omitempty"`
	// Tunnel: bytes the upstream sends right after a 101 response (see h2Req.Tunnel)
	Tunnel    []byte `json:"-"`
	TunnelLen int    `json:"bytes_after_101,omitempty"`
}

type h2Req struct {
	ID      string     `json:"id"`
	Route   int        `json:"route"`
	Method  string     `json:"method"`
	Path    string     `json:"path"` // escaped, as written on the wire
	Query   string     `json:"query,omitempty"`
	HasQ    bool       `json:"has_query_mark,omitempty"`
	Host    string     `json:"host"`
	Headers []h2Header `json:"headers,omitempty"`
	BodyLen int        `json:"body_len"`
	Body    []byte     `json:"-"`
	Chunked bool       `json:"chunked,omitempty"`
	Chunks  []int      `json:"chunks,omitempty"`
	Resp    h2Resp     `json:"upstream_response"`
	Abort   int        `json:"client_abort_after_bytes,omitempty"` // fault: client closes after writing n bytes of the request
	// To: address of the fabio listener this request goes to ("" = h2FabioAddr, see serveAt). A client keeps one
	// connection per listener address.
	To string `json:"listener,omitempty"`
	// CloseAfter: the client closes its connection after this exchange (the next request to that listener dials anew)
	CloseAfter bool `json:"client_closes_connection_after,omitempty"`
	// HTTP/2 clients only (see zz_verif_h2c_test.go). Chunked means "no content-length field", Chunks are the sizes of
	// the DATA frames, Abort is the number of body bytes after which the client resets the stream.
	SplitCookie bool `json:"cookie_crumbs_as_separate_fields,omitempty"`
	EndEmpty    bool `json:"end_stream_on_empty_data_frame,omitempty"`
	SplitHead   int  `json:"continuation_after_block_bytes,omitempty"`
	// Tunnel: bytes the client sends once it has read a 101 response; it then reads the len(Resp.Tunnel) bytes of the
	// upstream and closes the connection. The upstream records what it receives until the stream ends (h2Seen.Tunnel).
	// Only when one of the two is non-empty; otherwise a 101 is an ordinary last response of the connection.
	Tunnel    []byte `json:"-"`
	TunnelLen int    `json:"bytes_after_101,omitempty"`
}

type h2Client struct {
	Addr string  `json:"addr"` // ip:port of the first connection; later connections use port+1...
	TLS  bool    `json:"tls,omitempty"`
	Reqs []h2Req `json:"requests"`
	// H2: the client speaks HTTP/2 (over TLS, ALPN h2) with up to Streams concurrently open streams on one connection
	H2      bool `json:"http2,omitempty"`
	Streams int  `json:"max_open_streams,omitempty"`
}

// h2Seen is a request as received by an upstream.
type h2Seen struct {
	Upstream   string
	Method     string
	RequestURI string
	Proto      string
	Host       string
	Header     http.Header
	Body       []byte
	BodyErr    error
	TE         []string
	CL         int64
	At         time.Time
	Remote     string
	Tunnel     []byte // bytes received after the upstream's 101 response (guarded by h2Env.mu while the tunnel is open)
	TunnelEnd  bool   // the stream from fabio ended
}

// h2Result is what a client observed.
type h2Result struct {
	Err      error
	Status   int
	Proto    string
	Header   http.Header
	Body     []byte
	BodyErr  error
	SentAt   time.Time
	DoneAt   time.Time
	HeaderAt time.Time
	TE       []string
	CL       int64
	Interim  []int
	Trailer  http.Header
	// after a 101 response: the bytes read from the tunnel (see h2Req.Tunnel)
	Tunnel    []byte
	TunnelErr error
}

type h2Env struct {
	r     *simcore.Run
	d     *simcore.Driver
	net   *simnet.Net
	cfg   *config.Config
	proxy *proxy.HTTPProxy
	srv   *http.Server
	tlsc  *tls.Config
	// further listeners started with serveAt
	moreSrv     []*http.Server
	moreProxies []*proxy.HTTPProxy
	tlsAt       map[string]bool

	mu       sync.Mutex
	script   map[string]*h2Req
	seen     map[string][]*h2Seen
	results  map[string]*h2Result
	handlers int // requests that reached the proxy handler
	clients  int
	done     int
	wrap     func(http.Handler) http.Handler
	onSeen   func(*h2Seen)
	stop     chan struct{}
	h2conn   map[string]*h2cConn // request id -> HTTP/2 client connection
	tunnels  int                 // upstream ends of tunnels (after a 101) that have not seen the end of their stream
}

func h2NewEnv(r *simcore.Run, cfg *config.Config, table string) *h2Env {
	e := &h2Env{r: r, cfg: cfg, stop: make(chan struct{}), script: map[string]*h2Req{}, seen: map[string][]*h2Seen{}, results: map[string]*h2Result{}}
	e.d = simcore.NewDriver(r)
	e.net = simnet.New(r)
	e.d.Sim.Dial = e.net.DialFunc()
	e.d.AddSource(e.net.Events)
	// exactly what main does: SetConfig first, then tables and proxies are built
	transport.SetConfig(cfg)
	t, err := route.NewTable(bytes.NewBufferString(table))
	if err != nil {
		r.Trouble("scenario table does not parse: %v\n%s", err, table)
		r.Abort()
	}
	route.SetTable(t)
	dp := metrics.DiscardProvider{}
	stats := &proxy.HttpStatsHandler{Noroute: dp.NewCounter("notfound"), Requests: dp.NewHistogram("requests"),
		WSConn: dp.NewGauge("ws.conn"), StatusTimer: dp.NewHistogram("http.status", "code"), RedirectCounter: dp.NewCounter("http.redirect.count", "code")}
	e.proxy = newHTTPProxy(cfg, stats)
	return e
}

// serve starts the real http.Server in front of the proxy.
func (e *h2Env) serve(tlscfg *tls.Config) {
	ln, err := e.net.Listen(h2FabioAddr, simnet.ListenOpts{})
	if err != nil {
		e.r.Trouble("listen: %v", err)
		e.r.Abort()
	}
	var h http.Handler = e.proxy
	if e.wrap != nil {
		h = e.wrap(h)
	}
	counted := http.HandlerFunc(func(w http.ResponseWriter, req *http.Request) {
		e.mu.Lock()
		e.handlers++
		e.mu.Unlock()
		h.ServeHTTP(w, req)
	})
	e.srv = &http.Server{Handler: counted, TLSConfig: tlscfg}
	var l net.Listener = ln
	if tlscfg != nil {
		l = tls.NewListener(ln, tlscfg)
	}
	go e.srv.Serve(l)
}

// serveAt starts one more real http.Server on addr (a "host:port" other than h2FabioAddr) in front of p
// (nil: the proxy of serve). Requests reach it with h2Req.To = addr.
func (e *h2Env) serveAt(addr string, tlscfg *tls.Config, p *proxy.HTTPProxy) {
	ln, err := e.net.Listen(addr, simnet.ListenOpts{})
	if err != nil {
		e.r.Trouble("listen %s: %v", addr, err)
		e.r.Abort()
	}
	if p == nil {
		p = e.proxy
	} else {
		e.moreProxies = append(e.moreProxies, p)
	}
	var h http.Handler = p
	if e.wrap != nil {
		h = e.wrap(h)
	}
	counted := http.HandlerFunc(func(w http.ResponseWriter, req *http.Request) {
		e.mu.Lock()
		e.handlers++
		e.mu.Unlock()
		h.ServeHTTP(w, req)
	})
	srv := &http.Server{Handler: counted, TLSConfig: tlscfg}
	e.moreSrv = append(e.moreSrv, srv)
	e.mu.Lock()
	if e.tlsAt == nil {
		e.tlsAt = map[string]bool{}
	}
	e.tlsAt[addr] = tlscfg != nil
	e.mu.Unlock()
	var l net.Listener = ln
	if tlscfg != nil {
		l = tls.NewListener(ln, tlscfg)
	}
	go srv.Serve(l)
}

// upstream starts a raw recording upstream under key.
func (e *h2Env) upstream(key string, opts simnet.ListenOpts, tlscfg *tls.Config) {
	ln, err := e.net.Listen(key, opts)
	if err != nil {
		e.r.Trouble("listen %s: %v", key, err)
		e.r.Abort()
	}
	go func() {
		for {
			raw, err := ln.Accept()
			if err != nil {
				return
			}
			var c net.Conn = raw
			if tlscfg != nil {
				c = tls.Server(raw, tlscfg)
			}
			go e.serveUpstream(key, raw, c)
		}
	}()
}

func (e *h2Env) serveUpstream(key string, rawConn, c net.Conn) {
	defer c.Close()
	br := bufio.NewReader(c)
	for {
		req, err := http.ReadRequest(br)
		if err != nil {
			return
		}
		body, berr := io.ReadAll(req.Body)
		s := &h2Seen{Upstream: key, Method: req.Method, RequestURI: req.RequestURI, Proto: req.Proto, Host: req.Host,
			Header: req.Header.Clone(), Body: body, BodyErr: berr, TE: req.TransferEncoding, CL: req.ContentLength,
			At: time.Now(), Remote: c.RemoteAddr().String()}
		id := req.Header.Get("X-Sim-Id")
		e.mu.Lock()
		e.seen[id] = append(e.seen[id], s)
		sc := e.script[id]
		onSeen := e.onSeen
		e.mu.Unlock()
		if onSeen != nil {
			onSeen(s)
		}
		e.r.Tracef("upstream %s got %s %s id=%s body=%d", key, req.Method, req.RequestURI, id, len(body))
		if sc != nil && !e.awaitTurn(id) {
			return
		}
		if sc == nil {
			io.WriteString(c, "HTTP/1.1 599 unscripted\r\nContent-Length: 0\r\n\r\n")
			continue
		}
		rs := sc.Resp
		if rs.Hang {
			// never answers; wait until the proxy gives up and closes
			io.Copy(io.Discard, br)
			return
		}
		if rs.Delay > 0 {
			e.d.Hint(time.Now().Add(rs.Delay))
			select {
			case <-time.After(rs.Delay):
			case <-e.stop:
				return
			}
		}
		for i := 0; i < rs.Early; i++ {
			fmt.Fprintf(c, "HTTP/1.1 103 Early Hints\r\nLink: </style%d.css>; rel=preload\r\n\r\n", i)
		}
		raw := h2RenderResponse(req.Method, &rs)
		if rs.ResetAt != 0 {
			n := rs.ResetAt
			if n < 0 {
				n = 0
			}
			if n > len(raw) {
				n = len(raw)
			}
			c.Write(raw[:n])
			if sc, ok := rawConn.(*simnet.Conn); ok {
				// the upstream dies after these bytes have left it
				sc.ResetAfterDelivery()
			}
			// do not close: closing would race the reset
			<-e.stop
			return
		}
		if rs.BodyPause > 0 {
			head := bytes.Index(raw, []byte("\r\n\r\n")) + 4
			if _, err := c.Write(raw[:head]); err != nil {
				return
			}
			rest := raw[head:]
			pieces := len(rs.Chunks)
			if pieces == 0 {
				pieces = 1
			}
			for i := 0; i < pieces; i++ {
				e.d.Hint(time.Now().Add(rs.BodyPause))
				select {
				case <-time.After(rs.BodyPause):
				case <-e.stop:
					return
				}
				n := len(rest) / (pieces - i)
				if i == pieces-1 {
					n = len(rest)
				}
				if _, err := c.Write(rest[:n]); err != nil {
					return
				}
				rest = rest[n:]
			}
		} else if err := h2WriteChunks(c, raw, rs.Chunks); err != nil {
			return
		}
		if rs.Status == 101 && (len(rs.Tunnel) > 0 || len(sc.Tunnel) > 0) {
			e.upstreamTunnel(key, id, c, br, s, &rs)
			return
		}
		if rs.CloseAft {
			return
		}
	}
}

// upstreamTunnel is the upstream's side of the connection after its 101 response: it sends its scripted bytes and
// records what arrives until the stream ends.
func (e *h2Env) upstreamTunnel(key, id string, c net.Conn, br *bufio.Reader, s *h2Seen, rs *h2Resp) {
	e.mu.Lock()
	e.tunnels++
	e.mu.Unlock()
	defer func() {
		e.mu.Lock()
		e.tunnels--
		e.mu.Unlock()
	}()
	if err := h2WriteChunks(c, rs.Tunnel, rs.Chunks); err != nil {
		return
	}
	buf := make([]byte, 4096)
	for {
		n, err := br.Read(buf)
		e.mu.Lock()
		s.Tunnel = append(s.Tunnel, buf[:n]...)
		s.TunnelEnd = err == io.EOF
		total := len(s.Tunnel)
		e.mu.Unlock()
		if err != nil {
			e.r.Tracef("upstream %s tunnel id=%s ended after %d bytes (end of stream: %v)", key, id, total, err == io.EOF)
			return
		}
	}
}

// tunnelsOpen reports how many upstream ends of tunnels have not seen the end of their stream yet.
func (e *h2Env) tunnelsOpen() int {
	e.mu.Lock()
	defer e.mu.Unlock()
	return e.tunnels
}

// clientTunnel is the client's side after it has read a 101 response: it sends its scripted bytes, reads as many
// bytes as the upstream's script sends (giving up after a minute of simulated time) and leaves.
func (e *h2Env) clientTunnel(cl *h2Client, rq *h2Req, res *h2Result, c net.Conn, br *bufio.Reader) {
	if err := h2WriteChunks(c, rq.Tunnel, rq.Chunks); err != nil {
		res.TunnelErr = err
		return
	}
	dl := time.Now().Add(time.Minute)
	e.d.Hint(dl)
	c.SetReadDeadline(dl)
	buf := make([]byte, len(rq.Resp.Tunnel))
	n, err := io.ReadFull(br, buf)
	res.Tunnel, res.TunnelErr = buf[:n], err
	e.r.Tracef("client %s tunnel id=%s got %d of %d bytes err=%v", cl.Addr, rq.ID, n, len(buf), err)
}

func h2WriteChunks(c net.Conn, raw []byte, chunks []int) error {
	for _, n := range chunks {
		if n <= 0 || len(raw) == 0 {
			continue
		}
		if n > len(raw) {
			n = len(raw)
		}
		if _, err := c.Write(raw[:n]); err != nil {
			return err
		}
		raw = raw[n:]
	}
	if len(raw) > 0 {
		if _, err := c.Write(raw); err != nil {
			return err
		}
	}
	return nil
}

func h2NoBody(method string, status int) bool {
	return method == "HEAD" || status == 204 || status == 304 || (status >= 100 && status < 200)
}

func h2RenderResponse(method string, rs *h2Resp) []byte {
	var b bytes.Buffer
	fmt.Fprintf(&b, "HTTP/1.1 %d %s\r\n", rs.Status, http.StatusText(rs.Status))
	for _, h := range rs.Headers {
		fmt.Fprintf(&b, "%s: %s\r\n", h.K, h.V)
	}
	nobody := h2NoBody(method, rs.Status)
	switch {
	case nobody && method == "HEAD" && rs.Status != 204 && rs.Status != 304:
		fmt.Fprintf(&b, "Content-Length: %d\r\n\r\n", len(rs.Body))
	case nobody:
		b.WriteString("\r\n")
	case rs.Chunked:
		b.WriteString("Transfer-Encoding: chunked\r\n\r\n")
		h2ChunkBody(&b, rs.Body, rs.Chunks)
	default:
		fmt.Fprintf(&b, "Content-Length: %d\r\n\r\n", len(rs.Body))
		b.Write(rs.Body)
	}
	return b.Bytes()
}

func h2ChunkBody(b *bytes.Buffer, body []byte, sizes []int) {
	i := 0
	for len(body) > 0 {
		n := 1 + len(body)/2
		if i < len(sizes) && sizes[i] > 0 {
			n = sizes[i]
		}
		i++
		if n > len(body) {
			n = len(body)
		}
		fmt.Fprintf(b, "%x\r\n", n)
		b.Write(body[:n])
		b.WriteString("\r\n")
		body = body[n:]
	}
	b.WriteString("0\r\n\r\n")
}

func h2RenderRequest(rq *h2Req) []byte {
	var b bytes.Buffer
	uri := rq.Path
	if rq.Query != "" || rq.HasQ {
		uri += "?" + rq.Query
	}
	fmt.Fprintf(&b, "%s %s HTTP/1.1\r\nHost: %s\r\nX-Sim-Id: %s\r\n", rq.Method, uri, rq.Host, rq.ID)
	for _, h := range rq.Headers {
		fmt.Fprintf(&b, "%s: %s\r\n", h.K, h.V)
	}
	switch {
	case rq.Chunked:
		b.WriteString("Transfer-Encoding: chunked\r\n\r\n")
		h2ChunkBody(&b, rq.Body, rq.Chunks)
	case len(rq.Body) > 0 || rq.Method == "POST" || rq.Method == "PUT" || rq.Method == "PATCH":
		fmt.Fprintf(&b, "Content-Length: %d\r\n\r\n", len(rq.Body))
		b.Write(rq.Body)
	default:
		b.WriteString("\r\n")
	}
	return b.Bytes()
}

// client runs one scripted client; every request of it is registered first.
func (e *h2Env) client(cl *h2Client) {
	if cl.H2 {
		e.clientH2(cl)
		return
	}
	e.mu.Lock()
	e.clients++
	for i := range cl.Reqs {
		e.script[cl.Reqs[i].ID] = &cl.Reqs[i]
	}
	e.mu.Unlock()
	go func() {
		defer func() {
			e.mu.Lock()
			e.done++
			e.mu.Unlock()
		}()
		base := e.netAddr(cl.Addr)
		// one connection per listener address (only h2FabioAddr unless requests name another one)
		type clientConn struct {
			c  net.Conn
			br *bufio.Reader
		}
		conns := map[string]*clientConn{}
		var order []string // listener addresses in the order of their first use
		nconn := 0
		closeConn := func(to string) {
			if cc := conns[to]; cc != nil {
				cc.c.Close()
				delete(conns, to)
			}
		}
		defer func() {
			for _, to := range order {
				closeConn(to)
			}
		}()
		for i := range cl.Reqs {
			rq := &cl.Reqs[i]
			res := &h2Result{}
			e.mu.Lock()
			e.results[rq.ID] = res
			e.mu.Unlock()
			to, useTLS := h2FabioAddr, cl.TLS
			if rq.To != "" && rq.To != h2FabioAddr {
				to = rq.To
				e.mu.Lock()
				useTLS = e.tlsAt[to]
				e.mu.Unlock()
			}
			if conns[to] == nil {
				known := false
				for _, o := range order {
					known = known || o == to
				}
				if !known {
					order = append(order, to)
				}
				from := &net.TCPAddr{IP: base.IP, Port: base.Port + nconn, Zone: base.Zone}
				nconn++
				raw, err := e.net.Dial(e.r.Ctx(), from, to, 0)
				if err != nil {
					res.Err = err
					continue
				}
				var c net.Conn = raw
				if useTLS {
					tc := tls.Client(raw, &tls.Config{InsecureSkipVerify: true, ServerName: "fabio.sim", NextProtos: []string{"http/1.1"}})
					if err := tc.Handshake(); err != nil {
						res.Err = err
						raw.Close()
						continue
					}
					c = tc
				}
				conns[to] = &clientConn{c: c, br: bufio.NewReader(c)}
			}
			c, br := conns[to].c, conns[to].br
			raw := h2RenderRequest(rq)
			res.SentAt = time.Now()
			e.r.Tracef("client %s sends %s %s id=%s", cl.Addr, rq.Method, rq.Path, rq.ID)
			if rq.Abort > 0 {
				n := rq.Abort
				if n > len(raw) {
					n = len(raw)
				}
				c.Write(raw[:n])
				closeConn(to)
				res.Err = fmt.Errorf("client aborted after %d bytes", n)
				continue
			}
			if err := h2WriteChunks(c, raw, rq.Chunks); err != nil {
				res.Err = err
				closeConn(to)
				continue
			}
			resp, err := http.ReadResponse(br, &http.Request{Method: rq.Method})
			// interim responses (100 Continue, 103 Early Hints) precede the final one
			for err == nil && resp.StatusCode >= 100 && resp.StatusCode < 200 && resp.StatusCode != 101 {
				res.Interim = append(res.Interim, resp.StatusCode)
				resp, err = http.ReadResponse(br, &http.Request{Method: rq.Method})
			}
			if err != nil {
				res.Err = err
				closeConn(to)
				continue
			}
			res.HeaderAt = time.Now()
			res.Status, res.Proto, res.Header = resp.StatusCode, resp.Proto, resp.Header.Clone()
			res.TE, res.CL = resp.TransferEncoding, resp.ContentLength
			res.Body, res.BodyErr = io.ReadAll(resp.Body)
			res.DoneAt = time.Now()
			e.r.Tracef("client %s got %d id=%s body=%d err=%v", cl.Addr, res.Status, rq.ID, len(res.Body), res.BodyErr)
			if res.Status == 101 && (len(rq.Tunnel) > 0 || len(rq.Resp.Tunnel) > 0) {
				e.clientTunnel(cl, rq, res, c, br)
				closeConn(to)
				continue
			}
			if resp.Close || res.BodyErr != nil || rq.CloseAfter {
				closeConn(to)
			}
		}
	}()
}

func (e *h2Env) netAddr(s string) *net.TCPAddr {
	host, port, _ := net.SplitHostPort(s)
	p, _ := strconv.Atoi(port)
	zone := ""
	if i := strings.IndexByte(host, '%'); i >= 0 {
		host, zone = host[:i], host[i+1:]
	}
	return &net.TCPAddr{IP: net.ParseIP(host), Port: p, Zone: zone}
}

func (e *h2Env) allDone() bool {
	e.mu.Lock()
	defer e.mu.Unlock()
	return e.done == e.clients
}

// run drives the simulation until every client has finished.
func (e *h2Env) run(maxSteps int, horizon time.Duration) bool {
	for i := 0; i < maxSteps; i++ {
		synctest.Wait()
		if e.allDone() {
			return true
		}
		if !e.d.Step() {
			if !e.d.IdleAdvance(horizon) {
				return e.allDone()
			}
		}
	}
	return e.allDone()
}

func (e *h2Env) finish() {
	close(e.stop)
	if e.srv != nil {
		e.srv.Close()
	}
	for _, srv := range e.moreSrv {
		srv.Close()
	}
	e.net.Shutdown()
	if tr, ok := e.proxy.Transport.(*http.Transport); ok {
		tr.CloseIdleConnections()
	}
	if tr, ok := e.proxy.InsecureTransport.(*http.Transport); ok {
		tr.CloseIdleConnections()
	}
	for _, p := range e.moreProxies {
		if tr, ok := p.Transport.(*http.Transport); ok {
			tr.CloseIdleConnections()
		}
		if tr, ok := p.InsecureTransport.(*http.Transport); ok {
			tr.CloseIdleConnections()
		}
	}
	e.d.Finish()
}

// ---- comparison helpers shared by the H2 oracles ----

var h2HopByHop = map[string]bool{
	"Connection": true, "Keep-Alive": true, "Proxy-Authenticate": true, "Proxy-Authorization": true, "Proxy-Connection": true,
	"Te": true, "Trailer": true, "Transfer-Encoding": true, "Upgrade": true,
}

// headers fabio (or the reverse proxy / transport underneath) manages itself
var h2Managed = map[string]bool{
	"X-Forwarded-For": true, "X-Forwarded-Proto": true, "X-Forwarded-Port": true, "X-Forwarded-Host": true, "X-Forwarded-Prefix": true,
	"Forwarded": true, "X-Real-Ip": true, "User-Agent": true, "Accept-Encoding": true, "Content-Length": true, "X-Sim-Id": true, "Host": true,
}

func h2EndToEnd(h http.Header, extraSkip map[string]bool) map[string][]string {
	out := map[string][]string{}
	drop := map[string]bool{}
	for _, v := range h["Connection"] {
		for _, f := range strings.Split(v, ",") {
			drop[http.CanonicalHeaderKey(strings.TrimSpace(f))] = true
		}
	}
	for k, v := range h {
		ck := http.CanonicalHeaderKey(k)
		if h2HopByHop[ck] || drop[ck] || extraSkip[ck] {
			continue
		}
		out[ck] = append(out[ck], v...)
	}
	return out
}

func h2HeaderList(hs []h2Header) http.Header {
	h := http.Header{}
	for _, x := range hs {
		k := http.CanonicalHeaderKey(x.K)
		h[k] = append(h[k], x.V)
	}
	return h
}

func h2Diff(want, got map[string][]string) string {
	var keys []string
	seen := map[string]bool{}
	for k := range want {
		keys = append(keys, k)
		seen[k] = true
	}
	for k := range got {
		if !seen[k] {
			keys = append(keys, k)
		}
	}
	sort.Strings(keys)
	for _, k := range keys {
		if fmt.Sprint(want[k]) != fmt.Sprint(got[k]) {
			return fmt.Sprintf("header %s: sent %q, received %q", k, want[k], got[k])
		}
	}
	return ""
}

//go:build verif

package main

// C16 — gRPC calls are proxied transparently to a matching backend (harness H5).
//
// Real: a grpc.Server built from exactly the options main.newGrpcProxy returns
// (plus one chained interceptor of the harness that turns every handler
// goroutine into a simulator task), the connection pool of
// proxy/grpc_handler.go with its cleanup sweeper (a child task of the task
// that calls newGrpcProxy), route.Table.Lookup, grpc-go on both sides.
// Stub: callers (grpc clients with a raw byte codec), backends (grpc servers
// with an unknown-service handler that records and plays a scripted reply),
// the network (simnet, automatic in-order delivery).
//
// Scheduling is at RPC-event level: every caller action (start, send,
// close-send, cancel), every backend action (header, reply, finish), every
// table replacement, fault and clock step is one driver event, and the system
// is quiescent between two events. The statements of the director, of the
// pool (Get/newConnection/Set) and of the sweeper are scheduling steps of
// their own, so two first calls can interleave inside the pool's
// check-then-dial and the sweeper can be pre-empted anywhere.
//
// Faults: reset of a backend connection under a call, a backend that never
// answers, a backend that leaves the table under calls, and a backend outage
// (listener closed, connections reset, dials refused; back under the same
// address after a number of calls and an interval of simulated time, followed
// by a quiet interval in which fabio's connections may reconnect). The
// connection oracles: reuse (no new dial once a call has completed on a healthy
// backend, again after an outage), cleanup (everything fabio holds to a backend
// that left the table is closed within the bound) and one connection per
// backend (no lasting surplus of open connections over the most calls that
// were ever in flight together).
//
// Size limits: proxy.grpcmaxrxmsgsize and proxy.grpcmaxtxmsgsize are part of the scenario (default in most runs,
// otherwise below or above the documented default, independently of each other) and such runs carry a few
// messages of an exact size at the boundaries. Only messages within both limits (within the configured limit
// on each of the four legs) are judged: they must travel like any other message. A call in which a peer sends
// a message beyond one of the limits is compared like a call under a fault from then on.
//
// Backend addresses have every shape a route target may have: host names, IPv4 literals, IPv6 literals in
// brackets (all of one shape or mixed within a table; an IPv6 literal now and then in a non-canonical spelling).
// The simulated network is keyed by the host:port a correct dialer hands to it: the dialer the harness gives to
// fabio's connections resolves a well-formed host:port (IP literals by value, whatever the spelling) and fails
// like net.Dial on anything else, e.g. an IPv6 literal that lost its brackets (c16DialKey). The oracle is the
// same for every shape: a call that matches a route must reach a backend of that route.
//
// Nothing that depends on grpc-go's frame batching reaches the trace: the
// trace consists of the driver's events and of per-call / per-backend
// summaries printed by the driver at quiescent states in canonical order.

import (
	"bytes"
	"context"
	"fmt"
	"io"
	"math/rand"
	"net"
	"net/netip"
	"sort"
	"strconv"
	"strings"
	"sync"
	"testing/synctest"
	"time"

	"github.com/fabiolb/fabio/config"
	"github.com/fabiolb/fabio/internal/zzverif/simcore"
	"github.com/fabiolb/fabio/internal/zzverif/simhook"
	"github.com/fabiolb/fabio/internal/zzverif/simnet"
	"github.com/fabiolb/fabio/metrics"
	"github.com/fabiolb/fabio/proxy"
	"github.com/fabiolb/fabio/route"

	"google.golang.org/grpc"
	grpcbackoff "google.golang.org/grpc/backoff"
	"google.golang.org/grpc/codes"
	"google.golang.org/grpc/credentials/insecure"
	"google.golang.org/grpc/metadata"
	"google.golang.org/grpc/peer"
	"google.golang.org/grpc/status"
	"google.golang.org/protobuf/encoding/protowire"
)

func init() {
	zzHarnesses = append(zzHarnesses, &simcore.Harness{Name: "c16", Props: []string{"C16"}, Run: runC16})
}

const (
	c16FabioAddr = "fabio.sim:9999"
	// c16SweepSlack is the generous part of the bound within which a connection to a backend that left the
	// table must be closed: slack + the configured proxy.grpcshutdowntimeout. The sweep period itself is an
	// implementation constant of fabio and deliberately not mirrored here.
	c16SweepSlack = 2 * time.Minute
	c16CallKey    = "x-sim-call"
)

// ---------------------------------------------------------------- scenario

type c16KV struct {
	K string `json:"k"`
	V string `json:"v"`
}

type c16Route struct {
	Host     string `json:"dsthost,omitempty"`
	Path     string `json:"path"`
	Backends []int  `json:"backends"`
}

type c16Table struct {
	Routes []c16Route `json:"routes"`
	Text   string     `json:"text"`
}

type c16Reply struct {
	Header         []c16KV  `json:"header,omitempty"`
	ExplicitHeader bool     `json:"send_header_explicitly,omitempty"`
	Sizes          []int    `json:"message_sizes"`
	Msgs           [][]byte `json:"-"`
	Trailer        []c16KV  `json:"trailer,omitempty"`
	Code           int      `json:"status_code"`
	Msg            string   `json:"status_message,omitempty"`
	Early          bool     `json:"may_finish_before_caller_eof,omitempty"`
}

type c16Call struct {
	ID      int      `json:"id"`
	Caller  int      `json:"caller"`
	Kind    string   `json:"kind"`
	Method  string   `json:"method"`
	DstHost string   `json:"dsthost,omitempty"`
	MD      []c16KV  `json:"metadata,omitempty"`
	Sizes   []int    `json:"message_sizes"`
	Msgs    [][]byte `json:"-"`
	After   int      `json:"starts_after_call"` // -1: any time
	Reply   c16Reply `json:"backend_reply"`
	Stall   bool     `json:"backend_never_answers_caller_cancels,omitempty"`
}

type c16Change struct {
	Table     int `json:"table"`
	AfterDone int `json:"after_completed_calls"`
}

// c16Outage is the fault "backend outage": the backend stays in the table, its listener goes down (dials are
// refused), its established connections are reset; after a number of further completed calls and an interval
// of simulated time the listener is back under the same address.
type c16Outage struct {
	Backend   int           `json:"backend"`
	AfterDone int           `json:"begins_after_completed_calls"`
	Calls     int           `json:"ends_after_further_completed_calls"`
	Duration  time.Duration `json:"then_stays_down_for"`
	Grace     time.Duration `json:"quiet_time_after_return"`
}

type c16Scenario struct {
	// Backends are the addresses the stub backends listen on, as the simulated network keys them (host names as
	// they are, IP literals in their canonical text form); Written is the host:port of each backend as the routing
	// tables spell it (the same address, an IPv6 literal possibly in another of its spellings).
	Backends        []string      `json:"backends"`
	Written         []string      `json:"backend_addresses_as_written_in_the_tables"`
	Callers         int           `json:"callers"`
	Tables          []c16Table    `json:"tables"`
	Changes         []c16Change   `json:"table_changes"`
	Calls           []c16Call     `json:"calls"`
	ResetCall       int           `json:"reset_backend_conn_of_call"` // -1: no fault
	Outage          *c16Outage    `json:"backend_outage,omitempty"`
	ShutdownTimeout time.Duration `json:"grpc_shutdown_timeout"`
	Stick           int           `json:"stick"`
	// the documented size options of the gRPC listener and the messages placed at their boundaries
	MaxRx    int           `json:"proxy_grpcmaxrxmsgsize"`
	MaxTx    int           `json:"proxy_grpcmaxtxmsgsize"`
	Boundary []c16Boundary `json:"messages_at_the_size_limits,omitempty"`
}

// c16Boundary replaces one generated message by one whose size is chosen relative to the configured limits.
type c16Boundary struct {
	Call  int    `json:"call"`
	Dir   string `json:"direction"` // request | reply
	Index int    `json:"message"`
	Size  int    `json:"size"`
	Rel   string `json:"relative_to_limits"`
}

// c16DocDefaultLimit is the documented default of proxy.grpcmaxrxmsgsize and proxy.grpcmaxtxmsgsize
// (docs/content/ref/proxy.grpcmaxrxmsgsize.md); the generator uses it to place configured limits below and
// above it, the oracle does not.
const c16DocDefaultLimit = 4194304

// c16StubLimit is what the stub peers accept: far above every generated message, so that only fabio's
// limits are ever in the way.
const c16StubLimit = 64 << 20

// c16AllBackends: every backend slot has an address of each shape a route target may have: a host name, an IPv4
// literal, an IPv6 literal (in brackets, as a URL and a host:port carry it). In every shape slots 0 and 1 share
// the host and differ in the port.
var c16AllBackends = [3][]string{
	{"b0.sim:8000", "b0.sim:8001", "b1.sim:8000", "b2.sim:8000"},
	{"10.1.0.10:8000", "10.1.0.10:8001", "192.168.7.1:8000", "172.16.0.254:8000"},
	{"[2001:db8::1]:8000", "[2001:db8::1]:8001", "[::1]:8000", "[fd00:1:2:3:4:5:6:7]:8000"},
}

const (
	c16ShapeName = iota
	c16ShapeIPv4
	c16ShapeIPv6
)

// c16GenBackends draws the address shape of every backend: all host names (half of the runs, value 0), all IPv4
// literals, all IPv6 literals, or a shape per backend (mixed tables). An IPv6 literal is written into the routing
// tables in its canonical form or, now and then, in another spelling of the same address (upper-case digits, no
// "::" compression); one backend keeps one spelling for the whole run.
func c16GenBackends(g *simcore.Tape, nb int) (keys, written []string) {
	mode := []int{0, 0, 0, 0, 0, 1, 2, 2, 3, 3}[g.Intn(10)]
	for i := 0; i < nb; i++ {
		shape := mode
		if mode == 3 {
			shape = g.Intn(3)
		}
		key := c16AllBackends[shape][i]
		w := key
		if shape == c16ShapeIPv6 && g.Chance(20) {
			host, port, _ := net.SplitHostPort(key)
			ip := netip.MustParseAddr(host)
			if g.Bool() {
				w = net.JoinHostPort(ip.StringExpanded(), port)
			} else {
				w = strings.ToUpper(key)
			}
		}
		keys, written = append(keys, key), append(written, w)
	}
	return
}

// c16Shape tells the shape of a backend address (as keyed by the simulated network).
func c16Shape(key string) int {
	host, _, _ := net.SplitHostPort(key)
	ip, err := netip.ParseAddr(host)
	switch {
	case err != nil:
		return c16ShapeName
	case ip.Is4():
		return c16ShapeIPv4
	}
	return c16ShapeIPv6
}

// c16DialKey is the name resolution of the simulated network for the addresses fabio dials: a well-formed
// host:port (an IPv6 literal in brackets) leads to the listener keyed by the host name as it is or by the
// canonical text form of the IP literal, so every spelling of one IP address reaches the same backend; anything
// that is not a host:port fails the way net.Dial fails on it, and no backend is contacted.
func c16DialKey(addr string) (string, error) {
	host, port, err := net.SplitHostPort(addr)
	if err != nil {
		return "", &net.OpError{Op: "dial", Net: "tcp", Err: err}
	}
	if ip, perr := netip.ParseAddr(host); perr == nil {
		return net.JoinHostPort(ip.String(), port), nil
	}
	return addr, nil
}

var c16Services = []string{"/sim.Alpha", "/sim.Beta", "/x.Gamma"}
var c16Methods = []string{"Do", "Stream", "X_y.z9"}

func c16GenTable(g *simcore.Tape, nb, ns int) c16Table {
	var t c16Table
	pickBackends := func() []int {
		first := g.Intn(nb)
		out := []int{first}
		if nb > 1 && g.Chance(30) {
			out = append(out, (first+1+g.Intn(nb-1))%nb)
		}
		return out
	}
	for s := 0; s < ns; s++ {
		path := c16Services[s]
		if g.Chance(15) {
			path += "/" + c16Methods[0] // a method-level route
		}
		switch g.Intn(8) {
		case 0, 1, 2, 3:
			t.Routes = append(t.Routes, c16Route{Path: path, Backends: pickBackends()})
		case 4, 5:
			t.Routes = append(t.Routes, c16Route{Path: path, Backends: pickBackends()})
			t.Routes = append(t.Routes, c16Route{Host: "beta", Path: path, Backends: pickBackends()})
		case 6:
			t.Routes = append(t.Routes, c16Route{Host: "beta", Path: path, Backends: pickBackends()})
		case 7:
			// the service has no route in this table
		}
	}
	return t
}

func c16WithoutBackend(t c16Table, drop int) c16Table {
	var out c16Table
	for _, rt := range t.Routes {
		var keep []int
		for _, b := range rt.Backends {
			if b != drop {
				keep = append(keep, b)
			}
		}
		if len(keep) > 0 {
			out.Routes = append(out.Routes, c16Route{Host: rt.Host, Path: rt.Path, Backends: keep})
		}
	}
	return out
}

func c16TableText(t *c16Table, backends []string) string {
	var b strings.Builder
	for _, rt := range t.Routes {
		for _, bi := range rt.Backends {
			fmt.Fprintf(&b, "route add s%d %s%s grpc://%s opts \"proto=grpc\"\n", bi, rt.Host, rt.Path, backends[bi])
		}
	}
	return b.String()
}

func (t *c16Table) has(bi int) bool {
	for _, rt := range t.Routes {
		for _, b := range rt.Backends {
			if b == bi {
				return true
			}
		}
	}
	return false
}

// c16Expect is the reference routing decision, written from the property text and the gRPC page of the
// documentation: the routes registered for the host named by dsthost are tried first, then the routes
// without a host; a route matches when its path is a prefix of the method path. Tables never hold two
// routes of one host that match the same method.
func c16Expect(t *c16Table, method, dsthost string) []int {
	hosts := []string{dsthost, ""}
	if dsthost == "" {
		hosts = hosts[:1]
	}
	for _, h := range hosts {
		for _, rt := range t.Routes {
			if rt.Host == h && strings.HasPrefix(method, rt.Path) {
				return rt.Backends
			}
		}
	}
	return nil
}

// c16ProtoMsg builds a well-formed protobuf message of roughly size bytes: a sequence of fields with
// arbitrary numbers (repeated and out of order included) of the wire types varint, fixed64, bytes, fixed32,
// all varints minimally encoded.
func c16ProtoMsg(seed int64, size int) []byte {
	rng := rand.New(rand.NewSource(seed))
	var b []byte
	for len(b) < size {
		var fn protowire.Number
		switch rng.Intn(8) {
		case 0:
			fn = protowire.Number(1 + rng.Intn(1<<29-1))
		case 1:
			fn = protowire.Number(16 + rng.Intn(2032))
		default:
			fn = protowire.Number(1 + rng.Intn(15))
		}
		switch rng.Intn(4) {
		case 0:
			b = protowire.AppendTag(b, fn, protowire.VarintType)
			b = protowire.AppendVarint(b, rng.Uint64()>>uint(rng.Intn(64)))
		case 1:
			b = protowire.AppendTag(b, fn, protowire.Fixed64Type)
			b = protowire.AppendFixed64(b, rng.Uint64())
		case 2:
			n := rng.Intn(size - len(b) + 1)
			p := make([]byte, n)
			rng.Read(p)
			b = protowire.AppendTag(b, fn, protowire.BytesType)
			b = protowire.AppendBytes(b, p)
		case 3:
			b = protowire.AppendTag(b, fn, protowire.Fixed32Type)
			b = protowire.AppendFixed32(b, rng.Uint32())
		}
	}
	return b
}

// c16ProtoMsgExact builds a well-formed protobuf message of exactly size bytes: a short random sequence of
// fields followed by one length-delimited field of random bytes that fills the rest.
func c16ProtoMsgExact(seed int64, size int) []byte {
	if size < 2 {
		return []byte{} // no field fits (not reachable with the generated limits)
	}
	if size < 64 {
		// a sequence of one-byte varint fields (2 bytes each), and a fixed32 field (5 bytes) for an odd size
		var b []byte
		if size%2 == 1 && size >= 5 {
			b = protowire.AppendTag(b, 3, protowire.Fixed32Type)
			b = protowire.AppendFixed32(b, uint32(seed))
		}
		for len(b) < size {
			b = protowire.AppendTag(b, 1, protowire.VarintType)
			b = protowire.AppendVarint(b, uint64(len(b)%100))
		}
		return b
	}
	rng := rand.New(rand.NewSource(seed))
	b := c16ProtoMsg(seed, rng.Intn(24))
	for {
		rem := size - len(b)
		for k := 1; k <= 5; k++ {
			n := rem - 1 - k
			if n >= 0 && protowire.SizeVarint(uint64(n)) == k {
				p := make([]byte, n)
				rng.Read(p)
				b = protowire.AppendTag(b, protowire.Number(1+rng.Intn(15)), protowire.BytesType)
				return protowire.AppendBytes(b, p)
			}
		}
		// the remaining length sits on a boundary of the length prefix: one more small field shifts it
		b = protowire.AppendTag(b, 2, protowire.VarintType)
		b = protowire.AppendVarint(b, uint64(rng.Intn(100)))
	}
}

func c16Size(g *simcore.Tape, thorough bool) int {
	switch g.Intn(10) {
	case 6, 7:
		return g.Range(100, 5000)
	case 8:
		return g.Range(5000, 40000)
	case 9:
		if thorough || g.Chance(30) {
			return g.Range(60000, 65536)
		}
		return g.Range(100, 5000)
	}
	return g.Range(0, 100)
}

func c16Msgs(g *simcore.Tape, n int, thorough bool) (sizes []int, msgs [][]byte) {
	sizes = []int{}
	for i := 0; i < n; i++ {
		sz := c16Size(g, thorough)
		m := c16ProtoMsg(int64(g.Intn(1<<30)), sz)
		sizes = append(sizes, len(m))
		msgs = append(msgs, m)
	}
	return
}

const c16ValueAlphabet = "abcdefghijklmnopqrstuvwxyzABCDEFGHIJKLMNOPQRSTUVWXYZ0123456789 !\"#$%&'()*+-./:;<=>?@[\\]^_`{|}~"

// c16GenMD draws n metadata pairs. Keys repeat (several values of one key, whose order matters); keys
// ending in -bin carry arbitrary bytes; other values are printable ASCII without a comma and without
// leading or trailing blanks (the gRPC wire specification lets implementations join values with commas
// and strip surrounding blanks).
func c16GenMD(g *simcore.Tape, n int, keys []string) []c16KV {
	var out []c16KV
	for i := 0; i < n; i++ {
		k := simcore.Pick(g, keys)
		rng := rand.New(rand.NewSource(int64(g.Intn(1 << 30))))
		var v []byte
		if strings.HasSuffix(k, "-bin") {
			v = make([]byte, 1+rng.Intn(40))
			rng.Read(v)
		} else {
			v = make([]byte, 1+rng.Intn(30))
			for j := range v {
				v[j] = c16ValueAlphabet[rng.Intn(len(c16ValueAlphabet))]
			}
			if v[0] == ' ' {
				v[0] = '%'
			}
			if v[len(v)-1] == ' ' {
				v[len(v)-1] = '%'
			}
		}
		out = append(out, c16KV{K: k, V: string(v)})
	}
	return out
}

var c16ReqKeys = []string{"x-req", "x-req", "x-trace.id", "auth_tok", "k9", "x-data-bin", "sig-bin"}
var c16RespKeys = []string{"x-resp", "x-resp", "srv.ver", "x-sig-bin", "set-thing"}
var c16StatusMsgs = []string{"plain failure", "", "100% sure", "%zz% 50%25 a%2Fb %", "naïve café ☕ 日本語", "line1\nline2\ttab", "trailing space "}

func c16Gen(g *simcore.Tape, thorough bool) *c16Scenario {
	sc := &c16Scenario{ResetCall: -1}
	nb := g.Range(1, 4)
	ns := g.Range(1, 3)
	sc.Backends, sc.Written = c16GenBackends(g, nb)
	sc.Callers = g.Range(1, 2)
	sc.ShutdownTimeout = simcore.Pick(g, []time.Duration{2 * time.Second, 200 * time.Millisecond, 20 * time.Second})
	sc.Stick = []int{1, 1, 3, 8}[g.Intn(4)]

	nc := g.Range(1, 5)
	if thorough {
		nc = g.Range(1, 9)
	}
	// a run with a backend outage has room for calls before, during and after it
	outage := g.Chance(25)
	if outage && nc < 4 {
		nc = 4
	}
	// tables: the first one always routes service 0 somewhere so that most runs proxy something
	first := c16GenTable(g, nb, ns)
	if len(first.Routes) == 0 {
		first.Routes = []c16Route{{Path: c16Services[0], Backends: []int{0}}}
	}
	sc.Tables = append(sc.Tables, first)
	nch := g.Range(0, 3)
	for i := 0; i < nch; i++ {
		prev := sc.Tables[len(sc.Tables)-1]
		var t c16Table
		switch g.Intn(6) {
		case 0, 1:
			t = c16WithoutBackend(prev, g.Intn(nb)) // one backend leaves
		case 2, 3:
			t = c16GenTable(g, nb, ns)
		case 4:
			t = sc.Tables[g.Intn(len(sc.Tables))] // an earlier table comes back
		case 5:
			t = c16Table{} // everything leaves
		}
		sc.Tables = append(sc.Tables, t)
		sc.Changes = append(sc.Changes, c16Change{Table: len(sc.Tables) - 1, AfterDone: g.Range(0, nc)})
	}
	sort.SliceStable(sc.Changes, func(i, j int) bool { return sc.Changes[i].AfterDone < sc.Changes[j].AfterDone })
	for i := range sc.Tables {
		sc.Tables[i].Text = c16TableText(&sc.Tables[i], sc.Written)
	}

	for i := 0; i < nc; i++ {
		c := c16Call{ID: i, Caller: g.Intn(sc.Callers), After: -1}
		svc := g.Intn(ns)
		if g.Chance(12) {
			c.Method = "/sim.Nope/" + simcore.Pick(g, c16Methods)
		} else {
			c.Method = c16Services[svc] + "/" + simcore.Pick(g, c16Methods)
		}
		c.DstHost = simcore.Pick(g, []string{"", "", "", "beta", "beta", "other"})
		var nreq, nrep int
		switch g.Intn(4) {
		case 0:
			c.Kind, nreq, nrep = "unary", 1, 1
		case 1:
			c.Kind, nreq, nrep = "client-streaming", g.Range(0, 20), 1
		case 2:
			c.Kind, nreq, nrep = "server-streaming", 1, g.Range(0, 20)
		case 3:
			c.Kind, nreq, nrep = "bidi", g.Range(0, 20), g.Range(0, 20)
		}
		if !thorough {
			if nreq > 8 {
				nreq = 8
			}
			if nrep > 8 {
				nrep = 8
			}
		}
		c.MD = c16GenMD(g, g.Range(0, 4), c16ReqKeys)
		c.Sizes, c.Msgs = c16Msgs(g, nreq, thorough)
		if i > 0 && g.Chance(50) {
			c.After = i - 1
		}
		c.Reply.Header = c16GenMD(g, g.Range(0, 3), c16RespKeys)
		c.Reply.ExplicitHeader = g.Bool()
		c.Reply.Trailer = c16GenMD(g, g.Range(0, 3), c16RespKeys)
		if g.Chance(35) {
			c.Reply.Code = g.Range(1, 16)
			c.Reply.Msg = simcore.Pick(g, c16StatusMsgs)
			if g.Bool() {
				nrep = g.Intn(nrep + 1) // a failing call often ends before all replies
			}
		}
		c.Reply.Sizes, c.Reply.Msgs = c16Msgs(g, nrep, thorough)
		c.Reply.Early = g.Chance(15)
		c.Stall = g.Chance(8)
		sc.Calls = append(sc.Calls, c)
	}
	if g.Chance(20) {
		sc.ResetCall = g.Intn(nc)
	}
	if outage {
		// a backend the first table routes to has an outage: it begins once AfterDone calls have completed (calls
		// before), lasts until Calls further calls have completed (calls during) plus an interval of simulated
		// time, and the remaining calls run after it
		var cands []int
		for b := 0; b < nb; b++ {
			if sc.Tables[0].has(b) {
				cands = append(cands, b)
			}
		}
		o := &c16Outage{Backend: cands[g.Intn(len(cands))]}
		o.AfterDone = g.Intn(nc - 2)
		o.Calls = g.Range(0, 3)
		o.Duration = simcore.Pick(g, []time.Duration{time.Second, 50 * time.Millisecond, 4 * time.Second, 12 * time.Second, 30 * time.Second})
		o.Grace = simcore.Pick(g, []time.Duration{0, 3 * time.Second, 15 * time.Second, time.Minute})
		sc.Outage = o
		// more than half of the calls are steered to a method (and dsthost) that the first table routes to this
		// backend, one after the other, so that the outage meets calls and is not merely survived by the others
		for i := range sc.Calls {
			c := &sc.Calls[i]
			if !g.Chance(60) {
				continue
			}
			_, meth, _ := strings.Cut(c.Method[1:], "/")
		steer:
			for s := 0; s < ns; s++ {
				for _, h := range []string{c.DstHost, "", "beta"} {
					m := c16Services[s] + "/" + meth
					for _, x := range c16Expect(&sc.Tables[0], m, h) {
						if x == o.Backend {
							c.Method, c.DstHost = m, h
							break steer
						}
					}
				}
			}
			if i > 0 && g.Chance(70) {
				c.After = i - 1
			}
		}
	}
	c16GenLimits(g, sc)
	return sc
}

// c16GenLimits draws the size options of the listener and, in the minority of runs where one of them differs
// from the documented default, places one to three messages at the boundaries. proxy.grpcmaxrxmsgsize and
// proxy.grpcmaxtxmsgsize are chosen independently of each other: the default, below it (64 KiB - 1 MiB) or above
// it (5 - 9 MiB). A boundary message is just below or exactly at the smaller of the two limits (within every
// limit: it must travel unmodified), just above it, or around the larger one (beyond a limit: not judged).
// Large buffers are slow, so these runs are few and have few such messages; runs with the default limits
// get a message at the default boundary now and then.
func c16GenLimits(g *simcore.Tape, sc *c16Scenario) {
	sc.MaxRx, sc.MaxTx = c16DocDefaultLimit, c16DocDefaultLimit
	n := 0
	if g.Chance(10) {
		limit := func() int {
			switch g.Intn(6) {
			case 1, 2, 3:
				return g.Range(5<<20, 9<<20)
			case 4, 5:
				return g.Range(64<<10, 1<<20)
			}
			return c16DocDefaultLimit
		}
		sc.MaxRx, sc.MaxTx = limit(), limit()
		n = g.Range(1, 3)
	} else if g.Chance(2) {
		n = 1
	}
	if n == 0 {
		return
	}
	lo, hi := sc.MaxRx, sc.MaxTx
	if lo > hi {
		lo, hi = hi, lo
	}
	// candidate places: messages of calls that the first table routes to a backend (else of any call); replies of
	// a backend that never answers are never sent
	type slot struct {
		call  int
		reply bool
	}
	var routed, all []slot
	for i := range sc.Calls {
		c := &sc.Calls[i]
		r := len(c16Expect(&sc.Tables[0], c.Method, c.DstHost)) > 0
		for _, reply := range []bool{false, true} {
			if (reply && (len(c.Reply.Msgs) == 0 || c.Stall)) || (!reply && len(c.Msgs) == 0) {
				continue
			}
			all = append(all, slot{i, reply})
			if r {
				routed = append(routed, slot{i, reply})
			}
		}
	}
	if len(routed) > 0 {
		all = routed
	}
	if len(all) == 0 {
		return
	}
	for k := 0; k < n; k++ {
		sl := all[g.Intn(len(all))]
		c := &sc.Calls[sl.call]
		var size int
		var rel string
		switch g.Intn(8) {
		case 0, 1, 2:
			size, rel = lo-g.Range(0, 8), "at or just below the smaller limit"
		case 3:
			size, rel = lo-g.Range(9, 5000), "below the smaller limit"
		case 4, 5:
			size, rel = lo+g.Range(1, 8), "just above the smaller limit"
		case 6:
			size, rel = hi-g.Range(0, 8), "at or just below the larger limit"
		case 7:
			size, rel = hi+g.Range(1, 8), "just above the larger limit"
		}
		m := c16ProtoMsgExact(int64(g.Intn(1<<30)), size)
		b := c16Boundary{Call: sl.call, Dir: "request", Size: len(m), Rel: rel}
		if sl.reply {
			b.Dir = "reply"
			b.Index = g.Intn(len(c.Reply.Msgs))
			c.Reply.Msgs[b.Index], c.Reply.Sizes[b.Index] = m, len(m)
		} else {
			b.Index = g.Intn(len(c.Msgs))
			c.Msgs[b.Index], c.Sizes[b.Index] = m, len(m)
		}
		sc.Boundary = append(sc.Boundary, b)
	}
}

// ---------------------------------------------------------------- raw codec of the stub peers

// c16Codec passes message bytes through untouched (what travels is exactly the generated protobuf encoding).
type c16Codec struct{}

func (c16Codec) Marshal(v any) ([]byte, error) { return *(v.(*[]byte)), nil }
func (c16Codec) Unmarshal(d []byte, v any) error {
	*(v.(*[]byte)) = append([]byte{}, d...)
	return nil
}
func (c16Codec) Name() string { return "proto" }

// ---------------------------------------------------------------- runtime state

const (
	c16OpSend = iota
	c16OpCloseSend
	c16OpHeader
	c16OpReply
	c16OpFinish
)

type c16CallState struct {
	sc *c16Call

	// caller side
	started    bool
	startAt    time.Time
	startTable int
	expect     []int
	// The statement quantifies over table changes between calls. A table that is installed while a call has not
	// reached a backend yet (fabio may look the route up at any point of that window) is a second admissible basis
	// for the routing decision: expect is the union of the backends over the tables of the window and noRouteOK
	// says that one of them had no matching route.
	noRouteOK    bool
	tableChanged bool
	cancel       context.CancelFunc
	stream       grpc.ClientStream
	ccmd         chan int
	cBusy        bool
	nextSend     int
	sendErrs     int
	closeSent    bool
	cancelled    bool
	cRecv        [][]byte
	cDone        bool
	cCode        codes.Code
	cMsg         string
	cHeader      metadata.MD
	cTrailer     metadata.MD
	counted      bool

	// backend side
	reached   int
	bIdx      int
	bMethod   string
	bMD       metadata.MD
	bPeer     string
	bcmd      chan int
	bBusy     bool
	bRecv     [][]byte
	bEOF      bool
	bRecvErr  error
	hdrSent   bool
	nextReply int
	sentOK    int
	bDone     bool
	bAfterEOF bool
	bAborted  bool

	// oracle
	dialWindow bool
	affected   string
	recovering bool // started while a backend it is routed to was reconnecting after an outage
	largest    int  // the largest message within the limits that a peer of this call has sent
	summary    string
}

type c16Backend struct {
	key string
	idx int
	srv *grpc.Server

	ln *simnet.Listener

	// backend outage (fault)
	down      bool
	outages   int
	downSince time.Time
	upAt      time.Time

	// most calls routed to this backend that were ever in flight at the same time, and since when fabio has
	// held more open connections than that to the backend while it was reachable and in the table
	maxSimul       int
	excessSince    time.Time
	excessReported bool
	reconnected    bool

	lastDials   int
	connSeenAt  []time.Time
	present     bool
	absentSince time.Time
	lastAbsent  time.Time
	everAbsent  bool
	redialOK    bool
	completedOK bool
	armed       bool
	cleanupDue  bool
	summary     string
}

type c16Dial struct {
	target string
	cc     *grpc.ClientConn
}

type c16Env struct {
	r   *simcore.Run
	d   *simcore.Driver
	net *simnet.Net
	sc  *c16Scenario
	cfg *config.Config

	mu       sync.Mutex
	calls    []*c16CallState
	backends []*c16Backend
	callers  []*grpc.ClientConn
	dials    []c16Dial
	dialsLog int
	badAddr  []string // addresses handed to the network by fabio's connections that are not a host:port
	badLog   int
	stray    []string
	srv      *grpc.Server
	stop     chan struct{}

	table      int
	nextChange int
	doneCalls  int
	resetFired bool
	outage     int // 0: not begun, 1: the backend is down, 2: over
	outageMark int // completed calls when the outage began
	clockOps   int
	settling   bool
	bound      time.Duration
	adoptSeq   int
	limit      int // the smaller of proxy.grpcmaxrxmsgsize and proxy.grpcmaxtxmsgsize
}

func c16MD(kvs []c16KV) metadata.MD {
	md := metadata.MD{}
	for _, kv := range kvs {
		md.Append(kv.K, kv.V)
	}
	return md
}

// ---------------------------------------------------------------- stub backend

func (e *c16Env) backendHandler(b *c16Backend) grpc.StreamHandler {
	return func(_ any, ss grpc.ServerStream) error {
		ctx := ss.Context()
		md, _ := metadata.FromIncomingContext(ctx)
		method, _ := grpc.MethodFromServerStream(ss)
		id := -1
		if v := md.Get(c16CallKey); len(v) == 1 {
			if n, err := strconv.Atoi(v[0]); err == nil {
				id = n
			}
		}
		e.mu.Lock()
		if id < 0 || id >= len(e.calls) {
			e.stray = append(e.stray, fmt.Sprintf("%s received %s with %s=%q", b.key, method, c16CallKey, md.Get(c16CallKey)))
			e.mu.Unlock()
			return status.Error(codes.Unimplemented, "unscripted call")
		}
		c := e.calls[id]
		c.reached++
		if c.reached > 1 {
			e.mu.Unlock()
			return status.Error(codes.Aborted, "duplicate delivery")
		}
		c.bIdx, c.bMethod, c.bMD = b.idx, method, md.Copy()
		if p, ok := peer.FromContext(ctx); ok && p.Addr != nil {
			c.bPeer = p.Addr.String()
		}
		e.mu.Unlock()

		go func() {
			for {
				var m []byte
				err := ss.RecvMsg(&m)
				e.mu.Lock()
				if err == io.EOF {
					c.bEOF = true
				} else if err != nil {
					c.bRecvErr = err
				} else {
					c.bRecv = append(c.bRecv, m)
				}
				e.mu.Unlock()
				if err != nil {
					return
				}
			}
		}()

		rep := &c.sc.Reply
		for {
			select {
			case op := <-c.bcmd:
				switch op {
				case c16OpHeader:
					ss.SendHeader(c16MD(rep.Header))
				case c16OpReply:
					e.mu.Lock()
					i := c.nextReply
					c.nextReply++
					e.mu.Unlock()
					if i == 0 && !rep.ExplicitHeader {
						ss.SetHeader(c16MD(rep.Header))
					}
					m := rep.Msgs[i]
					if err := ss.SendMsg(&m); err == nil {
						e.mu.Lock()
						c.sentOK++
						e.mu.Unlock()
					}
				case c16OpFinish:
					if len(rep.Msgs) == 0 && !rep.ExplicitHeader {
						ss.SetHeader(c16MD(rep.Header))
					}
					ss.SetTrailer(c16MD(rep.Trailer))
					e.mu.Lock()
					c.bDone, c.bAfterEOF, c.bBusy = true, c.bEOF, false
					e.mu.Unlock()
					if rep.Code == 0 {
						return nil
					}
					return status.Error(codes.Code(rep.Code), rep.Msg)
				}
				e.mu.Lock()
				c.bBusy = false
				e.mu.Unlock()
			case <-ctx.Done():
				e.mu.Lock()
				c.bDone, c.bAborted = true, true
				e.mu.Unlock()
				return ctx.Err()
			case <-e.stop:
				return status.Error(codes.Aborted, "teardown")
			}
		}
	}
}

// ---------------------------------------------------------------- stub caller

var c16StreamDesc = &grpc.StreamDesc{ServerStreams: true, ClientStreams: true}

func (e *c16Env) callerLoop(c *c16CallState) {
	sc := c.sc
	ctx, cancel := context.WithCancel(context.Background())
	defer cancel()
	md := c16MD(sc.MD)
	md.Append(c16CallKey, strconv.Itoa(sc.ID))
	if sc.DstHost != "" {
		md.Append("dsthost", sc.DstHost)
	}
	e.mu.Lock()
	c.cancel = cancel
	cc := e.callers[sc.Caller]
	e.mu.Unlock()
	stream, err := cc.NewStream(metadata.NewOutgoingContext(ctx, md), c16StreamDesc, sc.Method, grpc.ForceCodec(c16Codec{}))
	if err != nil {
		st, _ := status.FromError(err)
		e.mu.Lock()
		c.cDone, c.cCode, c.cMsg, c.cBusy = true, st.Code(), st.Message(), false
		e.mu.Unlock()
		return
	}
	e.mu.Lock()
	c.stream, c.cBusy = stream, false
	e.mu.Unlock()
	go func() {
		for {
			var m []byte
			err := stream.RecvMsg(&m)
			if err == nil {
				e.mu.Lock()
				c.cRecv = append(c.cRecv, m)
				e.mu.Unlock()
				continue
			}
			code, msg := codes.OK, ""
			if err != io.EOF {
				st, _ := status.FromError(err)
				code, msg = st.Code(), st.Message()
			}
			hdr, _ := stream.Header()
			tr := stream.Trailer()
			e.mu.Lock()
			c.cDone, c.cCode, c.cMsg, c.cHeader, c.cTrailer = true, code, msg, hdr, tr
			e.mu.Unlock()
			return
		}
	}()
	for {
		select {
		case op := <-c.ccmd:
			switch op {
			case c16OpSend:
				e.mu.Lock()
				i := c.nextSend
				c.nextSend++
				e.mu.Unlock()
				m := sc.Msgs[i]
				if err := stream.SendMsg(&m); err != nil {
					e.mu.Lock()
					c.sendErrs++
					e.mu.Unlock()
				}
			case c16OpCloseSend:
				stream.CloseSend()
			}
			e.mu.Lock()
			c.cBusy = false
			e.mu.Unlock()
		case <-e.stop:
			return
		}
	}
}

// adopt is the one interceptor the harness adds behind fabio's own: the handler goroutine becomes a task
// (named after the call it serves) before the director and the pool run.
func (e *c16Env) adopt(srv any, ss grpc.ServerStream, info *grpc.StreamServerInfo, handler grpc.StreamHandler) error {
	name := ""
	if md, ok := metadata.FromIncomingContext(ss.Context()); ok {
		if v := md.Get(c16CallKey); len(v) == 1 {
			name = "h" + v[0]
		}
	}
	if name == "" {
		e.mu.Lock()
		e.adoptSeq++
		name = fmt.Sprintf("hx%d", e.adoptSeq)
		e.mu.Unlock()
	}
	defer simhook.Adopt(name)()
	return handler(srv, ss)
}

// ---------------------------------------------------------------- driver events

func (e *c16Env) install(ti int) {
	t, err := route.NewTable(bytes.NewBufferString(e.sc.Tables[ti].Text))
	if err != nil {
		e.r.Trouble("scenario table does not parse: %v\n%s", err, e.sc.Tables[ti].Text)
		e.r.Abort()
	}
	route.SetTable(t)
	now := time.Now()
	e.mu.Lock()
	e.table = ti
	for _, b := range e.backends {
		was := b.present
		b.present = e.sc.Tables[ti].has(b.idx)
		switch {
		case was && !b.present:
			b.absentSince, b.lastAbsent, b.everAbsent = now, now, true
			b.armed, b.completedOK = false, false
		case !was && b.present:
			b.absentSince = time.Time{}
			b.lastAbsent = now
			b.cleanupDue = false
		}
	}
	for _, c := range e.calls {
		if !c.started || c.reached > 0 || c.cDone {
			continue
		}
		alt := c16Expect(&e.sc.Tables[ti], c.sc.Method, c.sc.DstHost)
		if fmt.Sprint(alt) != fmt.Sprint(c.expect) {
			c.tableChanged = true
		}
		if len(alt) == 0 {
			c.noRouteOK = true
		}
		for _, x := range alt {
			have := false
			for _, y := range c.expect {
				have = have || x == y
			}
			if !have {
				c.expect = append(c.expect, x)
			}
		}
	}
	e.mu.Unlock()
}

func (e *c16Env) events() []simcore.Event {
	if e.settling {
		return nil
	}
	e.mu.Lock()
	defer e.mu.Unlock()
	var ev []simcore.Event
	add := func(key string, w int, f func()) {
		ev = append(ev, simcore.Event{Key: key, Weight: w, Fire: func() {
			e.r.Tracef("op %s", key)
			f()
		}})
	}
	for _, c := range e.calls {
		c := c
		id := fmt.Sprintf("op:c%02d:", c.sc.ID)
		if !c.started {
			if c.sc.After < 0 || e.calls[c.sc.After].cDone {
				add(id+"start", 3, func() {
					e.mu.Lock()
					c.started, c.startAt, c.startTable, c.cBusy, c.dialWindow = true, time.Now(), e.table, true, true
					c.expect = c16Expect(&e.sc.Tables[e.table], c.sc.Method, c.sc.DstHost)
					c.noRouteOK = len(c.expect) == 0
					e.mu.Unlock()
					go e.callerLoop(c)
				})
			}
			continue
		}
		if !c.cDone && !c.cBusy && c.stream != nil && !c.cancelled {
			if c.nextSend < len(c.sc.Msgs) {
				add(id+"send", 2, func() {
					e.mu.Lock()
					c.cBusy = true
					e.beyondLimit(c, c.sc.Msgs[c.nextSend])
					e.mu.Unlock()
					c.ccmd <- c16OpSend
				})
			} else if !c.closeSent {
				add(id+"closesend", 2, func() {
					e.mu.Lock()
					c.cBusy, c.closeSent = true, true
					e.mu.Unlock()
					c.ccmd <- c16OpCloseSend
				})
			}
		}
		if c.sc.Stall && c.reached > 0 && !c.cancelled && !c.cDone {
			add(id+"cancel", 1, func() {
				e.mu.Lock()
				c.cancelled = true
				c.affected = "caller-cancelled"
				cancel := c.cancel
				e.mu.Unlock()
				e.r.Fault("backend_stalls_caller_cancels")
				cancel()
			})
		}
		if c.reached > 0 && !c.bDone && !c.bBusy && !c.sc.Stall {
			rep := &c.sc.Reply
			send := func(op int) func() {
				return func() {
					e.mu.Lock()
					c.bBusy = true
					if op == c16OpHeader {
						c.hdrSent = true
					}
					if op == c16OpReply {
						e.beyondLimit(c, rep.Msgs[c.nextReply])
					}
					e.mu.Unlock()
					c.bcmd <- op
				}
			}
			switch {
			case rep.ExplicitHeader && !c.hdrSent:
				add(id+"b-header", 2, send(c16OpHeader))
			case c.nextReply < len(rep.Msgs):
				add(id+"b-reply", 2, send(c16OpReply))
			case rep.Early || c.bEOF:
				add(id+"b-finish", 2, send(c16OpFinish))
			}
		}
	}
	if e.nextChange < len(e.sc.Changes) && e.doneCalls >= e.sc.Changes[e.nextChange].AfterDone {
		ch := e.sc.Changes[e.nextChange]
		add(fmt.Sprintf("op:table:%d", ch.Table), 1, func() {
			e.mu.Lock()
			e.nextChange++
			inflight := 0
			for _, c := range e.calls {
				if c.started && !c.cDone {
					inflight++
				}
			}
			e.mu.Unlock()
			if inflight > 0 {
				e.r.Probe("table_change_during_calls")
			}
			e.install(ch.Table)
		})
	}
	if k := e.sc.ResetCall; k >= 0 && !e.resetFired {
		c := e.calls[k]
		if c.reached == 1 && !c.bDone && !c.cDone && c.bPeer != "" {
			add("op:fault:reset", 1, func() { e.resetConnOf(c) })
		}
	}
	if o := e.sc.Outage; o != nil {
		switch {
		case e.outage == 0 && e.doneCalls >= o.AfterDone:
			add("op:fault:outage-begin", 2, e.beginOutage)
		case e.outage == 1 && e.doneCalls >= e.outageMark+o.Calls && len(e.d.Sim.Enabled()) == 0:
			// like every event that lets time pass: only while no task stands at a statement of fabio code
			add("op:fault:outage-end", 4, e.endOutage)
		}
	}
	// time passes only while no task is at a statement of fabio code: a statement takes no simulated time, so a
	// task that sits at a yield while the clock runs would be a sweeper (or handler) frozen for seconds
	if e.clockOps < 12 && len(e.d.Sim.Enabled()) == 0 {
		add("op:zclock", 1, func() {
			e.mu.Lock()
			e.clockOps++
			e.mu.Unlock()
			dt := simcore.Pick(e.r.Sched, []time.Duration{time.Second, time.Millisecond, 3 * time.Second, 7 * time.Second, 30 * time.Second})
			e.d.AdvanceRunningTasks(dt, 50*time.Millisecond)
		})
	}
	return ev
}

// beyondLimit is called (with e.mu held) when a peer is about to send message m of call c. A message that is
// larger than one of the two configured limits is beyond what the listener is configured to carry on one of
// the four legs: the statement makes no demand on what becomes of it, and the call is compared like a call
// under a fault from here on (prefix-correct messages, unmodified request metadata). Messages within both
// limits leave the call under the strict comparison.
func (e *c16Env) beyondLimit(c *c16CallState, m []byte) {
	if len(m) <= e.limit {
		if len(m) > c.largest {
			c.largest = len(m)
		}
		return
	}
	e.r.Probe("message_beyond_a_configured_limit")
	if c.affected == "" {
		c.affected = "message-beyond-limit"
	}
}

// resetConnOf injects a connection reset on the fabio->backend connection that carries call c.
func (e *c16Env) resetConnOf(c *c16CallState) {
	e.mu.Lock()
	e.resetFired = true
	b := e.backends[c.bIdx]
	peerAddr := c.bPeer
	e.mu.Unlock()
	var victim *simnet.Conn
	for _, cn := range e.net.Conns(b.key) {
		if cn.LocalAddr().String() == peerAddr && !cn.IsClosed() {
			victim = cn
		}
	}
	if victim == nil {
		return
	}
	e.r.Fault("backend_conn_reset_mid_call")
	e.mu.Lock()
	for _, o := range e.calls {
		if o.reached > 0 && o.bIdx == c.bIdx && o.bPeer == peerAddr && !o.cDone {
			o.affected = "backend-connection-reset"
		}
	}
	b.redialOK, b.armed, b.completedOK = true, false, false
	e.mu.Unlock()
	victim.Reset()
}

// over lists the backends whose fate decides about call c: the one that received it, else the ones it may go to.
func (c *c16CallState) over() []int {
	if c.reached > 0 {
		return []int{c.bIdx}
	}
	return c.expect
}

// beginOutage injects the fault "backend outage": the backend's listener closes (dials are refused from now on)
// and every connection established to it is reset. The backend stays in the table.
func (e *c16Env) beginOutage() {
	b := e.backends[e.sc.Outage.Backend]
	e.r.Fault("backend_outage")
	inflight := false
	e.mu.Lock()
	e.outage, e.outageMark = 1, e.doneCalls
	b.down, b.downSince = true, time.Now()
	b.outages++
	b.armed, b.completedOK = false, false
	for _, c := range e.calls {
		if !c.started || c.cDone {
			continue
		}
		for _, x := range c.over() {
			if x == b.idx {
				inflight = true
				if c.affected == "" {
					c.affected = "backend-outage"
				}
			}
		}
	}
	ln := b.ln
	e.mu.Unlock()
	if inflight {
		e.r.Probe("outage_under_running_calls")
	}
	ln.Close()
	for _, cn := range e.net.Conns(b.key) {
		if !cn.IsClosed() {
			cn.Reset()
		}
	}
}

// endOutage lets the rest of the outage pass on the simulated clock and brings the backend back under the same
// address (same grpc server, new listener).
func (e *c16Env) endOutage() {
	o := e.sc.Outage
	b := e.backends[o.Backend]
	if o.Duration > 0 {
		e.advance(o.Duration)
	}
	bl, err := e.net.Listen(b.key, simnet.ListenOpts{Auto: true})
	if err != nil {
		e.r.Trouble("listen %s again: %v", b.key, err)
		e.r.Abort()
	}
	go b.srv.Serve(bl)
	e.mu.Lock()
	b.ln, b.down, b.upAt = bl, false, time.Now()
	e.outage = 2
	e.mu.Unlock()
	if !e.settling {
		e.r.Probe("outage_ends_before_the_last_call")
	}
	if o.Grace > 0 {
		// nobody calls for a while: what fabio holds may reconnect before the next call
		e.advance(o.Grace)
	}
}

// advance lets simulated time pass. fabio's own tasks (the sweeper and the goroutines it starts to close
// connections) run on whenever a timer releases them: time must not pass while one of them stands at a statement,
// or the cleanup bound would be measured against a stopped sweeper.
func (e *c16Env) advance(dt time.Duration) {
	e.d.AdvanceRunningTasks(dt, 50*time.Millisecond)
}

// ---------------------------------------------------------------- observation at quiescent states

func (e *c16Env) observe() {
	now := time.Now()
	e.mu.Lock()
	defer e.mu.Unlock()
	r := e.r
	// fabio's own dial calls, in order
	for ; e.dialsLog < len(e.dials); e.dialsLog++ {
		r.Tracef("fabio opens a client connection to %s", e.dials[e.dialsLog].target)
	}
	for ; e.badLog < len(e.badAddr); e.badLog++ {
		_, err := c16DialKey(e.badAddr[e.badLog])
		r.Tracef("a connection of fabio asks the network for %q, which is not a host:port (%v): nobody is contacted", e.badAddr[e.badLog], err)
	}
	pendingNoRoute := false
	inflight := make([]int, len(e.backends))
	for _, c := range e.calls {
		if c.dialWindow && len(c.expect) == 0 {
			pendingNoRoute = true
		}
		if c.started && !c.cDone {
			for _, x := range c.over() {
				inflight[x]++
			}
		}
	}
	for _, b := range e.backends {
		st := e.net.StatsFor(b.key)
		conns := e.net.Conns(b.key)
		for len(b.connSeenAt) < len(conns) {
			b.connSeenAt = append(b.connSeenAt, now)
		}
		if st.Dials > b.lastDials {
			// while a backend is down and for the bound after its return, the connections fabio holds reconnect on
			// their own
			justified := b.redialOK || b.down || (b.outages > 0 && !now.After(b.upAt.Add(e.bound)))
			for _, c := range e.calls {
				if !c.dialWindow {
					continue
				}
				for _, x := range c.expect {
					if x == b.idx {
						justified = true
					}
				}
			}
			switch {
			case !justified && pendingNoRoute:
				r.Fail("noroute", "backend-dialed", "fabio dialled backend %s while the only calls that had not yet reached a backend had no matching route", b.key)
			case !justified:
				r.Fail("dial", "unjustified", "fabio dialled backend %s although no call routed to it was waiting for a connection", b.key)
			case b.armed:
				r.Fail("reuse", "new-dial-to-pooled-backend", "fabio dialled backend %s again (%d dials so far) although an earlier call to it had completed (after the end of the outage, if it had one), the backend had not left the table and no fault touched its connection since", b.key, st.Dials)
			}
			if st.Dials >= 2 && !b.everAbsent && !b.redialOK {
				r.Probe("several_dials_to_one_backend")
			}
			b.lastDials = st.Dials
		}
		if !b.present {
			b.lastAbsent = now
		}
		open := 0
		for i, cn := range conns {
			if cn.IsClosed() {
				continue
			}
			open++
			if b.present {
				continue
			}
			b.cleanupDue = true
			from := b.absentSince
			if b.connSeenAt[i].After(from) {
				from = b.connSeenAt[i]
			}
			if now.Sub(from) > e.bound {
				r.Fail("cleanup", "connection-not-closed", "backend %s left the table at %s; fabio's connection %s to it (established %s) is still open at %s, more than %s (2 min + the configured grpc shutdown timeout %s) later; tasks: %v",
					b.key, b.absentSince.Format("15:04:05.000"), cn.ID(), b.connSeenAt[i].Format("15:04:05.000"), now.Format("15:04:05.000"), e.bound, e.sc.ShutdownTimeout, e.d.Sim.TaskStates())
			}
		}
		if !b.present && open == 0 && b.cleanupDue {
			b.cleanupDue = false
			r.Probe("connections_closed_after_backend_left")
		}
		// one connection per backend: while the backend is reachable and has been in the table for longer than the
		// cleanup bound, fabio may hold one connection to it, or as many as calls routed to it were ever in flight
		// at the same time (simultaneous first calls may each dial). More than that, for longer than the bound, is
		// a connection that is not reused by anybody and not dropped either.
		if inflight[b.idx] > b.maxSimul {
			b.maxSimul = inflight[b.idx]
		}
		allowed := b.maxSimul
		if allowed < 1 {
			allowed = 1
		}
		if steady := b.present && !b.down && (!b.everAbsent || now.Sub(b.lastAbsent) > e.bound); steady && open > allowed {
			if b.excessSince.IsZero() {
				b.excessSince = now
				r.Probe("more_connections_than_simultaneous_calls")
			} else if now.Sub(b.excessSince) > e.bound && !b.excessReported {
				b.excessReported = true
				r.Fail("reuse", "surplus-connections", "backend %s is reachable and in the table, yet fabio has held %d open connections to it since %s (now %s, more than %s later); never more than %d call(s) routed to it were in flight at the same time, so at most %d connection(s) are in use and the others are neither reused nor dropped (outages of this backend: %d)",
					b.key, open, b.excessSince.Format("15:04:05.000"), now.Format("15:04:05.000"), e.bound, b.maxSimul, allowed, b.outages)
			}
		} else {
			b.excessSince = time.Time{}
		}
		if b.outages > 0 && !b.down && open > 0 && !b.reconnected {
			b.reconnected = true
			r.Probe("reconnected_after_outage")
		}
		s := fmt.Sprintf("dials=%d conns=%d open=%d present=%v", st.Dials, len(conns), open, b.present)
		if b.down {
			s += " down"
		}
		if s != b.summary {
			b.summary = s
			r.Tracef("backend %s %s", b.key, s)
		}
	}
	// calls
	pending := false
	for _, c := range e.calls {
		if !c.started {
			continue
		}
		if c.affected == "" && !c.counted {
			// a backend that is, or within the cleanup bound before this call was, absent from the table may
			// legitimately lose its connections under the call
			for _, x := range c.over() {
				b := e.backends[x]
				if !b.present || (b.everAbsent && !c.startAt.After(b.lastAbsent.Add(e.bound))) {
					c.affected = "backend-left-table"
				}
				// a call that meets an outage of its backend is lost; one that starts within the bound after the
				// backend's return may find fabio's connection still waiting to reconnect (see check)
				if b.down && c.affected == "" {
					c.affected = "backend-outage"
				}
				if b.outages > 0 && !b.down && !c.startAt.After(b.upAt.Add(e.bound)) {
					c.recovering = true
				}
			}
		}
		if c.dialWindow && (c.reached > 0 || c.cDone) {
			c.dialWindow = false
		}
		if c.dialWindow {
			pending = true
		}
		if c.cDone && !c.counted {
			c.counted = true
			e.doneCalls++
			if c.reached == 1 && c.affected == "" && c.sentOK == len(c.sc.Reply.Msgs) {
				e.backends[c.bIdx].completedOK = true
				if c.recovering {
					r.Probe("call_completed_after_outage")
				}
			}
		}
		var s string
		if c.affected != "" {
			s = fmt.Sprintf("affected(%s) reached=%d done=%v", c.affected, c.reached, c.cDone)
		} else {
			s = fmt.Sprintf("reached=%d sent=%d closesend=%v backend-got=%d eof=%v replies=%d backend-done=%v caller-got=%d done=%v",
				c.reached, c.nextSend, c.closeSent, len(c.bRecv), c.bEOF, c.nextReply, c.bDone, len(c.cRecv), c.cDone)
			if c.cDone {
				s += " code=" + c.cCode.String()
			}
			if c.reached > 0 {
				s += " at=" + e.backends[c.bIdx].key
			}
		}
		if s != c.summary {
			c.summary = s
			r.Tracef("call %d %s", c.sc.ID, s)
		}
	}
	// a backend becomes "armed" once a call to it completed undisturbed and nobody is between lookup and backend any
	// more: from then on a healthy pooled connection exists and every new dial to it is a failure to reuse.
	for _, b := range e.backends {
		if !b.armed && b.completedOK && !pending && b.present && !b.down && !b.redialOK && (!b.everAbsent || now.Sub(b.lastAbsent) > e.bound) {
			b.armed = true
			r.Probe("reuse_armed")
			if b.outages > 0 {
				r.Probe("reuse_armed_after_outage")
			}
		}
	}
	var st strings.Builder
	fmt.Fprintf(&st, "t%d", e.table)
	for _, b := range e.backends {
		st.WriteString(" " + b.summary)
	}
	for _, c := range e.calls {
		fmt.Fprintf(&st, "|%v %d %d %v", c.started, c.reached, c.nextReply, c.cDone)
	}
	r.State(st.String())
}

func (e *c16Env) mainDone() bool {
	e.mu.Lock()
	defer e.mu.Unlock()
	for _, c := range e.calls {
		if !c.cDone {
			return false
		}
	}
	return true
}

func (e *c16Env) cleanupPending() bool {
	e.mu.Lock()
	defer e.mu.Unlock()
	for _, b := range e.backends {
		if b.present {
			continue
		}
		for _, cn := range e.net.Conns(b.key) {
			if !cn.IsClosed() {
				return true
			}
		}
	}
	return false
}

// outagePending: a backend that had an outage is not back for longer than the bound yet (what fabio holds may
// still be reconnecting), or a surplus of connections to some backend is being timed.
func (e *c16Env) outagePending() bool {
	e.mu.Lock()
	defer e.mu.Unlock()
	now := time.Now()
	for _, b := range e.backends {
		if b.outages > 0 && !b.down && !now.After(b.upAt.Add(e.bound)) {
			return true
		}
		if !b.excessSince.IsZero() && !b.excessReported {
			return true
		}
	}
	return false
}

// ---------------------------------------------------------------- the run

func runC16(r *simcore.Run) {
	sc := c16Gen(r.Gen, r.Thorough())
	r.SetSample(sc)

	cfg := &config.Config{}
	cfg.Proxy.Strategy = "rr"
	cfg.Proxy.Matcher = "prefix"
	cfg.GlobCacheSize = 100
	cfg.Proxy.GRPCMaxRxMsgSize = sc.MaxRx
	cfg.Proxy.GRPCMaxTxMsgSize = sc.MaxTx
	cfg.Proxy.GRPCGShutdownTimeout = sc.ShutdownTimeout

	e := &c16Env{r: r, sc: sc, cfg: cfg, stop: make(chan struct{}), bound: c16SweepSlack + sc.ShutdownTimeout}
	// a message is within the configured limits on all four legs when it is no larger than both options
	e.limit = sc.MaxRx
	if sc.MaxTx < e.limit {
		e.limit = sc.MaxTx
	}
	if len(sc.Boundary) > 0 || sc.MaxRx != c16DocDefaultLimit || sc.MaxTx != c16DocDefaultLimit {
		r.Tracef("limits rx=%d tx=%d boundary messages=%d", sc.MaxRx, sc.MaxTx, len(sc.Boundary))
	}
	e.d = simcore.NewDriver(r)
	d := e.d
	d.Stick = sc.Stick
	// the sweeper is an endless loop; after the end of the run it leaves at the first statement past this budget
	// (a handler executes fewer than 60 statements of fabio code in total)
	d.Sim.StopBudget = 300
	d.TraceTasks = true
	e.net = simnet.New(r)
	e.net.R = nil // no traces from inside grpc's goroutines; the driver prints the accounting at quiescent states
	d.Sim.Activate("proxy:*grpcConnectionPool", "proxy:GetGRPCDirector")

	// package-level state of fabio and of the dial seam, reset for every run
	// grpc-go's reconnect backoff (documented defaults: 1s growing by 1.6 up to 120s) is kept, but its jitter is
	// drawn from math/rand and would make the instants of reconnection after an outage irreproducible: pinned to 0
	reconnect := grpcbackoff.DefaultConfig
	reconnect.Jitter = 0
	proxy.ZZGrpcDialOptions = func() []grpc.DialOption {
		return []grpc.DialOption{grpc.WithContextDialer(func(ctx context.Context, addr string) (net.Conn, error) {
			// addr is the address grpc-go hands to the network: for the pass-through targets fabio uses, the
			// target's host:port as fabio gave it
			key, err := c16DialKey(addr)
			if err != nil {
				e.mu.Lock()
				seen := false
				for _, a := range e.badAddr {
					seen = seen || a == addr
				}
				if !seen {
					e.badAddr = append(e.badAddr, addr)
				}
				e.mu.Unlock()
				return nil, err
			}
			return e.net.Dial(ctx, nil, key, 0)
		}), grpc.WithConnectParams(grpc.ConnectParams{Backoff: reconnect, MinConnectTimeout: 20 * time.Second})}
	}
	proxy.ZZGrpcOnDial = func(target string, cc *grpc.ClientConn, err error) {
		if err == nil {
			e.mu.Lock()
			e.dials = append(e.dials, c16Dial{target, cc})
			e.mu.Unlock()
		}
	}
	defer func() { proxy.ZZGrpcDialOptions, proxy.ZZGrpcOnDial = nil, nil }()

	for i, key := range sc.Backends {
		b := &c16Backend{key: key, idx: i}
		e.backends = append(e.backends, b)
	}
	e.install(0)
	for _, b := range e.backends {
		// a backend that the first table does not name counts as "has been absent": the sweeper may act on
		// a snapshot of that table later
		b.everAbsent = !b.present
		b.absentSince, b.lastAbsent = time.Time{}, time.Time{}
		if !b.present {
			b.absentSince, b.lastAbsent = time.Now(), time.Now()
		}
	}
	for i := range sc.Calls {
		e.calls = append(e.calls, &c16CallState{sc: &sc.Calls[i], ccmd: make(chan int, 4), bcmd: make(chan int, 4)})
	}

	// fabio's gRPC server: exactly the options of main.newGrpcProxy, built inside a task so that the pool's sweeper
	// (go cp.cleanup()) is a child task and is scheduled statement by statement
	dp := metrics.DiscardProvider{}
	stats := &proxy.GrpcStatsHandler{Connect: dp.NewCounter("grpc.conn"), Request: dp.NewHistogram("grpc.requests"),
		NoRoute: dp.NewCounter("grpc.noroute"), Status: dp.NewHistogram("grpc.status", "code")}
	var opts []grpc.ServerOption
	initTask := d.Sim.Spawn("init", func() { opts = newGrpcProxy(cfg, nil, stats) })
	if !d.Run(2000, initTask.Done) {
		r.Trouble("newGrpcProxy did not return: %v", d.Sim.TaskStates())
		e.teardown()
		return
	}
	opts = append(opts, grpc.ChainStreamInterceptor(e.adopt))
	e.srv = grpc.NewServer(opts...)
	ln, err := e.net.Listen(c16FabioAddr, simnet.ListenOpts{Auto: true})
	if err != nil {
		r.Trouble("listen: %v", err)
		e.teardown()
		return
	}
	go e.srv.Serve(ln)

	for _, b := range e.backends {
		bl, err := e.net.Listen(b.key, simnet.ListenOpts{Auto: true})
		if err != nil {
			r.Trouble("listen %s: %v", b.key, err)
			e.teardown()
			return
		}
		b.ln = bl
		b.srv = grpc.NewServer(grpc.ForceServerCodec(c16Codec{}), grpc.UnknownServiceHandler(e.backendHandler(b)), grpc.MaxRecvMsgSize(c16StubLimit))
		go b.srv.Serve(bl)
	}
	for i := 0; i < sc.Callers; i++ {
		i := i
		nconn := 0
		cc, err := grpc.NewClient("passthrough:///"+c16FabioAddr, grpc.WithTransportCredentials(insecure.NewCredentials()),
			grpc.WithDefaultCallOptions(grpc.MaxCallRecvMsgSize(c16StubLimit)),
			grpc.WithContextDialer(func(ctx context.Context, addr string) (net.Conn, error) {
				from := &net.TCPAddr{IP: net.IPv4(192, 0, 2, byte(10+i)), Port: 5000 + nconn}
				nconn++
				return e.net.Dial(ctx, from, addr, 0)
			}))
		if err != nil {
			r.Trouble("caller: %v", err)
			e.teardown()
			return
		}
		e.callers = append(e.callers, cc)
	}

	d.Invariant = e.observe
	d.AddSource(e.events)

	// main phase: every call runs to its end
	steps := 0
	for ; steps < 30000; steps++ {
		synctest.Wait()
		if e.mainDone() {
			break
		}
		if !d.Step() {
			break
		}
	}
	synctest.Wait()
	e.observe()
	if !e.mainDone() {
		e.mu.Lock()
		var stuck []string
		for _, c := range e.calls {
			if !c.cDone {
				stuck = append(stuck, fmt.Sprintf("call %d %s", c.sc.ID, c.summary))
				if c.started && c.affected == "" {
					r.Fail("transparency", "call-never-completes", "call %d (%s %s) was not completed although no fault touched it and every peer acted: %s", c.sc.ID, c.sc.Kind, c.sc.Method, c.summary)
				}
			}
		}
		e.mu.Unlock()
		if !r.Failed() {
			r.Trouble("calls did not finish after %d steps: %v tasks: %v", steps, stuck, d.Sim.TaskStates())
		}
		e.teardown()
		return
	}

	// settle phase: the remaining table changes happen, then the sweeper gets the time the bound allows
	e.settling = true
	if e.outage == 1 {
		// the backend is still down: time may pass only while no task stands at a statement of fabio code
		for i := 0; i < 2000; i++ {
			synctest.Wait() // the task released by the previous step has reached its next yield (or a real block)
			if len(d.Sim.Enabled()) == 0 || !d.Step() {
				break
			}
		}
		r.Tracef("op fault:outage-end (after the calls)")
		e.endOutage()
		synctest.Wait()
		e.observe()
	}
	for e.nextChange < len(sc.Changes) {
		ch := sc.Changes[e.nextChange]
		e.nextChange++
		r.Tracef("op table:%d (after the calls)", ch.Table)
		e.install(ch.Table)
		synctest.Wait()
		e.observe()
	}
	deadline := time.Now().Add(e.bound + 10*time.Second)
	if e.outage == 2 {
		// fabio's connections get the bound to reconnect to the backend that has returned, and a surplus among them
		// must outlast another bound before it counts
		deadline = deadline.Add(e.bound + 10*time.Second)
	}
	for i := 0; i < 40000 && (e.cleanupPending() || e.outagePending()) && !r.Failed(); i++ {
		if d.Step() {
			continue
		}
		if time.Now().After(deadline) {
			break
		}
		d.Advance(2 * time.Second)
	}
	synctest.Wait()
	e.observe()

	e.check()
	e.teardown()
}

func c16Prefix(got, sent [][]byte) bool {
	if len(got) > len(sent) {
		return false
	}
	for i := range got {
		if !bytes.Equal(got[i], sent[i]) {
			return false
		}
	}
	return true
}

func c16FirstDiff(got, sent [][]byte) string {
	for i := range got {
		if i >= len(sent) {
			return fmt.Sprintf("message %d was never sent", i)
		}
		if !bytes.Equal(got[i], sent[i]) {
			return fmt.Sprintf("message %d: %d bytes received, %d bytes sent, equal prefix %d", i, len(got[i]), len(sent[i]), commonPrefix(got[i], sent[i]))
		}
	}
	return fmt.Sprintf("%d messages received, %d sent", len(got), len(sent))
}

// c16MDCheck reports the first key of want whose values did not arrive unchanged and in order.
func c16MDCheck(want metadata.MD, got metadata.MD) string {
	var keys []string
	for k := range want {
		keys = append(keys, k)
	}
	sort.Strings(keys)
	for _, k := range keys {
		if fmt.Sprintf("%q", want[k]) != fmt.Sprintf("%q", got[k]) {
			return fmt.Sprintf("%s: sent %q, received %q", k, want[k], got[k])
		}
	}
	return ""
}

func c16KeyKind(diff string) string {
	k, _, _ := strings.Cut(diff, ":")
	switch {
	case strings.HasSuffix(k, "-bin"):
		return "binary"
	case k == "dsthost":
		return "dsthost"
	}
	return "ascii"
}

func (e *c16Env) check() {
	r := e.r
	e.mu.Lock()
	defer e.mu.Unlock()
	for _, s := range e.stray {
		r.Fail("transparency", "unknown-call-at-backend", "%s", s)
	}
	for _, c := range e.calls {
		sc := c.sc
		what := fmt.Sprintf("call %d (%s %s dsthost=%q)", sc.ID, sc.Kind, sc.Method, sc.DstHost)
		if !c.started {
			continue
		}
		if len(c.expect) == 0 {
			// no matching route
			r.Probe("call_without_route")
			if c.reached > 0 {
				r.Fail("noroute", "backend-contacted", "%s matches no route of table %d but backend %s received it", what, c.startTable, e.backends[c.bIdx].key)
			}
			if c.cCode != codes.NotFound {
				r.Fail("noroute", "status", "%s matches no route of table %d: the caller got %s %q, not NotFound", what, c.startTable, c.cCode, c.cMsg)
			}
			continue
		}
		if c.reached > 1 {
			r.Fail("transparency", "delivered-more-than-once", "%s reached a backend %d times", what, c.reached)
			continue
		}
		if c.tableChanged {
			r.Probe("call_routing_window_saw_table_change")
		}
		if c.noRouteOK && c.reached == 0 && c.cCode == codes.NotFound {
			// a table without a matching route was active while the call was being routed
			r.Probe("call_relaxed_no-route-table-in-window")
			continue
		}
		if c.reached == 1 {
			ok := false
			for _, x := range c.expect {
				if x == c.bIdx {
					ok = true
				}
			}
			if !ok {
				var names []string
				for _, x := range c.expect {
					names = append(names, e.backends[x].key)
				}
				r.Fail("routing", "wrong-backend", "%s arrived at %s; the matching route of table %d has the backends %v", what, e.backends[c.bIdx].key, c.startTable, names)
			}
			if c.bMethod != sc.Method {
				r.Fail("transparency", "method", "%s: the backend saw method %q", what, c.bMethod)
			}
			want := c16MD(sc.MD)
			want.Append(c16CallKey, strconv.Itoa(sc.ID))
			if sc.DstHost != "" {
				want.Append("dsthost", sc.DstHost)
			}
			if diff := c16MDCheck(want, c.bMD); diff != "" {
				r.Fail("transparency", "request-metadata/"+c16KeyKind(diff), "%s: custom metadata did not reach the backend unmodified: %s", what, diff)
			}
			if !c16Prefix(c.bRecv, sc.Msgs[:c.nextSend]) {
				r.Fail("transparency", "request-messages", "%s: the backend did not receive the caller's messages in order and unmodified: %s", what, c16FirstDiff(c.bRecv, sc.Msgs[:c.nextSend]))
			}
			if !c16Prefix(c.cRecv, sc.Reply.Msgs[:c.nextReply]) {
				r.Fail("transparency", "reply-messages", "%s: the caller did not receive the backend's messages in order and unmodified: %s", what, c16FirstDiff(c.cRecv, sc.Reply.Msgs[:c.nextReply]))
			}
		}
		if c.affected != "" {
			r.Probe("call_relaxed_" + c.affected)
			continue
		}
		if c.recovering && c.reached == 0 && c.cCode == codes.Unavailable {
			// the backend was back but fabio's connection had not reconnected yet: the one excuse of a call
			// that starts within the bound after an outage; any other outcome is compared strictly
			r.Probe("call_relaxed_backend-recovering")
			continue
		}
		r.Nontrivial()
		if c.reached == 0 {
			r.Fail("routing", "not-forwarded", "%s matches a route of table %d but no backend received it; the caller got %s %q", what, c.startTable, c.cCode, c.cMsg)
			continue
		}
		if c.cCode == codes.ResourceExhausted && (!c.bDone || c.bAborted || sc.Reply.Code != int(codes.ResourceExhausted)) {
			// not the backend's status: somebody between the peers refused a message although every message of
			// this call is within both configured limits (the largest one sent had c.largest bytes)
			r.Fail("transparency", "message-within-limits-refused", "%s: every message sent is within proxy.grpcmaxrxmsgsize=%d and proxy.grpcmaxtxmsgsize=%d (largest %d bytes; %d of %d request and %d of %d reply messages sent), yet the caller got %s %q, which is not the backend's status",
				what, e.sc.MaxRx, e.sc.MaxTx, c.largest, c.nextSend, len(sc.Msgs), c.nextReply, len(sc.Reply.Msgs), c.cCode, c.cMsg)
			continue
		}
		if !c.bDone || c.bAborted {
			r.Fail("transparency", "backend-aborted", "%s: the backend's stream was cancelled before it had played its reply (caller got %s %q) although no fault was injected", what, c.cCode, c.cMsg)
			continue
		}
		if c.bAfterEOF && (len(c.bRecv) != len(sc.Msgs) || c.sendErrs > 0) {
			r.Fail("transparency", "request-messages", "%s: the backend saw the end of the caller's stream after %d of %d messages", what, len(c.bRecv), len(sc.Msgs))
		}
		if c.cCode != codes.Code(sc.Reply.Code) {
			r.Fail("transparency", "status-code", "%s: the backend finished with %s %q, the caller got %s %q", what, codes.Code(sc.Reply.Code), sc.Reply.Msg, c.cCode, c.cMsg)
		} else if c.cMsg != sc.Reply.Msg {
			sig := "status-message"
			if strings.Contains(sc.Reply.Msg, "%") {
				sig += "/percent"
			}
			r.Fail("transparency", sig, "%s: the backend finished with %s %q, the caller got message %q", what, codes.Code(sc.Reply.Code), sc.Reply.Msg, c.cMsg)
		}
		if len(c.cRecv) != len(sc.Reply.Msgs) {
			r.Fail("transparency", "reply-messages", "%s: the backend sent %d messages, the caller received %d", what, len(sc.Reply.Msgs), len(c.cRecv))
		}
		if diff := c16MDCheck(c16MD(sc.Reply.Trailer), c.cTrailer); diff != "" {
			r.Fail("transparency", "trailer/"+c16KeyKind(diff), "%s: the backend's trailers did not reach the caller unmodified: %s", what, diff)
		}
		if len(sc.Reply.Msgs) >= 1 {
			r.Probe("headers_checked")
			if diff := c16MDCheck(c16MD(sc.Reply.Header), c.cHeader); diff != "" {
				r.Fail("transparency", "header/"+c16KeyKind(diff), "%s: the backend sent %d message(s) but its header metadata did not reach the caller unmodified: %s", what, len(sc.Reply.Msgs), diff)
			}
		}
		if sc.Reply.Code != 0 && strings.Contains(sc.Reply.Msg, "%") {
			r.Probe("status_message_with_percent")
		}
		switch c16Shape(e.backends[c.bIdx].key) {
		case c16ShapeIPv4:
			r.Probe("compared_call_at_ipv4_backend")
		case c16ShapeIPv6:
			r.Probe("compared_call_at_ipv6_backend")
			if e.sc.Written[c.bIdx] != e.sc.Backends[c.bIdx] {
				r.Probe("compared_call_at_ipv6_backend_in_another_spelling")
			}
		}
		for _, n := range sc.Sizes {
			if n > 60000 {
				r.Probe("message_above_60k")
			}
		}
		if len(e.sc.Boundary) > 0 {
			switch {
			case c.largest > c16DocDefaultLimit:
				r.Probe("compared_call_with_message_above_default_limit")
			case c.largest > e.limit-5001 && e.limit < c16DocDefaultLimit:
				r.Probe("compared_call_with_message_at_lowered_limit")
			case c.largest > e.limit-5001:
				r.Probe("compared_call_with_message_at_default_limit")
			}
		}
	}
}

func (e *c16Env) teardown() {
	close(e.stop)
	e.d.Invariant = nil
	e.d.Sim.Stop()
	synctest.Wait()
	e.mu.Lock()
	calls, callers, dials, backends := e.calls, e.callers, e.dials, e.backends
	e.mu.Unlock()
	for _, c := range calls {
		e.mu.Lock()
		cancel := c.cancel
		e.mu.Unlock()
		if cancel != nil {
			cancel()
		}
	}
	for _, cc := range callers {
		cc.Close()
	}
	if e.srv != nil {
		e.srv.Stop()
	}
	synctest.Wait()
	e.mu.Lock()
	dials = e.dials
	e.mu.Unlock()
	for _, dl := range dials {
		dl.cc.Close()
	}
	for _, b := range backends {
		if b.srv != nil {
			b.srv.Stop()
		}
	}
	e.net.Shutdown()
	e.d.Finish()
	route.SetTable(make(route.Table))
}

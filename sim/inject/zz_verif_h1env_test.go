//go:build verif

package main

// H1 — the registry pipeline in simulation: the real consul backend
// (ServiceMonitor.Watch, makeConfig/serviceConfig, passingServices, routecmd,
// watchKV) on a real hashicorp/consul/api client talking to simconsul, and the
// real main.watchBackend installing tables. The driver decides when each
// Consul request is answered (and whether it fails), which pending config
// watchBackend receives next, and when the clock moves.

import (
	"bytes"
	"fmt"
	"net"
	"net/netip"
	"reflect"
	"sort"
	"strconv"
	"strings"
	"sync"
	"testing/synctest"
	"time"

	"github.com/fabiolb/fabio/config"
	"github.com/fabiolb/fabio/internal/zzverif/simconsul"
	"github.com/fabiolb/fabio/internal/zzverif/simcore"
	"github.com/fabiolb/fabio/internal/zzverif/simhook"
	"github.com/fabiolb/fabio/registry"
	"github.com/fabiolb/fabio/registry/consul"
	"github.com/fabiolb/fabio/route"
)

// h1Relay wraps the real backend: configs emitted by the watchers are held (one
// per channel) until the driver hands them to watchBackend.
type h1Relay struct {
	registry.Backend
	mu       sync.Mutex
	svcOut   chan string
	manOut   chan string
	pendSvc  *string
	pendMan  *string
	svcTaken chan struct{}
	manTaken chan struct{}
	SvcSeen  []string // every service config emitted by the watcher, in order
	ManSeen  []string
	SvcGiven []string // configs handed to watchBackend, in order
	ManGiven []string
	Order    []byte // 's' / 'm' per hand-over, in order
	stop     chan struct{}
	// consumer model: open is closed while watchBackend is ready to receive, shut is closed while it is busy
	// (exactly one of the two is closed at any time); busy only ever changes at the driver's quiescent states
	open, shut chan struct{}
	busy       bool
}

func (w *h1Relay) Register([]string) error { return nil }
func (w *h1Relay) DeregisterAll() error    { return nil }

func (w *h1Relay) WatchServices() chan string {
	go w.pump(w.Backend.WatchServices(), &w.pendSvc, &w.SvcSeen, w.svcTaken)
	return w.svcOut
}

func (w *h1Relay) WatchManual() chan string {
	go w.pump(w.Backend.WatchManual(), &w.pendMan, &w.ManSeen, w.manTaken)
	return w.manOut
}

// pump stands for watchBackend's receive on one watcher channel: it takes a value from the watcher only while the
// consumer is ready (gate open), holds it until the driver hands it to watchBackend, and takes nothing while the
// consumer is busy: the watcher then meets exactly what it meets when the real watchBackend is between two receives
// (a blocked send on fabio's unbuffered channel; whatever a changed fabio does with a consumer that does not receive).
func (w *h1Relay) pump(in chan string, pend **string, seen *[]string, taken chan struct{}) {
	for {
		open, _ := w.gates()
		select {
		case <-open:
		case <-w.stop:
			return
		}
		_, shut := w.gates()
		select {
		case v, ok := <-in:
			if !ok {
				return
			}
			w.mu.Lock()
			*pend = &v
			*seen = append(*seen, v)
			w.mu.Unlock()
			select {
			case <-taken:
			case <-w.stop:
				return
			}
		case <-shut: // the consumer became busy before the watcher had anything to send
		case <-w.stop:
			return
		}
	}
}

func (w *h1Relay) gates() (open, shut chan struct{}) {
	w.mu.Lock()
	defer w.mu.Unlock()
	return w.open, w.shut
}

// setBusy is called by the driver at quiescent states only.
func (w *h1Relay) setBusy(b bool) {
	w.mu.Lock()
	defer w.mu.Unlock()
	if b == w.busy {
		return
	}
	w.busy = b
	if b {
		w.open = make(chan struct{})
		close(w.shut)
	} else {
		w.shut = make(chan struct{})
		close(w.open)
	}
}

type h1Install struct {
	Table   route.Table
	Svc     int // number of service configs handed to watchBackend before this install
	Man     int
	At      time.Time
	Text    string
	Pointer uintptr
}

type h1Env struct {
	r     *simcore.Run
	d     *simcore.Driver
	sc    *simconsul.Server
	relay *h1Relay
	ccfg  *config.Consul
	cfg   *config.Config
	first chan bool
	cur   uintptr
	Inst  []h1Install
	wb    *simhook.Task
	// Consumer-busy model (optional, set before start): after a hand-over watchBackend stays busy - it receives from
	// neither channel, as the real one does while it registers aliases with Consul and builds the table - until
	// Progress() has grown by Hold() or nothing else is enabled. Hold == nil: never busy (the relays always receive).
	Hold      func() int
	Progress  func() int
	holdUntil int
	// HoldTime: a busy period that ends because nothing else can happen first lets that much simulated time pass
	// (the consumer is busy in real time too: timers of the watchers run meanwhile)
	HoldTime  time.Duration
	holdTimed bool
}

func tablePtr(t route.Table) uintptr { return reflect.ValueOf(t).Pointer() }

func h1NewEnv(r *simcore.Run, ccfg *config.Consul) *h1Env {
	e := &h1Env{r: r, ccfg: ccfg}
	e.d = simcore.NewDriver(r)
	e.sc = simconsul.New(r)
	e.sc.Hint = e.d.Hint
	e.d.AddSource(e.sc.Events)
	return e
}

// start launches watchBackend (as a task whose statements are not scheduled: it
// runs to its next blocking point; its panics are recorded) on a fresh empty table.
func (e *h1Env) start() {
	cl, err := e.sc.Client()
	if err != nil {
		e.r.Trouble("consul client: %v", err)
		e.r.Abort()
	}
	e.relay = &h1Relay{Backend: consul.NewBackendWithClient(cl, e.ccfg, "dc1"), svcOut: make(chan string), manOut: make(chan string),
		svcTaken: make(chan struct{}), manTaken: make(chan struct{}), stop: make(chan struct{}),
		open: make(chan struct{}), shut: make(chan struct{})}
	close(e.relay.open)
	registry.Default = e.relay
	e.cfg = &config.Config{}
	e.cfg.Registry.Backend = "consul"
	e.cfg.Log.RoutesFormat = "delta"
	empty := make(route.Table)
	route.SetTable(empty)
	e.cur = tablePtr(empty)
	e.first = make(chan bool)
	e.wb = e.d.Sim.Spawn("watchBackend", func() { watchBackend(e.cfg, nil, e.first) })
	e.d.AddSource(e.relayEvents)
	e.d.Invariant = e.observe
}

func (e *h1Env) relayEvents() []simcore.Event {
	w := e.relay
	w.mu.Lock()
	defer w.mu.Unlock()
	if e.wb.Done() {
		return nil // watchBackend is gone (its panic has been recorded)
	}
	if e.wb.Parked() {
		return nil // watchBackend is in the middle of processing the previous hand-over (statement-level runs)
	}
	var ev []simcore.Event
	if w.busy {
		// watchBackend is busy with the previous hand-over: it receives nothing
		if e.Progress() >= e.holdUntil {
			ev = append(ev, simcore.Event{Key: "relay:ready", Weight: 5, Fire: func() { e.releaseHold(false) }})
		}
		return ev
	}
	if w.pendSvc != nil {
		ev = append(ev, simcore.Event{Key: "relay:svc", Weight: 3, Fire: func() {
			w.mu.Lock()
			v := *w.pendSvc
			w.pendSvc = nil
			w.SvcGiven = append(w.SvcGiven, v)
			w.Order = append(w.Order, 's')
			w.mu.Unlock()
			e.r.Tracef("watchBackend <- svc #%d (%d bytes)", len(w.SvcGiven), len(v))
			w.svcOut <- v
			e.startHold()
			w.svcTaken <- struct{}{}
		}})
	}
	if w.pendMan != nil {
		ev = append(ev, simcore.Event{Key: "relay:man", Weight: 3, Fire: func() {
			w.mu.Lock()
			v := *w.pendMan
			w.pendMan = nil
			w.ManGiven = append(w.ManGiven, v)
			w.Order = append(w.Order, 'm')
			w.mu.Unlock()
			e.r.Tracef("watchBackend <- man #%d (%d bytes)", len(w.ManGiven), len(v))
			w.manOut <- v
			e.startHold()
			w.manTaken <- struct{}{}
		}})
	}
	return ev
}

// startHold: watchBackend has just received a config; from now on it is busy for Hold() semantic events.
func (e *h1Env) startHold() {
	if e.Hold == nil {
		return
	}
	h := e.Hold()
	if h <= 0 {
		return
	}
	synctest.Wait() // watchBackend has run to its next receive (or parked at a statement)
	e.holdUntil = e.Progress() + h
	e.holdTimed = false
	e.relay.setBusy(true)
	e.r.Probe("consumer_busy")
	e.r.Tracef("watchBackend busy for %d events", h)
}

// releaseHold ends a busy period (its events have passed, or nothing else can happen); it reports whether there was
// one. With timeOK a busy period that is cut short because nothing else can happen first lasts HoldTime on the clock.
func (e *h1Env) releaseHold(timeOK bool) bool {
	if e.relay == nil || !e.relay.busy {
		return false
	}
	if timeOK && e.HoldTime > 0 && !e.holdTimed && e.Progress() < e.holdUntil {
		e.holdTimed = true
		e.d.Advance(e.HoldTime)
		return true
	}
	e.relay.setBusy(false)
	e.r.Tracef("watchBackend ready")
	synctest.Wait()
	return true
}

// observe runs at every quiescent state: records table installs.
func (e *h1Env) observe() {
	t := route.GetTable()
	p := tablePtr(t)
	if p == e.cur {
		return
	}
	e.cur = p
	w := e.relay
	w.mu.Lock()
	in := h1Install{Table: t, Svc: len(w.SvcGiven), Man: len(w.ManGiven), At: time.Now(), Text: t.String(), Pointer: p}
	w.mu.Unlock()
	e.Inst = append(e.Inst, in)
	e.r.Tracef("install #%d after svc#%d man#%d: %d routes", len(e.Inst), in.Svc, in.Man, strings.Count(in.Text, "\n")+1)
}

// settle runs until nothing is enabled and then lets simulated time pass (blocking
// queries reach their wait limit, retry sleeps end) for at least quiet.
func (e *h1Env) settle(maxSteps int, quiet time.Duration) {
	start := time.Now()
	for i := 0; i < maxSteps; i++ {
		synctest.Wait()
		if e.d.Step() {
			continue
		}
		if e.releaseHold(time.Since(start) < quiet) {
			continue // nothing else could happen: the busy consumer comes back
		}
		if time.Since(start) >= quiet {
			return
		}
		if !e.d.IdleAdvance(48 * time.Hour) {
			return
		}
	}
	e.r.Trouble("pipeline did not settle within %d steps", maxSteps)
}

func (e *h1Env) finish() {
	close(e.relay.stop)
	e.sc.Stop()
	// tasks now exit at their next statement; wake watchBackend out of its select
	e.d.Sim.Stop()
	close(e.relay.svcOut)
	close(e.relay.manOut)
	synctest.Wait()
	e.d.Finish()
}

// ---- reference model: which commands follow from a registry view ----

type h1Cmd struct {
	Service string
	Src     string
	Dst     string
	Weight  float64
	Tags    []string
	Opts    map[string]string
}

func (c h1Cmd) String() string {
	var ks []string
	for k, v := range c.Opts {
		ks = append(ks, k+"="+v)
	}
	sort.Strings(ks)
	// every tag is quoted on its own: ["a,b"] and ["a","b"] are different registrations
	return fmt.Sprintf("add svc=%s src=%s dst=%s w=%g tags=%q opts=%q", c.Service, c.Src, h1NormDst(c.Dst), c.Weight, c.Tags, strings.Join(ks, " "))
}

// h1ParseCmds parses route command text with fabio's own parser into comparable strings.
func h1ParseCmds(text string) ([]string, error) {
	defs, err := route.Parse(bytes.NewBufferString(text))
	if err != nil {
		return nil, err
	}
	var out []string
	for _, d := range defs {
		if d.Cmd != route.RouteAddCmd {
			out = append(out, fmt.Sprintf("%s %v", d.Cmd, *d))
			continue
		}
		out = append(out, h1Cmd{Service: d.Service, Src: d.Src, Dst: d.Dst, Weight: d.Weight, Tags: d.Tags, Opts: d.Opts}.String())
	}
	sort.Strings(out)
	return out, nil
}

// h1NormDst: "http://h:1/" and "http://h:1" denote the same destination. Host and port of a destination are what
// net.SplitHostPort makes of the authority (an IPv6 literal stands in brackets): two destinations whose authorities
// split into the same IP address (or the same host name, case-insensitively) and the same port number are the same;
// an authority that does not split into host and port is compared as the text it is.
func h1NormDst(d string) string {
	if i := strings.Index(d, "://"); i > 0 && strings.Count(d[i+3:], "/") == 1 && strings.HasSuffix(d, "/") {
		d = strings.TrimSuffix(d, "/")
	}
	i := strings.Index(d, "://")
	if i <= 0 {
		return d
	}
	auth, tail := d[i+3:], ""
	if j := strings.IndexAny(auth, "/?#"); j >= 0 {
		auth, tail = auth[:j], auth[j:]
	}
	if strings.Contains(auth, "@") {
		return d
	}
	host, port, err := net.SplitHostPort(auth)
	if err != nil {
		return d
	}
	if ip, err := netip.ParseAddr(host); err == nil {
		host = ip.String()
	} else {
		host = strings.ToLower(host)
	}
	if n, err := strconv.Atoi(port); err == nil && n >= 0 && !strings.HasPrefix(port, "+") {
		port = strconv.Itoa(n)
	}
	return d[:i+3] + net.JoinHostPort(host, port) + tail
}
